/-
C05 — lemmas for the bit-level functions of ww.c (ModelBits) and the word helpers (ModelWord).

Technique: a multi-word number is compared with its specification bit by bit
(`Nat.eq_of_testBit_eq`); `testBit_val` reads bit k of ⟦a⟧ as bit `k % w` of word `k / w`.
-/
import Bee2V.C05.ModelBits
import Mathlib.Tactic.Ring
import Mathlib.Tactic.Linarith
import Mathlib.Tactic.NormNum
namespace Bee2V.C05

theorem testBit_val {w : Nat} (hw : 0 < w) : ∀ (a : List Nat), Wf w a → ∀ k,
    (val w a).testBit k = (a.getD (k / w) 0).testBit (k % w) := by
  intro a
  induction a with
  | nil => intro _ k; simp [val]
  | cons x xs ih =>
    intro h k
    obtain ⟨hx, hxs⟩ := Wf_cons.mp h
    rw [val_cons, Nat.add_comm, Nat.testBit_two_pow_mul_add _ hx]
    split
    · rename_i hk
      rw [Nat.div_eq_of_lt hk, Nat.mod_eq_of_lt hk]; rfl
    · rename_i hk
      have hk : w ≤ k := Nat.le_of_not_lt hk
      rw [ih hxs (k - w)]
      have h1 : k / w = (k - w) / w + 1 := by
        have h3 : k = (k - w) + w := by omega
        conv_lhs => rw [h3]
        exact Nat.add_div_right _ hw
      have h2 : (k - w) % w = k % w := by
        rw [← Nat.mod_eq_sub_mod hk]
      rw [h1, h2]; rfl


theorem testBit_high {x w i : Nat} (h : x < 2 ^ w) (hi : w ≤ i) : x.testBit i = false :=
  Nat.testBit_lt_two_pow (Nat.lt_of_lt_of_le h (Nat.pow_le_pow_right (by decide) hi))

theorem getD_lt {w : Nat} {a : List Nat} (h : Wf w a) (i : Nat) : a.getD i 0 < 2 ^ w := by
  by_cases hi : i < a.length
  · rw [List.getD_eq_getElem?_getD, List.getElem?_eq_getElem hi]; exact h _ (List.getElem_mem hi)
  · rw [List.getD_eq_getElem?_getD, List.getElem?_eq_none (Nat.le_of_not_lt hi)]
    exact Nat.two_pow_pos w

theorem idx_lo {w : Nat} (hw : 0 < w) (n r : Nat) (hr : r < w) :
    (w * n + r) / w = n ∧ (w * n + r) % w = r := by
  constructor
  · rw [Nat.mul_add_div hw, Nat.div_eq_of_lt hr]; rfl
  · rw [Nat.mul_add_mod, Nat.mod_eq_of_lt hr]

theorem idx_hi {w : Nat} (hw : 0 < w) (n r : Nat) (h1 : w ≤ r) (h2 : r < 2 * w) :
    (w * n + r) / w = n + 1 ∧ (w * n + r) % w = r - w := by
  have : w * n + r = w * (n + 1) + (r - w) := by rw [Nat.mul_add]; omega
  rw [this]
  exact idx_lo hw (n + 1) (r - w) (by omega)

theorem tb_div (x s j : Nat) : (x / 2 ^ s).testBit j = x.testBit (s + j) := by
  rw [Nat.testBit_div_two_pow, Nat.add_comm]

theorem testBit_wshl (w x s j : Nat) :
    (wshl w x s).testBit j = (decide (j < w) && (decide (s ≤ j) && x.testBit (j - s))) := by
  unfold wshl
  rw [Nat.testBit_mod_two_pow, Nat.testBit_mul_two_pow]

theorem wmask_eq {w width : Nat} (h : width < w) : wsub w (wbit w width) 1 = 2 ^ width - 1 := by
  unfold wsub wbit wshl
  have h1 : 2 ^ width < 2 ^ w := Nat.pow_lt_pow_right (by decide) h
  have h2 : 1 < 2 ^ w := Nat.one_lt_two_pow (by omega)
  rw [Nat.one_mul, Nat.mod_eq_of_lt h1, Nat.mod_eq_of_lt h2]
  have h3 : 0 < 2 ^ width := Nat.two_pow_pos _
  have : 2 ^ width + (2 ^ w - 1) = (2 ^ width - 1) + 2 ^ w := by omega
  rw [this, Nat.add_mod_right, Nat.mod_eq_of_lt (by omega)]

/-- wwGetBits returns bits pos … pos + width − 1 of the number.
    Precondition of ww.h: `width ≤ B_PER_W`, W_OF_B(pos + width) words reserved (i.e.
    `pos + width ≤ w * n`); under it only `a[n]` with `n < a.length` is read when `width > 0`
    (for `width = 0` the result is 0 whatever is read). -/
theorem wwGetBits_val {w : Nat} (hw : 0 < w) (a : List Nat) (pos width : Nat) (hwd : width ≤ w)
    (hres : pos + width ≤ w * a.length) (h : Wf w a) :
    wwGetBits w a pos width = (val w a / 2 ^ pos) % 2 ^ width := by
  apply Nat.eq_of_testBit_eq
  intro j
  rw [Nat.testBit_mod_two_pow, tb_div, testBit_val hw a h]
  have hp : pos % w < w := Nat.mod_lt _ hw
  have hpos : pos = w * (pos / w) + pos % w := (Nat.div_add_mod pos w).symm
  generalize hn : pos / w = n at hpos
  generalize hpp : pos % w = p at hpos hp
  have han := getD_lt h n
  have han1 := getD_lt h (n + 1)
  unfold wwGetBits
  simp only [hn, hpp]
  -- the word before masking
  have hpre : ∀ (hjw : j < width),
      (if p + width > w then wshr (a.getD n 0) p ||| wshl w (a.getD (n + 1) 0) (w - p)
        else wshr (a.getD n 0) p).testBit j = (a.getD ((pos + j) / w) 0).testBit ((pos + j) % w) := by
    intro hjw
    have hidx : pos + j = w * n + (p + j) := by omega
    rw [hidx]
    by_cases hpj : p + j < w
    · obtain ⟨e1, e2⟩ := idx_lo hw n (p + j) hpj
      rw [e1, e2]
      split
      · have h1 : ¬ (w - p ≤ j) := by omega
        rw [Nat.testBit_or, tb_div, testBit_wshl]; simp [h1]
      · rw [tb_div]
    · obtain ⟨e1, e2⟩ := idx_hi hw n (p + j) (by omega) (by omega)
      rw [e1, e2]
      have hf : (a.getD n 0).testBit (p + j) = false := testBit_high han (by omega)
      have hc : p + width > w := by omega
      have h1 : j < w := by omega
      have h2 : w - p ≤ j := by omega
      have e3 : j - (w - p) = p + j - w := by omega
      rw [if_pos hc, Nat.testBit_or, tb_div, testBit_wshl, hf, e3]; simp [h1, h2]
  by_cases hj : j < width
  · simp only [hj, decide_true, Bool.true_and]
    split
    · rename_i hlt
      rw [wmask_eq hlt, Nat.testBit_and, Nat.testBit_two_pow_sub_one, hpre hj]; simp [hj]
    · exact hpre hj
  · simp only [hj, decide_false, Bool.false_and]
    split
    · rename_i hlt
      rw [wmask_eq hlt, Nat.testBit_and, Nat.testBit_two_pow_sub_one]; simp [hj]
    · -- width = w: the word is below 2^w
      have hww : width = w := by omega
      have hjw : w ≤ j := by omega
      split
      · rw [Nat.testBit_or, tb_div, testBit_wshl, testBit_high han (by omega)]
        have : ¬ j < w := by omega
        simp [this]
      · rw [tb_div, testBit_high han (by omega)]

end Bee2V.C05

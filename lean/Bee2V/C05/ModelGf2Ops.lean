/-
C05 — word-level models of the field operations of src/math/gf2.c as gf2Create installs them:
  gf2MulTrinomial0/1, gf2MulPentanomial, gf2SqrTrinomial0/1, gf2SqrPentanomial
  (`ppMul` / `ppSqr` into `prod` (2n words), the static reduction on `prod`, `wwCopy(c, prod, n)`),
and the selection made by gf2Create (`t->bk == 0 ? …Trinomial0 : …Trinomial1`; pentanomial).
`n = W_OF_B(m)`, the parameter blocks are `Gf2Trinom.create` / `Gf2Pentanom.create` (ModelPpRed).
The reductions of ModelPpRed already return the first n words of `prod` (the `wwCopy`).
No Mathlib (native driver).
-/
import Bee2V.C05.ModelPpMul
import Bee2V.C05.ModelPpRed
namespace Bee2V.C05

def gf2MulTrinomial0 (w : Nat) (p : Gf2Trinom) (a b : List Nat) : List Nat :=
  let n := wOfB w p.m
  gf2RedTrinomial0 w (ppMul w a b) n p
def gf2MulTrinomial1 (w : Nat) (p : Gf2Trinom) (a b : List Nat) : List Nat :=
  let n := wOfB w p.m
  gf2RedTrinomial1 w (ppMul w a b) n p
def gf2MulPentanomial (w : Nat) (p : Gf2Pentanom) (a b : List Nat) : List Nat :=
  let n := wOfB w p.m
  gf2RedPentanomial w (ppMul w a b) n p
def gf2SqrTrinomial0 (w : Nat) (p : Gf2Trinom) (a : List Nat) : List Nat :=
  let n := wOfB w p.m
  gf2RedTrinomial0 w (ppSqr w a) n p
def gf2SqrTrinomial1 (w : Nat) (p : Gf2Trinom) (a : List Nat) : List Nat :=
  let n := wOfB w p.m
  gf2RedTrinomial1 w (ppSqr w a) n p
def gf2SqrPentanomial (w : Nat) (p : Gf2Pentanom) (a : List Nat) : List Nat :=
  let n := wOfB w p.m
  gf2RedPentanomial w (ppSqr w a) n p

/-- `f->mul` as installed by gf2Create for the polynomial x^m + x^k [+ x^l + x^l1] + 1
    (`l = 0`: trinomial, then `l1 = 0`) -/
def gf2Mul (w m k l l1 : Nat) (a b : List Nat) : List Nat :=
  if l = 0 then
    let t := Gf2Trinom.create w m k
    if t.bk = 0 then gf2MulTrinomial0 w t a b else gf2MulTrinomial1 w t a b
  else gf2MulPentanomial w (Gf2Pentanom.create w m k l l1) a b

/-- `f->sqr` as installed by gf2Create -/
def gf2Sqr (w m k l l1 : Nat) (a : List Nat) : List Nat :=
  if l = 0 then
    let t := Gf2Trinom.create w m k
    if t.bk = 0 then gf2SqrTrinomial0 w t a else gf2SqrTrinomial1 w t a
  else gf2SqrPentanomial w (Gf2Pentanom.create w m k l l1) a

end Bee2V.C05

/-
C05 — VALUE-LEVEL code-shaped models of the binary (division-free) algorithms of
  src/math/pp/pp_gcd.c : ppGCD, ppExGCD
  src/math/pp/pp_mod.c : ppDivMod, ppInvMod

Polynomials over GF(2) are Nat-coded (bit i = coefficient of x^i; addition = `^^^`,
multiplication = `Spec.clmul`), not word lists: the word-level steps of these `while` loops —
wwShLo (division by x^k), wwLoZeroBits, wwXor2 (addition), wwCmp2 (comparison of the codes as
integers), wwIsZero, wwTestBit(·, 0), wwWordSize (normalisation of the working lengths) — are
replaced by the values they compute:
  `wwShLo(u, n, wwLoZeroBits(u, n))`       ~  u >>> ppLoZeros u
  `wwShLo(u, n, 1)`                        ~  u / 2
  `wwXor2(u, v, m)`                        ~  u ^^^ v          (v fits into m words)
  `wwCmp2(u, n, v, m) >= 0`                ~  u ≥ v            (as natural numbers)
  `wwTestBit(u, 0) == 0`                   ~  u % 2 = 0
The loops carry exactly the C variables (u, v, da0, db0, da, db).  Recursion is structural on a
fuel argument (kernel-evaluable, compilable); the fuel supplied by the top-level functions is
proved sufficient in PropsPp.lean (all theorems there are about the top-level functions).

No Mathlib (may be imported by the native driver).
-/
import Bee2V.C05.Basic
import Bee2V.C05.Spec
namespace Bee2V.C05

/-- wwLoZeroBits of a non-zero number (fuel `f ≥ log2 n + 1`) -/
def ppLoZerosF : Nat → Nat → Nat
  | 0, _ => 0
  | f + 1, n => if n % 2 = 0 then 1 + ppLoZerosF f (n / 2) else 0
def ppLoZeros (n : Nat) : Nat := ppLoZerosF (n.log2 + 1) n

/-! ## ppGCD -/

/-- the `do … while (!wwIsZero(u, n))` loop of ppGCD; returns `v` -/
def ppGCDLoop : Nat → Nat → Nat → Nat
  | 0, _, v => v
  | f + 1, u, v =>
    let u1 := u >>> ppLoZeros u        -- wwShLo(u, n, wwLoZeroBits(u, n))
    let v1 := v >>> ppLoZeros v
    if u1 ≥ v1 then
      let u2 := u1 ^^^ v1              -- u <- u + v
      if u2 ≠ 0 then ppGCDLoop f u2 v1 else v1
    else
      let v2 := v1 ^^^ u1              -- v <- v + u
      if u1 ≠ 0 then ppGCDLoop f u1 v2 else v2

/-- ppGCD(d, a, n, b, m) for a, b ≠ 0 -/
def ppGCDV (a b : Nat) : Nat :=
  let s := min (ppLoZeros a) (ppLoZeros b)
  let u := a >>> s
  let v := b >>> s
  ppGCDLoop (u.log2 + v.log2 + 3) u v <<< s       -- wwShHi(d, …, s)

/-! ## ppExGCD -/

/-- `for (; wwTestBit(u, 0) == 0; wwShLo(u, nu, 1)) if (da0, db0 even) da0 /= x, db0 /= x
    else da0 = (da0 + bb) / x, db0 = (db0 + aa) / x`; returns (u, da0, db0) -/
def ppHalveEx (aa bb : Nat) : Nat → Nat → Nat → Nat → Nat × Nat × Nat
  | 0, u, da, db => (u, da, db)
  | f + 1, u, da, db =>
    if u % 2 = 0 then
      if da % 2 = 0 ∧ db % 2 = 0 then ppHalveEx aa bb f (u / 2) (da / 2) (db / 2)
      else ppHalveEx aa bb f (u / 2) ((da ^^^ bb) / 2) ((db ^^^ aa) / 2)
    else (u, da, db)

/-- the `do … while (!wwIsZero(u, nu))` loop of ppExGCD; returns (v, da, db) -/
def ppExGCDLoop (aa bb : Nat) : Nat → Nat → Nat → Nat → Nat → Nat → Nat → Nat × Nat × Nat
  | 0, _, v, _, _, da, db => (v, da, db)
  | f + 1, u, v, da0, db0, da, db =>
    let r0 := ppHalveEx aa bb (u.log2 + 1) u da0 db0
    let r1 := ppHalveEx aa bb (v.log2 + 1) v da db
    let u := r0.1; let da0 := r0.2.1; let db0 := r0.2.2
    let v := r1.1; let da := r1.2.1; let db := r1.2.2
    if u ≥ v then
      let u' := u ^^^ v
      let da0' := da0 ^^^ da
      let db0' := db0 ^^^ db
      if u' ≠ 0 then ppExGCDLoop aa bb f u' v da0' db0' da db else (v, da, db)
    else
      let v' := v ^^^ u
      let da' := da ^^^ da0
      let db' := db ^^^ db0
      if u ≠ 0 then ppExGCDLoop aa bb f u v' da0 db0 da' db' else (v', da', db')

/-- ppExGCD(d, da, db, a, n, b, m) for a, b ≠ 0: returns (d, da, db), `a da + b db = d` -/
def ppExGCDV (a b : Nat) : Nat × Nat × Nat :=
  let s := min (ppLoZeros a) (ppLoZeros b)
  let aa := a >>> s
  let bb := b >>> s
  -- u <- aa, v <- bb, da0 <- 1, db0 <- 0, da <- 0, db <- 1
  let r := ppExGCDLoop aa bb (aa.log2 + bb.log2 + 3) aa bb 1 0 0 1
  (r.1 <<< s, r.2.1, r.2.2)

/-! ## ppDivMod, ppInvMod -/

/-- `for (; wwTestBit(u, 0) == 0; wwShLo(u, nu, 1)) if (da0 even) da0 /= x else da0 = (da0 + mod) / x` -/
def ppHalveMod (md : Nat) : Nat → Nat → Nat → Nat × Nat
  | 0, u, da => (u, da)
  | f + 1, u, da =>
    if u % 2 = 0 then
      if da % 2 = 0 then ppHalveMod md f (u / 2) (da / 2)
      else ppHalveMod md f (u / 2) ((da ^^^ md) / 2)
    else (u, da)

/-- the `while (!wwIsZero(u, nu))` loop of ppDivMod; returns (v, da) -/
def ppDivModLoop (md : Nat) : Nat → Nat → Nat → Nat → Nat → Nat × Nat
  | 0, _, v, _, da => (v, da)
  | f + 1, u, v, da0, da =>
    if u = 0 then (v, da) else
    let r0 := ppHalveMod md (u.log2 + 1) u da0
    let r1 := ppHalveMod md (v.log2 + 1) v da
    let u := r0.1; let da0 := r0.2
    let v := r1.1; let da := r1.2
    if u ≥ v then ppDivModLoop md f (u ^^^ v) v (da0 ^^^ da) da
    else ppDivModLoop md f u (v ^^^ u) da0 (da ^^^ da0)

/-- ppDivMod(b, divident, a, mod, n): `b = divident / a mod mod` if gcd(a, mod) = 1, else 0 -/
def ppDivModV (divident a md : Nat) : Nat :=
  let r := ppDivModLoop md (a.log2 + md.log2 + 4) a md divident 0
  if r.1 = 1 then r.2 else 0

/-- ppInvMod(b, a, mod, n) = ppDivMod(b, 1, a, mod, n) -/
def ppInvModV (a md : Nat) : Nat := ppDivModV 1 a md

end Bee2V.C05

#!/bin/bash
# usage: tools_validate.sh <Cxx> <mK> [extra gcc flags for the demo]
# Confirms a seeded change in its scratch worktree /tmp/mut/<Cxx>: suite passes with it,
# demo passes without it and fails with it.  Prints a JSON line for meta.json.
ID=$1; M=$2; shift 2; EXTRA="$@"
R=${MUTROOT:-/tmp/mut}; W=$R/$ID; O=$R/$ID.out/$M
cd $W || exit 9
git checkout -q -- . ; 
build() { cmake -G Ninja -S $W -B $W/_build -DCMAKE_BUILD_TYPE=Release >/dev/null 2>&1 && cmake --build $W/_build -j8 >/dev/null 2>&1; }
demo() { if [ -f $O/demo.sh ]; then (cd $O && bash ./demo.sh $W >/dev/null 2>&1); return $?; fi
  gcc -w -O1 -I$W/include -I$W/src $EXTRA $O/demo.c $W/_build/src/libbee2_static.a -lpthread -lm -o $R/$ID.demo 2>$R/$ID.demo.err || return 99
  timeout 600 $R/$ID.demo >/dev/null 2>&1; }
build || { echo "orig build failed"; exit 8; }
demo; D0=$?
git apply $O/patch.diff || { echo "patch does not apply"; exit 7; }
build; B=$?
ERRS=$($W/_build/test/testbee2 2>&1 | grep -c "Err"); OKS=$($W/_build/test/testbee2 2>&1 | grep -c "Test: OK")
demo; D1=$?
git checkout -q -- .
echo "{\"id\":\"$ID-$M\",\"build_rc\":$B,\"suite_ok\":$OKS,\"suite_err\":$ERRS,\"demo_orig\":$D0,\"demo_patched\":$D1}"

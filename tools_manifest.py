#!/usr/bin/env python3
"""Rebuilds MANIFEST.json: registered checks (registered.txt: one id per line) take their entry from
docs/<id>.manifest.json (builder-proposed, reviewed) or from OWN below; all other properties are listed
under not_applicable with the reason given in PENDING."""
import json, os
V = os.path.dirname(os.path.abspath(__file__))
props = [json.loads(l)["id"] for l in open(os.path.join(V, "properties.jsonl"))]
reg = [l.strip() for l in open(os.path.join(V, "registered.txt")) if l.strip() and not l.startswith("#")]

def chk(pid, text, note, tech, ref):
    return {"property_id": pid, "quick_cmd": "./check %s --tier quick" % pid, "thorough_cmd": "./check %s --tier thorough" % pid,
            "evidence_file": "evidence/%s.json" % pid, "replay_cmd_template": "./check %s --replay {path}" % pid,
            "engine": "lean", "level_claimed": {"category": "proof", "text": text, "design_ref": ref},
            "level_note": note, "technique": tech}

OWN = {
 "C20": chk("C20",
  "All six rules, plus the counting form of the PUK rule (at most ten counted wrong PUKs in every history without a correct one, then puk0 for ever) and monotonicity of the PIN state outside accepted unlock events, are Lean theorems over ALL finite event lists from all session starts, about a transition function that is regenerated from btok_pwd.c on every run; the regenerated model is compared with the compiled function on its complete (raw bit-field) domain. Complete for this property.",
  "Trusted: Lean kernel; axioms propext/Classical.choice/Quot.sound at most; xlate/x_pwd.py (validated each run by the exhaustive 32x8x16 table comparison); the C compiler for the bit-field semantics.",
  "Lean 4 proof over a model regenerated from source + exhaustive differential", "DESIGN.md §3 C20"),
 "C18": chk("C18",
  "Lean theorems for every number of threads, every assignment of operation sequences (grammar of the property) and every sequentially consistent schedule, about a hand-written small-step model of mtCallOnce and of the shared generator of rng.c: mutual exclusion, lock discipline, initialiser runs exactly once and is visible to every returning caller, no data race (conflicting accesses are ordered by the mutex, by the once-gate, or both atomic), balanced reference count, no use after release, every request filled and no two output blocks equal. The model is tied to the source by (a) the shared-access table regenerated from rng.c/mt.c on every run, which must equal the model's table (kernel-checked), (a2) an inventory of EVERY mutable static-storage object of the compiled library (nm) with the grammar's call sites that reach it and the mutex state there: each must be one of the model's five variables, unreachable from the grammar, never written, or reached only with _mtx held / inside rngInit (statics_classified by decide; protected_exclusive proves such program points are never occupied by two threads), and (b) sequential refinement against the real functions. Partial: weak-memory reorderings are not exhibited by an SC model.",
  "Trusted: Lean kernel (axioms propext/Quot.sound at most); xlate/x_c18_access.py; xlate/x_c18_statics.py (object inventory exact via nm; users and call graph textual, indirect calls listed and whitelisted); harness/c18.c. Modelled, not verified: pthread mutex = mutual exclusion, __sync builtins = atomic RMW, brngCTRStepR = 'consume next CTR positions' (distinct keys per epoch is a cryptographic assumption), SC memory model; not modelled: exit-time rngDestroy, counter overflow at 2^64 references. Real-thread ThreadSanitizer runs are supporting evidence and the search oracle, not the proof.",
  "Lean 4 proof (invariants over an interleaving semantics) + regenerated access table + sequential differential", "DESIGN.md §3 C18"),
 "C19": chk("C19",
  "Lean: parametricity corollaries (word size, SAFE/FAST edition, octets per word) re-exported from the areas' model = specification theorems, so a statement about one configuration of a MODEL is a statement about the others. Tie: the identical op streams of the other areas (currently C01 belt, C03 bash/brng/botp, C05 arithmetic) are replayed against differently built copies of the library (64-bit words: ASan release, BUILD_FAST, -O0; 32-bit words; bash-f BASH_32/SSE2/AVX2/AVX-512 as far as the CPU has them; thorough adds assertion-enabled, -O2/NDEBUG, plain release, 32-bit fast/debug) and each configuration must agree with the area's Lean driver, with the reference configuration, and (octet-level ops) across word sizes. Partial: configurations are compared on the generated streams (sampling of inputs); optimisation levels, NDEBUG and SIMD variants are not modelled.",
  "Trusted: Lean kernel; the area theorems C19 re-exports; harnesses and generators of the replayed areas; the C compiler. Not run (listed in the evidence as skipped, never as passed): B_PER_S = 32 (-m32 does not link in this image; 32-bit WORDS are obtained with -U__SIZEOF_INT128__), BASH_NEON, AVX variants the CPU lacks.",
  "Lean 4 parametricity corollaries + multi-configuration differential replay", "DESIGN.md §3 C19, §8"),
}
PENDING = "check under construction (Lean model + correspondence not yet registered); see DESIGN.md §3 for the plan"

m = {
 "version": 1,
 "setup_cmd": "./check --setup",
 "hooks": {
  "guard": "BEE2_VERIF",
  "enable": "checks build /repo's working tree out-of-tree with cmake -DCMAKE_C_FLAGS='-DBEE2_VERIF ...' (lib/vcommon.py CONFIGS); the only hook is exact-size blobs in src/core/blob.c",
  "baseline_off_cmd": "rm -rf /var/tmp/bee2v.baseline && cmake -G Ninja -S /repo -B /var/tmp/bee2v.baseline -DCMAKE_BUILD_TYPE=Release && cmake --build /var/tmp/bee2v.baseline -j8 && ctest --test-dir /var/tmp/bee2v.baseline --timeout 900; rc=$?; rm -rf /var/tmp/bee2v.baseline; exit $rc",
  "source_commits": ["a35d248"],
  "add_only": True},
 "engines": [
  {"name": "lean", "path": "lean/", "serves_properties": reg, "kind_free_text": "Lean 4.33 library Bee2V (property theorems in Bee2V/Cxx/Props*.lean, generated models in Bee2V/Gen) + one native line-protocol driver per area"},
  {"name": "xlate", "path": "xlate/", "serves_properties": reg, "kind_free_text": "clang-AST-based translators C -> Lean, fail-closed, run on every check"},
  {"name": "harness", "path": "harness/", "serves_properties": reg, "kind_free_text": "C harnesses calling the real library (sanitizer builds of /repo's working tree) under the same line protocol as the Lean drivers"}],
 "checks": [], "notes": "All checks: ./check <id> --tier quick|thorough. See DESIGN.md.", "not_applicable": []}
for p in props:
    if p in reg:
        f = os.path.join(V, "docs", p + ".manifest.json")
        e = json.load(open(f)) if os.path.exists(f) else OWN[p]
        e = dict(e)
        e["property_id"] = p
        e.setdefault("quick_cmd", "./check %s --tier quick" % p)
        e.setdefault("thorough_cmd", "./check %s --tier thorough" % p)
        e["evidence_file"] = "evidence/%s.json" % p
        e.setdefault("replay_cmd_template", "./check %s --replay {path}" % p)
        e.setdefault("engine", "lean")
        m["checks"].append(e)
    else:
        m["not_applicable"].append({"property_id": p, "reason": PENDING})
json.dump(m, open(os.path.join(V, "MANIFEST.json"), "w"), indent=1, ensure_ascii=False)
# root of the Lean library: the obligation modules (PROPS) of every registered plugin
import re, sys
sys.path.insert(0, os.path.join(V, "lib")); sys.path.insert(0, os.path.join(V, "props")); sys.path.insert(0, os.path.join(V, "xlate"))
mods = []
for p in reg:
    src = open(os.path.join(V, "props", p + ".py")).read()
    g = {}
    mm = re.search(r"^PROPS\s*=\s*(\[.*?\])", src, flags=re.S | re.M)
    lst = eval(mm.group(1)) if mm else []
    # plugins may extend PROPS programmatically: import to be sure
    try:
        mod = __import__(p)
        lst = list(getattr(mod, "PROPS", lst))
    except Exception as e:
        print("note: could not import props/%s.py (%s); using the literal PROPS" % (p, e))
    for rel in lst:
        mods.append(rel[:-5].replace("/", "."))
root = "-- Root of the `Bee2V` library: the obligation modules of every registered check\n-- (GENERATED by tools_manifest.py; `./check --setup` builds this).\n" + "".join("import %s\n" % x for x in sorted(set(mods)))
open(os.path.join(V, "lean", "Bee2V.lean"), "w").write(root)
print("registered:", reg)

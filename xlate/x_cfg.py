#!/usr/bin/env python3
"""Translator shared by C09 and C15: control-flow skeletons of every `err_t` function.

Source: every .c file under src/crypto/** and src/core/** of the tree under check, parsed
by clang-14 (`-DNDEBUG`, JSON AST, i.e. AFTER preprocessing: ERR_CALL_HANDLE /
ERR_CALL_CHECK / ERR_CALL / ERR_CALL_SET are seen as the `if`s they expand to).

Output (Lean, `Bee2V.Gen.CfgAll`): for every err_t function `f` one term
`cfg_f : Cfg` over the constructors of `Bee2V.C15.Cfg`:

  skip | seq a b | ite c t e | loop b | brk | ret r | atom [ev…] | ifnull v t e | ifcode t e

  * `ite c` / `loop` : opaque condition (both arms / any number of iterations possible);
  * `ifnull v t e`   : `if (v == 0) t else e` for a *blob variable* v (tracked);
  * `ifcode t e`     : `if (code != ERR_OK) t else e` for the function's err_t local (tracked);
  * `atom [e1,…]`    : one atomic step that emits ONE of the listed events (nondeterministic):
        alloc v  = atom [allocOk v, allocFail v]      v = blobCreate(…)
        resize v = atom [resizeOk v, resizeFail v]    v = blobResize(v, …)
        close v / free v / setnull v / use v / call f / wr d / zero d / code cs
  * `ret r`          : return ERR_OK | constant ≠ ERR_OK | the variable `code` | unknown.

Blob variables: every lvalue that receives blobCreate/blobResize or is handed to
blobClose/memFree/free.  `use v`: v, or a local pointer derived from v by pointer
arithmetic/casts (flow-insensitive closure), is dereferenced or passed to a function
(except the null-tolerant blobClose/blobResize/blobSize/…).
Outputs: the function's parameters of type pointer-to-non-const.  `wr d`: d (or a local
derived from it) is stored through, or passed to a callee parameter of type
pointer-to-non-const.  `zero d`: memSetZero(d, …).

Approximations (all in the direction "more paths / more events than the code has", so
that a ∀-path safety statement proved on the skeleton covers the code):
  * calls inside a condition are emitted before the branch, short-circuit ignored, unless
    the condition contains a tracked test (then && || ! are decomposed exactly);
  * both arms of `?:` contribute their events;
  * `for(init;c;inc) b` = init; loop(b; inc);  `do b while(c)` = b; loop(b);
  * `break` leaves the innermost loop (`brk`); `continue`, `goto`, `switch` are not
    understood -> the function is reported unhandled (fail-closed).

The second product, for C09: the leading argument-check cascade of each function (the
`if (…) return ERR_X;` statements before anything else happens) as a decision list over
the scalar parameters; pointer tests become opaque atoms.  See `checks_of`.
"""
import sys, os, re, json, hashlib, subprocess
sys.path.insert(0, os.path.dirname(__file__))
from clangast import Unhandled
import clangast


def walk(n):
    """pre-order walk that skips the empty `{}` slots clang emits for absent for-loop parts"""
    if "kind" not in n:
        return
    yield n
    for c in n.get("inner", []):
        yield from walk(c)

EXTRA = ("-DNDEBUG",)
ALLOC = {"blobCreate"}
RAWALLOC = {"memAlloc", "malloc"}          # blocks without the blob wrapper: must be memWipe'd before memFree
RAWRESIZE = {"memRealloc", "realloc", "calloc"}   # not understood inside err_t functions (fail-closed)
RESIZE = {"blobResize"}
CLOSE = {"blobClose"}
FREE = {"memFree", "free"}
ZERO = {"memSetZero"}
# committed: routines whose call is an authentication / integrity verification (event `vfy`)
VERIFY = {"beltKWPUnwrap", "beltDWPUnwrap", "beltCHEUnwrap", "beltMACStepV", "beltMACStepV2", "beltDWPStepV",
          "beltCHEStepV", "beltHMACStepV", "beltHMACStepV2", "bignKeyUnwrap", "bignVerify", "bign96Verify",
          "bignIdVerify", "btokCVCUnwrap", "btokCVCVal2"}
NULL_OK = {"blobClose", "blobResize", "blobSize", "blobIsValid", "blobWipe", "memIsNullOrValid",
           "memFree", "free", "blobCopy", "blobEq", "blobCmp"}
INT_TYPES = {"size_t", "u32", "u16", "u64", "octet", "int", "unsigned int", "bool_t", "word", "u8",
             "unsigned long", "long", "unsigned", "tm_time_t", "unsigned char", "char", "short",
             "unsigned short", "dword", "err_t", "unsigned long long", "long long", "btok_pwd_t",
             "tm_ticks_t"}


def repo():
    return os.environ.get("BEE2_REPO", "/repo")


def c_files():
    out = []
    for sub in ("src/crypto", "src/core"):
        for d, _, fs in os.walk(os.path.join(repo(), sub)):
            for f in sorted(fs):
                if f.endswith(".c"):
                    out.append(os.path.relpath(os.path.join(d, f), repo()))
    return sorted(out)


# --------------------------------------------------------------------------- AST helpers
def strip(n):
    while n["kind"] in ("ImplicitCastExpr", "ParenExpr", "ConstantExpr", "CStyleCastExpr"):
        n = n["inner"][0]
    return n


def int_const(n):
    """value of an integer constant expression (literal, cast, unary minus), else None"""
    n = strip(n)
    if n["kind"] == "IntegerLiteral":
        return int(n["value"])
    if n["kind"] == "UnaryOperator" and n["opcode"] == "-":
        v = int_const(n["inner"][0])
        return None if v is None else -v
    if n["kind"] == "GNUNullExpr":
        return 0
    return None


def err_consts(e):
    """non-zero integer constants that an err_t-valued expression can evaluate to (through ?: arms)"""
    e = strip(e)
    c = int_const(e)
    if c is not None:
        return [c] if c != 0 else []
    if e["kind"] == "ConditionalOperator":
        return err_consts(e["inner"][1]) + err_consts(e["inner"][2])
    return []


def lv_key(n):
    """canonical text of a simple lvalue (variable or member chain), else None"""
    n = strip(n)
    k = n["kind"]
    if k == "DeclRefExpr":
        return n["referencedDecl"]["name"]
    if k == "MemberExpr":
        b = lv_key(n["inner"][0])
        return None if b is None else b + ("->" if n.get("isArrow") else ".") + n["name"]
    return None


def callee_name(call):
    c = strip(call["inner"][0])
    if c["kind"] == "DeclRefExpr":
        return c["referencedDecl"]["name"]
    k = lv_key(c)
    return "(*%s)" % k if k else "(*?)"


def callee_param_types(call):
    """list of parameter type strings of the callee, or None (unknown / variadic)"""
    c = strip(call["inner"][0])
    t = None
    if c["kind"] == "DeclRefExpr":
        t = c["referencedDecl"].get("type", {}).get("qualType")
    else:
        t = c.get("type", {}).get("qualType")
    if not t or "(" not in t:
        return None
    # "ret (a, b, c)"  or  "ret (*)(a, b)"
    i = t.rfind("(")
    # find the parameter list: last balanced (...) at top level
    depth, end = 0, len(t) - 1
    while end >= 0 and t[end] != ")":
        end -= 1
    j = end
    while j >= 0:
        if t[j] == ")":
            depth += 1
        elif t[j] == "(":
            depth -= 1
            if depth == 0:
                break
        j -= 1
    inner = t[j + 1:end]
    if inner.strip() in ("", "void"):
        return []
    ps, depth, cur = [], 0, ""
    for ch in inner:
        if ch in "([":
            depth += 1
        if ch in ")]":
            depth -= 1
        if ch == "," and depth == 0:
            ps.append(cur.strip())
            cur = ""
        else:
            cur += ch
    ps.append(cur.strip())
    if ps and ps[-1] == "...":
        return None
    return ps


def ptr_to_nonconst(t):
    t = t.strip()
    if "(*" in t:          # function pointer
        return False
    if "*" not in t and "[" not in t:
        return t in ("blob_t",)
    head = t.split("*")[0].split("[")[0].strip()
    return not (head.startswith("const ") or head.endswith(" const"))


def is_pointer_type(t):
    t = t.strip()
    return "*" in t or "[" in t or t in ("blob_t",)


# --------------------------------------------------------------------------- translation of one function
class Fn:
    def __init__(self, decl, src):
        self.decl, self.src = decl, src
        self.name = decl["name"]
        self.params = [(c["name"], c["type"]["qualType"]) for c in decl.get("inner", []) if c["kind"] == "ParmVarDecl" and "name" in c]
        self.body = [c for c in decl["inner"] if c["kind"] == "CompoundStmt"][0]
        self.line = decl.get("loc", {}).get("line") or decl.get("range", {}).get("begin", {}).get("line")
        self.blobs = []        # blob variable keys, index = id
        self.outs = [p for p, t in self.params if is_pointer_type(t) and ptr_to_nonconst(t)]
        self.codes = []        # err_t locals
        self.derived = {}      # local name -> set of roots (blob keys / out names)
        self.nconds = 0
        self.calls = []        # callee names in order of first appearance (function-local table)
        self.ctx = []
        self.scan()

    # ---- pre-pass: blob variables, err_t locals, derived pointers
    def scan(self):
        for n in walk(self.body):
            if n["kind"] == "VarDecl" and n["type"]["qualType"] == "err_t":
                self.codes.append(n["name"])
            if n["kind"] == "CallExpr":
                cn = callee_name(n)
                args = n["inner"][1:]
                if cn in CLOSE | FREE | RESIZE and args:
                    k = lv_key(args[0])
                    if k is None:
                        raise Unhandled("%s of a non-lvalue" % cn)
                    self.blob_id(k)
        self.rawsize = {}      # raw (memAlloc) variable -> source text of the size it was allocated with
        # `t = blobResize(x, …)` into a temporary t ≠ x (x keeps its block when the call fails)
        self.rtemp = {}
        for n in walk(self.body):
            tgt, rhs = self.assignment(n)
            if tgt is not None and rhs is not None:
                r = strip(rhs)
                if r["kind"] == "CallExpr" and callee_name(r) in RESIZE:
                    x = lv_key(r["inner"][1])
                    if x is not None and x != tgt:
                        if self.rtemp.get(tgt, x) != x:
                            raise Unhandled("temporary %s receives blobResize of two different blobs" % tgt)
                        self.rtemp[tgt] = x
        for t, x in self.rtemp.items():
            # every other mention of t must be the hand-over `x = t`
            allowed = 0
            for n in walk(self.body):
                tgt, rhs = self.assignment(n)
                if tgt == x and rhs is not None and lv_key(rhs) == t:
                    allowed += 1
                if tgt == t and rhs is not None and strip(rhs)["kind"] == "CallExpr" and callee_name(strip(rhs)) in RESIZE:
                    allowed += 1
            total = sum(1 for n in walk(self.body) if n["kind"] == "DeclRefExpr" and n["referencedDecl"]["name"] == t)
            if total != allowed:
                raise Unhandled("temporary %s of blobResize is used for something else" % t)
        for n in walk(self.body):
            tgt, rhs = self.assignment(n)
            if tgt is not None and rhs is not None:
                r = strip(rhs)
                if r["kind"] == "CallExpr" and callee_name(r) in ALLOC | RESIZE and tgt not in self.rtemp:
                    self.blob_id(tgt)
                if r["kind"] == "CallExpr" and callee_name(r) in RAWALLOC:
                    self.blob_id(tgt)
                    self.rawsize[tgt] = self.text(r["inner"][1]) if len(r["inner"]) > 1 else "?"
        if len(self.codes) > 1:
            # only the variable that is returned/tested most is tracked; others are opaque
            pass
        self.code = self.codes[0] if self.codes else None
        # derived pointers (flow-insensitive closure)
        roots = set(self.blobs) | set(self.outs)
        pnames = {p for p, _ in self.params}
        changed = True
        self.derived = {r: {r} for r in roots}
        assigns = []
        for n in walk(self.body):
            tgt, rhs = self.assignment(n)
            if tgt is not None and rhs is not None:
                assigns.append((tgt, rhs, n))
        while changed:
            changed = False
            for tgt, rhs, n in assigns:
                r = strip(rhs)
                if r["kind"] == "CallExpr":
                    continue           # result of a call is a new value, not a derived pointer
                if not self.is_ptr_expr(rhs):
                    continue
                if tgt in pnames:
                    continue           # a parameter re-pointed into a blob may still be the caller's pointer
                src = set()
                for m in self.mentions(rhs):
                    src |= self.derived.get(m, set())
                if src - self.derived.get(tgt, set()):
                    self.derived.setdefault(tgt, set()).update(src)
                    changed = True

    def text(self, e):
        """source text of an expression (whitespace-normalised); '?' if it cannot be located"""
        b, en = e.get("range", {}).get("begin", {}), e.get("range", {}).get("end", {})
        bo = b.get("offset", b.get("expansionLoc", {}).get("offset"))
        eo = en.get("offset", en.get("expansionLoc", {}).get("offset"))
        tl = en.get("tokLen", en.get("expansionLoc", {}).get("tokLen", 1))
        if bo is None or eo is None:
            return "?"
        try:
            with open(os.path.join(repo(), self.src), "rb") as fh:
                fh.seek(bo)
                return re.sub(r"\s+", "", fh.read(eo + tl - bo).decode("utf8", "replace"))
        except OSError:
            return "?"

    def is_ptr_expr(self, e):
        t = e.get("type", {}).get("qualType", "")
        return is_pointer_type(t)

    def assignment(self, n):
        """(target key, rhs node) for `x = e` and `T x = e`"""
        if n["kind"] == "BinaryOperator" and n.get("opcode") == "=":
            return lv_key(n["inner"][0]), n["inner"][1]
        if n["kind"] == "VarDecl" and n.get("init") and n.get("inner"):
            return n["name"], n["inner"][-1]
        return None, None

    def mentions(self, e):
        """names / member keys mentioned in an expression (longest lvalue chains and their bases)"""
        out = []
        for m in walk(e):
            if m["kind"] in ("DeclRefExpr", "MemberExpr"):
                k = lv_key(m)
                if k:
                    out.append(k)
        return out

    def blob_id(self, k):
        if k not in self.blobs:
            self.blobs.append(k)
        return self.blobs.index(k)

    def roots_of(self, e, kind):
        """blob ids (kind='blob') or output ids (kind='out') reachable from the expression"""
        res = []
        for m in self.mentions(e):
            for r in self.derived.get(m, ()):
                if kind == "blob" and r in self.blobs:
                    i = self.blobs.index(r)
                elif kind == "out" and r in self.outs and r not in self.blobs:
                    i = self.outs.index(r)
                else:
                    continue
                if i not in res:
                    res.append(i)
        return res

    def call_id(self, name):
        if name not in self.calls:
            self.calls.append(name)
        return self.calls.index(name)

    # ---- expressions: list of atoms (each atom = list of alternative events)
    def ev_expr(self, e, out):
        """append the atoms of evaluating e (approximate evaluation order: operands first)"""
        k = e["kind"]
        if k in ("ImplicitCastExpr", "ParenExpr", "ConstantExpr", "CStyleCastExpr"):
            if k == "ImplicitCastExpr" and e.get("castKind") == "LValueToRValue":
                self.ev_lvalue(e["inner"][0], out, write=False)
                return
            return self.ev_expr(e["inner"][0], out)
        if k in ("IntegerLiteral", "StringLiteral", "CharacterLiteral", "FloatingLiteral", "DeclRefExpr",
                 "UnaryExprOrTypeTraitExpr", "GNUNullExpr", "OffsetOfExpr"):
            return
        if k == "CallExpr":
            return self.ev_call(e, out)
        if k == "BinaryOperator" and e["opcode"] == "=":
            return self.ev_assign(e["inner"][0], e["inner"][1], out)
        if k == "CompoundAssignOperator":
            self.ev_expr(e["inner"][1], out)
            self.ev_lvalue(e["inner"][0], out, write=True)
            tk = lv_key(e["inner"][0])
            if tk in self.blobs:
                raise Unhandled("compound assignment to blob variable " + tk)
            return
        if k == "BinaryOperator":
            self.ev_expr(e["inner"][0], out)
            self.ev_expr(e["inner"][1], out)
            return
        if k == "UnaryOperator":
            op = e["opcode"]
            if op in ("++", "--"):
                self.ev_lvalue(e["inner"][0], out, write=True)
                tk = lv_key(e["inner"][0])
                if tk in self.blobs:
                    raise Unhandled("++/-- of blob variable " + tk)
                return
            if op == "*":
                return self.ev_lvalue(e, out, write=False)
            if op == "&":
                return self.ev_addr(e["inner"][0], out)
            return self.ev_expr(e["inner"][0], out)
        if k in ("ArraySubscriptExpr", "MemberExpr"):
            return self.ev_lvalue(e, out, write=False)
        if k == "ConditionalOperator":
            for c in e["inner"]:
                self.ev_expr(c, out)
            return
        if k in ("InitListExpr", "CompoundLiteralExpr", "VAArgExpr", "StmtExpr"):
            for c in e.get("inner", []):
                if "kind" in c and c["kind"].endswith("Expr") or c.get("kind") in ("BinaryOperator", "UnaryOperator"):
                    self.ev_expr(c, out)
            return
        raise Unhandled("expression " + k)

    def ev_addr(self, e, out):
        """&lvalue: no access, but evaluate index expressions"""
        e2 = strip(e)
        if e2["kind"] == "ArraySubscriptExpr":
            self.ev_expr(e2["inner"][0], out)
            self.ev_expr(e2["inner"][1], out)
        elif e2["kind"] == "MemberExpr":
            if e2.get("isArrow"):
                self.ev_expr(e2["inner"][0], out)
            else:
                self.ev_addr(e2["inner"][0], out)
        elif e2["kind"] == "UnaryOperator" and e2["opcode"] == "*":
            self.ev_expr(e2["inner"][0], out)
        elif e2["kind"] == "DeclRefExpr":
            return
        else:
            self.ev_expr(e2, out)

    def ev_lvalue(self, e, out, write):
        """access (read or write) through an lvalue expression"""
        e2 = strip(e)
        k = e2["kind"]
        if k == "DeclRefExpr":
            return                      # plain variable: no memory of interest
        base = None
        if k == "ArraySubscriptExpr":
            self.ev_expr(e2["inner"][1], out)
            base = e2["inner"][0]
        elif k == "MemberExpr":
            if e2.get("isArrow"):
                base = e2["inner"][0]
            else:
                return self.ev_lvalue(e2["inner"][0], out, write)
        elif k == "UnaryOperator" and e2["opcode"] == "*":
            base = e2["inner"][0]
        else:
            return self.ev_expr(e2, out)
        self.ev_expr(base, out)
        for v in self.roots_of(base, "blob"):
            out.append([("use", v)])
        if write:
            for d in self.roots_of(base, "out"):
                out.append([("wr", d)])

    def ev_assign(self, lhs, rhs, out):
        tk = lv_key(lhs)
        r = strip(rhs)
        if r["kind"] == "CallExpr" and callee_name(r) in ALLOC:
            for a in r["inner"][1:]:
                self.ev_expr(a, out)
            if tk is None:
                raise Unhandled("blobCreate assigned to a non-lvalue")
            v = self.blob_id(tk)
            out.append([("allocOk", v), ("allocFail", v)])
            return
        if r["kind"] == "CallExpr" and callee_name(r) in RAWALLOC:
            for a in r["inner"][1:]:
                self.ev_expr(a, out)
            if tk is None:
                raise Unhandled("memAlloc assigned to a non-lvalue")
            v = self.blob_id(tk)
            out.append([("rawOk", v), ("rawFail", v)])
            return
        if r["kind"] == "CallExpr" and callee_name(r) in RAWRESIZE:
            raise Unhandled("%s in an err_t function" % callee_name(r))
        if tk is not None and lv_key(rhs) in self.rtemp and self.rtemp[lv_key(rhs)] == tk:
            return                       # `x = t` after a successful resize into the temporary: no event
        if r["kind"] == "CallExpr" and callee_name(r) in RESIZE:
            args = r["inner"][1:]
            for a in args[1:]:
                self.ev_expr(a, out)
            if tk in self.rtemp:
                raise Unhandled("blobResize into a temporary outside an `if ((t = blobResize(..)) == 0)` test")
            if tk is None or lv_key(args[0]) != tk:
                raise Unhandled("blobResize(x) not assigned back to x")
            v = self.blob_id(tk)
            out.append([("resizeOk", v), ("resizeFail", v)])
            return
        self.ev_expr(rhs, out)
        if tk is not None and tk in self.blobs:
            c = int_const(rhs)
            if c == 0:
                out.append([("setnull", self.blobs.index(tk))])
            else:
                out.append([("setunk", self.blobs.index(tk))])
        elif tk is not None and tk == self.code:
            c = int_const(rhs)
            if r["kind"] == "CallExpr" and callee_name(r) in VERIFY and out and out[-1] == [("vcall", False)]:
                out[-1] = [("vcall", True)]      # code = V(…): the verification result lives in `code`
            else:
                for k in err_consts(rhs):
                    out.append([("cls", k)])
                out.append([("code", "ok" if c == 0 else ("bad" if c is not None else "unk"))])
        else:
            self.ev_lvalue(lhs, out, write=True)

    def ev_call(self, e, out):
        cn = callee_name(e)
        args = e["inner"][1:]
        if cn in ALLOC | RESIZE | RAWALLOC | RAWRESIZE:
            raise Unhandled("%s result not assigned to a variable" % cn)
        if cn in CLOSE | FREE:
            k = lv_key(args[0])
            out.append([("close" if cn in CLOSE else "free", self.blob_id(k))])
            return
        pts = callee_param_types(e)
        if not strip(e["inner"][0])["kind"] == "DeclRefExpr":
            self.ev_expr(e["inner"][0], out)
        for a in args:
            self.ev_expr(a, out)
        uses, wrs = [], []
        for i, a in enumerate(args):
            if not self.is_ptr_expr(a) and a.get("type", {}).get("qualType") != "blob_t":
                continue
            if cn not in NULL_OK:
                for v in self.roots_of(a, "blob"):
                    if v not in uses:
                        uses.append(v)
            nonconst = True if pts is None or i >= len(pts) else ptr_to_nonconst(pts[i])
            if nonconst:
                for d in self.roots_of(a, "out"):
                    if d not in wrs:
                        wrs.append(d)
        for v in uses:
            out.append([("use", v)])
        out.append([("call", self.call_id(cn))])
        if cn == "memWipe" and len(args) == 2:
            k = lv_key(args[0])
            if k in self.rawsize and self.text(args[1]) == self.rawsize[k] != "?":
                out.append([("wipe", self.blobs.index(k))])      # full-size wipe of a raw block
        if cn in VERIFY:
            # result pending; `to_code` is patched to True by ev_assign when the call is `code = V(…)`
            out.append([("vcall", False)])
        if cn in ZERO or cn == "memWipe" or (cn == "memSet" and len(args) == 3 and int_const(args[1]) == 0):
            for d in self.roots_of(args[0], "out"):
                out.append([("zero", d)])
        else:
            for d in wrs:
                out.append([("wr", d)])

    # ---- conditions
    def tracked(self, c):
        """('null', v, positive) / ('code', positive) when c is a tracked test; positive = the
        test is TRUE when v is null / code != OK.  ('alloc', assignment node, positive) for
        `(v = blobCreate(..)) == 0`."""
        c = strip(c)
        k = c["kind"]
        if k == "UnaryOperator" and c["opcode"] == "!":
            t = self.tracked(c["inner"][0])
            if t:
                return t[:-1] + (not t[-1],)
            return None
        if k == "BinaryOperator" and c["opcode"] in ("==", "!="):
            a, b = c["inner"]
            for x, y in ((a, b), (b, a)):
                if int_const(y) == 0:
                    t = self.tracked_atom(x)
                    if t:
                        # x != 0  has the polarity of x ; x == 0 the opposite
                        return t if c["opcode"] == "!=" else t[:-1] + (not t[-1],)
            return None
        return self.tracked_atom(c)

    def tracked_atom(self, x):
        """x used as a truth value: blob var (true = non-null -> positive False), code (true = != OK)"""
        x = strip(x)
        k = lv_key(x)
        if k is not None and k in self.blobs:
            return ("null", self.blobs.index(k), False)
        if k is not None and k == self.code:
            return ("code", True)
        if x["kind"] == "CallExpr" and callee_name(x) in VERIFY and not x.get("type", {}).get("qualType", "").startswith("err_t"):
            return ("vres", x, True)        # truthy = verification succeeded
        if x["kind"] == "BinaryOperator" and x["opcode"] == "=":
            r = strip(x["inner"][1])
            if r["kind"] == "CallExpr" and callee_name(r) in RESIZE and lv_key(x["inner"][0]) in self.rtemp:
                return ("rtemp", x, False)
            if r["kind"] == "CallExpr" and callee_name(r) in ALLOC | RESIZE | RAWALLOC:
                return ("alloc", x, False)
        return None

    def has_tracked(self, c):
        c = strip(c)
        if self.tracked(c):
            return True
        if c["kind"] == "BinaryOperator" and c["opcode"] in ("&&", "||"):
            return any(self.has_tracked(x) for x in c["inner"])
        if c["kind"] == "UnaryOperator" and c["opcode"] == "!":
            return self.has_tracked(c["inner"][0])
        return False

    def branch(self, c, T, E):
        c = strip(c)
        t = self.tracked(c)
        if t:
            if t[0] == "null":
                return ("ifnull", t[1], T, E) if t[2] else ("ifnull", t[1], E, T)
            if t[0] == "code":
                return ("ifcode", T, E) if t[1] else ("ifcode", E, T)
            if t[0] == "vres":
                # `V(…)` used as a truth value: both arms possible, each labelled with the result
                atoms = []
                self.ev_call(t[1], atoms)
                cid = self.nconds
                self.nconds += 1
                on_true, on_false = (T, E) if t[2] else (E, T)
                return self.seq([("atom", a) for a in atoms] + [("ite", cid,
                                self.seq([("atom", [("vres", True)]), on_true]),
                                self.seq([("atom", [("vres", False)]), on_false]))])
            if t[0] == "rtemp":
                # exact: success -> the arm for "non-null", failure (x keeps its block) -> the arm for "null"
                r = strip(t[1]["inner"][1])
                atoms = []
                for a in r["inner"][2:]:
                    self.ev_expr(a, atoms)
                v = self.blob_id(self.rtemp[lv_key(t[1]["inner"][0])])
                cid = self.nconds
                self.nconds += 1
                on_null, on_ok = (T, E) if t[2] else (E, T)
                return self.seq([("atom", a) for a in atoms] + [("ite", cid,
                                self.seq([("atom", [("resizeOk", v)]), on_ok]),
                                self.seq([("atom", [("resizeKeep", v)]), on_null]))])
            if t[0] == "alloc":
                atoms = []
                self.ev_assign(t[1]["inner"][0], t[1]["inner"][1], atoms)
                v = self.blob_id(lv_key(t[1]["inner"][0]))
                br = ("ifnull", v, T, E) if t[2] else ("ifnull", v, E, T)
                return self.seq([("atom", a) for a in atoms] + [br])
        if self.has_tracked(c):
            if c["kind"] == "BinaryOperator" and c["opcode"] == "&&":
                return self.branch(c["inner"][0], self.branch(c["inner"][1], T, E), E)
            if c["kind"] == "BinaryOperator" and c["opcode"] == "||":
                return self.branch(c["inner"][0], T, self.branch(c["inner"][1], T, E))
            if c["kind"] == "UnaryOperator" and c["opcode"] == "!":
                return self.branch(c["inner"][0], E, T)
        atoms = []
        self.ev_expr(c, atoms)
        cid = self.nconds
        self.nconds += 1
        return self.seq([("atom", a) for a in atoms] + [("ite", cid, T, E)])

    # ---- statements
    def seq(self, items):
        flat = []
        for it in items:
            if it[0] == "seq":
                flat += it[1]
            elif it[0] != "skip":
                flat.append(it)
        if not flat:
            return ("skip",)
        if len(flat) == 1:
            return flat[0]
        return ("seq", flat)

    def stmt(self, n):
        k = n["kind"]
        if k == "CompoundStmt":
            return self.seq([self.stmt(c) for c in n.get("inner", [])])
        if k == "NullStmt":
            return ("skip",)
        if k == "DeclStmt":
            atoms = []
            for d in n.get("inner", []):
                if d["kind"] == "VarDecl" and d.get("init") and d.get("inner"):
                    init = d["inner"][-1]
                    nm = d["name"]
                    r = strip(init)
                    fake_lhs = {"kind": "DeclRefExpr", "referencedDecl": {"name": nm}, "type": d["type"]}
                    if strip(init)["kind"] == "InitListExpr":
                        self.ev_expr(init, atoms)
                    else:
                        self.ev_assign(fake_lhs, init, atoms)
                elif d["kind"] not in ("VarDecl", "RecordDecl", "TypedefDecl", "EnumDecl"):
                    raise Unhandled("declaration " + d["kind"])
            return self.seq([("atom", a) for a in atoms])
        if k == "IfStmt":
            inner = n["inner"]
            c, th = inner[0], inner[1]
            el = inner[2] if len(inner) > 2 else None
            T = self.stmt(th)
            E = self.stmt(el) if el is not None else ("skip",)
            return self.branch(c, T, E)
        if k == "WhileStmt":
            c, b = n["inner"][0], n["inner"][1]
            atoms = []
            self.ev_cond_events(c, atoms)
            ce = [("atom", a) for a in atoms]
            B = self.loop_body(b)
            return self.seq(ce + [("loop", self.seq([B] + ce))])
        if k == "DoStmt":
            b, c = n["inner"][0], n["inner"][1]
            atoms = []
            self.ev_cond_events(c, atoms)
            ce = [("atom", a) for a in atoms]
            B = self.loop_body(b)
            # over-approximation: zero or more passes instead of one or more
            return ("loop", self.seq([B] + ce))
        if k == "ForStmt":
            init, _, c, inc, b = n["inner"]
            parts = []
            if init.get("kind"):
                parts.append(self.stmt(init) if init["kind"].endswith("Stmt") else self.expr_stmt(init))
            atoms = []
            if c.get("kind"):
                self.ev_cond_events(c, atoms)
            ce = [("atom", a) for a in atoms]
            B = self.loop_body(b)
            I = self.expr_stmt(inc) if inc.get("kind") else ("skip",)
            return self.seq(parts + ce + [("loop", self.seq([B, I] + ce))])
        if k == "ReturnStmt":
            if not n.get("inner"):
                return ("ret", ("unk",))
            e = n["inner"][0]
            atoms = []
            self.ev_expr(e, atoms)
            c = int_const(e)
            if c is not None:
                rv = ("ok",) if c == 0 else ("err", c)
            elif lv_key(e) is not None and lv_key(e) == self.code:
                rv = ("code",)
            else:
                rv = ("unk",)
                for k in err_consts(e):
                    atoms.append([("cls", k)])
            return self.seq([("atom", a) for a in atoms] + [("ret", rv)])
        if k == "BreakStmt":
            if not self.ctx or self.ctx[-1] != "loop":
                raise Unhandled("break that does not leave a loop (switch)")
            return ("brk",)
        if k == "ContinueStmt":
            if not self.ctx or self.ctx[-1] != "loop":
                raise Unhandled("continue outside a loop")
            return ("cont",)
        if k == "GotoStmt":
            tgt = n.get("targetLabelDeclId")
            if self.ctx and self.ctx[-1] == ("goto", tgt):
                return ("cont",)
            raise Unhandled("goto that is not a backward jump to a top-level label outside inner loops")
        if k == "SwitchStmt":
            return self.switch(n)
        if k in ("LabelStmt", "CaseStmt", "DefaultStmt"):
            raise Unhandled("statement " + k)
        if k.endswith("Stmt"):
            raise Unhandled("statement " + k)
        return self.expr_stmt(n)

    def loop_body(self, b):
        self.ctx.append("loop")
        B = self.stmt(b)
        self.ctx.pop()
        return ("blk", B)

    def switch(self, n):
        """switch (e) { case…: stmts … } without break/continue at its level: an opaque choice of
        the entry point, then fall-through to the end; no default => may skip everything."""
        atoms = []
        self.ev_expr(n["inner"][0], atoms)
        comp = n["inner"][1]
        if comp["kind"] != "CompoundStmt":
            raise Unhandled("switch body")
        flat, entries, has_default = [], [], False
        for st in comp.get("inner", []):
            while st["kind"] in ("CaseStmt", "DefaultStmt"):
                entries.append(len(flat))
                if st["kind"] == "DefaultStmt":
                    has_default = True
                    st = st["inner"][0]
                else:
                    st = st["inner"][-1]
            flat.append(st)
        self.ctx.append("switch")
        trs = [self.stmt(x) for x in flat]
        self.ctx.pop()
        alts = [self.seq(trs[i:]) for i in entries]
        if not has_default:
            alts.append(("skip",))
        res = alts[-1]
        for a in reversed(alts[:-1]):
            cid = self.nconds
            self.nconds += 1
            res = ("ite", cid, a, res)
        return self.seq([("atom", a) for a in atoms] + [res])

    def top(self):
        """function body; a top-level label that is the target of backward gotos turns the rest of
        the body into a loop:  L: rest   ==>   loop(blk(rest))  with  goto L ==> cont."""
        items = self.body.get("inner", [])
        return self.top_seq(items)

    def top_seq(self, items):
        for i, st in enumerate(items):
            if st["kind"] == "LabelStmt":
                lid = st.get("declId")
                pre = [self.stmt(x) for x in items[:i]]
                rest = [st["inner"][0]] + items[i + 1:]
                if not rest or items[-1]["kind"] != "ReturnStmt":
                    raise Unhandled("label whose continuation does not end in return")
                self.ctx.append(("goto", lid))
                # nested ifs keep ctx[-1]; inner loops push "loop" so a goto there is refused
                R = self.top_seq(rest)
                self.ctx.pop()
                return self.seq(pre + [("loop", ("blk", R))])
        return self.seq([self.stmt(x) for x in items])

    def ev_cond_events(self, c, atoms):
        if self.has_tracked(c) and strip(c)["kind"] == "BinaryOperator" and strip(c)["opcode"] == "=":
            raise Unhandled("allocation in a loop condition")
        self.ev_expr(c, atoms)

    def expr_stmt(self, e):
        atoms = []
        self.ev_expr(e, atoms)
        se = strip(e)
        if se["kind"] == "CallExpr" and se.get("type", {}).get("qualType") == "err_t":
            # err_t result discarded: resolved after all functions are known (see mark_discards)
            cn = callee_name(se)
            for a in reversed(atoms):
                if a == [("call", self.call_id(cn))]:
                    a.append(("calleeFail?", self.call_id(cn)))
                    break
        return self.seq([("atom", a) for a in atoms])

    def run(self):
        items = [x for x in self.body.get("inner", []) if x["kind"] != "NullStmt"]
        if not items or items[-1]["kind"] != "ReturnStmt":
            raise Unhandled("function body does not end in a return statement")
        return self.top()


# --------------------------------------------------------------------------- Lean rendering
def lean_ev(ev):
    t = ev[0]
    if t == "code":
        return ".code .%s" % ev[1]
    if t == "vcall":
        return ".vcall %s" % ("true" if ev[1] else "false")
    if t == "vres":
        return ".vres %s" % ("true" if ev[1] else "false")
    return ".%s %d" % (t, ev[1])


def lean_cfg(c, ind=1):
    pad = "  " * ind
    k = c[0]
    if k == "skip":
        return pad + ".skip"
    if k == "brk":
        return pad + ".brk"
    if k == "seq":
        return pad + "seqs [\n" + ",\n".join(lean_cfg(x, ind + 1) for x in c[1]) + "]"
    if k == "ite":
        return "%s.ite %d (\n%s) (\n%s)" % (pad, c[1], lean_cfg(c[2], ind + 1), lean_cfg(c[3], ind + 1))
    if k == "loop":
        return "%s.loop (\n%s)" % (pad, lean_cfg(c[1], ind + 1))
    if k == "blk":
        return "%s.blk (\n%s)" % (pad, lean_cfg(c[1], ind + 1))
    if k == "cont":
        return pad + ".cont"
    if k == "ret":
        r = c[1]
        if r[0] == "err":
            return pad + "retErr %d" % r[1]
        return pad + ".ret " + {"ok": ".ok", "code": ".code", "unk": ".unk"}[r[0]]
    if k == "atom":
        evs = c[1]
        if len(evs) == 2 and evs[0][0] == "allocOk":
            return "%salloc %d" % (pad, evs[0][1])
        if len(evs) == 2 and evs[0][0] == "resizeOk":
            return "%sresize %d" % (pad, evs[0][1])
        return "%s.atom [%s]" % (pad, ", ".join(lean_ev(e) for e in evs))
    if k == "ifnull":
        return "%s.ifnull %d (\n%s) (\n%s)" % (pad, c[1], lean_cfg(c[2], ind + 1), lean_cfg(c[3], ind + 1))
    if k == "ifcode":
        return "%s.ifcode (\n%s) (\n%s)" % (pad, lean_cfg(c[1], ind + 1), lean_cfg(c[2], ind + 1))
    raise Unhandled("render " + k)


def size_of(c):
    k = c[0]
    if k == "seq":
        return 1 + sum(size_of(x) for x in c[1])
    if k in ("ite", "ifnull"):
        return 1 + size_of(c[2]) + size_of(c[3])
    if k == "ifcode":
        return 1 + size_of(c[1]) + size_of(c[2])
    if k in ("loop", "blk"):
        return 1 + size_of(c[1])
    return 1


def count_events(c, kinds):
    k = c[0]
    if k == "atom":
        return 1 if any(e[0] in kinds for e in c[1]) else 0
    if k == "seq":
        return sum(count_events(x, kinds) for x in c[1])
    if k in ("ite", "ifnull"):
        return count_events(c[2], kinds) + count_events(c[3], kinds)
    if k == "ifcode":
        return count_events(c[1], kinds) + count_events(c[2], kinds)
    if k in ("loop", "blk"):
        return count_events(c[1], kinds)
    return 0


# --------------------------------------------------------------------------- driver over the tree
def translate_file(src):
    """-> (list of per-function dicts, list of 'unhandled:<f>:<why>')"""
    txt = open(os.path.join(repo(), src), errors="replace").read()
    if not re.search(r"\berr_t\b", txt):
        return [], []               # no err_t function can be defined here (bash_f*.c, belt_block.c, …)
    try:
        tu = clangast.tu_ast(src, EXTRA)
    except Unhandled as e:
        return [], ["unhandled:%s:%s" % (src, str(e)[:200])]
    done, bad = [], []
    for n in tu.get("inner", []):
        if n.get("kind") != "FunctionDecl" or not n.get("type", {}).get("qualType", "").startswith("err_t ("):
            continue
        if not any(c.get("kind") == "CompoundStmt" for c in n.get("inner", [])):
            continue
        try:
            f = Fn(n, src)
            cfg = f.run()
            chk = checks_of(f)
            rng = range_checks_of(f)
            fg = field_guards_of(f)
            done.append({"name": f.name, "src": src, "line": f.line, "params": f.params, "blobs": f.blobs,
                         "outs": f.outs, "calls": f.calls, "cfg": cfg, "nconds": f.nconds,
                         "static": n.get("storageClass") == "static", "checks": chk, "ranges": rng, "fguards": fg})
        except Unhandled as e:
            bad.append("unhandled:%s:%s" % (n.get("name"), e))
        except (KeyError, IndexError, TypeError) as e:
            bad.append("unhandled:%s:internal %s %s" % (n.get("name"), type(e).__name__, e))
    clangast._tu_cache.pop((src, tuple(EXTRA)), None)
    return done, bad


def _worker(src):
    return translate_file(src)


def events_of(c, acc):
    k = c[0]
    if k == "atom":
        acc.extend(c[1])
    elif k == "seq":
        for x in c[1]:
            events_of(x, acc)
    elif k in ("ite", "ifnull"):
        events_of(c[2], acc)
        events_of(c[3], acc)
    elif k == "ifcode":
        events_of(c[1], acc)
        events_of(c[2], acc)
    elif k in ("loop", "blk"):
        events_of(c[1], acc)
    return acc


def classes_of(c, acc):
    """(set of class constants, passes?) of a skeleton — mirrors Cfg.classes / Cfg.passes"""
    k = c[0]
    p = False
    if k == "ret":
        if c[1][0] == "err":
            acc.add(c[1][1])
        p = c[1][0] in ("code", "unk")
    elif k == "atom":
        for e in c[1]:
            if e[0] == "cls":
                acc.add(e[1])
    elif k == "seq":
        for x in c[1]:
            p |= classes_of(x, acc)
    elif k in ("ite", "ifnull"):
        p = classes_of(c[2], acc) | classes_of(c[3], acc)
    elif k == "ifcode":
        p = classes_of(c[1], acc) | classes_of(c[2], acc)
    elif k in ("loop", "blk"):
        p = classes_of(c[1], acc)
    return p


def mark_discards(fns):
    """`g(…);` with g an err_t function whose result is discarded: if g (transitively) allocates,
    its allocation may fail unnoticed -> alternative event calleeFail; otherwise the marker is dropped"""
    byname = {}
    for f in fns:
        byname.setdefault(f["name"], f)
    alloc = {f["name"] for f in fns if any(e[0] in ("allocOk", "resizeOk") for e in events_of(f["cfg"], []))}
    changed = True
    while changed:
        changed = False
        for f in fns:
            if f["name"] not in alloc and any(c in alloc for c in f["calls"]):
                alloc.add(f["name"])
                changed = True

    def fix(c, f):
        k = c[0]
        if k == "atom":
            evs = []
            for e in c[1]:
                if e[0] == "calleeFail?":
                    if f["calls"][e[1]] in alloc:
                        evs.append(("calleeFail", e[1]))
                else:
                    evs.append(e)
            return ("atom", evs)
        if k == "seq":
            return ("seq", [fix(x, f) for x in c[1]])
        if k in ("ite", "ifnull"):
            return (k, c[1], fix(c[2], f), fix(c[3], f))
        if k == "ifcode":
            return (k, fix(c[1], f), fix(c[2], f))
        if k in ("loop", "blk"):
            return (k, fix(c[1], f))
        return c
    for f in fns:
        f["cfg"] = fix(f["cfg"], f)


def translate_all():
    import multiprocessing
    files = c_files()
    with multiprocessing.Pool(min(12, os.cpu_count() or 4)) as pool:
        res = pool.map(_worker, files, chunksize=1)
    fns, bad = [], []
    for d, b in res:
        fns += d
        bad += b
    # names must be unique (static helpers with equal names in different files get a suffix)
    seen = {}
    for f in fns:
        if f["name"] in seen:
            f["lname"] = f["name"] + "_" + re.sub(r"\W", "_", os.path.basename(f["src"])[:-2])
        else:
            f["lname"] = f["name"]
        seen[f["name"]] = 1
    fns.sort(key=lambda f: (f["src"], f["line"] or 0))
    mark_discards(fns)
    return fns, bad


# --------------------------------------------------------------------------- C09: private-key range checks
def range_checks_of(f):
    """`if (COND) { …; return ERR_BAD_PRIVKEY; }` anywhere in the body, with COND built by || && ! from
         wwIsZero(d, _)                      -> ('zero',)            d == 0
         wwCmp(d, BOUND, _) OP 0             -> ('cmp', OP)          d OP bound
         wwGetBits(d, r, _) != 0 / == 0      -> ('cmp', '>=') / ('cmp', '<')   with bound 2^r
    over ONE key variable d.  Returns [(ir, line)]; a guard of ERR_BAD_PRIVKEY (504) of another shape is
    reported as ('other', text)."""
    out = []

    def has_ret504(n):
        for m in walk(n):
            if m["kind"] == "ReturnStmt" and m.get("inner") and int_const(m["inner"][0]) == 504:
                return True
            if m["kind"] == "BinaryOperator" and m.get("opcode") == "=" and int_const(m["inner"][1]) == 504:
                return True
        return False

    class No(Exception):
        pass

    def cond(c, keys):
        c = strip(c)
        k = c["kind"]
        if k == "BinaryOperator" and c["opcode"] in ("||", "&&"):
            return ("or" if c["opcode"] == "||" else "and", cond(c["inner"][0], keys), cond(c["inner"][1], keys))
        if k == "UnaryOperator" and c["opcode"] == "!":
            return ("not", cond(c["inner"][0], keys))
        if k == "CallExpr" and callee_name(c) == "wwIsZero":
            keys.add(lv_key(c["inner"][1]))
            return ("zero",)
        if k == "BinaryOperator" and c["opcode"] in (">=", ">", "<", "<=", "==", "!="):
            a, b = strip(c["inner"][0]), c["inner"][1]
            if a["kind"] == "CallExpr" and int_const(b) == 0:
                if callee_name(a) == "wwCmp":
                    keys.add(lv_key(a["inner"][1]))
                    return ("cmp", c["opcode"])
                if callee_name(a) == "wwGetBits" and c["opcode"] in ("!=", "=="):
                    keys.add(lv_key(a["inner"][1]))
                    return ("cmp", ">=" if c["opcode"] == "!=" else "<")
        raise No()
    for n in walk(f.body):
        if n["kind"] == "IfStmt" and len(n["inner"]) >= 2 and has_ret504(n["inner"][1]):
            # only guards whose then-arm itself returns 504 (not an enclosing if further up)
            inner_ifs = [m for m in walk(n["inner"][1]) if m["kind"] == "IfStmt" and has_ret504(m)]
            if inner_ifs:
                continue
            line = n.get("range", {}).get("begin", {}).get("line") or n.get("loc", {}).get("line")
            try:
                keys = set()
                ir = cond(n["inner"][0], keys)
                if len(keys) == 1 and None not in keys:
                    out.append((ir, sorted(keys)[0]))
                elif len(keys) == 2 and None not in keys and ir[0] == "or":
                    # two keys tested side by side (pfokMTI: x and u): each disjunct is a check of its own
                    for part in (ir[1], ir[2]):
                        out.append((part, "+".join(sorted(keys))))
                else:
                    out.append((("other",), "several keys"))
            except No:
                out.append((("other",), f.text(n["inner"][0])[:80]))
    return out


# --------------------------------------------------------------------------- C09: guards over small-integer fields inside buffers
def field_guards_of(f):
    """`if (COND) { …; return CONST; }` where COND contains comparisons of ONE field  p[index] / *p  (p a pointer
    parameter) with integer constants, the field possibly under + / - of constants (C integer promotion: the arithmetic is
    done in `int`, rendered over Int in Lean).  The field part of COND is the disjunction of the pure-field children of
    the smallest (flattened) || / && node that contains every comparison of the field; any other arrangement is returned
    as ('unrecognised', text).  -> [(field text, ir | ('unrecognised', …), class)]"""
    ptrs = {p for p, t in f.params if is_pointer_type(t)}
    out = []

    def field_text(e):
        e = strip(e)
        if e["kind"] == "ArraySubscriptExpr":
            b = lv_key(e["inner"][0])
            if b in ptrs:
                return f.text(e)
        if e["kind"] == "UnaryOperator" and e["opcode"] == "*" and lv_key(e["inner"][0]) in ptrs:
            return f.text(e)
        return None

    class No(Exception):
        pass

    def arith(e, fld):
        e0 = e
        e = strip(e)
        c = int_const(e)
        if c is not None:
            return ("const", c)
        t = field_text(e)
        if t is not None:
            fld.add(t)
            return ("v",)
        if e["kind"] == "BinaryOperator" and e["opcode"] in ("+", "-"):
            return ("add" if e["opcode"] == "+" else "sub", arith(e["inner"][0], fld), arith(e["inner"][1], fld))
        raise No()

    def pure(c):
        """pure-field formula or raise No; returns (ir, set of fields)"""
        c = strip(c)
        k = c["kind"]
        fld = set()
        if k == "BinaryOperator" and c["opcode"] in ("||", "&&"):
            a, fa = pure(c["inner"][0])
            b, fb = pure(c["inner"][1])
            return ("or" if c["opcode"] == "||" else "and", a, b), fa | fb
        if k == "UnaryOperator" and c["opcode"] == "!":
            a, fa = pure(c["inner"][0])
            return ("not", a), fa
        if k == "BinaryOperator" and c["opcode"] in ("==", "!=", "<", "<=", ">", ">="):
            a = arith(c["inner"][0], fld)
            b = arith(c["inner"][1], fld)
            if not fld:
                raise No()
            return ("cmp", c["opcode"], a, b), fld
        raise No()

    def mentions_field(c):
        return any(field_text(m) is not None for m in walk(c))

    def flatten(c, op):
        c = strip(c)
        if c["kind"] == "BinaryOperator" and c["opcode"] == op:
            return flatten(c["inner"][0], op) + flatten(c["inner"][1], op)
        return [c]

    def project(c):
        """field part of a condition reached through || / && only"""
        c = strip(c)
        try:
            return pure(c)
        except No:
            pass
        if c["kind"] == "BinaryOperator" and c["opcode"] in ("||", "&&"):
            kids = flatten(c, c["opcode"])
            with_f = [k for k in kids if mentions_field(k)]
            if len(with_f) == 1:
                return project(with_f[0])
            if c["opcode"] == "||":
                parts = [pure(k) for k in with_f]          # No propagates: unrecognised
                ir, fl = parts[0]
                for a, fa in parts[1:]:
                    ir, fl = ("or", ir, a), fl | fa
                return ir, fl
        raise No()

    def ret_const(n):
        for m in walk(n):
            if m["kind"] == "ReturnStmt" and m.get("inner"):
                c = int_const(m["inner"][0])
                if c:
                    return c
        return None
    for n in walk(f.body):
        if n["kind"] != "IfStmt" or len(n["inner"]) < 2 or not mentions_field(n["inner"][0]):
            continue
        cls = ret_const(n["inner"][1])
        if not cls or any(m["kind"] == "IfStmt" for m in walk(n["inner"][1])):
            continue
        try:
            ir, fl = project(n["inner"][0])
            if len(fl) == 1:
                out.append((sorted(fl)[0], ir, cls))
            else:
                out.append(("?", ("unrecognised", f.text(n["inner"][0])[:100]), cls))
        except No:
            out.append(("?", ("unrecognised", f.text(n["inner"][0])[:100]), cls))
    return out


# --------------------------------------------------------------------------- C09: argument-check cascade
class NotScalar(Exception):
    pass


def checks_of(f):
    """Leading cascade: the maximal prefix of top-level statements of the body of the form
    `if (cond) return CONST;` (no else).  Returns a list of (cond_ir, err) and the atom table.
    cond_ir: ('or'|'and', a, b) | ('not', a) | ('cmp', op, ea, eb) | ('atom', i) | ('nz', e)
    e:       ('var', name) | ('const', n) | ('add'|'sub'|'mul'|'div'|'mod', a, b)
    Opaque atoms: any sub-condition that is not a comparison over scalar parameters."""
    scal = {p for p, t in f.params if t.strip() in INT_TYPES}
    atoms = []

    def expr(e):
        e = strip(e)
        k = e["kind"]
        c = int_const(e)
        if c is not None and c >= 0:
            return ("const", c)
        if k == "DeclRefExpr" and e["referencedDecl"]["name"] in scal:
            return ("var", e["referencedDecl"]["name"])
        if k == "BinaryOperator" and e["opcode"] in ("+", "-", "*", "/", "%"):
            return ({"+": "add", "-": "sub", "*": "mul", "/": "div", "%": "mod"}[e["opcode"]], expr(e["inner"][0]), expr(e["inner"][1]))
        if k == "UnaryExprOrTypeTraitExpr":
            raise NotScalar()
        raise NotScalar()

    def text_of(e):
        b, en = e.get("range", {}).get("begin", {}), e.get("range", {}).get("end", {})
        bo = b.get("offset", b.get("expansionLoc", {}).get("offset"))
        eo = en.get("offset", en.get("expansionLoc", {}).get("offset"))
        tl = en.get("tokLen", en.get("expansionLoc", {}).get("tokLen", 1))
        if bo is None or eo is None:
            return "?"
        try:
            with open(os.path.join(repo(), f.src), "rb") as fh:
                fh.seek(bo)
                return re.sub(r"\s+", " ", fh.read(eo + tl - bo).decode("utf8", "replace"))
        except OSError:
            return "?"

    def opaque(e):
        t = text_of(e)
        if t not in atoms:
            atoms.append(t)
        return ("atom", atoms.index(t))

    def cond(c):
        c0 = c
        c = strip(c)
        k = c["kind"]
        if k == "BinaryOperator" and c["opcode"] in ("||", "&&"):
            return ("or" if c["opcode"] == "||" else "and", cond(c["inner"][0]), cond(c["inner"][1]))
        if k == "UnaryOperator" and c["opcode"] == "!":
            return ("not", cond(c["inner"][0]))
        if k == "BinaryOperator" and c["opcode"] in ("==", "!=", "<", "<=", ">", ">="):
            try:
                return ("cmp", c["opcode"], expr(c["inner"][0]), expr(c["inner"][1]))
            except NotScalar:
                return opaque(c)
        try:
            return ("nz", expr(c))
        except NotScalar:
            return opaque(c)

    out = []
    for st in f.body.get("inner", []):
        if st["kind"] in ("NullStmt",):
            continue
        if st["kind"] == "DeclStmt" and not any(d.get("init") for d in st.get("inner", [])):
            continue
        if st["kind"] != "IfStmt" or len(st["inner"]) != 2:
            break
        body = st["inner"][1]
        while body["kind"] == "CompoundStmt" and len(body.get("inner", [])) == 1:
            body = body["inner"][0]
        if body["kind"] != "ReturnStmt" or not body.get("inner"):
            break
        v = int_const(body["inner"][0])
        if v is None:
            break
        out.append((cond(st["inner"][0]), v))
    return {"list": out, "atoms": atoms, "scalars": [p for p, t in f.params if t.strip() in INT_TYPES],
            "ptypes": {p: t for p, t in f.params}}


def lean_expr(e):
    k = e[0]
    if k == "var":
        return "a_" + e[1]
    if k == "const":
        return str(e[1])
    op = {"add": "+", "sub": "-", "mul": "*", "div": "/", "mod": "%"}[k]
    if k in ("add", "mul"):
        return "((%s %s %s) %% W)" % (lean_expr(e[1]), op, lean_expr(e[2]))
    if k == "sub":
        return "((%s + W - %s) %% W)" % (lean_expr(e[1]), lean_expr(e[2]))
    return "(%s %s %s)" % (lean_expr(e[1]), op, lean_expr(e[2]))


def lean_cond(c):
    k = c[0]
    if k == "or":
        return "(%s || %s)" % (lean_cond(c[1]), lean_cond(c[2]))
    if k == "and":
        return "(%s && %s)" % (lean_cond(c[1]), lean_cond(c[2]))
    if k == "not":
        return "(!%s)" % lean_cond(c[1])
    if k == "atom":
        return "o %d" % c[1]
    if k == "nz":
        return "(%s != 0)" % lean_expr(c[1])
    if k == "cmp":
        op = c[1]
        if op in ("==", "!="):
            return "(%s %s %s)" % (lean_expr(c[2]), op, lean_expr(c[3]))
        return "decide (%s %s %s)" % (lean_expr(c[2]), {"<": "<", "<=": "≤", ">": ">", ">=": "≥"}[op], lean_expr(c[3]))
    raise Unhandled("cond " + k)


def vars_of_cond(c, acc):
    if c[0] in ("var",):
        if c[1] not in acc:
            acc.append(c[1])
    for x in c[1:]:
        if isinstance(x, tuple):
            vars_of_cond(x, acc)
    return acc


# --------------------------------------------------------------------------- module text
HEADER = """-- GENERATED by xlate/x_cfg.py from the err_t functions of src/crypto/** and src/core/** — do not edit.
import Bee2V.C15.Cfg
namespace Bee2V.Gen.CfgAll
open Bee2V.C15 Bee2V.C15.Cfg
set_option maxRecDepth 4000
"""


def generate_cfg(fns, bad):
    out = [HEADER]
    for f in fns:
        out.append("/-- `%s` (%s:%s)  blobs: %s  outputs: %s  calls: %s -/" % (
            f["name"], f["src"], f["line"], ", ".join("%d=%s" % (i, b) for i, b in enumerate(f["blobs"])) or "-",
            ", ".join("%d=%s" % (i, b) for i, b in enumerate(f["outs"])) or "-",
            ", ".join("%d=%s" % (i, b) for i, b in enumerate(f["calls"])) or "-"))
        out.append("def cfg_%s : Cfg :=\n%s\n" % (f["lname"], lean_cfg(f["cfg"])))
    out.append("/-- (name, number of blob variables, callee table, skeleton) of every handled function -/")
    out.append("def all : List (String × Nat × List String × Cfg) := [")
    out.append(",\n".join('  ("%s", %d, [%s], cfg_%s)' % (f["lname"], len(f["blobs"]), ", ".join('"%s"' % c for c in f["calls"]), f["lname"]) for f in fns))
    out.append("]\n")
    out.append("def unhandled : List String := [%s]\n" % ", ".join(json.dumps(b[:160]) for b in bad))
    out.append("end Bee2V.Gen.CfgAll")
    return "\n".join(out) + "\n"


if __name__ == "__main__":
    fns, bad = translate_all()
    if len(sys.argv) > 1 and sys.argv[1] == "--stats":
        print("functions handled:", len(fns), " unhandled:", len(bad))
        for b in bad:
            print("  ", b)
        print("with blobs:", sum(1 for f in fns if f["blobs"]))
        print("max size:", max(size_of(f["cfg"]) for f in fns))
        for f in fns:
            if len(sys.argv) > 2 and f["name"] == sys.argv[2]:
                print(lean_cfg(f["cfg"]))
                print(f["checks"])
    else:
        sys.stdout.write(generate_cfg(fns, bad))

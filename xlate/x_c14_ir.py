#!/usr/bin/env python3
"""Translator for property C14: C source of the SAFE (regular) routines and of the verification
paths  ->  the small IR of lean/Bee2V/C14/IR.lean  (written to Bee2V/Gen/C14IR.lean).

Input: clang-14 `-ast-dump=json` of the CURRENT source (after preprocessing, -DNDEBUG, so
wordEq01 / wordLess01 / SAFE() / _MUL / ASSERT are already expanded).  Fail-closed: every AST
shape that is not understood raises Unhandled.

What is extracted
  * every routine defined as `SAFE(f)` in the anchored files (found by scanning the sources);
  * the verification paths  belt{MAC,DWP,CHE,Hash,HMAC}StepV, bashHashStepV, beltKWPUnwrap;
  * transitively every function they call whose body is found in the searched files
    (zzSubAndW, zzAddAndW, zzAddW2, zzSubW2, zzAddMulW, zzMul, zzSub, wwEq, u64Weight, hexToO, ...).
    A callee without a body (libc memcmp, ...) becomes `ext`; only the names in OPAQUE are
    accepted by the Lean checker (`Prog.allowExt`), every other external call makes `ctProg` false.

Policy (the INPUT labels; everything else is inferred here and re-checked by the Lean checker):
  * a parameter is PUBLIC iff it is a pointer (addresses are public) or has type size_t
    (lengths); every other parameter (word, octet, u16/u32/u64 operands, masks) is SECRET;
  * memory reached through a pointer is SECRET, except through the parameters listed in PUBMEM
    (the hex string of hexEq / hexEqRev and the routines it is handed to) and constant global
    tables (public contents);
  * labels of locals and of return values are the least ones consistent with the flows
    (computed below by a fixpoint; the Lean checker `ctProg` re-checks them, so an error here can
    only make the check fail, never pass).
Verdict cut: in beltKWPUnwrap the result of the regular comparison (memEq / memIsZero) is the
accept/reject verdict and is necessarily branched on.  Where an `if` tests a value computed only
from results of the regular comparison routines (RELEASE), the translated slice ends there
(`ret verdict`): the theorem covers the execution up to the point where the verdict is consumed.
"""
import os, re, subprocess, json, sys
sys.path.insert(0, os.path.dirname(os.path.abspath(__file__)))
from clangast import Unhandled

REPO = os.environ.get("BEE2_REPO", "/repo")

SAFE_FILES = ["src/core/mem.c", "src/core/hex.c", "src/core/u16.c", "src/core/u32.c", "src/core/u64.c",
              "src/core/word.c", "src/math/ww.c", "src/math/zz/zz_add.c", "src/math/zz/zz_mod.c", "src/math/zz/zz_red.c"]
VERIFY = [("src/crypto/belt/belt_mac.c", "beltMACStepV"), ("src/crypto/belt/belt_mac.c", "beltMACStepV2"),
          ("src/crypto/belt/belt_dwp.c", "beltDWPStepV"),
          ("src/crypto/belt/belt_che.c", "beltCHEStepV"), ("src/crypto/belt/belt_hash.c", "beltHashStepV"),
          ("src/crypto/belt/belt_hash.c", "beltHashStepV2"),
          ("src/crypto/belt/belt_hmac.c", "beltHMACStepV"), ("src/crypto/belt/belt_hmac.c", "beltHMACStepV2"),
          ("src/crypto/bash/bash_hash.c", "bashHashStepV"),
          ("src/crypto/belt/belt_kwp.c", "beltKWPUnwrap")]
SEARCH_FILES = SAFE_FILES + ["src/math/zz/zz_etc.c", "src/math/zz/zz_mul.c", "src/core/str.c"] + \
    sorted(set(f for f, _ in VERIFY))
# external routines accepted as opaque (not translated; their own regularity is the business of
# mechanism C / of property C01/C03): everything else that has no body is NOT accepted.
OPAQUE = ["beltBlockEncr", "beltBlockEncr2", "beltBlockDecr", "beltPolyMul", "beltCompr", "beltCompr2", "bashF", "u32From", "u32To",
          "u64From", "u64To", "beltHashStepH", "beltHashStart",
          "blobCreate", "blobClose", "beltWBL_keep", "beltWBLStart", "beltWBLStepD2",
          "memCopy", "memMove", "memSet"]
# struct fields that hold PUBLIC data (fill counters derived from the lengths of the processed data)
PUBFIELDS = {("belt_mac_st", "filled"), ("belt_dwp_st", "filled"), ("belt_che_st", "filled"), ("belt_hash_st", "filled"),
             ("belt_hmac_st", "filled"), ("bash_hash_st", "pos"), ("bash_hash_st", "buf_len")}
# never followed even though a body exists in a searched file
NOFOLLOW = set(OPAQUE)
PUBMEM = {("hexEq", "hex"), ("hexEqRev", "hex"), ("hexToO", "hex"), ("strLen", "str"), ("strlen", "s"),
          ("hexEq_fast", "hex"), ("hexEqRev_fast", "hex")}
RELEASE = {"memEq", "memIsZero", "memCmp", "wwEq", "wwIsZero"}   # regular comparison verdicts
VERDICT_FUNS = {"beltKWPUnwrap"}
EXTRA = ["-DNDEBUG"]
EXTRA32 = ["-DNDEBUG", "-U__SIZEOF_INT128__"]   # defs.h then selects B_PER_W = 32 (dword = u64)

BASIC = {"unsigned long": (64, False), "unsigned long long": (64, False), "long": (64, True), "long long": (64, True),
         "int": (32, True), "unsigned int": (32, False), "unsigned": (32, False), "unsigned short": (16, False),
         "short": (16, True), "unsigned char": (8, False), "char": (8, True), "signed char": (8, True),
         "unsigned __int128": (128, False), "__int128": (128, True), "_Bool": (8, False)}
PTR = (64, False)


def _run(cmd):
    p = subprocess.run(cmd, capture_output=True, text=True)
    if p.returncode != 0:
        raise Unhandled("clang failed: %s: %s" % (" ".join(cmd[-3:]), p.stderr[-400:]))
    return p.stdout


def c_const_eval(txt):
    """value of a C integer constant expression made of decimal literals and operators only
    (precedence climbing; all values are small non-negative ints here, `/` is integer division)"""
    toks = re.findall(r"\d+|<<|>>|<=|>=|==|!=|&&|\|\||[()+\-*/%<>?:&^|~!]", txt)
    if "".join(toks) != re.sub(r"\s+", "", txt):
        raise Unhandled("constant expression: " + txt[:60])
    pos = [0]
    def peek():
        return toks[pos[0]] if pos[0] < len(toks) else None
    def take(t=None):
        x = peek()
        if t is not None and x != t:
            raise Unhandled("constant expression: expected %s" % t)
        pos[0] += 1
        return x
    LV = [["||"], ["&&"], ["|"], ["^"], ["&"], ["==", "!="], ["<", ">", "<=", ">="], ["<<", ">>"], ["+", "-"], ["*", "/", "%"]]
    def unary():
        x = peek()
        if x == "(":
            take(); v = cond(); take(")"); return v
        if x in ("-", "~", "!", "+"):
            take(); v = unary()
            return {"-": -v, "~": ~v, "!": int(v == 0), "+": v}[x]
        if x is None or not x.isdigit():
            raise Unhandled("constant expression: token %s" % x)
        take(); return int(x)
    def binl(i):
        if i == len(LV):
            return unary()
        v = binl(i + 1)
        while peek() in LV[i]:
            op = take(); w = binl(i + 1)
            if op in ("/", "%") and w == 0:
                raise Unhandled("constant expression: division by zero")
            v = {"||": lambda: int(bool(v) or bool(w)), "&&": lambda: int(bool(v) and bool(w)), "|": lambda: v | w, "^": lambda: v ^ w,
                 "&": lambda: v & w, "==": lambda: int(v == w), "!=": lambda: int(v != w), "<": lambda: int(v < w), ">": lambda: int(v > w),
                 "<=": lambda: int(v <= w), ">=": lambda: int(v >= w), "<<": lambda: v << w, ">>": lambda: v >> w, "+": lambda: v + w,
                 "-": lambda: v - w, "*": lambda: v * w, "/": lambda: abs(v) // abs(w) * (1 if (v >= 0) == (w >= 0) else -1),
                 "%": lambda: v - w * (abs(v) // abs(w) * (1 if (v >= 0) == (w >= 0) else -1))}[op]()
        return v
    def cond():
        c = binl(0)
        if peek() == "?":
            take(); a = cond(); take(":"); b = cond()
            return a if c else b
        return c
    v = cond()
    if pos[0] != len(toks):
        raise Unhandled("constant expression: trailing tokens")
    return v


# files whose array subscripts are huge constant macro expressions (permutation indices of bash-f): the
# preprocessed text is rewritten with the subscripts evaluated before clang builds the AST (5 GB of JSON otherwise)
PREFOLD = {"src/crypto/bash/bash_f64.c", "src/crypto/bash/bash_f32.c"}


class TU:
    def __init__(self, src, extra):
        self.src = src
        self.extra = list(extra)
        base = ["clang-14", "-I%s/include" % REPO, "-I%s/src" % REPO, "-Wno-everything"] + self.extra
        if src in PREFOLD:
            txt = _run(base + ["-E", "-P", os.path.join(REPO, src)])
            def sub(m):
                inner = m.group(1)
                if not re.search(r"[?%*/<>^]", inner) or len(inner) < 12:
                    return m.group(0)
                v = c_const_eval(inner)
                if v < 0:
                    raise Unhandled("negative subscript")
                return "[%d]" % v
            txt = re.sub(r"\[([^\[\]A-Za-z_]*)\]", sub, txt)
            p = subprocess.run(base + ["-fsyntax-only", "-Xclang", "-ast-dump=json", "-x", "c", "-"], input=txt, capture_output=True, text=True)
            if p.returncode != 0:
                raise Unhandled("clang failed on prefolded %s: %s" % (src, p.stderr[-300:]))
            self.ast = json.loads(p.stdout)
        else:
            self.ast = json.loads(_run(base + ["-fsyntax-only", "-Xclang", "-ast-dump=json", os.path.join(REPO, src)]))
        self.typedefs, self.funcs, self.globals_, self.records = {}, {}, {}, {}
        for n in self.ast.get("inner", []):
            k = n.get("kind")
            if k == "TypedefDecl":
                t = n["type"]
                self.typedefs[n["name"]] = t.get("desugaredQualType", t["qualType"])
            elif k == "FunctionDecl" and any(c.get("kind") == "CompoundStmt" for c in n.get("inner", [])):
                self.funcs[n["name"]] = n
            elif k == "VarDecl":
                self.globals_[n["name"]] = n
        self._layouts = None
        self._base = base

    def layouts(self):
        if self._layouts is None:
            out = _run(self._base + ["-c", "-o", "/dev/null", "-Xclang", "-fdump-record-layouts", os.path.join(REPO, self.src)])
            L = {}
            for blk in out.split("*** Dumping AST Record Layout")[1:]:
                lines = [l for l in blk.split("\n") if "|" in l]
                if not lines:
                    continue
                m = re.match(r"\s*0 \| (?:struct |union )?(\S+)", lines[0])
                if not m:
                    continue
                name, fields = m.group(1), {}
                for l in lines[1:]:
                    m2 = re.match(r"\s*(\d+) \|   (\S.*) (\w+)$", l)
                    if m2:
                        fields[m2.group(3)] = int(m2.group(1))
                    m3 = re.match(r"\s*\| \[sizeof=(\d+)", l)
                    if m3:
                        fields["#sizeof"] = int(m3.group(1))
                L[name] = fields
            self._layouts = L
        return self._layouts

    # ---- types
    def resolve(self, q):
        """type string -> ('int',bits,sg) | ('ptr', pointee) | ('arr', elem, n) | ('void',) | ('rec', name)"""
        q = q.strip()
        for _ in range(8):
            q2 = re.sub(r"^(const|volatile|register|restrict)\s+", "", q)
            q2 = re.sub(r"\s+(const|volatile|restrict)$", "", q2)
            q2 = re.sub(r"\*\s*(const|restrict|volatile)\b", "*", q2).strip()
            if q2 == q:
                break
            q = q2
        m = re.match(r"^(.*\S)\s*\[(\d*)\]$", q)
        if m:
            return ("arr", m.group(1), int(m.group(2) or 0))
        if q.endswith("*"):
            return ("ptr", q[:-1].strip())
        if q in BASIC:
            return ("int",) + BASIC[q]
        if q == "void":
            return ("void",)
        if q in self.typedefs:
            u = self.typedefs[q]
            if u == q or u.startswith("struct "):
                return ("rec", q if (u == q or "unnamed" in u or "anonymous" in u) else u[7:])
            return self.resolve(u)
        if q.startswith("struct "):
            return ("rec", q[7:])
        if q.startswith("enum ") or q.startswith("union "):
            raise Unhandled("type " + q)
        if q in self.layouts():
            return ("rec", q)
        raise Unhandled("type " + q)

    def sizeof(self, q):
        t = self.resolve(q)
        if t[0] == "int":
            return t[1] // 8
        if t[0] == "ptr":
            return 8
        if t[0] == "arr":
            return self.sizeof(t[1]) * t[2]
        if t[0] == "rec":
            L = self.layouts().get(t[1])
            if L and "#sizeof" in L:
                return L["#sizeof"]
        raise Unhandled("sizeof " + q)


def qt(n):
    t = n.get("type", {})
    return t.get("desugaredQualType") or t.get("qualType")


def qt_sugar(n):
    return n.get("type", {}).get("qualType")


U64 = (64, False)


def const(v):
    return ("const", v)


def add64(a, b):
    if b == ("const", 0):
        return a
    return ("bin", "add", U64, a, b)


def seq(lst):
    lst = [s for s in lst if s != ("skip",)]
    if not lst:
        return ("skip",)
    # balanced tree (sequencing is associative): keeps the nesting depth logarithmic for the long
    # straight-line bodies of the block primitives
    def bal(l):
        if len(l) == 1:
            return l[0]
        h = len(l) // 2
        return ("seq", bal(l[:h]), bal(l[h:]))
    flat = []
    for x in lst:
        flat.append(x)
    return bal(flat)


class FnTr:
    """one C function -> IR"""

    def __init__(self, world, tu, decl):
        self.W, self.tu, self.decl = world, tu, decl
        self.name = decl["name"]
        self.vars = {}        # clang decl id -> index
        self.vname = []       # index -> readable name
        self.vty = []         # index -> (bits, sg)
        self.ptrcls = {}      # var index -> 'sec' | 'pub'
        self.callees = []
        self.params = []
        self.deferred = []
        body = None
        for c in decl.get("inner", []):
            if c["kind"] == "ParmVarDecl":
                i = self.newvar(c.get("name", "_p%d" % len(self.params)), c)
                self.vars[c["id"]] = i
                self.params.append(i)
                t = tu.resolve(qt(c))
                if t[0] in ("ptr", "arr"):
                    self.ptrcls[i] = "pub" if (self.name, c.get("name")) in PUBMEM else "sec"
            elif c["kind"] == "CompoundStmt":
                body = c
        self.rettype = tu.resolve(re.match(r"^(.*?)\s*\(", decl["type"]["qualType"]).group(1))
        self.body = self.stmt(body)

    # ---- variables
    def newvar(self, name, node=None, ty=None):
        if ty is None:
            t = self.tu.resolve(qt(node))
            if t[0] == "int":
                ty = (t[1], t[2])
            elif t[0] in ("ptr", "arr"):
                if t[0] == "arr" and node["kind"] != "ParmVarDecl":
                    raise Unhandled("%s: local array %s" % (self.name, name))
                ty = PTR
            else:
                raise Unhandled("%s: variable %s of type %s" % (self.name, name, qt(node)))
        self.vname.append(name)
        self.vty.append(ty)
        return len(self.vname) - 1

    def temp(self, ty):
        return self.newvar("_t%d" % len(self.vname), ty=ty)

    def ity(self, node):
        """(bits, sg) of the value of an expression node (pointers = 64-bit unsigned)"""
        t = self.tu.resolve(qt(node))
        if t[0] == "int":
            return (t[1], t[2])
        if t[0] in ("ptr", "arr"):
            return PTR
        raise Unhandled("%s: value of type %s" % (self.name, qt(node)))

    def pointee_size(self, node):
        t = self.tu.resolve(qt(node))
        if t[0] == "ptr":
            return self.tu.sizeof(t[1])
        if t[0] == "arr":
            return self.tu.sizeof(t[1])
        raise Unhandled("%s: not a pointer: %s" % (self.name, qt(node)))

    # ---- memory class of a pointer-valued AST node
    def pcls(self, n):
        k = n["kind"]
        if k in ("ImplicitCastExpr", "CStyleCastExpr", "ParenExpr"):
            if n.get("castKind") == "NullToPointer":
                return None
            return self.pcls(n["inner"][0])
        if k == "DeclRefExpr":
            rid = n["referencedDecl"]["id"]
            if rid in self.vars:
                v = self.vars[rid]
                if v in self.ptrcls:
                    return self.ptrcls[v]
                raise Unhandled("%s: pointer %s of unknown memory class" % (self.name, self.vname[v]))
            if n["referencedDecl"]["name"] in self.tu.globals_:
                return "pub"
            raise Unhandled("%s: reference %s" % (self.name, n["referencedDecl"].get("name")))
        if k == "IntegerLiteral":
            return None
        if k == "BinaryOperator" and n["opcode"] in ("+", "-"):
            a, b = n["inner"]
            ta = self.tu.resolve(qt(a))
            return self.pcls(a if ta[0] in ("ptr", "arr") else b)
        if k == "BinaryOperator" and n["opcode"] == "=":
            return self.pcls(n["inner"][1])
        if k in ("CompoundAssignOperator",) or (k == "UnaryOperator" and n["opcode"] in ("++", "--")):
            return self.pcls(n["inner"][0])
        if k == "BinaryOperator" and n["opcode"] == ",":
            return self.pcls(n["inner"][1])
        if k == "UnaryOperator" and n["opcode"] == "&":
            return self.pcls_lv(n["inner"][0])
        if k in ("MemberExpr", "ArraySubscriptExpr") or (k == "UnaryOperator" and n["opcode"] == "*"):
            return self.pcls_lv(n)   # array member decayed to a pointer
        if k == "CallExpr":
            return "sec"      # memory handed out by a routine (blobCreate) is secret by default
        raise Unhandled("%s: memory class of %s" % (self.name, k))

    def pcls_lv(self, n):
        k = n["kind"]
        if k == "ParenExpr":
            return self.pcls_lv(n["inner"][0])
        if k == "ArraySubscriptExpr":
            return self.pcls(n["inner"][0])
        if k == "UnaryOperator" and n["opcode"] == "*":
            return self.pcls(n["inner"][0])
        if k == "MemberExpr":
            return self.pcls(n["inner"][0]) if n.get("isArrow") else self.pcls_lv(n["inner"][0])
        if k == "DeclRefExpr" and n["referencedDecl"]["name"] in self.tu.globals_:
            return "pub"
        raise Unhandled("%s: memory class of lvalue %s" % (self.name, k))

    # ---- lvalues
    def lvalue(self, n):
        """-> (pre, ('var', i)) | (pre, ('mem', pub, bytes, addr))"""
        k = n["kind"]
        if k == "ParenExpr":
            return self.lvalue(n["inner"][0])
        if k == "DeclRefExpr":
            rid = n["referencedDecl"]["id"]
            if rid in self.vars:
                return [], ("var", self.vars[rid])
            g = n["referencedDecl"]["name"]
            if g in self.tu.globals_:
                a = self.W.global_addr(self.tu, g)
                t = self.tu.resolve(qt(n))
                sz = self.tu.sizeof(qt(n)) if t[0] != "arr" else 0
                return [], ("mem", True, sz, const(a))
            raise Unhandled("%s: reference to %s" % (self.name, g))
        if k == "ArraySubscriptExpr":
            base, idx = n["inner"]
            pb, eb = self.rvalue(base)
            pi, ei = self.rvalue(idx)
            ti = self.ity(idx)
            if ti != U64:
                ei = ("cast", ti, U64, ei)
            sz = self.pointee_size(base)
            cls = self.pcls(base)
            if cls is None:
                raise Unhandled("%s: subscript of null" % self.name)
            off = ei if sz == 1 else ("bin", "mul", U64, ei, const(sz))
            return pb + pi, ("mem", cls == "pub", self.tu.sizeof(qt(n)) if self.tu.resolve(qt(n))[0] != "arr" else 0, add64(eb, off))
        if k == "UnaryOperator" and n["opcode"] == "*":
            p, e = self.rvalue(n["inner"][0])
            cls = self.pcls(n["inner"][0])
            if cls is None:
                raise Unhandled("%s: deref of null" % self.name)
            t = self.tu.resolve(qt(n))
            return p, ("mem", cls == "pub", self.tu.sizeof(qt(n)) if t[0] != "arr" else 0, e)
        if k == "MemberExpr":
            base = n["inner"][0]
            fld = n["name"]
            if n.get("isArrow"):
                p, e = self.rvalue(base)
                cls = self.pcls(base)
                t = self.tu.resolve(qt(base))
                rec = self.tu.resolve(t[1])
            else:
                p, lv = self.lvalue(base)
                if lv[0] != "mem":
                    raise Unhandled("%s: member of a non-memory object" % self.name)
                e, cls = lv[3], ("pub" if lv[1] else "sec")
                rec = self.tu.resolve(qt(base))
            if rec[0] != "rec":
                raise Unhandled("%s: member of %s" % (self.name, rec))
            L = self.tu.layouts().get(rec[1])
            if not L or fld not in L:
                raise Unhandled("%s: layout of %s.%s unknown" % (self.name, rec[1], fld))
            t = self.tu.resolve(qt(n))
            sz = 0 if t[0] in ("arr", "rec") else self.tu.sizeof(qt(n))
            if (rec[1], fld) in PUBFIELDS:
                if sz == 0:
                    raise Unhandled("%s: public field %s.%s is an aggregate" % (self.name, rec[1], fld))
                cls = "pub"
            return p, ("mem", cls == "pub", sz, add64(e, const(L[fld])))
        raise Unhandled("%s: lvalue %s" % (self.name, k))

    def read_lv(self, lv):
        if lv[0] == "var":
            return ("var", lv[1])
        if lv[2] == 0:
            raise Unhandled("%s: load of an aggregate" % self.name)
        return ("load", lv[1], lv[2], lv[3])

    def write_lv(self, lv, e):
        if lv[0] == "var":
            return ("assign", lv[1], e)
        if lv[2] == 0:
            raise Unhandled("%s: store of an aggregate" % self.name)
        return ("store", lv[1], lv[2], lv[3], e)

    # ---- hazards: a hoisted side effect must not change what a sibling reads
    def writes(self, stmts):
        w = set()
        for s in stmts:
            if s[0] == "assign":
                w.add(s[1])
            elif s[0] == "call" and s[1] is not None:
                w.add(s[1])
            elif s[0] in ("seq",):
                w |= self.writes(s[1:])
            elif s[0] == "ite":
                w |= self.writes([s[2], s[3]])
        return w

    def reads(self, e):
        if e[0] == "var":
            return {e[1]}
        r = set()
        for x in e[1:]:
            if isinstance(x, tuple) and x and isinstance(x[0], str) and x[0] in ("var", "const", "un", "bin", "cast", "load", "land", "lor", "cond"):
                r |= self.reads(x)
        return r

    def stores_any(self, stmts):
        for s in stmts:
            if s[0] in ("store", "call", "ext"):
                return True
            if s[0] in ("seq", "ite") and self.stores_any([x for x in s[1:] if isinstance(x, tuple) and x and x[0] in ("store", "call", "ext", "seq", "ite", "assign")]):
                return True
        return False

    def has_load(self, e):
        if e[0] == "load":
            return True
        return any(isinstance(x, tuple) and x and isinstance(x[0], str) and x[0] in ("un", "bin", "cast", "load", "land", "lor", "cond") and self.has_load(x) for x in e[1:])

    def hazard(self, pre_other, e_mine, what):
        """pre_other is executed BEFORE e_mine is evaluated although C evaluates e_mine first/unsequenced"""
        if self.writes(pre_other) & self.reads(e_mine):
            raise Unhandled("%s: evaluation-order hazard in %s" % (self.name, what))
        if self.has_load(e_mine) and pre_other:
            # a call/store hoisted before a load of the sibling: decided once the callees are known
            self.deferred.append((list(pre_other), what))

    def check_deferred(self, impure):
        """impure(name) -> True if the routine may write memory"""
        def bad(stmts):
            for s in stmts:
                if s[0] == "store" or s[0] == "ext":
                    return True
                if s[0] == "call" and impure(s[2]):
                    return True
                if s[0] in ("seq", "ite", "loop") and bad([x for x in s[1:] if isinstance(x, tuple) and x and isinstance(x[0], str) and x[0] in ("store", "call", "ext", "seq", "ite", "loop")]):
                    return True
            return False
        for pre, what in self.deferred:
            if bad(pre):
                raise Unhandled("%s: load/store order hazard in %s" % (self.name, what))

    def may_store(self, impure):
        def bad(s):
            if s[0] in ("store", "ext"):
                return True
            if s[0] == "call" and impure(s[2]):
                return True
            return any(bad(x) for x in s[1:] if isinstance(x, tuple) and x and isinstance(x[0], str) and x[0] in ("store", "call", "ext", "seq", "ite", "loop"))
        return bad(self.body)

    # ---- rvalues
    def rvalue(self, n):
        """-> (pre statements, pure expression); constant sub-expressions are folded at once"""
        if n.get("kind") == "ConditionalOperator":
            pc, ec = self.rvalue(n["inner"][0])
            if not pc and ec[0] == "const":
                return self.rvalue(n["inner"][1] if ec[1] != 0 else n["inner"][2])
        p, e = self.rvalue0(n)
        return p, fold_top(e)

    def rvalue0(self, n):
        k = n["kind"]
        if k in ("ParenExpr", "ConstantExpr"):
            return self.rvalue(n["inner"][0])
        if k in ("ImplicitCastExpr", "CStyleCastExpr"):
            ck = n.get("castKind")
            inner = n["inner"][0]
            if ck == "LValueToRValue":
                p, lv = self.lvalue(inner)
                return p, self.read_lv(lv)
            if ck == "ArrayToPointerDecay":
                p, lv = self.lvalue(inner)
                if lv[0] != "mem":
                    raise Unhandled("%s: decay of a non-memory array" % self.name)
                return p, lv[3]
            if ck in ("NoOp", "BitCast"):
                return self.rvalue(inner)
            if ck == "NullToPointer":
                return [], const(0)
            if ck in ("IntegralCast", "PointerToIntegral", "IntegralToPointer"):
                p, e = self.rvalue(inner)
                s, d = self.ity(inner), self.ity(n)
                if e[0] == "const":
                    return p, const(self.conv(s, d, e[1]))
                if s == d or (not s[1] and not d[1] and s[0] <= d[0]):
                    return p, e
                return p, ("cast", s, d, e)
            if ck == "ToVoid":
                p, e = self.rvalue(inner)
                return p, const(0)
            if ck == "FunctionToPointerDecay":
                raise Unhandled("%s: function pointer value" % self.name)
            raise Unhandled("%s: cast kind %s" % (self.name, ck))
        if k == "IntegerLiteral":
            b, s = self.ity(n)
            return [], const(int(n["value"]) % (1 << b))
        if k == "CharacterLiteral":
            b, s = self.ity(n)
            return [], const(int(n["value"]) % (1 << b))
        if k == "UnaryExprOrTypeTraitExpr":
            if n.get("name") == "sizeof" and "argType" in n:
                return [], const(self.tu.sizeof(n["argType"].get("desugaredQualType") or n["argType"]["qualType"]))
            if n.get("name") == "sizeof" and n.get("inner"):
                return [], const(self.tu.sizeof(qt(n["inner"][0])))
            raise Unhandled("%s: %s" % (self.name, n.get("name")))
        if k == "DeclRefExpr":
            # enum constant
            rd_ = n["referencedDecl"]
            if rd_.get("kind") == "EnumConstantDecl":
                raise Unhandled("%s: enum constant %s" % (self.name, rd_.get("name")))
            raise Unhandled("%s: bare reference %s" % (self.name, rd_.get("name")))
        if k == "UnaryOperator":
            op = n["opcode"]
            a = n["inner"][0]
            if op in ("-", "~"):
                p, e = self.rvalue(a)
                return p, ("un", "neg" if op == "-" else "bnot", self.ity(n), e)
            if op == "!":
                p, e = self.rvalue(a)
                return p, ("un", "lnot", self.ity(a), e)
            if op == "+":
                return self.rvalue(a)
            if op == "&":
                p, lv = self.lvalue(a)
                if lv[0] != "mem":
                    raise Unhandled("%s: address of a register variable" % self.name)
                return p, lv[3]
            if op in ("++", "--"):
                p, lv = self.lvalue(a)
                ty = self.ity(a)
                t = self.tu.resolve(qt(a))
                step = self.pointee_size(a) if t[0] == "ptr" else 1
                cur = self.read_lv(lv)
                new = ("bin", "add" if op == "++" else "sub", ty, cur, const(step))
                if lv[0] == "mem":
                    tmp = self.temp(ty)
                    pre = p + [("assign", tmp, cur), self.write_lv(lv, ("bin", "add" if op == "++" else "sub", ty, ("var", tmp), const(step)))]
                    if n.get("isPostfix"):
                        return pre, ("var", tmp)
                    return pre, ("bin", "add" if op == "++" else "sub", ty, ("var", tmp), const(step))
                if n.get("isPostfix"):
                    tmp = self.temp(ty)
                    return p + [("assign", tmp, cur), ("assign", lv[1], new)], ("var", tmp)
                return p + [("assign", lv[1], new)], ("var", lv[1])
            raise Unhandled("%s: unary %s" % (self.name, op))
        if k == "BinaryOperator":
            return self.binop(n)
        if k == "CompoundAssignOperator":
            op = n["opcode"][:-1]
            lhs, rhs = n["inner"]
            pl, lv = self.lvalue(lhs)
            pr, er = self.rvalue(rhs)
            tl = self.tu.resolve(qt(lhs))
            lty = self.ity(lhs)
            cur = self.read_lv(lv)
            # `lhs op= f(..)`: C leaves the order of the read of lhs and the call open; both gcc and clang
            # call first, and so does the IR (validated by the IR-vs-C comparison on every run)
            if self.writes(pr) & self.reads(cur):
                raise Unhandled("%s: evaluation-order hazard in compound assignment" % self.name)
            if tl[0] == "ptr":
                sz = self.pointee_size(lhs)
                ti = self.ity(rhs)
                if ti != U64:
                    er = ("cast", ti, U64, er)
                off = er if sz == 1 else ("bin", "mul", U64, er, const(sz))
                if op not in ("+", "-"):
                    raise Unhandled("%s: pointer %s=" % (self.name, op))
                val = ("bin", "add" if op == "+" else "sub", U64, cur, off)
            else:
                cl = self.tu.resolve(n["computeLHSType"].get("desugaredQualType") or n["computeLHSType"]["qualType"])
                cr = self.tu.resolve(n["computeResultType"].get("desugaredQualType") or n["computeResultType"]["qualType"])
                if cl[0] != "int" or cr[0] != "int":
                    raise Unhandled("%s: compound assignment types" % self.name)
                cty, rty = (cl[1], cl[2]), (cr[1], cr[2])
                a = cur if lty == cty else ("cast", lty, cty, cur)
                val = self.arith(op, cty, a, er, self.ity(rhs))
                if rty != lty:
                    val = ("cast", rty, lty, val)
            if lv[0] == "var":
                return pl + pr + [("assign", lv[1], val)], ("var", lv[1])
            tmp = self.temp(lty)
            return pl + pr + [("assign", tmp, val), self.write_lv(lv, ("var", tmp))], ("var", tmp)
        if k == "ConditionalOperator":
            c, a, b = n["inner"]
            pc, ec = self.rvalue(c)
            pa, ea = self.rvalue(a)
            pb, eb = self.rvalue(b)
            if not pa and not pb:
                return pc, ("cond", ec, ea, eb)
            t = self.temp(self.ity(n))
            return pc + [("ite", ec, seq(pa + [("assign", t, ea)]), seq(pb + [("assign", t, eb)]))], ("var", t)
        if k == "CallExpr":
            return self.call(n, want=True)
        raise Unhandled("%s: expression %s" % (self.name, k))

    def conv(self, s, d, v):
        if s[1] and v >= (1 << (s[0] - 1)):
            v -= 1 << s[0]
        return v % (1 << d[0])

    def arith(self, op, ty, a, b, bty):
        m = {"+": "add", "-": "sub", "*": "mul", "&": "band", "|": "bor", "^": "bxor", "<<": "shl", ">>": "shr",
             "/": "div", "%": "rem"}
        if op not in m:
            raise Unhandled("%s: operator %s" % (self.name, op))
        return ("bin", m[op], ty, a, b)

    def binop(self, n):
        op = n["opcode"]
        a, b = n["inner"]
        if op == "=":
            pl, lv = self.lvalue(a)
            pr, er = self.rvalue(b)
            if lv[0] == "var":
                v = lv[1]
                if self.tu.resolve(qt(a))[0] == "ptr":
                    c = self.pcls(b)
                    if c is not None:
                        if self.ptrcls.get(v, c) != c:
                            raise Unhandled("%s: pointer %s changes memory class" % (self.name, self.vname[v]))
                        self.ptrcls[v] = c
                return pl + pr + [("assign", v, er)], ("var", v)
            if lv[0] == "mem":
                self.hazard(pr, lv[3], "assignment")
            if er[0] in ("var", "const"):
                return pl + pr + [self.write_lv(lv, er)], er
            t = self.temp(self.ity(a))
            return pl + pr + [("assign", t, er), self.write_lv(lv, ("var", t))], ("var", t)
        if op == ",":
            pa, ea = self.rvalue(a)
            pb, eb = self.rvalue(b)
            return pa + pb, eb
        if op in ("&&", "||"):
            pa, ea = self.rvalue(a)
            pb, eb = self.rvalue(b)
            if not pb:
                return pa, ("land" if op == "&&" else "lor", ea, eb)
            t = self.temp((32, True))
            nz = ("bin", "ne", self.ity(b), eb, const(0))
            if op == "&&":
                return pa + [("assign", t, const(0)), ("ite", ea, seq(pb + [("assign", t, nz)]), ("skip",))], ("var", t)
            return pa + [("assign", t, const(1)), ("ite", ea, ("skip",), seq(pb + [("assign", t, nz)]))], ("var", t)
        pa, ea = self.rvalue(a)
        pb, eb = self.rvalue(b)
        self.hazard(pb, ea, "binary " + op)
        ta, tb = self.tu.resolve(qt(a)), self.tu.resolve(qt(b))
        if op in ("<", "<=", ">", ">=", "==", "!="):
            ty = self.ity(a)
            if self.ity(b) != ty and not (ta[0] in ("ptr",) or tb[0] in ("ptr",)):
                raise Unhandled("%s: comparison of %s and %s" % (self.name, qt(a), qt(b)))
            m = {"<": "lt", "<=": "le", ">": "gt", ">=": "ge", "==": "eq", "!=": "ne"}
            return pa + pb, ("bin", m[op], ty, ea, eb)
        if op in ("+", "-") and (ta[0] in ("ptr", "arr") or tb[0] in ("ptr", "arr")):
            if ta[0] in ("ptr", "arr") and tb[0] in ("ptr", "arr"):
                raise Unhandled("%s: pointer difference" % self.name)
            if ta[0] in ("ptr", "arr"):
                pn, pe, ie, inode = a, ea, eb, b
            else:
                if op == "-":
                    raise Unhandled("%s: int - pointer" % self.name)
                pn, pe, ie, inode = b, eb, ea, a
            sz = self.pointee_size(pn)
            ti = self.ity(inode)
            if ti != U64:
                ie = ("cast", ti, U64, ie)
            off = ie if sz == 1 else ("bin", "mul", U64, ie, const(sz))
            return pa + pb, ("bin", "add" if op == "+" else "sub", U64, pe, off)
        ty = self.ity(n)
        if op in ("<<", ">>"):
            return pa + pb, self.arith(op, ty, ea, eb, self.ity(b))
        if self.ity(a) != ty or self.ity(b) != ty:
            raise Unhandled("%s: operands of %s not converted (%s, %s)" % (self.name, op, qt(a), qt(b)))
        return pa + pb, self.arith(op, ty, ea, eb, ty)

    def call(self, n, want):
        cal = n["inner"][0]
        while cal["kind"] in ("ImplicitCastExpr", "ParenExpr"):
            cal = cal["inner"][0]
        if cal["kind"] != "DeclRefExpr" or cal["referencedDecl"].get("kind") != "FunctionDecl":
            raise Unhandled("%s: indirect call" % self.name)
        fname = cal["referencedDecl"]["name"]
        pre, args, clss = [], [], []
        for a in n["inner"][1:]:
            p, e = self.rvalue(a)
            for prev in args:
                self.hazard(p, prev, "call arguments")
            pre += p
            args.append(e)
            t = self.tu.resolve(qt(a))
            clss.append(self.pcls(a) if t[0] in ("ptr", "arr") else "-")
        rt = self.tu.resolve(qt(n)) if qt(n) != "void" else ("void",)
        dst = None
        if want:
            if rt[0] == "void":
                raise Unhandled("%s: value of void call %s" % (self.name, fname))
            dst = self.temp(PTR if rt[0] == "ptr" else (rt[1], rt[2]))
            if rt[0] == "ptr":
                self.ptrcls[dst] = "sec"
        self.callees.append((fname, tuple(clss)))
        pre.append(("call", dst, fname, args, tuple(clss)))
        return pre, (("var", dst) if want else const(0))

    # ---- statements
    def has_jump(self, n, kinds):
        if n.get("kind") in kinds:
            return True
        if n.get("kind") in ("ForStmt", "WhileStmt", "DoStmt"):
            return False
        return any(self.has_jump(c, kinds) for c in n.get("inner", []))

    def is_sc(self, n):
        while n["kind"] in ("ParenExpr",):
            n = n["inner"][0]
        return (n["kind"] == "BinaryOperator" and n["opcode"] in ("&&", "||")) or \
               (n["kind"] == "UnaryOperator" and n["opcode"] == "!" and self.is_sc(n["inner"][0]))

    def cf(self, n, T, F):
        while n["kind"] in ("ParenExpr",):
            n = n["inner"][0]
        if n["kind"] == "BinaryOperator" and n["opcode"] == "&&":
            return self.cf(n["inner"][0], self.cf(n["inner"][1], T, F), F)
        if n["kind"] == "BinaryOperator" and n["opcode"] == "||":
            return self.cf(n["inner"][0], T, self.cf(n["inner"][1], T, F))
        if n["kind"] == "UnaryOperator" and n["opcode"] == "!" and self.is_sc(n["inner"][0]):
            return self.cf(n["inner"][0], F, T)
        p, e = self.rvalue(n)
        return seq(p + [("ite", e, T, F)])

    def stmt(self, n):
        if n is None or not n or "kind" not in n:
            return ("skip",)
        k = n["kind"]
        if k == "CompoundStmt":
            return seq([self.stmt(c) for c in n.get("inner", [])])
        if k == "NullStmt":
            return ("skip",)
        if k == "DeclStmt":
            out = []
            for d in n.get("inner", []):
                if d["kind"] != "VarDecl":
                    raise Unhandled("%s: declaration %s" % (self.name, d["kind"]))
                if d.get("storageClass") == "static":
                    raise Unhandled("%s: static local %s" % (self.name, d["name"]))
                i = self.newvar(d["name"], d)
                self.vars[d["id"]] = i
                ini = [c for c in d.get("inner", []) if "kind" in c and c["kind"] not in ("FullComment",) and not c["kind"].endswith("Attr")]
                if ini:
                    p, e = self.rvalue(ini[0])
                    if self.tu.resolve(qt(d))[0] == "ptr":
                        c = self.pcls(ini[0])
                        if c is not None:
                            self.ptrcls[i] = c
                    out += p + [("assign", i, e)]
            return seq(out)
        if k == "IfStmt":
            inner = n["inner"]
            c, th = inner[0], inner[1]
            el = inner[2] if len(inner) > 2 else None
            T = self.stmt(th)
            F = self.stmt(el) if el else ("skip",)
            p, e = self.rvalue(c)
            if p and self.is_sc(c):
                # the condition calls routines inside `&&` / `||`: control-flow form (every operand
                # is tested by its own `if`, exactly as the short-circuit evaluation does)
                nv = len(self.vname)
                return self.cf(c, T, F)
            return seq(p + [("ite", e, T, F)])
        if k == "WhileStmt":
            c, body = n["inner"]
            p, e = self.rvalue(c)
            return ("loop", seq(p), e, self.stmt(body), ("skip",))
        if k == "ForStmt":
            init, _, c, inc, body = n["inner"]
            si = self.stmt(init) if init and "kind" in init else ("skip",)
            if c and "kind" in c:
                p, e = self.rvalue(c)
            else:
                p, e = [], const(1)
            if inc and "kind" in inc:
                pi, _e = self.rvalue(inc)
            else:
                pi = []
            return seq([si, ("loop", seq(p), e, self.stmt(body), seq(pi))])
        if k == "DoStmt":
            body, c = n["inner"]
            if self.has_jump(body, ("BreakStmt", "ContinueStmt")):
                raise Unhandled("%s: break/continue in do-while" % self.name)
            p, e = self.rvalue(c)
            b = self.stmt(body)
            return seq([b, ("loop", seq(p), e, b, ("skip",))])
        if k == "ReturnStmt":
            if n.get("inner"):
                p, e = self.rvalue(n["inner"][0])
                return seq(p + [("ret", e)])
            return ("ret", const(0))
        if k == "BreakStmt":
            return ("brk",)
        if k == "ContinueStmt":
            return ("cont",)
        if k == "CallExpr":
            p, _ = self.call(n, want=False)
            return seq(p)
        if k in ("SwitchStmt", "GotoStmt", "LabelStmt", "CaseStmt"):
            raise Unhandled("%s: statement %s" % (self.name, k))
        # expression statement
        p, e = self.rvalue(n)
        return seq(p)


STRLEN_IR = None  # built in World (synthetic model of libc strlen on PUBLIC memory)


_TU_CACHE = {}     # parsed translation units are shared by the programs generated in one run


class World:
    def __init__(self, extra=EXTRA, search=None, nofollow=None):
        self.extra = list(extra)
        self.search = list(search) if search is not None else SEARCH_FILES
        self.nofollow = set(nofollow) if nofollow is not None else NOFOLLOW
        self.synth = False      # executable models of libc memcpy/memmove/memset and of the ppMul dispatch (exec program only)
        self.tus = {}
        self.fn = {}            # name -> FnTr or synthetic dict
        self.order = []         # callee-first
        self.globals_addr = {}  # (src, name) -> addr
        self.globals_init = []  # (addr, [bytes])
        self.gnext = 0x7000000
        self.exts = []
        self.impure = {}

    def tu(self, src):
        if src not in self.tus:
            key = (REPO, src, tuple(self.extra))
            if key not in _TU_CACHE:
                _TU_CACHE[key] = TU(src, self.extra)
            self.tus[src] = _TU_CACHE[key]
        return self.tus[src]

    def global_addr(self, tu, name):
        key = (tu.src, name)
        if key in self.globals_addr:
            return self.globals_addr[key]
        d = tu.globals_[name]
        t = tu.resolve(qt(d))
        if "const" not in (qt_sugar(d) or ""):
            raise Unhandled("global %s is not const" % name)
        et = tu.resolve(t[1]) if t[0] == "arr" else None
        if t[0] != "arr" or et[0] != "int":
            raise Unhandled("global %s: only const integer tables are supported" % name)
        esz = et[1] // 8
        vals = []
        for c in d.get("inner", []):
            if c.get("kind") == "InitListExpr":
                for x in c.get("inner", []):
                    v = self.const_eval(tu, x, name) % (1 << (8 * esz))
                    vals += [(v >> (8 * j)) & 255 for j in range(esz)]
        if len(vals) != t[2] * esz:
            raise Unhandled("global %s: %d initialiser octets for %d elements" % (name, len(vals), t[2]))
        a = self.gnext
        self.gnext += (len(vals) + 0xfff) // 0x1000 * 0x1000 + 0x1000
        self.globals_addr[key] = a
        self.globals_init.append((a, vals, name))
        return a

    def const_eval(self, tu, x, name):
        """value of a constant initialiser expression (C semantics: every node wrapped to its type)"""
        k = x["kind"]
        def wrap(v):
            t = tu.resolve(qt(x))
            if t[0] != "int":
                raise Unhandled("global %s initialiser of type %s" % (name, qt(x)))
            v %= 1 << t[1]
            return v - (1 << t[1]) if (t[2] and v >= 1 << (t[1] - 1)) else v
        if k in ("ImplicitCastExpr", "ParenExpr", "ConstantExpr", "CStyleCastExpr"):
            v = self.const_eval(tu, x["inner"][0], name)
            return v if k in ("ParenExpr", "ConstantExpr") else wrap(v)
        if k == "IntegerLiteral":
            return int(x["value"])
        if k == "UnaryOperator" and x["opcode"] in ("-", "~", "+"):
            v = self.const_eval(tu, x["inner"][0], name)
            return wrap({"-": -v, "~": ~v, "+": v}[x["opcode"]])
        if k == "BinaryOperator" and x["opcode"] in ("<<", ">>", "|", "&", "^", "+", "-", "*"):
            a = self.const_eval(tu, x["inner"][0], name)
            b = self.const_eval(tu, x["inner"][1], name)
            op = x["opcode"]
            if op in ("<<", ">>") and not (0 <= b < 128):
                raise Unhandled("global %s: shift count" % name)
            return wrap({"<<": lambda: a << b, ">>": lambda: a >> b, "|": lambda: a | b, "&": lambda: a & b, "^": lambda: a ^ b,
                         "+": lambda: a + b, "-": lambda: a - b, "*": lambda: a * b}[op]())
        raise Unhandled("global %s initialiser %s" % (name, k))

    def find(self, name):
        for src in self.search:
            if not os.path.exists(os.path.join(REPO, src)):
                continue
            t = self.tu(src)
            if name in t.funcs:
                return t, t.funcs[name]
        return None, None

    def add(self, name, src=None, stack=()):
        if name in self.fn:
            return
        if name in stack:
            raise Unhandled("recursion through " + name)
        if name == "strlen" or (self.synth and name in SYNTH):
            sy = SYNTH[name]
            for cn in sy["callees"]:
                self.add(cn[1], cn[0], stack + (name,))
            for e in sy.get("exts", []):
                if e not in self.exts:
                    self.exts.append(e)
            self.impure[name] = sy["impure"]
            self.fn[name] = "synthetic"
            self.order.append(name)
            return
        if src:
            t = self.tu(src)
            d = t.funcs.get(name)
            if d is None:
                raise Unhandled("function %s not found in %s" % (name, src))
        else:
            t, d = (None, None) if name in self.nofollow else self.find(name)
        if d is None:
            if name not in self.exts:
                self.exts.append(name)
            return
        tr = FnTr(self, t, d)
        for cn, _ in tr.callees:
            self.add(cn, None, stack + (name,))
        imp = lambda f: self.impure.get(f, True)
        tr.check_deferred(imp)
        self.impure[name] = tr.may_store(imp)
        self.fn[name] = tr
        self.order.append(name)


GUARD_FILES = ["src/math/zz/zz_add.c", "src/math/zz/zz_mul.c", "src/math/zz/zz_etc.c", "src/math/zz/zz_mod.c", "src/math/zz/zz_red.c",
               "src/math/ww.c", "src/core/mem.c"]


def guarded_routines():
    """single-edition routines whose body contains an `#if(n)def SAFE_FAST` block (the regular code is
    what the default build compiles): found by scanning the source text"""
    out = []
    for src in GUARD_FILES:
        p = os.path.join(REPO, src)
        if not os.path.exists(p):
            continue
        cur = None
        for line in open(p, encoding="utf-8", errors="replace"):
            m = re.match(r"^[A-Za-z_][\w \t\*]*?\b(\w+)\s*\(", line)
            if m and not line.rstrip().endswith(";") and not line.startswith("typedef") and "SAFE(" not in line and "FAST(" not in line:
                cur = m.group(1)
            elif re.match(r"^[A-Za-z_].*\b(SAFE|FAST)\(", line):
                cur = None
            if re.match(r"^\s*#\s*if(n)?def\s+SAFE_FAST", line) and cur and (src, cur) not in out:
                out.append((src, cur))
    return out


def safe_routines():
    """names of all routines defined as SAFE(f) in the anchored files (scan of the source text)"""
    out = []
    for src in SAFE_FILES:
        p = os.path.join(REPO, src)
        if not os.path.exists(p):
            raise Unhandled("anchored file missing: " + src)
        for m in re.finditer(r"^[A-Za-z_][\w \t\*]*\bSAFE\((\w+)\)\s*\(", open(p, encoding="utf-8", errors="replace").read(), flags=re.M):
            out.append((src, m.group(1)))
    return out


# --------------------------------------------------------------------------- labelling (inference)

def lab(e, pubv):
    k = e[0]
    if k == "var":
        return e[1] not in pubv
    if k == "const":
        return False
    if k == "un":
        return lab(e[3], pubv)
    if k == "bin":
        return lab(e[3], pubv) or lab(e[4], pubv)
    if k == "cast":
        return lab(e[3], pubv)
    if k == "load":
        return (not e[1]) or lab(e[3], pubv)
    if k in ("land", "lor"):
        return lab(e[1], pubv) or lab(e[2], pubv)
    if k == "cond":
        return lab(e[1], pubv) or lab(e[2], pubv) or lab(e[3], pubv)
    raise Unhandled("lab " + k)


def infer(world, tr):
    """least labelling of the locals; returns (public set, retPub)"""
    secret_params = set()
    for i in tr.params:
        t = tr.vty[i]
        nm = tr.vname[i]
        is_ptr = i in tr.ptrcls
        d = [c for c in tr.decl["inner"] if c["kind"] == "ParmVarDecl"][tr.params.index(i)]
        is_len = (d["type"]["qualType"].replace("register ", "").strip() == "size_t")
        if not (is_ptr or is_len):
            secret_params.add(i)
    pubv = set(range(len(tr.vname))) - secret_params
    changed = True

    def walk(s):
        nonlocal changed
        k = s[0]
        if k == "assign":
            if s[1] in pubv and lab(s[2], pubv):
                pubv.discard(s[1])
                changed = True
        elif k == "seq":
            walk(s[1]); walk(s[2])
        elif k == "ite":
            walk(s[2]); walk(s[3])
        elif k == "loop":
            walk(s[1]); walk(s[3]); walk(s[4])
        elif k == "call" and s[1] is not None:
            cal = world.sig.get(s[2])
            # results of external (untranslated) routines are public by assumption (oracle stream)
            rp = cal["retPub"] if cal else True
            if s[1] in pubv and not rp:
                pubv.discard(s[1])
                changed = True
    while changed:
        changed = False
        walk(tr.body)
    rets = []

    def collect(s):
        if s[0] == "ret":
            rets.append(s[1])
        elif s[0] == "seq":
            collect(s[1]); collect(s[2])
        elif s[0] == "ite":
            collect(s[2]); collect(s[3])
        elif s[0] == "loop":
            collect(s[1]); collect(s[3]); collect(s[4])
    collect(tr.body)
    retpub = all(not lab(r, pubv) for r in rets)
    return pubv, retpub


# --------------------------------------------------------------------------- verdict cut

def derived_from_release(e, relvars):
    k = e[0]
    if k == "var":
        return e[1] in relvars
    if k == "const":
        return True
    if k == "un":
        return derived_from_release(e[3], relvars)
    if k == "bin" and e[1] in ("eq", "ne", "band", "bor", "bxor"):
        return derived_from_release(e[3], relvars) and derived_from_release(e[4], relvars)
    if k == "cast":
        return derived_from_release(e[3], relvars)
    return False


def verdict_cut(tr):
    """replace an `if (c)` whose condition is a SECRET value computed only from results of the
    RELEASE routines (regular comparisons) by `ret c`: the slice ends where the verdict is consumed."""
    relvars = set()

    def scan(s):
        if s[0] == "call" and s[1] is not None and s[2] in RELEASE:
            relvars.add(s[1])
        for x in s[1:]:
            if isinstance(x, tuple) and x and isinstance(x[0], str) and x[0] in ("seq", "ite", "loop", "call"):
                scan(x)
    scan(tr.body)
    cuts = []

    def rw(s, pubv):
        k = s[0]
        if k == "seq":
            return ("seq", rw(s[1], pubv), rw(s[2], pubv))
        if k == "ite":
            c = s[1]
            if lab(c, pubv) and derived_from_release(c, relvars):
                cuts.append(c)
                return ("ret", c)
            return ("ite", c, rw(s[2], pubv), rw(s[3], pubv))
        if k == "loop":
            return ("loop", rw(s[1], pubv), s[2], rw(s[3], pubv), rw(s[4], pubv))
        return s
    return rw, cuts, relvars


# --------------------------------------------------------------------------- emission

def lean_ty(t):
    return "⟨%d, %s⟩" % (t[0], "true" if t[1] else "false")


UN = {"neg": ".neg", "bnot": ".bnot", "lnot": ".lnot"}


def lean_e(e):
    k = e[0]
    if k == "var":
        return "(.var %d)" % e[1]
    if k == "const":
        return "(.const %d)" % e[1]
    if k == "un":
        return "(.un %s %s %s)" % (UN[e[1]], lean_ty(e[2]), lean_e(e[3]))
    if k == "bin":
        return "(.bin .%s %s %s %s)" % (e[1], lean_ty(e[2]), lean_e(e[3]), lean_e(e[4]))
    if k == "cast":
        return "(.cast %s %s %s)" % (lean_ty(e[1]), lean_ty(e[2]), lean_e(e[3]))
    if k == "load":
        return "(.load %s %d %s)" % ("true" if e[1] else "false", e[2], lean_e(e[3]))
    if k in ("land", "lor"):
        return "(.%s %s %s)" % (k, lean_e(e[1]), lean_e(e[2]))
    if k == "cond":
        return "(.cond %s %s %s)" % (lean_e(e[1]), lean_e(e[2]), lean_e(e[3]))
    raise Unhandled("emit " + k)


def lean_s(s, idx, ind):
    pad = "  " * ind
    k = s[0]
    if k == "ref":
        return pad + s[1]
    if k == "skip":
        return pad + ".skip"
    if k == "assign":
        return pad + "(.assign %d %s)" % (s[1], lean_e(s[2]))
    if k == "store":
        return pad + "(.store %s %d %s %s)" % ("true" if s[1] else "false", s[2], lean_e(s[3]), lean_e(s[4]))
    if k == "seq":
        return pad + "(.seq\n%s\n%s)" % (lean_s(s[1], idx, ind + 1), lean_s(s[2], idx, ind + 1))
    if k == "ite":
        return pad + "(.ite %s\n%s\n%s)" % (lean_e(s[1]), lean_s(s[2], idx, ind + 1), lean_s(s[3], idx, ind + 1))
    if k == "loop":
        return pad + "(.loop\n%s\n%s  %s\n%s\n%s)" % (lean_s(s[1], idx, ind + 1), pad, lean_e(s[2]), lean_s(s[3], idx, ind + 1), lean_s(s[4], idx, ind + 1))
    if k == "ret":
        return pad + "(.ret %s)" % lean_e(s[1])
    if k == "brk":
        return pad + ".brk"
    if k == "cont":
        return pad + ".cont"
    if k == "call":
        dst = "none" if s[1] is None else "(some %d)" % s[1]
        if s[2] in idx["fun"]:
            return pad + "(.call %s %d [%s])" % (dst, idx["fun"][s[2]], ", ".join(lean_e(a) for a in s[3]))
        return pad + "(.ext %s %d [%s])" % (dst, idx["ext"][s[2]], ", ".join(lean_e(a) for a in s[3]))
    raise Unhandled("emit " + k)


def s_size(s):
    k = s[0]
    if k == "seq":
        return s_size(s[1]) + s_size(s[2])
    if k == "ite":
        return 1 + s_size(s[2]) + s_size(s[3])
    if k == "loop":
        return 1 + s_size(s[1]) + s_size(s[3]) + s_size(s[4])
    return 1


def emit_fun(f, idx, chunk=48):
    """Lean text of one function; long straight-line bodies are cut into separately defined pieces
    (`f_<name>_k : Stmt`) so that no single term is huge"""
    pieces = []

    def cut(s):
        if s[0] == "seq" and s_size(s) > chunk:
            return ("seq", cut(s[1]), cut(s[2]))
        if s[0] == "seq" and s_size(s) > chunk // 4 and s_size(f["body"]) > 4 * chunk:
            nm = "f_%s_%d" % (f["name"], len(pieces))
            pieces.append("def %s : Stmt :=\n%s" % (nm, lean_s(s, idx, 1)))
            return ("ref", nm)
        return s
    body = cut(f["body"])
    return pieces, "def f_%s : Fun := { nparams := %d, pubv := [%s], retPub := %s, body :=\n%s }" % (
        f["name"], f["nparams"], ", ".join(map(str, f["pubv"])), "true" if f["retPub"] else "false", lean_s(body, idx, 1))


def strlen_body():
    # size_t strlen(const char* s) { size_t n = 0; while (s[n]) ++n; return n; }   (s in PUBLIC memory)
    return seq([("assign", 1, const(0)),
                ("loop", ("skip",), ("load", True, 1, ("bin", "add", U64, ("var", 0), ("var", 1))),
                 ("assign", 1, ("bin", "add", U64, ("var", 1), const(1))), ("skip",)),
                ("ret", ("var", 1))])


# block primitives, checked in the branches-only observation model (safe.h: table look-ups indexed by
# secret octets are "not yet counted"; branches are)
PRIM_ROOTS = [("src/crypto/belt/belt_block.c", "beltBlockEncr"), ("src/crypto/belt/belt_block.c", "beltBlockEncr2"),
              ("src/crypto/belt/belt_block.c", "beltBlockEncr3"),
              ("src/crypto/belt/belt_block.c", "beltBlockDecr"), ("src/crypto/belt/belt_block.c", "beltBlockDecr2"),
              ("src/crypto/belt/belt_block.c", "beltBlockDecr3"),
              ("src/crypto/belt/belt_compr.c", "beltCompr"), ("src/crypto/belt/belt_compr.c", "beltCompr2"),
              ("src/crypto/belt/belt_lcl.c", "beltPolyMul"), ("src/crypto/belt/belt_lcl.c", "beltBlockMulC"),
              ("src/crypto/bash/bash_f64.c", "bashF"),
              # beltPolyMul -> ppMul(.., n, .., n) dispatches on the PUBLIC length n = W_OF_B(128) through a table of
              # function pointers to ppMul2 (64-bit words) / ppMul4 (32-bit words): the dispatch is opaque, the
              # multiplication routines that it selects are roots
              ("src/math/pp/pp_mul.c", "ppMul1"), ("src/math/pp/pp_mul.c", "ppMul2"), ("src/math/pp/pp_mul.c", "ppMul4")]
PRIM_FILES = ["src/crypto/belt/belt_block.c", "src/crypto/belt/belt_compr.c", "src/crypto/belt/belt_lcl.c",
              "src/crypto/bash/bash_f64.c", "src/math/pp/pp_mul.c", "src/math/pp/pp_red.c", "src/math/ww.c", "src/core/mem.c",
              "src/core/u32.c", "src/core/u64.c"]
PRIM_OPAQUE = ["ppMul"]


def _v(i):
    return ("var", i)


def memcpy_body():
    # void* memcpy(void* d, const void* s, size_t n) { for (i = 0; i < n; ++i) d[i] = s[i]; return d; }
    return seq([("assign", 3, const(0)),
                ("loop", ("skip",), ("bin", "lt", U64, _v(3), _v(2)),
                 ("store", False, 1, ("bin", "add", U64, _v(0), _v(3)), ("load", False, 1, ("bin", "add", U64, _v(1), _v(3)))),
                 ("assign", 3, ("bin", "add", U64, _v(3), const(1)))),
                ("ret", _v(0))])


def memmove_body():
    # forward copy if d <= s, backward copy otherwise (overlap-safe)
    fwd = seq([("assign", 3, const(0)),
               ("loop", ("skip",), ("bin", "lt", U64, _v(3), _v(2)),
                ("store", False, 1, ("bin", "add", U64, _v(0), _v(3)), ("load", False, 1, ("bin", "add", U64, _v(1), _v(3)))),
                ("assign", 3, ("bin", "add", U64, _v(3), const(1))))])
    bwd = seq([("assign", 3, _v(2)),
               ("loop", ("skip",), ("bin", "ne", U64, _v(3), const(0)),
                seq([("assign", 3, ("bin", "sub", U64, _v(3), const(1))),
                     ("store", False, 1, ("bin", "add", U64, _v(0), _v(3)), ("load", False, 1, ("bin", "add", U64, _v(1), _v(3))))]),
                ("skip",))])
    return seq([("ite", ("bin", "le", U64, _v(0), _v(1)), fwd, bwd), ("ret", _v(0))])


def memset_body():
    return seq([("assign", 3, const(0)),
                ("loop", ("skip",), ("bin", "lt", U64, _v(3), _v(2)),
                 ("store", False, 1, ("bin", "add", U64, _v(0), _v(3)), ("cast", (32, True), (8, False), _v(1))),
                 ("assign", 3, ("bin", "add", U64, _v(3), const(1)))),
                ("ret", _v(0))])


def ppmul_body():
    # ppMul(c, a, n, b, m, stack) for n == m in {1, 2, 4}: what the table of function pointers of ppMulEq selects
    def call(f):
        return ("call", None, f, [_v(0), _v(1), _v(3), _v(5)], ("sec", "sec", "sec", "sec"))
    stuck = ("ext", )
    return ("ite", ("bin", "eq", U64, _v(2), const(2)), call("ppMul2"),
            ("ite", ("bin", "eq", U64, _v(2), const(4)), call("ppMul4"),
             ("ite", ("bin", "eq", U64, _v(2), const(1)), call("ppMul1"), ("call", None, "__unsupported_ppMul_length", [], ()))))


SYNTH = {
    "strlen": {"nparams": 1, "vnames": ["s", "n"], "pubv": [0, 1], "retPub": True, "pcls": ("pub",), "ret": (64, False),
               "pdesc": ["ptr:pub"], "body": strlen_body, "callees": [], "impure": False, "doc": "synthetic model of libc strlen on public memory"},
    "memcpy": {"nparams": 3, "vnames": ["d", "s", "n", "i"], "pubv": [0, 1, 2, 3], "retPub": True, "pcls": ("sec", "sec", "-"), "ret": (64, False),
               "pdesc": ["ptr:sec", "ptr:sec", "public"], "body": memcpy_body, "callees": [], "impure": True, "doc": "synthetic model of libc memcpy"},
    "memmove": {"nparams": 3, "vnames": ["d", "s", "n", "i"], "pubv": [0, 1, 2, 3], "retPub": True, "pcls": ("sec", "sec", "-"), "ret": (64, False),
                "pdesc": ["ptr:sec", "ptr:sec", "public"], "body": memmove_body, "callees": [], "impure": True, "doc": "synthetic model of libc memmove"},
    "memset": {"nparams": 3, "vnames": ["d", "c", "n", "i"], "pubv": [0, 2, 3], "retPub": True, "pcls": ("sec", "-", "-"), "ret": (64, False),
               "pdesc": ["ptr:sec", "SECRET", "public"], "body": memset_body, "callees": [], "impure": True, "doc": "synthetic model of libc memset"},
    "ppMul": {"nparams": 6, "vnames": ["c", "a", "n", "b", "m", "stack"], "pubv": [0, 1, 2, 3, 4, 5], "retPub": True,
              "pcls": ("sec", "sec", "-", "sec", "-", "sec"), "ret": (0, False), "pdesc": ["ptr:sec", "ptr:sec", "public", "ptr:sec", "public", "ptr:sec"],
              "body": ppmul_body, "callees": [("src/math/pp/pp_mul.c", "ppMul1"), ("src/math/pp/pp_mul.c", "ppMul2"), ("src/math/pp/pp_mul.c", "ppMul4")],
              "exts": ["__unsupported_ppMul_length"], "impure": True, "doc": "synthetic model of the length dispatch of ppMul/ppMulEq (n == m in {1, 2, 4})"},
}
EXEC_FILES = SEARCH_FILES + [f for f in PRIM_FILES if f not in SEARCH_FILES] + ["src/core/u32.c", "src/core/u64.c", "src/core/blob.c",
                                                                                "src/crypto/belt/belt_wbl.c"]
EXEC_ROOTS = [r for r in VERIFY] + PRIM_ROOTS


def build(extra=EXTRA, prim=False):
    if prim == "exec":
        # the program that the driver EXECUTES for the value tie: nothing opaque except the allocator,
        # libc replaced by the synthetic models above (not used for any theorem)
        W = World(extra, search=EXEC_FILES, nofollow=("blobCreate", "blobClose", "ppMul"))
        W.synth = True
        roots = []
        for src, name in EXEC_ROOTS:
            W.add(name, src)
            if name not in W.fn:
                raise Unhandled("%s not translated" % name)
            roots.append(name)
        return finish_build(W, roots, [])
    if prim:
        W = World(extra, search=PRIM_FILES, nofollow=PRIM_OPAQUE)
        roots = []
        for src, name in PRIM_ROOTS:
            W.add(name, src)
            if name not in W.fn:
                raise Unhandled("primitive %s not translated" % name)
            roots.append(name)
        return finish_build(W, roots, [])
    W = World(extra)
    roots = []
    safes = safe_routines()
    for src, name in safes:
        W.add(name, src)
        if name not in W.fn:
            raise Unhandled("SAFE routine %s not translated" % name)
        roots.append(name)
    for src, name in guarded_routines():
        W.add(name, src)
        if name not in roots:
            roots.append(name)
    for src, name in VERIFY:
        if not os.path.exists(os.path.join(REPO, src)):
            raise Unhandled("anchored file missing: " + src)
        W.add(name, src)
        roots.append(name)
    return finish_build(W, roots, safes)


# --------------------------------------------------------------------------- constant folding
# (same arithmetic as `unop` / `binop` / cast of IR.lean; constant sub-expressions come from macro
#  parameters such as the permutation index P5(x) of bash-f or O_PER_W = 64 / 8)

def _to_int(t, v):
    return v - (1 << t[0]) if (t[1] and v >= (1 << (t[0] - 1))) else v


def _of_int(t, i):
    return i % (1 << t[0])


def _tdiv(a, b):
    if b == 0:
        return 0
    q = abs(a) // abs(b)
    return q if (a >= 0) == (b >= 0) else -q


def _binop(op, t, a, b):
    M = 1 << t[0]
    if op == "add":
        return (a + b) % M
    if op == "sub":
        return _of_int(t, a - b)
    if op == "mul":
        return (a * b) % M
    if op == "band":
        return a & b
    if op == "bor":
        return a | b
    if op == "bxor":
        return a ^ b
    if op == "shl":
        return (a << b) % M if b < t[0] else 0
    if op == "shr":
        return _of_int(t, _to_int(t, a) >> b) if t[1] else a >> b
    if op in ("lt", "le", "gt", "ge"):
        x, y = _to_int(t, a), _to_int(t, b)
        return int({"lt": x < y, "le": x <= y, "gt": x > y, "ge": x >= y}[op])
    if op == "eq":
        return int(a == b)
    if op == "ne":
        return int(a != b)
    if op == "div":
        return _of_int(t, _tdiv(_to_int(t, a), _to_int(t, b))) if t[1] else (a // b if b else 0)
    if op == "rem":
        if t[1]:
            x, y = _to_int(t, a), _to_int(t, b)
            return _of_int(t, x - y * _tdiv(x, y)) if y else _of_int(t, x)
        return a % b if b else a
    raise Unhandled("fold " + op)


def fold_e(e):
    k = e[0]
    if k in ("var", "const"):
        return e
    if k == "un":
        a = fold_e(e[3])
        if a[0] == "const":
            t, v = e[2], a[1]
            if e[1] == "neg":
                return ("const", _of_int(t, -v))
            if e[1] == "bnot":
                return ("const", ((1 << t[0]) - 1 - v % (1 << t[0])) % (1 << t[0]))
            return ("const", int(v == 0))
        return ("un", e[1], e[2], a)
    if k == "bin":
        a, b = fold_e(e[3]), fold_e(e[4])
        if a[0] == "const" and b[0] == "const":
            return ("const", _binop(e[1], e[2], a[1], b[1]))
        return ("bin", e[1], e[2], a, b)
    if k == "cast":
        a = fold_e(e[3])
        if a[0] == "const":
            return ("const", _of_int(e[2], _to_int(e[1], a[1])))
        return ("cast", e[1], e[2], a)
    if k == "load":
        return ("load", e[1], e[2], fold_e(e[3]))
    if k in ("land", "lor"):
        a, b = fold_e(e[1]), fold_e(e[2])
        if a[0] == "const" and b[0] == "const":
            return ("const", int((a[1] != 0 and b[1] != 0) if k == "land" else (a[1] != 0 or b[1] != 0)))
        return (k, a, b)
    if k == "cond":
        c = fold_e(e[1])
        if c[0] == "const":          # `constant ? x : y`: the untaken arm is not even translated further
            return fold_e(e[2]) if c[1] != 0 else fold_e(e[3])
        return ("cond", c, fold_e(e[2]), fold_e(e[3]))
    raise Unhandled("fold " + k)


def fold_top(e):
    """fold only the top node (the operands are already folded)"""
    k = e[0]
    if k == "un" and e[3][0] == "const":
        return fold_e(e)
    if k == "bin" and e[3][0] == "const" and e[4][0] == "const":
        return fold_e(e)
    if k == "cast" and e[3][0] == "const":
        return fold_e(e)
    if k in ("land", "lor") and e[1][0] == "const" and e[2][0] == "const":
        return fold_e(e)
    if k == "cond" and e[1][0] == "const":
        return e[2] if e[1][1] != 0 else e[3]
    if k == "bin" and e[1] == "add" and e[4] == ("const", 0):
        return e[3]
    return e


def fold_s(s):
    k = s[0]
    if k == "assign":
        return ("assign", s[1], fold_e(s[2]))
    if k == "store":
        return ("store", s[1], s[2], fold_e(s[3]), fold_e(s[4]))
    if k == "seq":
        return ("seq", fold_s(s[1]), fold_s(s[2]))
    if k == "ite":
        return ("ite", fold_e(s[1]), fold_s(s[2]), fold_s(s[3]))
    if k == "loop":
        return ("loop", fold_s(s[1]), fold_e(s[2]), fold_s(s[3]), fold_s(s[4]))
    if k == "ret":
        return ("ret", fold_e(s[1]))
    if k == "call":
        return ("call", s[1], s[2], [fold_e(a) for a in s[3]], s[4])
    return s


def finish_build(W, roots, safes):
    # check memory classes of pointer arguments against the callee's parameters
    W.sig = {}
    funs = []
    for name in W.order:
        tr = W.fn[name]
        if tr == "synthetic":
            sy = SYNTH[name]
            W.sig[name] = {"retPub": sy["retPub"], "pcls": sy["pcls"], "nparams": sy["nparams"]}
            funs.append({"name": name, "nparams": sy["nparams"], "pubv": sy["pubv"], "retPub": sy["retPub"], "body": sy["body"](),
                         "vnames": sy["vnames"], "ret": sy["ret"], "params": [(v, c) for v, c in zip(sy["vnames"], sy["pdesc"])], "cuts": 0,
                         "src": sy["doc"]})
            continue
        # class check at call sites
        def chk(s):
            if s[0] == "call":
                cal = W.sig.get(s[2])
                if cal is not None:
                    if len(s[3]) != cal["nparams"]:
                        raise Unhandled("%s: call of %s with %d arguments" % (name, s[2], len(s[3])))
                    for j, (c, want) in enumerate(zip(s[4], cal["pcls"])):
                        if want in ("sec", "pub") and c not in (want, None):
                            raise Unhandled("%s: argument %d of %s is %s memory, callee expects %s" % (name, j, s[2], c, want))
            for x in s[1:]:
                if isinstance(x, tuple) and x and isinstance(x[0], str) and x[0] in ("seq", "ite", "loop", "call"):
                    chk(x)
        chk(tr.body)
        tr.body = fold_s(tr.body)
        pubv, retpub = infer(W, tr)
        ncuts = 0
        if name in VERDICT_FUNS and not getattr(W, 'synth', False):
            rw, cuts, relvars = verdict_cut(tr)
            tr.body = rw(tr.body, pubv)
            ncuts = len(cuts)
            pubv, retpub = infer(W, tr)
        pc = tuple(tr.ptrcls.get(i, "-") for i in tr.params)
        W.sig[name] = {"retPub": retpub, "pcls": pc, "nparams": len(tr.params)}
        rt = tr.rettype
        funs.append({"name": name, "nparams": len(tr.params), "pubv": sorted(pubv), "retPub": retpub, "body": tr.body,
                     "vnames": tr.vname, "ret": (rt[1], rt[2]) if rt[0] == "int" else ((64, False) if rt[0] == "ptr" else (0, False)),
                     "params": [(tr.vname[i], ("ptr:" + tr.ptrcls[i]) if i in tr.ptrcls else ("public" if i in pubv else "SECRET")) for i in tr.params],
                     "cuts": ncuts, "src": tr.tu.src})
    return W, funs, roots, safes


def generate(extra=EXTRA, module="C14IR", prim=False):
    W, funs, roots, safes = build(extra, prim)
    opaque = [e for e in W.exts if not e.startswith("__")] if prim == "exec" else (PRIM_OPAQUE if prim else OPAQUE)
    idx = {"fun": {f["name"]: i for i, f in enumerate(funs)}, "ext": {n: i for i, n in enumerate(W.exts)}}
    out = []
    out.append("/- GENERATED by xlate/x_c14_ir.py from the C sources of /repo — do not edit.")
    out.append("   IR of every SAFE(f) routine, of the verification paths and of the helpers they call. -/")
    out.append("import Bee2V.C14.IR")
    out.append("namespace Bee2V.Gen.%s" % module)
    out.append("open Bee2V.C14.IR")
    out.append("")
    for i, f in enumerate(funs):
        out.append("/-- `%s` (%s)  params: %s%s\n    vars: %s -/" % (
            f["name"], f.get("src", "synthetic model of libc strlen on public memory"),
            ", ".join("%s:%s" % p for p in f["params"]),
            ("  [verdict cut x%d]" % f["cuts"]) if f["cuts"] else "",
            " ".join("%d=%s" % (j, n) for j, n in enumerate(f["vnames"]))))
        pieces, text = emit_fun(f, idx)
        out += pieces
        out.append(text)
        out.append("")
    out.append("def extNames : List String := [%s]" % ", ".join('"%s"' % n for n in W.exts))
    out.append("def prog : Prog := { funs := [%s], allowExt := [%s] }" % (
        ", ".join("f_" + f["name"] for f in funs), ", ".join(str(idx["ext"][n]) for n in W.exts if n in opaque)))
    out.append("def names : List (String × Nat × Bool) := [%s]" % ", ".join(
        '("%s", %d, %s)' % (f["name"], f["ret"][0], "true" if f["ret"][1] else "false") for f in funs))
    out.append("def roots : List String := [%s]" % ", ".join('"%s"' % r for r in roots))
    out.append("def safeRoutines : List String := [%s]" % ", ".join('"%s"' % n for _, n in safes))
    out.append("/-- initial contents of the constant global tables (public memory) -/")
    out.append("def globals : List (Nat × List Nat) := [%s]" % ", ".join(
        "(%d, [%s])" % (a, ", ".join(map(str, v))) for a, v, _ in W.globals_init))
    out.append("end Bee2V.Gen.%s" % module)
    return "\n".join(out) + "\n", W, funs, roots, safes


def generate_obl(funs, module="C14IR", ns="Obl", strict=True):
    """per-routine obligations `ctFun prog true f_<name> = true` (kernel evaluation of the checker)"""
    out = ["/- GENERATED by xlate/x_c14_ir.py — per-routine obligations of property C14: the body of each",
           "   routine extracted from the current C source is accepted by the verified checker. -/",
           "import Bee2V.C14.IR", "import Bee2V.Gen.%s" % module, "namespace Bee2V.C14.%s" % ns,
           "open Bee2V.C14.IR Bee2V.Gen.%s" % module, ""]
    for f in funs:
        out.append("theorem ct_%s : ctFun prog %s f_%s = true := by decide" % (f["name"], "true" if strict else "false", f["name"]))
    out.append("/-- the whole program (callees are checked against the labels of their definitions) -/")
    out.append("theorem ct_prog : ctProg prog %s = true := by decide" % ("true" if strict else "false"))
    out.append("end Bee2V.C14.%s" % ns)
    return "\n".join(out) + "\n"


def diagnose(funs, W, strict=True, opaque=None):
    """Python mirror of the Lean checker, only to NAME what is rejected (the verdict is Lean's)."""
    opaque = OPAQUE if opaque is None else opaque
    sig = {f["name"]: f for f in funs}
    msgs = []
    for f in funs:
        pubv = set(f["pubv"])
        def ce(e, where):
            k = e[0]
            if k in ("land", "lor", "cond"):
                if lab(e[1], pubv):
                    msgs.append("%s: `%s` on a secret value (%s)" % (f["name"], {"land": "&&", "lor": "||", "cond": "?:"}[k], where))
            if k == "load" and strict and lab(e[3], pubv):
                msgs.append("%s: load at a secret address (%s)" % (f["name"], where))
            for x in e[1:]:
                if isinstance(x, tuple) and x and isinstance(x[0], str) and x[0] in ("un", "bin", "cast", "load", "land", "lor", "cond"):
                    ce(x, where)
        def cs(s):
            k = s[0]
            if k == "assign":
                ce(s[2], "assignment")
            elif k == "store":
                ce(s[3], "store"); ce(s[4], "store")
                if lab(s[3], pubv) and (strict or s[1]):
                    msgs.append("%s: store at a secret address" % f["name"])
            elif k == "seq":
                cs(s[1]); cs(s[2])
            elif k == "ite":
                ce(s[1], "if")
                if lab(s[1], pubv):
                    msgs.append("%s: `if` on a secret value" % f["name"])
                cs(s[2]); cs(s[3])
            elif k == "loop":
                cs(s[1]); ce(s[2], "loop test")
                if lab(s[2], pubv):
                    msgs.append("%s: loop exit test on a secret value" % f["name"])
                cs(s[3]); cs(s[4])
            elif k == "ret":
                ce(s[1], "return")
            elif k == "call":
                for a in s[3]:
                    ce(a, "argument")
                cal = sig.get(s[2])
                if cal is None:
                    if s[2] not in opaque:
                        msgs.append("%s: call of external routine `%s` (not a regular routine of the checked set)" % (f["name"], s[2]))
                else:
                    cp = set(cal["pubv"])
                    for j, a in enumerate(s[3]):
                        if j in cp and lab(a, pubv):
                            msgs.append("%s: secret value passed as the public parameter %d of %s" % (f["name"], j, s[2]))
        cs(f["body"])
    return sorted(set(msgs))


if __name__ == "__main__":
    text, W, funs, roots, safes = generate()
    if len(sys.argv) > 1:
        open(sys.argv[1], "w").write(text)
    print("functions:", len(funs), "roots:", len(roots), "safe:", len(safes), "ext:", W.exts)
    for f in funs:
        print("  %-24s pub=%s retPub=%s %s" % (f["name"], [f["vnames"][i] for i in f["pubv"]], f["retPub"], f["params"]))

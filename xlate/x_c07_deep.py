#!/usr/bin/env python3
"""Translator: every `*_deep` / `*_keep` function of /repo/src (and the pure helper
functions they call, e.g. ecNAFWidth) -> Lean definitions over Nat.

C subset understood (anything else: Unhandled, fail-closed, function listed as unhandled):
  size_t arithmetic + - * / % << >>, comparisons, ?:, && || !,
  utilMax/utilMin(k, ...) with literal k = number of arguments -> nested max/min,
  macros are already expanded by clang (O_OF_W(n) is n * 8 or n * 4 ...),
  sizeof(T) -> literal computed by clang in the context of the defining file,
  local variables (let, with shadowing for re-assignment, += -= *=),
  if/else, early return,
  `for (i = A; i < B; ++i) body`  -> List.foldl over List.range' A (B - A)
  variadic functions reading all their varargs as size_t in one such loop (ecAddMulA_deep)
      -> extra `List Nat` parameter, fold over `va.take (B - A)`,
  function-pointer parameters (bignStart_keep's `deep`) -> `Option (Nat -> ... -> Nat)`,
  calls to other translated functions.
"""
import sys, os
sys.path.insert(0, os.path.dirname(__file__))
from x_c07_common import *


def is_sizefn(name):
    return name.endswith("_deep") or name.endswith("_keep")


class PureFn:
    """translation of one pure size function"""

    def __init__(self, tree, fn):
        self.tree, self.fn = tree, fn
        self.fp_params = {}
        self.params = []
        for (nm, qt, dq) in fn.params:
            if "(*)" in dq or "(*)" in qt or nm in ("deep",) and "_i" in qt:
                self.fp_params[nm] = None
            self.params.append(nm)
        # function-pointer typedefs (bign_deep_i) are not visible in the spelling: detect by use
        self.blocklocal = set()
        self.locals = set(self.params)      # parameters may be re-assigned (m = B_OF_W(m))
        self.tr = ExprTr(tree, fn.file, self.resolve)
        self.va = False
        self.calls = set()
        self.stmts = None

    def resolve(self, n):
        if n["kind"] == "DeclRefExpr":
            rd = n["referencedDecl"]
            if rd["kind"] == "ParmVarDecl" or (rd["kind"] == "VarDecl" and rd["name"] in self.locals):
                return ("var", rd["name"])
            if rd["kind"] == "FunctionDecl":
                f = self.tree.lookup(rd["name"], self.fn.file)
                if f is None:
                    raise Unhandled("reference to function %s without definition" % rd["name"])
                return ("call", "some " + f.key, [])   # rendered `(some f)` : function reference
            if rd["kind"] == "EnumConstantDecl":
                raise Unhandled("enum constant " + rd["name"])
        return None

    # statements -> structured list
    def block(self, n):
        if n["kind"] == "CompoundStmt":
            out = []
            for c in n.get("inner", []):
                out += self.block(c)
            return out
        return self.stmt(n)

    def stmt(self, n):
        k = n["kind"]
        if k == "NullStmt":
            return []
        if k in ("ParenExpr", "CStyleCastExpr"):
            s = strip(n)
            if s["kind"] == "IntegerLiteral":
                return []          # ((void)0) of ASSERT under NDEBUG
            return self.stmt(s)
        if k == "DeclStmt":
            out = []
            for v in n["inner"]:
                if v["kind"] != "VarDecl":
                    raise Unhandled("declaration " + v["kind"])
                self.locals.add(v["name"])
                if "va_list" in v["type"]["qualType"]:
                    continue
                init = [c for c in v.get("inner", []) if c["kind"] not in ("FullComment",)]
                if init:
                    if strip(init[0])["kind"] == "VAArgExpr":
                        out.append(("vaarg", v["name"]))
                        self.blocklocal.add(v["name"])
                    else:
                        out.append(("let", v["name"], self.tr.expr(init[0]), "decl"))
            return out
        if k == "BinaryOperator" and n["opcode"] == "=":
            l = strip(n["inner"][0])
            if l["kind"] != "DeclRefExpr" or l["referencedDecl"]["name"] not in self.locals:
                raise Unhandled("assignment to non-local")
            if strip(n["inner"][1])["kind"] == "VAArgExpr":
                return [("vaarg", l["referencedDecl"]["name"])]
            return [("let", l["referencedDecl"]["name"], self.tr.expr(n["inner"][1]))]
        if k == "BinaryOperator" and n["opcode"] == ",":
            return self.stmt(n["inner"][0]) + self.stmt(n["inner"][1])
        if k == "CompoundAssignOperator":
            l = strip(n["inner"][0])
            if l["kind"] != "DeclRefExpr" or l["referencedDecl"]["name"] not in self.locals:
                raise Unhandled("compound assignment to non-local")
            op = n["opcode"][:-1]
            if op not in ("+", "-", "*"):
                raise Unhandled("operator " + n["opcode"])
            v = l["referencedDecl"]["name"]
            return [("let", v, ("bin", op, ("var", v), self.tr.expr(n["inner"][1])))]
        if k == "UnaryOperator" and n["opcode"] in ("++", "--"):
            l = strip(n["inner"][0])
            if l["kind"] != "DeclRefExpr" or l["referencedDecl"]["name"] not in self.locals:
                raise Unhandled("increment of non-local")
            v = l["referencedDecl"]["name"]
            return [("let", v, ("bin", "+" if n["opcode"] == "++" else "-", ("var", v), lit(1)))]
        if k == "ReturnStmt":
            return [("ret", self.tr.expr(n["inner"][0]))]
        if k == "IfStmt":
            inner = n["inner"]
            c = self.tr.cond(inner[0])
            a = self.block(inner[1])
            b = self.block(inner[2]) if len(inner) > 2 else []
            return [("if", c, a, b)]
        if k == "ForStmt":
            init, _, cond, inc, body = n["inner"]
            # init: i = A
            i0 = strip(init)
            if not (i0["kind"] == "BinaryOperator" and i0["opcode"] == "="):
                raise Unhandled("for-init")
            iv = strip(i0["inner"][0])["referencedDecl"]["name"]
            a = self.tr.expr(i0["inner"][1])
            c = strip(cond)
            if not (c["kind"] == "BinaryOperator" and c["opcode"] == "<" and strip(c["inner"][0]).get("referencedDecl", {}).get("name") == iv):
                raise Unhandled("for-condition")
            b = self.tr.expr(c["inner"][1])
            ic = strip(inc)
            if not (ic["kind"] == "UnaryOperator" and ic["opcode"] == "++" and strip(ic["inner"][0]).get("referencedDecl", {}).get("name") == iv):
                raise Unhandled("for-increment")
            bd = self.block(body)
            return [("for", iv, a, b, bd)]
        if k == "SwitchStmt":
            # switch (e) { case L: <stmts ending in return> ... default: <stmts ending in return> }
            e = self.tr.expr(n["inner"][0])
            body = n["inner"][1]
            if body["kind"] != "CompoundStmt":
                raise Unhandled("switch body")
            arms, cur = [], None
            for c in body.get("inner", []):
                while c["kind"] in ("CaseStmt", "DefaultStmt"):
                    if cur is not None and not self.has_ret(cur[1]):
                        raise Unhandled("switch fall-through")
                    if c["kind"] == "CaseStmt":
                        lab = fold(self.tr.expr(c["inner"][0]))
                        if lab[0] != "lit":
                            raise Unhandled("case label")
                        cur = (lab, [])
                        c = c["inner"][-1]
                    else:
                        cur = (None, [])
                        c = c["inner"][-1]
                    arms.append(cur)
                if cur is None:
                    raise Unhandled("statement before first case")
                cur[1].extend(self.block(c))
            if not arms or arms[-1][0] is not None or any(not self.has_ret(a[1]) for a in arms):
                raise Unhandled("switch without returning default as last arm")
            out = arms[-1][1]
            for lab, st in reversed(arms[:-1]):
                out = [("if", ("cmp", "==", e, lab), st, out)]
            return out
        if k == "CallExpr":
            callee = strip(n["inner"][0])
            nm = callee.get("referencedDecl", {}).get("name", "")
            if nm in ("__builtin_va_start", "__builtin_va_end"):
                self.va = True
                return []
            raise Unhandled("call statement " + nm)
        raise Unhandled("statement " + k)

    def translate(self):
        self.stmts = self.block(self.fn.body)
        # collect sizeofs; the caller resolves them, then render()
        return self.tr.sizeofs

    # ---- rendering
    def assigned(self, stmts, acc=None):
        acc = [] if acc is None else acc
        for s in stmts:
            if s[0] in ("let", "vaarg") and s[1] not in acc:
                acc.append(s[1])
            elif s[0] == "if":
                self.assigned(s[2], acc); self.assigned(s[3], acc)
            elif s[0] == "for":
                self.assigned(s[4], acc)
        return acc

    def has_ret(self, stmts):
        for s in stmts:
            if s[0] == "ret": return True
            if s[0] == "if" and (self.has_ret(s[2]) or self.has_ret(s[3])): return True
            if s[0] == "for" and self.has_ret(s[4]): return True
        return False

    def E(self, e):
        e = self.tr.finish(e)
        self.calls |= calls_of(e)
        return self.lean(e)

    def lean(self, e):
        # function-pointer parameters
        if e[0] == "ite" and e[1][0] == "nz" and e[1][1][0] == "var" and e[1][1][1] in self.fp_params:
            v = lname(e[1][1][1])
            return "(match %s with | some %s => %s | none => %s)" % (v, v, self.lean(e[2]), self.lean(e[3]))
        if e[0] == "call" and e[1].startswith("some "):
            return "(some %s)" % lean_fn(e[1][5:])
        k = e[0]
        if k == "bin":
            return "(%s %s %s)" % (self.lean(e[2]), {"+": "+", "-": "-", "*": "*", "/": "/", "%": "%", "<<": "<<<", ">>": ">>>"}[e[1]], self.lean(e[3]))
        if k in ("max", "min"):
            xs = e[1]
            s = self.lean(xs[-1])
            for x in reversed(xs[:-1]):
                s = "(%s %s %s)" % (k, self.lean(x), s)
            return s
        if k == "call" and e[2]:
            return "(%s %s)" % (lean_fn(e[1]), " ".join(self.arg(e[1], i, x) for i, x in enumerate(e[2])))
        if k == "vcall":
            return "(%s %s [%s])" % (lean_fn(e[1]), " ".join(self.lean(x) for x in e[2]), ", ".join(self.lean(x) for x in e[3]))
        if k == "ite":
            return "(if %s then %s else %s)" % (self.cond(e[1]), self.lean(e[2]), self.lean(e[3]))
        if k == "fpcall":
            return "(%s %s)" % (lname(e[1]), " ".join(self.lean(x) for x in e[2]))
        if k in ("cmp", "and", "or", "not", "nz"):
            return "(if %s then 1 else 0)" % self.cond(e)
        return to_lean(e)

    def arg(self, callee, i, x):
        # a literal 0 passed for a function-pointer parameter is `none`
        f = self.tree.funcs.get(callee)
        if f is not None and i < len(f.params) and f.params[i][0] in FP_PARAMS.get(callee, ()):
            if x == ("lit", 0):
                return "none"
        return self.lean(x)

    def cond(self, e):
        k = e[0]
        if k == "cmp":
            op = {"==": "=", "!=": "≠", "<": "<", "<=": "≤", ">": ">", ">=": "≥"}[e[1]]
            return "(%s %s %s)" % (self.lean(e[2]), op, self.lean(e[3]))
        if k == "and": return "(%s ∧ %s)" % (self.cond(e[1]), self.cond(e[2]))
        if k == "or": return "(%s ∨ %s)" % (self.cond(e[1]), self.cond(e[2]))
        if k == "not": return "(¬ %s)" % self.cond(e[1])
        if k == "nz": return "(%s ≠ 0)" % self.lean(e[1])
        return "(%s ≠ 0)" % self.lean(e)

    def render_stmts(self, stmts, ind, tail):
        """Lean term for `stmts` followed by `tail` (a Lean term string or None = must return)."""
        pad = "  " * ind
        if not stmts:
            if tail is None:
                raise Unhandled("control reaches the end without return")
            return pad + tail
        s, rest = stmts[0], stmts[1:]
        if s[0] == "ret":
            return pad + self.E(s[1])
        if s[0] == "let":
            return pad + "let %s := %s\n" % (lname(s[1]), self.E(s[2])) + self.render_stmts(rest, ind, tail)
        if s[0] == "if":
            if self.has_ret(s[2]) or self.has_ret(s[3]):
                # early return: continue with `rest` in both arms
                return (pad + "if %s%s then\n" % ("h%d : " % ind if self.recursive else "", self.condE(s[1])) + self.render_stmts(s[2] + rest, ind + 1, tail) + "\n" +
                        pad + "else\n" + self.render_stmts(s[3] + rest, ind + 1, tail))
            vs = [v for v in self.assigned(s[2]) if not self.declared_in(s[2], v)]
            vs += [v for v in self.assigned(s[3]) if v not in vs and not self.declared_in(s[3], v)]
            if not vs:
                return self.render_stmts(rest, ind, tail)
            tup = self.tuple(vs)
            return (pad + "let %s := (if %s then\n" % (self.pat(vs), self.condE(s[1])) + self.render_stmts(s[2], ind + 1, tup) + "\n" + pad + "else\n" +
                    self.render_stmts(s[3], ind + 1, tup) + ")\n" + self.render_stmts(rest, ind, tail))
        if s[0] == "for":
            _, iv, a, b, body = s
            if self.has_ret(body):
                raise Unhandled("return inside loop")
            vs = [v for v in self.assigned(body) if v not in [x[1] for x in body if x[0] == "vaarg"] and not self.declared_in(body, v)]
            vaargs = [x[1] for x in body if x[0] == "vaarg"]
            if len(vaargs) > 1:
                raise Unhandled("more than one va_arg per iteration")
            if not vs:
                return self.render_stmts(rest, ind, tail)
            tup = self.tuple(vs)
            cnt = "(%s - %s)" % (self.E(b), self.E(a))
            if vaargs:
                self.va_used = True
                if iv in self.uses(body):
                    raise Unhandled("loop index used next to va_arg")
                body2 = [x for x in body if x[0] != "vaarg"]
                lst = "(va.take %s)" % cnt
                var = lname(vaargs[0])
            else:
                body2 = body
                lst = "(List.range' %s %s)" % (self.E(a), cnt)
                var = lname(iv)
            return (pad + "let %s := %s.foldl (fun %s %s =>\n" % (self.pat(vs), lst, self.pat(vs), var) + self.render_stmts(body2, ind + 1, tup) + ") " + tup + "\n" +
                    self.render_stmts(rest, ind, tail))
        raise Unhandled("render " + s[0])

    def declared_in(self, body, v):
        """v is declared (with initialiser) at the top level of this block: block-local"""
        return any(s[0] == "let" and s[1] == v and len(s) > 3 for s in body)

    def uses(self, stmts):
        acc = set()
        for s in stmts:
            if s[0] in ("let", "ret"):
                free_vars(s[2] if s[0] == "let" else s[1], acc)
            elif s[0] == "if":
                free_vars(s[1], acc); acc |= self.uses(s[2]) | self.uses(s[3])
            elif s[0] == "for":
                free_vars(s[2], acc); free_vars(s[3], acc); acc |= self.uses(s[4])
        return acc

    def condE(self, c):
        c = self.tr.finish(c)
        self.calls |= calls_of(c)
        return self.cond(c)

    def tuple(self, vs):
        return lname(vs[0]) if len(vs) == 1 else "(" + ", ".join(lname(v) for v in vs) + ")"

    pat = tuple

    recursive = False

    def render(self):
        self.va_used = False
        self.recursive = self.fn.key in RECURSION_MEASURES
        # detect function-pointer parameters by use
        for s in self.walk_exprs(self.stmts):
            self.find_fp(s)
        body = self.render_stmts(self.init_locals() + self.stmts, 1, None)
        ps = []
        for p in self.params:
            if p in self.fp_params:
                ps.append("(%s : Option (%s))" % (lname(p), " → ".join(["Nat"] * (self.fp_params[p] + 1))))
            else:
                ps.append("(%s : Nat)" % lname(p))
        if self.fn.variadic:
            ps.append("(va : List Nat)")
        tail = ""
        if self.recursive:
            tail = "termination_by %s\ndecreasing_by all_goals (simp_wf; omega)\n" % RECURSION_MEASURES[self.fn.key]
        return "def %s %s: Nat :=\n%s\n%s" % (lean_fn(self.fn.key), "".join(p + " " for p in ps), body, tail)

    def init_locals(self):
        # C locals that are read before assignment do not occur in pure size functions;
        # a declaration without initialiser gives no binding, a use of it fails in Lean.
        return []

    def walk_exprs(self, stmts):
        for s in stmts:
            if s[0] in ("let", "ret"):
                yield (s[2] if s[0] == "let" else s[1])
            elif s[0] == "if":
                yield s[1]
                yield from self.walk_exprs(s[2]); yield from self.walk_exprs(s[3])
            elif s[0] == "for":
                yield s[2]; yield s[3]
                yield from self.walk_exprs(s[4])

    def find_fp(self, e):
        if not isinstance(e, tuple):
            return
        if e[0] == "fpcall":
            self.fp_params[e[1]] = len(e[2])
        for x in e[1:]:
            if isinstance(x, tuple):
                self.find_fp(x)
            elif isinstance(x, list):
                for y in x:
                    self.find_fp(y)


FP_PARAMS = {}
# directly recursive size functions: termination measure (checked by Lean, not trusted);
# any other recursion is Unhandled
RECURSION_MEASURES = {"ppMul_deep": "(n + m, n - m)"}


def translate_all(tree):
    """-> (ordered list of (key, Func, lean_text, params, variadic)), unhandled {key: reason})"""
    todo = [k for k, f in tree.funcs.items() if is_sizefn(f.name)]
    trs, unhandled = {}, {}
    seen = set()
    sizeofs = set()
    while todo:
        k = todo.pop()
        if k in seen:
            continue
        seen.add(k)
        fn = tree.funcs[k]
        p = PureFn(tree, fn)
        try:
            sizeofs |= p.translate()
            for e in p.walk_exprs(p.stmts):
                for c in calls_of(e):
                    if c not in seen:
                        todo.append(c)
                p.find_fp(e)
            if p.fp_params:
                FP_PARAMS[k] = set(p.fp_params)
            trs[k] = p
        except Unhandled as e:
            unhandled[k] = str(e)
        except (KeyError, IndexError, ValueError) as e:
            unhandled[k] = "AST shape: %s %s" % (type(e).__name__, e)
    tree.resolve_sizeofs(sizeofs)
    texts = {}
    for k, p in list(trs.items()):
        try:
            texts[k] = p.render()
        except Unhandled as e:
            unhandled[k] = str(e)
            del trs[k]
    # drop functions that call an unhandled function (transitively); order topologically
    changed = True
    while changed:
        changed = False
        for k, p in list(trs.items()):
            bad = [c for c in p.calls if c not in trs]
            if bad:
                unhandled[k] = "calls unhandled %s" % ",".join(sorted(bad))
                del trs[k]; del texts[k]
                changed = True
    order, mark = [], {}

    def visit(k, stack=()):
        if mark.get(k) == 2:
            return
        if mark.get(k) == 1:
            raise Unhandled("recursion through " + k)
        mark[k] = 1
        for c in sorted(trs[k].calls):
            if c == k and k in RECURSION_MEASURES:
                continue
            visit(c)
        mark[k] = 2
        order.append(k)
    for k in sorted(trs):
        visit(k)
    return [(k, trs[k], texts[k]) for k in order], unhandled


def gen_lean(tree, ns):
    items, unhandled = translate_all(tree)
    out = ["/- GENERATED by xlate/x_c07_deep.py from /repo/src (word configuration %s) — do not edit.\n"
           "   Every *_deep / *_keep function and the pure helpers they call, as functions over Nat. -/" % tree.wcfg,
           "namespace Bee2V.Gen.C07.%s\n" % ns, "set_option linter.unusedVariables false\n"]
    for k, p, t in items:
        out.append("/-- %s : %s -/" % (p.fn.file, p.fn.name))
        out.append(t)
    # evaluation table for the driver: functions whose parameters are all Nat (+ optional varargs)
    out.append("/-- value of a size function by name (driver; correspondence with the compiled functions) -/")
    out.append("def eval (f : String) (a : List Nat) : Option Nat :=\n  match f, a with")
    table = []
    for k, p, t in items:
        if p.fp_params:
            continue
        n = len(p.params)
        vs = ["x%d" % i for i in range(n)]
        if p.fn.variadic:
            pat = "[" + ", ".join(vs) + "]" if False else (" :: ".join(vs + ["va"]))
            call = "%s %s va" % (lean_fn(k), " ".join(vs))
        else:
            pat = "[" + ", ".join(vs) + "]"
            call = ("%s %s" % (lean_fn(k), " ".join(vs))).strip()
        out.append("  | \"%s\", %s => some (%s)" % (k, pat, call))
        table.append(k)
    out.append("  | _, _ => none\n")
    out.append("end Bee2V.Gen.C07.%s\n" % ns)
    return "\n".join(out), items, unhandled


if __name__ == "__main__":
    w = sys.argv[1] if len(sys.argv) > 1 else "W64"
    tree = Tree(w)
    text, items, unh = gen_lean(tree, w)
    sys.stdout.write(text)
    sys.stderr.write("handled %d, unhandled %d\n" % (len(items), len(unh)))
    for k, v in sorted(unh.items()):
        sys.stderr.write("unhandled:%s:%s\n" % (k, v))
    for e in tree.errors:
        sys.stderr.write("tu-error:%s\n" % e)


def gen_c(tree, items):
    """C files that call the REAL size functions by name (value correspondence with the Lean
    translation).  Files with static size functions are #included (one generated TU each);
    the other functions are reached through explicit prototypes.  -> {filename: text}"""
    by_file = {}
    for k, p, t in items:
        if p.fp_params:
            continue
        by_file.setdefault(p.fn.file, []).append((k, p))
    out, regs = {}, []
    ext = []
    for f, lst in sorted(by_file.items()):
        if any(p.fn.static for _, p in lst):
            stem = "c07v_" + re.sub(r"\W", "_", f[4:-2])
            body = ['#include "%s"' % f[4:], "#include <string.h>",
                    "int %s(const char* f, const size_t* a, int n, size_t* r)\n{" % stem]
            for k, p in lst:
                body.append(_c_case(k, p))
            body.append("\treturn 0;\n}\n")
            out[stem + ".c"] = "\n".join(body)
            regs.append(stem)
        else:
            ext += lst
    body = ["#include <stddef.h>", "#include <string.h>"]
    for k, p in ext:
        body.append("extern size_t %s(%s);" % (p.fn.name, ", ".join(["size_t"] * len(p.params) + (["..."] if p.fn.variadic else [])) or "void"))
    for r in regs:
        body.append("int %s(const char* f, const size_t* a, int n, size_t* r);" % r)
    body.append("int c07v_eval(const char* f, const size_t* a, int n, size_t* r)\n{")
    for k, p in ext:
        body.append(_c_case(k, p))
    for r in regs:
        body.append("\tif (%s(f, a, n, r)) return 1;" % r)
    body.append("\treturn 0;\n}\n")
    out["c07v_main.c"] = "\n".join(body)
    return out


def _c_case(k, p):
    n = len(p.params)
    args = ["a[%d]" % i for i in range(n)]
    if p.fn.variadic:
        # all varargs are size_t; the count parameter is the last fixed one (checked by the sweep generator)
        cases = []
        for extra in range(0, 5):
            cases.append("if (n == %d) { *r = %s(%s); return 1; }" % (n + extra, p.fn.name, ", ".join(args + ["a[%d]" % (n + j) for j in range(extra)])))
        return "\tif (strcmp(f, \"%s\") == 0) { %s }" % (k, " ".join(cases))
    return "\tif (strcmp(f, \"%s\") == 0 && n == %d) { *r = %s(%s); return 1; }" % (k, n, p.fn.name, ", ".join(args))

#!/usr/bin/env python3
"""Translator: src/crypto/btok/btok_pwd.c:btokPwdTransition  ->  Lean `Bee2V.Gen.Pwd`.

Understands exactly the C subset the function is written in:
  switch (event) { case K: <stmts> ... } return FALSE;
  stmts :=  if (cond) return TRUE|FALSE;      (guard)
         |  if (cond) <simple>;               (conditional effect, no else)
         |  state->f = CONST;  |  --state->f;  (simple)
         |  return TRUE|FALSE;
  cond  :=  state->f (==|!=|<=|<|>=|>) CONST | CONST op state->f | cond && cond | cond || cond | (cond)
Statement order is preserved (a guard moved below an assignment changes the
model).  Anything else raises Unhandled (fail-closed).
The two bit-fields are modelled as naturals modulo 2^width (width read from the
struct declaration), so `--state->pin` at 0 wraps as the compiled code does.
"""
import sys, os
sys.path.insert(0, os.path.dirname(__file__))
from clangast import *

SRC = "src/crypto/btok/btok_pwd.c"
EXTRA = ("-DNDEBUG",)  # ASSERT() is empty, as in the release library


def bitfield_widths():
    w = {}
    for n in walk(tu_ast(SRC, EXTRA)):
        if n.get("kind") == "RecordDecl":
            fs = [c for c in n.get("inner", []) if c["kind"] == "FieldDecl"]
            if [f["name"] for f in fs] == ["pin", "auth"]:
                for f in fs:
                    if not f.get("isBitfield"):
                        raise Unhandled("field %s is not a bit-field" % f["name"])
                    lit = strip(f["inner"][0])
                    w[f["name"]] = int(lit["value"])
    if set(w) != {"pin", "auth"}:
        raise Unhandled("btok_pwd_state layout not recognised")
    return w


class Tr:
    def __init__(self):
        self.pin = enum_with(SRC, "puk0", EXTRA)
        self.auth = enum_with(SRC, "auth_none", EXTRA)
        self.ev = enum_with(SRC, "pin_ok", EXTRA)
        self.consts = dict(self.pin + self.auth + self.ev)
        self.w = bitfield_widths()

    def expr(self, n):
        n = strip(n)
        k = n["kind"]
        if k == "MemberExpr":
            base = strip(n["inner"][0])
            if base["kind"] == "DeclRefExpr" and base["referencedDecl"]["name"] == "state" and n["name"] in ("pin", "auth"):
                return "s.%s" % n["name"]
            raise Unhandled("member " + n.get("name", "?"))
        if k == "DeclRefExpr":
            nm = n["referencedDecl"]["name"]
            if nm in self.consts:
                return "c_" + nm
            raise Unhandled("reference to " + nm)
        if k == "IntegerLiteral":
            return n["value"]
        raise Unhandled("expr " + k)

    def cond(self, n):
        n = strip(n)
        if n["kind"] == "BinaryOperator":
            op = n["opcode"]
            a, b = n["inner"]
            if op == "&&":
                return "(%s && %s)" % (self.cond(a), self.cond(b))
            if op == "||":
                return "(%s || %s)" % (self.cond(a), self.cond(b))
            if op in ("==", "!="):
                return "(%s %s %s)" % (self.expr(a), op, self.expr(b))
            if op in ("<=", "<", ">=", ">"):
                return "(decide (%s %s %s))" % (self.expr(a), {"<=": "≤", "<": "<", ">=": "≥", ">": ">"}[op], self.expr(b))
        if n["kind"] == "UnaryOperator" and n["opcode"] == "!":
            return "(!%s)" % self.cond(n["inner"][0])
        raise Unhandled("condition " + n["kind"] + " " + n.get("opcode", ""))

    def field_of(self, n):
        n = strip(n)
        if n["kind"] == "MemberExpr":
            e = self.expr(n)
            return e.split(".")[1]
        raise Unhandled("lvalue " + n["kind"])

    def simple(self, n):
        """state update as a Lean term for the new `s`."""
        n = strip(n)
        if n["kind"] == "BinaryOperator" and n["opcode"] == "=":
            f = self.field_of(n["inner"][0])
            return "{ s with %s := (%s) %% %d }" % (f, self.expr(n["inner"][1]), 2 ** self.w[f])
        if n["kind"] == "UnaryOperator" and n["opcode"] == "--" and not n.get("isPostfix"):
            f = self.field_of(n["inner"][0])
            m = 2 ** self.w[f]
            return "{ s with %s := (s.%s + %d) %% %d }" % (f, f, m - 1, m)
        if n["kind"] == "UnaryOperator" and n["opcode"] == "++" and not n.get("isPostfix"):
            f = self.field_of(n["inner"][0])
            m = 2 ** self.w[f]
            return "{ s with %s := (s.%s + 1) %% %d }" % (f, f, m)
        raise Unhandled("statement " + n["kind"] + " " + n.get("opcode", ""))

    def ret(self, n):
        v = strip(n["inner"][0])
        if v["kind"] == "IntegerLiteral" and v["value"] in ("0", "1"):
            return "(%s, s)" % ("true" if v["value"] == "1" else "false")
        raise Unhandled("return value")

    def stmts(self, lst, ind):
        """list of statements -> Lean expression of type Bool × St (uses variable s)."""
        pad = "  " * ind
        if not lst:
            raise Unhandled("fall-through out of a case")
        n, rest = lst[0], lst[1:]
        k = n["kind"]
        if k == "ReturnStmt":
            return pad + self.ret(n)
        if k == "CompoundStmt":
            return self.stmts(n.get("inner", []) + rest, ind)
        if k == "IfStmt":
            if n.get("hasElse"):
                raise Unhandled("if-else")
            c, body = n["inner"][0], n["inner"][1]
            while body["kind"] == "CompoundStmt" and len(body.get("inner", [])) == 1:
                body = body["inner"][0]
            if body["kind"] == "ReturnStmt":
                return "%sif %s then %s else\n%s" % (pad, self.cond(c), self.ret(body), self.stmts(rest, ind))
            upd = self.simple(body)
            return "%slet s : St := if %s then %s else s\n%s" % (pad, self.cond(c), upd, self.stmts(rest, ind))
        upd = self.simple(n)
        return "%slet s : St := %s\n%s" % (pad, upd, self.stmts(rest, ind))

    def run(self):
        fn, body = tu_function(SRC, "btokPwdTransition", EXTRA)
        items = [c for c in body["inner"] if c["kind"] not in ("NullStmt",)]
        # ASSERT expands to nothing under NDEBUG and to a call otherwise: we parse with NDEBUG
        sw = [c for c in items if c["kind"] == "SwitchStmt"]
        if len(sw) != 1:
            raise Unhandled("expected exactly one switch")
        tail = items[items.index(sw[0]) + 1:]
        if len(tail) != 1 or tail[0]["kind"] != "ReturnStmt":
            raise Unhandled("statements after the switch")
        default = self.ret(tail[0])
        subj = strip(sw[0]["inner"][0])
        if not (subj["kind"] == "DeclRefExpr" and subj["referencedDecl"]["name"] == "event"):
            raise Unhandled("switch subject")
        comp = sw[0]["inner"][1]
        cases, cur = [], None
        for st in comp.get("inner", []):
            while st["kind"] == "CaseStmt":
                lab = strip(st["inner"][0])
                if lab["kind"] == "DeclRefExpr" and lab["referencedDecl"]["name"] in dict(self.ev):
                    val = dict(self.ev)[lab["referencedDecl"]["name"]]
                elif lab["kind"] == "IntegerLiteral":
                    val = int(lab["value"])
                else:
                    raise Unhandled("case label " + lab["kind"])
                cur = [val, []]
                cases.append(cur)
                st = st["inner"][1]
            if st["kind"] == "DefaultStmt":
                raise Unhandled("default label")
            if cur is None:
                raise Unhandled("statement before first case")
            cur[1].append(st)
        out = []
        out.append("-- GENERATED by xlate/x_pwd.py from %s — do not edit." % SRC)
        out.append("namespace Bee2V.Gen.Pwd\n")
        for name, e in (("pin", self.pin), ("auth", self.auth), ("event", self.ev)):
            out.append("-- enum %s" % name)
            for n, v in e:
                out.append("def c_%s : Nat := %d" % (n, v))
            out.append("def %sCount : Nat := %d\n" % (name, max(v for _, v in e) + 1))
        out.append("def pinMod : Nat := %d\ndef authMod : Nat := %d\n" % (2 ** self.w["pin"], 2 ** self.w["auth"]))
        out.append("structure St where\n  pin : Nat\n  auth : Nat\nderiving DecidableEq, Repr\n")
        out.append("/-- `btokPwdTransition`: (return value, state afterwards). -/")
        out.append("def step (s : St) (ev : Nat) : Bool × St :=")
        for val, body in cases:
            out.append("  if ev = %d then" % val)
            out.append(self.stmts(body, 2))
            out.append("  else")
        out.append("    " + default)
        out.append("\nend Bee2V.Gen.Pwd")
        return "\n".join(out) + "\n"


def generate():
    return Tr().run()


if __name__ == "__main__":
    sys.stdout.write(generate())

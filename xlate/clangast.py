"""Shared helpers for the translators: run clang-14 and read its JSON AST.

Translators are fail-closed: any AST shape they do not understand raises
Unhandled, which the caller turns into a failed obligation
(`unhandled:<function>:<node kind>`), never into a guessed model.
"""
import json, subprocess, os

REPO = os.environ.get("BEE2_REPO", "/repo")


class Unhandled(Exception):
    pass


def ast_of(src, filt, extra=()):
    """All top-level AST objects matching the -ast-dump-filter `filt`."""
    cmd = ["clang-14", "-I%s/include" % REPO, "-I%s/src" % REPO, "-fsyntax-only",
           "-Wno-everything", *extra,
           "-Xclang", "-ast-dump=json", "-Xclang", "-ast-dump-filter=" + filt,
           os.path.join(REPO, src)]
    p = subprocess.run(cmd, capture_output=True, text=True)
    if p.returncode != 0:
        raise Unhandled("clang failed on %s: %s" % (src, p.stderr[-400:]))
    s = p.stdout
    dec = json.JSONDecoder()
    i, objs = 0, []
    while i < len(s):
        while i < len(s) and s[i].isspace():
            i += 1
        if i >= len(s):
            break
        o, i = dec.raw_decode(s, i)
        objs.append(o)
    return objs


def function_body(src, name, extra=()):
    for o in ast_of(src, name, extra):
        if o.get("kind") == "FunctionDecl" and o.get("name") == name:
            for c in o.get("inner", []):
                if c["kind"] == "CompoundStmt":
                    return o, c
    raise Unhandled("function %s not found in %s" % (name, src))


def strip(n):
    """Drop implicit casts / parens / constant-expr wrappers."""
    while n["kind"] in ("ImplicitCastExpr", "ParenExpr", "ConstantExpr", "CStyleCastExpr"):
        n = n["inner"][0]
    return n


_tu_cache = {}


def tu_ast(src, extra=()):
    """Whole translation-unit AST (after preprocessing), cached per process."""
    key = (src, tuple(extra))
    if key not in _tu_cache:
        cmd = ["clang-14", "-I%s/include" % REPO, "-I%s/src" % REPO, "-fsyntax-only",
               "-Wno-everything", *extra, "-Xclang", "-ast-dump=json",
               os.path.join(REPO, src)]
        p = subprocess.run(cmd, capture_output=True, text=True)
        if p.returncode != 0:
            raise Unhandled("clang failed on %s: %s" % (src, p.stderr[-400:]))
        _tu_cache[key] = json.loads(p.stdout)
    return _tu_cache[key]


def walk(n):
    yield n
    for c in n.get("inner", []):
        yield from walk(c)


def enums(src, extra=()):
    """List of enums of the TU, each an ordered list of (name, value)."""
    out = []
    for n in walk(tu_ast(src, extra)):
        if n.get("kind") == "EnumDecl":
            nxt, items = 0, []
            for c in n.get("inner", []):
                if c["kind"] != "EnumConstantDecl":
                    continue
                v = nxt
                for cc in c.get("inner", []):
                    cc = strip(cc)
                    if cc["kind"] == "IntegerLiteral":
                        v = int(cc["value"])
                    else:
                        raise Unhandled("enum initialiser " + cc["kind"])
                items.append((c["name"], v))
                nxt = v + 1
            out.append(items)
    return out


def enum_with(src, member, extra=()):
    for e in enums(src, extra):
        if any(n == member for n, _ in e):
            return e
    raise Unhandled("no enum with member " + member)


def tu_function(src, name, extra=()):
    for n in tu_ast(src, extra).get("inner", []):
        if n.get("kind") == "FunctionDecl" and n.get("name") == name:
            for c in n.get("inner", []):
                if c["kind"] == "CompoundStmt":
                    return n, c
    raise Unhandled("function %s not found in %s" % (name, src))

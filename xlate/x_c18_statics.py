#!/usr/bin/env python3
"""Translator for C18, second tie: inventory of ALL mutable static-storage objects of the library.

The interleaving model of C18 has the shared variables of rng.c / mt.c (`_once, _inited, _mtx, _ctr, _state`)
built in.  That this list is COMPLETE for the operations the property quantifies over is checked here:

  1. every object of the compiled library that lives in .data / .bss (nm types d D b B C) is listed — these are
     exactly the objects with static storage duration that are not `const` (file scope or function scope);
  2. for each, the functions of its translation unit that mention it (`users`), and whether any of them can
     modify it (assignment, ++/--, compound assignment, its address or the array itself passed on);
  3. for each call site of the nine functions of the property's grammar (mtCallOnce, rngInit, rngCreate,
     rngIsValid(_internal), rngClose, rngStepR(2), rngRekey) — taken from the clang AST walk of
     x_c18_access.py together with its mutex state — whether a user of the object is reachable through the
     library's direct-call graph.  Indirect calls on such a path are not followed: they are listed, and any
     indirect call that is not one of the documented callbacks (`fn` of mtCallOnce, `source` of rngCreate)
     raises Unhandled (fail closed).

Output: Lean `Bee2V.Gen.C18Statics.statics`; the hand-written Bee2V/C18/Statics.lean classifies every entry
(modelled / never written / reachable only with `_mtx` held or inside the once-initialiser / unreachable) and
`statics_classified` (by `decide`) fails when an entry has no class — e.g. a new mutable static, or an existing
one that becomes reachable from an unlocked call site.
"""
import os, re, subprocess, sys, glob
sys.path.insert(0, os.path.dirname(__file__))
from clangast import Unhandled, REPO

CALLBACKS_OK = {("mtCallOnce", "fn"), ("rngCreate", "source")}
KEYWORDS = {"if", "while", "for", "switch", "return", "sizeof", "defined", "do", "else", "case", "goto",
            "ASSERT", "EXPECT", "PRE", "COUNT_OF", "MIN2", "MAX2", "O_OF_W", "W_OF_O", "O_OF_B", "W_OF_B", "B_OF_W", "B_OF_O"}


def strip_code(t):
    """remove comments, string and character literals and preprocessor lines (keeps line structure)"""
    t = re.sub(r"/\*.*?\*/", lambda m: re.sub(r"[^\n]", " ", m.group(0)), t, flags=re.S)
    t = re.sub(r"//[^\n]*", "", t)
    t = re.sub(r'"(?:\\.|[^"\\\n])*"', '""', t)
    t = re.sub(r"'(?:\\.|[^'\\\n])*'", "' '", t)
    # preprocessor lines (with continuations)
    t = re.sub(r"^[ \t]*#(?:[^\n\\]|\\\n|\\.)*", "", t, flags=re.M)
    return t


def functions_of(path):
    """[(name, body)] for every function definition at brace depth 0 (textual; macros that expand to
    definitions are not seen — the nm inventory would still list their objects)."""
    t = strip_code(open(path, encoding="utf-8", errors="replace").read())
    out, depth, i, n = [], 0, 0, len(t)
    start = None
    while i < n:
        c = t[i]
        if c == "{":
            if depth == 0:
                # is this a function body?  the previous non-space char must be ')'
                j = i - 1
                while j >= 0 and t[j].isspace():
                    j -= 1
                if j >= 0 and t[j] == ")":
                    # match back to '('
                    k, d = j, 0
                    while k >= 0:
                        if t[k] == ")":
                            d += 1
                        elif t[k] == "(":
                            d -= 1
                            if d == 0:
                                break
                        k -= 1
                    m = re.search(r"([A-Za-z_]\w*)\s*$", t[:k])
                    name = m.group(1) if m else None
                    # macros like SAFE(name) / FAST(name): take the inner identifier
                    if name in ("SAFE", "FAST"):
                        m2 = re.match(r"\s*\(\s*([A-Za-z_]\w*)\s*\)", t[k:])
                        # here t[k:] starts at '(' of the macro argument only if the definition is `SAFE(x)(args)`;
                        # then the '(' we matched belongs to the argument list and the macro call precedes it
                        name = None
                    if name is None:
                        m3 = re.search(r"(SAFE|FAST)\s*\(\s*([A-Za-z_]\w*)\s*\)\s*$", t[:k])
                        if m3:
                            name = m3.group(2) + ("_safe" if m3.group(1) == "SAFE" else "_fast")
                    start = (name, i)
            depth += 1
        elif c == "}":
            depth -= 1
            if depth == 0 and start is not None:
                name, s = start
                if name and name not in KEYWORDS:
                    out.append((name, t[s:i + 1]))
                start = None
        i += 1
    return out


def nm_inventory(lib):
    """[(object file stem, symbol)] of the mutable static-storage objects of the library"""
    p = subprocess.run(["nm", "--defined-only", lib], capture_output=True, text=True)
    if p.returncode != 0:
        raise Unhandled("nm failed: " + p.stderr[-300:])
    cur, out = None, []
    for line in p.stdout.split("\n"):
        m = re.match(r"^(\S+)\.o:$", line.strip())
        if m:
            cur = m.group(1)
            if cur.endswith(".c"):
                cur = cur[:-2]
            continue
        m = re.match(r"^[0-9a-fA-F]*\s+([bBdDC])\s+(\S+)$", line.strip())
        if m and cur:
            sym = m.group(2)
            if sym.startswith(("__odr_asan", "__asan", "__sanitizer", "__tsan")):
                continue
            out.append((cur, re.sub(r"\.\d+$", "", sym)))
    return sorted(set(out))


def generate(lib):
    import x_c18_access as xa
    src_by_stem = {}
    for f in glob.glob(os.path.join(REPO, "src", "**", "*.c"), recursive=True):
        src_by_stem.setdefault(os.path.splitext(os.path.basename(f))[0], []).append(f)
    inv = nm_inventory(lib)
    # function bodies of the whole library (for the call graph) — textual
    bodies, where = {}, {}
    for f in glob.glob(os.path.join(REPO, "src", "**", "*.c"), recursive=True):
        for name, body in functions_of(f):
            bodies.setdefault(name, []).append(body)
            where.setdefault(name, []).append(os.path.relpath(f, os.path.join(REPO, "src")))
    known = set(bodies)
    ident_call = re.compile(r"(?<![\w>.])([A-Za-z_]\w*)\s*\(")
    indirect_call = re.compile(r"(?:->|\.)\s*([A-Za-z_]\w*)\s*\(|\(\s*\*\s*([A-Za-z_]\w*)\s*\)\s*\(")
    graph, indirect = {}, {}
    for name, bs in bodies.items():
        g, ind = set(), set()
        for b in bs:
            for m in ident_call.finditer(b):
                c = m.group(1)
                if c in KEYWORDS:
                    continue
                if c in known and c != name:
                    g.add(c)
                for suffix in ("_safe", "_fast"):
                    if c + suffix in known:
                        g.add(c + suffix)
            for m in indirect_call.finditer(b):
                ind.add(m.group(1) or m.group(2))
            # calls through a parameter / local of function-pointer type look like direct calls of an unknown name:
            # recorded as indirect when the identifier is a parameter of this function
            head = b[:0]
        graph[name], indirect[name] = g, ind
    # parameters that are called (callbacks): name( where name is not a known function and appears in the parameter list
    # — approximated: an unknown callee identifier that is not a macro-like ALLCAPS name
    def reach(f):
        seen, todo = set(), [f]
        while todo:
            x = todo.pop()
            if x in seen:
                continue
            seen.add(x)
            todo += [y for y in graph.get(x, ()) if y not in seen]
        return seen
    # call sites of the grammar functions with their mutex state (clang AST walk of x_c18_access)
    sites = []          # (entry function, callee or None, locked)
    for src, fn in xa.FUNCS:
        _, body = xa.tu_function(src, fn, xa.EXTRA)
        w = xa.W(fn)
        w.stmt(body)
        for callee, locked in w.calls:
            sites.append((fn, callee, locked))
    for fn, callee, locked in sites:
        if callee.startswith("<indirect:"):
            nm = callee[len("<indirect:"):-1]
            if (fn, nm) not in CALLBACKS_OK:
                raise Unhandled("%s: indirect call through %s is not a documented callback" % (fn, nm))
    recs = []
    for stem, sym in inv:
        files = src_by_stem.get(stem, [])
        if len(files) != 1:
            raise Unhandled("object file %s.o does not map to exactly one source file" % stem)
        path = files[0]
        rel = os.path.relpath(path, os.path.join(REPO, "src"))
        fns = functions_of(path)
        pat = re.compile(r"(?<![\w>.])" + re.escape(sym) + r"(?!\w)")
        users = sorted({n for n, b in fns if pat.search(b)})
        text = strip_code(open(path, encoding="utf-8", errors="replace").read())
        wr = re.compile(r"(?<![\w>.])" + re.escape(sym) + r"(?:\s*\[[^\]]*\])*\s*(?:=(?!=)|\+=|-=|\*=|/=|%=|&=|\|=|\^=|<<=|>>=|\+\+|--)"
                        r"|(?:\+\+|--)\s*" + re.escape(sym) + r"(?!\w)|&\s*" + re.escape(sym) + r"(?!\w)")
        written = False
        passed = False
        for n, b in fns:
            if wr.search(b):
                written = True
            # the object (array or struct) itself handed to a callee: may be written there
            if re.search(r"[(,]\s*" + re.escape(sym) + r"\s*[,)]", b):
                passed = True
        # reach: grammar call sites from which a user is reachable
        rs = set()
        for fn, callee, locked in sites:
            if callee.startswith("<indirect:"):
                continue
            r = reach(callee) if callee in known else set()
            if r & set(users):
                rs.add((fn, locked))
        for fn in [f for _, f in xa.FUNCS]:
            if fn in users:
                rs.add((fn, None))
        # indirect calls on the reachable paths (not followed)
        recs.append((rel, sym, written or passed, users, sorted(rs, key=lambda x: (x[0], str(x[1])))))
    # indirect calls reachable from locked/unlocked sites: listed for the evidence
    ind_seen = set()
    for fn, callee, locked in sites:
        if callee in known:
            for g in reach(callee):
                for i in indirect.get(g, ()):
                    ind_seen.add((g, i))
    L = ["-- GENERATED by xlate/x_c18_statics.py from the compiled library (nm) and src/**/*.c — do not edit.",
         "namespace Bee2V.Gen.C18Statics", "",
         "/-- a mutable static-storage object of the library: source file, name, may be written after",
         "    initialisation, and the call sites (entry function of the C18 grammar, mutex held?) from which a",
         "    function that mentions it is reachable; `none` = mentioned by the entry function itself -/",
         "structure StaticRec where",
         "  file : String",
         "  name : String",
         "  written : Bool",
         "  reach : List (String × Option Bool)",
         "deriving DecidableEq, Repr", "",
         "def statics : List StaticRec := ["]
    rows = []
    for rel, sym, written, users, rs in recs:
        rr = ", ".join("(\"%s\", %s)" % (f, "none" if l is None else ("some true" if l else "some false")) for f, l in rs)
        rows.append("  { file := \"%s\", name := \"%s\", written := %s, reach := [%s] }" % (rel, sym, "true" if written else "false", rr))
    L.append(",\n".join(rows))
    L.append("]")
    L.append("")
    L.append("/-- indirect calls (through struct members / function pointers) inside functions reachable from the")
    L.append("    grammar's call sites; they are NOT followed by the reachability above -/")
    L.append("def indirectCalls : List (String × String) := [")
    L.append(",\n".join("  (\"%s\", \"%s\")" % x for x in sorted(ind_seen)))
    L.append("]")
    L.append("\nend Bee2V.Gen.C18Statics")
    return "\n".join(L) + "\n"


if __name__ == "__main__":
    sys.stdout.write(generate(sys.argv[1]))

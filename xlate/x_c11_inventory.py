"""C11 — inventory of every function of include/bee2/core/*.h and include/bee2/crypto/*.h that takes at
least two octet buffers (octet[] / void* / char* / u16[] parameters other than state/stack/rng_state) of which
at least one is an output.  For each the documentation is classified:

  remark      the function's own block allows overlap (x_c11_remarks: tolerant / same_or_disjoint)
  excluded    overlap is excluded by the header: either a file/section-level rule ("Если не оговорено противное, то
              входные буферы … не пересекаются") that precedes the declaration, or a sentence of the function's own
              block that names all its buffers.  The sentence is quoted.
  outputs     all octet buffers are outputs, or the only input is a C string naming parameters (nothing to overlap)
  silent      the header says nothing (or excludes only some pairs: these pairs are reported as `forbid`)

Source comments of the implementation that permit overlap ("буферы … могут пересекаться") are collected too
(`src_permits`): they turn a silent function into one whose overlap tolerance is promised by the source.

generate() -> (rows, lean_text)
"""
import os, re

REPO = os.environ.get("BEE2_REPO", "/repo")
ID = r"[A-Za-z_]\w*"
NOT_BUF = ("state", "stack", "rng_state", "ang_state", "echo_state")
BUF_TYPES = ("octet", "void", "char", "u16")


def _blank(m):
    return re.sub(r"[^\n]", " ", m.group(0))


def _params(ps):
    out = []
    for p in ps.split(","):
        p = " ".join(p.split())
        if not p or p == "void":
            continue
        m = re.match(r"(const\s+)?(\w+)\s*(\*?)\s*(\w+)\s*(\[[^\]]*\])?$", p)
        if not m:
            continue
        const, ty, star, name, arr = m.groups()
        if ty in BUF_TYPES and (star or arr) and name not in NOT_BUF:
            out.append(("in" if const else "out", name, ty))
    return out


def scan_header(path, rel):
    text = open(path, encoding="utf-8").read()
    comments = [(m.start(), m.end(), m.group(0)) for m in re.finditer(r"/\*.*?\*/", text, flags=re.S)]
    code = re.sub(r"/\*.*?\*/", _blank, text, flags=re.S)
    code = re.sub(r"//[^\n]*", _blank, code)
    protos = []
    for m in re.finditer(r"^[ \t]*(?:(?:const|unsigned|extern)\s+)*%s[\s\*]+(%s)\s*\(([^;{}()]*(?:\([^()]*\)[^;{}()]*)*)\)\s*;" % (ID, ID),
                         code, flags=re.M):
        if m.group(1) in ("defined",) or code[max(0, m.start() - 8):m.start()].strip().startswith("#"):
            continue
        protos.append((m.start(), m.group(1), m.group(2)))
    # file/section-level rules: comment blocks NOT directly followed by a declaration that state the default
    rules = []
    for s, e, c in comments:
        if "пересека" not in c:
            continue
        nxt = text[e:e + 300].lstrip()
        directly = bool(re.match(r"(?:(?:const|unsigned)\s+)*%s[\s\*]+%s\s*\(" % (ID, ID), nxt)) or nxt.startswith("#define")
        if directly:
            continue
        flat = re.sub(r"\s+", " ", c)
        for sent in re.split(r"(?=\\(?:pre|remark|expect)\b)|(?<=\.)\s", flat):
            if sent and re.search(r"не пересека(?:ю|е)тся", sent) and re.search(r"[Вв]ходные|буферы функций|[Вв]се буферы", sent):
                rules.append((e, sent.strip(" */")))
    rows = []
    for pos, name, ps in protos:
        bufs = _params(ps)
        if len(bufs) < 2 or not any(r == "out" for r, _, _ in bufs):
            continue
        doc = ""
        for s, e, c in comments:
            if e <= pos and code[e:pos].strip() == "":
                doc = c
        own = [x.strip() for x in re.split(r"(?=\\(?:pre|remark|expect|return|brief)\b)", re.sub(r"\s+", " ", doc))
               if "пересека" in x]
        rule = None
        for e, sent in rules:
            fam = re.search(r"функций ([A-Za-z]\w*)", sent)       # "функций SM": a rule for one family only
            if e <= pos and (fam is None or fam.group(1) in name):
                rule = sent
        rows.append({"header": rel, "func": name, "bufs": bufs, "own": own, "rule": rule})
    return rows


def source_permits():
    """functions whose implementation carries a comment that buffers may overlap"""
    out = {}
    for d, _, fs in os.walk(os.path.join(REPO, "src")):
        for f in fs:
            if not f.endswith(".c"):
                continue
            t = open(os.path.join(d, f), encoding="utf-8", errors="replace").read()
            for m in re.finditer(r"//[^\n]*могут пересекаться[^\n]*|/\*[^*]*могут пересекаться[^*]*\*/", t):
                head = t[:m.start()]
                fm = None
                for fm in re.finditer(r"^(?:static\s+)?(?:err_t|void|bool_t|size_t|word|int)\s+(%s)\s*\(" % ID, head, flags=re.M):
                    pass
                if fm:
                    out.setdefault(fm.group(1), re.sub(r"\s+", " ", m.group(0)).strip("/* "))
    return out


def scan():
    import x_c11_remarks
    x_c11_remarks.REPO = REPO
    remarks = {e["func"]: e for e in x_c11_remarks.scan() if e["kind"] != "disjoint"}
    permits = source_permits()
    rows = []
    for sub in ("core", "crypto"):
        d = os.path.join(REPO, "include", "bee2", sub)
        for f in sorted(os.listdir(d)):
            if f.endswith(".h"):
                rows += scan_header(os.path.join(d, f), "bee2/%s/%s" % (sub, f))
    for r in rows:
        names = [n for _, n, _ in r["bufs"]]
        ins = [n for ro, n, _ in r["bufs"] if ro == "in"]
        r["forbid"] = []
        r["src_permits"] = permits.get(r["func"])
        if r["func"] in remarks:
            r["cls"], r["quote"] = "remark", remarks[r["func"]]["text"]
            continue
        neg = [s for s in r["own"] if re.search(r"не пересека(?:ю|е)тся", s)]
        covered_all = False
        for s in neg:
            named = [n for n in names if re.search(r"\b%s\b" % re.escape(n), s)]
            if len(named) >= 2:
                r["forbid"].append(tuple(named))
            if len(named) == len(names) or (len(named) >= 2 and set(names) - set(named) == set()) or \
               re.search(r"[Вв]ходные буферы|[Вв]се буферы", s):
                covered_all = True
                r["quote"] = s
        if covered_all:
            r["cls"] = "excluded"
        elif not ins:
            r["cls"], r["quote"] = "outputs", "all octet buffers are outputs"
        elif r["rule"] and not r["src_permits"]:
            r["cls"], r["quote"] = "excluded", r["rule"]
        else:
            r["cls"], r["quote"] = "silent", "; ".join(neg)
    return rows


def lean_str(s):
    return '"' + s.replace("\\", "\\\\").replace('"', '\\"') + '"'


def generate():
    rows = scan()
    L = ["/- GENERATED by xlate/x_c11_inventory.py from include/bee2/{core,crypto}/*.h (and the overlap comments of src/)",
         "   on every run — do not edit.  Functions with >= 2 octet buffers (one of them an output):",
         "   (header, function, class, quoted sentence / rule). -/",
         "namespace Bee2V.Gen.C11Inv", "",
         "def rows : List (String × String × String × String) := ["]
    L.append(",\n".join("  (%s, %s, %s, %s)" % (lean_str(r["header"]), lean_str(r["func"]), lean_str(r["cls"]),
                                                 lean_str((r.get("quote") or "")[:160])) for r in rows))
    L += ["]", "",
          "/-- functions about whose buffers the header is silent (or only partly restrictive): each must be covered -/",
          "def silent : List String := (rows.filter fun r => r.2.2.1 = \"silent\").map (·.2.1)", "",
          "end Bee2V.Gen.C11Inv", ""]
    return rows, "\n".join(L)


if __name__ == "__main__":
    import sys
    sys.path.insert(0, os.path.dirname(os.path.abspath(__file__)))
    rs, _ = generate()
    import collections
    print(collections.Counter(r["cls"] for r in rs))
    for r in rs:
        if r["cls"] in sys.argv[1:] or "-a" in sys.argv:
            print("%-20s %-22s %-9s %s forbid=%s src=%s | %s" % (r["header"][5:], r["func"], r["cls"],
                  [(a, b) for a, b, _ in r["bufs"]], r["forbid"], bool(r["src_permits"]), (r.get("quote") or "")[:90]))

"""Translator of property C03 (BASH_32 variant): bash_f32.c + u32.c  ->  Bee2V/Gen/C03F32.lean

bash_f32.c keeps every 64-bit word of the bash state as two u32 halves in *interleaved* form
(even bits / odd bits) and is, like bash_f64.c, pure macro code: it is translated from the
PREPROCESSED text (`clang-14 -E -P -DNDEBUG`) with the tokenizer / recursive-descent expression
parser of x_c03.py, extended here by calls, `==`, `>`, the `(u32)` cast and a statement layer
(declarations, `if/else` chains, `return`).  Fail-closed: every token, operator, statement shape,
type or data flow that is not understood raises Unhandled.

What is emitted (namespace Bee2V.Gen.C03F32):

  * `u32Shuffle`, `u32Deshuffle` (src/core/u32.c), `u32x2Inter`, `u32x2Deinter`, `u32x2RotHi`
    (bash_f32.c): GENERIC translation of the C bodies, statement by statement, into `let` chains
    over UInt32 (sequential assignment = shadowing `let`; `w[0]`,`w[1]` of a `u32 w[2]` parameter
    are the scalars `w_0`,`w_1`; in/out array parameters are returned as a pair).  Every mask,
    shift amount, operator and the order of statements is copied from the source.
  * `bashS`: the expansion of the `bashS` macro, abstracted over its three cells and its four
    rotation amounts; all 192 expansions in bashF0 must give the same template.
  * `rounds`: per `bashR`/`bashC` pair the 8 lines (cells 8*i+j after constant-folding the
    navigation macros up/p1/p3/s0..s5 with C integer semantics, the rotation quadruple) and the
    `bashC` cell with its two literals (the interleaved constants ci_0, ci_1).
  * `bashF` (octet function): its body is compared token by token with the expected text
    (Inter on the 24 words in order, bashF0, Deinter on the 24 words); the Lean model of that
    wrapper is hand-written in Bee2V/C03/BashF32.lean.

C facts the translation relies on (all checked on the preprocessed text):
  u32 is `unsigned int` (no integer promotion: `~`, `<<` stay 32-bit); size_t is an unsigned
  integer type; the temporaries t0,t1,t2 of bashF0 are the disjoint pairs stack[0..1], [2..3],
  [4..5]; in every `u32x2RotHi(dst, src, m)` call dst is a temporary different from src; the three
  cells of an S-line are distinct.  `size_t` arithmetic of u32x2RotHi is emitted over Nat: it
  agrees with C as long as no subtraction goes negative, i.e. m/2 <= 32 -- beyond that the C
  shifts are undefined anyway (Lemmas prove the amounts in `rounds` stay inside 1..31).
"""
import os, re, subprocess
import clangast
from clangast import Unhandled
from x_c03 import tokenize, P

F32 = "src/crypto/bash/bash_f32.c"
U32C = "src/core/u32.c"

# ------------------------------------------------------------------ expression parser
BIN32 = [  # C precedence, loosest first
    ["|"], ["^"], ["&"], ["==", "!="], ["<", ">"], ["<<", ">>"], ["+", "-"], ["*", "/", "%"]]


class P32(P):
    """x_c03.P + calls, ==, >, the (u32) cast"""

    def binary(self, lvl):
        if lvl == len(BIN32):
            return self.unary()
        l = self.binary(lvl + 1)
        while True:
            k = self.peek()
            if k[0] == "op" and k[1] in BIN32[lvl]:
                self.i += 1
                r = self.binary(lvl + 1)
                l = ("bin", k[1], l, r)
            else:
                return l

    def unary(self):
        if self.isop("~"):
            self.i += 1
            return ("not", self.unary())
        for bad in ("-", "+", "!", "*", "&"):
            if self.isop(bad):
                raise Unhandled("f32: unary operator %s" % bad)
        if self.isop("(") and self.i + 2 < len(self.t):
            if self.t[self.i + 1] == ("id", "u32") and self.t[self.i + 2] == ("op", ")"):
                self.i += 3
                return ("cast32", self.unary())
            if self.t[self.i + 1][0] == "id" and self.t[self.i + 1][1] in TYPES:
                raise Unhandled("f32: cast to %s" % self.t[self.i + 1][1])
        return self.postfix()

    def postfix(self):
        k = self.peek()
        if k[0] == "num":
            self.i += 1
            e = ("num", k[1], k[2])
        elif k[0] == "id":
            if k[1] in KEYWORDS:
                raise Unhandled("f32: keyword %s inside an expression" % k[1])
            self.i += 1
            e = ("var", k[1])
            if self.isop("("):
                self.i += 1
                args = [] if self.isop(")") else self.comma()
                self.eat("op", ")")
                e = ("call", k[1], args)
        elif self.isop("("):
            self.i += 1
            es = self.comma()
            if len(es) != 1:
                raise Unhandled("f32: comma inside parentheses")
            self.eat("op", ")")
            e = es[0]
        else:
            raise Unhandled("f32: unexpected token %r" % (k,))
        while self.isop("["):
            self.i += 1
            ix = self.comma()
            if len(ix) != 1:
                raise Unhandled("f32: comma in index")
            self.eat("op", "]")
            e = ("idx", e, ix[0])
        return e


TYPES = {"u8", "u16", "u32", "u64", "size_t", "word", "octet", "int", "unsigned", "long", "short", "char", "void",
         "dword", "bool_t", "err_t"}
KEYWORDS = {"if", "else", "for", "while", "do", "return", "goto", "switch", "case", "break", "continue", "sizeof",
            "register", "static", "const", "volatile"} | TYPES


def ceval(e):
    """C evaluation of a constant `int` expression (values stay tiny and non-negative)."""
    k = e[0]
    if k == "num":
        if e[2] != "":
            raise Unhandled("f32: suffixed literal in an index")
        if e[1] >= 2 ** 31:
            raise Unhandled("f32: index literal is not an int")
        return e[1]
    if k == "bin":
        a, b = ceval(e[2]), ceval(e[3])
        op = e[1]
        if op == "+": r = a + b
        elif op == "-": r = a - b
        elif op == "*": r = a * b
        elif op == "/":
            if b == 0: raise Unhandled("f32: /0")
            r = a // b
        elif op == "%":
            if b == 0: raise Unhandled("f32: %0")
            r = a % b
        elif op == "&": r = a & b
        elif op == "|": r = a | b
        elif op == "^": r = a ^ b
        elif op == "<": r = 1 if a < b else 0
        elif op == ">": r = 1 if a > b else 0
        elif op == "==": r = 1 if a == b else 0
        elif op == "!=": r = 1 if a != b else 0
        elif op == "<<":
            if b >= 31: raise Unhandled("f32: shift in an index")
            r = a << b
        elif op == ">>":
            if b >= 31: raise Unhandled("f32: shift in an index")
            r = a >> b
        else: raise Unhandled("f32: operator %s in an index" % op)
        if r < 0 or r >= 2 ** 31:
            raise Unhandled("f32: index arithmetic leaves the non-negative ints")
        return r
    if k == "?:":
        return ceval(e[2]) if ceval(e[1]) != 0 else ceval(e[3])
    raise Unhandled("f32: non-constant index (%s)" % k)


# ------------------------------------------------------------------ source access
_pp = {}


def preprocess(src):
    if src not in _pp:
        cmd = ["clang-14", "-E", "-P", "-DNDEBUG", "-I%s/include" % clangast.REPO, "-I%s/src" % clangast.REPO,
               os.path.join(clangast.REPO, src)]
        p = subprocess.run(cmd, capture_output=True, text=True)
        if p.returncode != 0:
            raise Unhandled("clang -E failed on %s: %s" % (src, p.stderr[-400:]))
        _pp[src] = p.stdout
    return _pp[src]


def check_types(text, src):
    """u32 must be `unsigned int` (no promotions), size_t an unsigned integer type"""
    def resolve(name):
        seen = 0
        while True:
            m = re.findall(r"typedef\s+([\w\s]+?)\s+%s\s*;" % re.escape(name), text)
            if len(m) != 1:
                raise Unhandled("%s: typedef of %s not found / ambiguous" % (src, name))
            base = " ".join(m[0].split())
            if re.fullmatch(r"\w+", base) and base not in ("unsigned",) and re.search(r"typedef\s+[\w\s]+?\s+%s\s*;" % base, text):
                name, seen = base, seen + 1
                if seen > 8:
                    raise Unhandled("typedef chain too long")
                continue
            return base
    if resolve("u32") not in ("unsigned int", "unsigned"):
        raise Unhandled("%s: u32 is %r, not unsigned int" % (src, resolve("u32")))
    if sorted(resolve("size_t").split()) not in (sorted("long unsigned int".split()), sorted("unsigned long".split()),
                                                 sorted("unsigned int".split()), sorted("unsigned long long".split()),
                                                 sorted("long long unsigned int".split())):
        raise Unhandled("%s: size_t is %r" % (src, resolve("size_t")))


def function_text(text, sig_re, what):
    """body (between the outer braces) of the unique function whose header matches sig_re"""
    ms = list(re.finditer(sig_re + r"\s*\{", text))
    if len(ms) != 1:
        raise Unhandled("%s: definition not found / not unique (%d)" % (what, len(ms)))
    m = ms[0]
    i, depth = m.end(), 1
    while depth:
        if i >= len(text):
            raise Unhandled("%s: unbalanced braces" % what)
        depth += {"{": 1, "}": -1}.get(text[i], 0)
        i += 1
    return text[m.end():i - 1]


# ------------------------------------------------------------------ statement layer (small functions)
def parse_stmts(p, until_brace):
    out = []
    while True:
        k = p.peek()
        if k == ("eof",):
            if until_brace:
                raise Unhandled("f32: missing }")
            return out
        if k == ("op", "}"):
            if not until_brace:
                raise Unhandled("f32: stray }")
            p.i += 1
            return out
        out.append(parse_stmt(p))


def one(es, what):
    if len(es) != 1:
        raise Unhandled("f32: comma expression in " + what)
    return es[0]


def parse_stmt(p):
    k = p.peek()
    if k == ("op", "{"):
        p.i += 1
        return ("block", parse_stmts(p, True))
    if k == ("id", "if"):
        p.i += 1
        p.eat("op", "(")
        c = one(p.comma(), "if condition")
        p.eat("op", ")")
        a = parse_stmt(p)
        if p.peek() != ("id", "else"):
            raise Unhandled("f32: if without else")
        p.i += 1
        b = parse_stmt(p)
        return ("if", c, a, b)
    if k == ("id", "return"):
        p.i += 1
        e = one(p.comma(), "return")
        p.eat("op", ";")
        return ("ret", e)
    if k in (("id", "register"), ("id", "u32")):
        if k == ("id", "register"):
            p.i += 1
        p.eat("id", "u32")
        ds = []
        while True:
            n = p.eat("id")[1]
            if n in KEYWORDS:
                raise Unhandled("f32: declarator " + n)
            init = None
            if p.isop("="):
                p.i += 1
                init = p.assign()
            ds.append((n, init))
            if p.isop(","):
                p.i += 1
                continue
            p.eat("op", ";")
            return ("decl", ds)
    if k[0] == "id" and k[1] in KEYWORDS:
        raise Unhandled("f32: statement starting with %s" % k[1])
    es = p.comma()
    p.eat("op", ";")
    return ("expr", es)


class Fn:
    """Translation of one small C function into a Lean definition (a `let` chain).

    env: C name -> 'u32' (scalar), 'arr' (u32[2], elements are the Lean scalars name_0/name_1), 'nat' (size_t)
    """

    def __init__(self, name, env, defined, calls):
        self.name, self.env, self.defined, self.calls = name, dict(env), set(defined), calls

    def bad(self, msg):
        raise Unhandled("%s: %s" % (self.name, msg))

    # ---- lvalues / reads
    def lname(self, e):
        if e[0] == "var":
            if self.env.get(e[1]) != "u32":
                self.bad("%s is not a u32 scalar" % e[1])
            return e[1]
        if e[0] == "idx" and e[1][0] == "var":
            if self.env.get(e[1][1]) != "arr":
                self.bad("indexing %s" % e[1][1])
            h = ceval(e[2])
            if h not in (0, 1):
                self.bad("%s[%d] is outside the pair" % (e[1][1], h))
            return "%s_%d" % (e[1][1], h)
        self.bad("not an lvalue: %r" % (e[0],))

    def rd(self, e):
        n = self.lname(e)
        if n not in self.defined:
            self.bad("%s is read before it is written" % n)
        return n

    # ---- u32-valued expression
    def u32(self, e):
        k = e[0]
        if k == "num":
            if e[2] not in ("", "u") or e[1] >= 2 ** 32:
                self.bad("literal %r does not fit u32" % (e[1:],))
            return "(0x%08X : UInt32)" % e[1]
        if k in ("var", "idx"):
            return self.rd(e)
        if k == "cast32":
            return self.u32(e[1])
        if k == "not":
            return "(~~~ %s)" % self.u32(e[1])
        if k == "call":
            if e[1] not in self.calls or len(e[2]) != 1:
                self.bad("call of %s" % e[1])
            return "(%s %s)" % (e[1], self.u32(e[2][0]))
        if k == "bin":
            op = e[1]
            if op in ("^", "|", "&"):
                return "(%s %s %s)" % (self.u32(e[2]), {"^": "^^^", "|": "|||", "&": "&&&"}[op], self.u32(e[3]))
            if op in ("<<", ">>"):
                amt = e[3]
                if amt[0] == "num":
                    if amt[2] != "" or not 0 <= amt[1] < 32:
                        self.bad("shift amount %r" % (amt[1:],))
                    a = "(%d : UInt32)" % amt[1]
                else:
                    a = "(UInt32.ofNat %s)" % self.nat(amt)
                return "(%s %s %s)" % (self.u32(e[2]), {"<<": "<<<", ">>": ">>>"}[op], a)
            self.bad("operator %s on u32 values" % op)
        self.bad("u32 expression %s" % k)

    # ---- size_t-valued expression (emitted over Nat)
    def nat(self, e):
        k = e[0]
        if k == "num":
            if e[2] != "" or e[1] >= 2 ** 31:
                self.bad("size_t literal %r" % (e[1:],))
            return str(e[1])
        if k == "var":
            if self.env.get(e[1]) != "nat":
                self.bad("%s is not a size_t" % e[1])
            return e[1]
        if k == "bin" and e[1] in ("+", "-", "*", "/", "%"):
            if e[1] in ("/", "%") and not (e[3][0] == "num" and e[3][1] > 0):
                self.bad("division by a non-literal")
            return "(%s %s %s)" % (self.nat(e[2]), e[1], self.nat(e[3]))
        self.bad("size_t expression %r" % (e[:2],))

    def cond(self, e):
        if e[0] == "bin" and e[1] in ("==", ">", "<", "!="):
            return "%s %s %s" % (self.nat(e[2]), {"==": "=", "!=": "≠"}.get(e[1], e[1]), self.nat(e[3]))
        self.bad("condition %r" % (e[:2],))

    # ---- statements
    def asg(self, e, lines):
        """one assignment expression (possibly chained `a = b = e`) -> let lines; returns the name written"""
        if e[0] != "asg":
            self.bad("expression statement without effect")
        op, lhs, rhs = e[1], e[2], e[3]
        n = self.lname(lhs)
        if rhs[0] == "asg":
            inner = self.asg(rhs, lines)
            r = inner
        else:
            r = self.u32(rhs)
        if op == "=":
            lines.append("let %s : UInt32 := %s" % (n, r))
        elif op in ("^=", "|="):
            if n not in self.defined:
                self.bad("%s is updated before it is written" % n)
            lines.append("let %s : UInt32 := (%s %s %s)" % (n, n, {"^=": "^^^", "|=": "|||"}[op], r))
        else:
            self.bad("assignment operator " + op)
        self.defined.add(n)
        return n

    def straight(self, stmts, lines):
        """straight-line statements; returns the `return` expression if the last statement is one"""
        ret = None
        for idx, s in enumerate(stmts):
            if ret is not None:
                self.bad("statement after return")
            if s[0] == "decl":
                for n, init in s[1]:
                    if n in self.env:
                        self.bad("redeclaration of " + n)
                    self.env[n] = "u32"
                    if init is not None:
                        lines.append("let %s : UInt32 := %s" % (n, self.u32(init)))
                        self.defined.add(n)
            elif s[0] == "expr":
                for e in s[1]:
                    self.asg(e, lines)
            elif s[0] == "ret":
                ret = self.u32(s[1])
            elif s[0] == "block":
                r = self.straight(s[1], lines)
                if r is not None:
                    ret = r
            else:
                self.bad("statement %s in straight-line code" % s[0])
        return ret


def lean_fn(header, doc, lines, result, indent="  "):
    out = ["/-- %s -/" % doc, header]
    out += [indent + l for l in lines]
    out.append(indent + result)
    return "\n".join(out)


def tr_scalar_fn(text, src, name):
    """`u32 name(register u32 w)` with a straight-line body ending in `return w`"""
    body = function_text(text, r"\bu32\s+%s\s*\(\s*register\s+u32\s+w\s*\)" % name, name)
    p = P32(tokenize(body))
    stmts = parse_stmts(p, False)
    f = Fn(name, {"w": "u32"}, {"w"}, set())
    lines = []
    ret = f.straight(stmts, lines)
    if ret is None:
        raise Unhandled("%s: no return" % name)
    return lean_fn("def %s (w : UInt32) : UInt32 :=" % name,
                   "`%s` (%s), statement by statement" % (name, src), lines, ret)


def tr_inout_fn(text, name):
    """`static void name(u32 w[2])`: straight-line, the pair w is updated in place"""
    body = function_text(text, r"\bstatic\s+void\s+%s\s*\(\s*u32\s+w\s*\[\s*2\s*\]\s*\)" % name, name)
    p = P32(tokenize(body))
    stmts = parse_stmts(p, False)
    f = Fn(name, {"w": "arr"}, {"w_0", "w_1"}, {"u32Shuffle", "u32Deshuffle"})
    lines = []
    if f.straight(stmts, lines) is not None:
        raise Unhandled("%s: return in a void function" % name)
    return lean_fn("def %s (w_0 w_1 : UInt32) : UInt32 × UInt32 :=" % name,
                   "`%s(u32 w[2])` (%s): `w[0]`,`w[1]` are `w_0`,`w_1`; returns the updated pair" % (name, F32),
                   lines, "(w_0, w_1)")


def tr_rothi(text):
    """`static void u32x2RotHi(u32 t[2], const u32 w[2], size_t m)`: one if/else-if/else chain, every branch
    writes t[0] and t[1] from w"""
    name = "u32x2RotHi"
    body = function_text(
        text, r"\bstatic\s+void\s+u32x2RotHi\s*\(\s*u32\s+t\s*\[\s*2\s*\]\s*,\s*const\s+u32\s+w\s*\[\s*2\s*\]\s*,\s*size_t\s+m\s*\)",
        name)
    p = P32(tokenize(body))
    stmts = parse_stmts(p, False)
    if len(stmts) != 1 or stmts[0][0] != "if":
        raise Unhandled("u32x2RotHi: body is not a single if/else chain")

    def branch(s, ind):
        if s[0] == "if":
            f = Fn(name, {"t": "arr", "w": "arr", "m": "nat"}, {"w_0", "w_1"}, set())
            c = f.cond(s[1])
            return ([ind + "if %s then" % c] + branch(s[2], ind + "  ") + [ind + "else"] + branch(s[3], ind + "  "))
        f = Fn(name, {"t": "arr", "w": "arr", "m": "nat"}, {"w_0", "w_1"}, set())
        lines = []
        if f.straight([s], lines) is not None:
            raise Unhandled("u32x2RotHi: return")
        for l in lines:
            if re.match(r"let w_", l):
                raise Unhandled("u32x2RotHi: writes the const parameter w")
        if not {"t_0", "t_1"} <= f.defined:
            raise Unhandled("u32x2RotHi: a branch leaves t[0] or t[1] unwritten")
        return [ind + l for l in lines] + [ind + "(t_0, t_1)"]
    lines = branch(stmts[0], "  ")
    return "\n".join([
        "/-- `u32x2RotHi(u32 t[2], const u32 w[2], size_t m)` (%s) with `u32RotHi` (u32.h) expanded:" % F32,
        "returns the pair written to `t`; `t` and `w` never alias (checked at the call sites).",
        "size_t arithmetic over Nat (agrees with C while m/2 ≤ 32; beyond that the C shifts are undefined). -/",
        "def u32x2RotHi (w_0 w_1 : UInt32) (m : Nat) : UInt32 × UInt32 :="] + lines)


# ------------------------------------------------------------------ bashF0
TMPS = ("t0", "t1", "t2")
DECLS = ["u32 * t0 = ( u32 * ) stack", "u32 * t1 = t0 + 2", "u32 * t2 = t1 + 2"]


def toktext(s):
    return " ".join(str(t[1]) + (t[2] if t[0] == "num" else "") for t in tokenize(s))


def ref_of(e):
    """`s[i][j]` -> ('cell', 8*i+j);  `tK` -> ('tmp', 'tK')"""
    if e[0] == "var":
        if e[1] not in TMPS:
            raise Unhandled("bashF0: unknown variable " + e[1])
        return ("tmp", e[1])
    if e[0] == "idx" and e[1][0] == "idx" and e[1][1] == ("var", "s"):
        i, j = ceval(e[1][2]), ceval(e[2])
        if not (0 <= i < 3 and 0 <= j < 8):
            raise Unhandled("bashF0: s[%d][%d] is outside the state" % (i, j))
        return ("cell", 8 * i + j)
    raise Unhandled("bashF0: not a word reference: %r" % (e[:2],))


def half_of(e):
    """`X[h]` -> (ref, h)"""
    if e[0] != "idx":
        raise Unhandled("bashF0: expected a half `x[0]`/`x[1]`, got %s" % e[0])
    h = ceval(e[2])
    if h not in (0, 1):
        raise Unhandled("bashF0: half index %d" % h)
    return (ref_of(e[1]), h)


def val(e):
    k = e[0]
    if k == "idx":
        return ("half",) + half_of(e)
    if k == "not":
        return ("not", val(e[1]))
    if k == "bin" and e[1] in ("^", "|", "&"):
        return (e[1], val(e[2]), val(e[3]))
    if k == "num":
        if e[2] not in ("", "u") or e[1] >= 2 ** 32:
            raise Unhandled("bashF0: literal %r does not fit u32" % (e[1:],))
        return ("const", e[1])
    raise Unhandled("bashF0: value expression %r" % (e[:2],))


def parse_bashF0(text):
    body = function_text(
        text, r"\bstatic\s+void\s+bashF0\s*\(\s*u32\s+s\s*\[\s*3\s*\]\s*\[\s*8\s*\]\s*\[\s*2\s*\]\s*,\s*void\s*\*\s*stack\s*\)",
        "bashF0")
    stmts = [s.strip() for s in body.split(";")]
    if stmts[-1] != "":
        raise Unhandled("bashF0: trailing text after the last statement")
    stmts = stmts[:-1]
    if [toktext(s) for s in stmts[:3]] != DECLS:
        raise Unhandled("bashF0: expected `u32* t0 = (u32*)stack; u32* t1 = t0 + 2; u32* t2 = t1 + 2;` first")
    groups = []
    for s in stmts[3:]:
        if s == "":
            continue            # null statement (`bashR(..);` expands to `...;;`)
        p = P32(tokenize(s))
        es = p.comma()
        if p.peek() != ("eof",):
            raise Unhandled("bashF0: trailing tokens in a statement")
        groups.append(es)
    if len(groups) % 9 != 0 or not groups:
        raise Unhandled("bashF0: %d statements is not a multiple of 9" % len(groups))
    template, rounds = None, []
    for r in range(len(groups) // 9):
        lines = []
        for j in range(8):
            items = []      # ('call', dst, src, m) | ('asg', (ref,h), op, val)
            for e in groups[9 * r + j]:
                if e[0] == "call":
                    if e[1] != "u32x2RotHi" or len(e[2]) != 3:
                        raise Unhandled("bashF0: call of %s/%d" % (e[1], len(e[2])))
                    dst, src, m = ref_of(e[2][0]), ref_of(e[2][1]), ceval(e[2][2])
                    if dst[0] != "tmp" or dst == src:
                        raise Unhandled("bashF0: u32x2RotHi destination must be a temporary different from the source")
                    items.append(("call", dst, src, m))
                elif e[0] == "asg":
                    if e[1] not in ("=", "^=", "|="):
                        raise Unhandled("bashF0: assignment operator " + e[1])
                    items.append(("asg", half_of(e[2]), e[1], val(e[3])))
                else:
                    raise Unhandled("bashF0: expression without effect in an S-line")
            cells, rots, tpl = [], [], []

            def see(ref):
                if ref[0] == "cell" and ref[1] not in cells:
                    cells.append(ref[1])

            def seev(v):
                if v[0] == "half":
                    see(v[1])
                elif v[0] == "const":
                    raise Unhandled("bashF0: constant inside an S-line")
                else:
                    for c in v[1:]:
                        seev(c)
            for it in items:
                if it[0] == "call":
                    see(it[2]); see(it[1])
                else:
                    seev(it[3]); see(it[1][0])
            if len(cells) != 3:
                raise Unhandled("bashF0: an S-line uses %d distinct cells (aliasing?)" % len(cells))

            def ab(ref):
                return ("w", cells.index(ref[1])) if ref[0] == "cell" else ref

            def abv(v):
                if v[0] == "half":
                    return ("half", ab(v[1]), v[2])
                return (v[0],) + tuple(abv(c) for c in v[1:])
            for it in items:
                if it[0] == "call":
                    rots.append(it[3])
                    tpl.append(("call", ab(it[1]), ab(it[2]), len(rots) - 1))
                else:
                    tpl.append(("asg", (ab(it[1][0]), it[1][1]), it[2], abv(it[3])))
            if len(rots) != 4:
                raise Unhandled("bashF0: an S-line has %d rotations" % len(rots))
            check_defined(tpl)
            if template is None:
                template = tpl
            elif template != tpl:
                raise Unhandled("bashF0: S-line %d of round %d differs from the first S-line" % (j, r + 1))
            lines.append((cells, rots))
        grp = groups[9 * r + 8]
        if len(grp) != 2:
            raise Unhandled("bashF0: bashC of round %d has %d parts" % (r + 1, len(grp)))
        cs = []
        for h, e in enumerate(grp):
            if e[0] != "asg" or e[1] != "^=":
                raise Unhandled("bashF0: bashC of round %d is not `^=`" % (r + 1))
            (ref, hh), v = half_of(e[2]), val(e[3])
            if ref[0] != "cell" or hh != h or v[0] != "const":
                raise Unhandled("bashF0: bashC of round %d: expected `s(i,j)[%d] ^= <literal>`" % (r + 1, h))
            cs.append((ref[1], v[1]))
        if cs[0][0] != cs[1][0]:
            raise Unhandled("bashF0: bashC of round %d touches two cells" % (r + 1))
        rounds.append((lines, cs[0][0], cs[0][1], cs[1][1]))
    return template, rounds


def check_defined(tpl):
    """both halves of a temporary must be written before they are read inside an S-line"""
    have = set()

    def rdv(v):
        if v[0] == "half":
            if v[1][0] == "tmp" and (v[1][1], v[2]) not in have:
                raise Unhandled("bashF0: %s[%d] read before it is written in an S-line" % (v[1][1], v[2]))
        else:
            for c in v[1:]:
                rdv(c)
    for it in tpl:
        if it[0] == "call":
            _, dst, src, _ = it
            if src[0] == "tmp" and not {(src[1], 0), (src[1], 1)} <= have:
                raise Unhandled("bashF0: u32x2RotHi reads an unwritten temporary")
            have.add((dst[1], 0)); have.add((dst[1], 1))
        else:
            _, (ref, h), op, v = it
            rdv(v)
            if op != "=":
                rdv(("half", ref, h))
            if ref[0] == "tmp":
                have.add((ref[1], h))


def nm(ref, h):
    return ("w%d_%d" % (ref[1], h)) if ref[0] == "w" else "%s_%d" % (ref[1], h)


def lean_val(v):
    if v[0] == "half":
        return nm(v[1], v[2])
    if v[0] == "not":
        return "(~~~ %s)" % lean_val(v[1])
    return "(%s %s %s)" % (lean_val(v[1]), {"^": "^^^", "|": "|||", "&": "&&&"}[v[0]], lean_val(v[2]))


def lean_template(tpl):
    out = ["/-- the expansion of the `bashS` macro (%s), abstracted over its three cells (each a pair of" % F32,
           "halves `wK_0`,`wK_1`) and the four rotation amounts (in order of appearance: m1, n1, m2, n2) -/",
           "def bashS (r0 r1 r2 r3 : Nat) (w0_0 w0_1 w1_0 w1_1 w2_0 w2_1 : UInt32) :",
           "    (UInt32 × UInt32) × (UInt32 × UInt32) × (UInt32 × UInt32) :="]
    k = 0
    for it in tpl:
        if it[0] == "call":
            _, dst, src, ri = it
            out.append("  let q%d : UInt32 × UInt32 := u32x2RotHi %s %s r%d" % (k, nm(src, 0), nm(src, 1), ri))
            out.append("  let %s : UInt32 := q%d.1" % (nm(dst, 0), k))
            out.append("  let %s : UInt32 := q%d.2" % (nm(dst, 1), k))
            k += 1
        else:
            _, (ref, h), op, v = it
            l = nm(ref, h)
            if op == "=":
                out.append("  let %s : UInt32 := %s" % (l, lean_val(v)))
            else:
                out.append("  let %s : UInt32 := (%s %s %s)" % (l, l, {"^=": "^^^", "|=": "|||"}[op], lean_val(v)))
    out.append("  ((w0_0, w0_1), (w1_0, w1_1), (w2_0, w2_1))")
    return "\n".join(out)


BASHF_BODY = ("size_t i , j ; u32 ( * s ) [ 3 ] [ 8 ] [ 2 ] = ( u32 ( * ) [ 3 ] [ 8 ] [ 2 ] ) block ; ( ( void ) 0 ) ; "
              "for ( i = 0 ; i < 3 ; ++ i ) for ( j = 0 ; j < 8 ; ++ j ) u32x2Inter ( ( * s ) [ i ] [ j ] ) ; "
              "bashF0 ( * s , stack ) ; "
              "for ( i = 0 ; i < 3 ; ++ i ) for ( j = 0 ; j < 8 ; ++ j ) u32x2Deinter ( ( * s ) [ i ] [ j ] ) ;")


def check_bashF(text):
    body = function_text(text, r"\bvoid\s+bashF\s*\(\s*octet\s+block\s*\[\s*192\s*\]\s*,\s*void\s*\*\s*stack\s*\)", "bashF")
    toks = re.findall(r"[A-Za-z_]\w*|\d+|\+\+|[^\s\w]", body)
    if " ".join(toks) != BASHF_BODY:
        raise Unhandled("bashF (bash_f32.c): body differs from the modelled wrapper "
                        "(Inter on 24 words; bashF0; Deinter on 24 words; little-endian host)")


def generate():
    t32 = preprocess(F32)
    tu = preprocess(U32C)
    check_types(t32, F32)
    check_types(tu, U32C)
    check_bashF(t32)
    template, rounds = parse_bashF0(t32)
    L = ["/- GENERATED by xlate/x_c03f32.py from %s, %s — do not edit. -/" % (F32, U32C),
         "set_option linter.unusedVariables false",
         "namespace Bee2V.Gen.C03F32", "",
         tr_scalar_fn(tu, U32C, "u32Shuffle"), "",
         tr_scalar_fn(tu, U32C, "u32Deshuffle"), "",
         tr_inout_fn(t32, "u32x2Inter"), "",
         tr_inout_fn(t32, "u32x2Deinter"), "",
         tr_rothi(t32), "",
         lean_template(template), "",
         "/-- one expanded `bashS(...)` line of a `bashR`: the three cells `8*i+j` of `s[3][8]` and the rotation amounts -/",
         "structure SLine where",
         "  i0 : Fin 24", "  i1 : Fin 24", "  i2 : Fin 24",
         "  m1 : Nat", "  n1 : Nat", "  m2 : Nat", "  n2 : Nat",
         "  deriving DecidableEq, Repr", "",
         "/-- one `bashR(sK); bashC(sK', i)`: eight S-lines, then `s[xc][0] ^= c0, s[xc][1] ^= c1` -/",
         "structure Round where",
         "  lines : List SLine", "  xc : Fin 24", "  c0 : UInt32", "  c1 : UInt32",
         "  deriving DecidableEq, Repr", "",
         "/-- the %d rounds of `bashF0`, navigation macros constant-folded; c0/c1 are the literals ci_0/ci_1 -/" % len(rounds),
         "def rounds : List Round := ["]
    rl = []
    for lines, xc, c0, c1 in rounds:
        ls = ", ".join("⟨%d, %d, %d, %d, %d, %d, %d⟩" % (cs[0], cs[1], cs[2], rs[0], rs[1], rs[2], rs[3]) for cs, rs in lines)
        rl.append("  { lines := [%s],\n    xc := %d, c0 := 0x%08X, c1 := 0x%08X }" % (ls, xc, c0, c1))
    L.append(",\n".join(rl) + "]")
    L.append("")
    L.append("end Bee2V.Gen.C03F32")
    return "\n".join(L) + "\n"


if __name__ == "__main__":
    import sys
    sys.stdout.write(generate())

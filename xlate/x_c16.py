"""Translator of property C16: the standard parameter sets of bign96.c, g12s.c, dstu.c and pfok.c as
loaded by bign96ParamsStd / g12sParamsStd / dstuParamsStd / pfokParamsStd -> Bee2V/Gen/C16Params.lean.

Text-level and fail-closed.  The static tables are parsed with a strict grammar (octet tables contain
only `0xHH,` items, declared lengths must match, scalar constants are decimal literals), and the body
of each loader is parsed statement by statement: the `_LOAD_NAMED_PARAMS` macros must have exactly
the expected text, every branch must be `if (strEq(name, _X_name)) { ...; return ERR_OK; }` with the
known statements only.  Anything else raises Unhandled (the check then reports the model as not
regenerable).  The emitted values are the fields of the params structures after the loader ran
(numbers = little-endian value of the zero padded arrays).
"""
import os, re


class Unhandled(Exception):
    pass


def _strip(text):
    text = re.sub(r"/\*.*?\*/", " ", text, flags=re.S)
    return re.sub(r"//[^\n]*", " ", text)


def _read(repo, rel):
    return _strip(open(os.path.join(repo, rel), encoding="utf-8", errors="replace").read())


def _tables(text, what):
    """all `static [const] T name[...] = {..};`, `static [const] T name = v;`, `static const char name[] = "..";`"""
    arr, sca, strs = {}, {}, {}
    for m in re.finditer(r"static\s+(?:const\s+)?(octet|u16|u32|size_t)\s+(?:const\s+)?(\w+)\s*\[\s*(\d*)\s*\]\s*=\s*\{([^}]*)\}\s*;", text):
        ty, name, n, body = m.group(1), m.group(2), m.group(3), m.group(4)
        items = [x.strip() for x in body.split(",") if x.strip()]
        vals = []
        for it in items:
            if ty == "octet":
                if not re.fullmatch(r"0[xX][0-9a-fA-F]{2}", it):
                    raise Unhandled("%s: %s: item %r is not an octet literal" % (what, name, it))
                vals.append(int(it, 16))
            else:
                if not re.fullmatch(r"\d+", it):
                    raise Unhandled("%s: %s: item %r is not a decimal literal" % (what, name, it))
                vals.append(int(it))
        if n and int(n) < len(vals):
            raise Unhandled("%s: %s: %d items, declared %s" % (what, name, len(vals), n))
        if n:
            vals += [0] * (int(n) - len(vals))      # C zero-fills the missing initialisers
        if name in arr:
            raise Unhandled("%s: %s defined twice" % (what, name))
        arr[name] = (ty, vals)
    for m in re.finditer(r"static\s+(?:const\s+)?(octet|u16|u32|size_t)\s+(?:const\s+)?(\w+)\s*=\s*(\d+)\s*;", text):
        if m.group(2) in sca:
            raise Unhandled("%s: %s defined twice" % (what, m.group(2)))
        sca[m.group(2)] = (m.group(1), int(m.group(3)))
    for m in re.finditer(r"static\s+const\s+char\s+(\w+)\s*\[\s*\]\s*=\s*\"([0-9a-z.]+)\"\s*;", text):
        strs[m.group(1)] = m.group(2)
    return arr, sca, strs


def _norm(s):
    return re.sub(r"\s+", "", s)


def _body(text, fn, what):
    m = re.search(r"err_t\s+" + fn + r"\s*\([^)]*\)\s*\{(.*?)\n\}", text, flags=re.S)
    if not m:
        raise Unhandled("%s: %s not found" % (what, fn))
    return m.group(1)


def _branches(rest, what):
    """sequence of `if (strEq(name, SYM)) { BODY return ERR_OK; }` followed by `return ERR_FILE_NOT_FOUND;`"""
    br = re.compile(r"\s*if\s*\(\s*strEq\(name,\s*(\w+)\)\s*\)\s*\{(.*?)return\s+ERR_OK;\s*\}", re.S)
    pos, out = 0, []
    while True:
        b = br.match(rest, pos)
        if not b:
            break
        pos = b.end()
        out.append((b.group(1), b.group(2)))
    if not re.fullmatch(r"\s*return\s+ERR_FILE_NOT_FOUND;\s*", rest[pos:]):
        raise Unhandled("%s: unexpected epilogue %r" % (what, rest[pos:][:80]))
    return out


def le(v):
    return sum(b << (8 * i) for i, b in enumerate(v))


# ------------------------------------------------------------------ bign96
def parse_bign96(repo):
    what = "bign96.c"
    text = _read(repo, "src/crypto/bign96.c")
    arr, sca, strs = _tables(text, what)
    body = _body(text, "bign96ParamsStd", what)
    head = re.match(r"\s*if\s*\(\s*!memIsValid\(params,\s*sizeof\(bign_params\)\)\)\s*return\s+ERR_BAD_INPUT;", body)
    if not head:
        raise Unhandled("bign96ParamsStd: unexpected prologue")
    brs = _branches(body[head.end():], "bign96ParamsStd")
    if len(brs) != 1:
        raise Unhandled("bign96ParamsStd: expected one parameter set, got %d" % len(brs))
    sym, stm = brs[0]
    if sym not in strs:
        raise Unhandled("bign96ParamsStd: unknown name symbol " + sym)
    rec = {"name": strs[sym]}
    for s in [x.strip() for x in stm.split(";") if x.strip()]:
        m1 = re.fullmatch(r"params->l\s*=\s*(\d+)", s)
        m2 = re.fullmatch(r"memCopy\(params->(\w+),\s*(\w+),\s*(\d+)\)", s)
        if m1:
            rec["l"] = int(m1.group(1))
        elif m2:
            f, a, n = m2.group(1), m2.group(2), int(m2.group(3))
            if f not in ("p", "a", "seed", "b", "q", "yG") or a not in arr or not a.endswith("_" + f) or arr[a][0] != "octet":
                raise Unhandled("bign96ParamsStd: unexpected copy %r" % s)
            if n != len(arr[a][1]) or n != (8 if f == "seed" else 24) or f in rec:
                raise Unhandled("bign96ParamsStd: length / duplicate in %r" % s)
            rec[f] = arr[a][1]
        else:
            raise Unhandled("bign96ParamsStd: unknown statement %r" % s)
    if rec.get("l") != 96 or any(f not in rec for f in ("p", "a", "seed", "b", "q", "yG")):
        raise Unhandled("bign96ParamsStd: incomplete branch")
    return rec


# ------------------------------------------------------------------ g12s
G12_MACRO = ("(params)->l=_##name##_l;memCopy((params)->p,_##name##_p,sizeof(_##name##_p));"
             "memCopy((params)->a,_##name##_a,sizeof(_##name##_a));memCopy((params)->b,_##name##_b,sizeof(_##name##_b));"
             "memCopy((params)->q,_##name##_q,sizeof(_##name##_q));(params)->n=_##name##_n;"
             "memCopy((params)->xP,_##name##_xP,sizeof(_##name##_xP));memCopy((params)->yP,_##name##_yP,sizeof(_##name##_yP))")


def _macro(text, what):
    m = re.search(r"#define\s+_LOAD_NAMED_PARAMS\(params,\s*name\)((?:[^\n]*\\\n)*[^\n]*)\n", text)
    if not m:
        raise Unhandled("%s: _LOAD_NAMED_PARAMS not found" % what)
    return _norm(m.group(1).replace("\\\n", ""))


def parse_g12s(repo):
    what = "g12s.c"
    text = _read(repo, "src/crypto/g12s.c")
    arr, sca, strs = _tables(text, what)
    if _macro(text, what) != G12_MACRO:
        raise Unhandled("g12s.c: _LOAD_NAMED_PARAMS has an unexpected text")
    body = _body(text, "g12sParamsStd", what)
    head = re.match(r"\s*if\s*\(\s*!memIsValid\(params,\s*sizeof\(g12s_params\)\)\)\s*return\s+ERR_BAD_INPUT;\s*"
                    r"memSetZero\(params,\s*sizeof\(g12s_params\)\);", body)
    if not head:
        raise Unhandled("g12sParamsStd: unexpected prologue")
    out = []
    for sym, stm in _branches(body[head.end():], "g12sParamsStd"):
        m = re.fullmatch(r"\s*_LOAD_NAMED_PARAMS\(params,\s*(\w+)\);\s*", stm)
        if not m or sym != "_%s_name" % m.group(1) or sym not in strs:
            raise Unhandled("g12sParamsStd: unexpected branch %s %r" % (sym, stm[:60]))
        nm = m.group(1)
        rec = {"name": strs[sym], "sym": nm}
        for f in ("l", "n"):
            if "_%s_%s" % (nm, f) not in sca:
                raise Unhandled("g12s.c: _%s_%s missing" % (nm, f))
            rec[f] = sca["_%s_%s" % (nm, f)][1]
        for f, cap in (("p", 68), ("a", 68), ("b", 68), ("q", 64), ("xP", 68), ("yP", 68)):
            a = "_%s_%s" % (nm, f)
            if a not in arr or arr[a][0] != "octet" or len(arr[a][1]) > cap:
                raise Unhandled("g12s.c: table %s missing / too long" % a)
            rec[f] = arr[a][1] + [0] * (cap - len(arr[a][1]))
        if rec["l"] not in (256, 512):
            raise Unhandled("g12s.c: l = %d" % rec["l"])
        # no = memNonZeroSize(p, 68 * l / 512)
        lim = 68 * rec["l"] // 512
        no = lim
        while no and rec["p"][no - 1] == 0:
            no -= 1
        rec["no"] = no
        out.append(rec)
    if len(out) != 8:
        raise Unhandled("expected 8 g12s parameter sets, got %d" % len(out))
    return out


# ------------------------------------------------------------------ dstu
DSTU_MACRO = ("memCopy((params)->p,_##name##_p,sizeof(_##name##_p));(params)->A=_##name##_A;"
              "memCopy((params)->B,_##name##_B,sizeof(_##name##_B));memCopy((params)->n,_##name##_n,sizeof(_##name##_n));"
              "(params)->c=_##name##_c;")


def parse_dstu(repo):
    what = "dstu.c"
    text = _read(repo, "src/crypto/dstu.c")
    arr, sca, strs = _tables(text, what)
    if _macro(text, what) != DSTU_MACRO:
        raise Unhandled("dstu.c: _LOAD_NAMED_PARAMS has an unexpected text")
    body = _body(text, "dstuParamsStd", what)
    head = re.match(r"\s*if\s*\(\s*!memIsValid\(params,\s*sizeof\(dstu_params\)\)\)\s*return\s+ERR_BAD_INPUT;\s*"
                    r"memSetZero\(params,\s*sizeof\(dstu_params\)\);", body)
    if not head:
        raise Unhandled("dstuParamsStd: unexpected prologue")
    out = []
    for sym, stm in _branches(body[head.end():], "dstuParamsStd"):
        m = re.fullmatch(r"\s*_LOAD_NAMED_PARAMS\(params,\s*(\w+)\);\s*(?:memCopy\(params->P,\s*(\w+),\s*sizeof\((\w+)\)\);\s*)?", stm)
        if not m or sym != "_%s_name" % m.group(1) or sym not in strs:
            raise Unhandled("dstuParamsStd: unexpected branch %s %r" % (sym, stm[:80]))
        nm = m.group(1)
        rec = {"name": strs[sym], "sym": nm}
        pa = "_%s_p" % nm
        if pa not in arr or arr[pa][0] != "u16" or len(arr[pa][1]) != 4:
            raise Unhandled("dstu.c: %s" % pa)
        rec["poly"] = arr[pa][1]
        for f in ("A", "c"):
            if "_%s_%s" % (nm, f) not in sca:
                raise Unhandled("dstu.c: _%s_%s missing" % (nm, f))
            rec[f] = sca["_%s_%s" % (nm, f)][1]
        for f in ("B", "n"):
            a = "_%s_%s" % (nm, f)
            if a not in arr or arr[a][0] != "octet" or len(arr[a][1]) > 64:
                raise Unhandled("dstu.c: table %s" % a)
            rec[f] = arr[a][1] + [0] * (64 - len(arr[a][1]))
        rec["P"] = None
        if m.group(2):
            if m.group(2) != m.group(3) or m.group(2) != "_%s_P" % nm or m.group(2) not in arr:
                raise Unhandled("dstuParamsStd: base point copy of %s" % nm)
            rec["P"] = arr[m.group(2)][1]
        mm = rec["poly"][0]
        no = (mm + 7) // 8
        if not (160 <= mm <= 509) or any(rec["B"][no:]) or any(rec["n"][no:]) or (rec["P"] is not None and len(rec["P"]) != 2 * no):
            raise Unhandled("dstu.c: sizes of %s" % nm)
        out.append(rec)
    if len(out) != 10:
        raise Unhandled("expected 10 dstu parameter sets, got %d" % len(out))
    return out


# ------------------------------------------------------------------ pfok
def parse_pfok(repo):
    what = "pfok.c"
    text = _read(repo, "src/crypto/pfok.c")
    arr, sca, strs = _tables(text, what)
    body = _body(text, "pfokParamsStd", what)
    head = re.match(r"\s*if\s*\(\s*!memIsValid\(params,\s*sizeof\(pfok_params\)\)\s*\|\|\s*!memIsNullOrValid\(seed,\s*sizeof\(pfok_seed\)\)\)\s*"
                    r"return\s+ERR_BAD_INPUT;\s*memSetZero\(params,\s*sizeof\(pfok_params\)\);\s*if\s*\(seed\)\s*memSetZero\(seed,\s*sizeof\(pfok_seed\)\);",
                    body)
    if not head:
        raise Unhandled("pfokParamsStd: unexpected prologue")
    out = []
    for sym, stm in _branches(body[head.end():], "pfokParamsStd"):
        if sym not in strs:
            raise Unhandled("pfokParamsStd: unknown name symbol " + sym)
        # drop the seed block
        stm2 = re.sub(r"if\s*\(seed\)\s*\{[^}]*\}", "", stm)
        rec = {"name": strs[sym]}
        for s in [x.strip() for x in stm2.split(";") if x.strip()]:
            m1 = re.fullmatch(r"params->(l|r|n)\s*=\s*(\w+)", s)
            m2 = re.fullmatch(r"memCopy\(params->(p|g),\s*(\w+),\s*sizeof\((\w+)\)\)", s)
            if m1 and m1.group(2) in sca and m1.group(1) not in rec:
                rec[m1.group(1)] = sca[m1.group(2)][1]
            elif m2 and m2.group(2) == m2.group(3) and m2.group(2) in arr and arr[m2.group(2)][0] == "octet" \
                    and len(arr[m2.group(2)][1]) <= 368 and m2.group(1) not in rec:
                rec[m2.group(1)] = arr[m2.group(2)][1] + [0] * (368 - len(arr[m2.group(2)][1]))
            else:
                raise Unhandled("pfokParamsStd: unknown statement %r" % s)
        if any(f not in rec for f in ("l", "r", "n", "p", "g")):
            raise Unhandled("pfokParamsStd: incomplete branch " + sym)
        out.append(rec)
    if len(out) != 4:
        raise Unhandled("expected 4 pfok parameter sets, got %d" % len(out))
    # the table of admissible (l, r) pairs used by pfokParamsIsOperable
    for nm in ("_ls", "_rs"):
        if nm not in arr or arr[nm][0] != "size_t":
            raise Unhandled("pfok.c: table %s" % nm)
    if len(arr["_ls"][1]) != len(arr["_rs"][1]):
        raise Unhandled("pfok.c: _ls / _rs lengths")
    return out, list(zip(arr["_ls"][1], arr["_rs"][1]))


def parse(repo):
    pf, lr = parse_pfok(repo)
    return {"b96": parse_bign96(repo), "g12": parse_g12s(repo), "dstu": parse_dstu(repo), "pfok": pf, "pfok_lr": lr}


def generate(repo):
    d = parse(repo)
    o = ["/- GENERATED by xlate/x_c16.py from src/crypto/{bign96,g12s,dstu,pfok}.c — do not edit.",
         "   The fields of the params structures after bign96ParamsStd / g12sParamsStd / dstuParamsStd / pfokParamsStd",
         "   (numbers = little-endian value of the zero padded arrays). -/",
         "namespace Bee2V.Gen.C16Params", "",
         "structure B96 where", "  name : String", "  l : Nat", "  p : Nat", "  a : Nat", "  b : Nat", "  q : Nat", "  yG : Nat", "",
         "structure G12 where", "  name : String", "  l : Nat", "  n : Nat", "  no : Nat", "  p : Nat", "  a : Nat", "  b : Nat", "  q : Nat",
         "  xP : Nat", "  yP : Nat", "",
         "structure Dstu where", "  name : String", "  m : Nat", "  k1 : Nat", "  k2 : Nat", "  k3 : Nat", "  A : Nat", "  c : Nat", "  B : Nat",
         "  n : Nat", "",
         "structure Pfok where", "  name : String", "  l : Nat", "  r : Nat", "  n : Nat", "  p : Nat", "  g : Nat", ""]
    r = d["b96"]
    o.append("def b96 : B96 := ⟨\"%s\", %d, %d, %d, %d, %d, %d⟩" % (r["name"], r["l"], le(r["p"]), le(r["a"]), le(r["b"]), le(r["q"]), le(r["yG"])))
    o.append("")
    for i, r in enumerate(d["g12"]):
        no = r["no"]
        o.append("def g12_%d : G12 := ⟨\"%s\", %d, %d, %d, %d, %d, %d, %d, %d, %d⟩" % (
            i, r["name"], r["l"], r["n"], no, le(r["p"]), le(r["a"][:no]), le(r["b"][:no]), le(r["q"][:r["l"] // 8]), le(r["xP"][:no]), le(r["yP"][:no])))
    o.append("def g12 : Array G12 := #[%s]" % ", ".join("g12_%d" % i for i in range(len(d["g12"]))))
    o.append("")
    for i, r in enumerate(d["dstu"]):
        o.append("def dstu_%d : Dstu := ⟨\"%s\", %d, %d, %d, %d, %d, %d, %d, %d⟩" % (
            i, r["name"], r["poly"][0], r["poly"][1], r["poly"][2], r["poly"][3], r["A"], r["c"], le(r["B"]), le(r["n"])))
    o.append("def dstu : Array Dstu := #[%s]" % ", ".join("dstu_%d" % i for i in range(len(d["dstu"]))))
    o.append("")
    for i, r in enumerate(d["pfok"]):
        o.append("def pfok_%d : Pfok := ⟨\"%s\", %d, %d, %d, %d, %d⟩" % (i, r["name"], r["l"], r["r"], r["n"], le(r["p"]), le(r["g"])))
    o.append("def pfok : Array Pfok := #[%s]" % ", ".join("pfok_%d" % i for i in range(len(d["pfok"]))))
    o.append("")
    o.append("/-- the (l, r) table of pfokParamsIsOperable -/")
    o.append("def pfokLR : List (Nat × Nat) := [%s]" % ", ".join("(%d, %d)" % x for x in d["pfok_lr"]))
    o.append("")
    o.append("end Bee2V.Gen.C16Params")
    return "\n".join(o) + "\n"


if __name__ == "__main__":
    import sys
    print(generate(sys.argv[1] if len(sys.argv) > 1 else "/repo"))

"""C07 translators, shared part: load every translation unit of /repo/src with clang-14
(JSON AST, -DNDEBUG, after preprocessing), index the function definitions, and translate
C size expressions into a small IR that is rendered to Lean (and evaluated in Python).

Fail-closed: every AST shape that is not understood raises Unhandled; the caller records
`unhandled:<function>:<reason>` and produces no model for that function.

IR (tuples):
  ('lit', n) | ('var', name) | ('bin', op, a, b)  op in + - * / % << >>
  ('max', [e..]) | ('min', [e..]) | ('call', fname, [e..]) | ('vcall', fname, [fixed..], [varargs..])
  ('ite', c, a, b) | ('cmp', op, a, b) | ('and', a, b) | ('or', a, b) | ('not', a)
  ('sizeof', type string) | ('fpcall', var, [e..])   (call through a function-pointer parameter)
  ('nz', e)  (C truth value of a size/pointer expression used as a condition)

size_t is modelled as unbounded Nat (overflow is the business of C08/C09); `a - b` is Nat
truncated subtraction (differs from C only when the C expression wraps, which the value
correspondence sweep would show).
"""
import json, os, subprocess, sys, re
from concurrent.futures import ThreadPoolExecutor

REPO = os.environ.get("BEE2_REPO", "/repo")

WORDCFG = {"W64": (), "W32": ("-U__SIZEOF_INT128__",)}


class Unhandled(Exception):
    pass


def strip(n):
    while n["kind"] in ("ImplicitCastExpr", "ParenExpr", "ConstantExpr", "CStyleCastExpr"):
        n = n["inner"][0]
    return n


def strip_noncast(n):
    """drop parens and implicit casts only (explicit casts kept: they carry carve types)"""
    while n["kind"] in ("ImplicitCastExpr", "ParenExpr", "ConstantExpr"):
        n = n["inner"][0]
    return n


def walk(n):
    yield n
    for c in n.get("inner", []):
        yield from walk(c)


def src_files():
    """the translation units of the library: the `set(src ...)` list of src/CMakeLists.txt
    (platform files such as bash_f64.c are #included by bash_f.c, not compiled on their own)"""
    txt = open(os.path.join(REPO, "src", "CMakeLists.txt")).read()
    m = re.search(r"set\(src\s+(.*?)\)", txt, flags=re.S)
    if not m:
        raise Unhandled("src/CMakeLists.txt: set(src ...) not found")
    out = []
    for w in m.group(1).split():
        if not w.endswith(".c"):
            raise Unhandled("src/CMakeLists.txt: unexpected entry " + w)
        if not os.path.exists(os.path.join(REPO, "src", w)):
            raise Unhandled("src/CMakeLists.txt: missing file " + w)
        out.append("src/" + w)
    return sorted(out)


def _clang_json(args):
    p = subprocess.run(["clang-14", "-I%s/include" % REPO, "-I%s/src" % REPO, "-fsyntax-only",
                        "-Wno-everything", "-DNDEBUG"] + list(args), capture_output=True, text=True)
    if p.returncode != 0:
        raise Unhandled("clang failed: %s" % p.stderr[-400:])
    return p.stdout


CAP = 120 << 20      # JSON larger than this: fall back to name-filtered dumps (bash_f*.c expand to gigabytes)


def _run_capped(cmd, cap):
    """run, return stdout text or None if it exceeds `cap` bytes"""
    p = subprocess.Popen(cmd, stdout=subprocess.PIPE, stderr=subprocess.DEVNULL)
    chunks, n = [], 0
    while True:
        b = p.stdout.read(1 << 20)
        if not b:
            break
        chunks.append(b)
        n += len(b)
        if n > cap:
            p.kill()
            p.wait()
            return None
    p.wait()
    if p.returncode != 0:
        raise Unhandled("clang failed on %s" % cmd[-1])
    return b"".join(chunks).decode()


def _multi_json(s):
    dec = json.JSONDecoder()
    i, objs = 0, []
    while i < len(s):
        while i < len(s) and s[i].isspace():
            i += 1
        if i >= len(s):
            break
        o, i = dec.raw_decode(s, i)
        objs.append(o)
    return objs


def _load_tu(arg):
    rel, flags = arg
    base = ["clang-14", "-I%s/include" % REPO, "-I%s/src" % REPO, "-fsyntax-only", "-Wno-everything", "-DNDEBUG"] + list(flags)
    try:
        out = _run_capped(base + ["-Xclang", "-ast-dump=json", os.path.join(REPO, rel)], CAP)
        if out is None:
            tops = []
            for filt in ("_deep", "_keep"):
                o = _run_capped(base + ["-Xclang", "-ast-dump=json", "-Xclang", "-ast-dump-filter=" + filt, os.path.join(REPO, rel)], CAP)
                if o is None:
                    return rel, None, "AST too large even when filtered"
                tops += _multi_json(o)
            partial = True
        else:
            tops = json.loads(out).get("inner", [])
            partial = False
        del out
    except Unhandled as e:
        return rel, None, str(e)
    funcs = []
    for n in tops:
        if n.get("kind") == "FunctionDecl" and any(c["kind"] == "CompoundStmt" for c in n.get("inner", [])) and _wanted(n):
            funcs.append(_slim(n))
    del tops
    return rel, funcs, ("partial" if partial else None)


_INT = re.compile(r"^(const )?(size_t|unsigned long|unsigned int|int|word|u32|u64|u16|octet|bool_t|unsigned|long|unsigned long long)$")


def _wanted(n):
    """keep only what the C07 translators look at: size functions, functions with a `stack`
    parameter, functions that create blobs or lay out states (objEnd, blobCreate, memAlloc),
    and small pure integer helpers (candidates for calls from size functions)."""
    nm = n.get("name", "")
    if nm.endswith("_deep") or nm.endswith("_keep"):
        return True
    ps = [c for c in n.get("inner", []) if c["kind"] == "ParmVarDecl"]
    if any(p.get("name") in ("stack", "state") for p in ps):
        return True
    rt = n["type"]["qualType"].split("(")[0].strip()
    if _INT.match(rt) and all(_INT.match(p["type"].get("desugaredQualType", p["type"]["qualType"])) or
                              _INT.match(p["type"]["qualType"]) for p in ps):
        return True
    for c in walk(n):
        if c.get("kind") == "DeclRefExpr" and c.get("referencedDecl", {}).get("name") in ("blobCreate", "blobCreate2", "objEnd", "memAlloc"):
            return True
    return False


_DROP = ("range", "loc", "id", "mangledName", "isUsed", "isReferenced", "previousDecl", "referencedMemberDecl")


def _slim(n):
    o = {k: v for k, v in n.items() if k not in _DROP and k != "inner"}
    if "inner" in n:
        o["inner"] = [_slim(c) for c in n["inner"]]
    return o


class Func:
    def __init__(self, rel, node):
        self.file, self.node, self.name = rel, node, node["name"]
        self.static = node.get("storageClass") == "static"
        self.variadic = node["type"]["qualType"].rstrip(")").endswith("...")
        self.params = [(c.get("name", "_p%d" % i), c["type"]["qualType"], c["type"].get("desugaredQualType", c["type"]["qualType"]))
                       for i, c in enumerate(x for x in node.get("inner", []) if x["kind"] == "ParmVarDecl")]
        self.body = [c for c in node["inner"] if c["kind"] == "CompoundStmt"][0]


class Tree:
    """All function definitions of src/**/*.c for one word configuration."""

    def __init__(self, wcfg):
        self.wcfg = wcfg
        flags = WORDCFG[wcfg]
        files = src_files()
        self.files = files
        self.errors = []
        self.partial = []
        self.funcs = {}       # key -> Func ; key = name, or name@stem for a clashing static
        self.by_file = {}
        import multiprocessing
        with multiprocessing.get_context("fork").Pool(int(os.environ.get("C07_JOBS", "6")), maxtasksperchild=4) as pool:
            res = pool.map(_load_tu, [(f, flags) for f in files], chunksize=1)
        hdr_seen = {}
        for rel, funcs, err in res:
            if err == "partial":
                self.partial.append(rel)     # only *_deep/*_keep were read from this TU
            elif err:
                self.errors.append("%s: %s" % (rel, err))
                continue
            for node in funcs:
                fn = Func(rel, node)
                if fn.name in self.funcs:
                    old = self.funcs[fn.name]
                    if json.dumps(old.node, sort_keys=True) == json.dumps(node, sort_keys=True):
                        continue  # same inline function from a shared header
                    # two different definitions with one name (statics of two files): qualify both
                    self.funcs[fn.name + "@" + _stem(old.file)] = old
                    old.key = fn.name + "@" + _stem(old.file)
                    del self.funcs[fn.name]
                    hdr_seen[fn.name] = True
                if hdr_seen.get(fn.name):
                    fn.key = fn.name + "@" + _stem(rel)
                    if fn.key in self.funcs:
                        continue
                else:
                    fn.key = fn.name
                self.funcs[fn.key] = fn
                self.by_file.setdefault(rel, []).append(fn)
        self._sizeof = {}

    def lookup(self, name, from_file):
        """function called `name` from a function of file `from_file`"""
        if name in self.funcs:
            return self.funcs[name]
        k = name + "@" + _stem(from_file)
        if k in self.funcs:
            return self.funcs[k]
        return None

    # ---------------------------------------------------------------- sizeof
    def resolve_sizeofs(self, wanted):
        """wanted: set of (file, type string).  One extra clang run per file: an enum whose
        constants are sizeof(T) in the context of that TU; clang evaluates them."""
        todo = {}
        for f, t in wanted:
            if (f, t) not in self._sizeof:
                todo.setdefault(f, []).append(t)
        if not todo:
            return

        def one(item):
            f, ts = item
            ts = sorted(set(ts))
            text = '#include "%s"\n' % os.path.join(REPO, f)
            text += "enum c07_sz_ {\n" + "".join("  c07_sz_%d = sizeof(%s),\n" % (i, t) for i, t in enumerate(ts)) + "};\n"
            p = subprocess.run(["clang-14", "-I%s/include" % REPO, "-I%s/src" % REPO, "-I" + os.path.dirname(os.path.join(REPO, f)),
                                "-fsyntax-only", "-Wno-everything", "-DNDEBUG", *WORDCFG[self.wcfg], "-x", "c",
                                "-Xclang", "-ast-dump=json", "-Xclang", "-ast-dump-filter=c07_sz_", "-"],
                               input=text, capture_output=True, text=True)
            if p.returncode != 0:
                return f, ts, None, p.stderr[-300:]
            vals = {}
            dec = json.JSONDecoder()
            s, i = p.stdout, 0
            while i < len(s):
                while i < len(s) and s[i].isspace():
                    i += 1
                if i >= len(s):
                    break
                o, i = dec.raw_decode(s, i)
                for n in walk(o):
                    if n.get("kind") == "EnumConstantDecl" and n.get("name", "").startswith("c07_sz_") and n["name"][7:].isdigit():
                        for c in walk(n):
                            if c.get("kind") == "ConstantExpr" and "value" in c:
                                vals[int(n["name"][7:])] = int(c["value"])
            return f, ts, vals, None

        with ThreadPoolExecutor(max_workers=8) as ex:
            for f, ts, vals, err in ex.map(one, todo.items()):
                for i, t in enumerate(ts):
                    if vals is None or i not in vals:
                        self._sizeof[(f, t)] = None
                    else:
                        self._sizeof[(f, t)] = vals[i]

    def sizeof(self, f, t):
        return self._sizeof.get((f, t))


def _stem(rel):
    return os.path.splitext(os.path.basename(rel))[0]


# ------------------------------------------------------------------------ IR helpers
def lit(n):
    return ("lit", int(n))


def fold(e):
    """constant folding of literal sub-expressions (64/8 -> 8), nothing else"""
    k = e[0]
    if k == "bin":
        a, b = fold(e[2]), fold(e[3])
        if a[0] == "lit" and b[0] == "lit":
            x, y, op = a[1], b[1], e[1]
            if op == "+": return lit(x + y)
            if op == "*": return lit(x * y)
            if op == "-" and x >= y: return lit(x - y)
            if op == "/" and y: return lit(x // y)
            if op == "%" and y: return lit(x % y)
            if op == "<<": return lit(x << y)
            if op == ">>": return lit(x >> y)
        return ("bin", e[1], a, b)
    if k in ("max", "min"):
        return (k, [fold(x) for x in e[1]])
    if k == "call":
        return ("call", e[1], [fold(x) for x in e[2]])
    if k == "vcall":
        return ("vcall", e[1], [fold(x) for x in e[2]], [fold(x) for x in e[3]])
    if k == "fpcall":
        return ("fpcall", e[1], [fold(x) for x in e[2]])
    if k == "ite":
        return ("ite", fold(e[1]), fold(e[2]), fold(e[3]))
    if k == "cmp":
        return ("cmp", e[1], fold(e[2]), fold(e[3]))
    if k in ("and", "or"):
        return (k, fold(e[1]), fold(e[2]))
    if k in ("not", "nz"):
        return (k, fold(e[1]))
    return e


def subst(e, env):
    k = e[0]
    if k == "var":
        return env.get(e[1], e)
    if k == "bin":
        return ("bin", e[1], subst(e[2], env), subst(e[3], env))
    if k in ("max", "min"):
        return (k, [subst(x, env) for x in e[1]])
    if k == "call":
        return ("call", e[1], [subst(x, env) for x in e[2]])
    if k == "vcall":
        return ("vcall", e[1], [subst(x, env) for x in e[2]], [subst(x, env) for x in e[3]])
    if k == "fpcall":
        v = env.get(e[1])
        if v is not None and v[0] != "var":
            raise Unhandled("function-pointer variable substituted by a non-variable")
        return ("fpcall", v[1] if v else e[1], [subst(x, env) for x in e[2]])
    if k == "ite":
        return ("ite", subst(e[1], env), subst(e[2], env), subst(e[3], env))
    if k == "cmp":
        return ("cmp", e[1], subst(e[2], env), subst(e[3], env))
    if k in ("and", "or"):
        return (k, subst(e[1], env), subst(e[2], env))
    if k in ("not", "nz"):
        return (k, subst(e[1], env))
    return e


def free_vars(e, acc=None):
    acc = set() if acc is None else acc
    k = e[0]
    if k == "var":
        acc.add(e[1])
    elif k == "fpcall":
        acc.add(e[1])
        for x in e[2]: free_vars(x, acc)
    elif k == "bin":
        free_vars(e[2], acc); free_vars(e[3], acc)
    elif k in ("max", "min"):
        for x in e[1]: free_vars(x, acc)
    elif k == "call":
        for x in e[2]: free_vars(x, acc)
    elif k == "vcall":
        for x in e[2] + e[3]: free_vars(x, acc)
    elif k == "ite":
        for x in e[1:]: free_vars(x, acc)
    elif k == "cmp":
        free_vars(e[2], acc); free_vars(e[3], acc)
    elif k in ("and", "or"):
        free_vars(e[1], acc); free_vars(e[2], acc)
    elif k in ("not", "nz"):
        free_vars(e[1], acc)
    return acc


def calls_of(e, acc=None):
    acc = set() if acc is None else acc
    k = e[0]
    if k in ("call", "vcall"):
        acc.add(e[1][5:] if e[1].startswith("some ") else e[1])
    for x in e[1:]:
        if isinstance(x, tuple):
            calls_of(x, acc)
        elif isinstance(x, list):
            for y in x:
                if isinstance(y, tuple):
                    calls_of(y, acc)
    return acc


LEAN_KEYWORDS = {"from", "to", "at", "in", "do", "end", "then", "else", "if", "let", "fun", "with", "by", "have",
                 "show", "open", "def", "deep", "max", "min", "type", "Type", "prefix", "local", "where", "mod", "div"}


def lname(v):
    v = v.replace("->", "_").replace(".", "_").replace("[", "_").replace("]", "")
    if v in LEAN_KEYWORDS:
        return v + "'"
    return v


def lean_fn(key):
    return key.replace("@", "_at_")


_LOP = {"+": "+", "-": "-", "*": "*", "/": "/", "%": "%", "<<": "<<<", ">>": ">>>"}
_CMP = {"==": "==", "!=": "!=", "<": "<", "<=": "≤", ">": ">", ">=": "≥"}


def to_lean(e):
    k = e[0]
    if k == "lit":
        return str(e[1])
    if k == "var":
        return lname(e[1])
    if k == "bin":
        return "(%s %s %s)" % (to_lean(e[2]), _LOP[e[1]], to_lean(e[3]))
    if k in ("max", "min"):
        xs = e[1]
        s = to_lean(xs[-1])
        for x in reversed(xs[:-1]):
            s = "(%s %s %s)" % (k, to_lean(x), s)
        return s
    if k == "call":
        if e[1].startswith("some "):
            return "(some %s)" % lean_fn(e[1][5:])
        if not e[2]:
            return lean_fn(e[1])
        return "(%s %s)" % (lean_fn(e[1]), " ".join(to_lean(x) for x in e[2]))
    if k == "vcall":
        return "(%s %s [%s])" % (lean_fn(e[1]), " ".join(to_lean(x) for x in e[2]), ", ".join(to_lean(x) for x in e[3]))
    if k == "fpcall":
        return "(%s %s)" % (lname(e[1]), " ".join(to_lean(x) for x in e[2]))
    if k == "ite":
        return "(if %s then %s else %s)" % (to_lean_cond(e[1]), to_lean(e[2]), to_lean(e[3]))
    if k in ("cmp", "and", "or", "not", "nz"):
        return "(if %s then 1 else 0)" % to_lean_cond(e)
    raise Unhandled("render " + k)


def to_lean_cond(e):
    k = e[0]
    if k == "cmp":
        op = e[1]
        if op == "==":
            return "(%s = %s)" % (to_lean(e[2]), to_lean(e[3]))
        if op == "!=":
            return "(%s ≠ %s)" % (to_lean(e[2]), to_lean(e[3]))
        return "(%s %s %s)" % (to_lean(e[2]), _CMP[op], to_lean(e[3]))
    if k == "and":
        return "(%s ∧ %s)" % (to_lean_cond(e[1]), to_lean_cond(e[2]))
    if k == "or":
        return "(%s ∨ %s)" % (to_lean_cond(e[1]), to_lean_cond(e[2]))
    if k == "not":
        return "(¬ %s)" % to_lean_cond(e[1])
    if k == "nz":
        return "(%s ≠ 0)" % to_lean(e[1])
    return "(%s ≠ 0)" % to_lean(e)


# --------------------------------------------------------------- C expression -> IR
class ExprTr:
    """Translate a C size expression.  `resolve(node)` is asked first for DeclRefExpr /
    MemberExpr leaves (returns IR or None); `file` is used for sizeof resolution (deferred:
    ('sizeof', type) nodes are replaced by literals in `finish`)."""

    def __init__(self, tree, file, resolve):
        self.tree, self.file, self.resolve = tree, file, resolve
        self.sizeofs = set()

    def expr(self, n):
        n = strip(n)
        k = n["kind"]
        if k == "IntegerLiteral":
            return lit(n["value"])
        if k == "CharacterLiteral":
            return lit(n["value"])
        if k in ("DeclRefExpr", "MemberExpr"):
            r = self.resolve(n)
            if r is None:
                raise Unhandled("reference %s" % (n.get("name") or n.get("referencedDecl", {}).get("name")))
            return r
        if k == "UnaryExprOrTypeTraitExpr":
            if n.get("name") != "sizeof":
                raise Unhandled("type trait " + n.get("name", "?"))
            if "argType" in n:
                t = n["argType"]["qualType"]
            else:
                t = strip(n["inner"][0])["type"]["qualType"]
            t = t.replace("const ", "").strip()
            if "[" in t or "(" in t:
                # array types etc.: let clang evaluate `sizeof(T)` for a typedef-free spelling is
                # not possible in general -> only plain spellings are accepted
                m = re.fullmatch(r"([\w ]+?) ?\[(\d+)\]", t)
                if not m:
                    raise Unhandled("sizeof(%s)" % t)
                self.sizeofs.add((self.file, m.group(1)))
                return ("bin", "*", ("sizeof", m.group(1)), lit(m.group(2)))
            self.sizeofs.add((self.file, t))
            return ("sizeof", t)
        if k == "BinaryOperator":
            op = n["opcode"]
            a, b = n["inner"]
            if op in _LOP:
                return ("bin", op, self.expr(a), self.expr(b))
            if op in _CMP:
                return ("cmp", op, self.expr(a), self.expr(b))
            if op == "&&":
                return ("and", self.cond(a), self.cond(b))
            if op == "||":
                return ("or", self.cond(a), self.cond(b))
            raise Unhandled("operator " + op)
        if k == "UnaryOperator":
            if n["opcode"] == "!":
                return ("not", self.cond(n["inner"][0]))
            raise Unhandled("unary " + n["opcode"])
        if k == "ConditionalOperator":
            c, a, b = n["inner"]
            return ("ite", self.cond(c), self.expr(a), self.expr(b))
        if k == "CallExpr":
            return self.call(n)
        raise Unhandled("expression " + k)

    def cond(self, n):
        e = self.expr(n)
        if e[0] in ("cmp", "and", "or", "not"):
            return e
        return ("nz", e)

    def call(self, n):
        callee = strip(n["inner"][0])
        args = n["inner"][1:]
        if callee["kind"] != "DeclRefExpr":
            raise Unhandled("indirect call in size expression")
        rd = callee["referencedDecl"]
        nm = rd["name"]
        if rd["kind"] in ("ParmVarDecl", "VarDecl"):
            return ("fpcall", nm, [self.expr(a) for a in args])
        if nm in ("utilMax", "utilMin"):
            cnt = self.expr(args[0])
            cnt = fold(cnt)
            if cnt[0] != "lit" or cnt[1] != len(args) - 1 or cnt[1] < 1:
                raise Unhandled("%s: count %s does not match %d arguments" % (nm, cnt, len(args) - 1))
            return ("max" if nm == "utilMax" else "min", [self.expr(a) for a in args[1:]])
        fn = self.tree.lookup(nm, self.file)
        if fn is None:
            raise Unhandled("call of %s (no definition in src/)" % nm)
        if fn.variadic:
            nfix = len(fn.params)
            return ("vcall", fn.key, [self.expr(a) for a in args[:nfix]], [self.expr(a) for a in args[nfix:]])
        return ("call", fn.key, [self.expr(a) for a in args])

    def finish(self, e):
        """replace ('sizeof', T) by the literal clang computed"""
        def go(e):
            if e[0] == "sizeof":
                v = self.tree.sizeof(self.file, e[1])
                if v is None:
                    raise Unhandled("sizeof(%s) not resolved" % e[1])
                return lit(v)
            return tuple(go(x) if isinstance(x, tuple) else ([go(y) if isinstance(y, tuple) else y for y in x] if isinstance(x, list) else x) for x in e)
        return fold(go(e))

#!/usr/bin/env python3
"""Translator for C18: shared-variable access table of src/core/rng.c and mt.c:mtCallOnce.

For each function it lists, in source order, every access to the file-scope variables
(_once, _inited, _mtx, _ctr, _state), to the contents of the generator state (any call that
receives `_state->...`/`_state`: location `gen`) and, in mtCallOnce, to `*once`, each with
  (location, write?, atomic?, mutex-held?)
`atomic` = the access is made through mtAtomicCmpSwap/mtAtomicIncr/mtAtomicDecr;
`mutex-held` is computed by a structured walk (mtMtxLock(_mtx) / mtMtxUnlock(_mtx); a branch
that ends in `return` does not influence the fall-through state).
Fail-closed: an AST shape that is not understood raises Unhandled.

Output: Lean `Bee2V.Gen.C18` with `def table : List (String × List AccRec)`; the hand-written
interleaving model has to reproduce this table exactly (theorem `table_matches`, by `decide`).
"""
import sys, os
sys.path.insert(0, os.path.dirname(__file__))
from clangast import *

EXTRA = ("-DNDEBUG",)
STATICS = {"_once": "once", "_inited": "inited", "_mtx": "mtx", "_ctr": "ctr", "_state": "state"}
ATOMICS = {"mtAtomicCmpSwap", "mtAtomicIncr", "mtAtomicDecr"}
FUNCS = [("src/core/mt.c", "mtCallOnce"), ("src/core/rng.c", "rngInit"), ("src/core/rng.c", "rngCreate"),
         ("src/core/rng.c", "rngIsValid_internal"), ("src/core/rng.c", "rngIsValid"), ("src/core/rng.c", "rngClose"),
         ("src/core/rng.c", "rngStepR2"), ("src/core/rng.c", "rngStepR"), ("src/core/rng.c", "rngRekey")]
# functions of rng.c that touch the shared variables but run single-threaded at exit time
EXIT_ONLY = {"rngDestroy"}


class W:
    def __init__(self, fname):
        self.fname = fname
        self.acc = []
        self.calls = []      # (callee or '<indirect:name>', mutex held) for x_c18_statics.py
        self.locked = False

    def emit(self, loc, write, atomic):
        self.acc.append((loc, write, atomic, self.locked))

    def var_of(self, n):
        """shared location named by an lvalue expression, or None"""
        n = strip(n)
        if n["kind"] == "DeclRefExpr":
            nm = n["referencedDecl"]["name"]
            if nm in STATICS:
                return STATICS[nm]
            if self.fname == "mtCallOnce" and nm == "once":
                return "oncePtr"
            return None
        if n["kind"] == "UnaryOperator" and n["opcode"] == "*":
            v = self.var_of(n["inner"][0])
            if v == "oncePtr":
                return "once"
            return None
        if n["kind"] == "UnaryOperator" and n["opcode"] == "&":
            v = self.var_of(n["inner"][0])
            return v
        return None

    def mentions_state(self, n):
        for x in walk(n):
            if x.get("kind") == "DeclRefExpr" and x["referencedDecl"]["name"] == "_state":
                return True
        return False

    def expr(self, n):
        """evaluate an expression for its shared accesses (reads unless stated)"""
        n0 = n
        n = strip(n)
        k = n["kind"]
        if k == "CallExpr":
            callee = strip(n["inner"][0])
            name = callee.get("referencedDecl", {}).get("name") if callee["kind"] == "DeclRefExpr" else None
            args = n["inner"][1:]
            if callee["kind"] == "DeclRefExpr" and callee.get("referencedDecl", {}).get("kind") != "FunctionDecl":
                self.calls.append(("<indirect:%s>" % name, self.locked))
            elif name is None:
                self.calls.append(("<indirect:?>", self.locked))
            elif name not in ATOMICS and name not in ("mtMtxLock", "mtMtxUnlock"):
                self.calls.append((name, self.locked))
            if name in ATOMICS:
                v = self.var_of(args[0])
                if v == "oncePtr":
                    v = "once"
                if v is None:
                    raise Unhandled("%s: atomic op on unknown location" % self.fname)
                for a in args[1:]:
                    self.expr(a)
                self.emit(v, True, True)
                return
            if name in ("mtMtxLock", "mtMtxUnlock", "mtMtxCreate", "mtMtxClose"):
                v = self.var_of(args[0])
                if v != "mtx":
                    raise Unhandled("%s: %s on something else than _mtx" % (self.fname, name))
                if name == "mtMtxLock":
                    if self.locked:
                        raise Unhandled("%s: lock while locked" % self.fname)
                    self.emit("mtx", False, False)   # the lock operation reads the mutex object
                    self.locked = True
                elif name == "mtMtxUnlock":
                    if not self.locked:
                        raise Unhandled("%s: unlock while not locked" % self.fname)
                    self.locked = False
                else:
                    self.emit("mtx", True, False)     # create / destroy write the mutex object
                return
            if name == "mtCallOnce":
                for a in args:
                    if self.var_of(a) not in ("once", None):
                        raise Unhandled("mtCallOnce on unexpected trigger")
                self.acc.append(("CALL", "mtCallOnce", False, self.locked))
                return
            if name == "rngIsValid_internal":
                self.acc.append(("CALL", "rngIsValid_internal", False, self.locked))
                return
            if callee["kind"] == "DeclRefExpr" and name == "fn" and self.fname == "mtCallOnce":
                self.acc.append(("CALL", "fn", False, self.locked))
                return
            # any other call: arguments mentioning _state => read of the pointer + read/write of the contents
            touched = False
            for a in args:
                if self.mentions_state(a):
                    touched = True
                else:
                    self.expr(a)
            if touched:
                self.emit("state", False, False)
                self.emit("gen", True, False)
            # a callee that is itself one of the shared-variable functions would hide accesses
            if name in [f for _, f in FUNCS] or name in EXIT_ONLY:
                raise Unhandled("%s calls %s" % (self.fname, name))
            return
        if k == "BinaryOperator":
            op = n["opcode"]
            if op == "=":
                v = self.var_of(n["inner"][0])
                self.expr(n["inner"][1])
                if v in ("oncePtr",):
                    raise Unhandled("assignment to the pointer `once`")
                if v is not None:
                    self.emit(v, True, False)
                else:
                    self.lhs_reads(n["inner"][0])
                return
            if op == ",":
                self.expr(n["inner"][0]); self.expr(n["inner"][1]); return
            self.expr(n["inner"][0]); self.expr(n["inner"][1]); return
        if k == "CompoundAssignOperator":
            v = self.var_of(n["inner"][0])
            self.expr(n["inner"][1])
            if v is not None:
                self.emit(v, False, False); self.emit(v, True, False)
            else:
                self.lhs_reads(n["inner"][0])
            return
        if k == "UnaryOperator":
            op = n["opcode"]
            if op in ("++", "--"):
                v = self.var_of(n["inner"][0])
                if v is not None:
                    self.emit(v, False, False); self.emit(v, True, False)
                else:
                    self.lhs_reads(n["inner"][0])
                return
            if op == "*":
                v = self.var_of(n)
                if v is not None:
                    self.emit(v, False, False); return
            if op == "&":
                v = self.var_of(n["inner"][0])
                if v is not None:
                    raise Unhandled("%s: address of shared variable %s escapes" % (self.fname, v))
            self.expr(n["inner"][0]); return
        if k == "DeclRefExpr":
            v = self.var_of(n)
            if v == "oncePtr":
                return
            if v is not None:
                self.emit(v, False, False)
            return
        if k == "MemberExpr":
            if self.mentions_state(n):
                self.emit("state", False, False)
                self.emit("gen", False, False)
                return
            self.expr(n["inner"][0]); return
        if k in ("IntegerLiteral", "StringLiteral", "CharacterLiteral", "UnaryExprOrTypeTraitExpr", "InitListExpr", "FloatingLiteral"):
            for c in n.get("inner", []):
                if c.get("kind", "").endswith("Expr") or c.get("kind", "").endswith("Operator"):
                    self.expr(c)
            return
        if k in ("ConditionalOperator", "ArraySubscriptExpr"):
            for c in n["inner"]:
                self.expr(c)
            return
        raise Unhandled("%s: expression %s" % (self.fname, k))

    def lhs_reads(self, n):
        n = strip(n)
        if n["kind"] in ("ArraySubscriptExpr", "MemberExpr", "UnaryOperator"):
            if self.mentions_state(n):
                self.emit("state", False, False); self.emit("gen", True, False); return
            for c in n.get("inner", []):
                self.expr(c)

    def stmt(self, n):
        """returns True if the statement always terminates the function (return)"""
        k = n["kind"]
        if k == "CompoundStmt":
            for c in n.get("inner", []):
                if self.stmt(c):
                    return True
            return False
        if k == "ReturnStmt":
            for c in n.get("inner", []):
                self.expr(c)
            if self.locked:
                raise Unhandled("%s: return with the mutex held" % self.fname)
            return True
        if k == "IfStmt":
            inner = n["inner"]
            self.expr(inner[0])
            l0 = self.locked
            t_ret = self.stmt(inner[1])
            l1 = self.locked
            if len(inner) > 2:
                self.locked = l0
                e_ret = self.stmt(inner[2])
                l2 = self.locked
            else:
                e_ret, l2 = False, l0
            if t_ret and e_ret:
                return True
            if t_ret:
                self.locked = l2
            elif e_ret:
                self.locked = l1
            else:
                if l1 != l2:
                    raise Unhandled("%s: branches disagree on the mutex" % self.fname)
                self.locked = l1
            return False
        if k in ("WhileStmt", "DoStmt", "ForStmt"):
            l0 = self.locked
            for c in n.get("inner", []):
                if not c or c.get("kind") is None:
                    continue
                if c["kind"].endswith("Stmt") and c["kind"] not in ("DeclStmt",):
                    self.stmt(c)
                elif c["kind"] == "DeclStmt":
                    self.stmt(c)
                else:
                    self.expr(c)
            if self.locked != l0:
                raise Unhandled("%s: loop changes the mutex state" % self.fname)
            return False
        if k == "DeclStmt":
            for d in n.get("inner", []):
                for c in d.get("inner", []):
                    if "kind" in c and (c["kind"].endswith("Expr") or c["kind"].endswith("Operator")):
                        self.expr(c)
            return False
        if k in ("NullStmt", "BreakStmt", "ContinueStmt"):
            return False
        if k.endswith("Expr") or k.endswith("Operator"):
            self.expr(n)
            return False
        raise Unhandled("%s: statement %s" % (self.fname, k))


def extract():
    out = []
    for src, f in FUNCS:
        fn, body = tu_function(src, f, EXTRA)
        w = W(f)
        w.stmt(body)
        if w.locked:
            raise Unhandled("%s ends with the mutex held" % f)
        out.append((f, w.acc))
    # no other function of rng.c may touch the shared variables
    tu = tu_ast("src/core/rng.c", EXTRA)
    known = {f for _, f in FUNCS} | EXIT_ONLY
    for n in tu.get("inner", []):
        if n.get("kind") == "FunctionDecl" and n.get("name") not in known and n.get("loc", {}).get("includedFrom") is None:
            for x in walk(n):
                if x.get("kind") == "DeclRefExpr" and x["referencedDecl"]["name"] in STATICS:
                    raise Unhandled("function %s touches %s" % (n.get("name"), x["referencedDecl"]["name"]))
    return out


def generate():
    tab = extract()
    L = ["-- GENERATED by xlate/x_c18_access.py from src/core/rng.c and src/core/mt.c — do not edit.",
         "import Bee2V.C18.Types", "namespace Bee2V.Gen.C18", "open Bee2V.C18", "",
         "/-- per function: shared accesses in source order (location, write, atomic, mutex held);",
         "    `call` entries mark calls to other listed functions -/",
         "def table : List (String × List AccRec) := ["]
    rows = []
    for f, acc in tab:
        items = []
        for loc, wr, at, lk in acc:
            if loc == "CALL":
                items.append(".call \"%s\" %s" % (wr, "true" if lk else "false"))
            else:
                items.append(".acc .%s %s %s %s" % (loc, "true" if wr else "false", "true" if at else "false", "true" if lk else "false"))
        rows.append("  (\"%s\", [\n    %s])" % (f, ",\n    ".join(items)))
    L.append(",\n".join(rows))
    L.append("]")
    L.append("\nend Bee2V.Gen.C18")
    return "\n".join(L) + "\n"


if __name__ == "__main__":
    sys.stdout.write(generate())

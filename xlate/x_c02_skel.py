"""Translator of property C02 (structure): the guard skeleton of the bign functions -> Bee2V/Gen/C02Skel.lean.

For every `err_t bign*` function of bign_misc.c / bign_sign.c / bign_keyt.c / bign_ibs.c the body is scanned left to
right (comments removed) and reduced to the ordered list of events
    guard tag code   `if (COND) { blobClose(state); return ERR_X; }`  or  `if (COND) return ERR_X;`
    branch tag       any other `if (COND)` (the statement does not leave the function)
    call f           a call of a watched routine (ecMulA, ecAddMulA, beltKWPStepE, beltKWPStepD2, beltWBLStepE,
                     beltHashStepG, beltHashStepG2, beltHashStepV2), also inside a condition (emitted before the guard)
    setcode code     `code = ERR_X;`
    setfinal code    `code = EXPR ? ERR_OK : ERR_X;`
Conditions are identified by their EXACT text (white space normalised) through the table COND below: an unknown
condition, an unknown `code = ...` statement or an unknown function raises Unhandled (fail-closed), so that any edit
of a check is noticed.  The obligations about the event lists are theorems of Bee2V/C02/PropsSkel.lean.
"""
import os, re


class Unhandled(Exception):
    pass


FILES = ["src/crypto/bign/bign_misc.c", "src/crypto/bign/bign_sign.c", "src/crypto/bign/bign_keyt.c", "src/crypto/bign/bign_ibs.c"]
FUNS = {"bignKeypairGen": "keypairGen", "bignKeypairVal": "keypairVal", "bignPubkeyVal": "pubkeyVal", "bignPubkeyCalc": "pubkeyCalc",
        "bignDH": "dh", "bignSign": "sign", "bignSign2": "sign2", "bignVerify": "verify", "bignKeyWrap": "keyWrap",
        "bignKeyUnwrap": "keyUnwrap", "bignIdExtract": "idExtract", "bignIdSign": "idSign", "bignIdSign2": "idSign2",
        "bignIdVerify": "idVerify"}
SKIP = {"bignOidToDER"}
CALLS = {"ecMulA": "ecMulA", "ecAddMulA": "ecAddMulA", "beltKWPStepE": "kwpE", "beltKWPStepD2": "kwpD2", "beltWBLStepE": "wblE",
         "beltHashStepG": "hashG", "beltHashStepG2": "hashG2", "beltHashStepV2": "hashV2"}
MEM = "memArgs"
COND = {
    "!memIsValid(params, sizeof(bign_params))": "memParams",
    "!bignIsOperable(params)": "operable",
    "oid_len == SIZE_MAX || oidFromDER(0, oid_der, oid_len) == SIZE_MAX": "oid",
    "rng == 0": "rngNull",
    "state == 0": "state0",
    "!memIsNullOrValid(t, t_len)": "tValid",
    "!memIsValid(hash, no) || !memIsValid(privkey, no) || !memIsValid(sig, no + no / 2) || !memIsDisjoint2(hash, no, sig, no + no / 2)": MEM,
    "!memIsValid(hash, no) || !memIsValid(sig, no + no / 2) || !memIsValid(pubkey, 2 * no)": MEM,
    "!memIsValid(id_hash, no) || !memIsValid(hash, no) || !memIsValid(id_privkey, no) || !memIsValid(id_sig, no + no / 2)": MEM,
    "!memIsValid(id_hash, no) || !memIsValid(hash, no) || !memIsValid(id_sig, no + no / 2) || !memIsValid(id_pubkey, 2 * no) || !memIsValid(pubkey, 2 * no)": MEM,
    "!memIsValid(id_hash, no) || !memIsValid(sig, no + no / 2) || !memIsValid(pubkey, 2 * no) || !memIsValid(id_privkey, no) || !memIsValid(id_pubkey, 2 * no)": MEM,
    "!memIsValid(privkey, no) || !memIsValid(key, len - 16 - no)": MEM,
    "!memIsValid(privkey, no) || !memIsValid(pubkey, 2 * no)": MEM,
    "!memIsValid(privkey, no) || !memIsValid(pubkey, 2 * no) || !memIsValid(key, key_len)": MEM,
    "!memIsValid(pubkey, 2 * no)": MEM,
    "!memIsValid(pubkey, 2 * no) || !memIsValid(token, 16 + no + len)": MEM,
    "!memIsValid(token, len) || !memIsNullOrValid(header, 16)": MEM,
    "len < 16 || !memIsValid(key, len) || !memIsNullOrValid(header, 16)": "keyLen",
    "wwIsZero(d, n) || wwCmp(d, ec->order, n) >= 0": "privRange",
    "wwIsZero(d, n) || wwCmp(d, Q, n) >= 0": "privRange",
    "wwCmp(e, ec->order, n) >= 0": "idPrivRange",
    "!zzRandNZMod(d, ec->order, n, rng, rng_state)": "randFail",
    "!zzRandNZMod(k, ec->order, n, rng, rng_state)": "randFail",
    "!ecMulA(R, R, ec, d, n, stack)": "mulFail",
    "!ecMulA(R, R, ec, k, n, stack)": "mulFail",
    "!ecMulA(R, ec->base, ec, k, n, stack)": "mulFail",
    "!ecMulA(V, ec->base, ec, k, n, stack)": "mulFail",
    "ecMulA(Q, Q, ec, d, n, stack)": "mulOk",
    "ecMulA(Q, ec->base, ec, d, n, stack)": "mulOk",
    "!ecAddMulA(R, ec, stack, 2, ec->base, s1, n, Q, s0, n / 2 + 1)": "addMulFail",
    "!ecAddMulA(V, ec, stack, 3, ec->base, s1, n, R, s0, n / 2 + 1, Q, t1, n)": "addMulFail",
    "!qrFrom(ecX(Q), pubkey, ec->f, stack) || !qrFrom(ecY(Q, n), pubkey + no, ec->f, stack) || !ecpIsOnA(Q, ec, stack)": "pubOnCurve",
    "!qrFrom(ecX(R), pubkey, ec->f, stack) || !qrFrom(ecY(R, n), pubkey + no, ec->f, stack) || !ecpIsOnA(R, ec, stack)": "pubOnCurve",
    "!qrFrom(ecX(R), id_pubkey, ec->f, stack) || !qrFrom(ecY(R, n), id_pubkey + no, ec->f, stack) || !ecpIsOnA(R, ec, stack)": "idPubOnCurve",
    "!qrFrom(ecX(Q), pubkey, ec->f, stack) || !qrFrom(ecY(Q, n), pubkey + no, ec->f, stack)": "pubRange",
    "!qrFrom(R, token, ec->f, stack)": "tokX",
    "!wwEq(t1, t2, n)": "rootCheck",
    "len < 32 + no": "tokLen",
    "key_len > 2 * no": "dhLen",
    "wwCmp(s1, ec->order, n) >= 0": "s1Range",
    # control flow that is not a check
    "wwCmp(H, ec->order, n) >= 0": "redH",
    "wwCmp(k, ec->order, n) >= 0": "redK",
    "wwCmp(t, ec->order, n) >= 0": "redT",
    "!wwIsZero(k, n) && wwCmp(k, ec->order, n) < 0": "nonceExit",
    "header": "hdrNonNull",
    "t != 0": "tNonNull",
    "key_len > no": "keyLenGtNo",
    "5 * no >= 64": "layout",
    "beltHashStepV2(sig, no / 2, stack)": "hashOk",
    # checks at the very end of a function (set the code, nothing follows)
    "!memEq(Q, pubkey, 2 * no)": "pubEq",
    "!memEq(header1, header2, 16)": "hdrEq",
}
TAGS = ["memParams", "operable", "oid", "rngNull", "state0", "tValid", "memArgs", "keyLen", "privRange", "idPrivRange", "randFail", "mulFail",
        "mulOk", "addMulFail", "pubOnCurve", "idPubOnCurve", "pubRange", "tokX", "rootCheck", "tokLen", "dhLen", "s1Range", "redH", "redK",
        "redT", "nonceExit", "hdrNonNull", "tNonNull", "keyLenGtNo", "layout", "hashOk", "pubEq", "hdrEq", "startFail"]


def strip(t):
    t = re.sub(r"/\*.*?\*/", " ", t, flags=re.S)
    return re.sub(r"//[^\n]*", " ", t)


def norm(t):
    return " ".join(t.split())


def match_close(t, i, op, cl):
    """t[i-1] is the opening bracket; index just after the matching closing one"""
    depth = 1
    while depth:
        if i >= len(t):
            raise Unhandled("unbalanced brackets")
        c = t[i]
        depth += (c == op) - (c == cl)
        i += 1
    return i


def err_codes(repo):
    t = open(os.path.join(repo, "include/bee2/core/err.h"), encoding="utf-8", errors="replace").read()
    d = {m.group(1): int(m.group(2)) for m in re.finditer(r"#define\s+(ERR_\w+)\s+_ERR_REG\((\d+)\)", t)}
    d["ERR_OK"] = 0
    return d


def functions(repo):
    out = []
    for f in FILES:
        t = strip(open(os.path.join(repo, f), encoding="utf-8", errors="replace").read())
        for m in re.finditer(r"^err_t\s+(\w+)\s*\(", t, flags=re.M):
            name = m.group(1)
            j = match_close(t, m.end(), "(", ")")
            k = t.index("{", j)
            if t[j:k].strip():
                continue            # a declaration
            e = match_close(t, k + 1, "{", "}")
            if name in SKIP:
                continue
            if name not in FUNS:
                raise Unhandled("unknown function %s in %s" % (name, f))
            out.append((name, t[k + 1:e - 1]))
    if sorted(n for n, _ in out) != sorted(FUNS):
        raise Unhandled("function set changed: %s" % sorted(n for n, _ in out))
    return out


NEXT = re.compile(r"\bif\s*\(|\bERR_CALL_HANDLE\s*\(|\bcode\s*=(?!=)|\b(" + "|".join(CALLS) + r")\s*\(")


def calls_in(text):
    return [("call", CALLS[m.group(1)]) for m in re.finditer(r"\b(" + "|".join(CALLS) + r")\s*\(", text)]


def events(body, codes):
    ev, i = [], 0
    while True:
        m = NEXT.search(body, i)
        if not m:
            break
        tok = m.group(0)
        if tok.startswith("if"):
            j = match_close(body, m.end(), "(", ")")
            cond = norm(body[m.end():j - 1])
            if cond not in COND:
                raise Unhandled("unknown condition %r" % cond)
            ev += calls_in(cond)
            rest = body[j:]
            g = re.match(r"\s*\{\s*blobClose\(state\);\s*return\s+(ERR_\w+);\s*\}", rest) or re.match(r"\s*return\s+(ERR_\w+);", rest)
            if g:
                ev.append(("guard", COND[cond], codes[g.group(1)]))
                i = j + g.end()
            else:
                ev.append(("branch", COND[cond]))
                i = j
        elif tok.startswith("ERR_CALL_HANDLE"):
            j = match_close(body, m.end(), "(", ")")
            if norm(body[m.end():j - 1]) != "code, blobClose(state)":
                raise Unhandled("unknown ERR_CALL_HANDLE")
            ev.append(("guard", "startFail", 1))
            i = j
        elif tok.startswith("code"):
            j = body.index(";", m.end())
            rhs = norm(body[m.end():j])
            if rhs == "bignStart(state, params)":
                pass
            elif re.fullmatch(r"ERR_\w+", rhs):
                ev.append(("setcode", codes[rhs]))
            else:
                g = re.fullmatch(r"(.+) \? ERR_OK : (ERR_\w+)", rhs)
                if not g or g.group(1) not in ("beltHashStepV2(sig, no / 2, stack)", "beltHashStepV2(id_sig, no / 2, hash_state)",
                                               "ecpIsOnA(Q, ec, stack)"):
                    raise Unhandled("unknown statement `code = %s`" % rhs)
                ev += calls_in(g.group(1))
                ev.append(("setfinal", codes[g.group(2)]))
            i = j
        else:
            ev.append(("call", CALLS[m.group(1)]))
            i = m.end()
    return ev


def generate(repo):
    codes = err_codes(repo)
    o = ["/- GENERATED by xlate/x_c02_skel.py from bign_misc.c, bign_sign.c, bign_keyt.c, bign_ibs.c — do not edit.",
         "   The guard skeleton of every bign function (see Bee2V/C02/Skel.lean for the event types). -/",
         "import Bee2V.C02.Skel", "namespace Bee2V.Gen.C02Skel", "open Bee2V.C02.Skel", ""]
    names = []
    for name, body in functions(repo):
        evs = events(body, codes)
        items = []
        for e in evs:
            if e[0] == "guard":
                items.append(".guard .%s %d" % (e[1], e[2]))
            elif e[0] == "branch":
                items.append(".branch .%s" % e[1])
            elif e[0] == "call":
                items.append(".call .%s" % e[1])
            else:
                items.append(".%s %d" % (e[0], e[1]))
        o.append("def %s : List Ev := [%s]" % (FUNS[name], ", ".join(items)))
        o.append("")
        names.append(FUNS[name])
    o.append("def fns : List (Fun × List Ev) := [%s]" % ", ".join("(.%s, %s)" % (n, n) for n in names))
    o += ["", "end Bee2V.Gen.C02Skel"]
    return "\n".join(o) + "\n"


if __name__ == "__main__":
    import sys
    print(generate(sys.argv[1] if len(sys.argv) > 1 else "/repo"))

"""C11 — specs of the high-level functions with several octet buffers about whose overlap the header is silent
(harness/c11_hl.c).  Same shape as x_c11_spec.SPEC; valid inputs (key pairs, signatures, tokens, shares,
containers) are produced by the library itself on disjoint buffers (`prep(rng, sc, call)`).

  call(fn, fmt, **bufs) -> (ret, {name: bytes after the call})   runs one op on a fresh disjoint arena;
                                                                 fmt = the op's tokens, buffer names are replaced by offsets
"""
OID = bytes.fromhex("06092A7000020022651F51")          # belt-hash
LEVELS = (128, 192, 256)


def make_call(run):
    def call(fn, fmt, **bufs):
        ar = bytearray(b"\x00" * 8)
        off = {}
        for nm, v in bufs.items():
            off[nm] = len(ar)
            ar += (v if isinstance(v, (bytes, bytearray)) else bytes(v)) + b"\x00" * 8
        toks = [str(off[t]) if t in off else t for t in fmt.split()]
        out = run([" ".join([fn, bytes(ar).hex()] + toks)])[0]
        if out.startswith("CRASH") or " " not in out:
            raise RuntimeError("preparation op %s failed: %s" % (fn, out[:200]))
        ret, hx = out.split(" ", 1)
        b = bytes.fromhex(hx)
        res = {}
        for nm, v in bufs.items():
            n = len(v) if isinstance(v, (bytes, bytearray)) else v
            res[nm] = b[off[nm]:off[nm] + n]
        return ret, res
    return call


_cache = {}


def bign_keys(call, L, seed):
    k = ("bign", L, seed)
    if k not in _cache:
        ret, r = call("bignKeypairGen", "priv pub %d %d" % (L, seed), priv=L // 4, pub=L // 2)
        assert ret == "0", ret
        _cache[k] = (r["priv"], r["pub"])
    return _cache[k]


def sz(f):
    return lambda sc: f(sc)


HL = {}


def spec(name, args, bufs, primary, scal, prep=None, forbid=(), nullable=(), outs=None, quick_offsets=None):
    HL[name] = dict(args=[("p", a) if a in bufs else ("u", a) for a in args.split()],
                    bufs=bufs, primary=primary, forbid=list(forbid), nullable=set(nullable),
                    outs=outs or [(name + ".g." + b, b) for b, (r, _) in bufs.items() if r != "in"],
                    scal=scal, prep=prep, hl=True, quick_offsets=quick_offsets)


Ls = lambda rng, tier: [{"L": L, "seed": rng.randrange(1 << 20)} for L in (LEVELS if tier != "quick" else (128, rng.choice((192, 256))))]

# ----------------------------------------------------------------------------------------------- bign
spec("bignPubkeyCalc", "pub priv L", {"pub": ("out", lambda sc: sc["L"] // 2), "priv": ("in", lambda sc: sc["L"] // 4)},
     ("pub", "priv"), Ls, prep=lambda rng, sc, call: {"priv": bign_keys(call, sc["L"], sc["seed"])[0]})
spec("bignDH", "key priv pub L keylen",
     {"key": ("out", lambda sc: sc["keylen"]), "priv": ("in", lambda sc: sc["L"] // 4), "pub": ("in", lambda sc: sc["L"] // 2)},
     ("key", "pub"), lambda rng, tier: [dict(s, keylen=rng.choice([16, 32, s["L"] // 2])) for s in Ls(rng, tier)],
     prep=lambda rng, sc, call: {"priv": bign_keys(call, sc["L"], sc["seed"])[0], "pub": bign_keys(call, sc["L"], sc["seed"] + 1)[1]})


def _sign_prep(rng, sc, call):
    return {"oid": OID, "hash": rng.randbytes(sc["L"] // 4), "priv": bign_keys(call, sc["L"], sc["seed"])[0],
            "t": rng.randbytes(sc.get("tlen", 0))}


_sigbufs = lambda extra: dict({"sig": ("out", lambda sc: 3 * sc["L"] // 8), "oid": ("in", lambda sc: 11),
                               "hash": ("in", lambda sc: sc["L"] // 4), "priv": ("in", lambda sc: sc["L"] // 4)}, **extra)
spec("bignSign", "sig oid oidlen hash priv L seed", _sigbufs({}), ("sig", "priv"),
     lambda rng, tier: [dict(s, oidlen=11) for s in Ls(rng, tier)], prep=_sign_prep, forbid=[("sig", "hash")])
spec("bignSign2", "sig oid oidlen hash priv t tlen L", _sigbufs({"t": ("in", lambda sc: sc["tlen"])}), ("sig", "priv"),
     lambda rng, tier: [dict(s, oidlen=11, tlen=rng.choice([0, 8, 32])) for s in Ls(rng, tier)], prep=_sign_prep,
     forbid=[("sig", "hash")], nullable=["t"])


def _kw_scal(rng, tier):
    out = []
    for s in Ls(rng, tier):
        for ln in ([16, 24, 33, 64] if tier == "quick" else [16, 17, 24, 32, 33, 48, 49, 64, 96]):
            out.append(dict(s, len=ln))
    return out


spec("bignKeyWrap", "token key len hdr pub L seed",
     {"token": ("out", lambda sc: sc["L"] // 4 + 16 + sc["len"]), "key": ("in", lambda sc: sc["len"]), "hdr": ("in", lambda sc: 16),
      "pub": ("in", lambda sc: sc["L"] // 2)}, ("token", "key"), _kw_scal,
     prep=lambda rng, sc, call: {"pub": bign_keys(call, sc["L"], sc["seed"])[1]}, nullable=["hdr"])


def _ku_prep(rng, sc, call):
    L = sc["L"]
    priv, pub = bign_keys(call, L, sc["seed"])
    key, hdr = rng.randbytes(sc["len"]), rng.randbytes(16)
    ret, r = call("bignKeyWrap", "token key %d hdr pub %d %d" % (sc["len"], L, sc["seed"]), token=L // 4 + 16 + sc["len"], key=key,
                  hdr=hdr, pub=pub)
    assert ret == "0", ret
    return {"token": r["token"], "hdr": hdr, "priv": priv}


spec("bignKeyUnwrap", "key token tlen hdr priv L",
     {"key": ("out", lambda sc: sc["len"]), "token": ("in", lambda sc: sc["tlen"]), "hdr": ("in", lambda sc: 16),
      "priv": ("in", lambda sc: sc["L"] // 4)}, ("key", "token"),
     lambda rng, tier: [dict(s, tlen=s["L"] // 4 + 16 + s["len"]) for s in _kw_scal(rng, tier)], prep=_ku_prep)


def _id_keys(call, rng, L, seed):
    """CA key pair, id_hash, CA signature of id_hash, extracted identity keys"""
    k = ("id", L, seed)
    if k not in _cache:
        priv, pub = bign_keys(call, L, seed)
        idh = rng.randbytes(L // 4)
        ret, r = call("bignSign", "sig oid 11 hash priv %d %d" % (L, seed), sig=3 * L // 8, oid=OID, hash=idh, priv=priv)
        assert ret == "0"
        ret, e = call("bignIdExtract", "ipriv ipub oid 11 idh sig pub %d" % L, ipriv=L // 4, ipub=L // 2, oid=OID, idh=idh,
                      sig=r["sig"], pub=pub)
        assert ret == "0", ret
        _cache[k] = dict(pub=pub, idh=idh, sig=r["sig"], ipriv=e["ipriv"], ipub=e["ipub"])
    return _cache[k]


spec("bignIdExtract", "idpriv idpub oid oidlen idhash sig pub L",
     {"idpriv": ("out", lambda sc: sc["L"] // 4), "idpub": ("out", lambda sc: sc["L"] // 2), "oid": ("in", lambda sc: 11),
      "idhash": ("in", lambda sc: sc["L"] // 4), "sig": ("in", lambda sc: 3 * sc["L"] // 8), "pub": ("in", lambda sc: sc["L"] // 2)},
     ("idpub", "sig"), lambda rng, tier: [dict(s, oidlen=11) for s in Ls(rng, tier)],
     prep=lambda rng, sc, call: (lambda d: {"oid": OID, "idhash": d["idh"], "sig": d["sig"], "pub": d["pub"]})(_id_keys(call, rng, sc["L"], sc["seed"])),
     forbid=[("idpriv", "idpub")])


def _ids_prep(rng, sc, call):
    d = _id_keys(call, rng, sc["L"], sc["seed"])
    return {"oid": OID, "idhash": d["idh"], "hash": rng.randbytes(sc["L"] // 4), "idpriv": d["ipriv"], "t": rng.randbytes(sc.get("tlen", 0))}


_idsbufs = lambda extra: dict({"idsig": ("out", lambda sc: 3 * sc["L"] // 8), "oid": ("in", lambda sc: 11),
                               "idhash": ("in", lambda sc: sc["L"] // 4), "hash": ("in", lambda sc: sc["L"] // 4),
                               "idpriv": ("in", lambda sc: sc["L"] // 4)}, **extra)
spec("bignIdSign", "idsig oid oidlen idhash hash idpriv L seed", _idsbufs({}), ("idsig", "idpriv"),
     lambda rng, tier: [dict(s, oidlen=11) for s in Ls(rng, tier)], prep=_ids_prep)
spec("bignIdSign2", "idsig oid oidlen idhash hash idpriv t tlen L", _idsbufs({"t": ("in", lambda sc: sc["tlen"])}), ("idsig", "idpriv"),
     lambda rng, tier: [dict(s, oidlen=11, tlen=rng.choice([0, 16])) for s in Ls(rng, tier)], prep=_ids_prep, nullable=["t"])
spec("bignOidToDER", "der countp oid", {"der": ("out", lambda sc: 11), "countp": ("out", lambda sc: 8), "oid": ("in", lambda sc: 28)},
     ("der", "oid"), lambda rng, tier: [{}], prep=lambda rng, sc, call: {"oid": b"1.2.112.0.2.0.34.101.31.81\x00\x00"},
     forbid=[("der", "countp")])

# --------------------------------------------------------------------------------------------- bign96
def b96_keys(call, seed):
    k = ("b96", seed)
    if k not in _cache:
        ret, r = call("bign96KeypairGen", "priv pub %d" % seed, priv=24, pub=48)
        assert ret == "0", ret
        _cache[k] = (r["priv"], r["pub"])
    return _cache[k]


S1 = lambda rng, tier: [{"seed": rng.randrange(1 << 20)}]
spec("bign96PubkeyCalc", "pub priv", {"pub": ("out", lambda sc: 48), "priv": ("in", lambda sc: 24)}, ("pub", "priv"), S1,
     prep=lambda rng, sc, call: {"priv": b96_keys(call, sc["seed"])[0]})
_b96 = lambda rng, sc, call: {"oid": OID, "hash": rng.randbytes(24), "priv": b96_keys(call, sc["seed"])[0], "t": rng.randbytes(sc.get("tlen", 0))}
_b96b = lambda extra: dict({"sig": ("out", lambda sc: 34), "oid": ("in", lambda sc: 11), "hash": ("in", lambda sc: 24),
                            "priv": ("in", lambda sc: 24)}, **extra)
spec("bign96Sign", "sig oid oidlen hash priv seed", _b96b({}), ("sig", "priv"),
     lambda rng, tier: [{"oidlen": 11, "seed": rng.randrange(1 << 20)}], prep=_b96, forbid=[("sig", "hash")])
spec("bign96Sign2", "sig oid oidlen hash priv t tlen", _b96b({"t": ("in", lambda sc: sc["tlen"])}), ("sig", "priv"),
     lambda rng, tier: [{"oidlen": 11, "seed": rng.randrange(1 << 20), "tlen": t} for t in (0, 16)], prep=_b96,
     forbid=[("sig", "hash")], nullable=["t"])

# ----------------------------------------------------------------------------------------------- bels
def bels_m(call, ln, num):
    k = ("belsm", ln, num)
    if k not in _cache:
        ret, r = call("belsStdM", "m %d %d" % (ln, num), m=ln)
        assert ret == "0", ret
        _cache[k] = r["m"]
    return _cache[k]


def _bels_scal(rng, tier):
    return [{"len": ln, "count": c, "thr": t, "seed": rng.randrange(1 << 20)} for ln in (16, 24, 32)
            for (c, t) in ([(3, 2), (5, 3)] if tier == "quick" else [(2, 1), (3, 2), (5, 3), (5, 5), (16, 2)])]


def _bels_in(rng, sc, call):
    return {"s": rng.randbytes(sc["len"]), "m0": bels_m(call, sc["len"], 0),
            "mi": b"".join(bels_m(call, sc["len"], i + 1) for i in range(sc["count"]))}


_nl = lambda sc: sc["count"] * sc["len"]
spec("belsShare", "si count thr len s m0 mi seed",
     {"si": ("out", _nl), "s": ("in", lambda sc: sc["len"]), "m0": ("in", lambda sc: sc["len"]), "mi": ("in", _nl)}, ("si", "mi"),
     _bels_scal, prep=_bels_in)
_nl1 = lambda sc: sc["count"] * (sc["len"] + 1)
spec("belsShare2", "si count thr len s seed", {"si": ("out", _nl1), "s": ("in", lambda sc: sc["len"])}, ("si", "s"), _bels_scal,
     prep=lambda rng, sc, call: {"s": rng.randbytes(sc["len"])})
spec("belsShare3", "si count thr len s", {"si": ("out", _nl1), "s": ("in", lambda sc: sc["len"])}, ("si", "s"), _bels_scal,
     prep=lambda rng, sc, call: {"s": rng.randbytes(sc["len"])})


def _bels_rec(which):
    def prep(rng, sc, call):
        ln, c, t = sc["len"], sc["count"], sc["thr"]
        s = rng.randbytes(ln)
        if which == 1:
            d = _bels_in(rng, sc, call)
            ret, r = call("belsShare", "si %d %d %d s m0 mi %d" % (c, t, ln, sc["seed"]), si=c * ln, s=s, m0=d["m0"], mi=d["mi"])
            assert ret == "0", ret
            k = sc["use"]
            return {"si": r["si"][:k * ln], "m0": d["m0"], "mi": d["mi"][:k * ln]}
        ret, r = call("belsShare2", "si %d %d %d s %d" % (c, t, ln, sc["seed"]), si=c * (ln + 1), s=s)
        assert ret == "0", ret
        return {"si": r["si"][:sc["use"] * (ln + 1)]}
    return prep


_ul = lambda sc: sc["use"] * sc["len"]
_rs = lambda rng, tier: [dict(s, use=rng.choice([s["thr"], s["count"]])) for s in _bels_scal(rng, tier)]
spec("belsRecover", "s use len si m0 mi", {"s": ("out", lambda sc: sc["len"]), "si": ("in", _ul), "m0": ("in", lambda sc: sc["len"]),
                                            "mi": ("in", _ul)}, ("s", "si"), _rs, prep=_bels_rec(1))
spec("belsRecover2", "s use len si", {"s": ("out", lambda sc: sc["len"]), "si": ("in", lambda sc: sc["use"] * (sc["len"] + 1))}, ("s", "si"), _rs, prep=_bels_rec(2))
spec("belsGenMid", "mid len m0 id idlen", {"mid": ("out", lambda sc: sc["len"]), "m0": ("in", lambda sc: sc["len"]),
                                            "id": ("in", lambda sc: sc["idlen"])}, ("mid", "id"),
     lambda rng, tier: [{"len": ln, "idlen": rng.choice([1, 8, 33])} for ln in (16, 24, 32)],
     prep=lambda rng, sc, call: {"m0": bels_m(call, sc["len"], 0)})
spec("belsGenMi", "mi len m0 seed", {"mi": ("out", lambda sc: sc["len"]), "m0": ("in", lambda sc: sc["len"])}, ("mi", "m0"),
     lambda rng, tier: [{"len": ln, "seed": rng.randrange(1 << 20)} for ln in (16, 24, 32)],
     prep=lambda rng, sc, call: {"m0": bels_m(call, sc["len"], 0)})

# ----------------------------------------------------------------------------------------------- bake
spec("bakeKDF", "key secret slen iv ivlen num", {"key": ("out", lambda sc: 32), "secret": ("in", lambda sc: sc["slen"]),
                                                  "iv": ("in", lambda sc: sc["ivlen"])}, ("key", "secret"),
     lambda rng, tier: [{"slen": a, "ivlen": b, "num": rng.randrange(4)} for a, b in ((1, 0), (16, 16), (32, 8), (47, 40))])
spec("bakeSWU", "pt msg L", {"pt": ("out", lambda sc: sc["L"] // 2), "msg": ("in", lambda sc: sc["L"] // 4)}, ("pt", "msg"), Ls)

# ----------------------------------------------------------------------------------------------- bpki
def _wrap_scal(kind):
    def f(rng, tier):
        lens = (32, 64) if kind == "Privkey" else (33, 34)
        return [{"plen": n, "pwdlen": rng.choice([1, 8, 20]), "iter": 10000} for n in (lens if tier != "quick" else (rng.choice(lens),))]
    return f


def _wrap_prep(kind):
    def prep(rng, sc, call):
        body = rng.randbytes(sc["plen"])
        if kind == "Share":
            body = bytes([rng.randrange(1, 17)]) + body[1:]
        d = {"body": body, "pwd": rng.randbytes(sc["pwdlen"]), "salt": rng.randbytes(8)}
        ret, r = call("bpki%sWrap" % kind, "epki lenp body %d pwd %d salt %d" % (sc["plen"], sc["pwdlen"], sc["iter"]),
                      epki=400, lenp=8, body=d["body"], pwd=d["pwd"], salt=d["salt"])
        sc["elen"] = int.from_bytes(r["lenp"], "little") if ret == "0" else 0
        sc["ret0"] = ret
        d["epki"] = r["epki"][:sc["elen"]]
        return d
    return prep


for kind in ("Privkey", "Share"):
    spec("bpki%sWrap" % kind, "epki lenp body plen pwd pwdlen salt iter",
         {"epki": ("out", lambda sc: sc["elen"]), "lenp": ("out", lambda sc: 8), "body": ("in", lambda sc: sc["plen"]),
          "pwd": ("in", lambda sc: sc["pwdlen"]), "salt": ("in", lambda sc: 8)}, ("epki", "body"), _wrap_scal(kind),
         prep=_wrap_prep(kind), forbid=[("epki", "lenp")], quick_offsets=5)
    spec("bpki%sUnwrap" % kind, "body lenp epki elen pwd pwdlen",
         {"body": ("out", lambda sc: sc["plen"]), "lenp": ("out", lambda sc: 8), "epki": ("in", lambda sc: sc["elen"]),
          "pwd": ("in", lambda sc: sc["pwdlen"])}, ("body", "epki"), _wrap_scal(kind), prep=_wrap_prep(kind),
         forbid=[("body", "lenp")], quick_offsets=5)

CSR = bytes.fromhex(
    "3082017A30820134020100305F3115301306035504030C0C524F424552542053" "4D495448310E300C06035504040C05534D495448310F300D060355042A0C0652"
    "4F42455254311830160603550405130F50415347422D35333333323434323831" "0B3009060355040613024742305D3018060A2A7000020022652D0201060A2A70"
    "00020022652D0301034100F64CDDFFE4D546EF484471583FAEBA9A38061084E2" "80BF996F90BA6AF0DB6620F59ABAA7AD29D4E7D1CA0C21DD9E32D485F9E74084"
    "1F4317CA9481503D1F1B50A06F301F06092A864886F70D01090731120C102F49" "4E464F3A65726970323334313233304C06092A864886F70D01090E313F303D30"
    "170603551D200410300E300C060A2A7000020022654E023D30220603551D1104" "1B30198117726F626572742E736D697468406578616D706C652E756B300D0609"
    "2A7000020022652D0C050003310082B4F9F934E3FD457F5DF06AE63A88E722E3" "5D35F565551535BA94CEF9243011999DF2159E4F4BAC22AD8C3135A3BD26")
spec("bpkiCSRUnwrap", "pub lenp csr csrlen", {"pub": ("out", lambda sc: 64), "lenp": ("out", lambda sc: 8), "csr": ("in", lambda sc: len(CSR))},
     ("pub", "csr"), lambda rng, tier: [{"csrlen": len(CSR)}], prep=lambda rng, sc, call: {"csr": CSR}, forbid=[("pub", "lenp")])
spec("bpkiCSRRewrap", "csr csrlen priv privlen", {"csr": ("io", lambda sc: len(CSR)), "priv": ("in", lambda sc: 32)}, ("csr", "priv"),
     lambda rng, tier: [{"csrlen": len(CSR), "privlen": 32, "seed": 11}],
     prep=lambda rng, sc, call: {"csr": CSR, "priv": bign_keys(call, 128, sc["seed"])[0]}, forbid=[("csr", "priv")])

# ------------------------------------------------------------------------------------------- btok CVC
def _cvc_prep(iss):
    def prep(rng, sc, call):
        priv, pub = bign_keys(call, 128, sc["seed"])
        sc["pubhex"] = pub.hex()
        d = {"priv": priv}
        ret, r = call("btokCVCWrap", "cert lenp priv 32 %s" % pub.hex(), cert=400, lenp=8, priv=priv)
        n = int.from_bytes(r["lenp"], "little") if ret == "0" else 0
        sc["ret0"] = ret
        if not iss:
            sc["clen"] = n
            return d
        priv2, pub2 = bign_keys(call, 128, sc["seed"] + 5)
        sc["pubhex"] = pub2.hex()
        sc["calen"] = n
        d = {"certa": r["cert"][:n], "priva": priv}
        ret, r2 = call("btokCVCIss", "cert lenp certa %d priva 32 %s" % (n, pub2.hex()), cert=400, lenp=8, certa=d["certa"], priva=priv)
        sc["clen"] = int.from_bytes(r2["lenp"], "little") if ret == "0" else 0
        sc["ret0"] = ret
        return d
    return prep


spec("btokCVCWrap", "cert lenp priv privlen pubhex", {"cert": ("out", lambda sc: sc["clen"]), "lenp": ("out", lambda sc: 8),
                                                       "priv": ("in", lambda sc: 32)}, ("cert", "priv"),
     lambda rng, tier: [{"privlen": 32, "seed": rng.randrange(1 << 20)}], prep=_cvc_prep(False), forbid=[("cert", "lenp")])
spec("btokCVCIss", "cert lenp certa calen priva privalen pubhex",
     {"cert": ("out", lambda sc: sc["clen"]), "lenp": ("out", lambda sc: 8), "certa": ("in", lambda sc: sc["calen"]),
      "priva": ("in", lambda sc: 32)}, ("cert", "certa"),
     lambda rng, tier: [{"privalen": 32, "seed": rng.randrange(1 << 20)}], prep=_cvc_prep(True), forbid=[("cert", "lenp")])

# ------------------------------------------------------------------------------------ dstu, g12s, pfok
def _kp(fn, fmt, a, b):
    def get(call, seed):
        k = (fn, seed)
        if k not in _cache:
            ret, r = call(fn, fmt % seed, priv=a, pub=b)
            assert ret == "0", (fn, ret)
            _cache[k] = (r["priv"], r["pub"])
        return _cache[k]
    return get


dstu_keys = _kp("dstuKeypairGen", "priv pub 0 %d", 21, 42)
g12s_keys = _kp("g12sKeypairGen", "priv pub 0 %d", 32, 64)
pfok_keys = _kp("pfokKeypairGen", "priv pub %d", 17, 80)
spec("dstuSign", "sig hash hashlen priv i ld seed", {"sig": ("out", lambda sc: sc["ld"] // 8), "hash": ("in", lambda sc: sc["hashlen"]),
                                                      "priv": ("in", lambda sc: 21)}, ("sig", "hash"),
     lambda rng, tier: [{"hashlen": h, "i": 0, "ld": 336, "seed": rng.randrange(1 << 20)} for h in (20, 32)],
     prep=lambda rng, sc, call: {"priv": dstu_keys(call, sc["seed"])[0]})
spec("g12sSign", "sig hash priv i seed", {"sig": ("out", lambda sc: 64), "hash": ("in", lambda sc: 32), "priv": ("in", lambda sc: 32)},
     ("sig", "hash"), lambda rng, tier: [{"i": 0, "seed": rng.randrange(1 << 20)}],
     prep=lambda rng, sc, call: {"priv": g12s_keys(call, sc["seed"])[0]})
spec("pfokPubkeyCalc", "pub priv", {"pub": ("out", lambda sc: 80), "priv": ("in", lambda sc: 17)}, ("pub", "priv"), S1,
     prep=lambda rng, sc, call: {"priv": pfok_keys(call, sc["seed"])[0]})
spec("pfokDH", "key priv pub", {"key": ("out", lambda sc: 32), "priv": ("in", lambda sc: 17), "pub": ("in", lambda sc: 80)}, ("key", "pub"), S1,
     prep=lambda rng, sc, call: {"priv": pfok_keys(call, sc["seed"])[0], "pub": pfok_keys(call, sc["seed"] + 1)[1]})
spec("pfokMTI", "key priv priv1 pub pub1", {"key": ("out", lambda sc: 32), "priv": ("in", lambda sc: 17), "priv1": ("in", lambda sc: 17),
                                             "pub": ("in", lambda sc: 80), "pub1": ("in", lambda sc: 80)}, ("key", "pub"), S1,
     prep=lambda rng, sc, call: {"priv": pfok_keys(call, sc["seed"])[0], "priv1": pfok_keys(call, sc["seed"] + 2)[0],
                                 "pub": pfok_keys(call, sc["seed"] + 1)[1], "pub1": pfok_keys(call, sc["seed"] + 3)[1]})

# ------------------------------------------------------------------------------------------------ core
spec("hexTo", "dest src", {"dest": ("out", lambda sc: sc["n"]), "src": ("in", lambda sc: 2 * sc["n"] + 1)}, ("dest", "src"),
     lambda rng, tier: [{"n": n} for n in (1, 7, 16)],
     prep=lambda rng, sc, call: {"src": rng.randbytes(sc["n"]).hex().upper().encode() + b"\x00"})
spec("hexToRev", "dest src", {"dest": ("out", lambda sc: sc["n"]), "src": ("in", lambda sc: 2 * sc["n"] + 1)}, ("dest", "src"),
     lambda rng, tier: [{"n": n} for n in (1, 7, 16)],
     prep=lambda rng, sc, call: {"src": rng.randbytes(sc["n"]).hex().upper().encode() + b"\x00"})
spec("u16From", "dest src n", {"dest": ("out", lambda sc: (sc["n"] + 1) // 2 * 2), "src": ("in", lambda sc: sc["n"])}, ("dest", "src"),
     lambda rng, tier: [{"n": n} for n in (2, 7, 16)])
HL["u16From"]["align2"] = {"dest"}
spec("u16To", "dest n src", {"dest": ("out", lambda sc: sc["n"]), "src": ("in", lambda sc: (sc["n"] + 1) // 2 * 2)}, ("dest", "src"),
     lambda rng, tier: [{"n": n} for n in (2, 7, 16)])
HL["u16To"]["align2"] = {"src"}

# what the documentation / source says about each (quoted in docs/C11.md and in the evidence); functions of the
# inventory that are NOT exercised, each with the reason
NOT_EXERCISED = {
    "objCopy": "object framework (obj.h): dest/src are structured objects with internal pointers, not octet buffers of a data API",
    "objAppend": "object framework (obj.h), as objCopy",
    "rngESRead": "source is the NAME of an entropy source (C string); the output is nondeterministic",
}
for p_ in ("BMQV", "BSTS", "BPACE"):
    for s_ in ("Step3", "Step4", "Step5", "RunA", "RunB"):
        if (p_, s_) in (("BMQV", "Step5"), ("BSTS", "Step5")):
            continue
        NOT_EXERCISED["bake" + p_ + s_] = ("protocol step over a session state (messages in/out); the step functions first parse `in` into the state "
                                           "and write `out` last — exercised by C04's session harness, not by the placement sweep")
NOT_EXERCISED["btokBAuthTStep3"] = NOT_EXERCISED["bakeBMQVStep3"]
NOT_EXERCISED["btokBAuthCTStep4"] = NOT_EXERCISED["bakeBMQVStep3"]


# (output, input) pairs whose overlap the code does NOT tolerate although the header is silent (observed on the real
# library by the pairwise sweep; recorded in docs/C11.md; these pairs delimit the domain of the order model)
NOT_TOLERATED = {
    "bignOidToDER": [("der", "oid")],                  # der is written over the string before it has been read completely
    "belsShare": [("si", "mi")],
    "bpkiPrivkeyWrap": [("epki", "body"), ("epki", "salt"), ("lenp", "body"), ("lenp", "pwd"), ("lenp", "salt")],
    "bpkiShareWrap": [("epki", "body"), ("epki", "salt"), ("lenp", "body"), ("lenp", "pwd"), ("lenp", "salt")],
    "bpkiCSRUnwrap": [("lenp", "csr")],
    "btokCVCWrap": [("cert", "priv")],
    "btokCVCIss": [("cert", "priva")],
    "hexTo": [("dest", "src")], "hexToRev": [("dest", "src")],
}
# bignIdSign/bignIdSign2: (id_sig, hash) is excluded like (sig, hash) of bignSign: the header is silent, the code writes the
# first half of id_sig before reading hash and returns ERR_OK with a wrong signature (recorded in docs/C11.md, no finding)
HL["bignIdSign"]["forbid"].append(("idsig", "hash"))
HL["bignIdSign2"]["forbid"].append(("idsig", "hash"))
# own programs in Bee2V/C11/Prog.lean (not the generic progIO)
OWN_PROGRAM = {"bignKeyWrap", "bignKeyUnwrap"}
HL["bignKeyWrap"]["outs"] = [("bignKeyWrap.x", "token"), ("bignKeyWrap.R", "token")]
HL["bignKeyWrap"]["outs_slice"] = {"bignKeyWrap.x": lambda sc: (sc["L"] // 4, sc["len"] + 16), "bignKeyWrap.R": lambda sc: (0, sc["L"] // 4)}
HL["bignKeyUnwrap"]["outs"] = [("bignKeyUnwrap.x", "key")]


def tolerated():
    out = {}
    for fn, spec in HL.items():
        bad = set(NOT_TOLERATED.get(fn, ())) | set(tuple(f) for f in spec["forbid"]) | set(tuple(reversed(f)) for f in spec["forbid"])
        outs = [b for b, (r, _) in spec["bufs"].items() if r != "in"]
        out[fn] = set((o, i) for o in outs for i in spec["bufs"] if i != o and spec["bufs"][i][0] != "out" and (o, i) not in bad)
    return out


def describe(case, addr):
    """description of the generic order program for the driver: domain flag, inputs in parameter order, outputs"""
    from x_c11_spec import intersects
    spec, sc = case.spec, case.sc
    size = {b: spec["bufs"][b][1](sc) for b in spec["bufs"]}
    dom = 1
    for x, y in list(NOT_TOLERATED.get(case.fn, ())) + [tuple(f) for f in spec["forbid"]]:
        if addr.get(x) is not None and addr.get(y) is not None and intersects(addr[x], size[x], addr[y], size[y]):
            dom = 0
    toks = ["d:%d" % dom]
    order = [nm for kind, nm in spec["args"] if kind == "p"]
    for b in order:
        if spec["bufs"][b][0] != "out" and addr[b] is not None:
            toks.append("i:%d:%d" % (addr[b], size[b]))
    for cid, b in spec["outs"]:
        if addr[b] is not None:
            toks.append("o:%s:%d:%d" % (cid, addr[b], size[b]))
    return toks

# natural in-place uses (every buffer pair involved is tolerated)
HL["bignKeyWrap"]["extra"] = lambda sc: [[("token", "key", 0), ("hdr", "key", sc["len"])],            # buf = key || header, token = buf
                                         [("token", "key", -(sc["L"] // 4)), ("hdr", "key", sc["len"])],  # key || header already at their final place
                                         [("hdr", "token", sc["L"] // 4 + 8)], [("hdr", "token", sc["L"] // 4 + sc["len"])]]
HL["bignKeyUnwrap"]["extra"] = lambda sc: [[("key", "token", 0)], [("key", "token", sc["tlen"] - 8), ("hdr", "key", 8)],
                                           [("key", "token", sc["L"] // 4)], [("key", "token", sc["tlen"] - 16 - 8)]]

# long lengths for the functions whose length is a free parameter (oracle only: overlapped vs disjoint on the implementation)
HL["bignKeyWrap"]["long"] = lambda rng, tier: [{"L": 128, "seed": 5, "len": n} for n in ((4097,) if tier == "quick" else (4096, 4097, 8193))]
HL["bignKeyUnwrap"]["long"] = lambda rng, tier: [{"L": 128, "seed": 5, "len": n, "tlen": 48 + n} for n in ((4097,) if tier == "quick" else (4096, 4097, 8193))]
HL["bakeKDF"]["long"] = lambda rng, tier: [{"slen": 4097, "ivlen": 1025, "num": 1}]
HL["belsGenMid"]["long"] = lambda rng, tier: [{"len": 16, "idlen": 4097}]
HL["u16From"]["long"] = lambda rng, tier: [{"n": 4098}]
HL["u16To"]["long"] = lambda rng, tier: [{"n": 4098}]
HL["dstuSign"]["long"] = lambda rng, tier: [{"hashlen": 4097, "i": 0, "ld": 336, "seed": 9}]

"""C01 translator: belt tables and FMT constants  ->  lean/Bee2V/Gen/C01Tables.lean

Source of truth is /repo's *current* working tree:
  * belt_block.c : `static const octet H[256]`, `static const u32 H5/H13/H21/H29[256]`
    (after `gcc -E -P`, so the H16/HEx16 macros are expanded; every initialiser is then a
    C constant expression made of hex literals, `(u32)` casts, `<<`, `>>`, `|`, `-` and
    parentheses, which is evaluated here with u32 semantics);
  * belt_fmt.c : the body of beltFMTCalcB: the list of special cases
    `if (mod == M && count == C) return B;`, the `mod == 65536` shortcut and the numeric
    constants of the rational approximation, in source order.
Fail-closed: any shape that is not recognised raises (the check then reports the proofs as
not re-established).  The harness prints the same tables from the compiled library
(`tab H5` ...) and the Lean driver prints the generated ones, so a translator slip shows up
as a correspondence difference.
"""
import os, re, subprocess

REPO = os.environ.get("BEE2_REPO", "/repo")


class XlateError(Exception):
    pass


def preprocess(rel):
    src = os.path.join(REPO, rel)
    r = subprocess.run(["gcc", "-E", "-P", "-DNDEBUG", "-I" + os.path.join(REPO, "include"),
                        "-I" + os.path.join(REPO, "src"), src], capture_output=True, text=True)
    if r.returncode != 0:
        raise XlateError("gcc -E failed for %s: %s" % (rel, r.stderr[-400:]))
    return r.stdout


TOK = re.compile(r"\s*(0[xX][0-9a-fA-F]+|\d+|<<|>>|[()|\-+^&~])")


def eval_u32(expr):
    """Evaluate a C constant expression over u32 (casts `(u32)` already removed)."""
    toks, pos = [], 0
    expr = expr.strip()
    while pos < len(expr):
        m = TOK.match(expr, pos)
        if not m:
            raise XlateError("unrecognised token in initialiser: %r" % expr[pos:pos + 30])
        toks.append(m.group(1))
        pos = m.end()
        while pos < len(expr) and expr[pos].isspace():
            pos += 1
    M = 0xFFFFFFFF
    i = [0]

    def peek():
        return toks[i[0]] if i[0] < len(toks) else None

    def eat(t=None):
        x = peek()
        if x is None or (t is not None and x != t):
            raise XlateError("parse error in initialiser %r" % expr)
        i[0] += 1
        return x

    def prim():
        x = eat()
        if x == "(":
            v = bor()
            eat(")")
            return v
        if x == "~":
            return (~prim()) & M
        if x[0].isdigit():
            return int(x, 0) & M
        raise XlateError("parse error in initialiser %r" % expr)

    def add():
        v = prim()
        while peek() in ("+", "-"):
            o = eat()
            w = prim()
            v = (v + w) & M if o == "+" else (v - w) & M
        return v

    def shift():
        v = add()
        while peek() in ("<<", ">>"):
            o = eat()
            w = add()
            if w >= 32:
                raise XlateError("shift by %d" % w)
            v = (v << w) & M if o == "<<" else v >> w
        return v

    def band():
        v = shift()
        while peek() == "&":
            eat()
            v &= shift()
        return v

    def bxor():
        v = band()
        while peek() == "^":
            eat()
            v ^= band()
        return v

    def bor():
        v = bxor()
        while peek() == "|":
            eat()
            v |= bxor()
        return v

    v = bor()
    if peek() is not None:
        raise XlateError("trailing tokens in initialiser %r" % expr)
    return v


def split_top(s):
    out, depth, cur = [], 0, ""
    for ch in s:
        if ch == "(":
            depth += 1
        elif ch == ")":
            depth -= 1
        if ch == "," and depth == 0:
            out.append(cur)
            cur = ""
        else:
            cur += ch
    if cur.strip():
        out.append(cur)
    return out


def table(pp, ctype, name, maxv):
    m = re.search(r"static\s+const\s+%s\s+%s\s*\[\s*256\s*\]\s*=\s*\{(.*?)\}\s*;" % (ctype, name), pp, flags=re.S)
    if not m:
        raise XlateError("table %s not found as `static const %s %s[256]`" % (name, ctype, name))
    items = split_top(m.group(1))
    if len(items) != 256:
        raise XlateError("table %s has %d initialisers, expected 256" % (name, len(items)))
    vals = []
    for it in items:
        it = re.sub(r"\(\s*(?:u32|octet|unsigned\s+int|unsigned\s+char|uint32_t)\s*\)", "", it)
        v = eval_u32(it)
        if v > maxv:
            raise XlateError("table %s: entry %r does not fit" % (name, it))
        vals.append(v)
    return vals


def fmt_consts(pp):
    m = re.search(r"static\s+size_t\s+beltFMTCalcB\s*\(\s*u32\s+mod\s*,\s*size_t\s+count\s*\)\s*\{(.*?)\n\}", pp, flags=re.S)
    if not m:
        raise XlateError("beltFMTCalcB not found")
    body = m.group(1)
    special = [(int(a), int(b), int(c)) for a, b, c in
               re.findall(r"if\s*\(\s*mod\s*==\s*(\d+)\s*&&\s*count\s*==\s*(\d+)\s*\)\s*return\s+(\d+)\s*;", body)]
    # every `if (...) return` before the 65536 shortcut must have been recognised
    head = body.split("65536")[0]
    if len(re.findall(r"\breturn\b", head)) != len(special):
        raise XlateError("beltFMTCalcB: unrecognised early return")
    m65 = re.search(r"if\s*\(\s*mod\s*==\s*65536\s*\)\s*return\s*\(\s*(\d+)\s*\*\s*count\s*\+\s*(\d+)\s*\)\s*/\s*(\d+)\s*;", body)
    if not m65:
        raise XlateError("beltFMTCalcB: mod == 65536 shortcut not recognised")
    # the sequence of zz*/ww* calls with their constant operands, in source order
    calls = re.findall(r"\b(zzMulW|zzAdd2|zzSub2|zzSubW2|wwSetBit|wwSetW|wwCopy|wwSetZero|zzDiv)\s*\(([^;]*)\)\s*;", body)
    shape = []
    consts = []
    for f, args in calls:
        a = [x.strip() for x in split_top(args)]
        if f == "zzMulW":
            if len(a) != 4 or a[0] != a[1] or a[2] != "m":
                raise XlateError("zzMulW shape: %s" % args)
            mm = re.fullmatch(r"(\d+)[uU]?", a[3])
            if mm:
                consts.append(int(mm.group(1)))
                shape.append("mul %s #" % a[0])
            else:
                shape.append("mul %s %s" % (a[0], re.sub(r"\s+", "", a[3])))
        else:
            shape.append(f + " " + ",".join(re.sub(r"\s+", "", x) for x in a))
    expected = ['wwSetZero t0,m', 'wwSetBit t0,3*k,1', 'wwSetZero t1,m', 'wwSetBit t1,2*k,1', 'mul t1 mod',
                'wwSetZero t2,m', 'wwSetBit t2,k,1', 'mul t2 mod', 'mul t2 mod', 'wwSetW t3,m,mod', 'mul t3 mod',
                'mul t3 mod', 'wwCopy den,t0,m', 'zzAdd2 den,t3,m', 'wwCopy t4,t1,m', 'zzAdd2 t4,t2,m', 'mul t4 #',
                'zzAdd2 den,t4,m', 'wwCopy num,den,m', 'mul num #', 'mul num (word)k', 'mul t3 #', 'zzAdd2 num,t3,m',
                'mul t2 #', 'zzAdd2 num,t2,m', 'mul t1 #', 'zzSub2 num,t1,m', 'mul t0 #', 'zzSub2 num,t0,m',
                'mul num (word)count', 'mul den #', 'mul den #', 'zzAdd2 num,den,m', 'zzSubW2 num,m,1',
                'zzDiv den,num,num,m,den,k,stack']
    if shape != expected:
        for i, (x, y) in enumerate(zip(shape + ["<end>"], expected + ["<end>"])):
            if x != y:
                raise XlateError("beltFMTCalcB: step %d is `%s`, expected `%s`" % (i, x, y))
        raise XlateError("beltFMTCalcB: operation sequence changed")
    if len(consts) != 8:
        raise XlateError("beltFMTCalcB: %d constants" % len(consts))
    # k: bit length, then rounded to the nearest power of two
    if not re.search(r"k\s*=\s*(?:64|32|16|B_PER_W|\(\s*sizeof\s*\(\s*word\s*\)\s*\*\s*8\s*\))\s*-\s*\w*[cC][lL][zZ]\w*\s*\(\s*\(\s*word\s*\)\s*mod\s*\)", body) \
            and not re.search(r"k\s*=\s*\S+\s*-\s*\w+\(\(word\)mod\)", re.sub(r"\s+", " ", body)):
        raise XlateError("beltFMTCalcB: k initialisation not recognised")
    mk = re.search(r"if\s*\(\s*\(\s*\(\s*\(?u32\)?\s*\(?\s*1\s*\)?\s*\)?\s*<<\s*k\s*\)\s*-\s*mod\s*>\s*mod\s*-\s*\(\s*\(?\s*\(?u32\)?\s*\(?1\)?\s*\)?\s*<<\s*\(\s*k\s*-\s*1\s*\)\s*\)\s*\)\s*--k\s*;", body)
    if not mk:
        raise XlateError("beltFMTCalcB: rounding of k not recognised")
    return special, tuple(int(x) for x in m65.groups()), consts


def lean_array(name, ty, vals, per=8, width=10):
    rows = []
    for i in range(0, len(vals), per):
        rows.append("  " + ", ".join(("0x%0" + str(width - 2) + "X") % v for v in vals[i:i + per]))
    return "def %s : Array %s := #[\n%s]\n" % (name, ty, ",\n".join(rows))


def generate():
    """Bee2V/Gen/C01Tables.lean: the substitution tables of belt_block.c"""
    pp = preprocess("src/crypto/belt/belt_block.c")
    H = table(pp, "octet", "H", 0xFF)
    T = {r: table(pp, "u32", "H%d" % r, 0xFFFFFFFF) for r in (5, 13, 21, 29)}
    out = ["/- GENERATED by xlate/x_c01_tables.py from src/crypto/belt/belt_block.c -- do not edit.",
           "   Regenerated from /repo's working tree by every `./check C01`. -/",
           "namespace Bee2V.Gen.C01", ""]
    out.append(lean_array("H", "UInt8", H, 16, 4))
    for r in (5, 13, 21, 29):
        out.append(lean_array("H%d" % r, "UInt32", T[r], 8, 10))
    out.append("end Bee2V.Gen.C01")
    return "\n".join(out) + "\n"


def generate_fmt():
    """Bee2V/Gen/C01Fmt.lean: the constants of beltFMTCalcB (a separate module, so that the kernel-checked rows of the
    block-count table depend on these constants only and not on the substitution tables)"""
    ppf = preprocess("src/crypto/belt/belt_fmt.c")
    special, m65, consts = fmt_consts(ppf)
    out = ["/- GENERATED by xlate/x_c01_tables.py from src/crypto/belt/belt_fmt.c -- do not edit.",
           "   Regenerated from /repo's working tree by every `./check C01`. -/",
           "namespace Bee2V.Gen.C01", ""]
    out.append("/-- `if (mod == M && count == C) return B;` lines of beltFMTCalcB, in source order -/")
    out.append("def fmtSpecial : List (Nat × Nat × Nat) := [%s]\n" % ", ".join("(%d, %d, %d)" % s for s in special))
    out.append("/-- `if (mod == 65536) return (a * count + b) / c;` -/")
    out.append("def fmt65536 : Nat × Nat × Nat := (%d, %d, %d)\n" % m65)
    out.append("/- numeric operands of the zzMulW calls of beltFMTCalcB, in source order:")
    out.append("   t4*=c0; num*=c1 (then *k); t3*=c2; t2*=c3; t1*=c4; t0*=c5; den*=c6; den*=c7 -/")
    out.append("def fmtConsts : List Nat := [%s]\n" % ", ".join(str(c) for c in consts))
    for i, n in enumerate(["fmtK0", "fmtK1", "fmtK2", "fmtK3", "fmtK4", "fmtK5", "fmtK6", "fmtK7"]):
        out.append("def %s : Nat := %d" % (n, consts[i]))
    out.append("")
    out.append("end Bee2V.Gen.C01")
    return "\n".join(out) + "\n"


if __name__ == "__main__":
    print(generate())
    print(generate_fmt())

"""C11 — scan /repo/include/bee2/**/*.h for the remarks about overlapping buffers.

Every Doxygen block `/*! ... */` that is followed by a declaration (function prototype or
function-like macro) and whose text mentions "пересек…" is classified:

  tolerant        the text says buffers "могут пересекаться" / "может пересекаться"
  same_or_disjoint "либо не пересекается, либо совпадает"
  disjoint        only "не пересекаются" (a precondition: nothing to show for C11)

For a tolerant function the exclusions the same block states are extracted too
("за исключением пересечения X и Y", "кроме X и Y", "буферы X и Y не пересекаются",
"не пересекаются между собой").  A mention that fits none of the known phrasings aborts
the translation (fail-closed): `unhandled:<header>:<function>:<sentence>`.

generate() returns (entries, lean_text).  entries: list of dicts
  {header, func, kind, pairs, excl, text}
"""
import os, re, sys

REPO = os.environ.get("BEE2_REPO", "/repo")

BLOCK = re.compile(r"/\*!(.*?)\*/\s*", re.S)
ID = r"[A-Za-z_][A-Za-z_0-9]*"


def _decl_name(rest):
    """name of the function / function-like macro declared right after a doc block"""
    m = re.match(r"#define\s+(%s)\(" % ID, rest)
    if m:
        return m.group(1)
    if rest.startswith("#") or rest.startswith("/*") or rest.startswith("typedef"):
        return None
    semi = rest.find(";")
    par = rest.find("(")
    if par < 0 or semi < 0 or par > semi:
        return None
    head = rest[:par]
    if "{" in head or "}" in head or "=" in head:
        return None
    m = re.search(r"(%s)\s*$" % ID, head)
    if not m:
        return None
    name = m.group(1)
    if name in ("SAFE", "FAST"):
        m2 = re.match(r"\s*\(\s*(%s)\s*\)" % ID, rest[par:])
        return m2.group(1) if m2 else None
    return name


def _sentences(doc):
    """split a doc block into Doxygen commands (\\pre, \\remark, \\expect…) and list items"""
    doc = re.sub(r"/\*!<.*?\*/", " ", doc, flags=re.S)
    doc = re.sub(r"\s+", " ", doc)
    parts = re.split(r"(?=\\(?:pre|remark|expect|return|brief|safe|warning|post)\b)|(?<=[\s;.:])-\s(?=\S)", doc)
    out = []
    for p in parts:
        if p is None:
            continue
        # further split on sentence ends so that unrelated sentences do not mix
        for s in re.split(r"(?<=[.;])\s+(?=[А-ЯA-Z\\])", p.strip()):
            s = s.strip()
            if s:
                out.append(s)
    return out


NAME = r"(?:\[[^\]]*\])?(%s)" % ID


def _names(s):
    return [m.group(1) for m in re.finditer(NAME, s) if not re.fullmatch(r"[А-Яа-яЁё]+", m.group(1))]


def classify(sentence, header, func):
    """-> (kind, pairs, excl) for one sentence mentioning 'пересек'"""
    s = sentence
    low = s.lower()
    tol = ("могут пересекаться" in low) or ("может пересекаться" in low)
    neg = re.search(r"не пересека(?:ю|е)тся", low) is not None
    if "либо не пересекается, либо совпадает" in low:
        return "same_or_disjoint", [tuple(_names(re.sub(r"^\\\w+", "", s)))], []
    if tol:
        excl = []
        body = re.sub(r"^\\\w+(\{[^}]*\})?", "", s)
        m = re.search(r"за исключением пересечения (.*)$", body)
        if m:
            excl.append(tuple(_names(m.group(1))))
            body = body[:m.start()]
        m = re.search(r"[Вв]се буферы, кроме (.*?), могут", body)
        if m:
            excl.append(tuple(_names(m.group(1))))
            return "tolerant", [("*",)], excl
        if neg:
            # "... не пересекаются между собой, но могут пересекаться с буфером der"
            m = re.search(r"(.*)не пересекаются между собой, но могут пересекаться с буфером (%s)" % ID, body)
            if not m:
                raise ValueError("unhandled:%s:%s:%s" % (header, func, s))
            outs = [n for n in _names(m.group(1)) if n not in ("Буферы",)]
            excl.append(tuple(outs))
            return "tolerant", [tuple(outs + [m.group(2)])], excl
        m = re.search(r"[Бб]уферы\s+(.*?)\s+могут пересекаться", body)
        if m:
            return "tolerant", [tuple(_names(m.group(1)))], excl
        if re.search(r"[Бб]уферы могут пересекаться", body):
            return "tolerant", [("*",)], excl
        m = re.search(r"(?:буфер|то соответствующий буфер) может пересекаться с (?:буфером )?(%s)" % ID, body)
        if m:
            pre = _names(body[:m.start()])
            return "tolerant", [tuple([x for x in pre if x not in ("Если",)][:1] + [m.group(1)])], excl
        m = re.search(r"(%s)(?:\s*,\s*(%s))*\s+и\s+(%s)\s+могут пересекаться" % (ID, ID, ID), body)
        if m:
            return "tolerant", [tuple(_names(m.group(0).replace("могут пересекаться", "")))], excl
        raise ValueError("unhandled:%s:%s:%s" % (header, func, s))
    if neg:
        body = re.sub(r"^\\\w+(\{[^}]*\})?", "", s)
        return "disjoint", [tuple(n for n in _names(body) if n not in ("Буферы", "Входные"))], []
    if "пересечени" in low or "пересека" in low:
        # e.g. brief lines of memIsDisjoint: "Буферы ... не пересекаются?"
        return "disjoint", [], []
    raise ValueError("unhandled:%s:%s:%s" % (header, func, s))


def scan():
    entries = []
    inc = os.path.join(REPO, "include", "bee2")
    files = []
    for d, _, fs in os.walk(inc):
        for f in fs:
            if f.endswith(".h"):
                files.append(os.path.join(d, f))
    for path in sorted(files):
        rel = os.path.relpath(path, os.path.join(REPO, "include"))
        text = open(path, encoding="utf-8", errors="strict").read()
        for m in BLOCK.finditer(text):
            doc = m.group(1)
            if "пересе" not in doc.lower():
                continue
            func = _decl_name(text[m.end():m.end() + 4000])
            if func is None:
                # file-level / group-level convention ("если не оговорено противное …"): not a function
                if re.search(r"могут пересекаться|может пересекаться", doc):
                    raise ValueError("unhandled:%s:<no declaration>:%s" % (rel, doc.strip()[:80]))
                continue
            kinds, pairs, excl, texts = set(), [], [], []
            for s in _sentences(doc):
                if "пересе" not in s.lower():
                    continue
                k, p, e = classify(s, rel, func)
                kinds.add(k)
                texts.append(s)
                if k == "tolerant" or k == "same_or_disjoint":
                    pairs += p
                    excl += e
                elif k == "disjoint" and p and p[0]:
                    excl += p
            kind = "tolerant" if "tolerant" in kinds else ("same_or_disjoint" if "same_or_disjoint" in kinds else "disjoint")
            entries.append({"header": rel, "func": func, "kind": kind, "pairs": pairs,
                            "excl": excl if kind != "disjoint" else [], "text": " | ".join(texts)})
    # inherited remarks: "Поддерживается логика derEnc()" / "Сохраняются замечания по функции X()" are
    # reported with the function that carries them (the text itself names overlap or not)
    return entries


def lean_str(s):
    return '"' + s.replace("\\", "\\\\").replace('"', '\\"') + '"'


def generate():
    entries = scan()
    rows = []
    for e in entries:
        if e["kind"] == "disjoint":
            continue
        area = e["header"].split("/")[1]
        excl = ";".join(",".join(x) for x in e["excl"])
        rows.append((area, e["header"], e["func"], e["kind"], excl))
    rows.sort()
    L = ["/- GENERATED by xlate/x_c11_remarks.py from include/bee2/**/*.h on every run — do not edit.",
         "   One row per function whose documentation allows its buffers to overlap:",
         "   (area, header, function, kind, exclusions stated by the same block). -/",
         "namespace Bee2V.Gen.C11List", "",
         "structure Row where", "  area : String", "  header : String", "  func : String", "  kind : String",
         "  excl : String", "  deriving Repr, DecidableEq", "",
         "def rows : List Row := ["]
    L.append(",\n".join("  ⟨%s, %s, %s, %s, %s⟩" % tuple(lean_str(x) for x in r) for r in rows))
    L += ["]", "",
          "/-- every function documented as overlap-tolerant / same-or-disjoint (core, crypto and math headers) -/",
          "def scope : List String := rows.map (·.func)", "",
          "/-- (function, exclusions) of the scope -/",
          "def scopeExcl : List (String × String) := rows.map fun r => (r.func, r.excl)", "",
          "end Bee2V.Gen.C11List", ""]
    return entries, "\n".join(L)


if __name__ == "__main__":
    es, txt = generate()
    for e in es:
        if e["kind"] != "disjoint" or "-a" in sys.argv:
            print("%-22s %-20s %-16s pairs=%s excl=%s" % (e["header"], e["func"], e["kind"], e["pairs"], e["excl"]))
    if "-l" in sys.argv:
        print(txt)

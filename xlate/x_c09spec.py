#!/usr/bin/env python3
"""C09 spec extractor: the `\\expect{ERR_X}` lists of the headers -> documented scalar domains.

For every function prototype `err_t f(...)` in include/bee2/crypto/*.h and include/bee2/core/*.h
the Doxygen block in front of it is read; every `\\expect{ERR_X}` item written in C-like
syntax over the function's scalar parameters (`2 <= mod && mod <= 65536`, `0 < threshold <=
count < = 16`, `count % 16 == 0 && count >= 32`, `t != TIME_ERR`) is parsed into a condition;
items in prose (pointer validity, key correctness …) are kept as text only (not part of the
scalar contract).  Chained comparisons mean the conjunction of their links.

Together with x_cfg.checks_of (the cascade the code implements) this module renders
`Bee2V.Gen.C09Checks`:  check_f, benign_f, dom_f_<err>, and the theorem contract_f.
"""
import os, re, sys
sys.path.insert(0, os.path.dirname(__file__))
import x_cfg
from clangast import Unhandled

ALIASES = {"ERR_BAD_PARAM": "ERR_BAD_PARAMS"}      # bash.h writes ERR_BAD_PARAM
# committed: functions whose remaining argument checks are made by a callee that receives the
# same-named scalar arguments unchanged (validated: the callee is called and has those scalars)
DELEGATE = {"belsShare3": "belsShare2"}
# committed: the code rejects MORE than the scalar conditions written in the header (an
# undocumented or prose-documented extra check) — `accept_f` is not claimed for these
EXTRA_CHECKS = {"belsRecover": "count == 0 is rejected (ERR_BAD_INPUT), the header gives no bound on count",
                "belsRecover2": "count == 0 and count > 16 are rejected (ERR_BAD_INPUT), the header gives no bound on count",
                }
CONSTS = {"SIZE_MAX": 2 ** 64 - 1, "TIME_ERR": 2 ** 64 - 1}


def err_codes():
    codes = {"ERR_OK": 0}
    for line in open(os.path.join(x_cfg.repo(), "include/bee2/core/err.h"), errors="replace"):
        m = re.match(r"#define\s+(ERR_\w+)\s+_ERR_REG\((\d+)\)", line)
        if m:
            codes[m.group(1)] = int(m.group(2))
    return codes


# ------------------------------------------------------------------ header scanning
def header_files():
    out = []
    for sub in ("include/bee2/crypto", "include/bee2/core"):
        d = os.path.join(x_cfg.repo(), sub)
        for f in sorted(os.listdir(d)):
            if f.endswith(".h"):
                out.append(os.path.join(sub, f))
    return out


def doc_blocks():
    """yield (function name, doc text, header) for each `/*! … */ err_t name(`"""
    for h in header_files():
        txt = open(os.path.join(x_cfg.repo(), h), encoding="utf8", errors="replace").read()
        for m in re.finditer(r"/\*!(.*?)\*/\s*err_t\s+(\w+)\s*\(", txt, flags=re.S):
            yield m.group(2), m.group(1), h


def expect_items(doc):
    """[(err name, item text)] of a doc block"""
    items = []
    # split into \tag chunks
    chunks = re.split(r"(?=\\(?:expect|return|remark|pre|brief|warning|safe|todo|post)\b)", doc)
    for ch in chunks:
        m = re.match(r"\\expect\{(\w+)\}(.*)", ch, flags=re.S)
        if not m:
            continue
        err, body = m.group(1), m.group(2)
        body = body.strip()
        lines = [l.strip() for l in body.split("\n")]
        if any(l.startswith("-") for l in lines):
            cur = None
            for l in lines:
                if l == ".":
                    break
                if l.startswith("-"):
                    if cur is not None:
                        items.append((err, cur))
                    cur = l[1:].strip()
                elif cur is not None:
                    cur += " " + l
            if cur is not None:
                items.append((err, cur))
        else:
            items.append((err, " ".join(lines)))
    return [(e, re.sub(r"\s+", " ", t).strip().rstrip(".;,").strip()) for e, t in items]


# ------------------------------------------------------------------ tiny parser of the C-like conditions
class ParseError(Exception):
    pass


TOK = re.compile(r"\s*(\\in|<\s*=|>\s*=|==|!=|&&|\|\||[<>!%+*/(){},\-]|\d+|[A-Za-z_]\w*)")


def tokenize(s):
    pos, out = 0, []
    s = s.strip()
    while pos < len(s):
        m = TOK.match(s, pos)
        if not m:
            raise ParseError("at %r" % s[pos:pos + 10])
        t = re.sub(r"\s+", "", m.group(1))
        out.append(t)
        pos = m.end()
    return out


class P:
    def __init__(self, toks, scalars):
        self.t, self.i, self.scalars = toks, 0, scalars

    def peek(self):
        return self.t[self.i] if self.i < len(self.t) else None

    def eat(self, x=None):
        t = self.peek()
        if t is None or (x is not None and t != x):
            raise ParseError("expected %s got %s" % (x, t))
        self.i += 1
        return t

    def orx(self):
        a = self.andx()
        while self.peek() == "||":
            self.eat()
            a = ("or", a, self.andx())
        return a

    def andx(self):
        a = self.chain()
        while self.peek() == "&&":
            self.eat()
            a = ("and", a, self.chain())
        return a

    def chain(self):
        if self.peek() == "!":
            self.eat()
            return ("not", self.chain())
        if self.peek() == "(":
            # parenthesised condition or arithmetic? try condition first
            save = self.i
            try:
                self.eat("(")
                c = self.orx()
                self.eat(")")
                if self.peek() not in ("<", "<=", ">", ">=", "==", "!=", "%", "+", "-", "*", "/"):
                    return c
            except ParseError:
                pass
            self.i = save
        a = self.arith()
        if self.peek() == "\\in":
            self.eat()
            self.eat("{")
            alts = [("cmp", "==", a, self.arith())]
            while self.peek() == ",":
                self.eat()
                alts.append(("cmp", "==", a, self.arith()))
            self.eat("}")
            c = alts[0]
            for x in alts[1:]:
                c = ("or", c, x)
            return c
        links = []
        while self.peek() in ("<", "<=", ">", ">=", "==", "!="):
            op = self.eat()
            b = self.arith()
            links.append(("cmp", op, a, b))
            a = b
        if not links:
            raise ParseError("no comparison")
        c = links[0]
        for l in links[1:]:
            c = ("and", c, l)
        return c

    def arith(self):
        a = self.term()
        while self.peek() in ("+", "-"):
            op = self.eat()
            a = ("add" if op == "+" else "sub", a, self.term())
        return a

    def term(self):
        a = self.atom()
        while self.peek() in ("*", "/", "%"):
            op = self.eat()
            a = ({"*": "mul", "/": "div", "%": "mod"}[op], a, self.atom())
        return a

    def atom(self):
        t = self.eat()
        if t == "(":
            a = self.arith()
            self.eat(")")
            return a
        if t.isdigit():
            return ("const", int(t))
        if t in CONSTS:
            return ("const", CONSTS[t])
        if t in self.scalars:
            return ("var", t)
        raise ParseError("identifier %s is not a scalar parameter" % t)


def parse_cond(text, scalars):
    if not re.fullmatch(r"[\x00-\x7f]*", text):
        raise ParseError("prose")
    p = P(tokenize(text), scalars)
    c = p.orx()
    if p.peek() is not None:
        raise ParseError("trailing " + str(p.peek()))
    return c


def documented():
    """{function: {"header": h, "items": [(err name, text, cond or None)]}} — cond parsed later
    against the scalar parameter list of the C definition"""
    out = {}
    for name, doc, h in doc_blocks():
        its = expect_items(doc)
        if its:
            out[name] = {"header": h, "items": its}
    return out


# ------------------------------------------------------------------ Lean rendering
def prop_expr(e):
    return x_cfg.lean_expr(e)


def prop_cond(c):
    k = c[0]
    if k == "or":
        return "(%s ∨ %s)" % (prop_cond(c[1]), prop_cond(c[2]))
    if k == "and":
        return "(%s ∧ %s)" % (prop_cond(c[1]), prop_cond(c[2]))
    if k == "not":
        return "(¬ %s)" % prop_cond(c[1])
    if k == "cmp":
        op = {"==": "=", "!=": "≠", "<": "<", "<=": "≤", ">": ">", ">=": "≥"}[c[1]]
        return "(%s %s %s)" % (prop_expr(c[2]), op, prop_expr(c[3]))
    raise Unhandled("spec cond " + k)


def polarity(c, neg, acc):
    k = c[0]
    if k == "atom":
        acc.setdefault(c[1], set()).add(neg)
    elif k == "not":
        polarity(c[1], not neg, acc)
    elif k in ("or", "and"):
        polarity(c[1], neg, acc)
        polarity(c[2], neg, acc)


def peval(c, val):
    """substitute the opaque atoms by constants and fold; returns True / False / residual cond"""
    k = c[0]
    if k == "atom":
        return val[c[1]]
    if k == "not":
        a = peval(c[1], val)
        return (not a) if isinstance(a, bool) else ("not", a)
    if k in ("or", "and"):
        a, b = peval(c[1], val), peval(c[2], val)
        absorb = (k == "or")
        if a is absorb or b is absorb:
            return absorb
        if isinstance(a, bool):
            return b
        if isinstance(b, bool):
            return a
        return (k, a, b)
    return c


def prop_code(c):
    """cascade condition (scalar residue) as a decidable Prop"""
    k = c[0]
    if k == "nz":
        return "(%s ≠ 0)" % x_cfg.lean_expr(c[1])
    if k in ("or", "and", "not", "cmp"):
        if k == "cmp":
            return prop_cond(c)
        if k == "not":
            return "(¬ %s)" % prop_code(c[1])
        return "(%s %s %s)" % (prop_code(c[1]), "∨" if k == "or" else "∧", prop_code(c[2]))
    raise Unhandled("code cond " + k)


def uses_arith(c):
    if c[0] in ("add", "sub", "mul"):
        return True
    return any(isinstance(x, tuple) and uses_arith(x) for x in c[1:])


# committed: opaque atoms of the code's cascades that have a NAME shared with the headers.
# (regex on the C text of the atom, name, polarity: True = the atom is the validity predicate itself,
#  False = the atom is its negation)
CODE_ATOMS = [
    (r"^bignIsOperable\(params\)$", "params_ok", True),
    (r"^pfokParamsIsOperable\(params\)$", "params_ok", True),
    (r"^params->l != (96|128|192|256)$", "params_ok", False),
    (r"^oidFromDER\(0, oid_der, oid_len\) == SIZE_MAX$", "oid_ok", False),
    (r"^rng == 0$", "rng_ok", False),
    (r"^ang == 0$", "ang_ok", False),
]
# committed: prose \expect items of the headers that state exactly such a predicate
PROSE_ATOMS = [
    (r"^Параметры params( \(кроме базовой точки P\))? корректны$", "params_ok"),
    (r"^Идентификатор oid_der корректен$", "oid_ok"),
    (r"^Генератор rng \(с состоянием rng_state\) корректен$", "rng_ok"),
    (r"^Генератор ang (корректен и )?выдает неповторяющиеся ключи-кандидаты$", "ang_ok"),
]


def name_atoms(c, atoms):
    """replace opaque atoms that have a committed name by ('named', name) / its negation; the pair
    `oid_len == SIZE_MAX || oidFromDER(..) == SIZE_MAX` is the single predicate ¬oid_ok"""
    k = c[0]
    if k == "atom":
        for rx, nm, pos in CODE_ATOMS:
            if re.match(rx, atoms[c[1]]):
                return ("named", nm) if pos else ("not", ("named", nm))
        return c
    if k == "or":
        l, r = name_atoms(c[1], atoms), name_atoms(c[2], atoms)
        if r == ("not", ("named", "oid_ok")) and l[0] == "cmp" and l[1] == "==" and l[2] == ("var", "oid_len") and l[3] == ("const", 2 ** 64 - 1):
            return r
        return ("or", l, r)
    if k in ("and",):
        return (k, name_atoms(c[1], atoms), name_atoms(c[2], atoms))
    if k == "not":
        return ("not", name_atoms(c[1], atoms))
    return c


def named_in(c, acc):
    if c[0] == "named":
        if c[1] not in acc:
            acc.append(c[1])
    for x in c[1:]:
        if isinstance(x, tuple):
            named_in(x, acc)
    return acc


def peval2(c, val):
    """like peval, keeping ('named', n) symbolic"""
    if c[0] == "named":
        return c
    k = c[0]
    if k == "atom":
        return val[c[1]]
    if k == "not":
        a = peval2(c[1], val)
        return (not a) if isinstance(a, bool) else ("not", a)
    if k in ("or", "and"):
        a, b = peval2(c[1], val), peval2(c[2], val)
        absorb = (k == "or")
        if a is absorb or b is absorb:
            return absorb
        if isinstance(a, bool):
            return b
        if isinstance(b, bool):
            return a
        return (k, a, b)
    return c


def prop_any(c):
    """cascade residue or header condition as a decidable Prop (named atoms = Bool parameters)"""
    k = c[0]
    if k == "named":
        return "(p_%s = true)" % c[1]
    if k == "nz":
        return "(%s ≠ 0)" % x_cfg.lean_expr(c[1])
    if k == "cmp":
        return prop_cond(c)
    if k == "not":
        return "(¬ %s)" % prop_any(c[1])
    if k in ("or", "and"):
        return "(%s %s %s)" % (prop_any(c[1]), "∨" if k == "or" else "∧", prop_any(c[2]))
    raise Unhandled("cond " + k)


def py_expr(e, env):
    k = e[0]
    if k == "var":
        return env[e[1]]
    if k == "const":
        return e[1]
    a, b = py_expr(e[1], env), py_expr(e[2], env)
    W = 2 ** 64
    return {"add": (a + b) % W, "sub": (a - b) % W, "mul": (a * b) % W, "div": a // b if b else 0, "mod": a % b if b else 0}[k]


def py_cond(c, env):
    k = c[0]
    if k == "named":
        return env["p_" + c[1]]
    if k == "or":
        return py_cond(c[1], env) or py_cond(c[2], env)
    if k == "and":
        return py_cond(c[1], env) and py_cond(c[2], env)
    if k == "not":
        return not py_cond(c[1], env)
    if k == "nz":
        return py_expr(c[1], env) != 0
    a, b = py_expr(c[2], env), py_expr(c[3], env)
    return {"==": a == b, "!=": a != b, "<": a < b, "<=": a <= b, ">": a > b, ">=": a >= b}[c[1]]


def consts_in(c, acc):
    if isinstance(c, tuple):
        if c and c[0] == "const":
            acc.add(c[1])
        for x in c[1:]:
            consts_in(x, acc)
    return acc


def order_agrees(residual, items, scal, named):
    """does the code's cascade return, on a boundary grid, the class of the FIRST violated item in
    the header's listing order?  (decides whether the order theorem is emitted; Lean then proves it)"""
    import itertools, random
    cs = set()
    for c, _ in residual:
        consts_in(c, cs)
    for _, c in items:
        consts_in(c, cs)
    vals = sorted({0, 1, 2 ** 64 - 1} | {v for c in cs for v in (max(c - 1, 0), c, min(c + 1, 2 ** 64 - 1))})
    rnd = random.Random(12345)
    pts = []
    grid = list(itertools.product(vals, repeat=len(scal))) if len(vals) ** len(scal) <= 4000 else \
        [tuple(rnd.choice(vals) for _ in scal) for _ in range(4000)]
    for g in grid:
        for bits in itertools.product([True, False], repeat=len(named)):
            pts.append((g, bits))
    for g, bits in pts:
        env = dict(zip(scal, g))
        env.update({"p_" + n: b for n, b in zip(named, bits)})
        code = next((e for c, e in residual if py_cond(c, env)), None)
        first = next((e for e, c in items if not py_cond(c, env)), None)
        if code != first:
            return False
    return True


def fguard_prop(ir):
    k = ir[0]
    if k == "v":
        return "v"
    if k == "const":
        return "(%d : Int)" % ir[1]
    if k in ("add", "sub"):
        return "(%s %s %s)" % (fguard_prop(ir[1]), "+" if k == "add" else "-", fguard_prop(ir[2]))
    if k == "cmp":
        return "(%s %s %s)" % (fguard_prop(ir[2]), {">=": "≥", ">": ">", "<": "<", "<=": "≤", "==": "=", "!=": "≠"}[ir[1]], fguard_prop(ir[3]))
    if k == "not":
        return "(¬ %s)" % fguard_prop(ir[1])
    return "(%s %s %s)" % (fguard_prop(ir[1]), "∨" if k == "or" else "∧", fguard_prop(ir[2]))


def range_prop(ir):
    k = ir[0]
    if k == "zero":
        return "(d = 0)"
    if k == "cmp":
        return "(d %s q)" % {">=": "≥", ">": ">", "<": "<", "<=": "≤", "==": "=", "!=": "≠"}[ir[1]]
    if k == "not":
        return "(¬ %s)" % range_prop(ir[1])
    return "(%s %s %s)" % (range_prop(ir[1]), "∨" if k == "or" else "∧", range_prop(ir[2]))


def generate(fns):
    """-> (Lean text of Bee2V.Gen.C09Checks, theorems, report dict)"""
    codes = err_codes()
    docs = documented()
    rep = {"functions_with_cascade": 0, "contracts": [], "partial": [], "no_scalar_doc": [], "prose_items": 0,
           "prose_items_named": 0, "named_items_after_cascade": [], "order_theorems": [], "order_differs": [],
           "unknown_err_names": []}
    out = ["-- GENERATED by xlate/x_c09spec.py (headers' \\expect lists) and xlate/x_cfg.py (argument-check cascades) — do not edit.",
           "set_option linter.unusedVariables false", "namespace Bee2V.Gen.C09Checks", "", "/-- size_t arithmetic wraps modulo 2^64 -/", "def W : Nat := 2 ^ 64", ""]
    evals = []
    thms = []
    byname = {f["name"]: f for f in fns}
    for f in fns:
        ch = f["checks"]
        if f["name"] in DELEGATE:
            g = byname.get(DELEGATE[f["name"]])
            if g is None or g["name"] not in f["calls"] or not set(g["checks"]["scalars"]) <= set(ch["scalars"]):
                raise Unhandled("delegation %s -> %s no longer holds" % (f["name"], DELEGATE[f["name"]]))
            off = len(ch["atoms"])

            def shift(c):
                if c[0] == "atom":
                    return ("atom", c[1] + off)
                return tuple(shift(x) if isinstance(x, tuple) else x for x in c)
            ch = dict(ch)
            ch["list"] = ch["list"] + [(shift(c), e) for c, e in g["checks"]["list"]]
            ch["atoms"] = ch["atoms"] + ["%s: %s" % (g["name"], a) for a in g["checks"]["atoms"]]
        if not ch["list"] or f["static"]:
            continue
        rep["functions_with_cascade"] += 1
        n = f["lname"]
        scal = [p for p in ch["scalars"]]
        # benign valuation of the unnamed opaque atoms
        pol = {}
        for c, e in ch["list"]:
            polarity(c, False, pol)
        benign = []
        for i, a in enumerate(ch["atoms"]):
            ps = pol.get(i, set())
            benign.append(ps == {True})
        named = []
        residual = []
        for c, e in ch["list"]:
            r = peval2(name_atoms(c, ch["atoms"]), benign)
            if r is True:
                raise Unhandled("%s: a check fires under the benign valuation" % f["name"])
            if r is not False:
                residual.append((r, e))
                named_in(r, named)
        args = " ".join(["(a_%s : Nat)" % p for p in scal] + ["(p_%s : Bool)" % m for m in named])
        av = " ".join(["a_" + p for p in scal] + ["p_" + m for m in named])
        out.append("-- `%s` (%s:%s): leading argument checks.  opaque atoms: %s" % (
            f["name"], f["src"], f["line"], "; ".join("o %d = `%s`" % (i, a) for i, a in enumerate(ch["atoms"])) or "-"))
        out.append("/-- unnamed atoms under the benign valuation (pointers valid, optional pointers absent): %s;  named predicates: %s -/" % (
            ", ".join("o %d := %s" % (i, "true" if b else "false") for i, b in enumerate(benign)) or "-", ", ".join(named) or "-"))
        out.append("def check_%s %s : Option Nat :=" % (n, args))
        for r, e in residual:
            out.append("  if %s then some %d else" % (prop_any(r), e))
        out.append("  none\n")
        evals.append((n, len(scal), len(named)))
        # documented conditions: scalar items and named prose items, in the header's order
        d = docs.get(f["name"])
        if not d:
            rep["no_scalar_doc"].append(f["name"])
            continue
        items = []          # (class, cond, text) in header order
        for en, text in d["items"]:
            en2 = ALIASES.get(en, en)
            if en2 not in codes:
                rep["unknown_err_names"].append("%s:%s" % (f["name"], en))
                continue
            try:
                items.append((codes[en2], parse_cond(text, set(scal)), text))
                continue
            except ParseError:
                pass
            hit = next((nm for rx, nm in PROSE_ATOMS if re.match(rx, text)), None)
            if hit and hit in named:
                items.append((codes[en2], ("named", hit), text))
                rep["prose_items_named"] += 1
            elif hit:
                rep["named_items_after_cascade"].append("%s:%s" % (f["name"], hit))
                rep["prose_items"] += 1
            else:
                rep["prose_items"] += 1
        if not items:
            rep["no_scalar_doc"].append(f["name"])
            continue
        per_err = {}
        for e, c, t in items:
            per_err.setdefault(e, []).append((c, t))
        doms = []
        for e in sorted(per_err):
            conj = " ∧ ".join(prop_any(c) for c, _ in per_err[e])
            out.append("/-- documented (%s): returns %d unless  %s -/" % (d["header"], e, " ; ".join(t for _, t in per_err[e])))
            out.append("def dom_%s_%d %s : Prop := %s" % (n, e, args, conj))
            doms.append(e)
        call = "check_%s %s" % (n, av)
        alldom = " ∧ ".join("dom_%s_%d %s" % (n, e, av) for e in doms)
        alts = ["(%s = some %d ∧ ¬ dom_%s_%d %s)" % (call, e, n, e, av) for e in doms]
        bounds = " ".join("(h_%s : a_%s < W)" % (p, p) for p in scal) if any(uses_arith(c) for c, _ in residual) or any(uses_arith(c) for _, c, _ in items) else ""
        defs = ", ".join(["W"] + ["dom_%s_%d" % (n, e) for e in doms])
        csplit = "".join("cases p_%s <;> " % m for m in named)
        fin = "%sfirst | omega | (simp at * <;> omega) | simp_all" % csplit
        tail = ("generalize hr : %s = r\n  simp only [check_%s] at hr\n  simp only [%s] at *\n"
                "  repeat' split at hr\n  all_goals (subst hr; %s)") % (call, n, defs, fin)
        def wrap(body):
            return "  " + body
        pf = wrap("intro hd\n  " + tail)
        thms.append((n, "/-- outside the documented domain `%s` returns a documented class whose condition is violated -/\n"
                        "theorem contract_%s %s %s :\n    ¬ (%s) →\n    %s := by\n%s" % (f["name"], n, args, bounds, alldom, " ∨\n    ".join(alts), pf), doms))
        if f["name"] in EXTRA_CHECKS:
            rep["partial"].append("%s: %s" % (f["name"], EXTRA_CHECKS[f["name"]]))
        else:
            thms.append((n, "/-- inside the documented domain (pointers valid) `%s` passes its argument checks -/\n"
                            "theorem accept_%s %s %s :\n    %s → %s = none := by\n%s" % (f["name"], n, args, bounds, alldom, call, pf), doms))
            # ORDER: the class returned is that of the first violated item in the header's listing order
            if len(items) >= 2 and order_agrees(residual, [(e, c) for e, c, _ in items], scal, named):
                out.append("/-- the header's \\expect items of `%s` in listing order: class of the first one violated -/" % f["name"])
                out.append("def first_%s %s : Option Nat :=" % (n, args))
                for e, c, t in items:
                    out.append("  if ¬ %s then some %d else" % (prop_any(c), e))
                out.append("  none")
                pfo = wrap("generalize hr : %s = r\n  generalize hq : first_%s %s = q\n  simp only [check_%s] at hr\n  simp only [first_%s] at hq\n"
                           "  try simp only [W] at *\n  repeat' split at hr\n  all_goals (repeat' split at hq)\n"
                           "  all_goals (subst hr; subst hq; %sfirst | rfl | omega | (simp at * <;> omega) | simp_all)" % (call, n, av, n, n, csplit))
                thms.append((n, "/-- ORDER: `%s` returns the class of the FIRST \\expect item (header listing order) that is violated -/\n"
                                "theorem order_%s %s %s :\n    %s = first_%s %s := by\n%s" % (f["name"], n, args, bounds, call, n, av, pfo), doms))
                rep["order_theorems"].append(f["name"])
            elif len(items) >= 2:
                rep["order_differs"].append(f["name"])
        rep["contracts"].append(f["name"])
        out.append("")
    # guards over small-integer fields inside buffers
    out.append("-- guards over small-integer fields inside data buffers (`if (… p[i] …) return ERR_X`): v = the field, C integer promotion -> Int")
    for f in fns:
        for i, (fld, ir, cls) in enumerate(f.get("fguards", [])):
            if ir[0] == "unrecognised":
                rep.setdefault("field_guards_unrecognised", []).append("%s: %s" % (f["name"], ir[1]))
                continue
            out.append("/-- `%s` (%s), field `%s`, returns %d -/" % (f["name"], f["src"], fld, cls))
            out.append("def fguard_%s_%d (v : Int) : Prop := %s" % (f["lname"], i, fguard_prop(ir)))
            rep.setdefault("field_guards", []).append((f["name"], fld, cls))
    out.append("")
    # private-key range checks found in the code
    out.append("-- private-key range checks of the code (`if (…) return ERR_BAD_PRIVKEY`): d = the key, q = the bound it is compared with")
    for f in fns:
        for i, (ir, key) in enumerate(f.get("ranges", [])):
            if ir[0] == "other":
                rep.setdefault("range_checks_unrecognised", []).append("%s: %s" % (f["name"], key))
                continue
            out.append("/-- `%s` (%s), key variable `%s` -/" % (f["name"], f["src"], key))
            out.append("def range_%s_%d (d q : Nat) : Prop := %s" % (f["lname"], i, range_prop(ir)))
            rep.setdefault("range_checks", []).append((f["name"], f["lname"], i))
    out.append("")
    # evaluator for the driver
    out.append("/-- evaluate a cascade by name on scalar arguments (benign valuation; named predicates true) -/")
    out.append("def evalCheck (name : String) (a : Array Nat) : Option (Option Nat) :=")
    for n, k, m in evals:
        out.append('  if name = "%s" then (if a.size = %d then some (check_%s %s) else none) else' % (
            n, k, n, " ".join(["(a[%d]!)" % i for i in range(k)] + ["true"] * m)))
    out.append("  none\n")
    out.append("def names : List String := [%s]\n" % ", ".join('"%s"' % n for n, _, _ in evals))
    out.append("end Bee2V.Gen.C09Checks")
    return "\n".join(out) + "\n", thms, rep


if __name__ == "__main__":
    fns, bad = x_cfg.translate_all()
    text, thms, rep = generate(fns)
    if len(sys.argv) > 1 and sys.argv[1] == "--report":
        print(rep)
        for n, t, _ in thms:
            print(t)
    else:
        sys.stdout.write(text)

#!/usr/bin/env python3
"""C09 spec extractor: the `\\expect{ERR_X}` lists of the headers -> documented scalar domains.

For every function prototype `err_t f(...)` in include/bee2/crypto/*.h and include/bee2/core/*.h
the Doxygen block in front of it is read; every `\\expect{ERR_X}` item written in C-like
syntax over the function's scalar parameters (`2 <= mod && mod <= 65536`, `0 < threshold <=
count < = 16`, `count % 16 == 0 && count >= 32`, `t != TIME_ERR`) is parsed into a condition;
items in prose (pointer validity, key correctness …) are kept as text only (not part of the
scalar contract).  Chained comparisons mean the conjunction of their links.

Together with x_cfg.checks_of (the cascade the code implements) this module renders
`Bee2V.Gen.C09Checks`:  check_f, benign_f, dom_f_<err>, and the theorem contract_f.
"""
import os, re, sys
sys.path.insert(0, os.path.dirname(__file__))
import x_cfg
from clangast import Unhandled

ALIASES = {"ERR_BAD_PARAM": "ERR_BAD_PARAMS"}      # bash.h writes ERR_BAD_PARAM
# committed: functions whose remaining argument checks are made by a callee that receives the
# same-named scalar arguments unchanged (validated: the callee is called and has those scalars)
DELEGATE = {"belsShare3": "belsShare2"}
# committed: the code rejects MORE than the scalar conditions written in the header (an
# undocumented or prose-documented extra check) — `accept_f` is not claimed for these
EXTRA_CHECKS = {"belsRecover": "count == 0 is rejected (ERR_BAD_INPUT), the header gives no bound on count",
                "belsRecover2": "count == 0 and count > 16 are rejected (ERR_BAD_INPUT), the header gives no bound on count",
                "bpkiPrivkeyWrap": "privkey_len outside {24,32,48,64} -> ERR_BAD_PRIVKEY (documented in prose)",
                "bpkiShareWrap": "share_len outside {17,25,33} -> ERR_BAD_SECKEY (documented in prose)"}
CONSTS = {"SIZE_MAX": 2 ** 64 - 1, "TIME_ERR": 2 ** 64 - 1}


def err_codes():
    codes = {"ERR_OK": 0}
    for line in open(os.path.join(x_cfg.repo(), "include/bee2/core/err.h"), errors="replace"):
        m = re.match(r"#define\s+(ERR_\w+)\s+_ERR_REG\((\d+)\)", line)
        if m:
            codes[m.group(1)] = int(m.group(2))
    return codes


# ------------------------------------------------------------------ header scanning
def header_files():
    out = []
    for sub in ("include/bee2/crypto", "include/bee2/core"):
        d = os.path.join(x_cfg.repo(), sub)
        for f in sorted(os.listdir(d)):
            if f.endswith(".h"):
                out.append(os.path.join(sub, f))
    return out


def doc_blocks():
    """yield (function name, doc text, header) for each `/*! … */ err_t name(`"""
    for h in header_files():
        txt = open(os.path.join(x_cfg.repo(), h), encoding="utf8", errors="replace").read()
        for m in re.finditer(r"/\*!(.*?)\*/\s*err_t\s+(\w+)\s*\(", txt, flags=re.S):
            yield m.group(2), m.group(1), h


def expect_items(doc):
    """[(err name, item text)] of a doc block"""
    items = []
    # split into \tag chunks
    chunks = re.split(r"(?=\\(?:expect|return|remark|pre|brief|warning|safe|todo|post)\b)", doc)
    for ch in chunks:
        m = re.match(r"\\expect\{(\w+)\}(.*)", ch, flags=re.S)
        if not m:
            continue
        err, body = m.group(1), m.group(2)
        body = body.strip()
        lines = [l.strip() for l in body.split("\n")]
        if any(l.startswith("-") for l in lines):
            cur = None
            for l in lines:
                if l == ".":
                    break
                if l.startswith("-"):
                    if cur is not None:
                        items.append((err, cur))
                    cur = l[1:].strip()
                elif cur is not None:
                    cur += " " + l
            if cur is not None:
                items.append((err, cur))
        else:
            items.append((err, " ".join(lines)))
    return [(e, re.sub(r"\s+", " ", t).strip().rstrip(".;,").strip()) for e, t in items]


# ------------------------------------------------------------------ tiny parser of the C-like conditions
class ParseError(Exception):
    pass


TOK = re.compile(r"\s*(<\s*=|>\s*=|==|!=|&&|\|\||[<>!%+*/()\-]|\d+|[A-Za-z_]\w*)")


def tokenize(s):
    pos, out = 0, []
    s = s.strip()
    while pos < len(s):
        m = TOK.match(s, pos)
        if not m:
            raise ParseError("at %r" % s[pos:pos + 10])
        t = re.sub(r"\s+", "", m.group(1))
        out.append(t)
        pos = m.end()
    return out


class P:
    def __init__(self, toks, scalars):
        self.t, self.i, self.scalars = toks, 0, scalars

    def peek(self):
        return self.t[self.i] if self.i < len(self.t) else None

    def eat(self, x=None):
        t = self.peek()
        if t is None or (x is not None and t != x):
            raise ParseError("expected %s got %s" % (x, t))
        self.i += 1
        return t

    def orx(self):
        a = self.andx()
        while self.peek() == "||":
            self.eat()
            a = ("or", a, self.andx())
        return a

    def andx(self):
        a = self.chain()
        while self.peek() == "&&":
            self.eat()
            a = ("and", a, self.chain())
        return a

    def chain(self):
        if self.peek() == "!":
            self.eat()
            return ("not", self.chain())
        if self.peek() == "(":
            # parenthesised condition or arithmetic? try condition first
            save = self.i
            try:
                self.eat("(")
                c = self.orx()
                self.eat(")")
                if self.peek() not in ("<", "<=", ">", ">=", "==", "!=", "%", "+", "-", "*", "/"):
                    return c
            except ParseError:
                pass
            self.i = save
        a = self.arith()
        links = []
        while self.peek() in ("<", "<=", ">", ">=", "==", "!="):
            op = self.eat()
            b = self.arith()
            links.append(("cmp", op, a, b))
            a = b
        if not links:
            raise ParseError("no comparison")
        c = links[0]
        for l in links[1:]:
            c = ("and", c, l)
        return c

    def arith(self):
        a = self.term()
        while self.peek() in ("+", "-"):
            op = self.eat()
            a = ("add" if op == "+" else "sub", a, self.term())
        return a

    def term(self):
        a = self.atom()
        while self.peek() in ("*", "/", "%"):
            op = self.eat()
            a = ({"*": "mul", "/": "div", "%": "mod"}[op], a, self.atom())
        return a

    def atom(self):
        t = self.eat()
        if t == "(":
            a = self.arith()
            self.eat(")")
            return a
        if t.isdigit():
            return ("const", int(t))
        if t in CONSTS:
            return ("const", CONSTS[t])
        if t in self.scalars:
            return ("var", t)
        raise ParseError("identifier %s is not a scalar parameter" % t)


def parse_cond(text, scalars):
    if not re.fullmatch(r"[\x00-\x7f]*", text):
        raise ParseError("prose")
    p = P(tokenize(text), scalars)
    c = p.orx()
    if p.peek() is not None:
        raise ParseError("trailing " + str(p.peek()))
    return c


def documented():
    """{function: {"header": h, "items": [(err name, text, cond or None)]}} — cond parsed later
    against the scalar parameter list of the C definition"""
    out = {}
    for name, doc, h in doc_blocks():
        its = expect_items(doc)
        if its:
            out[name] = {"header": h, "items": its}
    return out


# ------------------------------------------------------------------ Lean rendering
def prop_expr(e):
    return x_cfg.lean_expr(e)


def prop_cond(c):
    k = c[0]
    if k == "or":
        return "(%s ∨ %s)" % (prop_cond(c[1]), prop_cond(c[2]))
    if k == "and":
        return "(%s ∧ %s)" % (prop_cond(c[1]), prop_cond(c[2]))
    if k == "not":
        return "(¬ %s)" % prop_cond(c[1])
    if k == "cmp":
        op = {"==": "=", "!=": "≠", "<": "<", "<=": "≤", ">": ">", ">=": "≥"}[c[1]]
        return "(%s %s %s)" % (prop_expr(c[2]), op, prop_expr(c[3]))
    raise Unhandled("spec cond " + k)


def polarity(c, neg, acc):
    k = c[0]
    if k == "atom":
        acc.setdefault(c[1], set()).add(neg)
    elif k == "not":
        polarity(c[1], not neg, acc)
    elif k in ("or", "and"):
        polarity(c[1], neg, acc)
        polarity(c[2], neg, acc)


def peval(c, val):
    """substitute the opaque atoms by constants and fold; returns True / False / residual cond"""
    k = c[0]
    if k == "atom":
        return val[c[1]]
    if k == "not":
        a = peval(c[1], val)
        return (not a) if isinstance(a, bool) else ("not", a)
    if k in ("or", "and"):
        a, b = peval(c[1], val), peval(c[2], val)
        absorb = (k == "or")
        if a is absorb or b is absorb:
            return absorb
        if isinstance(a, bool):
            return b
        if isinstance(b, bool):
            return a
        return (k, a, b)
    return c


def prop_code(c):
    """cascade condition (scalar residue) as a decidable Prop"""
    k = c[0]
    if k == "nz":
        return "(%s ≠ 0)" % x_cfg.lean_expr(c[1])
    if k in ("or", "and", "not", "cmp"):
        if k == "cmp":
            return prop_cond(c)
        if k == "not":
            return "(¬ %s)" % prop_code(c[1])
        return "(%s %s %s)" % (prop_code(c[1]), "∨" if k == "or" else "∧", prop_code(c[2]))
    raise Unhandled("code cond " + k)


def uses_arith(c):
    if c[0] in ("add", "sub", "mul"):
        return True
    return any(isinstance(x, tuple) and uses_arith(x) for x in c[1:])


def generate(fns):
    """-> (Lean text of Bee2V.Gen.C09Checks, report dict)"""
    codes = err_codes()
    docs = documented()
    rep = {"functions_with_cascade": 0, "contracts": [], "partial": [], "no_scalar_doc": [], "prose_items": 0,
           "unknown_err_names": []}
    out = ["-- GENERATED by xlate/x_c09spec.py (headers' \\expect lists) and xlate/x_cfg.py (argument-check cascades) — do not edit.",
           "set_option linter.unusedVariables false", "namespace Bee2V.Gen.C09Checks", "", "/-- size_t arithmetic wraps modulo 2^64 -/", "def W : Nat := 2 ^ 64", ""]
    evals = []
    thms = []
    byname = {f["name"]: f for f in fns}
    for f in fns:
        ch = f["checks"]
        if f["name"] in DELEGATE:
            g = byname.get(DELEGATE[f["name"]])
            if g is None or g["name"] not in f["calls"] or not set(g["checks"]["scalars"]) <= set(ch["scalars"]):
                raise Unhandled("delegation %s -> %s no longer holds" % (f["name"], DELEGATE[f["name"]]))
            off = len(ch["atoms"])

            def shift(c):
                if c[0] == "atom":
                    return ("atom", c[1] + off)
                return tuple(shift(x) if isinstance(x, tuple) else x for x in c)
            ch = dict(ch)
            ch["list"] = ch["list"] + [(shift(c), e) for c, e in g["checks"]["list"]]
            ch["atoms"] = ch["atoms"] + ["%s: %s" % (g["name"], a) for a in g["checks"]["atoms"]]
        if not ch["list"] or f["static"]:
            continue
        rep["functions_with_cascade"] += 1
        n = f["lname"]
        used = []
        for c, e in ch["list"]:
            x_cfg.vars_of_cond(c, used)
        scal = [p for p in ch["scalars"]]
        args = " ".join("(a_%s : Nat)" % p for p in scal)
        # benign valuation of the opaque atoms
        pol = {}
        for c, e in ch["list"]:
            polarity(c, False, pol)
        benign = []
        for i, a in enumerate(ch["atoms"]):
            ps = pol.get(i, set())
            # literal `o i` (not negated) raises the error when true -> benign false;
            # literal `!o i` raises it when false -> benign true; both: false
            benign.append(ps == {True})
        out.append("-- `%s` (%s:%s): leading argument checks.  opaque atoms: %s" % (
            f["name"], f["src"], f["line"], "; ".join("o %d = `%s`" % (i, a) for i, a in enumerate(ch["atoms"])) or "-"))
        avs = " ".join("a_" + p for p in scal)
        residual = []
        for c, e in ch["list"]:
            r = peval(c, benign)
            if r is True:
                raise Unhandled("%s: a check fires under the benign valuation" % f["name"])
            if r is not False:
                residual.append((r, e))
        out.append("/-- benign valuation (pointers valid, generators present): %s -/" % (", ".join("o %d := %s" % (i, "true" if b else "false") for i, b in enumerate(benign)) or "-"))
        out.append("def check_%s %s : Option Nat :=" % (n, args))
        for r, e in residual:
            out.append("  if %s then some %d else" % (prop_code(r), e))
        out.append("  none\n")
        evals.append((n, len(scal)))
        # documented scalar conditions
        d = docs.get(f["name"])
        if not d:
            rep["no_scalar_doc"].append(f["name"])
            continue
        per_err = {}
        for en, text in d["items"]:
            en2 = ALIASES.get(en, en)
            if en2 not in codes:
                rep["unknown_err_names"].append("%s:%s" % (f["name"], en))
                continue
            try:
                c = parse_cond(text, set(scal))
                per_err.setdefault(codes[en2], []).append((c, text))
            except ParseError:
                rep["prose_items"] += 1
        if not per_err:
            rep["no_scalar_doc"].append(f["name"])
            continue
        doms = []
        for e in sorted(per_err):
            conj = " ∧ ".join(prop_cond(c) for c, _ in per_err[e])
            out.append("/-- documented (%s): returns %d unless  %s -/" % (d["header"], e, " ; ".join(t for _, t in per_err[e])))
            out.append("def dom_%s_%d %s : Prop := %s" % (n, e, args, conj))
            doms.append(e)
        av = " ".join("a_" + p for p in scal)
        call = "check_%s %s" % (n, av)
        alldom = " ∧ ".join("dom_%s_%d %s" % (n, e, av) for e in doms)
        alts = ["(%s = some %d ∧ ¬ dom_%s_%d %s)" % (call, e, n, e, av) for e in doms]
        bounds = " ".join("(h_%s : a_%s < W)" % (p, p) for p in scal) if any(uses_arith(c) for c, _ in residual) or any(uses_arith(c) for e in per_err for c, _ in per_err[e]) else ""
        defs = ", ".join(["W"] + ["dom_%s_%d" % (n, e) for e in doms])
        proof = ("  intro hd\n  generalize hr : %s = r\n  simp only [check_%s] at hr\n  simp only [%s] at *\n"
                 "  repeat' split at hr\n  all_goals (subst hr; first | omega | (simp <;> omega))" % (call, n, defs))
        thms.append((n, "/-- outside the documented scalar domain `%s` returns a documented class whose condition is violated -/\n"
                        "theorem contract_%s %s %s :\n    ¬ (%s) →\n    %s := by\n%s" % (f["name"], n, args, bounds, alldom, " ∨\n    ".join(alts), proof), doms))
        if f["name"] in EXTRA_CHECKS:
            rep["partial"].append("%s: %s" % (f["name"], EXTRA_CHECKS[f["name"]]))
        else:
            thms.append((n, "/-- inside the documented scalar domain (pointers valid) `%s` passes its argument checks -/\n"
                            "theorem accept_%s %s %s :\n    %s → %s = none := by\n%s" % (f["name"], n, args, bounds, alldom, call, proof), doms))
        rep["contracts"].append(f["name"])
        out.append("")
    # evaluator for the driver
    out.append("/-- evaluate a cascade by name on scalar arguments (benign valuation of the opaque atoms) -/")
    out.append("def evalCheck (name : String) (a : Array Nat) : Option (Option Nat) :=")
    for n, k in evals:
        out.append('  if name = "%s" then (if a.size = %d then some (check_%s %s) else none) else' % (
            n, k, n, " ".join("(a[%d]!)" % i for i in range(k))))
    out.append("  none\n")
    out.append("def names : List String := [%s]\n" % ", ".join('"%s"' % n for n, _ in evals))
    out.append("end Bee2V.Gen.C09Checks")
    return "\n".join(out) + "\n", thms, rep


if __name__ == "__main__":
    fns, bad = x_cfg.translate_all()
    text, thms, rep = generate(fns)
    if len(sys.argv) > 1 and sys.argv[1] == "--report":
        print(rep)
        for n, t, _ in thms:
            print(t)
    else:
        sys.stdout.write(text)

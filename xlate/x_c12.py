"""C12 translator: factor base and small-prime products of src/math/pri.c  ->  lean/Bee2V/Gen/C12Tables.lean

Source of truth is /repo's current working tree.  Extracted:
  * `static const word _base[]`                       (the 1024 odd primes of the factor base)
  * `static const pri_prod_t _prods[]`                one list per `#if (B_PER_W == ..)` arm (16 / 32 / else = 64)
  * `const word _bases16/_bases32/_bases64[]`         the Miller-Rabin base sets
The thresholds and comparison operators of priIsPrimeW are NOT translated: they are hand-written in
Bee2V/C12/ModelPri.lean and tied by the correspondence run (so a `<` turned into `<=` is a disagreement).
Fail-closed: an unrecognised shape raises XlateError.
"""
import collections, os, re

REPO = os.environ.get("BEE2_REPO", "/repo")


class XlateError(Exception):
    pass


def _strip_comments(t):
    t = re.sub(r"/\*.*?\*/", " ", t, flags=re.S)
    return re.sub(r"//[^\n]*", " ", t)


def _nums(body):
    toks = [x.strip() for x in body.replace("\n", " ").split(",")]
    out = []
    for x in toks:
        if x == "":
            continue
        m = re.fullmatch(r"(\d+)[uU]?[lL]{0,2}", x)
        if not m:
            raise XlateError("unrecognised initialiser element %r" % x[:40])
        out.append(int(m.group(1)))
    return out


def extract():
    src = _strip_comments(open(os.path.join(REPO, "src", "math", "pri.c"), encoding="utf-8", errors="replace").read())
    m = re.search(r"static\s+const\s+word\s+_base\[\]\s*=\s*\{(.*?)\};", src, flags=re.S)
    if not m:
        raise XlateError("_base[] not found")
    base = _nums(m.group(1))
    m = re.search(r"static\s+const\s+pri_prod_t\s+_prods\[\]\s*=\s*\{(.*?)\n\};", src, flags=re.S)
    if not m:
        raise XlateError("_prods[] not found")
    body = m.group(1) + "\n"
    arms = re.split(r"#\s*(?:if|elif|else|endif)[^\n]*\n", body)
    heads = re.findall(r"#\s*(if|elif|else|endif)([^\n]*)\n", body)
    if [h[0] for h in heads] != ["if", "elif", "else", "endif"] or "B_PER_W == 16" not in heads[0][1] \
            or "B_PER_W == 32" not in heads[1][1] or arms[0].strip() or arms[4].strip():
        raise XlateError("_prods[]: unexpected preprocessor structure %r" % (heads,))
    prods = {}
    for w, arm in zip((16, 32, 64), arms[1:4]):
        ents = re.findall(r"\{\s*(\d+)[uU]?\s*,\s*(\d+)\s*\}", arm)
        rest = re.sub(r"\{\s*\d+[uU]?\s*,\s*\d+\s*\}", "", arm).replace(",", "").strip()
        if rest or not ents:
            raise XlateError("_prods[%d]: unrecognised text %r" % (w, rest[:40]))
        prods[w] = [(int(a), int(b)) for a, b in ents]
    bases = {}
    for w in (16, 32, 64):
        m = re.search(r"const\s+word\s+_bases%d\[\]\s*=\s*\{([^}]*)\};" % w, src)
        if not m:
            raise XlateError("_bases%d[] not found" % w)
        bases[w] = _nums(m.group(1))
    if len(base) < 16:
        raise XlateError("_base[] too short")
    return base, prods, bases


def extract_lr(rel):
    """`static size_t const _ls[]` / `_rs[]` of stb99.c / pfok.c: the admissible (l, r) pairs"""
    src = _strip_comments(open(os.path.join(REPO, rel), encoding="utf-8", errors="replace").read())
    out = []
    for nm in ("_ls", "_rs"):
        m = re.search(r"static\s+size_t\s+const\s+%s\[\]\s*=\s*\{([^}]*)\};" % nm, src)
        if not m:
            raise XlateError("%s: %s[] not found" % (rel, nm))
        out.append(_nums(m.group(1)))
    if len(out[0]) != len(out[1]) or not out[0]:
        raise XlateError("%s: _ls/_rs lengths differ" % rel)
    return list(zip(out[0], out[1]))


def _src(rel):
    return _strip_comments(open(os.path.join(REPO, rel), encoding="utf-8", errors="replace").read())


def _one(rel, pattern, what):
    """the unique match of `pattern` in the file (fail-closed: none or several -> error)"""
    ms = re.findall(pattern, _src(rel), flags=re.S)
    if len(ms) != 1:
        raise XlateError("%s: %s: expected exactly one occurrence, found %d" % (rel, what, len(ms)))
    return ms[0]


def extract_consts():
    """numeric constants of the validators' condition lists (MOV thresholds, size bounds, chain margins)"""
    c = collections.OrderedDict()
    c["movBign"] = int(_one("src/crypto/bign/bign_params.c", r"ecpIsSafeGroup\(ec,\s*(\d+)\s*,\s*stack\)", "MOV threshold of bignParamsVal"))
    c["movBignGen"] = int(_one("src/crypto/bign/bign_params.c", r"ecpMOVIsMet\(q,\s*p,\s*n,\s*(\d+)\s*,\s*stack\)", "MOV threshold of bignParamsGen"))
    c["movBign96"] = int(_one("src/crypto/bign96.c", r"ecpIsSafeGroup\(ec,\s*(\d+)\s*,\s*stack\)", "MOV threshold of bign96ParamsVal"))
    a, b, d = _one("src/crypto/g12s.c", r"ecpIsSafeGroup\(ec,\s*params->l\s*==\s*(\d+)\s*\?\s*(\d+)\s*:\s*(\d+)\s*,\s*stack\)",
                   "MOV thresholds of g12sParamsVal")
    if a != "256":
        raise XlateError("g12s.c: the MOV threshold is not selected by l == 256")
    c["movG12s256"], c["movG12s512"] = int(b), int(d)
    c["movDstu"] = int(_one("src/crypto/dstu.c", r"ec2IsSafeGroup\(ec,\s*(\d+)\s*,\s*stack\)", "MOV threshold of dstuParamsVal"))
    c["dstuOrderBits"] = int(_one("src/crypto/dstu.c", r"wwBitSize\(ec->order,\s*ec->f->n\)\s*<=\s*(\d+)", "order size bound of dstuParamsVal"))
    lo, hi = _one("src/crypto/dstu.c", r"\(m = params->p\[0\]\)\s*<\s*(\d+)\s*\|\|\s*m\s*>\s*(\d+)", "extension degree bounds of dstuEcCreate")
    c["dstuMinM"], c["dstuMaxM"] = int(lo), int(hi)
    bs = re.findall(r"params->l\s*==\s*(\d+)\s*&&\s*nb\s*<=\s*(\d+)", _src("src/crypto/g12s.c"))
    if [x[0] for x in bs] != ["256", "512", "256", "512"]:
        raise XlateError("g12s.c: bit-size bounds of g12sEcCreate not recognised: %r" % (bs,))
    c["g12sPBits256"], c["g12sPBits512"], c["g12sQBits256"], c["g12sQBits512"] = [int(x[1]) for x in bs]
    for nm, rel, arr in (("stb99DiMargin", "src/crypto/stb99.c", "di"), ("stb99RiMargin", "src/crypto/stb99.c", "ri"),
                         ("pfokLiMargin", "src/crypto/pfok.c", "li")):
        m = _one(rel, r"5 \* seed->%s\[i\] >= 4 \* seed->%s\[i - 1\]((?:\s*-\s*\d+)?)\s*\)" % (arr, arr), "chain rule of %s" % arr)
        c[nm] = int(m.replace("-", "").strip() or "0")
    return c


def _arr(name, xs, per=16):
    lines = []
    for i in range(0, len(xs), per):
        lines.append("  " + ", ".join(str(x) for x in xs[i:i + per]))
    return "def %s : Array Nat := #[\n%s]\n" % (name, ",\n".join(lines))


def generate():
    base, prods, bases = extract()
    out = ["/- GENERATED by xlate/x_c12.py from src/math/pri.c -- do not edit.\n"
           "   Regenerated from /repo's working tree by every `./check C12`. -/\n"
           "namespace Bee2V.Gen.C12\n"]
    out.append("/-- `_base[]`: the factor base -/\n" + _arr("base", base))
    for w in (16, 32, 64):
        out.append("/-- `_prods[]` for B_PER_W == %d: (product, number of factors) -/\n" % w +
                   "def prods%d : Array (Nat × Nat) := #[\n%s]\n" % (w, ",\n".join(
                       "  " + ", ".join("(%d, %d)" % p for p in prods[w][i:i + 6]) for i in range(0, len(prods[w]), 6))))
    for w in (16, 32, 64):
        out.append("def bases%d : List Nat := [%s]\n" % (w, ", ".join(str(x) for x in bases[w])))
    for nm, rel in (("stb99Ls", "src/crypto/stb99.c"), ("pfokLs", "src/crypto/pfok.c")):
        lr = extract_lr(rel)
        out.append("/-- (l, r) pairs `_ls[i]`, `_rs[i]` of %s -/\ndef %s : List (Nat × Nat) := [%s]\n" %
                   (rel, nm, ", ".join("(%d, %d)" % x for x in lr)))
    out.append("end Bee2V.Gen.C12\n")
    return "\n".join(out)


def generate_consts():
    """Bee2V/Gen/C12Consts.lean (a separate file: a changed constant must not rebuild the factor-base lemmas)"""
    cs = extract_consts()
    out = ["/- GENERATED by xlate/x_c12.py from bign_params.c, bign96.c, g12s.c, dstu.c, stb99.c, pfok.c -- do not edit.\n"
           "   Numeric constants of the validators' condition lists, as written in the source. -/\n"
           "namespace Bee2V.Gen.C12\n"]
    for k, v in cs.items():
        out.append("def %s : Nat := %d" % (k, v))
    out.append("\nend Bee2V.Gen.C12\n")
    return "\n".join(out)


if __name__ == "__main__":
    import sys
    sys.stdout.write(generate_consts() if sys.argv[1:] == ["consts"] else generate())

#!/usr/bin/env python3
"""Translator: the constant tables of src/crypto/belt/belt_block.c  ->  Lean `Bee2V.Gen.C03Belt`.

Extracted from the clang-14 JSON AST of the CURRENT source (after preprocessing, so the
H16/HEx16 macros are expanded by the compiler, not by us):

  H    : `static const octet H[256]`   the S-box; also beltH() (= initial value of the hash variable h)
  H5, H13, H21, H29 : `static const u32 Hr[256]`  the "extended H-blocks" used by the G5/G13/G21 macros

Every initialiser is evaluated by a tiny constant folder that knows exactly the operators the
tables are written with (integer literals, casts to u32/octet, <<, >>, |, ^, &, +, -, parentheses)
with C's unsigned-int wrap-around; anything else raises Unhandled (fail-closed).

The model (lean/Bee2V/C03/Belt.lean) computes G_r exactly as the macros do, from H5..H29:
    G5(x)  = H5[x & 255] ^ H13[x >> 8 & 255] ^ H21[x >> 16 & 255] ^ H29[x >> 24]     etc.
These four tables are the code's optimisation of the standard's
    G_r(x) = RotHi^r( H[x0] | H[x1] << 8 | H[x2] << 16 | H[x3] << 24 );
whether the current tables satisfy  Hr[b] == RotHi^r(H[b])  is reported in the generated file
(`tablesMatchStandard`), it is not required for the translation to succeed.

It is also checked (fail-closed) that beltH() returns H itself.
"""
import sys, os
sys.path.insert(0, os.path.dirname(__file__))
import clangast
from clangast import Unhandled, tu_ast, tu_function

SRC = "src/crypto/belt/belt_block.c"
EXTRA = ("-DNDEBUG",)

_WIDTH = {"unsigned int": (32, False), "int": (32, True), "unsigned char": (8, False),
          "unsigned long": (64, False), "long": (64, True)}


def _ty(n):
    t = n.get("type", {})
    q = t.get("desugaredQualType", t.get("qualType", "?"))
    q = q.replace("const ", "").strip()
    if q not in _WIDTH:
        raise Unhandled("constant of type " + q)
    return _WIDTH[q]


def _fit(v, n):
    bits, signed = _ty(n)
    if signed:
        if not (-(1 << (bits - 1)) <= v < (1 << (bits - 1))):
            raise Unhandled("signed overflow in a table initialiser")
        return v
    return v % (1 << bits)


def const_eval(n):
    k = n["kind"]
    if k in ("ParenExpr", "ConstantExpr"):
        return const_eval(n["inner"][0])
    if k in ("ImplicitCastExpr", "CStyleCastExpr"):
        ck = n.get("castKind")
        if ck not in ("IntegralCast", "NoOp"):
            raise Unhandled("cast kind %s in a table initialiser" % ck)
        return _fit(const_eval(n["inner"][0]), n)
    if k == "IntegerLiteral":
        return _fit(int(n["value"]), n)
    if k == "BinaryOperator":
        op = n["opcode"]
        a, b = (const_eval(c) for c in n["inner"])
        bits, _ = _ty(n)
        if op in ("<<", ">>"):
            if not (0 <= b < bits):
                raise Unhandled("shift count %d out of range" % b)
            if a < 0:
                raise Unhandled("shift of a negative value")
            return _fit(a << b if op == "<<" else a >> b, n)
        if op == "|":
            return _fit(a | b, n)
        if op == "^":
            return _fit(a ^ b, n)
        if op == "&":
            return _fit(a & b, n)
        if op == "+":
            return _fit(a + b, n)
        if op == "-":
            return _fit(a - b, n)
        raise Unhandled("operator %s in a table initialiser" % op)
    raise Unhandled("table initialiser node " + k)


def table(name, elem, size=256):
    """values of the file-scope `static const <elem> name[size] = {...}`."""
    found = [n for n in tu_ast(SRC, EXTRA).get("inner", [])
             if n.get("kind") == "VarDecl" and n.get("name") == name]
    if len(found) != 1:
        raise Unhandled("table %s: %d definitions" % (name, len(found)))
    v = found[0]
    if v.get("type", {}).get("qualType") != "const %s[%d]" % (elem, size):
        raise Unhandled("table %s has type %s" % (name, v.get("type", {}).get("qualType")))
    inits = [c for c in v.get("inner", []) if c["kind"] == "InitListExpr"]
    if len(inits) != 1:
        raise Unhandled("table %s: no initialiser list" % name)
    il = inits[0]
    if "array_filler" in il or len(il.get("inner", [])) != size:
        raise Unhandled("table %s: initialiser list is not %d explicit entries" % (name, size))
    bits = 8 if elem == "octet" else 32
    vals = []
    for e in il["inner"]:
        x = const_eval(e)
        if not (0 <= x < (1 << bits)):
            raise Unhandled("table %s: entry out of range" % name)
        vals.append(x)
    return vals


def check_beltH():
    """`const octet* beltH() { return H; }`"""
    _, body = tu_function(SRC, "beltH", EXTRA)
    st = [c for c in body.get("inner", []) if c["kind"] != "NullStmt"]
    if len(st) != 1 or st[0]["kind"] != "ReturnStmt":
        raise Unhandled("beltH: body is not a single return")
    e = st[0]["inner"][0]
    while e["kind"] in ("ImplicitCastExpr", "ParenExpr"):
        e = e["inner"][0]
    if not (e["kind"] == "DeclRefExpr" and e["referencedDecl"]["name"] == "H"
            and e["referencedDecl"]["kind"] == "VarDecl"):
        raise Unhandled("beltH does not return H")


def rotl(x, r):
    return ((x << r) | (x >> (32 - r))) & 0xFFFFFFFF


def lean_array(name, ty, vals, per):
    lit = (lambda v: "0x%02x" % v) if ty == "UInt8" else (lambda v: "0x%08x" % v)
    rows = [", ".join(lit(v) for v in vals[i:i + per]) for i in range(0, len(vals), per)]
    return "def %s : Array %s := #[\n  %s]\n" % (name, ty, ",\n  ".join(rows))


def generate():
    check_beltH()
    H = table("H", "octet")
    ext = {r: table("H%d" % r, "u32") for r in (5, 13, 21, 29)}
    std = all(ext[r][b] == rotl(H[b], r) for r in ext for b in range(256))
    out = []
    out.append("-- GENERATED by xlate/x_c03belt.py from %s — do not edit." % SRC)
    out.append("-- H = the S-box (`static const octet H[256]`, returned by beltH());")
    out.append("-- H5/H13/H21/H29 = the extended H-blocks read by the macros G5/G13/G21")
    out.append("-- (the code's optimisation of the standard's G_r(x) = RotHi^r(H[x0] | H[x1]<<8 | H[x2]<<16 | H[x3]<<24)).")
    out.append("namespace Bee2V.Gen.C03Belt\n")
    out.append(lean_array("H", "UInt8", H, 16))
    for r in (5, 13, 21, 29):
        out.append(lean_array("H%d" % r, "UInt32", ext[r], 8))
    out.append("/-- computed by the translator: does `Hr[b] = RotHi^r(H[b])` hold for all b and r ∈ {5,13,21,29}? -/")
    out.append("def tablesMatchStandard : Bool := %s\n" % ("true" if std else "false"))
    out.append("end Bee2V.Gen.C03Belt")
    return "\n".join(out) + "\n"


if __name__ == "__main__":
    sys.stdout.write(generate())

#!/usr/bin/env python3
"""Translator for C06: the routines of src/math/ecp.c as `Prog` terms, the function table of
ecpCreateJ and ecNAFWidth (src/math/ec.c)  ->  Lean `Bee2V.C06.Gen` (file Bee2V/Gen/C06Ecp.lean).

The hand-written model `Bee2V/C06/Ecp.lean` (the one the theorems are about) is tied to this output by
`Bee2V/C06/PropsGen.lean`: `theorem gen_<f> : Gen.<f> = <f> := rfl` for every routine.

How a C function becomes a program (fail-closed: every AST shape that is not listed raises
`Unhandled("unhandled:<function>:<what>")`; parsed with -DNDEBUG, so `ASSERT(e)` is exactly `((void)0)`
and that statement -- and nothing else -- is skipped):

* symbolic pointers.  A pointer expression denotes (base, k) = k field elements (k*n words) behind
  `base`: parameters a/b/c -> (a,0); `x + n` adds 1 (`ecY(a,n)` is `((a)+(n))`, `ecZ` is `((a)+(n)+(n))`);
  `word* t1 = (word*)stack; word* t2 = t1 + n; ... stack = t4 + n;` -> (S,k); `ec->A`/`ec->B` -> rA/rB.
  Parameter points are printed `cX a`/`cY a`/`cZ a`, temporaries as `let`-bound `s + k`.
  A parameter may only be addressed inside its size ([2n]/[3n], table ROUTINES), a temporary only below
  the current value of `stack` (so a callee's scratch never overlaps live temporaries).
* calls -> instructions: (f)->sqr/mul/add/sub/neg/inv/div, zzAddMod/zzSubMod/zzNegMod/zzDoubleMod/
  zzHalfMod (modulus and length must be f->mod, f->n), wwCopy of k*n words (k `copy`s; from f->unity:
  `one`), wwSetZero.  A field operand `f->unity` (qrAddUnity) is materialised by `one u` in the first
  free scratch register `u` (= the value of `stack`) immediately before the instruction.
* tests: wwIsZero -> ifz, wwCmp(x,y,n) ==/!= 0 -> ifeq (branches swapped for !=), wwEq(x, f->unity, n)
  -> ifone, `!`, `||`, `&&` -> nested tests with the shared branch duplicated.  An `if` is translated with
  the rest of the function appended to both arms (the continuation is duplicated, as the hand model does
  with `ecpAATail`).  `return;` / end of a void function / `return TRUE` -> `ret true`.
* a call of another translated routine must be the last action (`return;` or the end follows): it becomes
  an application of the generated definition, the callee's stack being the caller's current `stack`.
  `c == a ? b : a` -> `(if c = a then b else a)`.
* integer steps of ecpSWU: a temporary may hold an integer instead of a field element:
  wwCopy(x, f->mod, n) -> p;  zzSubW2(x, n, w) -> e - w;  wwShLo(x, n, k) -> e / 2^k;  zzSub(z, x, y, n)
  -> ex - ey;  qrPower(c, a, x, n, f, stack) -> `pow c a e`.  (Truncated subtraction = the C as long as
  there is no borrow: p >= 2.)  A field instruction reading an integer-valued temporary, or an integer
  step reading a field-valued one, is Unhandled.
  `mask = qrIsUnity(b, f) - SIZE_1` forks the translation: `ifone b` with mask = 0 in the first arm and
  mask = ~0 in the second; `x + (mask & n)` is then x resp. x + n.  `mask = 0` is a plain assignment.
* ecpIsOnA: the leading `if (!zmIsIn(ecX(a)) || !zmIsIn(ecY(a))) return FALSE;` (word-level range test,
  modelled outside the program: `Wrap.isOnAW`) is recognised by its exact pattern and skipped.

Stage 2, `generate_ec2()` -> Bee2V/Gen/C06Ec2.lean: the routines of src/math/ec2.c (GF(2^m), Lopez-Dahab)
with the same machinery plus: wwXor(c,a,b,n) (gf2Add) -> `add c a b`; wwXor2(b,a,n) (gf2Add2) ->
`add b b a`; tests on the coefficient registers (`qrIsUnity(ec->A)` -> `ifone rA`, `qrIsZero(ec->A)` ->
`ifz rA`); `return g(...)` in a bool routine -> tail call; a non-tail call of a void straight-line routine
without stack (`ec2NegA(t, b, ec)` in ec2SubAA) is inlined with its operands substituted, any other
non-tail call is Unhandled; ec2IsOnA: the leading `if (!ec2SeemsOnA(a, ec)) return FALSE;` =
`!((gf2Deg(f) % B_PER_W == 0 || wwCmp(xa, mod, n) < 0) && (... ya ...))` is skipped by exact pattern;
table of ec2CreateLD (nine fields, no tpl, no bA3).  `python3 x_c06_ecp.py ec2` prints that file.
"""
import sys, os
sys.path.insert(0, os.path.dirname(__file__))
from clangast import *

SRC = "src/math/ecp.c"
SRC_EC = "src/math/ec.c"
EXTRA = ("-DNDEBUG",)

# routines in dependency order (callee first); sizes of the point parameters in field elements
ROUTINES = [
    ("ecpFromAJ", {"b": 3, "a": 2}),
    ("ecpToAJ", {"b": 2, "a": 3}),
    ("ecpNegJ", {"b": 3, "a": 3}),
    ("ecpDblJ", {"b": 3, "a": 3}),
    ("ecpDblJA3", {"b": 3, "a": 3}),
    ("ecpDblAJ", {"b": 3, "a": 2}),
    ("ecpAddJ", {"c": 3, "a": 3, "b": 3}),
    ("ecpAddAJ", {"c": 3, "a": 3, "b": 2}),
    ("ecpSubJ", {"c": 3, "a": 3, "b": 3}),
    ("ecpSubAJ", {"c": 3, "a": 3, "b": 2}),
    ("ecpTplJ", {"b": 3, "a": 3}),
    ("ecpTplJA3", {"b": 3, "a": 3}),
    ("ecpIsOnA", {"a": 2}),
    ("ecpNegA", {"b": 2, "a": 2}),
    ("ecpAddAA", {"c": 2, "a": 2, "b": 2}),
    ("ecpSubAA", {"c": 2, "a": 2, "b": 2}),
    ("ecpSWU", {"b": 2, "a": 1}),
]
SKIPPED = []          # (name, reason): nothing is skipped at present
TABLE_FIELDS = ["froma", "toa", "neg", "add", "adda", "sub", "suba", "dbl", "dbla", "tpl"]
RENAME = {"s": "sr", "p": "pr", "u": "ur"}      # C locals that collide with names used by the output


def is_void0(n):
    """`((void)0)`: ASSERT under NDEBUG"""
    if n["kind"] != "ParenExpr":
        return False
    c = n["inner"][0]
    if c["kind"] != "CStyleCastExpr" or c.get("castKind") != "ToVoid":
        return False
    l = c["inner"][0]
    return l["kind"] == "IntegerLiteral" and l["value"] == "0"


class Fn:
    """translation of one routine"""

    def __init__(self, name, sizes, done, src=None):
        self.src = src or SRC
        self.name = name
        self.sizes = sizes
        self.done = done            # name -> Fn of the routines translated so far
        self.decl, self.body = tu_function(self.src, name, EXTRA)
        self.void = self.decl["type"]["qualType"].startswith("void ")
        if not self.void and not self.decl["type"]["qualType"].startswith("bool_t "):
            self.bad("return type")
        self.cparams = [c["name"] for c in self.decl.get("inner", []) if c["kind"] == "ParmVarDecl"]
        pts = [p for p in self.cparams if p not in ("ec", "stack")]
        if set(pts) != set(sizes) or "ec" not in self.cparams:
            self.bad("parameters " + ",".join(self.cparams))
        self.points = pts           # point parameters in C order
        self.has_stack = "stack" in self.cparams
        self.locals = []            # (C name, offset) of the temporaries, declaration order
        self.uses_s = False
        self.uses_p = False
        self.uses_u = None          # offset of the synthetic unity register
        self.top = 0                # largest value of `stack`
        self.notes = []
        env = {"stack": ("ptr", "S", 0) if self.has_stack else None, "_int": {}, "_reg": set()}
        self.prog = self.stmts(list(self.body.get("inner", [])), env)

    # ---------------------------------------------------------------- errors
    def bad(self, what):
        raise Unhandled("unhandled:%s:%s" % (self.name, what))

    # ---------------------------------------------------------------- expressions
    def ev(self, n, env):
        n = strip(n)
        k = n["kind"]
        if k == "IntegerLiteral":
            return ("int", int(n["value"]))
        if k == "DeclRefExpr":
            nm = n["referencedDecl"]["name"]
            if n["referencedDecl"]["kind"] == "ParmVarDecl":
                if nm in self.sizes:
                    return ("ptr", nm, 0)
                if nm == "ec":
                    return ("ec",)
                if nm == "stack":
                    if env["stack"] is None:
                        self.bad("stack")
                    return env["stack"]
                self.bad("parameter " + nm)
            if n["referencedDecl"]["kind"] == "VarDecl" and nm in env and not nm.startswith("_"):
                if env[nm] is None:
                    self.bad("read of uninitialised " + nm)
                return env[nm]
            self.bad("reference to " + nm)
        if k == "MemberExpr":
            if not n.get("isArrow"):
                self.bad("member access .")
            base = self.ev(n["inner"][0], env)
            f = n["name"]
            if base == ("ec",):
                if f == "f":
                    return ("fld",)
                if f == "A":
                    return ("reg", "rA")
                if f == "B":
                    return ("reg", "rB")
            if base == ("fld",):
                if f == "n":
                    return ("nn", 1)
                if f == "unity":
                    return ("unity",)
                if f == "mod":
                    return ("mod",)
            self.bad("member " + f)
        if k == "BinaryOperator":
            op = n["opcode"]
            if op in ("+", "*", "-", "&"):
                x = self.ev(n["inner"][0], env)
                y = self.ev(n["inner"][1], env)
                if op == "+" and x[0] == "ptr" and y[0] == "nn":
                    return ("ptr", x[1], x[2] + y[1])
                if op == "*" and x[0] == "int" and y[0] == "nn":
                    return ("nn", x[1] * y[1])
                if op == "*" and x[0] == "nn" and y[0] == "int":
                    return ("nn", x[1] * y[1])
                if op == "-" and x[0] == "test" and y == ("int", 1):
                    return ("mask", x)         # TRUE - 1 = 0, FALSE - 1 = ~0
                if op == "&" and y == ("nn", 1) and x == ("int", 0):
                    return ("nn", 0)
                if op == "&" and y == ("nn", 1) and x == ("allones",):
                    return ("nn", 1)
                self.bad("operator %s on %s,%s" % (op, x[0], y[0]))
            if op in ("==", "!=", "<", "||", "&&"):
                return self.test(n, env)
            self.bad("operator " + op)
        if k == "UnaryOperator" and n["opcode"] == "!":
            return self.test(n, env)
        if k == "CallExpr":
            return self.test(n, env)
        if k == "ConditionalOperator":
            c, x, y = n["inner"]
            c = strip(c)
            if c["kind"] == "BinaryOperator" and c["opcode"] == "==":
                p = self.ev(c["inner"][0], env)
                q = self.ev(c["inner"][1], env)
                x = self.ev(x, env)
                y = self.ev(y, env)
                if all(v[0] == "ptr" and v[1] in self.sizes and v[2] == 0 for v in (p, q, x, y)):
                    return ("cond", p[1], q[1], x[1], y[1])
            self.bad("conditional expression")
        self.bad("expr " + k)

    def test(self, n, env):
        """boolean expression -> ('test', ...)"""
        n = strip(n)
        k = n["kind"]
        if k == "UnaryOperator" and n["opcode"] == "!":
            return ("test", "not", self.test(n["inner"][0], env))
        if k == "BinaryOperator" and n["opcode"] in ("||", "&&"):
            return ("test", "or" if n["opcode"] == "||" else "and",
                    self.test(n["inner"][0], env), self.test(n["inner"][1], env))
        if k == "BinaryOperator" and n["opcode"] == "<=":
            # gf2IsIn after docs/C06.fix-2.diff: wwBitSize(a, (f)->n) <= gf2Deg(f)  (degree test) — same role as
            # the integer comparison with the modulus of the unrepaired macro: the word-level range test
            l, r = strip(n["inner"][0]), strip(n["inner"][1])
            if l["kind"] == "CallExpr" and self.callee(l) == "wwBitSize" and len(l["inner"]) == 3 and \
                    r["kind"] == "CallExpr" and self.callee(r) == "gf2Deg" and len(r["inner"]) == 2:
                a = [self.ev(x, env) for x in l["inner"][1:]]
                if a[1] == ("nn", 1) and a[0][0] == "ptr" and self.ev(r["inner"][1], env) == ("fld",):
                    return ("test", "inrange", a[0])
            self.bad("<= test")
        if k == "BinaryOperator" and n["opcode"] in ("==", "!=", "<"):
            c = strip(n["inner"][0])
            z = strip(n["inner"][1])
            if not (z["kind"] == "IntegerLiteral" and z["value"] == "0"):
                self.bad("comparison with non-zero")
            if c["kind"] == "BinaryOperator" and c["opcode"] == "%" and n["opcode"] == "==":
                g, w = strip(c["inner"][0]), strip(c["inner"][1])
                if g["kind"] == "CallExpr" and self.callee(g) == "gf2Deg" and len(g["inner"]) == 2 and \
                        self.ev(g["inner"][1], env) == ("fld",) and w["kind"] == "IntegerLiteral":
                    return ("test", "aligned")        # gf2Deg(f) % B_PER_W == 0 (only inside gf2IsIn)
                self.bad("remainder test")
            if c["kind"] != "CallExpr" or self.callee(c) != "wwCmp":
                self.bad("comparison of a non-wwCmp value")
            a = [self.ev(x, env) for x in c["inner"][1:]]
            if len(a) != 3 or a[2] != ("nn", 1):
                self.bad("wwCmp arguments")
            if n["opcode"] == "<":
                if a[1] != ("mod",) or a[0][0] != "ptr":
                    self.bad("wwCmp < 0")
                return ("test", "inrange", a[0])
            t = ("test", "eq", a[0], a[1])
            return t if n["opcode"] == "==" else ("test", "not", t)
        if k == "CallExpr":
            f = self.callee(n)
            a = [self.ev(x, env) for x in n["inner"][1:]]
            if f == "wwIsZero" and len(a) == 2 and a[1] == ("nn", 1):
                return ("test", "z", a[0])
            if f == "wwEq" and len(a) == 3 and a[1] == ("unity",) and a[2] == ("nn", 1):
                return ("test", "one", a[0])
            self.bad("test call " + str(f))
        self.bad("test " + k)

    def callee(self, call):
        c = strip(call["inner"][0])
        if c["kind"] == "DeclRefExpr" and c["referencedDecl"]["kind"] == "FunctionDecl":
            return c["referencedDecl"]["name"]
        return None

    # ---------------------------------------------------------------- registers
    def chk(self, p, env, what):
        """p must be a single field register that may be accessed now"""
        if p[0] == "reg":
            if what == "w":
                self.bad("write to " + p[1])
            return
        if p[0] != "ptr":
            self.bad("operand " + p[0])
        base, off = p[1], p[2]
        if base == "S":
            st = env["stack"]
            if not (0 <= off < st[2]):
                self.bad("temporary at/after stack")
            self.uses_s = True
        elif not (0 <= off < self.sizes[base]):
            self.bad("offset %d outside parameter %s" % (off, base))

    def rd(self, p, env):
        self.chk(p, env, "r")
        if p[0] == "ptr" and p[1] == "S" and p[2] in env["_int"]:
            self.bad("field read of an integer-valued temporary")
        return p

    def wr(self, p, env):
        self.chk(p, env, "w")
        if p[0] == "ptr" and p[1] == "S":
            env["_int"].pop(p[2], None)
        return p

    def intreg(self, p, env, write):
        if p[0] != "ptr" or p[1] != "S":
            self.bad("integer step on a non-temporary")
        self.chk(p, env, "w" if write else "r")
        if not write and p[2] not in env["_int"]:
            self.bad("integer read of a field-valued temporary")
        return p[2]

    def fld_tail(self, args, env, with_stack):
        """trailing `r[, stack]` arguments of a qr call"""
        want = [("fld",)] + ([env["stack"]] if with_stack else [])
        if args != want or (with_stack and env["stack"] is None):
            self.bad("ring/stack arguments")

    def mod_tail(self, args):
        if args != [("mod",), ("nn", 1)]:
            self.bad("modulus/length arguments")

    # ---------------------------------------------------------------- statements
    def call(self, n, env):
        """a call statement -> list of instructions (possibly empty), or ('app', ...) for a routine"""
        c = strip(n["inner"][0])
        args = [self.ev(x, env) for x in n["inner"][1:]]
        ins = []

        def src(p):
            # a source operand; f->unity is materialised in the first free scratch register
            if p == ("unity",):
                st = env["stack"]
                if st is None:
                    self.bad("unity operand without stack")
                if self.uses_u not in (None, st[2]):
                    self.bad("unity register moves")
                self.uses_u = st[2]
                self.uses_s = True
                u = ("ptr", "U", st[2])
                ins.append(("one", [u]))
                return u
            return self.rd(p, env)

        if c["kind"] == "MemberExpr":
            if not c.get("isArrow") or self.ev(c["inner"][0], env) != ("fld",):
                self.bad("indirect call")
            f = c["name"]
            shape = {"sqr": (2, True), "mul": (3, True), "add": (3, False), "sub": (3, False),
                     "neg": (2, False), "inv": (2, True), "div": (3, True)}
            if f not in shape:
                self.bad("ring operation " + f)
            k, ws = shape[f]
            if len(args) != k + 1 + ws:
                self.bad("arity of " + f)
            self.fld_tail(args[k:], env, ws)
            ss = [src(p) for p in args[1:k]]
            d = self.wr(args[0], env)
            ins.append((f, [d] + ss))
            return ins
        f = self.callee(n)
        if f in ("zzAddMod", "zzSubMod"):
            if len(args) != 5:
                self.bad("arity of " + f)
            self.mod_tail(args[3:])
            ss = [src(p) for p in args[1:3]]
            ins.append(({"zzAddMod": "add", "zzSubMod": "sub"}[f], [self.wr(args[0], env)] + ss))
            return ins
        if f in ("zzNegMod", "zzDoubleMod", "zzHalfMod"):
            if len(args) != 4:
                self.bad("arity of " + f)
            self.mod_tail(args[2:])
            ss = [src(args[1])]
            ins.append(({"zzNegMod": "neg", "zzDoubleMod": "dbl", "zzHalfMod": "half"}[f],
                        [self.wr(args[0], env)] + ss))
            return ins
        if f == "wwXor":                     # gf2Add(c, a, b, f)
            if len(args) != 4 or args[3] != ("nn", 1):
                self.bad("wwXor arguments")
            ss = [src(p) for p in args[1:3]]
            ins.append(("add", [self.wr(args[0], env)] + ss))
            return ins
        if f == "wwXor2":                    # gf2Add2(b, a, f): b <- b + a
            if len(args) != 3 or args[2] != ("nn", 1):
                self.bad("wwXor2 arguments")
            ss = [self.rd(args[0], env), src(args[1])]
            ins.append(("add", [self.wr(args[0], env)] + ss))
            return ins
        if f == "wwSetZero":
            if len(args) != 2 or args[1] != ("nn", 1):
                self.bad("wwSetZero arguments")
            return [("zero", [self.wr(args[0], env)])]
        if f == "wwCopy":
            if len(args) != 3 or args[2][0] != "nn" or args[2][1] < 1:
                self.bad("wwCopy arguments")
            cnt = args[2][1]
            d, s = args[0], args[1]
            if s == ("unity",):
                if cnt != 1:
                    self.bad("wwCopy of unity")
                return [("one", [self.wr(d, env)])]
            if s == ("mod",):
                if cnt != 1:
                    self.bad("wwCopy of mod")
                off = self.intreg(d, env, True)
                env["_int"][off] = ("p",)
                self.uses_p = True
                return []
            if d[0] != "ptr" or s[0] != "ptr":
                self.bad("wwCopy operands")
            for i in range(cnt):
                si = self.rd(("ptr", s[1], s[2] + i), env)
                di = self.wr(("ptr", d[1], d[2] + i), env)
                ins.append(("copy", [di, si]))
            return ins
        if f == "zzSubW2":
            if len(args) != 3 or args[1] != ("nn", 1) or args[2][0] != "int":
                self.bad("zzSubW2 arguments")
            off = self.intreg(args[0], env, False)
            env["_int"][off] = ("sub", env["_int"][off], ("lit", args[2][1]))
            return []
        if f == "wwShLo":
            if len(args) != 3 or args[1] != ("nn", 1) or args[2][0] != "int":
                self.bad("wwShLo arguments")
            off = self.intreg(args[0], env, False)
            env["_int"][off] = ("div", env["_int"][off], ("lit", 2 ** args[2][1]))
            return []
        if f == "zzSub":
            if len(args) != 4 or args[3] != ("nn", 1):
                self.bad("zzSub arguments")
            x = self.intreg(args[1], env, False)
            y = self.intreg(args[2], env, False)
            e = ("sub", env["_int"][x], env["_int"][y])
            z = self.intreg(args[0], env, True)
            env["_int"][z] = e
            return []
        if f == "qrPower":
            if len(args) != 6 or args[3] != ("nn", 1):
                self.bad("qrPower arguments")
            self.fld_tail(args[4:], env, True)
            e = env["_int"][self.intreg(args[2], env, False)]
            a = self.rd(args[1], env)
            d = self.wr(args[0], env)
            return [("pow", [d, a, ("exp", e)])]
        if f in self.done:
            g = self.done[f]
            want = len(g.points) + 1 + g.has_stack
            if len(args) != want or args[len(g.points)] != ("ec",):
                self.bad("arguments of " + f)
            out = []
            for nm, v in zip(g.points, args):
                size = g.sizes[nm]
                if v[0] == "cond":
                    for q in v[1:]:
                        if self.sizes[q] < size:
                            self.bad("point too small for " + f)
                    out.append(v)
                    continue
                if v[0] != "ptr":
                    self.bad("point argument of " + f)
                for i in range(size):
                    self.chk(("ptr", v[1], v[2] + i), env, "r")
                    if v[1] == "S" and v[2] + i in env["_int"]:
                        self.bad("integer-valued temporary passed to " + f)
                out.append(v)
            if g.has_stack:
                if args[-1] != env["stack"] or env["stack"] is None:
                    self.bad("stack argument of " + f)
                if g.uses_s:
                    self.uses_s = True
                    out.append(("stk", env["stack"][2]))
            if g.uses_p:
                self.bad("callee needs the modulus")
            if g.void != self.void:
                self.bad("result of %s" % f)
            return ("app", f, out)
        self.bad("call of " + str(f))

    def inline(self, n, env):
        """non-tail call of a void straight-line routine without scratch: its instructions, operands
        substituted (`ec2NegA(t, b, ec)` inside ec2SubAA)"""
        f = self.callee(n)
        g = self.done[f]
        args = [self.ev(x, env) for x in n["inner"][1:]]
        if not g.void or g.uses_s or g.uses_p or g.has_stack:
            self.bad("non-tail call of " + f)
        if g.prog[0] == "block" and g.prog[2] == ("ret", True):
            body = g.prog[1]
        else:
            self.bad("non-tail call of " + f)
        if len(args) != len(g.points) + 1 or args[-1] != ("ec",):
            self.bad("arguments of " + f)
        m = {}
        for nm, v in zip(g.points, args):
            if v[0] != "ptr":
                self.bad("point argument of " + f)
            m[nm] = v

        def sub(p):
            if p[0] == "reg":
                return p
            if p[0] == "ptr" and p[1] in m:
                return ("ptr", m[p[1]][1], m[p[1]][2] + p[2])
            self.bad("operand of inlined " + f)
        ins = []
        for op, ops in body:
            ss = [self.rd(sub(p), env) for p in ops[1:]]
            ins.append((op, [self.wr(sub(ops[0]), env)] + ss))
        return ins

    @staticmethod
    def exp(e, minprec=0):
        """exponent term -> Lean (`-` is infixl 65, `/` infixl 70 on Nat)"""
        if e[0] == "p":
            return "p"
        if e[0] == "lit":
            return str(e[1])
        prec = {"sub": 65, "div": 70}[e[0]]
        t = "%s %s %s" % (Fn.exp(e[1], prec), {"sub": "-", "div": "/"}[e[0]], Fn.exp(e[2], prec + 1))
        return "(" + t + ")" if prec < minprec else t

    def branch(self, t, env, th, el):
        """test -> program; th/el: env -> program (called on private copies of env)"""
        kind = t[1]
        if kind == "not":
            return self.branch(t[2], env, el, th)
        if kind == "or":
            return self.branch(t[2], env, th, lambda e: self.branch(t[3], e, th, el))
        if kind == "and":
            return self.branch(t[2], env, lambda e: self.branch(t[3], e, th, el), el)
        if kind == "z":
            r = self.rd(t[2], env)
            return ("ifz", r, th(self.fork(env)), el(self.fork(env)))
        if kind == "one":
            r = self.rd(t[2], env)
            return ("ifone", r, th(self.fork(env)), el(self.fork(env)))
        if kind == "eq":
            r = self.rd(t[2], env)
            q = self.rd(t[3], env)
            return ("ifeq", r, q, th(self.fork(env)), el(self.fork(env)))
        self.bad("test " + kind)

    @staticmethod
    def fork(env):
        e = dict(env)
        e["_int"] = dict(env["_int"])
        e["_reg"] = set(env["_reg"])
        return e

    def is_range_guard(self, n, env):
        """`if (!zmIsIn(ecX(a), f) || !zmIsIn(ecY(a, n), f)) return FALSE;` of ecpIsOnA"""
        if self.name not in ("ecpIsOnA", "ec2IsOnA") or n.get("hasElse") or len(n["inner"]) != 2:
            return False
        try:
            t = self.test(n["inner"][0], env)
        except Unhandled:
            return False
        a = self.points[0]
        want = ("test", "or", ("test", "not", ("test", "inrange", ("ptr", a, 0))),
                ("test", "not", ("test", "inrange", ("ptr", a, 1))))
        if self.name == "ec2IsOnA":          # !ec2SeemsOnA(a, ec) = !(gf2IsIn(xa) && gf2IsIn(ya))
            isin = lambda i: ("test", "or", ("test", "aligned"), ("test", "inrange", ("ptr", a, i)))
            want = ("test", "not", ("test", "and", isin(0), isin(1)))
        if t != want:
            return False
        b = n["inner"][1]
        while b["kind"] == "CompoundStmt" and len(b.get("inner", [])) == 1:
            b = b["inner"][0]
        if b["kind"] != "ReturnStmt" or not b.get("inner"):
            return False
        return self.ev(b["inner"][0], env) == ("int", 0)

    def stmts(self, lst, env):
        """remaining statements up to the end of the function -> program"""
        if not lst:
            if self.void:
                return ("ret", True)
            self.bad("end of a non-void function")
        n, rest = lst[0], lst[1:]
        k = n["kind"]
        if k == "NullStmt" or is_void0(n):
            return self.stmts(rest, env)
        if k == "CompoundStmt":
            return self.stmts(list(n.get("inner", [])) + rest, env)
        if k == "ParenExpr":
            # a parenthesised expression statement: the macros ecpSetO / ec2SetO expand to `(e1, e2, e3)`
            return self.stmts([n["inner"][0]] + rest, env)
        if k == "BinaryOperator" and n.get("opcode") == ",":
            # comma expression used as a statement: its operands in order
            return self.stmts([n["inner"][0], n["inner"][1]] + rest, env)
        if k == "DeclStmt":
            for v in n.get("inner", []):
                if v["kind"] != "VarDecl":
                    self.bad("declaration " + v["kind"])
                nm = v["name"]
                if nm in env or nm.startswith("_") or nm in self.sizes or nm in ("ec", "stack"):
                    self.bad("redeclaration of " + nm)
                init = [c for c in v.get("inner", [])]
                if not init:
                    if v.get("storageClass") != "register":
                        self.bad("uninitialised non-register local " + nm)
                    env[nm] = None
                    env["_reg"].add(nm)
                    continue
                if len(init) != 1:
                    self.bad("initialiser of " + nm)
                val = self.ev(init[0], env)
                if nm == "n":
                    if val != ("nn", 1):
                        self.bad("n is not ec->f->n")
                elif val[0] == "ptr" and val[1] == "S":
                    self.locals.append((nm, val[2]))
                else:
                    self.bad("local " + nm)
                env[nm] = val
            return self.stmts(rest, env)
        if k == "BinaryOperator" and n["opcode"] == "=":
            l = strip(n["inner"][0])
            if l["kind"] != "DeclRefExpr":
                self.bad("assignment to " + l["kind"])
            nm = l["referencedDecl"]["name"]
            val = self.ev(n["inner"][1], env)
            if nm == "stack" and l["referencedDecl"]["kind"] == "ParmVarDecl":
                if val[0] != "ptr" or val[1] != "S" or val[2] < env["stack"][2]:
                    self.bad("stack assignment")
                env["stack"] = val
                self.top = max(self.top, val[2])
                return self.stmts(rest, env)
            if nm in env["_reg"]:
                if val[0] == "mask":
                    def arm(v):
                        def go(e):
                            e[nm] = v
                            return self.stmts(rest, e)
                        return go
                    return self.branch(val[1], env, arm(("int", 0)), arm(("allones",)))
                if val == ("int", 0):
                    env[nm] = val
                    return self.stmts(rest, env)
            self.bad("assignment to " + nm)
        if k == "ReturnStmt":
            inner = n.get("inner", [])
            if self.void:
                if inner:
                    self.bad("return value in a void function")
                return ("ret", True)
            if len(inner) != 1:
                self.bad("return without value")
            v0 = strip(inner[0])
            if v0["kind"] == "CallExpr" and self.callee(v0) in self.done:
                return self.call(v0, env)           # `return g(...)`: tail call, same result
            v = self.ev(inner[0], env)
            if v in (("int", 0), ("int", 1)):
                return ("ret", v[1] == 1)
            if v[0] == "test":
                return self.branch(v, env, lambda e: ("ret", True), lambda e: ("ret", False))
            self.bad("return value")
        if k == "IfStmt":
            if self.is_range_guard(n, env):
                self.notes.append("leading range test zmIsIn(xa) && zmIsIn(ya) skipped (modelled in Wrap.isOnAW)"
                                  if self.name == "ecpIsOnA" else
                                  "leading range test ec2SeemsOnA(a) skipped (done by the wrapper)")
                return self.stmts(rest, env)
            parts = n["inner"]
            if len(parts) not in (2, 3) or (len(parts) == 3) != bool(n.get("hasElse")):
                self.bad("if statement shape")
            t = self.test(parts[0], env)
            th = lambda e: self.stmts([parts[1]] + rest, e)
            el = (lambda e: self.stmts([parts[2]] + rest, e)) if len(parts) == 3 else \
                 (lambda e: self.stmts(rest, e))
            return self.branch(t, env, th, el)
        if k == "CallExpr":
            if self.callee(n) in self.done:
                tail = [x for x in self.flat(rest) if not (x["kind"] == "NullStmt" or is_void0(x))]
                if self.void and (not tail or (tail[0]["kind"] == "ReturnStmt" and not tail[0].get("inner"))):
                    return self.call(n, env)        # tail call of another routine
                r = self.inline(n, env)             # non-tail call of a straight-line routine
            else:
                r = self.call(n, env)
            k2 = self.stmts(rest, env)
            if not r:
                return k2
            if k2[0] == "block":
                return ("block", r + k2[1], k2[2])
            return ("block", r, k2)
        self.bad(k + (" " + n["opcode"] if "opcode" in n else ""))

    def flat(self, lst):
        out = []
        for x in lst:
            if x["kind"] == "CompoundStmt":
                out += self.flat(x.get("inner", []))
            else:
                out.append(x)
        return out

    # ---------------------------------------------------------------- printing
    def lname(self, nm):
        return RENAME.get(nm, nm)

    def idx(self, p, used):
        if p[0] == "reg":
            return p[1]
        if p[0] == "exp":
            return self.exp(p[1], 1024)
        if p[0] == "stk":
            return "s" if p[1] == 0 else "(s + %d)" % p[1]
        if p[0] == "cond":
            return "(if %s = %s then %s else %s)" % p[1:]
        base, off = p[1], p[2]
        if base == "U":
            used.add("u")
            return "u"
        if base == "S":
            for nm, o in self.locals:
                if o == off:
                    used.add(nm)
                    nxt = min([x for _, x in self.locals if x > o] + [self.top])
                    return "(cX %s)" % self.lname(nm) if nxt - o > 1 else self.lname(nm)
            # inside a multi-register temporary (`t` of ecpSubJ)
            for nm, o in reversed(self.locals):
                if o < off <= o + 2:
                    used.add(nm)
                    return "(%s %s)" % (["cX", "cY", "cZ"][off - o], self.lname(nm))
            return "s" if off == 0 else "(s + %d)" % off
        if self.sizes[base] == 1:
            return base
        return "(%s %s)" % (["cX", "cY", "cZ"][off], base)

    def point(self, p, used):
        """a whole point passed to a routine: its base index"""
        if p[0] == "ptr" and p[1] != "S":
            if p[2] != 0:
                self.bad("interior pointer passed as a point")
            return p[1]
        if p[0] == "ptr":
            for nm, o in self.locals:
                if o == p[2]:
                    used.add(nm)
                    return self.lname(nm)
            return "s" if p[2] == 0 else "(s + %d)" % p[2]
        return self.idx(p, used)

    def show(self, g, ind, used):
        pad = "  " * ind
        if g[0] == "ret":
            return pad + "(ret %s)" % ("true" if g[1] else "false")
        if g[0] == "block":
            lines = [pad + "(block ["]
            body = ["%s  %s %s" % (pad, op, " ".join(self.idx(a, used) for a in args)) for op, args in g[1]]
            lines.append(",\n".join(body) + "]")
            lines.append(self.show(g[2], ind + 1, used) + ")")
            return "\n".join(lines)
        if g[0] in ("ifz", "ifone"):
            return "%s(%s %s\n%s\n%s)" % (pad, g[0], self.idx(g[1], used),
                                          self.show(g[2], ind + 1, used), self.show(g[3], ind + 1, used))
        if g[0] == "ifeq":
            return "%s(ifeq %s %s\n%s\n%s)" % (pad, self.idx(g[1], used), self.idx(g[2], used),
                                               self.show(g[3], ind + 1, used), self.show(g[4], ind + 1, used))
        if g[0] == "app":
            return "%s(%s %s)" % (pad, g[1], " ".join(self.point(a, used) for a in g[2]))
        self.bad("program node " + g[0])

    def lean_params(self):
        ps = list(self.points) + (["s"] if self.uses_s else [])
        return ps

    def lean(self):
        used = set()
        body = self.show(self.prog, 1, used)
        sig = ("(p : Nat) " if self.uses_p else "") + "(%s : Nat)" % " ".join(self.lean_params())
        out = ["/-- `%s` of %s%s -/" % (self.name, self.src, "".join("; " + x for x in self.notes))]
        out.append("def %s %s : Prog :=" % (self.name, sig))
        lets = []
        for nm, o in self.locals:
            if nm in used:
                lets.append("let %s := %s" % (self.lname(nm), "s" if o == 0 else "s + %d" % o))
        if "u" in used:
            lets.append("let u := s + %d" % self.uses_u)
        for i in range(0, len(lets), 4):
            out.append("  " + "; ".join(lets[i:i + 4]))
        out.append(body)
        return "\n".join(out) + "\n"


def count(g):
    """(instructions, tests, returns, calls) of a program -- for the header"""
    if g[0] == "ret":
        return (0, 0, 1, 0)
    if g[0] == "app":
        return (0, 0, 0, 1)
    if g[0] == "block":
        c = count(g[2])
        return (c[0] + len(g[1]), c[1], c[2], c[3])
    subs = [count(x) for x in g[-2:]]
    return (subs[0][0] + subs[1][0], 1 + subs[0][1] + subs[1][1], subs[0][2] + subs[1][2], subs[0][3] + subs[1][3])


# -------------------------------------------------------------------- ecpCreateJ
def refs(n):
    return {x["referencedDecl"]["name"] for x in walk(n) if x.get("kind") == "DeclRefExpr"}


def create_table(names, fnname="ecpCreateJ", src=None, fields=None, with_ba3=True):
    """function table of ecpCreateJ (ec2CreateLD) and the definition of bA3 (none in ec2CreateLD).
    -> ([(field, fn_if_bA3, fn_otherwise)], Lean term of bA3 over `f : Fld F`, `A : F`)"""
    src = src or SRC
    TABLE_FIELDS = fields or globals()["TABLE_FIELDS"]
    ALL_FIELDS = globals()["TABLE_FIELDS"]

    def bad(w):
        raise Unhandled("unhandled:%s:%s" % (fnname, w))
    decl, body = tu_function(src, fnname, EXTRA)

    def is_ec_member(n, fields):
        n = strip(n)
        if n["kind"] != "MemberExpr" or not n.get("isArrow") or n["name"] not in fields:
            return None
        b = strip(n["inner"][0])
        if b["kind"] == "DeclRefExpr" and b["referencedDecl"]["name"] == "ec":
            return n["name"]
        return None

    def fn_of(n):
        n = strip(n)
        if n["kind"] == "DeclRefExpr" and n["referencedDecl"]["kind"] == "FunctionDecl":
            return n["referencedDecl"]["name"]
        bad("table entry " + n["kind"])

    def is_var(n, nm):
        n = strip(n)
        return n["kind"] == "DeclRefExpr" and n["referencedDecl"]["name"] == nm

    def f_member(n):
        """`f->x` / `(f)->x` for the parameter f"""
        n = strip(n)
        if n["kind"] == "MemberExpr" and n.get("isArrow") and is_var(n["inner"][0], "f"):
            return n["name"]
        return None

    table, tval, ba3 = {}, None, (None if with_ba3 else "-")
    top = list(body.get("inner", []))
    # the table fields must not be assigned anywhere but at top level
    for st in top:
        for x in walk(st):
            if x is st:
                continue
            if x.get("kind") == "BinaryOperator" and x.get("opcode") == "=" and \
                    is_ec_member(x["inner"][0], ALL_FIELDS):
                bad("nested assignment to a table field")
    for st in top:
        if is_void0(st):
            continue
        if st["kind"] == "BinaryOperator" and st["opcode"] == "=":
            fld = is_ec_member(st["inner"][0], ALL_FIELDS)
            if fld:
                if fld not in TABLE_FIELDS:
                    bad("unexpected table field " + fld)
                if fld in table:
                    bad("field %s assigned twice" % fld)
                if ba3 is None:
                    bad("table filled before bA3 is known")
                r = strip(st["inner"][1])
                if r["kind"] == "ConditionalOperator":
                    if not with_ba3:
                        bad("conditional table entry")
                    if not is_var(r["inner"][0], "bA3"):
                        bad("table condition")
                    table[fld] = (fn_of(r["inner"][1]), fn_of(r["inner"][2]))
                else:
                    table[fld] = (fn_of(r), fn_of(r))
                continue
        r = refs(st)
        if not with_ba3 or not (r & {"t", "bA3"}):
            continue                       # the rest of ecpCreateJ is outside this translation
        if st["kind"] == "DeclStmt":
            for v in st.get("inner", []):
                if v.get("name") in ("t", "bA3") and v.get("inner"):
                    bad("initialised declaration of " + v["name"])
            continue
        if st["kind"] == "BinaryOperator" and st["opcode"] == "=":
            l, rr = st["inner"]
            if is_ec_member(l, ["deep"]) and "t" not in r:
                continue                   # stack depth: reads bA3, not part of the table
            if is_var(l, "t"):
                if not is_var(rr, "stack"):
                    bad("t is not the stack")
                tval = "?"
                continue
            if is_var(l, "bA3"):
                e = strip(rr)
                if e["kind"] == "IntegerLiteral" and e["value"] == "0" and ba3 is not None and \
                        set(table) == set(TABLE_FIELDS):
                    continue               # register clean-up after the table is complete
                if ba3 is not None or e["kind"] != "BinaryOperator" or e["opcode"] != "==":
                    bad("definition of bA3")
                c, z = strip(e["inner"][0]), strip(e["inner"][1])
                if not (z["kind"] == "IntegerLiteral" and z["value"] == "0" and c["kind"] == "CallExpr"):
                    bad("definition of bA3")
                cal = strip(c["inner"][0])
                a = c["inner"][1:]
                if not (cal["kind"] == "DeclRefExpr" and cal["referencedDecl"]["name"] == "wwCmp" and
                        len(a) == 3 and is_var(a[0], "t") and is_ec_member(a[1], ["A"]) == "A" and
                        f_member(a[2]) == "n") or tval in (None, "?"):
                    bad("definition of bA3")
                ba3 = "f.eqb %s A" % tval
                continue
        if st["kind"] == "CallExpr":
            cal = strip(st["inner"][0])
            a = st["inner"][1:]
            nm = cal["referencedDecl"]["name"] if cal["kind"] == "DeclRefExpr" else None

            def operand(x):
                if is_var(x, "t"):
                    if tval in (None, "?"):
                        bad("read of undefined t")
                    return tval
                if f_member(x) == "unity":
                    return "f.one"
                bad("operand of " + str(nm))
            if nm in ("zzDoubleMod", "zzNegMod") and len(a) == 4 and is_var(a[0], "t") and \
                    f_member(a[2]) == "mod" and f_member(a[3]) == "n" and tval is not None:
                tval = "(f.%s %s)" % ({"zzDoubleMod": "dbl", "zzNegMod": "neg"}[nm], operand(a[1]))
                continue
            if nm == "zzAddMod" and len(a) == 5 and is_var(a[0], "t") and \
                    f_member(a[3]) == "mod" and f_member(a[4]) == "n" and tval is not None:
                tval = "(f.add %s %s)" % (operand(a[1]), operand(a[2]))
                continue
        bad("statement using t/bA3: " + st["kind"])
    if set(table) != set(TABLE_FIELDS) or ba3 is None:
        bad("table incomplete")
    for fld in TABLE_FIELDS:
        for g in table[fld]:
            if g not in names:
                bad("table entry %s is not a translated routine" % g)
    return [(fld,) + table[fld] for fld in TABLE_FIELDS], ba3


# routines of src/math/ec2.c (Lopez-Dahab coordinates), dependency order
SRC_EC2 = "src/math/ec2.c"
ROUTINES_EC2 = [
    ("ec2FromALD", {"b": 3, "a": 2}),
    ("ec2ToALD", {"b": 2, "a": 3}),
    ("ec2NegLD", {"b": 3, "a": 3}),
    ("ec2DblLD", {"b": 3, "a": 3}),
    ("ec2DblALD", {"b": 3, "a": 2}),
    ("ec2AddLD", {"c": 3, "a": 3, "b": 3}),
    ("ec2AddALD", {"c": 3, "a": 3, "b": 2}),
    ("ec2SubLD", {"c": 3, "a": 3, "b": 3}),
    ("ec2SubALD", {"c": 3, "a": 3, "b": 2}),
    ("ec2IsOnA", {"a": 2}),
    ("ec2NegA", {"b": 2, "a": 2}),
    ("ec2AddAA", {"c": 2, "a": 2, "b": 2}),
    ("ec2SubAA", {"c": 2, "a": 2, "b": 2}),
]
TABLE_FIELDS_EC2 = ["froma", "toa", "neg", "add", "adda", "sub", "suba", "dbl", "dbla"]


# -------------------------------------------------------------------- ecNAFWidth
def naf_width():
    fnname = "ecNAFWidth"

    def bad(w):
        raise Unhandled("unhandled:%s:%s" % (fnname, w))
    decl, body = tu_function(SRC_EC, fnname, EXTRA)
    ps = [c["name"] for c in decl.get("inner", []) if c["kind"] == "ParmVarDecl"]
    if ps != ["l"]:
        bad("parameters")

    def lit(n):
        n = strip(n)
        if n["kind"] == "IntegerLiteral":
            return int(n["value"])
        bad("literal " + n["kind"])

    def go(lst):
        if not lst:
            bad("end of function")
        n, rest = lst[0], lst[1:]
        if n["kind"] == "CompoundStmt":
            return go(list(n.get("inner", [])) + rest)
        if n["kind"] == "ReturnStmt":
            return str(lit(n["inner"][0]))
        if n["kind"] == "IfStmt":
            parts = n["inner"]
            c = strip(parts[0])
            if c["kind"] != "BinaryOperator" or c["opcode"] not in (">=", ">", "<", "<=", "=="):
                bad("condition")
            v = strip(c["inner"][0])
            if not (v["kind"] == "DeclRefExpr" and v["referencedDecl"]["name"] == "l"):
                bad("condition operand")
            op = {">=": "≥", ">": ">", "<": "<", "<=": "≤", "==": "="}[c["opcode"]]
            th = go([parts[1]] + rest)
            el = go(([parts[2]] if len(parts) == 3 else []) + rest)
            return "if l %s %d then %s else %s" % (op, lit(c["inner"][1]), th, el)
        bad(n["kind"])
    return go(list(body.get("inner", [])))


# -------------------------------------------------------------------- output
def translate():
    done = {}
    for name, sizes in ROUTINES:
        done[name] = Fn(name, sizes, done)
    return done


def generate():
    done = translate()
    table, ba3 = create_table(set(done))
    width = naf_width()
    o = []
    o.append("/-")
    o.append("GENERATED by xlate/x_c06_ecp.py from %s and %s (clang-14 AST, -DNDEBUG) -- do not edit." % (SRC, SRC_EC))
    o.append("Regenerated on every run of the check; `Bee2V/C06/PropsGen.lean` proves that each definition")
    o.append("below equals the hand-written one of `Bee2V/C06/Ecp.lean` / `Naf.lean` (by `rfl`).")
    o.append("")
    o.append("Translated (instructions / tests / returns / tail calls along all branches):")
    for name, _ in ROUTINES:
        c = count(done[name].prog)
        o.append("  %-10s %3d / %d / %d / %d%s" % ((name,) + c + ("".join("   [" + x + "]" for x in done[name].notes),)))
    o.append("  ecpCreateJ: function table + definition of bA3 only (createJ_*);  ecNAFWidth (ec.c)")
    o.append("Skipped: " + (", ".join("%s (%s)" % x for x in SKIPPED) if SKIPPED else "none of the listed routines") + ".")
    o.append("Conventions: ASSERT (= `((void)0)`) skipped; `f->unity` as an operand of a ring operation is loaded")
    o.append("by `one u` into the first free scratch register; integer exponent arithmetic of ecpSWU is evaluated")
    o.append("symbolically over `p` = f->mod (truncated subtraction: exact while no borrow occurs).")
    o.append("-/")
    o.append("import Bee2V.C06.Core")
    o.append("namespace Bee2V.C06.Gen")
    o.append("open Bee2V.C06 Instr Prog")
    o.append("")
    for name, _ in ROUTINES:
        o.append(done[name].lean())
    o.append("/-- `ecpCreateJ`: `t <- 2*unity; t <- t + unity; t <- -t; bA3 <- qrCmp(t, ec->A) == 0` -/")
    o.append("def createJ_bA3 {F : Type} (f : Fld F) (A : F) : Bool :=\n  %s\n" % ba3)
    o.append("/-- `ecpCreateJ`: the interface table (field, routine if bA3, routine otherwise) -/")
    o.append("def createJ_table : List (String × String × String) :=\n  [" +
             ",\n   ".join('("%s", "%s", "%s")' % r for r in table) + "]\n")
    for fld, f1, f2 in table:
        g = done[f2]
        ty = " → ".join(["Nat"] * len(g.lean_params()) + ["Prog"])
        if f1 == f2:
            o.append("def createJ_%s : %s := %s" % (fld, ty, f1))
        else:
            if done[f1].lean_params() != g.lean_params():
                raise Unhandled("unhandled:ecpCreateJ:alternatives of %s differ in type" % fld)
            o.append("def createJ_%s (bA3 : Bool) : %s := if bA3 then %s else %s" % (fld, ty, f1, f2))
    o.append("")
    o.append("/-- `ecNAFWidth` of %s -/" % SRC_EC)
    o.append("def ecNAFWidth (l : Nat) : Nat :=\n  %s\n" % width)
    o.append("end Bee2V.C06.Gen")
    return "\n".join(o) + "\n"


def translate_ec2():
    done = {}
    for name, sizes in ROUTINES_EC2:
        done[name] = Fn(name, sizes, done, SRC_EC2)
    return done


def generate_ec2():
    """text of Bee2V/Gen/C06Ec2.lean"""
    done = translate_ec2()
    table, _ = create_table(set(done), "ec2CreateLD", SRC_EC2, TABLE_FIELDS_EC2, with_ba3=False)
    o = []
    o.append("/-")
    o.append("GENERATED by xlate/x_c06_ecp.py from %s (clang-14 AST, -DNDEBUG) -- do not edit." % SRC_EC2)
    o.append("Regenerated on every run of the check; `Bee2V/C06/PropsGen2.lean` proves that each definition")
    o.append("below equals the hand-written one of `Bee2V/C06/Ec2.lean` (by `rfl`).")
    o.append("")
    o.append("Translated (instructions / tests / returns / tail calls along all branches):")
    for name, _ in ROUTINES_EC2:
        c = count(done[name].prog)
        o.append("  %-10s %3d / %d / %d / %d%s" % ((name,) + c + ("".join("   [" + x + "]" for x in done[name].notes),)))
    o.append("  ec2CreateLD: function table only (createLD_*)")
    o.append("Skipped: none of the listed routines.")
    o.append("Conventions: ASSERT (= `((void)0)`) skipped; gf2Add(c,a,b) = wwXor -> `add c a b`; gf2Add2(b,a) = wwXor2")
    o.append("-> `add b b a`; gf2Neg = wwCopy -> `copy`; qrIsUnity(ec->A) -> `ifone rA`; the non-tail call")
    o.append("ec2NegA(t, b, ec) of ec2SubAA is inlined (straight-line callee, operands substituted).")
    o.append("-/")
    o.append("import Bee2V.C06.Core")
    o.append("namespace Bee2V.C06.Gen")
    o.append("open Bee2V.C06 Instr Prog")
    o.append("")
    for name, _ in ROUTINES_EC2:
        o.append(done[name].lean())
    o.append("/-- `ec2CreateLD`: the interface table (field, routine) -/")
    o.append("def createLD_table : List (String × String) :=\n  [" +
             ",\n   ".join('("%s", "%s")' % (r[0], r[2]) for r in table) + "]\n")
    for fld, f1, f2 in table:
        g = done[f2]
        ty = " → ".join(["Nat"] * len(g.lean_params()) + ["Prog"])
        o.append("def createLD_%s : %s := %s" % (fld, ty, f2))
    o.append("")
    o.append("end Bee2V.C06.Gen")
    return "\n".join(o) + "\n"


if __name__ == "__main__":
    sys.stdout.write(generate_ec2() if sys.argv[1:] == ["ec2"] else generate())

"""Translator of property C03: bash_f64.c / bash_prg.c / botp.c  ->  Bee2V/Gen/C03.lean

bash_f64.c is pure macro code (bashS / bashR / P0..P5 / c1..c24): clang's JSON AST of
bashF0 is several GB (every macro argument carries its expansion history), so the
function is translated from the PREPROCESSED text (`clang-14 -E -P`) by a small
tokenizer + recursive-descent parser of the C expression grammar that bashF0 uses.
The parser is fail-closed: any token, operator, statement shape or data-flow it does
not know raises Unhandled.  What is extracted:

  * every statement of bashF0, flattened to assignments; every array index is
    constant-folded with C integer semantics (this evaluates the P0..P5 macros);
  * the assignments are grouped into S-lines (12 assignments: the expansion of bashS);
    each S-line is abstracted over its three cells and the rotation amounts
    (`(x << d | x >> 64 - d)` with matching d); all 192 abstractions must be equal —
    that single template is emitted as `Gen.C03.bashS`;
  * per round: the 8 lines (cells, rotation quadruple) and the `s[k] ^= C` statement.

bash_prg.c (command codes, buf_len formulas are hand-modelled) and botp.c
(powers_of_10) are small: they are read from the clang JSON AST.
"""
import os, re, subprocess
import clangast
from clangast import Unhandled

F64 = "src/crypto/bash/bash_f64.c"
PRG = "src/crypto/bash/bash_prg.c"
BOTP = "src/crypto/botp.c"

# ------------------------------------------------------------------ tokenizer / parser
TOK = re.compile(r"\s*(?:(0[xX][0-9a-fA-F]+|\d+)([uUlL]*)|([A-Za-z_]\w*)|(<<=|>>=|<<|>>|\^=|\|=|&=|\+=|-=|==|!=|<=|>=|&&|\|\||[-+*/%&|^~!<>=?:,;()\[\]{}]))")


def tokenize(text):
    pos, out = 0, []
    text = text.strip()
    while pos < len(text):
        m = TOK.match(text, pos)
        if not m:
            raise Unhandled("bashF0: cannot tokenize at %r" % text[pos:pos + 30])
        if m.group(1) is not None:
            out.append(("num", int(m.group(1), 0), m.group(2).lower()))
        elif m.group(3) is not None:
            out.append(("id", m.group(3)))
        else:
            out.append(("op", m.group(4)))
        pos = m.end()
    return out


BIN = [  # C precedence, loosest first (only what bashF0 needs; anything else is rejected)
    ["|"], ["^"], ["&"], ["<"], ["<<", ">>"], ["+", "-"], ["*", "/", "%"]]
ASSIGN = {"=", "^=", "|="}


class P:
    def __init__(self, toks):
        self.t, self.i = toks, 0

    def peek(self):
        return self.t[self.i] if self.i < len(self.t) else ("eof",)

    def eat(self, kind, val=None):
        k = self.peek()
        if k[0] != kind or (val is not None and k[1] != val):
            raise Unhandled("bashF0: expected %s %s, got %r" % (kind, val, k))
        self.i += 1
        return k

    def isop(self, v):
        k = self.peek()
        return k[0] == "op" and k[1] == v

    # expr := assign (',' assign)*
    def comma(self):
        es = [self.assign()]
        while self.isop(","):
            self.i += 1
            es.append(self.assign())
        return es

    def assign(self):
        l = self.cond()
        k = self.peek()
        if k[0] == "op" and k[1] in ASSIGN:
            self.i += 1
            r = self.assign()
            return ("asg", k[1], l, r)
        if k[0] == "op" and k[1].endswith("=") and k[1] not in ("==", "!=", "<=", ">="):
            raise Unhandled("bashF0: assignment operator %s" % k[1])
        return l

    def cond(self):
        c = self.binary(0)
        if self.isop("?"):
            self.i += 1
            a = self.assign()
            self.eat("op", ":")
            b = self.cond()
            return ("?:", c, a, b)
        return c

    def binary(self, lvl):
        if lvl == len(BIN):
            return self.unary()
        l = self.binary(lvl + 1)
        while True:
            k = self.peek()
            if k[0] == "op" and k[1] in BIN[lvl]:
                self.i += 1
                r = self.binary(lvl + 1)
                l = ("bin", k[1], l, r)
            else:
                return l

    def unary(self):
        if self.isop("~"):
            self.i += 1
            return ("not", self.unary())
        if self.isop("("):
            # cast `(u64) unary` or parenthesised expression
            if self.t[self.i + 1] == ("id", "u64") and self.t[self.i + 2] == ("op", ")"):
                self.i += 3
                return ("cast64", self.unary())
        return self.postfix()

    def postfix(self):
        k = self.peek()
        if k[0] == "num":
            self.i += 1
            e = ("num", k[1], k[2])
        elif k[0] == "id":
            self.i += 1
            e = ("var", k[1])
        elif self.isop("("):
            self.i += 1
            es = self.comma()
            if len(es) != 1:
                raise Unhandled("bashF0: comma inside parentheses")
            self.eat("op", ")")
            e = es[0]
        else:
            raise Unhandled("bashF0: unexpected token %r" % (k,))
        while self.isop("["):
            self.i += 1
            ix = self.comma()
            if len(ix) != 1:
                raise Unhandled("bashF0: comma in index")
            self.eat("op", "]")
            e = ("idx", e, ix[0])
        return e


def ceval(e):
    """C evaluation of a constant `int` expression (values stay tiny and non-negative)."""
    k = e[0]
    if k == "num":
        if e[2] not in ("",):
            raise Unhandled("bashF0: suffixed literal in an index")
        return e[1]
    if k == "bin":
        a, b = ceval(e[2]), ceval(e[3])
        op = e[1]
        if a < 0 or b < 0 or a >= 2 ** 31 or b >= 2 ** 31:
            raise Unhandled("bashF0: index arithmetic leaves the small non-negative ints")
        if op == "+": r = a + b
        elif op == "-": r = a - b
        elif op == "*": r = a * b
        elif op == "/":
            if b == 0: raise Unhandled("bashF0: /0")
            r = a // b
        elif op == "%":
            if b == 0: raise Unhandled("bashF0: %0")
            r = a % b
        elif op == "&": r = a & b
        elif op == "|": r = a | b
        elif op == "^": r = a ^ b
        elif op == "<": r = 1 if a < b else 0
        elif op == "<<": r = a << b
        elif op == ">>": r = a >> b
        else: raise Unhandled("bashF0: operator %s in an index" % op)
        if r < 0 or r >= 2 ** 31:
            raise Unhandled("bashF0: index arithmetic overflows int")
        return r
    if k == "?:":
        return ceval(e[2]) if ceval(e[1]) != 0 else ceval(e[3])
    raise Unhandled("bashF0: non-constant index (%s)" % k)


def norm(e):
    """Normalise a value expression: fold indices, recognise u64RotHi, keep ^ | & ~."""
    k = e[0]
    if k == "var":
        if e[1] not in ("t0", "t1", "t2"):
            raise Unhandled("bashF0: unknown variable " + e[1])
        return ("tmp", e[1])
    if k == "idx":
        if e[1] != ("var", "s"):
            raise Unhandled("bashF0: indexing something else than s")
        i = ceval(e[2])
        if not 0 <= i < 24:
            raise Unhandled("bashF0: s[%d] is outside the state" % i)
        return ("cell", i)
    if k == "num":
        if e[1] >= 2 ** 64:
            raise Unhandled("bashF0: constant exceeds 64 bits")
        return ("const", e[1], e[2])
    if k == "not":
        return ("not", norm(e[1]))
    if k == "cast64":
        return norm(e[1])           # operands are u64 already (checked: cells / temporaries are u64)
    if k == "bin":
        op = e[1]
        if op in ("^", "&"):
            return (op, norm(e[2]), norm(e[3]))
        if op == "|":
            l, r = e[2], e[3]
            # u64RotHi(w, d) == (w) << (d) | (w) >> (64 - (d))
            if l[0] == "bin" and l[1] == "<<" and r[0] == "bin" and r[1] == ">>":
                w1, w2 = norm(l[2]), norm(r[2])
                d1, d2 = ceval(l[3]), ceval(r[3])
                if w1 != w2 or d1 + d2 != 64 or not 0 < d1 < 64:
                    raise Unhandled("bashF0: shift pair is not a rotation (%r<<%d | %r>>%d)" % (w1, d1, w2, d2))
                return ("rot", w1, d1)
            return ("|", norm(l), norm(r))
        raise Unhandled("bashF0: operator %s on values" % op)
    raise Unhandled("bashF0: value expression " + k)


def body_of(text, name):
    m = re.search(r"static\s+void\s+%s\s*\(\s*u64\s+s\s*\[\s*24\s*\]\s*\)\s*\{" % name, text)
    if not m:
        raise Unhandled("bashF0(u64 s[24]) not found in " + F64)
    i, depth = m.end(), 1
    while depth:
        if i >= len(text):
            raise Unhandled("bashF0: unbalanced braces")
        depth += {"{": 1, "}": -1}.get(text[i], 0)
        i += 1
    return text[m.end():i - 1]


def preprocess(src):
    cmd = ["clang-14", "-E", "-P", "-I%s/include" % clangast.REPO, "-I%s/src" % clangast.REPO,
           os.path.join(clangast.REPO, src)]
    p = subprocess.run(cmd, capture_output=True, text=True)
    if p.returncode != 0:
        raise Unhandled("clang -E failed on %s: %s" % (src, p.stderr[-400:]))
    return p.stdout


def abstract(e, cells, rots):
    k = e[0]
    if k == "cell":
        if e[1] not in cells:
            raise Unhandled("bashF0: S-line touches a 4th cell")
        return ("w", cells.index(e[1]))
    if k == "tmp":
        return e
    if k == "rot":
        rots.append(e[2])
        return ("rot", abstract(e[1], cells, rots), len(rots) - 1)
    if k == "not":
        return ("not", abstract(e[1], cells, rots))
    if k in ("^", "&", "|"):
        a = abstract(e[1], cells, rots)
        b = abstract(e[2], cells, rots)
        return (k, a, b)
    raise Unhandled("bashF0: constant inside an S-line")


def parse_bashF0():
    text = preprocess(F64)
    body = body_of(text, "bashF0")
    stmts = [s.strip() for s in body.split(";")]
    if stmts[-1] != "":
        raise Unhandled("bashF0: trailing text after the last statement")
    stmts = stmts[:-1]
    decl = [s for s in stmts if re.fullmatch(r"register\s+u64\s+t[012]", s)]
    if len(decl) != 3 or stmts[:3] != decl:
        raise Unhandled("bashF0: expected the three `register u64 t*` declarations first")
    flat = []   # (lhs, op, rhs) in execution order, with statement boundaries
    for s in stmts[3:]:
        p = P(tokenize(s))
        es = p.comma()
        if p.peek() != ("eof",):
            raise Unhandled("bashF0: trailing tokens in a statement")
        grp = []
        for e in es:
            if e[0] != "asg":
                raise Unhandled("bashF0: expression statement without effect")
            grp.append(e)
        flat.append(grp)
    # last statement: t0 = t1 = t2 = 0  (cleanup)
    last = flat.pop()
    ok = len(last) == 1
    e, seen = last[0] if ok else None, []
    while ok and e[0] == "asg":
        ok = e[1] == "=" and e[2][0] == "var"
        seen.append(e[2][1] if ok else None)
        e = e[3]
    if not ok or sorted(seen) != ["t0", "t1", "t2"] or e != ("num", 0, ""):
        raise Unhandled("bashF0: the last statement is not the cleanup `t0 = t1 = t2 = 0`")
    # group into rounds: 8 S-lines followed by `s[k] ^= C`
    if len(flat) % 9 != 0:
        raise Unhandled("bashF0: %d statements is not a multiple of 9" % len(flat))
    template, rounds = None, []
    for r in range(len(flat) // 9):
        lines = []
        for j in range(8):
            grp = flat[9 * r + j]
            asg = [(norm_lhs(a[2]), a[1], norm(a[3])) for a in grp]
            # cells in order of first appearance as in bashS(w0, w1, w2, ...): w0 is rotated first,
            # then w0 ^= w1 ^ w2
            cells = []
            for lhs, op, rhs in asg:
                for c in cells_of(rhs) + ([lhs[1]] if lhs[0] == "cell" else []):
                    if c not in cells:
                        cells.append(c)
            if len(cells) != 3:
                raise Unhandled("bashF0: an S-line uses %d distinct cells (aliasing?)" % len(cells))
            rots, tpl = [], []
            for lhs, op, rhs in asg:
                a = abstract(rhs, cells, rots)
                l = ("w", cells.index(lhs[1])) if lhs[0] == "cell" else lhs
                tpl.append((l, op, a))
            if len(rots) != 4:
                raise Unhandled("bashF0: an S-line has %d rotations" % len(rots))
            check_defined(tpl)
            if template is None:
                template = tpl
            elif template != tpl:
                raise Unhandled("bashF0: S-line %d of round %d differs from the first S-line" % (j, r + 1))
            lines.append((cells, rots))
        grp = flat[9 * r + 8]
        if len(grp) != 1:
            raise Unhandled("bashF0: constant statement of round %d" % (r + 1))
        a = grp[0]
        lhs, rhs = norm_lhs(a[2]), norm(a[3])
        if a[1] != "^=" or lhs[0] != "cell" or rhs[0] != "const" or "u" not in rhs[2] or "ll" not in rhs[2]:
            raise Unhandled("bashF0: round %d does not end with `s[k] ^= <ull constant>`" % (r + 1))
        rounds.append((lines, lhs[1], rhs[1]))
    return template, rounds


def norm_lhs(e):
    n = norm(e)
    if n[0] not in ("cell", "tmp"):
        raise Unhandled("bashF0: assignment to a non-lvalue")
    return n


def cells_of(e):
    if e[0] == "cell":
        return [e[1]]
    out = []
    for c in e[1:]:
        if isinstance(c, tuple):
            out += cells_of(c)
    return out


def check_defined(tpl):
    """temporaries must be written before they are read inside an S-line"""
    have = set()

    def rd(e):
        if e[0] == "tmp" and e[1] not in have:
            raise Unhandled("bashF0: temporary %s read before it is written in an S-line" % e[1])
        for c in e[1:]:
            if isinstance(c, tuple):
                rd(c)
    for lhs, op, rhs in tpl:
        rd(rhs)
        if op != "=":
            rd(lhs)
        if lhs[0] == "tmp":
            have.add(lhs[1])


# ------------------------------------------------------------------ Lean printer
def lean_expr(e):
    k = e[0]
    if k == "w":
        return "w%d" % e[1]
    if k == "tmp":
        return e[1]
    if k == "rot":
        return "rotHi %s r%d" % (lean_atom(e[1]), e[2])
    if k == "not":
        return "~~~ " + lean_atom(e[1])
    op = {"^": "^^^", "&": "&&&", "|": "|||"}[k]
    return "%s %s %s" % (lean_atom(e[1]), op, lean_atom(e[2]))


def lean_atom(e):
    s = lean_expr(e)
    return s if e[0] in ("w", "tmp") else "(" + s + ")"


def lean_template(tpl):
    out = ["/-- the expansion of the `bashS` macro (bash_f64.c), abstracted over its three cells and the four",
           "rotation amounts (in order of appearance: m1, n1, m2, n2) -/",
           "def bashS (r0 r1 r2 r3 : UInt64) (w0 w1 w2 : UInt64) : UInt64 × UInt64 × UInt64 :="]
    for lhs, op, rhs in tpl:
        l = lean_expr(lhs)
        r = lean_expr(rhs)
        if op == "=":
            out.append("  let %s := %s" % (l, r))
        else:
            o = {"^=": "^^^", "|=": "|||"}[op]
            out.append("  let %s := %s %s (%s)" % (l, l, o, r))
    out.append("  (w0, w1, w2)")
    return "\n".join(out)


def prg_codes():
    """first argument of the bashPrgCommit call in each command (bash_prg.c)"""
    want = {"bashPrgAbsorbStart": "codeData", "bashPrgSqueezeStart": "codeOut", "bashPrgEncrStart": "codeText",
            "bashPrgDecrStart": "codeTextDecr", "bashPrgRatchet": "codeRatchet"}
    out = {}

    def commit_args(body):
        r = []
        for n in clangast.walk(body):
            if n["kind"] == "CallExpr":
                f = clangast.strip(n["inner"][0])
                if f.get("kind") == "DeclRefExpr" and f["referencedDecl"]["name"] == "bashPrgCommit":
                    a = clangast.strip(n["inner"][1])
                    if a["kind"] != "IntegerLiteral":
                        raise Unhandled("bashPrgCommit code is not a literal")
                    r.append(int(a["value"]))
        return r
    for fn, nm in want.items():
        _, body = clangast.function_body(PRG, fn)
        a = commit_args(body)
        if len(a) != 1:
            raise Unhandled("%s: expected exactly one bashPrgCommit call" % fn)
        out[nm] = a[0]
    _, body = clangast.function_body(PRG, "bashPrgRestart")
    a = commit_args(body)
    if len(a) != 2:
        raise Unhandled("bashPrgRestart: expected two bashPrgCommit calls (key / no key)")
    out["codeKey"], out["codeNull"] = a
    return out


def powers_of_10():
    for o in clangast.ast_of(BOTP, "powers_of_10"):
        if o.get("kind") == "VarDecl" and o.get("name") == "powers_of_10":
            init = [c for c in o.get("inner", []) if c["kind"] == "InitListExpr"]
            if len(init) != 1:
                raise Unhandled("powers_of_10 initialiser")
            vals = []
            for c in init[0]["inner"]:
                c = clangast.strip(c)
                if c["kind"] != "IntegerLiteral":
                    raise Unhandled("powers_of_10 entry " + c["kind"])
                vals.append(int(c["value"]))
            return vals
    raise Unhandled("powers_of_10 not found")


def generate():
    template, rounds = parse_bashF0()
    codes = prg_codes()
    p10 = powers_of_10()
    L = ["/- GENERATED by xlate/x_c03.py from src/crypto/bash/bash_f64.c, bash_prg.c, src/crypto/botp.c — do not edit. -/",
         "namespace Bee2V.Gen.C03", "",
         "/-- `u64RotHi(w, d)` as the header u64.h expands it: `(w) << (d) | (w) >> (64 - (d))` -/",
         "@[inline] def rotHi (w d : UInt64) : UInt64 := (w <<< d) ||| (w >>> (64 - d))", "",
         lean_template(template), "",
         "/-- one expanded `bashS(...)` line of a `bashR`: the three cells of `s` and the rotation amounts -/",
         "structure SLine where",
         "  i0 : Fin 24", "  i1 : Fin 24", "  i2 : Fin 24",
         "  m1 : UInt64", "  n1 : UInt64", "  m2 : UInt64", "  n2 : UInt64",
         "  deriving DecidableEq, Repr", "",
         "/-- one expanded `bashR(...)`: eight S-lines, then `s[xc] ^= c` -/",
         "structure Round where",
         "  lines : List SLine", "  xc : Fin 24", "  c : UInt64",
         "  deriving DecidableEq, Repr", "",
         "/-- the %d `bashR` lines of `bashF0`, indices constant-folded (P0..P5 evaluated) -/" % len(rounds),
         "def rounds : List Round := ["]
    rl = []
    for lines, xc, c in rounds:
        ls = ", ".join("⟨%d, %d, %d, %d, %d, %d, %d⟩" % (cs[0], cs[1], cs[2], rs[0], rs[1], rs[2], rs[3]) for cs, rs in lines)
        rl.append("  { lines := [%s],\n    xc := %d, c := 0x%016X }" % (ls, xc, c))
    L.append(",\n".join(rl) + "]")
    L.append("")
    L.append("/-! command codes passed to `bashPrgCommit` (bash_prg.c) -/")
    for k in ["codeNull", "codeKey", "codeData", "codeText", "codeTextDecr", "codeOut", "codeRatchet"]:
        L.append("def %s : UInt8 := 0x%02X" % (k, codes[k]))
    L.append("")
    L.append("/-- `powers_of_10` (botp.c) -/")
    L.append("def powersOf10 : List Nat := [%s]" % ", ".join(str(v) for v in p10))
    L.append("")
    L.append("end Bee2V.Gen.C03")
    return "\n".join(L) + "\n"


if __name__ == "__main__":
    import sys
    sys.stdout.write(generate())

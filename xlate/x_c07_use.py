#!/usr/bin/env python3
"""Translator: stack / blob use of every function of /repo/src that carves a scratch area.

For a function f with a parameter `void* stack` (base "stack"), and for every function that
allocates `x = blobCreate(E)` (base = that blob, declared size E), the body is walked in
order and the following is extracted:

  * the carve chain: pointer variables derived from the base by casts and pointer
    arithmetic (`T* y = x + e`, `stack = z + e`, `objEnd(obj, T)`), each as an offset in
    OCTETS from the base (element sizes are sizeof(pointee), computed by clang);
  * every call that passes a base-derived pointer for the callee's `stack` parameter
    (also calls through function-pointer members: `r->mul(..., stack)`, `ec->add(...)`),
    with the offset of that pointer and the size arguments of the call;
  * run-time shrinking of sizes (`n = wwWordSize(a, n)`, `wwOctetSize`, MIN2/utilMin):
    a fresh variable with the hypothesis `n' <= n`;
  * assignments to members (`r->deep = ...`, `r->mul = zmMul`, `r->hdr.keep = ...`).

From this the OBLIGATIONS of f are generated (Lean statements over Nat, for all sizes):
      offset_at_call + DECLARED depth of the callee (its *_deep applied to the call's
      arguments; `X->deep` for a call through a member of X)  <=  declared depth of f
      (f_deep applied to f's parameters, or the blobCreate argument),
      total carved <= declared depth,
      installed operation's *_deep <= the value assigned to X->deep (zmCreate*, gf2Create,
      ecpCreateJ, ec2CreateLD).
Anything not understood raises Unhandled (fail-closed): no obligation is emitted, the
function is listed as unhandled.
"""
import sys, os
sys.path.insert(0, os.path.dirname(__file__))
from x_c07_common import *

SHRINKERS = {"wwWordSize": 1, "wwOctetSize": 1, "memNonZeroSize": 1}   # result <= argument #i (wwOctetSize: * sizeof(word))
ALLOCS = ("blobCreate", "blobCreate2")

# how the parameters of f_deep are bound to the object a function works on
QR_BIND = {"n": "->n", "no": "->no", "r_deep": "->deep", "f_deep": "->deep", "qr_deep": "->deep", "deep": "->deep"}
EC_BIND = {"n": "->f->n", "f_deep": "->f->deep", "ec_d": "->d", "ec_deep": "->deep", "no": "->f->no"}


# spelled exactly as the macros W_OF_O / W_OF_B / O_OF_B expand (so that the terms coincide syntactically
# with the regenerated definitions; the tactic also normalises x + k - 1)
def _wofo(x, w): return ("bin", "/", ("bin", "-", ("bin", "+", x, lit(w)), lit(1)), lit(w))
def _wofb(x, w): return ("bin", "/", ("bin", "-", ("bin", "+", x, lit(8 * w)), lit(1)), lit(8 * w))
def _oofb(x): return ("bin", "/", ("bin", "+", x, lit(7)), lit(8))
def _v(n): return ("var", n)
def _c(f, *a): return ("call", f, list(a))


def word_size(tree):
    """sizeof(word) in this configuration, computed by clang"""
    f = "src/math/ww.c"
    tree.resolve_sizeofs({(f, "word")})
    v = tree.sizeof(f, "word")
    if v not in (2, 4, 8):
        raise Unhandled("sizeof(word) = %r" % v)
    return v


def contracts(w):
    """POST-CONDITIONS of the object constructors, w = sizeof(word).  They are NOT trusted: for every
    function listed here the translator also generates the goals that establish the post-condition
    from the function's own body (theorem of that function, goals labelled `post`).
    obj: the parameter that points to the object; alias/eq/le: facts about obj<suffix> after the call,
    as IR over the constructor's own parameters (sizes by name, members of pointer parameters by path)."""
    C = {}
    for nm in ("zmCreatePlain", "zmCreateCrand", "zmCreateBarr", "zmCreateMont", "zmCreate", "zmMontCreate", "gfpCreate"):
        C[nm] = {"obj": "r",
                 "eq": {"->n": _wofo(_v("no"), w), "->no": _v("no")},
                 "le": {"->deep": _c(nm + "_deep", _v("no")), "->keep": _c(nm + "_keep", _v("no"))}}
    m_ = _v("p[0]")
    C["gf2Create"] = {"obj": "f", "eq": {"->n": _wofb(m_, w), "->no": _oofb(m_)},
                      "le": {"->deep": _c("gf2Create_deep", m_), "->keep": _c("gf2Create_keep", m_)}}
    for nm in ("ecpCreateJ", "ec2CreateLD"):
        C[nm] = {"obj": "ec", "alias": {"->f": "f"}, "eq": {"->d": lit(3)},
                 "le": {"->deep": _c(nm + "_deep", _v("f->n"), _v("f->deep")), "->keep": _c(nm + "_keep", _v("f->n"))}}
    for nm, lv in (("bignStart", "params->l"), ("bign96Start", None)):
        if lv is None:
            no, n = lit(24), _wofo(lit(24), w)
        else:
            no, n = _oofb(("bin", "*", lit(2), _v(lv))), _wofb(("bin", "*", lit(2), _v(lv)), w)
        fd = _c("gfpCreate_deep", no)
        C[nm] = {"obj": "state", "eq": {"->f->n": n, "->f->no": no, "->d": lit(3)},
                 "le": {"->f->deep": fd, "->deep": _c("ecpCreateJ_deep", n, fd),
                        "->keep": ("bin", "+", _c("gfpCreate_keep", no), _c("ecpCreateJ_keep", n))}}
    return C


class UseExprTr(ExprTr):
    """size expressions of the use translator: a call of a shrinker (wwWordSize(a, n), memNonZeroSize(buf, count),
    wwOctetSize) inside an expression is a fresh variable bounded by its size argument"""

    def __init__(self, tree, file, resolve, owner):
        ExprTr.__init__(self, tree, file, resolve)
        self.owner = owner

    def expr(self, n):
        s_ = strip(n)
        if s_["kind"] == "ArraySubscriptExpr":
            # p[k] of a `const size_t p[]` parameter with a literal index: an input size
            b, i = strip(s_["inner"][0]), fold(ExprTr.expr(self, s_["inner"][1]))
            if (b["kind"] == "DeclRefExpr" and b["referencedDecl"]["kind"] == "ParmVarDecl" and i[0] == "lit"
                    and b["referencedDecl"]["type"]["qualType"].startswith("const size_t")):
                return ("var", "%s[%d]" % (b["referencedDecl"]["name"], i[1]))
            raise Unhandled("array element in a size expression")
        return ExprTr.expr(self, n)

    def call(self, n):
        callee = strip(n["inner"][0])
        nm = callee.get("referencedDecl", {}).get("name") if callee["kind"] == "DeclRefExpr" else None
        if nm in SHRINKERS:
            args = n["inner"][1:]
            b = fold(self.expr(args[SHRINKERS[nm]]))
            if nm == "wwOctetSize":
                b = fold(("bin", "*", b, self.owner.sz("word")))
            return self.owner.new_var(nm + "_r", b)
        return ExprTr.call(self, n)


class _StopPath(Exception):
    pass


# functions analysed PATH BY PATH: every if/else at the top level of the body is a fork, each path is
# analysed with its branch taken unconditionally (so that the member values assigned in a branch are known
# in that branch); `if (c) return ...;` without else stays a conditional statement
SPLIT = {"gf2Create"}


class UseFn:
    def __init__(self, tree, fn, purefns, choices=None):
        self.tree, self.fn, self.pure = tree, fn, purefns
        self.ptr = {}        # variable -> (base, offset IR in octets)
        self.sizes = {}      # integer variable -> IR (current symbolic value) or None (unknown)
        self.memb = {}       # member path -> IR / ('path', p) / ('fn', key)
        self.hyps = []       # (fresh var, bound IR)
        self.bases = {}      # base -> declared size IR (None for "stack")
        self.events = []     # (base, offset IR, callee descriptor, call args [(param name, IR or None, raw path)])
        self.carves = []     # (base, offset IR) every offset reached
        self.installs = []   # (path, IR or ('fn', key))
        self.fresh = 0
        self._pending_contract = None
        self.intparams = set()
        self.ptrparams = {}
        for (nm, qt, dq) in fn.params:
            if "*" in dq or "[" in dq:
                self.ptrparams[nm] = qt
            else:
                self.intparams.add(nm)
        if "stack" in self.ptrparams:
            self.ptr["stack"] = ("stack", lit(0))
            self.bases["stack"] = None
        self.tr = UseExprTr(tree, fn.file, self.resolve, self)
        self.cond_depth = 0
        self.loop_depth = 0
        self.contracts = contracts(word_size(tree))
        self.choices = choices      # None: no splitting
        self.taken = []
        self.path_failed = False
        self.cond_posts = []     # (callee, obj path, {"eq": {suffix: IR}, "le": {...}, "alias": {...}}) applied under a condition
        self.applied = []        # contracts used as facts

    # ------------------------------------------------------------ names
    def path_of(self, n):
        """member chain rooted at a variable: `ec->f->n`, `r->hdr.keep` -> string, else None"""
        n = strip(n)
        if n["kind"] == "DeclRefExpr":
            rd = n["referencedDecl"]
            if rd["kind"] in ("ParmVarDecl", "VarDecl"):
                return rd["name"]
            return None
        if n["kind"] == "MemberExpr":
            b = self.path_of(n["inner"][0])
            if b is None:
                return None
            r = b + ("->" if n.get("isArrow") else ".") + n["name"]
            # objKeep(x) is ((obj_hdr_t*)x)->keep, the creators write x->hdr.keep: one location
            if r.endswith("->hdr.keep"):
                r = r[:-len("->hdr.keep")] + "->keep"
            return r
        return None

    def canon(self, path):
        """apply recorded aliases (`ec->f = f`) to the longest prefix"""
        for _ in range(8):
            best = None
            for p, v in self.memb.items():
                if isinstance(v, tuple) and v[0] == "path" and (path == p or path.startswith(p + "->") or path.startswith(p + ".")):
                    if best is None or len(p) > len(best):
                        best = p
            if best is None:
                return path
            path = self.memb[best][1] + path[len(best):]
        return path

    def resolve(self, n):
        if n["kind"] == "DeclRefExpr":
            rd = n["referencedDecl"]
            nm = rd["name"]
            if rd["kind"] in ("ParmVarDecl", "VarDecl"):
                if nm in self.sizes:
                    if self.sizes[nm] is None:
                        raise Unhandled("size variable %s has an untracked value" % nm)
                    return self.sizes[nm]
                if nm in self.intparams:
                    return ("var", nm)
                raise Unhandled("variable %s in a size expression" % nm)
            if rd["kind"] == "EnumConstantDecl":
                raise Unhandled("enum constant")
            if rd["kind"] == "FunctionDecl":
                f = self.tree.lookup(nm, self.fn.file)
                if f is None:
                    raise Unhandled("reference to function %s without definition" % nm)
                return ("call", "some " + f.key, [])
            return None
        if n["kind"] == "MemberExpr":
            p = self.path_of(n)
            if p is None:
                raise Unhandled("member of a non-variable")
            p = self.canon(p)
            v = self.memb.get(p)
            if v is not None and v[0] not in ("path", "fn"):
                return v
            return ("var", p)
        return None

    def size_expr(self, n):
        return fold(self.tr.expr(n))

    def try_size(self, n):
        try:
            v = self.size_expr(n)
        except Unhandled:
            return None
        # only translated (pure) size functions may occur in a size expression
        if any(c not in self.pure for c in calls_of(v)):
            return None
        return v

    # ------------------------------------------------------------ pointers
    def elem(self, qt):
        """element type of a pointer type spelling"""
        qt = qt.strip()
        if not qt.endswith("*"):
            m = re.fullmatch(r"(.*?)\[\d*\]", qt)
            if m:
                return m.group(1).strip()
            raise Unhandled("not a pointer type: " + qt)
        t = qt[:-1].strip()
        t = re.sub(r"\bconst\b", "", t).strip()
        if t.endswith("const"):
            t = t[:-5].strip()
        return t

    def sz(self, t):
        if t in ("void", "octet", "char", "unsigned char", "u8"):
            return lit(1)
        self.tr.sizeofs.add((self.fn.file, t))
        return ("sizeof", t)

    def ptr_expr(self, n):
        """(base, offset) if the pointer expression is derived from a tracked base, else None"""
        n = strip_noncast(n)
        k = n["kind"]
        if k == "CStyleCastExpr":
            return self.ptr_expr(n["inner"][0])
        if k == "DeclRefExpr":
            nm = n["referencedDecl"]["name"]
            return self.ptr.get(nm)
        if k == "BinaryOperator" and n["opcode"] in ("+", "-"):
            a, b = n["inner"]
            pa, pb = self.ptr_expr(a), self.ptr_expr(b)
            if pa is None and pb is None:
                return None
            if n["opcode"] == "-" or (pa is not None and pb is not None):
                raise Unhandled("pointer subtraction on a carved pointer")
            if pa is None:
                a, b, pa = b, a, pb
            et = self.elem(strip_noncast(a)["type"]["qualType"] if "type" in strip_noncast(a) else "void *")
            cnt = self.size_expr(b)
            return (pa[0], ("bin", "+", pa[1], ("bin", "*", cnt, self.sz(et))))
        if k == "UnaryOperator" and n["opcode"] == "&":
            s = strip_noncast(n["inner"][0])
            if s["kind"] == "ArraySubscriptExpr":
                a, b = s["inner"]
                pa = self.ptr_expr(a)
                if pa is None:
                    return None
                et = self.elem(strip_noncast(a)["type"]["qualType"])
                return (pa[0], ("bin", "+", pa[1], ("bin", "*", self.size_expr(b), self.sz(et))))
            return None
        if k == "ConditionalOperator":
            if any(self.ptr_expr(c) is not None for c in n["inner"][1:]):
                raise Unhandled("conditional carved pointer")
            return None
        return None

    def mentions_tracked(self, n):
        for c in walk(n):
            if c.get("kind") == "DeclRefExpr" and c["referencedDecl"]["name"] in self.ptr:
                return True
        return False

    # ------------------------------------------------------------ walking
    def visit(self, n):
        k = n["kind"]
        if k == "CompoundStmt":
            for c in n.get("inner", []):
                self.visit(c)
            return
        if k == "DeclStmt":
            for v in n["inner"]:
                if v["kind"] == "VarDecl":
                    init = [c for c in v.get("inner", []) if c["kind"] != "FullComment"]
                    if init:
                        self.assign_var(v["name"], v["type"].get("desugaredQualType", v["type"]["qualType"]), init[0])
                    elif "*" not in v["type"]["qualType"]:
                        self.sizes.setdefault(v["name"], None)
            return
        if k == "IfStmt" and self.choices is not None and not self.cond_depth and not self.loop_depth and len(n["inner"]) > 2:
            inner = n["inner"]
            self.visit(inner[0])
            i = len(self.taken)
            c = self.choices[i] if i < len(self.choices) else True
            self.taken.append(c)
            self.visit(inner[1] if c else inner[2])
            return
        if k == "ReturnStmt" and self.choices is not None and not self.cond_depth and not self.loop_depth:
            for c in n.get("inner", []):
                self.visit(c)
            r = strip(n["inner"][0]) if n.get("inner") else None
            self.path_failed = r is not None and r["kind"] == "IntegerLiteral" and r["value"] == "0"
            raise _StopPath()
        if k == "IfStmt":
            inner = n["inner"]
            self.visit(inner[0])
            self.cond_depth += 1
            for c in inner[1:]:
                snap = dict(self.sizes)
                self.visit(c)
                if self.ends_in_return(c):
                    self.sizes = snap      # nothing assigned in this arm flows out of it
            self.cond_depth -= 1
            return
        if k in ("ForStmt", "WhileStmt", "DoStmt"):
            # loop-carried integer variables get unknown values (fail-closed when used in sizes)
            assigned = set()
            for c in walk(n):
                if c.get("kind") in ("BinaryOperator", "CompoundAssignOperator") and (c.get("opcode", "") == "=" or c["kind"] == "CompoundAssignOperator"):
                    l = strip(c["inner"][0])
                    if l["kind"] == "DeclRefExpr":
                        assigned.add(l["referencedDecl"]["name"])
                if c.get("kind") == "UnaryOperator" and c.get("opcode") in ("++", "--"):
                    l = strip(c["inner"][0])
                    if l["kind"] == "DeclRefExpr":
                        assigned.add(l["referencedDecl"]["name"])
            for v in assigned:
                if v in self.ptr:
                    raise Unhandled("carved pointer %s modified in a loop" % v)
            saved = {}
            for v in assigned:
                if v not in self.ptrparams:
                    saved[v] = self.sizes.get(v, ("var", v) if v in self.intparams else None)
                    self.sizes[v] = self.loop_value(n, v, saved[v])
            self.loop_depth += 1
            for c in n.get("inner", []):
                if c:
                    self.visit(c)
            self.loop_depth -= 1
            for v in assigned:
                if v not in self.ptrparams and self.sizes.get(v) is not None and self.sizes[v][0] == "var" and self.sizes[v][1].startswith(v + "'"):
                    pass      # stays the bounded fresh variable after the loop
            return
        if k == "BinaryOperator" and n["opcode"] == "=":
            l = strip(n["inner"][0])
            if l["kind"] == "DeclRefExpr":
                self.assign_var(l["referencedDecl"]["name"], l["type"].get("desugaredQualType", l["type"]["qualType"]), n["inner"][1])
                return
            if l["kind"] == "MemberExpr":
                self.assign_member(l, n["inner"][1])
                return
            for c in n["inner"]:
                self.visit(c)
            return
        if k in ("CompoundAssignOperator",) or (k == "UnaryOperator" and n.get("opcode") in ("++", "--")):
            l = strip(n["inner"][0])
            if l["kind"] == "DeclRefExpr":
                nm = l["referencedDecl"]["name"]
                if nm in self.ptr:
                    raise Unhandled("carved pointer %s modified in place" % nm)
                if nm in self.sizes or nm in self.intparams:
                    cur = self.sizes.get(nm, ("var", nm) if nm in self.intparams else None)
                    if k == "UnaryOperator" and n.get("opcode") == "--" and cur is not None and not self.loop_depth:
                        # (possibly conditional) decrement: the value does not grow
                        self.sizes[nm] = self.new_var(nm, cur)
                    else:
                        self.sizes[nm] = None
            for c in n["inner"][1:]:
                self.visit(c)
            return
        if k == "CallExpr":
            self.call(n)
            return
        for c in n.get("inner", []):
            if c:
                self.visit(c)

    def ends_in_return(self, c):
        if c["kind"] == "ReturnStmt":
            return True
        if c["kind"] == "CompoundStmt" and c.get("inner"):
            return self.ends_in_return(c["inner"][-1])
        return False

    def loop_value(self, loop, v, before):
        """value of an integer variable that is modified inside a loop: unknown, except when
        every modification in the loop is `v = shrinker(.., v)` (wwWordSize...): then a fresh
        variable bounded by the value before the loop (v never grows)."""
        if before is None:
            return None
        ok = False
        for c in walk(loop):
            k = c.get("kind")
            if k == "CompoundAssignOperator" or (k == "UnaryOperator" and c.get("opcode") in ("++", "--")):
                l = strip(c["inner"][0])
                if l["kind"] == "DeclRefExpr" and l["referencedDecl"]["name"] == v:
                    return None
            if k == "BinaryOperator" and c.get("opcode") == "=":
                l = strip(c["inner"][0])
                if l["kind"] == "DeclRefExpr" and l["referencedDecl"]["name"] == v:
                    r = strip(c["inner"][1])
                    if r["kind"] != "CallExpr":
                        return None
                    cn = strip(r["inner"][0]).get("referencedDecl", {}).get("name")
                    if cn not in SHRINKERS:
                        return None
                    a = strip(r["inner"][1 + SHRINKERS[cn]])
                    if not (a["kind"] == "DeclRefExpr" and a["referencedDecl"]["name"] == v):
                        return None
                    ok = True
        return self.new_var(v, before) if ok else None

    def new_var(self, base, bound):
        self.fresh += 1
        nm = "%s'%d" % (base, self.fresh) if self.fresh > 1 else base + "'"
        while any(h[0] == nm for h in self.hyps):
            self.fresh += 1
            nm = "%s'%d" % (base, self.fresh)
        self.hyps.append((nm, bound))
        return ("var", nm)

    def assign_var(self, nm, qt, rhs):
        is_ptr = "*" in qt
        inner = strip_noncast(rhs)
        while inner["kind"] == "CStyleCastExpr":
            inner = strip_noncast(inner["inner"][0])
        if inner["kind"] == "BinaryOperator" and inner.get("opcode") == "=":
            # chained assignment  a = b = e : assign b, then a takes b's value
            self.visit(inner)
            l = strip(inner["inner"][0])
            if l["kind"] != "DeclRefExpr":
                raise Unhandled("chained assignment through a member")
            ln = l["referencedDecl"]["name"]
            if is_ptr:
                if ln in self.ptr:
                    self.ptr[nm] = self.ptr[ln]
                else:
                    self.ptr.pop(nm, None)
            else:
                self.sizes[nm] = self.sizes.get(ln)
            return
        if is_ptr:
            self.visit_calls_only(rhs)
            pe = self.ptr_expr(rhs)
            if pe is not None:
                if self.cond_depth or self.loop_depth:
                    raise Unhandled("carve of %s under a condition or in a loop" % nm)
                self.ptr[nm] = pe
                self.carves.append(pe)
                src = strip(rhs)
                if src["kind"] == "DeclRefExpr" and src["referencedDecl"]["name"] != nm and src["referencedDecl"]["name"] != "stack":
                    self.memb[nm] = ("path", self.canon(src["referencedDecl"]["name"]))    # same object under another name
                else:
                    self.memb.pop(nm, None)
                return
            # blob allocation
            s = strip(rhs)
            if s["kind"] == "CallExpr":
                cal = strip(s["inner"][0])
                cn = cal.get("referencedDecl", {}).get("name")
                if cn in ALLOCS:
                    if self.cond_depth or self.loop_depth:
                        raise Unhandled("blob allocated under a condition")
                    base = "blob%d" % (len(self.bases))
                    if cn == "blobCreate":
                        self.bases[base] = self.size_expr(s["inner"][1])
                    else:
                        raise Unhandled("blobCreate2 layout")
                    self.ptr[nm] = (base, lit(0))
                    return
            if nm in self.ptr:
                if self.mentions_tracked(rhs):
                    raise Unhandled("pointer expression for %s" % nm)
                del self.ptr[nm]
            elif self.mentions_tracked(rhs) and nm == "stack":
                raise Unhandled("pointer expression for stack")
            return
        # integer variable
        s = strip(rhs)
        val = None
        if s["kind"] == "CallExpr":
            cn = strip(s["inner"][0]).get("referencedDecl", {}).get("name")
            if cn in SHRINKERS:
                self.visit_calls_only(rhs)
                b = self.try_size(s["inner"][1 + SHRINKERS[cn]])
                if b is not None and cn == "wwOctetSize":
                    b = fold(("bin", "*", b, self.sz("word")))     # octets of n words
                if b is not None:
                    cur = self.sizes.get(nm, ("var", nm) if nm in self.intparams else None)
                    if (self.cond_depth or self.loop_depth) and b != cur:
                        val = None      # may or may not be executed, and is not a shrink of the variable itself
                    else:
                        val = self.new_var(nm, b)
                self.sizes[nm] = val
                return
        self.visit_calls_only(rhs)
        val = self.try_size(rhs)
        if val is None and not self.cond_depth and not self.loop_depth:
            # a value the translator cannot express (a flag computed from data, a length read from memory):
            # an unconstrained variable -- every obligation is then stated for ALL its values (sound)
            self.fresh += 1
            val = ("var", "%s_u%d" % (nm, self.fresh))
        if (self.cond_depth or self.loop_depth) and (nm in self.sizes or nm in self.intparams):
            # conditional re-assignment: value no longer known
            old = self.sizes.get(nm, ("var", nm) if nm in self.intparams else None)
            val = val if val == old else None
        self.sizes[nm] = val

    def assign_member(self, l, rhs):
        p = self.path_of(l)
        self.visit_calls_only(rhs)
        if p is None:
            return
        p = self.canon(p)
        s = strip(rhs)
        if s["kind"] == "DeclRefExpr" and s["referencedDecl"]["kind"] == "FunctionDecl":
            f = self.tree.lookup(s["referencedDecl"]["name"], self.fn.file)
            self.memb[p] = ("fn", f.key if f else s["referencedDecl"]["name"])
            self.installs.append((p, self.memb[p], bool(self.cond_depth)))
            return
        qt = l["type"].get("desugaredQualType", l["type"]["qualType"])
        if "*" in qt:
            rp = self.path_of(rhs)
            if rp is not None and rp not in self.ptr:
                self.memb[p] = ("path", self.canon(rp))
            return
        v = self.try_size(rhs)
        if v is not None and not self.cond_depth and not self.loop_depth:
            self.memb[p] = v
        else:
            self.memb.pop(p, None)
        if v is not None:
            self.installs.append((p, v, bool(self.cond_depth)))

    def visit_calls_only(self, n):
        """walk an expression for the calls it contains"""
        if n["kind"] == "CallExpr":
            self.call(n)
            return
        if n["kind"] == "BinaryOperator" and n.get("opcode") == "=":
            self.visit(n)
            return
        for c in n.get("inner", []):
            if c:
                self.visit_calls_only(c)

    def call(self, n):
        callee = strip(n["inner"][0])
        args = n["inner"][1:]
        for a in args:
            self.visit_calls_only(a)
        if callee["kind"] == "DeclRefExpr" and callee["referencedDecl"]["kind"] == "FunctionDecl":
            cn = callee["referencedDecl"]["name"]
            if cn in ("utilMax", "utilMin") or cn.startswith("__builtin"):
                return
            g = self.tree.lookup(cn, self.fn.file)
            if g is None:
                # no body in src/ (libc, or not part of the translated set): a tracked pointer may
                # be passed as a buffer (memcpy(...)), never as a stack
                return
            pnames = [p[0] for p in g.params]
            if cn == "objAppend" and len(args) >= 2:
                self.obj_append(args[0], args[1])
            self._pending_contract = (g, args) if g.name in self.contracts else None
            for i, a in enumerate(args):
                if i < len(pnames) and pnames[i] == "stack":
                    pe = self.ptr_expr(a)
                    if pe is None:
                        if self.mentions_tracked(a):
                            raise Unhandled("stack argument of %s" % cn)
                        self.events.append((None, None, ("direct", g.key), self.call_args(g, args), "untracked"))
                        continue
                    self.events.append((pe[0], pe[1], ("direct", g.key), self.call_args(g, args), None))
            if self._pending_contract:
                self.apply_contract(g, args)
            return
        if callee["kind"] == "MemberExpr":
            p = self.path_of(callee)
            if p is None:
                raise Unhandled("call through a computed member")
            p = self.canon(p)
            basep = p.rsplit("->", 1)[0] if "->" in p else p.rsplit(".", 1)[0]
            inst = self.memb.get(p)
            for i, a in enumerate(args):
                if i != len(args) - 1:
                    continue
                pe = self.ptr_expr(a)
                if pe is not None:
                    if inst is not None and inst[0] == "fn":
                        g = self.tree.funcs.get(inst[1])
                        if g is None:
                            raise Unhandled("installed function %s unknown" % inst[1])
                        self.events.append((pe[0], pe[1], ("direct", g.key), self.call_args(g, args), None))
                    else:
                        self.events.append((pe[0], pe[1], ("member", basep, p, self.cur(basep + "->deep")), [], None))
            return
        if callee["kind"] == "DeclRefExpr":      # call through a function-pointer variable
            for a in args:
                if self.ptr_expr(a) is not None:
                    raise Unhandled("carved pointer passed through a function-pointer variable")
            return
        raise Unhandled("callee " + callee["kind"])

    def cur(self, path):
        """current symbolic value of a member path"""
        path = self.canon(path)
        v = self.memb.get(path)
        if v is not None and v[0] not in ("path", "fn"):
            return v
        return ("var", path)

    def obj_append(self, dest, src):
        """objAppend(dest, src, i): src is moved to the end of dest, dest->keep grows by src->keep"""
        d, s_ = self.path_of(dest), self.path_of(src)
        if d is None or s_ is None:
            raise Unhandled("objAppend of computed objects")
        if self.cond_depth or self.loop_depth:
            raise Unhandled("objAppend under a condition")
        d, s_ = self.canon(d), self.canon(s_)
        self.memb[d + "->keep"] = ("bin", "+", self.cur(d + "->keep"), self.cur(s_ + "->keep"))

    def inst_post(self, g, args):
        """the post-condition of constructor g instantiated at this call: (obj path, {kind: {suffix: value}}) or None"""
        ct = self.contracts[g.name]
        env, paths = {}, {}
        for i, (pn, qt, dq) in enumerate(g.params):
            if i >= len(args):
                break
            if "*" in dq or "[" in dq:
                pp = self.path_of(args[i])
                if pp is not None:
                    paths[pn] = self.canon(pp)
            else:
                v = self.try_size(args[i])
                if v is not None:
                    env[pn] = v
        if ct["obj"] not in paths:
            return None
        obj = paths[ct["obj"]]

        def inst(e):
            # variables of the contract: size parameters by name, `p->x` members of pointer parameters
            def go(e):
                if e[0] == "var":
                    nm = e[1]
                    if nm in env:
                        return env[nm]
                    for pn, pth in paths.items():
                        if nm == pn or nm.startswith(pn + "->"):
                            return self.cur(pth + nm[len(pn):])
                    raise Unhandled("contract of %s: %s is not tracked at the call" % (g.name, nm))
                return tuple(go(x) if isinstance(x, tuple) else ([go(y) for y in x] if isinstance(x, list) else x) for x in e)
            return fold(go(e))
        try:
            post = {"eq": {k: inst(v) for k, v in ct.get("eq", {}).items()},
                    "le": {k: inst(v) for k, v in ct.get("le", {}).items()},
                    "alias": {k: paths.get(v) for k, v in ct.get("alias", {}).items()}}
        except Unhandled:
            return None
        if any(v is None for v in post["alias"].values()):
            return None
        return obj, post

    def apply_contract(self, g, args):
        r = self.inst_post(g, args)
        if r is None:
            return
        obj, post = r
        if self.cond_depth or self.loop_depth:
            self.cond_posts.append((g.name, obj, post))
            # whatever was known about these members is no longer known
            for k in list(post["eq"]) + list(post["le"]) + list(post["alias"]):
                self.memb.pop(obj + k, None)
            return
        self.applied.append(g.name)
        for k, tgt in post["alias"].items():
            self.memb[obj + k] = ("path", tgt)
        for k, v in post["eq"].items():
            self.memb[self.canon(obj + k)] = v
        for k, v in post["le"].items():
            pth = self.canon(obj + k)
            self.memb.pop(pth, None)
            self.hyps = [h for h in self.hyps if h[0] != pth]
            self.hyps.append((pth, v))

    def call_args(self, g, args):
        out = []
        for i, a in enumerate(args):
            nm = g.params[i][0] if i < len(g.params) else "_va%d" % (i - len(g.params))
            qt = g.params[i][2] if i < len(g.params) else "size_t"
            if "*" in qt or "[" in qt:
                p = self.path_of(a)
                p = self.canon(p) if p else None
                snap = None
                if p is not None:
                    # values of the members a depth function may be bound to, AT THE TIME OF THE CALL
                    snap = {sfx: self.cur(p + sfx) for sfx in set(QR_BIND.values()) | set(EC_BIND.values())}
                out.append((nm, None, p, snap))
            else:
                out.append((nm, self.try_size(a), None, None))
        return out

    # ------------------------------------------------------------ result
    def run(self):
        try:
            self.visit(self.fn.body)
        except _StopPath:
            pass
        return self


# size parameters of a depth/keep function that the function itself receives inside an array
BIND_EXTRA = {("gf2Create", "m"): ("var", "p[0]")}


def bind_deep_params(tree, f, deepfn, callargs=None, owner=None):
    """IR arguments for deepfn's parameters.
    callargs None: f is the function itself (bind to its own parameters / objects);
    otherwise the [(param, IR, path)] of a call of f."""
    out = []
    for (p, qt, dq) in deepfn.params:
        val = None
        if callargs is None:
            if any(p == q[0] and "*" not in q[2] and "[" not in q[2] for q in f.params):
                val = ("var", p)
            else:
                for (q, qqt, qdq) in f.params:
                    if "qr_o" in qqt and p in QR_BIND:
                        val = ("var", q + QR_BIND[p]); break
                    if "ec_o" in qqt and p in EC_BIND:
                        val = ("var", q + EC_BIND[p]); break
        else:
            for (q, ir, path, snap) in callargs:
                if q == p and path is None:
                    val = ir
                    if val is None:
                        raise Unhandled("argument %s of %s is not a tracked size" % (p, f.name))
                    break
            if val is None:
                for (q, ir, path, snap), (_, qqt, qdq) in zip(callargs, f.params):
                    if path is not None and "qr_o" in qqt and p in QR_BIND:
                        val = snap[QR_BIND[p]]; break
                    if path is not None and "ec_o" in qqt and p in EC_BIND:
                        val = snap[EC_BIND[p]]; break
        if val is None and callargs is None and (f.name, p) in BIND_EXTRA:
            val = BIND_EXTRA[(f.name, p)]
        if val is None:
            raise Unhandled("cannot bind parameter %s of %s" % (p, deepfn.name))
        out.append(val)
    return out


class Obligations:
    """all functions -> obligations"""

    def __init__(self, tree, deep_items, deep_unhandled):
        self.tree = tree
        self.deep_ok = {k for k, _, _ in deep_items}
        self.pure = {k: p for k, p, _ in deep_items}
        self.deep_unhandled = deep_unhandled
        self.uses = {}
        self.unhandled = {}
        self.results = {}     # key -> dict(vars, hyps, goals[(label, lhs IR, rhs IR)], declared)

    def deep_of(self, g):
        d = self.tree.lookup(g.name + "_deep", g.file)
        return d

    def analyse(self):
        cands = []
        for k, fn in sorted(self.tree.funcs.items()):
            if fn.name.endswith("_deep") or fn.name.endswith("_keep"):
                continue
            has_stack = any(p[0] == "stack" and "*" in p[2] for p in fn.params)
            has_blob = any(c.get("kind") == "DeclRefExpr" and c.get("referencedDecl", {}).get("name") in ALLOCS for c in walk(fn.body))
            if has_stack or has_blob:
                cands.append(fn)
        sizeofs = set()
        self.paths = {}
        for fn in cands:
            try:
                if fn.name in SPLIT:
                    paths, work = [], [[]]
                    while work:
                        ch = work.pop()
                        up = UseFn(self.tree, fn, self.pure, choices=ch).run()
                        for i in range(len(ch), len(up.taken)):
                            work.append(up.taken[:i] + [False])
                        paths.append(up)
                        sizeofs |= up.tr.sizeofs
                        if len(paths) > 32:
                            raise Unhandled("more than 32 paths")
                    paths.sort(key=lambda q: [not t for t in q.taken])
                    self.paths[fn.key] = paths
                    u = paths[0]
                else:
                    u = UseFn(self.tree, fn, self.pure)
                    u.run()
                self.uses[fn.key] = u
                sizeofs |= u.tr.sizeofs
            except Unhandled as e:
                self.unhandled[fn.key] = str(e)
            except (KeyError, IndexError, ValueError, TypeError) as e:
                self.unhandled[fn.key] = "AST shape: %s %s" % (type(e).__name__, e)
        for f in self.tree.files:
            sizeofs.add((f, "word"))
        self.tree.resolve_sizeofs(sizeofs)
        for k, u in sorted(self.uses.items()):
            try:
                if k in self.paths:
                    self.results[k] = self.merge_paths(k)
                else:
                    self.results[k] = self.obligations_of(u)
            except Unhandled as e:
                self.unhandled[k] = str(e)
        return self

    def merge_paths(self, k):
        """one theorem for a function analysed path by path: the goals of every successful path"""
        res = None
        good = 0
        for pi, u in enumerate(self.paths[k]):
            if u.path_failed:
                continue          # the function reports failure on this path: no post-condition to establish
            r = self.obligations_of(u)
            good += 1
            tag = "path %s: " % "".join("T" if t else "F" for t in u.taken)
            r["goals"] = [(tag + lab, l, rr) for lab, l, rr in r["goals"]]
            if res is None:
                res = r
            else:
                if res["hyps"] != r["hyps"] and (res["hyps"] and r["hyps"]):
                    hv = {v for v, _ in res["hyps"]} & {v for v, _ in r["hyps"]}
                    if any(dict(res["hyps"])[v] != dict(r["hyps"])[v] for v in hv):
                        raise Unhandled("paths constrain the same variable differently")
                res["hyps"] = res["hyps"] + [h for h in r["hyps"] if h not in res["hyps"]]
                res["inv"] = res["inv"] + [h for h in r["inv"] if h not in res["inv"]]
                res["vars"] = sorted(set(res["vars"]) | set(r["vars"]))
                res["fps"].update(r["fps"])
                res["goals"] += r["goals"]
        if not good:
            raise Unhandled("no successful path")
        return res

    def uses_no_stack(self, key):
        u = self.uses.get(key)
        return u is not None and not [e for e in u.events if e[0] == "stack" or e[4]] and not [c for c in u.carves if c[0] == "stack"]

    def callee_depth(self, u, ev):
        base, off, cal, cargs, flag = ev
        if cal[0] == "member":
            return cal[3]
        g = self.tree.funcs[cal[1]]
        d = self.deep_of(g)
        if d is None:
            if self.uses_no_stack(g.key):
                return lit(0)
            raise Unhandled("callee %s has no _deep function" % g.name)
        if d.key not in self.deep_ok:
            raise Unhandled("callee depth %s is not translated (%s)" % (d.name, self.deep_unhandled.get(d.key, "?")))
        if d.variadic:
            fixed = [p[0] for p in d.params]
            args = bind_deep_params(self.tree, g, d, cargs)
            va = []
            # convention of ecAddMulA: after k, the varargs come in triples (a_i, d_i, m_i); the depth
            # function receives the m_i
            extra = [c for c in cargs if c[0].startswith("_va")]
            if g.name == "ecAddMulA" and len(extra) % 3 == 0:
                for j in range(2, len(extra), 3):
                    if extra[j][1] is None:
                        raise Unhandled("vararg size not tracked")
                    va.append(extra[j][1])
            else:
                raise Unhandled("variadic callee " + g.name)
            return ("vcall", d.key, args, va)
        return ("call", d.key, bind_deep_params(self.tree, g, d, cargs))

    @staticmethod
    def resolve_arg(u, a):
        """members bound through an object (X->n, X->f->deep ...) take their current symbolic value"""
        if a is not None and a[0] == "var" and ("->" in a[1] or "." in a[1]):
            return u.cur(a[1])
        return a

    def obligations_of(self, u):
        fn = u.fn
        goals = []
        declared = {}
        if "stack" in u.bases:
            d = self.deep_of(fn)
            uses_stack = [e for e in u.events if e[0] == "stack"] or [c for c in u.carves if c[0] == "stack"]
            if d is None:
                if uses_stack:
                    raise Unhandled("uses its stack but has no _deep function")
            elif d.key not in self.deep_ok:
                raise Unhandled("%s is not translated (%s)" % (d.name, self.deep_unhandled.get(d.key, "?")))
            else:
                if d.variadic:
                    raise Unhandled("variadic depth function of the function itself")
                args = []
                for a in bind_deep_params(self.tree, fn, d):
                    if a[0] == "var" and ("->" in a[1] or "." in a[1]):
                        p = u.canon(a[1])
                        mv = u.memb.get(p)
                        a = mv if (mv is not None and mv[0] not in ("path", "fn")) else ("var", p)
                    args.append(a)
                declared["stack"] = ("call", d.key, args)
        for b, e in u.bases.items():
            if b != "stack":
                declared[b] = e
        for ev in u.events:
            base, off, cal, cargs, flag = ev
            if flag == "untracked":
                # a stack argument that is not derived from a tracked base: cannot be bounded
                raise Unhandled("call of %s with an untracked stack pointer" % (cal[1] if cal[0] == "direct" else cal[2]))
            if base not in declared:
                continue
            cd = self.callee_depth(u, ev)
            nm = cal[1] if cal[0] == "direct" else cal[2]
            goals.append(("call " + nm, ("bin", "+", off, cd), declared[base]))
        offs = [o for _, o, _, _, _ in u.events if o is not None] + [o for _, o in u.carves]

        def is_prefix(o):
            return any(x[0] == "bin" and x[1] == "+" and x[2] == o for x in offs)
        for base, off in u.carves:
            if base in declared and not is_prefix(off) and off != lit(0):
                goals.append(("carve", off, declared[base]))
        # installed operations vs the assigned depth
        deeps = {p: v for p, v, c in u.installs if p.endswith("->deep") and not c}
        for p, v, cond in u.installs:
            if isinstance(v, tuple) and v[0] == "fn":
                obj = p.rsplit("->", 1)[0]
                g = self.tree.funcs.get(v[1])
                if g is None or (obj + "->deep") not in deeps:
                    continue
                d = self.deep_of(g)
                if d is None:
                    if self.uses_no_stack(g.key) or not any(q[0] == "stack" for q in g.params):
                        continue
                    raise Unhandled("installed %s has no _deep" % g.name)
                if d.key not in self.deep_ok:
                    raise Unhandled("installed depth %s not translated" % d.name)
                # bind through the object: n -> obj->n (resolved by recorded member values)
                args = []
                for (q, qt, dq) in d.params:
                    kind = None
                    for (gp, gqt, gdq) in g.params:
                        if "qr_o" in gqt and q in QR_BIND: kind = QR_BIND[q]; break
                        if "ec_o" in gqt and q in EC_BIND: kind = EC_BIND[q]; break
                    if kind is None:
                        raise Unhandled("cannot bind %s of installed %s" % (q, d.name))
                    path = u.canon(obj + kind)
                    mv = u.memb.get(path)
                    args.append(mv if (mv is not None and mv[0] not in ("path", "fn")) else ("var", path))
                goals.append(("install %s=%s" % (p, g.name), ("call", d.key, args), deeps[obj + "->deep"]))
        # post-condition of a constructor: established by its own body
        ct = u.contracts.get(fn.name)
        if ct is not None:
            obj = ct["obj"]
            ptrs = [q[0] for q in fn.params if "*" in q[2] or "[" in q[2]]

            def own(e):
                if e[0] == "var":
                    nm = e[1]
                    for pn in ptrs:
                        if nm.startswith(pn + "->"):
                            return u.cur(nm)
                    return e
                return tuple(own(x) if isinstance(x, tuple) else ([own(y) for y in x] if isinstance(x, list) else x) for x in e)
            cps = [cp for cp in u.cond_posts if cp[1] == u.canon(obj)]
            hyp_paths = {h[0] for h in u.hyps}
            for k, tgt in ct.get("alias", {}).items():
                if u.memb.get(u.canon(obj) + k) != ("path", u.canon(tgt)) and u.canon(u.canon(obj) + k) != u.canon(tgt):
                    raise Unhandled("post-condition %s%s = %s is not established" % (obj, k, tgt))
            for k, E in ct.get("eq", {}).items():
                pth = u.canon(obj + k)
                actual = u.cur(obj + k)
                if actual == ("var", pth):
                    if not cps or any(k not in cp[2]["eq"] for cp in cps):
                        raise Unhandled("post-condition on %s%s is not established" % (obj, k))
                    for cp in cps:
                        goals.append(("post %s%s via %s (<=)" % (obj, k, cp[0]), cp[2]["eq"][k], own(E)))
                        goals.append(("post %s%s via %s (>=)" % (obj, k, cp[0]), own(E), cp[2]["eq"][k]))
                else:
                    goals.append(("post %s%s (<=)" % (obj, k), actual, own(E)))
                    goals.append(("post %s%s (>=)" % (obj, k), own(E), actual))
            for k, B in ct.get("le", {}).items():
                pth = u.canon(obj + k)
                actual = u.cur(obj + k)
                if actual != ("var", pth) or pth in hyp_paths:
                    goals.append(("post %s%s" % (obj, k), actual, own(B)))
                elif cps and all(k in cp[2]["le"] for cp in cps):
                    for cp in cps:
                        goals.append(("post %s%s via %s" % (obj, k, cp[0]), cp[2]["le"][k], own(B)))
                else:
                    raise Unhandled("post-condition on %s%s is not established" % (obj, k))
        # finish IR (sizeof -> literals), dedupe
        seen, out = set(), []
        for lab, l, r in goals:
            l, r = u.tr.finish(l), u.tr.finish(r)
            key = (repr(l), repr(r))
            if key in seen:
                continue
            seen.add(key)
            out.append((lab, l, r))
        hyps = [(v, u.tr.finish(b)) for v, b in u.hyps]
        vs = set()
        for _, l, r in out:
            free_vars(l, vs); free_vars(r, vs)
        used_h = []
        changed = True
        while changed:
            changed = False
            for v, b in hyps:
                if v in vs and (v, b) not in used_h:
                    used_h.append((v, b)); free_vars(b, vs)
                    changed = True
        used_h = [h for h in hyps if h in used_h]
        calls = set()
        for _, l, r in out:
            calls_of(l, calls); calls_of(r, calls)
        for c in calls:
            if c not in self.deep_ok:
                raise Unhandled("size expression calls %s which is not translated" % c)
        # object invariant of qr_o: n = W_OF_O(no) (established by every zmCreate*/gf2Create: checked there)
        inv = []
        wsz = self.tree.sizeof(fn.file, "word")
        for v in sorted(vs):
            if v.endswith("->no") and (v[:-4] + "->n") in vs and wsz:
                inv.append((v[:-4] + "->n", _wofo(("var", v), wsz)))
        fps = {}

        def find_fp(e):
            if isinstance(e, tuple):
                if e[0] == "fpcall":
                    fps[e[1]] = len(e[2])
                for x in e[1:]:
                    if isinstance(x, tuple): find_fp(x)
                    elif isinstance(x, list):
                        for y in x: find_fp(y)
        for _, l, r in out:
            find_fp(l); find_fp(r)
        return {"vars": sorted(vs), "hyps": used_h, "goals": out, "inv": inv, "fps": fps, "bases": {b: (u.tr.finish(e) if e is not None else None) for b, e in u.bases.items()},
                "file": fn.file, "nstack": len([e for e in u.events if e[0] == "stack"])}


def closure(pure, names):
    """size functions reachable from `names` (for unfolding), recursive ones excluded"""
    import x_c07_deep as xd
    seen, todo = [], list(names)
    while todo:
        k = todo.pop()
        if k in seen or k not in pure:
            continue
        seen.append(k)
        todo += sorted(pure[k].calls)
    return [k for k in sorted(seen) if k not in xd.RECURSION_MEASURES]


OPAQUE = {"ecNAFWidth", "qrCalcSlideWidth", "gfpCreate_deep", "gfpCreate_keep", "zmCreate_deep", "zmCreate_keep", "zmMontCreate_deep", "zmMontCreate_keep",
          "gf2Create_deep", "gf2Create_keep", "ecpCreateJ_deep", "ecpCreateJ_keep", "ec2CreateLD_deep", "ec2CreateLD_keep"}


def thm_name(key):
    return "use_le_deep_" + lean_fn(key)


NPARTS = 8


def hints(k, w):
    """hand-written proof hints (instances of the monotonicity lemmas of Bee2V/C07/Mono.lean) for obligations
    whose callee sizes are run-time normalised; w = sizeof(word).  A hint that no longer fits the regenerated
    statement makes the theorem fail (fail-closed)."""
    W = str(w)
    H = {
        "zzPowerMod": [
            "have hk := zmCreate_keep_mono _ _ h_0",
            "have hd := zmCreate_deep_mono _ _ h_0",
            "have hq := qrPower_deep_mono (((no' + %s) - 1) / %s) n m r_deep (zmCreate_deep (n * %s)) (by omega) (by omega)" % (W, W, W)],
        "priIsSGPrime": [
            "have hd := zmCreate_deep_mono _ _ h_0",
            "have hq := qrPower_deep_mono (((no' + %s) - 1) / %s) (n + 1) n qr_deep (zmCreate_deep ((n + 1) * %s)) (by omega) (by omega)" % (W, W, W)],
    }
    return H.get(k, [])

# obligations whose arithmetic is large (many-way max on both sides): bigger heartbeat budget; they are
# spread over different part files so that lake checks them in parallel
HEAVY = ["bign96ParamsVal", "bignParamsVal", "bignIdSign2", "bignSign2", "pfokParamsVal", "g12sEcCreate", "bignIdVerify", "bignKeyWrap"]


def gen_lean_parts(ob, ns, skip=()):
    """-> ({file suffix: text}, proved keys, open keys).  Part files `C07Use<ns>_<i>.lean` hold one theorem per
    function (the conjunction of its obligations); `C07Use<ns>.lean` imports all parts.
    `skip`: keys of functions whose obligations are not provable today (emitted as comments, reported open)."""
    hdr = ("/- GENERATED by xlate/x_c07_use.py from /repo/src (word configuration %s, part %%d of %d) — do not edit.\n"
           "   For every function that carves a scratch stack or a blob: offset of every call that\n"
           "   receives the rest of the area + the callee's DECLARED depth <= the declared depth;\n"
           "   for object constructors additionally their post-condition (goals `post`). -/\n"
           "import Bee2V.Gen.C07Deep%s\nimport Bee2V.C07.Mono\n\n"
           "namespace Bee2V.Gen.C07.%s.Use\nopen Bee2V.Gen.C07.%s\n" % (ns, NPARTS, ns, ns, ns))
    parts = [[] for _ in range(NPARTS)]
    names, opened = [], []
    keys = [k for k, r in sorted(ob.results.items()) if r["goals"]]
    heavy = [k for k in HEAVY if k in keys]
    order = heavy + [k for k in keys if k not in heavy]
    for idx, k in enumerate(order):
        r = ob.results[k]
        vs = " ".join("(%s : %s)" % (lname(v), " → ".join(["Nat"] * (r["fps"].get(v, 0) + 1))) for v in r["vars"])
        hy = " ".join("(h_%d : %s ≤ %s)" % (i, lname(v), to_lean(b)) for i, (v, b) in enumerate(r["hyps"]))
        hy += " " + " ".join("(hinv_%d : %s = %s)" % (i, lname(v), to_lean(b)) for i, (v, b) in enumerate(r["inv"]))
        goals = ["(%s ≤ %s)" % (to_lean(l), to_lean(rr)) for _, l, rr in r["goals"]]
        top, allc = set(), set()
        for _, l, rr in r["goals"]:
            calls_of(rr, top); calls_of(l, allc); calls_of(rr, allc)
        topl = [lean_fn(c) for c in closure({c: ob.pure[c] for c in top if c in ob.pure}, top)]
        alll = [lean_fn(c) for c in closure(ob.pure, allc)]
        # "mid": everything except the size functions of the object constructors, which stay atoms
        # (their values only enter through the post-condition hypotheses)
        midp = {c: q for c, q in ob.pure.items() if c not in OPAQUE}
        midl = [lean_fn(c) for c in closure(midp, [c for c in allc if c not in OPAQUE])]
        doc = "/-- %s : %s\n%s -/" % (r["file"], k, "\n".join("  [%s]" % lab for lab, _, _ in r["goals"]))
        stmt = " ∧\n    ".join(goals)
        opt = "set_option maxHeartbeats 1600000 in\n" if k in heavy else ""
        # users of a constructor's post-condition: the constructors' size functions must stay atoms,
        # so the "unfold only the declared depth" attempt is skipped (it fails slowly on these goals)
        hint = hints(k, word_size(ob.tree))
        if any(c in OPAQUE for _, b in r["hyps"] for c in calls_of(b)) and not hint:
            topl = []
            if k not in heavy:
                opt = "set_option maxHeartbeats 800000 in\n"
        text = "%s%s\ntheorem %s %s %s :\n    %s := by\n%s  c07_use [%s] [%s] [%s]\n" % (
            opt, doc, thm_name(k), vs, hy, stmt, "".join("  %s\n" % h for h in hint), ", ".join(topl), ", ".join(midl), ", ".join(alll))
        if k in skip:
            parts[idx % NPARTS].append("/- OPEN (not a theorem): %s\n%s\n-/\n" % (
                skip[k], text.replace("/-", "/ -").replace("-/", "- /").replace("\ntheorem ", "\nopen_obligation ").replace("set_option", "-- set_option")))
            opened.append(k)
        else:
            parts[idx % NPARTS].append(text)
            names.append(k)
    files = {}
    for i, p in enumerate(parts):
        files["_%d" % i] = (hdr % (i + 1)) + "\n" + "\n".join(p) + "\nend Bee2V.Gen.C07.%s.Use\n" % ns
    files[""] = ("/- GENERATED by xlate/x_c07_use.py — do not edit.  All parts of the obligations for %s. -/\n" % ns +
                 "".join("import Bee2V.Gen.C07Use%s_%d\n" % (ns, i) for i in range(NPARTS)))
    return files, sorted(names), sorted(opened)


def gen_lean(ob, ns, skip=()):
    """single-file variant (development)"""
    files, names, opened = gen_lean_parts(ob, ns, skip)
    body = []
    for i in range(NPARTS):
        t = files["_%d" % i]
        t = t[t.index("open Bee2V.Gen.C07.%s\n" % ns) + len("open Bee2V.Gen.C07.%s\n" % ns):]
        t = t[:t.rindex("end Bee2V.Gen.C07")]
        body.append(t)
    head = "import Bee2V.Gen.C07Deep%s\nimport Bee2V.C07.Mono\n\nnamespace Bee2V.Gen.C07.%s.Use\nopen Bee2V.Gen.C07.%s\n" % (ns, ns, ns)
    return head + "\n".join(body) + "\nend Bee2V.Gen.C07.%s.Use\n" % ns, names, opened


def main():
    import x_c07_deep as xd
    w = sys.argv[1] if len(sys.argv) > 1 else "W64"
    tree = Tree(w)
    text, items, unh = xd.gen_lean(tree, w)
    ob = Obligations(tree, items, unh).analyse()
    if len(sys.argv) > 2:
        t, names, opened = gen_lean(ob, w)
        open(sys.argv[2], "w").write(t)
    ng = 0
    for k, r in sorted(ob.results.items()):
        if not r["goals"]:
            continue
        print("== %s (%s) vars=%s hyps=%s" % (k, r["file"], r["vars"], [(v, to_lean(b)) for v, b in r["hyps"]]))
        for lab, l, rr in r["goals"]:
            ng += 1
            print("   [%s] %s ≤ %s" % (lab, to_lean(l), to_lean(rr)))
    sys.stderr.write("functions analysed %d, with obligations %d, goals %d, unhandled %d\n" % (
        len(ob.results), len([r for r in ob.results.values() if r["goals"]]), ng, len(ob.unhandled)))
    for k, v in sorted(ob.unhandled.items()):
        sys.stderr.write("unhandled:%s:%s\n" % (k, v))


if __name__ == "__main__":
    main()

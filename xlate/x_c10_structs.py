"""C10 translator: record layouts of every `*_st` state struct of the incremental bundles
(src/crypto/belt/*.c|h, bash_hash.c, bash_prg.c, brng.c, botp.c) -> lean/Bee2V/Gen/C10Structs.lean.

Per record: every member with (name, C type, kind scalar/array/pointer/nested, offset, span) taken from
`clang-14 -fdump-record-layouts` (the compiler's own layout, not a re-implementation), for the 64-bit-word
and the 32-bit-word configuration.  Plus:
  * the families whose header says "Состояние можно копировать как фрагмент памяти" (state may be copied);
  * every use of the one pointer member that exists (brng_hmac_st.iv) in brng.c, classified from the JSON AST:
    write of the state's own buffer / write of the caller's pointer (and in which arm of
    `if ((s->iv_len = iv_len) <= 64)`), read guarded by `s->iv_len <= 64 ? s->iv_buf : s->iv`, or other.
Fail-closed: an `_st` typedef in the sources without a dumped layout, a member type that is neither a known
integer type nor a dumped record, a layout difference between the two configurations other than sizes, or an
unclassifiable use raise Unhandled (the check then reports the obligations as not discharged).
"""
import os, re, subprocess, glob
from clangast import REPO, Unhandled, tu_function, walk, strip

FILES = None  # computed

INT_TYPES = {"octet", "u8", "u16", "u32", "u64", "word", "dword", "size_t", "char", "bool_t", "int", "unsigned",
             "unsigned int", "unsigned long", "long", "tm_time_t", "signed char", "unsigned char", "short",
             "unsigned short", "long long", "unsigned long long", "err_t"}


def files():
    fs = sorted(glob.glob(os.path.join(REPO, "src/crypto/belt/*.c")))
    fs += [os.path.join(REPO, "src/crypto/bash/bash_hash.c"), os.path.join(REPO, "src/crypto/bash/bash_prg.c"),
           os.path.join(REPO, "src/crypto/brng.c"), os.path.join(REPO, "src/crypto/botp.c")]
    for f in fs:
        if not os.path.exists(f):
            raise Unhandled("missing source " + f)
    return fs


def family_of(path):
    b = os.path.basename(path)
    if b.startswith("belt_"):
        return "belt"
    if b.startswith("bash_"):
        return "bash"
    return b.split(".")[0]


def typedef_names(path):
    """`*_st` typedef names declared in a source file or in the local headers it includes"""
    names = set()
    todo, seen = [path], set()
    while todo:
        p = todo.pop()
        if p in seen or not os.path.exists(p):
            continue
        seen.add(p)
        src = open(p, encoding="utf-8", errors="replace").read()
        names |= set(re.findall(r"^\}\s*(\w+_st)\s*;", src, flags=re.M))
        for inc in re.findall(r'#include\s+"([^"]+)"', src):
            todo.append(os.path.join(os.path.dirname(p), inc))
    return names


def layouts(path, extra=()):
    # -emit-llvm (not -fsyntax-only): layouts are computed lazily, code generation forces every used record
    cmd = ["clang-14", "-I%s/include" % REPO, "-I%s/src" % REPO, "-S", "-emit-llvm", "-o", "/dev/null",
           "-Wno-everything", *extra, "-Xclang", "-fdump-record-layouts", path]
    p = subprocess.run(cmd, capture_output=True, text=True)
    if p.returncode != 0:
        raise Unhandled("clang failed on %s: %s" % (path, p.stderr[-400:]))
    recs = {}
    blocks = [b[len("AST Record Layout"):] for b in p.stdout.split("*** Dumping ") if b.startswith("AST Record Layout")]
    for b in blocks:
        lines = [l for l in b.split("\n") if l.strip()]
        m = re.match(r"\s*0 \| (?:struct |union )?(.+?)\s*$", lines[0])
        if not m:
            raise Unhandled("layout header: " + lines[0])
        name = m.group(1).strip()
        fields, size = [], None
        for l in lines[1:]:
            ms = re.match(r"\s*\| \[sizeof=(\d+), align=(\d+)", l)
            if ms:
                size = int(ms.group(1))
                break
            mf = re.match(r"\s*(\d+)(?::\S+)? \|(\s+)(.+?)\s*$", l)
            if not mf:
                raise Unhandled("layout line: " + l)
            depth = len(mf.group(2))
            if depth != 3:       # members of nested records are listed again in the record's own block
                continue
            decl = mf.group(3)
            mm = re.match(r"(.+?)\s*(\w+)$", decl)
            if not mm:
                raise Unhandled("member decl: " + decl)
            fields.append((int(mf.group(1)), mm.group(1).strip(), mm.group(2)))
        if size is None:
            raise Unhandled("no sizeof for " + name)
        recs[name] = (size, fields)
    return recs


def classify(ty, known):
    if "*" in ty or "(" in ty:
        return "pointer", ""
    base = re.sub(r"\[[^\]]*\]", "", ty).replace("const", "").replace("volatile", "").strip()
    base = re.sub(r"^(struct|union)\s+", "", base)
    is_arr = "[" in ty
    if base in INT_TYPES:
        return ("array" if is_arr else "scalar"), ""
    if base in known:
        return "nested", base
    raise Unhandled("member type not understood: %r" % ty)


def collect(extra=()):
    recs = {}
    for f in files():
        want = typedef_names(f)
        got = layouts(f, extra)
        for w in want:
            if w not in got:
                # a state struct whose layout the compiler never needed in this TU (header-only use)
                continue
        for name, (size, fields) in got.items():
            if not name.endswith("_st"):
                continue
            if name in recs:
                if recs[name][2] != (size, fields):
                    raise Unhandled("record %s differs between translation units" % name)
                continue
            recs[name] = (os.path.relpath(f, REPO) if name in typedef_names_direct(f) else "src/crypto/belt/belt_lcl.h",
                          family_of(f), (size, fields))
    # every *_st typedef of the anchored files must have a layout
    for f in files():
        for w in typedef_names(f):
            if w not in recs:
                raise Unhandled("state struct %s (from %s) has no dumped layout" % (w, os.path.basename(f)))
    return recs


def typedef_names_direct(path):
    src = open(path, encoding="utf-8", errors="replace").read()
    return set(re.findall(r"^\}\s*(\w+_st)\s*;", src, flags=re.M))


def copyable_families():
    fams = []
    for fam, hdr in (("belt", "belt.h"), ("bash", "bash.h"), ("brng", "brng.h"), ("botp", "botp.h")):
        src = open(os.path.join(REPO, "include/bee2/crypto", hdr), encoding="utf-8", errors="replace").read()
        txt = re.sub(r"\s+", " ", src)
        if "Состояние можно копировать как фрагмент памяти" in txt:
            fams.append(fam)
    return fams


# ---------------------------------------------------------------- uses of brng_hmac_st.iv

def is_member(n, name):
    n = strip(n)
    return n.get("kind") == "MemberExpr" and n.get("name") == name


def guard_is_ivlen_le_64(cond):
    """`s->iv_len <= 64` or `(s->iv_len = iv_len) <= 64`; returns the bound or None"""
    c = strip(cond)
    if c.get("kind") != "BinaryOperator" or c.get("opcode") != "<=":
        return None
    lhs, rhs = strip(c["inner"][0]), strip(c["inner"][1])
    if lhs.get("kind") == "BinaryOperator" and lhs.get("opcode") == "=":
        lhs = strip(lhs["inner"][0])
    if not (lhs.get("kind") == "MemberExpr" and lhs.get("name") == "iv_len"):
        return None
    if rhs.get("kind") != "IntegerLiteral":
        return None
    return int(rhs["value"])


def iv_uses():
    """list of (function, kind, bound) for every MemberExpr `->iv` in brng.c's HMAC functions"""
    uses = []
    src = open(os.path.join(REPO, "src/crypto/brng.c"), encoding="utf-8", errors="replace").read()
    fnames = re.findall(r"^\w[\w\s\*]*?\b(brngHMAC\w+)\s*\(", src, flags=re.M)
    fnames = [f for f in dict.fromkeys(fnames)]
    if "brngHMACStart" not in fnames or "brngHMACStepR" not in fnames:
        raise Unhandled("brngHMAC functions not found")

    def visit(n, fn, ctx):
        k = n.get("kind")
        if k == "IfStmt":
            inner = n.get("inner", [])
            b = guard_is_ivlen_le_64(inner[0]) if inner else None
            visit(inner[0], fn, ctx)
            if len(inner) > 1:
                visit(inner[1], fn, ctx + [("then", b)])
            if len(inner) > 2:
                visit(inner[2], fn, ctx + [("else", b)])
            return
        if k == "ConditionalOperator":
            inner = n["inner"]
            b = guard_is_ivlen_le_64(inner[0])
            visit(inner[0], fn, ctx)
            visit(inner[1], fn, ctx + [("then", b)])
            visit(inner[2], fn, ctx + [("else", b)])
            return
        if k == "BinaryOperator" and n.get("opcode") == "=" and is_member(n["inner"][0], "iv"):
            rhs = strip(n["inner"][1])
            arm = [c for c in ctx if c[1] is not None]
            if rhs.get("kind") == "MemberExpr" and rhs.get("name") == "iv_buf":
                ok = bool(arm) and arm[-1][0] == "then"
                uses.append((fn, "writeSelf", arm[-1][1] if arm else 0, ok))
            elif rhs.get("kind") == "DeclRefExpr" and rhs.get("referencedDecl", {}).get("kind") == "ParmVarDecl":
                ok = bool(arm) and arm[-1][0] == "else"
                uses.append((fn, "writeExt", arm[-1][1] if arm else 0, ok))
            else:
                uses.append((fn, "other", 0, False))
            # the base expression `s` of the member is not a use of iv
            return
        if k == "MemberExpr" and n.get("name") == "iv":
            arm = [c for c in ctx if c[1] is not None]
            if arm and arm[-1][0] == "else":
                uses.append((fn, "readGuarded", arm[-1][1], True))
            else:
                uses.append((fn, "other", 0, False))
            return
        for c in n.get("inner", []):
            visit(c, fn, ctx)

    for fn in fnames:
        try:
            _, body = tu_function("src/crypto/brng.c", fn)
        except Unhandled:
            continue   # prototype only
        visit(body, fn, [])
    if not uses:
        # no pointer use at all is fine only if the member is gone; the Lean side checks consistency
        pass
    return uses


def lean_str(s):
    return '"' + s.replace("\\", "\\\\").replace('"', '\\"') + '"'


def generate():
    r64 = collect()
    r32 = collect(("-U__SIZEOF_INT128__",))
    if sorted(r64) != sorted(r32):
        raise Unhandled("record sets differ between word sizes")
    known = set(r64)
    out = []
    out.append("/- GENERATED by xlate/x_c10_structs.py from clang-14 record layouts of /repo — do not edit. -/")
    out.append("namespace Bee2V.Gen.C10Structs")
    out.append("")
    out.append("inductive Kind | scalar | array | pointer | nested (recId : Nat)")
    out.append("  deriving DecidableEq, Repr")
    out.append("")
    out.append("structure Field where")
    out.append("  name : String")
    out.append("  ty : String")
    out.append("  kind : Kind")
    out.append("  off : Nat")
    out.append("  span : Nat")
    out.append("  off32 : Nat")
    out.append("  deriving Repr")
    out.append("")
    out.append("structure Rec where")
    out.append("  id : Nat")
    out.append("  name : String")
    out.append("  file : String")
    out.append("  family : Nat")
    out.append("  size : Nat")
    out.append("  size32 : Nat")
    out.append("  fields : List Field")
    out.append("  deriving Repr")
    out.append("")
    fams = ["belt", "bash", "brng", "botp"]
    out.append("/-- families: 0 belt, 1 bash, 2 brng, 3 botp -/")
    out.append("def familyNames : List String := [%s]" % ", ".join(lean_str(f) for f in fams))
    cop = copyable_families()
    out.append("/-- families whose header states that the state may be copied as a memory fragment -/")
    out.append("def copyableFamilies : List Nat := [%s]" % ", ".join(str(fams.index(f)) for f in cop))
    out.append("")
    names = sorted(r64)
    ids = {n: i for i, n in enumerate(names)}
    defs = []
    for n in names:
        file, fam, (size, fields) = r64[n]
        _, _, (size32, fields32) = r32[n]
        if [(classify(t, known), nm) for _, t, nm in fields] != [(classify(t, known), nm) for _, t, nm in fields32]:
            raise Unhandled("members of %s differ between word sizes" % n)
        fl = []
        for i, (off, ty, nm) in enumerate(fields):
            kind, base = classify(ty, known)
            nxt = fields[i + 1][0] if i + 1 < len(fields) else size
            ks = {"scalar": ".scalar", "array": ".array", "pointer": ".pointer"}.get(kind) or "(.nested %d)" % ids[base]
            fl.append("⟨%s, %s, %s, %d, %d, %d⟩" % (lean_str(nm), lean_str(ty), ks, off, nxt - off, fields32[i][0]))
        defs.append("def %s : Rec := ⟨%d, %s, %s, %d, %d, %d, [\n    %s]⟩" % (
            n, ids[n], lean_str(n), lean_str(file), fams.index(fam), size, size32, ",\n    ".join(fl)))
    out += defs
    out.append("")
    out.append("def records : List Rec := [%s]" % ", ".join(names))
    out.append("")
    out.append("/-- id of `brng_hmac_st`, the one record with a documented external pointer (brng.h, iv_len > 64) -/")
    out.append("def brngHmacId : Nat := %d" % ids.get("brng_hmac_st", 10 ** 6))
    out.append("")
    out.append("inductive IvUse")
    out.append("  | writeSelf (bound : Nat) (inThenArm : Bool)     -- `s->iv = s->iv_buf`")
    out.append("  | writeExt (bound : Nat) (inElseArm : Bool)      -- `s->iv = iv` (the caller's buffer)")
    out.append("  | readGuarded (bound : Nat)                      -- read in the else arm of `iv_len <= bound`")
    out.append("  | other")
    out.append("  deriving DecidableEq, Repr")
    out.append("")
    us = iv_uses()
    items = []
    for fn, kind, b, ok in us:
        if kind == "writeSelf":
            items.append("(.writeSelf %d %s)" % (b or 0, "true" if ok else "false"))
        elif kind == "writeExt":
            items.append("(.writeExt %d %s)" % (b or 0, "true" if ok else "false"))
        elif kind == "readGuarded":
            items.append("(.readGuarded %d)" % b)
        else:
            items.append(".other")
    out.append("/-- every occurrence of `->iv` in the brngHMAC functions of brng.c (%s) -/" % ", ".join(sorted(set(u[0] for u in us))))
    out.append("def brngHmacIvUses : List IvUse := [%s]" % ", ".join(items))
    out.append("")
    out.append("end Bee2V.Gen.C10Structs")
    return "\n".join(out) + "\n"


if __name__ == "__main__":
    print(generate())

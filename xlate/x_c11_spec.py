"""C11 — table of the overlap-tolerant functions (argument shapes), placement generator,
disjoint relocation.  Used by props/C11.py (generator, search oracle, replay).

A function spec:
  args   : list of ("p", buf) | ("u", scalar)     in harness token order (after the arena)
  bufs   : {buf: (role, size(sc))}  role in {"in","out","io"};  size is a function of the scalars
  primary: (out_buf, in_buf) whose relative offset is swept
  forbid : pairs of buffers that the header (or the function's own ERR_BAD_INPUT check) excludes
  outs   : [(core id, out buffer)] — the abstract-core calls of the Lean program, in order
  nullable: buffers that may be passed as NULL
  scal(rng, tier) -> list of scalar dicts to sweep
  fill(rng, sc, prep) -> {buf: bytes} contents of input buffers (default: random)
"""
import random

K = (16, 24, 32)


def rb(rng, n):
    return rng.randbytes(n)


# ---------------------------------------------------------------- DER helpers (reference encoder)
def der_t(tag):
    out = []
    t = tag
    while t:
        out.append(t & 255)
        t >>= 8
    return bytes(reversed(out)) or b"\x00"


def der_l(n):
    if n < 128:
        return bytes([n])
    out = []
    while n:
        out.append(n & 255)
        n >>= 8
    return bytes([128 | len(out)]) + bytes(reversed(out))


def der_tl(tag, n):
    return der_t(tag) + der_l(n)


def uint_val(rng, n):
    """little-endian number of n octets; boundary-heavy top octets"""
    v = bytearray(rb(rng, n))
    v[-1] = rng.choice([0, 0, 1, 0x7f, 0x80, 0x80, 0xff, rng.randrange(256)])
    if n > 1 and rng.random() < 0.3:
        v[-2] = rng.choice([0, 0x7f, 0x80, 0xff])
    return bytes(v)


def uint_der(tag, val_le):
    v = bytearray(val_le)
    while len(v) > 1 and v[-1] == 0:
        v.pop()
    be = bytes(reversed(v))
    if be[0] & 128:
        be = b"\x00" + be
    return der_tl(tag, len(be)) + be


PRINTABLE = b"0123456789ABCDEFGHIJKLMNOPQRSTUVWXYZabcdefghijklmnopqrstuvwxyz '()+,-./:=?"


def sizes(tier):
    return [16, 17, 24, 31, 32, 33, 47, 48] if tier == "quick" else [16, 17, 23, 24, 31, 32, 33, 40, 47, 48, 49, 64, 80]


def mode_spec(name, has_iv=True, minn=16, mult=1, err_free=True):
    args = [("p", "d"), ("p", "s"), ("u", "n"), ("p", "k"), ("u", "len")] + ([("p", "iv")] if has_iv else [])
    bufs = {"d": ("out", lambda sc: sc["n"]), "s": ("in", lambda sc: sc["n"]), "k": ("in", lambda sc: sc["len"])}
    if has_iv:
        bufs["iv"] = ("in", lambda sc: 16)

    def scal(rng, tier):
        out = []
        for n in sizes(tier):
            if n < minn or n % mult:
                continue
            out.append({"n": n, "len": rng.choice(K)})
        if minn == 0:
            out += [{"n": 0, "len": 16}, {"n": 1, "len": 24}, {"n": 15, "len": 32}]
        return out
    return dict(args=args, bufs=bufs, primary=("d", "s"), forbid=[], outs=[(name + ".x", "d")], scal=scal)


SPEC = {}
SPEC["beltCBCEncr"] = mode_spec("beltCBCEncr")
SPEC["beltCBCDecr"] = mode_spec("beltCBCDecr")
SPEC["beltCFBEncr"] = mode_spec("beltCFBEncr", minn=0)
SPEC["beltCFBDecr"] = mode_spec("beltCFBDecr", minn=0)
SPEC["beltCTR"] = mode_spec("beltCTR", minn=0)
SPEC["beltBDEEncr"] = mode_spec("beltBDEEncr", mult=16)
SPEC["beltBDEDecr"] = mode_spec("beltBDEDecr", mult=16)
SPEC["beltSDEEncr"] = mode_spec("beltSDEEncr", minn=32, mult=16)
SPEC["beltSDEDecr"] = mode_spec("beltSDEDecr", minn=32, mult=16)
# not documented as tolerant (default rule of belt.h: buffers do not overlap) — controls only
CONTROL = {"beltECBEncr": mode_spec("beltECBEncr", has_iv=False), "beltECBDecr": mode_spec("beltECBDecr", has_iv=False)}


def fmt_spec(name):
    def scal(rng, tier):
        out = []
        for n in ([2, 3, 8, 9, 17, 24] if tier == "quick" else [2, 3, 4, 8, 9, 16, 17, 24, 33, 40]):
            out.append({"n": n, "mod": rng.choice([2, 10, 10, 256, 257, 65535, 65536]), "len": rng.choice(K)})
        return out

    def fill(rng, sc, prep):
        b = bytearray()
        for _ in range(sc["n"]):
            v = rng.randrange(sc["mod"])
            b += bytes([v & 255, v >> 8])
        return {"s": bytes(b)}
    return dict(args=[("p", "d"), ("u", "mod"), ("p", "s"), ("u", "n"), ("p", "k"), ("u", "len"), ("p", "iv")],
                bufs={"d": ("out", lambda sc: 2 * sc["n"]), "s": ("in", lambda sc: 2 * sc["n"]),
                      "k": ("in", lambda sc: sc["len"]), "iv": ("in", lambda sc: 16)},
                primary=("d", "s"), forbid=[("iv", "d")], outs=[(name + ".x", "d")], scal=scal, fill=fill,
                nullable={"iv"}, align2={"d", "s"})


SPEC["beltFMTEncr"] = fmt_spec("beltFMTEncr")
SPEC["beltFMTDecr"] = fmt_spec("beltFMTDecr")


def digest_spec(name, outn, keyed):
    args = [("p", "mac"), ("p", "s"), ("u", "n")] + ([("p", "k"), ("u", "len")] if keyed else [])
    bufs = {"mac": ("out", lambda sc: outn), "s": ("in", lambda sc: sc["n"])}
    if keyed:
        bufs["k"] = ("in", lambda sc: sc["len"])

    def scal(rng, tier):
        return [{"n": n, "len": rng.choice(K if name != "beltHMAC" else (8, 16, 32, 33, 40))} for n in [0, 1, 7, 8, 16, 31, 32, 33, 48]]
    return dict(args=args, bufs=bufs, primary=("mac", "s"), forbid=[], outs=[(name + ".g", "mac")], scal=scal)


SPEC["beltMAC"] = digest_spec("beltMAC", 8, True)
SPEC["beltHMAC"] = digest_spec("beltHMAC", 32, True)
SPEC["beltHash"] = digest_spec("beltHash", 32, False)
SPEC["bashHash"] = dict(
    args=[("u", "l"), ("p", "mac"), ("p", "s"), ("u", "n")],
    bufs={"mac": ("out", lambda sc: sc["l"] // 4), "s": ("in", lambda sc: sc["n"])},
    primary=("mac", "s"), forbid=[], outs=[("bashHash.g", "mac")],
    scal=lambda rng, tier: [{"n": n, "l": rng.choice([128, 192, 256, 16, 64])} for n in [0, 1, 16, 31, 32, 48, 64]])


def wrap_spec(name):
    def scal(rng, tier):
        return [{"n1": a, "n2": b, "len": rng.choice(K)} for a, b in
                [(0, 0), (0, 16), (1, 0), (15, 7), (16, 16), (17, 3), (32, 0), (33, 16), (48, 20)]]
    return dict(args=[("p", "d"), ("p", "mac"), ("p", "s1"), ("u", "n1"), ("p", "s2"), ("u", "n2"), ("p", "k"), ("u", "len"), ("p", "iv")],
                bufs={"d": ("out", lambda sc: sc["n1"]), "mac": ("out", lambda sc: 8), "s1": ("in", lambda sc: sc["n1"]),
                      "s2": ("in", lambda sc: sc["n2"]), "k": ("in", lambda sc: sc["len"]), "iv": ("in", lambda sc: 16)},
                primary=("d", "s1"), forbid=[("d", "mac")], outs=[(name + ".x", "d"), (name + ".g", "mac")], scal=scal)


def unwrap_spec(name, wrapname):
    def scal(rng, tier):
        return [{"n1": a, "n2": b, "len": rng.choice(K)} for a, b in
                [(0, 0), (0, 16), (1, 0), (15, 7), (16, 16), (17, 3), (32, 0), (33, 16), (48, 20)]]

    def prepare(rng, sc):
        """op that produces a valid (ciphertext, mac) on disjoint buffers: returns (op, extract)"""
        n1, n2, ln = sc["n1"], sc["n2"], sc["len"]
        pt, ad, key, iv = rb(rng, n1), rb(rng, n2), rb(rng, ln), rb(rng, 16)
        # arena: d[n1] mac[8] s1 s2 k iv
        offs, a = {}, 0
        ar = bytearray()
        for nm, b in (("d", bytes(n1)), ("mac", bytes(8)), ("s1", pt), ("s2", ad), ("k", key), ("iv", iv)):
            offs[nm] = len(ar)
            ar += b + b"\x00" * 4
        op = "%s %s %d %d %d %d %d %d %d %d %d" % (wrapname, ar.hex() or "-", offs["d"], offs["mac"], offs["s1"], n1,
                                                 offs["s2"], n2, offs["k"], ln, offs["iv"])

        def extract(out):
            ret, hx = out.split()
            b = bytes.fromhex(hx)
            return {"s1": b[offs["d"]:offs["d"] + n1], "mac": b[offs["mac"]:offs["mac"] + 8], "s2": ad, "k": key, "iv": iv}
        return op, extract
    return dict(args=[("p", "d"), ("p", "s1"), ("u", "n1"), ("p", "s2"), ("u", "n2"), ("p", "mac"), ("p", "k"), ("u", "len"), ("p", "iv")],
                bufs={"d": ("out", lambda sc: sc["n1"]), "mac": ("in", lambda sc: 8), "s1": ("in", lambda sc: sc["n1"]),
                      "s2": ("in", lambda sc: sc["n2"]), "k": ("in", lambda sc: sc["len"]), "iv": ("in", lambda sc: 16)},
                primary=("d", "s1"), forbid=[], outs=[(name + ".x", "d")], scal=scal, prepare=prepare)


SPEC["beltDWPWrap"] = wrap_spec("beltDWPWrap")
SPEC["beltCHEWrap"] = wrap_spec("beltCHEWrap")
SPEC["beltDWPUnwrap"] = unwrap_spec("beltDWPUnwrap", "beltDWPWrap")
SPEC["beltCHEUnwrap"] = unwrap_spec("beltCHEUnwrap", "beltCHEWrap")


def kwp_scal(minn):
    return lambda rng, tier: [{"n": n, "len": rng.choice(K)} for n in ([16, 17, 24, 32, 33, 48] if minn == 16 else [32, 33, 40, 48, 49, 64])]


SPEC["beltKWPWrap"] = dict(
    args=[("p", "d"), ("p", "s"), ("u", "n"), ("p", "hdr"), ("p", "k"), ("u", "len")],
    bufs={"d": ("out", lambda sc: sc["n"] + 16), "s": ("in", lambda sc: sc["n"]), "hdr": ("in", lambda sc: 16), "k": ("in", lambda sc: sc["len"])},
    primary=("d", "s"), forbid=[("hdr", "s")], outs=[("beltKWPWrap.x", "d")], scal=kwp_scal(16), nullable={"hdr"})


def kwpu_prepare(rng, sc):
    n, ln = sc["n"], sc["len"]          # n = token length
    key, hdr, pt = rb(rng, ln), rb(rng, 16), rb(rng, n - 16)
    ar = bytearray()
    offs = {}
    for nm, b in (("d", bytes(n)), ("s", pt), ("hdr", hdr), ("k", key)):
        offs[nm] = len(ar)
        ar += b + b"\x00" * 4
    use_hdr = rng.random() < 0.7
    op = "beltKWPWrap %s %d %d %d %s %d %d" % (ar.hex(), offs["d"], offs["s"], n - 16, offs["hdr"] if use_hdr else "N", offs["k"], ln)

    def extract(out):
        ret, hx = out.split()
        b = bytes.fromhex(hx)
        return {"s": b[offs["d"]:offs["d"] + n], "hdr": hdr if use_hdr else None, "k": key}
    return op, extract


SPEC["beltKWPUnwrap"] = dict(
    args=[("p", "d"), ("p", "s"), ("u", "n"), ("p", "hdr"), ("p", "k"), ("u", "len")],
    bufs={"d": ("out", lambda sc: sc["n"] - 16), "s": ("in", lambda sc: sc["n"]), "hdr": ("in", lambda sc: 16), "k": ("in", lambda sc: sc["len"])},
    primary=("d", "s"), forbid=[], outs=[("beltKWPUnwrap.x", "d")], scal=kwp_scal(32), nullable={"hdr"}, prepare=kwpu_prepare)

SPEC["beltKRP"] = dict(
    args=[("p", "d"), ("u", "m"), ("p", "s"), ("u", "n"), ("p", "level"), ("p", "hdr")],
    bufs={"d": ("out", lambda sc: sc["m"]), "s": ("in", lambda sc: sc["n"]), "level": ("in", lambda sc: 12), "hdr": ("in", lambda sc: 16)},
    primary=("d", "s"), forbid=[], outs=[("beltKRP.g", "d")],
    scal=lambda rng, tier: [{"m": m, "n": n} for n in K for m in K if m <= n])

# ------------------------------------------------------------------ fully concrete functions
SPEC["memMove"] = dict(args=[("p", "d"), ("p", "s"), ("u", "n")],
                       bufs={"d": ("out", lambda sc: sc["n"]), "s": ("in", lambda sc: sc["n"])},
                       primary=("d", "s"), forbid=[], outs=[], concrete=True,
                       scal=lambda rng, tier: [{"n": n} for n in [0, 1, 2, 7, 8, 9, 16, 31, 48]])
SPEC["memJoin"] = dict(args=[("p", "d"), ("p", "s1"), ("u", "n1"), ("p", "s2"), ("u", "n2")],
                       bufs={"d": ("out", lambda sc: sc["n1"] + sc["n2"]), "s1": ("in", lambda sc: sc["n1"]), "s2": ("in", lambda sc: sc["n2"])},
                       primary=("d", "s1"), forbid=[], outs=[], concrete=True,
                       scal=lambda rng, tier: [{"n1": a, "n2": b} for a in [0, 1, 2, 5, 8, 16] for b in [0, 1, 3, 8, 16]])
SPEC["beltKeyExpand"] = dict(args=[("p", "d"), ("p", "k"), ("u", "len")],
                             bufs={"d": ("out", lambda sc: 32), "k": ("in", lambda sc: sc["len"])},
                             primary=("d", "k"), forbid=[], outs=[], concrete=True,
                             scal=lambda rng, tier: [{"len": l} for l in K])
SPEC["beltKeyExpand2"] = dict(SPEC["beltKeyExpand"], align4={"d"})


def xor_spec(three):
    args = [("p", "d"), ("p", "s1")] + ([("p", "s2")] if three else []) + [("u", "n")]
    bufs = {"d": ("io" if not three else "out", lambda sc: sc["n"]), "s1": ("in", lambda sc: sc["n"])}
    if three:
        bufs["s2"] = ("in", lambda sc: sc["n"])
    return dict(args=args, bufs=bufs, primary=("d", "s1"), forbid=[], outs=[], concrete=True, same_or_disjoint=True,
                scal=lambda rng, tier: [{"n": n} for n in [0, 1, 7, 8, 9, 16, 17, 31, 32]])


SPEC["memXor"] = xor_spec(True)
SPEC["memXor2"] = xor_spec(False)


def der_enc_spec(kind):
    def scal(rng, tier):
        out = []
        for n in [1, 2, 3, 8, 16, 17, 33, 126, 127, 128, 129, 130] + ([255, 256, 257, 300] if tier != "quick" else [200]):
            for tag in (rng.choice([0x02, 0x03, 0x04, 0x13, 0x30, 0x5f21, 0x81, 0x1f8101]),):
                if kind == "derTBITEnc":
                    out.append({"tag": tag, "n": 8 * n - rng.choice([0, 0, 1, 3, 7])})
                else:
                    out.append({"tag": tag, "n": n})
        if kind == "derEnc":
            out.append({"tag": 4, "n": 0})
        return out

    def vlen(sc):
        return (sc["n"] + 7) // 8 if kind == "derTBITEnc" else sc["n"] + (1 if kind == "derTPSTREnc" else 0)

    def dlen(sc):
        if kind == "derTBITEnc":
            body = (sc["n"] + 15) // 8
        elif kind == "derTUINTEnc":
            body = sc["n"] + 1          # upper bound (leading zero octet)
        else:
            body = sc["n"]
        return len(der_tl(sc["tag"], body)) + body

    def fill(rng, sc, prep):
        if kind == "derTUINTEnc":
            return {"val": uint_val(rng, sc["n"])}
        if kind == "derTPSTREnc":
            return {"val": bytes(rng.choice(PRINTABLE) for _ in range(sc["n"])) + b"\x00"}
        return {"val": rb(rng, vlen(sc))}
    args = [("p", "der"), ("u", "tag"), ("p", "val")] + ([] if kind == "derTPSTREnc" else [("u", "n")])
    return dict(args=args, bufs={"der": ("out", dlen), "val": ("in", vlen)}, primary=("der", "val"), forbid=[], outs=[],
                concrete=True, scal=scal, fill=fill, ret_len_out="der",
                # a C string must stay terminated when it overlaps the output: the terminator is part of the input
                )


for k_ in ("derEnc", "derTUINTEnc", "derTBITEnc", "derTPSTREnc"):
    SPEC[k_] = der_enc_spec(k_)


def der_dec_spec(kind):
    typ = kind[4:-3] if kind.endswith("Dec") else kind[4:-4]
    two = kind.endswith("Dec2")

    def mk(rng, sc):
        n, tag = sc["n"], sc["tag"]
        if typ == "UINT":
            v = uint_val(rng, n)
            vv = bytearray(v)
            while len(vv) > 1 and vv[-1] == 0:
                vv.pop()
            return uint_der(tag, v), len(vv), len(vv)
        if typ == "BIT":
            unused = sc.get("unused", 0) if n else 0
            body = bytes([unused]) + rb(rng, n)
            return der_tl(tag, len(body)) + body, n, 8 * n - unused
        if typ == "OCT":
            return der_tl(tag, n) + rb(rng, n), n, n
        body = bytes(rng.choice(PRINTABLE) for _ in range(n))
        return der_tl(tag, n) + body, n + 1, n

    def scal(rng, tier):
        out = []
        for n in [0, 1, 2, 3, 8, 16, 17, 33, 126, 127, 128, 129] + ([255, 256, 300] if tier != "quick" else [200]):
            if typ == "UINT" and n == 0:
                continue
            tag = rng.choice([0x02, 0x03, 0x04, 0x13, 0x5f21, 0x81])
            sc = {"n": n, "tag": tag, "unused": rng.choice([0, 0, 1, 5, 7]), "seed": rng.randrange(1 << 30)}
            der, vlen, L = mk(random.Random(sc["seed"]), sc)
            sc.update(count=len(der) + rng.choice([0, 0, 1, 5]), vlen=vlen, L=L)
            out.append(sc)
        return out

    def fill(rng, sc, prep):
        der, _, _ = mk(random.Random(sc["seed"]), sc)
        return {"der": der + rb(rng, sc["count"] - len(der))}
    if two:
        args = [("p", "val"), ("p", "der"), ("u", "count"), ("u", "tag"), ("u", "L")]
        bufs = {"val": ("out", lambda sc: sc["vlen"]), "der": ("in", lambda sc: sc["count"])}
        forbid = []
    else:
        args = [("p", "val"), ("p", "lenp"), ("p", "der"), ("u", "count"), ("u", "tag")]
        bufs = {"val": ("out", lambda sc: sc["vlen"]), "lenp": ("out", lambda sc: 8), "der": ("in", lambda sc: sc["count"])}
        forbid = [("val", "lenp")]
    return dict(args=args, bufs=bufs, primary=("val", "der"), forbid=forbid, outs=[], concrete=True, scal=scal, fill=fill,
                nullable={"val", "lenp"} if not two else {"val"})


for k_ in ("derTUINTDec", "derTBITDec", "derTOCTDec", "derTPSTRDec", "derTUINTDec2", "derTBITDec2", "derTOCTDec2"):
    SPEC[k_] = der_dec_spec(k_)


# ------------------------------------------------------------------ DSTU point compression (abstract core)
DSTU_P0 = bytes.fromhex("2004548c5c8874feaf01fff97dc23aa9937f862d079bfdc3ad2211b84a5f9d59c5972b8547399c4a2200")  # base point of curve 0 (no = 21)


def _dstu_comp_fill(rng, sc, prep):
    return {"p": DSTU_P0}


def _dstu_rec_prepare(rng, sc):
    ar = bytes(21) + b"\x00" * 3 + DSTU_P0
    op = "dstuPointCompress %s 0 24 0 21" % ar.hex()

    def extract(out):
        ret, hx = out.split()
        return {"xp": bytes.fromhex(hx)[:21]}
    return op, extract


SPEC["dstuPointCompress"] = dict(
    args=[("p", "xp"), ("p", "p"), ("u", "i"), ("u", "no")],
    bufs={"xp": ("out", lambda sc: sc["no"]), "p": ("in", lambda sc: 2 * sc["no"])},
    primary=("xp", "p"), forbid=[], outs=[("dstuPointCompress.x", "xp")], outs_size={"dstuPointCompress.x": 1},
    scal=lambda rng, tier: [{"i": 0, "no": 21}], fill=_dstu_comp_fill)
SPEC["dstuPointRecover"] = dict(
    args=[("p", "p"), ("p", "xp"), ("u", "i"), ("u", "no")],
    bufs={"p": ("out", lambda sc: 2 * sc["no"]), "xp": ("in", lambda sc: sc["no"])},
    primary=("p", "xp"), forbid=[], outs=[("dstuPointRecover.g", "p")],
    scal=lambda rng, tier: [{"i": 0, "no": 21}], prepare=_dstu_rec_prepare)

# ------------------------------------------------------------------ math headers: word arrays, same-or-disjoint patterns
WB = 8          # octets per word in the op lines (64-bit words)


def _wspec(args, bufs, primary, ret_word):
    return dict(args=args, bufs=bufs, primary=primary, forbid=[], outs=[], concrete=True, word=True, ret_word=ret_word,
                align8=set(bufs), scal=lambda rng, tier: [])


def _n(sc):
    return WB * sc["n"]


MATH = {
    # fn: (arg tokens, {buf: role}, out, inputs, scalars, returns a word)
    "wwCopy": ("b a n", "b", ["a"], False), "wwXor": ("c a b n", "c", ["a", "b"], False), "wwXor2": ("b a n", "b", ["a"], False),
    "zzAdd": ("c a b n", "c", ["a", "b"], True), "zzSub": ("c a b n", "c", ["a", "b"], True),
    "zzAdd2": ("b a n", "b", ["a"], True), "zzSub2": ("b a n", "b", ["a"], True),
    "zzAddW": ("b a n w", "b", ["a"], True), "zzSubW": ("b a n w", "b", ["a"], True), "zzNeg": ("b a n", "b", ["a"], False),
    "zzMulW": ("b a n w", "b", ["a"], True), "zzAddMulW": ("b a n w", "b", ["a"], True), "zzSubMulW": ("b a n w", "b", ["a"], True),
    "zzDivW": ("q a n w", "q", ["a"], True),
    "zzAddMod": ("c a b mod n", "c", ["a", "b"], False), "zzSubMod": ("c a b mod n", "c", ["a", "b"], False),
    "zzAddWMod": ("b a w mod n", "b", ["a"], False), "zzSubWMod": ("b a w mod n", "b", ["a"], False),
    "zzNegMod": ("b a mod n", "b", ["a"], False), "zzDoubleMod": ("b a mod n", "b", ["a"], False), "zzHalfMod": ("b a mod n", "b", ["a"], False),
    "ppMulW": ("b a n w", "b", ["a"], True), "ppAddMulW": ("b a n w", "b", ["a"], True),
}
INOUT = {"wwXor2", "zzAdd2", "zzSub2", "zzAddMulW", "zzSubMulW", "ppAddMulW"}
for fn_, (toks, out, ins, rw) in MATH.items():
    args = [("u", t) if t in ("n", "w") else ("p", t) for t in toks.split()]
    bufs = {out: ("io" if fn_ in INOUT else "out", _n)}
    for b_ in ins:
        bufs[b_] = ("in", _n)
    if "mod" in toks.split():
        bufs["mod"] = ("in", _n)
    SPEC[fn_] = _wspec(args, bufs, (out, ins[0]), rw)
SPEC["zzAdd3"] = _wspec([("p", "c"), ("p", "a"), ("u", "n"), ("p", "b"), ("u", "k")],
                        {"c": ("out", lambda sc: WB * max(sc["n"], sc["k"])), "a": ("in", lambda sc: WB * sc["n"]),
                         "b": ("in", lambda sc: WB * sc["k"])}, ("c", "a"), True)

BWORDS = [0, 1, 2, (1 << 64) - 1, (1 << 64) - 2, 1 << 63, (1 << 63) - 1, 0x8000000000000001]


def rword(rng):
    return rng.choice(BWORDS) if rng.random() < 0.4 else rng.getrandbits(64)


def math_cases(rng, tier):
    """same-or-disjoint placements of every math-header function: out == in1, out == in2, all the same, disjoint,
       adjacent (out ends where an input starts and vice versa), inputs overlapping each other"""
    cases = []
    reps = 2 if tier == "quick" else 6
    for fn, spec in SPEC.items():
        if not spec.get("word"):
            continue
        bufs = list(spec["bufs"])
        out = spec["primary"][0]
        ins = [b for b in bufs if b != out and b != "mod"]
        for n in ([1, 2, 3, 5] if tier == "quick" else [1, 2, 3, 4, 5, 8]):
            ks = [n] if fn != "zzAdd3" else sorted(set([1, n, max(1, n - 1), n + 2]))
            for k in ks:
                sc = {"n": n}
                if fn == "zzAdd3":
                    sc["k"] = k
                size = {b: spec["bufs"][b][1](sc) // WB for b in bufs}
                pats = ["d", "adj1", "adj2", "o=i1"]
                if len(ins) > 1:
                    pats += ["o=i2", "all", "i1=i2", "i1~i2", "o=i1,i1~i2"]
                for pat in pats:
                    for _ in range(reps):
                        base = 2
                        addr = {}
                        cur = base
                        for b in bufs:            # disjoint layout first, one guard word between buffers
                            addr[b] = cur
                            cur += size[b] + 1
                        if pat == "adj1":
                            addr[ins[0]] = addr[out] + size[out]
                            if len(ins) > 1:
                                addr[ins[1]] = addr[ins[0]] + size[ins[0]]
                            if "mod" in addr:
                                addr["mod"] = addr[ins[-1]] + size[ins[-1]]
                        elif pat == "adj2":
                            addr[out] = addr[ins[0]] + size[ins[0]]
                            if len(ins) > 1:
                                addr[ins[1]] = addr[out] + size[out]
                            if "mod" in addr:
                                addr["mod"] = max(addr[x] + size[x] for x in [out] + ins)
                        elif pat in ("o=i1", "o=i1,i1~i2"):
                            addr[ins[0]] = addr[out]
                        elif pat == "o=i2":
                            addr[ins[1]] = addr[out]
                        elif pat == "all":
                            addr[ins[0]] = addr[ins[1]] = addr[out]
                        elif pat == "i1=i2":
                            addr[ins[1]] = addr[ins[0]]
                        if pat == "i1~i2" and size[ins[0]] > 1:
                            addr[ins[1]] = addr[ins[0]] + 1
                            if "mod" in addr:
                                addr["mod"] = addr[ins[1]] + size[ins[1]] + 1
                        # inputs may overlap each other only when that does not make them overlap the output partially
                        ok = True
                        for b in ins:
                            if addr[b] != addr[out] and intersects(addr[b], size[b], addr[out], size[out]):
                                if not (fn == "zzAdd3" and addr[b] == addr[out]):
                                    ok = False
                        if "mod" in addr and intersects(addr["mod"], size["mod"], addr[out], size[out]):
                            ok = False
                        if not ok:
                            continue
                        end = max(addr[b] + size[b] for b in bufs) + 2
                        words = [rword(rng) for _ in range(end)]
                        if "mod" in addr:
                            mv = [rword(rng) for _ in range(n)]
                            mv[0] |= 1
                            if mv[-1] == 0:
                                mv[-1] = rng.getrandbits(64) | 1
                            M = sum(v << (64 * i) for i, v in enumerate(mv))
                            for i, v in enumerate(mv):
                                words[addr["mod"] + i] = v
                            done = set()
                            for b in ins:
                                if addr[b] in done:
                                    continue
                                done.add(addr[b])
                                v = sum(words[addr[b] + i] << (64 * i) for i in range(n)) % M
                                if rng.random() < 0.2:
                                    v = rng.choice([0, 1, M - 1, M // 2])
                                for i in range(n):
                                    words[addr[b] + i] = (v >> (64 * i)) & ((1 << 64) - 1)
                            sc["w"] = rng.choice([0, 1, rng.getrandbits(64) % M, (M - 1) & ((1 << 64) - 1) if n == 1 else (1 << 64) - 1]) % M
                        elif any(t == ("u", "w") for t in spec["args"]):
                            sc["w"] = rword(rng)
                            if fn == "zzDivW" and sc["w"] == 0:
                                sc["w"] = 3
                        arena = b"".join(v.to_bytes(8, "little") for v in words)
                        c = Case(fn, spec, dict(sc), {b: WB * addr[b] for b in bufs}, arena)
                        c.off, c.aux = 0, "math:" + pat
                        cases.append(c)
    return cases


# ------------------------------------------------------------------------------- placements
def intersects(a, n, b, k):
    return n > 0 and k > 0 and a < b + k and b < a + n


class Case:
    """one placement: arena + addresses; relocation to pairwise disjoint buffers"""

    def __init__(self, fn, spec, sc, addr, arena):
        self.fn, self.spec, self.sc, self.addr, self.arena = fn, spec, sc, addr, arena

    def size(self, b):
        return self.spec["bufs"][b][1](self.sc)

    def tokens(self, addr):
        t = []
        for kind, nm in self.spec["args"]:
            if kind == "p":
                t.append("N" if addr[nm] is None else str(addr[nm]))
            else:
                t.append(str(self.sc[nm]))
        return t

    def op(self):
        return " ".join([self.fn, self.arena.hex() or "-"] + self.tokens(self.addr))

    def disjoint(self):
        """(arena', addr') with every buffer on its own, contents of the in/io buffers copied"""
        ar = bytearray(b"\xa5" * 8)
        addr = {}
        for b, (role, szf) in self.spec["bufs"].items():
            if self.addr[b] is None:
                addr[b] = None
                continue
            n = szf(self.sc)
            al = 8 if b in self.spec.get("align8", ()) else 4 if b in self.spec.get("align4", ()) else (2 if b in self.spec.get("align2", ()) else 1)
            while len(ar) % al:
                ar.append(0xa5)
            addr[b] = len(ar)
            if role in ("in", "io"):
                ar += self.arena[self.addr[b]:self.addr[b] + n]
            else:
                ar += bytes((0x5a + i) & 255 for i in range(n))
            ar += b"\xa5" * 8
        return bytes(ar), addr

    def disjoint_op(self):
        ar, addr = self.disjoint()
        return " ".join([self.fn, ar.hex() or "-"] + self.tokens(addr)), addr


def make_case(rng, fn, spec, sc, off, aux_mode, null=()):
    """primary out buffer at `off` from the primary in buffer; aux buffers placed by aux_mode:
       'out' = away from everything, 'in' = overlapping some other (non-forbidden) buffer"""
    bufs = spec["bufs"]
    size = {b: bufs[b][1](sc) for b in bufs}
    po, pi = spec["primary"]
    L = max(size[po], size[pi])
    base = L + 24
    if fn in ("beltFMTEncr", "beltFMTDecr"):
        off *= 2
    addr = {pi: base, po: base + off}
    if base + off < 0:
        return None
    hi = max(base + size[pi], base + off + size[po]) + 8
    align4 = spec.get("align4", ())
    if po in align4:
        # move the in-buffer instead so that the aligned buffer stays aligned
        addr[po] = (addr[po] + 3) // 4 * 4
        addr[pi] = addr[po] - off
        if addr[pi] < 0:
            return None
        hi = max(addr[pi] + size[pi], addr[po] + size[po]) + 8
    for b in bufs:
        if b in addr:
            continue
        if b in null:
            addr[b] = None
            continue
        placed = False
        if aux_mode == "in":
            for _ in range(20):
                tgt = rng.choice([x for x in addr if addr[x] is not None])
                if size[b] == 0 or size[tgt] == 0:
                    continue
                lo, hi2 = addr[tgt] - size[b] + 1, addr[tgt] + size[tgt] - 1
                # boundary-heavy: straddle the start, the end, exactly inside at start/end, random
                c = rng.choice([lo, hi2, addr[tgt], addr[tgt] + size[tgt] - size[b], rng.randint(lo, hi2), rng.randint(lo, hi2)])
                if c < 0:
                    continue
                if b in spec.get("align2", ()) and c % 2:
                    continue
                ok = True
                for x, y in spec["forbid"]:
                    other = y if x == b else (x if y == b else None)
                    if other is not None and addr.get(other) is not None and intersects(c, size[b], addr[other], size[other]):
                        ok = False
                if ok:
                    addr[b] = c
                    placed = True
                    break
        if not placed:
            addr[b] = hi
            hi += size[b] + 8
    # forbidden pairs among the primaries
    for x, y in spec["forbid"]:
        if addr.get(x) is not None and addr.get(y) is not None and intersects(addr[x], size[x], addr[y], size[y]):
            return None
    if spec.get("same_or_disjoint"):
        d = spec["primary"][0]
        for b in bufs:
            if b != d and addr[b] != addr[d] and intersects(addr[b], size[b], addr[d], size[d]):
                return None
    end = max([hi] + [addr[b] + size[b] for b in bufs if addr[b] is not None]) + 8
    arena = bytearray(rb(rng, end))
    return addr, arena, size


def build_case(rng, fn, sc, off, aux_mode, null=(), prep=None, spec=None):
    spec = spec or SPEC.get(fn) or CONTROL[fn]
    r = make_case(rng, fn, spec, sc, off, aux_mode, null)
    if r is None:
        return None
    addr, arena, size = r
    contents = {}
    if "fill" in spec:
        contents.update(spec["fill"](rng, sc, prep))
    if prep:
        contents.update({k: v for k, v in prep.items() if v is not None})
    for b, data in contents.items():
        if addr.get(b) is not None:
            arena[addr[b]:addr[b] + len(data)] = data[:size[b]] if b != "val" or fn != "derTPSTREnc" else data
    return Case(fn, spec, sc, addr, bytes(arena))


def offsets(L, tier, rng):
    full = list(range(-(L + 16), L + 17))
    if tier == "thorough" or len(full) <= 40:
        return full
    keep = {-(L + 16), -(L + 1), -L, -(L - 1), -17, -16, -15, -9, -8, -7, -4, -3, -2, -1, 0, 1, 2, 3, 4, 7, 8, 9, 15, 16, 17, L - 1, L, L + 1, L + 16}
    keep = {x for x in keep if -(L + 16) <= x <= L + 16}
    rest = [x for x in full if x not in keep]
    keep.update(rng.sample(rest, min(len(rest), 12)))
    return sorted(keep)

"""Translator of property C17 -> Bee2V/Gen/C17Src.lean (text level, fail-closed).

What is regenerated from /repo on every run (the model and the theorems use these constants, so a
change of the source changes what Lean checks):
  * btok_sm.c : for each of btokSMCmdWrap / CmdUnwrap / RespWrap / RespUnwrap the counter test
        `if (st->ctr[0] % 2 != R) return ERR_BAD_LOGIC;`  (exactly one per function)  -> required parity R;
    the minimal protected lengths (`state && count < N`), the bound of fix-1 (`cdf_len > N`) ;
  * btok_cvc.c: name length bounds of btokCVCNameIsValid and of btokCVCBodyDec, admissible key lengths of
    btokCVCWrap / btokCVCUnwrap / btokCVCSeemsValid / BodyDec (bits), the object identifiers, the tags;
  * bpki.c    : `if (iter < N) return ERR_BAD_INPUT;` of bpkiPrivkeyWrap / bpkiShareWrap, share lengths;
  * apdu.c    : bounds of apduCmdIsValid / apduRespIsValid;
  * bign96.c  : the tables of bign-curve96v1 (for the executable signature instance of the driver).
"""
import os, re


class Unhandled(Exception):
    pass


def _src(repo, rel):
    text = open(os.path.join(repo, rel), encoding="utf-8", errors="replace").read()
    text = re.sub(r"/\*.*?\*/", " ", text, flags=re.S)
    return re.sub(r"//[^\n]*", " ", text)


def _func(text, name, rel):
    """body of the function `name` (text between the braces of its definition)"""
    m = re.search(r"\n(?:static\s+)?[A-Za-z_][\w\s\*]*?\b%s\s*\([^;{]*?\)\s*\{" % re.escape(name), text)
    if not m:
        raise Unhandled("%s: function %s not found" % (rel, name))
    i = m.end()
    depth = 1
    while depth:
        if i >= len(text):
            raise Unhandled("%s: unbalanced braces in %s" % (rel, name))
        c = text[i]
        depth += (c == "{") - (c == "}")
        i += 1
    return text[m.end():i - 1]


def _one(pattern, body, what):
    ms = re.findall(pattern, body, flags=re.S)
    if len(ms) != 1:
        raise Unhandled("%s: expected exactly one match, found %d" % (what, len(ms)))
    return ms[0]


def _ws(s):
    return re.sub(r"\s+", " ", s).strip()


def parse(repo):
    out = {}
    # ---------------------------------------------------------------- btok_sm.c
    rel = "src/crypto/btok/btok_sm.c"
    sm = _src(repo, rel)
    for fn, key in [("btokSMCmdWrap", "parCmdWrap"), ("btokSMCmdUnwrap", "parCmdUnwrap"),
                    ("btokSMRespWrap", "parRespWrap"), ("btokSMRespUnwrap", "parRespUnwrap")]:
        body = _func(sm, fn, rel)
        r = _one(r"if\s*\(\s*st->ctr\[0\]\s*%\s*2\s*!=\s*(\d)\s*\)\s*return\s+ERR_BAD_LOGIC\s*;", body, fn + " parity test")
        if len(re.findall(r"ERR_BAD_LOGIC", body)) != 1 or len(re.findall(r"ctr\[", body)) != 1:
            raise Unhandled("%s: the counter is used in a way the model does not know" % fn)
        out[key] = int(r)
    body = _func(sm, "btokSMCmdUnwrap", rel)
    out["cmdMin"] = int(_one(r"state\s*&&\s*count\s*<\s*(\d+)", body, "btokSMCmdUnwrap minimal length"))
    body = _func(sm, "btokSMRespUnwrap", rel)
    out["respMin"] = int(_one(r"state\s*&&\s*count\s*<\s*(\d+)", body, "btokSMRespUnwrap minimal length"))
    body = _func(sm, "btokSMCmdWrap", rel)
    ms = re.findall(r"if\s*\(\s*cdf_len\s*>\s*(\d+)\s*\)\s*return\s+ERR_BAD_APDU\s*;", body)
    if len(ms) > 1:
        raise Unhandled("btokSMCmdWrap: several bounds on cdf_len")
    # without docs/C17.fix-1.diff there is no bound: 2^64 - 1 stands for "none" (the round-trip theorem then fails)
    out["cdfStarMax"] = int(ms[0]) if ms else 18446744073709551615
    body = _func(sm, "btokSMCtrInc", rel)
    if _ws(_one(r"for\s*\((.*?)\)\s*carry", body, "btokSMCtrInc loop")) != "pos = 0; pos < 16; ++pos":
        raise Unhandled("btokSMCtrInc: unexpected loop header")
    if not re.search(r"carry\s*\+=\s*st->ctr\[pos\]\s*,\s*st->ctr\[pos\]\s*=\s*\(octet\)carry\s*,\s*carry\s*>>=\s*8\s*;", body) or \
       not re.search(r"register\s+word\s+carry\s*=\s*1\s*;", body):
        raise Unhandled("btokSMCtrInc: unexpected loop body")
    # ---------------------------------------------------------------- apdu.c
    rel = "src/core/apdu.c"
    ap = _src(repo, rel)
    body = _func(ap, "apduCmdIsValid", rel)
    out["cdfMax"] = int(_one(r"cmd->cdf_len\s*<\s*(\d+)", body, "apduCmdIsValid cdf_len"))
    out["rdfMax"] = int(_one(r"cmd->rdf_len\s*<=\s*(\d+)", body, "apduCmdIsValid rdf_len"))
    body = _func(ap, "apduRespIsValid", rel)
    out["respRdfMax"] = int(_one(r"resp->rdf_len\s*<=\s*(\d+)", body, "apduRespIsValid rdf_len"))
    # ---------------------------------------------------------------- btok_cvc.c
    rel = "src/crypto/btok/btok_cvc.c"
    cv = _src(repo, rel)
    body = _func(cv, "btokCVCNameIsValid", rel)
    m = re.search(r"return\s+strIsValid\(name\)\s*&&\s*(\d+)\s*<=\s*strLen\(name\)\s*&&\s*strLen\(name\)\s*<=\s*(\d+)\s*&&\s*"
                  r"strIsPrintable\(name\)\s*;", body)
    if not m:
        raise Unhandled("btokCVCNameIsValid: unexpected body")
    out["nameMin"], out["nameMax"] = int(m.group(1)), int(m.group(2))
    body = _func(cv, "btokCVCBodyDec", rel)
    bounds = re.findall(r"len\s*<\s*(\d+)\s*\|\|\s*len\s*>\s*(\d+)", body)
    if len(bounds) != 2 or any((int(a), int(b)) != (out["nameMin"], out["nameMax"]) for a, b in bounds):
        raise Unhandled("btokCVCBodyDec: name length bounds differ from btokCVCNameIsValid: %r" % bounds)
    bits = _one(r"derBITDec\(0,\s*&len,\s*ptr,\s*count\)\s*==\s*SIZE_MAX\s*\|\|\s*((?:len\s*!=\s*\d+\s*(?:&&\s*)?)+)\)", body,
                "btokCVCBodyDec key length")
    out["keyBits"] = [int(x) for x in re.findall(r"\d+", bits)]
    body = _func(cv, "btokCVCSeemsValid", rel)
    out["pubLens"] = [int(x) for x in re.findall(r"cvc->pubkey_len\s*==\s*(\d+)", body)]
    if sorted(8 * x for x in out["pubLens"]) != sorted(out["keyBits"]):
        raise Unhandled("key lengths of btokCVCSeemsValid and btokCVCBodyDec differ")
    body = _func(cv, "btokCVCUnwrap", rel)
    ul = [int(x) for x in re.findall(r"pubkey_len\s*!=\s*(\d+)", body)]
    if sorted(set(ul) - {0}) != sorted(out["pubLens"]):
        raise Unhandled("btokCVCUnwrap admits other key lengths: %r" % ul)
    body = _func(cv, "btokCVCWrap", rel)
    out["privLens"] = [int(x) for x in re.findall(r"privkey_len\s*!=\s*(\d+)", body)]
    if sorted(2 * x for x in out["privLens"]) != sorted(out["pubLens"]):
        raise Unhandled("btokCVCWrap key lengths")
    body = _func(cv, "btokCVCCheck2", rel)
    if not re.search(r"if\s*\(\s*!strEq\(cvc->authority,\s*cvca->holder\)\s*\)\s*return\s+ERR_BAD_NAME\s*;", body):
        raise Unhandled("btokCVCCheck2: the authority/holder comparison is not strEq(cvc->authority, cvca->holder)")
    m = re.search(r"if\s*\(\s*!tmDateIsValid2\(cvca->from\)\s*\|\|\s*!tmDateIsValid2\(cvca->until\)\s*\|\|\s*"
                  r"!tmDateLeq2\(cvca->from,\s*cvc->from\)\s*\|\|\s*!tmDateLeq2\(cvc->from,\s*cvca->until\)\s*\)\s*return\s+ERR_BAD_DATE\s*;", body)
    if not m:
        raise Unhandled("btokCVCCheck2: unexpected date condition")
    for sym in ["oid_bign_pubkey", "oid_eid_access", "oid_esign_access", "oid_esign_auth_ext"]:
        out[sym] = _one(r"static\s+const\s+char\s+%s\s*\[\s*\]\s*=\s*\"([0-9.]+)\"\s*;" % sym, cv, sym)
    # ---------------------------------------------------------------- bpki.c
    rel = "src/crypto/bpki.c"
    bp = _src(repo, rel)
    its = []
    for fn in ["bpkiPrivkeyWrap", "bpkiShareWrap"]:
        body = _func(bp, fn, rel)
        its.append(int(_one(r"if\s*\(\s*iter\s*<\s*(\d+)\s*\)\s*return\s+ERR_BAD_INPUT\s*;", body, fn + " iteration bound")))
    if its[0] != its[1]:
        raise Unhandled("bpki: different iteration bounds")
    out["iterMin"] = its[0]
    # ---------------------------------------------------------------- bign96.c
    rel = "src/crypto/bign96.c"
    b9 = _src(repo, rel)
    for f, n in [("p", 24), ("a", 24), ("b", 24), ("q", 24), ("yG", 24)]:
        arr = _one(r"static\s+const\s+octet\s+_curve96v1_%s\s*\[\s*%d\s*\]\s*=\s*\{([^}]*)\}\s*;" % (f, n), b9, "_curve96v1_" + f)
        items = [x.strip() for x in arr.split(",") if x.strip()]
        if len(items) != n or any(not re.fullmatch(r"0[xX][0-9a-fA-F]{2}", it) for it in items):
            raise Unhandled("_curve96v1_%s: unexpected initialiser" % f)
        out["c96_" + f] = sum(int(it, 16) << (8 * i) for i, it in enumerate(items))
    return out


def generate(repo):
    d = parse(repo)
    L = ["/- GENERATED by xlate/x_c17.py from btok_sm.c, btok_cvc.c, bpki.c, apdu.c, bign96.c — do not edit. -/",
         "namespace Bee2V.Gen.C17Src", ""]
    for k in ["parCmdWrap", "parCmdUnwrap", "parRespWrap", "parRespUnwrap", "cmdMin", "respMin", "cdfStarMax",
              "cdfMax", "rdfMax", "respRdfMax", "nameMin", "nameMax", "iterMin"]:
        L.append("def %s : Nat := %d" % (k, d[k]))
    for k in ["keyBits", "pubLens", "privLens"]:
        L.append("def %s : List Nat := [%s]" % (k, ", ".join(str(x) for x in d[k])))
    for k in ["oid_bign_pubkey", "oid_eid_access", "oid_esign_access", "oid_esign_auth_ext"]:
        L.append("def %s : String := \"%s\"" % (k, d[k]))
    for f in ["p", "a", "b", "q", "yG"]:
        L.append("def c96_%s : Nat := %d" % (f, d["c96_" + f]))
    L += ["", "end Bee2V.Gen.C17Src", ""]
    return "\n".join(L)


if __name__ == "__main__":
    import sys
    print(generate(sys.argv[1] if len(sys.argv) > 1 else os.environ.get("BEE2_REPO", "/repo")))

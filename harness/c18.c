/* C18 harness (sequential refinement): `seq <op> ...` runs the operations in ONE thread of a
   freshly forked child (so that the file-scope state of rng.c starts from zero for every line)
   and prints, after each operation, `<ret> <_ctr> <_state!=0> <_once> <_inited>` joined by ';'.
   ops: c0 / c1 rngCreate without / with an additional source, v rngIsValid, x rngClose,
        r<k> rngStepR2 of k blocks, R rngStepR of one block, k rngRekey.
   rng.c is #included to observe its static variables. */
#include <unistd.h>
#include <sys/wait.h>
#include "core/rng.c"
static void handle(int argc, char** argv);
#include "common.h"

static err_t src_(size_t* read, void* buf, size_t count, void* state)
{
	memset(buf, 0x5A, count);
	*read = count;
	return ERR_OK;
}

static void run_seq(int argc, char** argv)
{
	int i;
	for (i = 1; i < argc; ++i)
	{
		const char* op = argv[i];
		unsigned long ret = 0;
		unsigned char buf[32 * 64];
		if (!strcmp(op, "c0")) ret = rngCreate(0, 0) == ERR_OK ? 0 : 1;
		else if (!strcmp(op, "c1")) ret = rngCreate(src_, 0) == ERR_OK ? 0 : 1;
		else if (!strcmp(op, "v")) ret = rngIsValid() ? 1 : 0;
		else if (!strcmp(op, "x")) rngClose();
		else if (!strcmp(op, "R")) { memset(buf, 0, 32); rngStepR(buf, 32, 0); }
		else if (!strcmp(op, "k")) rngRekey();
		else if (op[0] == 'r') { size_t k = (size_t)atoi(op + 1); if (k > 64) k = 64; memset(buf, 0, 32 * k); rngStepR2(buf, 32 * k, 0); }
		else { printf("bad-op"); return; }
		printf("%s%lu %lu %d %lu %d", i > 1 ? ";" : "", ret, (unsigned long)_ctr, _state != 0,
			(unsigned long)(_once == SIZE_MAX ? 2 : _once), (int)(_inited != 0));
	}
}

static void handle(int argc, char** argv)
{
	pid_t pid;
	int st;
	if (argc < 1 || strcmp(argv[0], "seq")) { printf("bad-op"); return; }
	fflush(stdout);
	pid = fork();
	if (pid == 0)
	{
		run_seq(argc, argv);
		fflush(stdout);
		_exit(0);
	}
	waitpid(pid, &st, 0);
	if (!WIFEXITED(st) || WEXITSTATUS(st) != 0)
		printf("CHILD-CRASH(%d)", st);
}

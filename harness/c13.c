/* C13 correspondence harness: bels (STB 34.101.60) on the real library.
   Protocol: see lean/Bee2V/C13/Drv.lean.  The first argument of every op is the word size W the
   line was generated for (32 or 64): it is the parameter of the MODEL's bookkeeping; the library
   uses its own B_PER_W, so a stream generated for one word size can be replayed on another build
   (property C19) — all inputs and outputs are octet strings.
   The generator (gen_i) is a tape of octets: each call copies the next `count` octets, zeros
   once the tape is exhausted. */
#include "bee2/defs.h"
#include "bee2/core/err.h"
#include "bee2/core/mem.h"
#include "bee2/crypto/bels.h"
#include <stdio.h>
#include <stdlib.h>
#include <string.h>

/* harness/c13_hook.c: copy of bels.c whose belsGenMid takes its hash value from here when set */
extern const unsigned char* c13_hash_override;
err_t c13h_belsGenMid(octet mid[], size_t len, const octet m0[], const octet id[], size_t id_len);

typedef struct { const unsigned char* p; size_t left; size_t calls; } tape_t;

static void tape_gen(void* buf, size_t count, void* state)
{
	tape_t* t = (tape_t*)state;
	size_t k = count < t->left ? count : t->left;
	memset(buf, 0, count);
	if (k) memcpy(buf, t->p, k);
	t->p += k, t->left -= k, t->calls++;
}

static void put_hex(const void* buf, size_t len);
static unsigned char* hex_arg(const char* s, size_t* len);
static void hex_free(unsigned char* p, size_t len);
static unsigned long long u_arg(const char* s);

static void res(err_t code, const void* buf, size_t len)
{
	printf("%u ", (unsigned)code);
	if (code == ERR_OK) put_hex(buf, len); else fputc('-', stdout);
}

/* exact-size output buffer (ASan traps an overrun) */
static unsigned char* outbuf(size_t len) { unsigned char* p = (unsigned char*)malloc(len ? len : 1); memset(p, 0xA5, len ? len : 1); return p; }

static void handle(int argc, char** argv)
{
	const char* op = argc ? argv[0] : "";
	size_t l1, l2, l3, l4;
	if (argc < 3 || (u_arg(argv[1]) != 32 && u_arg(argv[1]) != 64)) { printf("bad-op"); return; }
	if (strcmp(op, "stdm") == 0 && argc == 4)
	{
		size_t len = u_arg(argv[2]), num = u_arg(argv[3]);
		unsigned char* m = outbuf(len);
		res(belsStdM(m, len, num), m, len);
		free(m);
	}
	else if (strcmp(op, "valm") == 0 && argc == 4)
	{
		size_t len = u_arg(argv[2]);
		unsigned char* m0 = hex_arg(argv[3], &l1);
		printf("%u", (unsigned)belsValM(m0, len));
		hex_free(m0, l1);
	}
	else if (strcmp(op, "genm0") == 0 && argc == 4)
	{
		size_t len = u_arg(argv[2]);
		unsigned char* tp = hex_arg(argv[3], &l1);
		tape_t t = { tp, l1, 0 };
		unsigned char* m = outbuf(len);
		res(belsGenM0(m, len, tape_gen, &t), m, len);
		free(m), hex_free(tp, l1);
	}
	else if (strcmp(op, "genmi") == 0 && argc == 5)
	{
		size_t len = u_arg(argv[2]);
		unsigned char* m0 = hex_arg(argv[3], &l1);
		unsigned char* tp = hex_arg(argv[4], &l2);
		tape_t t = { tp, l2, 0 };
		unsigned char* m = outbuf(len);
		res(belsGenMi(m, len, m0, tape_gen, &t), m, len);
		free(m), hex_free(m0, l1), hex_free(tp, l2);
	}
	else if (strcmp(op, "genmid") == 0 && argc == 5)
	{
		size_t len = u_arg(argv[2]);
		unsigned char* m0 = hex_arg(argv[3], &l1);
		unsigned char* id = hex_arg(argv[4], &l2);
		unsigned char* m = outbuf(len);
		res(belsGenMid(m, len, m0, id, l2), m, len);
		free(m), hex_free(m0, l1), hex_free(id, l2);
	}
	else if (strcmp(op, "genmidu") == 0 && argc == 5)
	{
		/* belsGenMid (copy with the hash hook) on the element u = the 32 octets given */
		size_t len = u_arg(argv[2]);
		unsigned char* m0 = hex_arg(argv[3], &l1);
		unsigned char* u = hex_arg(argv[4], &l2);
		unsigned char* m = outbuf(len);
		if (l2 != 32) { printf("bad-op"); return; }
		c13_hash_override = u;
		res(c13h_belsGenMid(m, len, m0, (const octet*)"", 0), m, len);
		c13_hash_override = 0;
		free(m), hex_free(m0, l1), hex_free(u, l2);
	}
	else if (strcmp(op, "share") == 0 && argc == 9)
	{
		size_t count = u_arg(argv[2]), thr = u_arg(argv[3]), len = u_arg(argv[4]);
		unsigned char* s = hex_arg(argv[5], &l1);
		unsigned char* m0 = hex_arg(argv[6], &l2);
		unsigned char* mi = hex_arg(argv[7], &l3);
		unsigned char* tp = hex_arg(argv[8], &l4);
		tape_t t = { tp, l4, 0 };
		unsigned char* si = outbuf(count * len);
		res(belsShare(si, count, thr, len, s, m0, mi, tape_gen, &t), si, count * len);
		free(si), hex_free(s, l1), hex_free(m0, l2), hex_free(mi, l3), hex_free(tp, l4);
	}
	else if (strcmp(op, "share2") == 0 && argc == 7)
	{
		size_t count = u_arg(argv[2]), thr = u_arg(argv[3]), len = u_arg(argv[4]);
		unsigned char* s = hex_arg(argv[5], &l1);
		unsigned char* tp = hex_arg(argv[6], &l2);
		tape_t t = { tp, l2, 0 };
		unsigned char* si = outbuf(count * (len + 1));
		res(belsShare2(si, count, thr, len, s, tape_gen, &t), si, count * (len + 1));
		free(si), hex_free(s, l1), hex_free(tp, l2);
	}
	else if (strcmp(op, "share3") == 0 && argc == 6)
	{
		size_t count = u_arg(argv[2]), thr = u_arg(argv[3]), len = u_arg(argv[4]);
		unsigned char* s = hex_arg(argv[5], &l1);
		unsigned char* si = outbuf(count * (len + 1));
		res(belsShare3(si, count, thr, len, s), si, count * (len + 1));
		free(si), hex_free(s, l1);
	}
	else if (strcmp(op, "recover") == 0 && argc == 7)
	{
		size_t count = u_arg(argv[2]), len = u_arg(argv[3]);
		unsigned char* si = hex_arg(argv[4], &l1);
		unsigned char* m0 = hex_arg(argv[5], &l2);
		unsigned char* mi = hex_arg(argv[6], &l3);
		unsigned char* s = outbuf(len);
		res(belsRecover(s, count, len, si, m0, mi), s, len);
		free(s), hex_free(si, l1), hex_free(m0, l2), hex_free(mi, l3);
	}
	else if (strcmp(op, "recover2") == 0 && argc == 5)
	{
		size_t count = u_arg(argv[2]), len = u_arg(argv[3]);
		unsigned char* si = hex_arg(argv[4], &l1);
		unsigned char* s = outbuf(len);
		res(belsRecover2(s, count, len, si), s, len);
		free(s), hex_free(si, l1);
	}
	else
		printf("bad-op");
}

#include "common.h"
#include "c13_hook.c"

/* C13: a second copy of src/crypto/bels.c (working tree) in which belsGenMid's call of
   beltHashStepG can be overridden, so that the retry loop of belsGenMid (u, u + 1, u + 2) —
   unreachable through the API without inverting belt-hash — runs on chosen elements.
   All public names of the copy are prefixed c13h_; the harness uses only c13h_belsGenMid.
   This file is #included at the very end of harness/c13.c (one translation unit, so that every
   tool that compiles harness/c13.c alone gets it). */
#pragma GCC optimize ("no-strict-aliasing")
#include "bee2/defs.h"
void c13_hash_hook(octet hash[32], void* state);
#define belsStdM c13h_belsStdM
#define belsValM c13h_belsValM
#define belsGenM0 c13h_belsGenM0
#define belsGenMi c13h_belsGenMi
#define belsGenMid c13h_belsGenMid
#define belsShare c13h_belsShare
#define belsShare2 c13h_belsShare2
#define belsShare3 c13h_belsShare3
#define belsRecover c13h_belsRecover
#define belsRecover2 c13h_belsRecover2
#define beltHashStepG(hash, state) c13_hash_hook(hash, state)
#include "crypto/bels.c"
#undef beltHashStepG

void beltHashStepG(octet hash[32], void* state);

const unsigned char* c13_hash_override = 0;

void c13_hash_hook(octet hash[32], void* state)
{
	beltHashStepG(hash, state);
	if (c13_hash_override)
		memCopy(hash, c13_hash_override, 32);
}

/* C08 harness, part b: the containers built on the DER/APDU primitives, on the real library.
   Static Enc/Dec routines are reached by including the .c files.  Same placement discipline as
   c08.c: inputs flush against the end of exact-size blocks, outputs in exact-size blocks.

   ops (one line each, result = one line; `err` = SIZE_MAX / non-zero err_t printed as err:<code>):
     pkdec X | pkenc K            bpkiPrivkeyDec / bpkiPrivkeyEnc           (static)
     shdec X | shenc S            bpkiShareDec / bpkiShareEnc               (static)
     eddec X | edenc E SALT ITER  bpkiEdataDec / bpkiEdataEnc               (static)
     csrdec X                     bpkiCSRDec                                (static)
     pkwrap K PWD SALT ITER | pkunwrap X PWD | shwrap S PWD SALT ITER | shunwrap X PWD   (public)
     bpdec X | bpenc L P A B Q YG SEED | bpstd OID                          bignParamsDec / Enc(_internal)
     cvcdec X | cvcbody X | cvcenc AUTH HOLDER FROM UNTIL EID ESIGN PUBKEY SIG | cvcwrap PRIVKEY AUTH HOLDER FROM UNTIL EID ESIGN
     smcw KEY CLA INS P1 P2 CDF RDFLEN | smcu KEY X | smrw KEY SW1 SW2 RDF | smru KEY X */
#include <stdio.h>
#include "crypto/bpki.c"
#undef derEncStep
#undef derDecStep
#include "crypto/bign/bign_params.c"
#undef derEncStep
#undef derDecStep
#define oid_bign_pubkey oid_bign_pubkey_cvc_
#include "crypto/btok/btok_cvc.c"
#undef oid_bign_pubkey
#include <bee2/core/apdu.h>
#include <bee2/core/hex.h>
static void handle(int argc, char** argv);
#include "common.h"

#define ERR ((size_t)-1)
#define OP(s) (strcmp(argv[0], s) == 0)

static unsigned char* out_buf(size_t n)
{
	unsigned char* p = (unsigned char*)malloc(n ? n : 1);
	memset(p, 0xA5, n ? n : 1);
	return n ? p : p + 1;
}
static void out_free(unsigned char* p, size_t n) { free(n ? p : p - 1); }

static char* str_arg(const char* s, size_t* len)
{
	size_t n, i;
	unsigned char* v = hex_arg(s, &n);
	char* p;
	for (i = 0; i < n; ++i)
		if (v[i] == 0) { hex_free(v, n); return 0; }
	p = (char*)malloc(n + 1);
	memcpy(p, v, n);
	p[n] = 0;
	hex_free(v, n);
	*len = n;
	return p;
}

static void put_cvc(const btok_cvc_t* c)
{
	put_hex(c->authority, strlen(c->authority)); printf(" ");
	put_hex(c->holder, strlen(c->holder)); printf(" ");
	put_hex(c->from, 6); printf(" "); put_hex(c->until, 6); printf(" ");
	put_hex(c->hat_eid, 5); printf(" "); put_hex(c->hat_esign, 2); printf(" ");
	put_hex(c->pubkey, c->pubkey_len <= 128 ? c->pubkey_len : 128); printf(" ");
	put_hex(c->sig, c->sig_len <= 96 ? c->sig_len : 96);
}

/* CVCertificate from (cvc, cvc->sig) without signing: mirrors the encoding steps of btokCVCWrap */
static size_t cvc_enc(octet cert[], const btok_cvc_t* cvc)
{
	der_anchor_t CVCert[1];
	size_t count = 0, t;
	t = derTSEQEncStart(CVCert, cert, count, 0x7F21);
	if (t == ERR) return ERR;
	cert = cert ? cert + t : 0, count += t;
	t = btokCVCBodyEnc(cert, cvc);
	if (t == ERR) return ERR;
	cert = cert ? cert + t : 0, count += t;
	t = derTOCTEnc(cert, 0x5F37, cvc->sig, cvc->sig_len);
	if (t == ERR) return ERR;
	cert = cert ? cert + t : 0, count += t;
	t = derTSEQEncStop(cert, count, CVCert);
	if (t == ERR) return ERR;
	return count + t;
}

static int fill(octet* dst, size_t cap, const char* tok, size_t* len)
{
	size_t n; octet* v = hex_arg(tok, &n);
	if (n > cap) { hex_free(v, n); return 0; }
	memcpy(dst, v, n);
	if (len) *len = n;
	hex_free(v, n);
	return 1;
}

static void* sm_state(const char* keytok, int incs)
{
	size_t n; octet* key = hex_arg(keytok, &n);
	void* st;
	if (n != 32) { hex_free(key, n); return 0; }
	st = malloc(btokSM_keep());
	btokSMStart(st, key);
	while (incs--) btokSMCtrInc(st);
	hex_free(key, n);
	return st;
}

static void handle(int argc, char** argv)
{
	size_t n = 0, m = 0, r, len;
	octet* x = 0; octet* v = 0;
	if (argc < 2) { printf("bad-op"); return; }
	/* ------------------------------------------------------------ bpki: PrivateKeyInfo / share */
	if ((OP("pkdec") || OP("shdec")) && argc == 2)
	{
		int pk = OP("pkdec");
		x = hex_arg(argv[1], &n);
		len = 0x5A5A;
		r = pk ? bpkiPrivkeyDec(0, &len, x, n) : bpkiShareDec(0, &len, x, n);
		if (r == ERR)
		{
			/* the failed decode once more, into a caller buffer of the largest documented size (exact block:
			   a write beyond it is an ASan report) */
			size_t cap = pk ? 64 : 33, len2 = 0;
			v = out_buf(cap);
			printf((pk ? bpkiPrivkeyDec(v, &len2, x, n) : bpkiShareDec(v, &len2, x, n)) == ERR ? "err" : "null-mismatch");
			out_free(v, cap);
		}
		else
		{
			size_t len2 = 0;
			v = out_buf(len);
			if ((pk ? bpkiPrivkeyDec(v, &len2, x, n) : bpkiShareDec(v, &len2, x, n)) != r || len2 != len) printf("null-mismatch");
			else put_hex(v, len), printf(" %zu", r);
			out_free(v, len);
		}
		hex_free(x, n);
	}
	else if ((OP("pkenc") || OP("shenc")) && argc == 2)
	{
		int pk = OP("pkenc");
		x = hex_arg(argv[1], &n);
		if (pk ? (n != 24 && n != 32 && n != 48 && n != 64) : (n != 17 && n != 25 && n != 33))   /* share[0] in 1..16 is checked by bpkiShareUnwrap, not by the codec */
			printf("invalid");
		else
		{
			r = pk ? bpkiPrivkeyEnc(0, x, n) : bpkiShareEnc(0, x, n);
			v = out_buf(r);
			if ((pk ? bpkiPrivkeyEnc(v, x, n) : bpkiShareEnc(v, x, n)) != r) printf("size-mismatch"); else put_hex(v, r);
			out_free(v, r);
		}
		hex_free(x, n);
	}
	/* ------------------------------------------------------------ bpki: EncryptedPrivateKeyInfo */
	else if (OP("eddec") && argc == 2)
	{
		size_t iter = 0x5A5A;
		x = hex_arg(argv[1], &n);
		len = 0x5A5A;
		r = bpkiEdataDec(0, &len, 0, 0, x, n);
		if (r == ERR)
		{
			octet* salt = out_buf(8);
			printf(bpkiEdataDec(0, 0, salt, &iter, x, n) == ERR ? "err" : "null-mismatch");
			out_free(salt, 8);
		}
		else
		{
			octet* salt = out_buf(8);
			size_t len2 = 0;
			v = out_buf(len);
			if (bpkiEdataDec(v, &len2, salt, &iter, x, n) != r || len2 != len) printf("null-mismatch");
			else put_hex(v, len), printf(" "), put_hex(salt, 8), printf(" %zu %zu", iter, r);
			out_free(v, len); out_free(salt, 8);
		}
		hex_free(x, n);
	}
	else if (OP("edenc") && argc == 4)
	{
		octet* salt;
		size_t iter = (size_t)u_arg(argv[3]);
		x = hex_arg(argv[1], &n);
		salt = hex_arg(argv[2], &m);
		if (m != 8) printf("invalid");
		else
		{
			r = bpkiEdataEnc(0, x, n, salt, iter);
			v = out_buf(r);
			if (bpkiEdataEnc(v, x, n, salt, iter) != r) printf("size-mismatch"); else put_hex(v, r);
			out_free(v, r);
		}
		hex_free(x, n); hex_free(salt, m);
	}
	else if (OP("csrdec") && argc == 2)
	{
		bpki_csr_info_t ci[1];
		x = hex_arg(argv[1], &n);
		memset(ci, 0x5A, sizeof ci);
		r = bpkiCSRDec(ci, x, n);
		if (r == ERR) printf("err");
		else printf("%zu %zu %zu %zu %zu", ci->body_offset, ci->body_len, ci->pubkey_offset, ci->sig_offset, r);
		hex_free(x, n);
	}
	else if ((OP("pkwrap") || OP("shwrap")) && argc == 5)
	{
		int pk = OP("pkwrap");
		octet* pwd; octet* salt; size_t pl, sl;
		err_t code;
		x = hex_arg(argv[1], &n);
		pwd = hex_arg(argv[2], &pl);
		salt = hex_arg(argv[3], &sl);
		if (sl != 8) { printf("invalid"); return; }
		code = pk ? bpkiPrivkeyWrap(0, &len, x, n, pwd, pl, salt, (size_t)u_arg(argv[4])) :
			bpkiShareWrap(0, &len, x, n, pwd, pl, salt, (size_t)u_arg(argv[4]));
		if (code != ERR_OK) printf("err:%u", (unsigned)code);
		else
		{
			v = out_buf(len);
			code = pk ? bpkiPrivkeyWrap(v, 0, x, n, pwd, pl, salt, (size_t)u_arg(argv[4])) :
				bpkiShareWrap(v, 0, x, n, pwd, pl, salt, (size_t)u_arg(argv[4]));
			if (code != ERR_OK) printf("err:%u", (unsigned)code); else put_hex(v, len);
			out_free(v, len);
		}
		hex_free(x, n); hex_free(pwd, pl); hex_free(salt, sl);
	}
	else if ((OP("pkunwrap") || OP("shunwrap")) && argc == 3)
	{
		int pk = OP("pkunwrap");
		octet* pwd; size_t pl;
		err_t code;
		x = hex_arg(argv[1], &n);
		pwd = hex_arg(argv[2], &pl);
		len = 0x5A5A;
		code = pk ? bpkiPrivkeyUnwrap(0, &len, x, n, pwd, pl) : bpkiShareUnwrap(0, &len, x, n, pwd, pl);
		if (code != ERR_OK) printf("err:%u", (unsigned)code);
		else
		{
			v = out_buf(len);
			code = pk ? bpkiPrivkeyUnwrap(v, 0, x, n, pwd, pl) : bpkiShareUnwrap(v, 0, x, n, pwd, pl);
			if (code != ERR_OK) printf("err:%u", (unsigned)code); else put_hex(v, len);
			out_free(v, len);
		}
		hex_free(x, n); hex_free(pwd, pl);
	}
	/* ------------------------------------------------------------ bign params */
	else if (OP("bpdec") && argc == 2)
	{
		bign_params* p = (bign_params*)out_buf(sizeof(bign_params));
		err_t code;
		x = hex_arg(argv[1], &n);
		code = bignParamsDec(p, x, n);
		if (code != ERR_OK)
		{
			/* the structure is zeroed first and every field is written with l / 4 octets after l is known:
			   anything else in the 64-octet fields after a failed decode is a write beyond the field's use */
			size_t no = p->l / 4, i, bad = (p->l != 0 && p->l != 128 && p->l != 192 && p->l != 256);
			const octet* f[5]; f[0] = p->p, f[1] = p->a, f[2] = p->b, f[3] = p->q, f[4] = p->yG;
			if (no > 64) no = 64;
			for (i = 0; i < 5; ++i)
			{
				size_t j;
				for (j = no; j < sizeof(p->p); ++j) bad |= (f[i][j] != 0);
			}
			printf("err:%u%s", (unsigned)code, bad ? " field-overrun" : "");
		}
		else
		{
			size_t no = p->l / 4;
			if (no > 64) no = 64;
			printf("%zu ", p->l); put_hex(p->p, no); printf(" "); put_hex(p->a, no); printf(" "); put_hex(p->b, no);
			printf(" "); put_hex(p->q, no); printf(" "); put_hex(p->yG, no); printf(" "); put_hex(p->seed, 8);
			printf(" %d", bignIsOperable(p) ? 1 : 0);
		}
		out_free((unsigned char*)p, sizeof(bign_params)); hex_free(x, n);
	}
	else if (OP("bpenc") && argc == 8)
	{
		bign_params* p = (bign_params*)out_buf(sizeof(bign_params));
		size_t no;
		memset(p, 0, sizeof(bign_params));
		p->l = (size_t)u_arg(argv[1]);
		no = p->l / 4;
		if ((p->l != 128 && p->l != 192 && p->l != 256) ||
			!fill(p->p, no, argv[2], &len) || len != no || !fill(p->a, no, argv[3], &len) || len != no ||
			!fill(p->b, no, argv[4], &len) || len != no || !fill(p->q, no, argv[5], &len) || len != no ||
			!fill(p->yG, no, argv[6], &len) || len != no || !fill(p->seed, 8, argv[7], &len) || len != 8)
			printf("invalid");
		else
		{
			/* the internal encoder (bignParamsEnc additionally demands bignIsOperable) */
			r = bignParamsEnc_internal(0, p);
			if (r == ERR) printf("err");
			else
			{
				v = out_buf(r);
				if (bignParamsEnc_internal(v, p) != r) printf("size-mismatch");
				else
				{
					size_t c = r;
					err_t code = bignParamsEnc(0, &c, p);
					put_hex(v, r);
					printf(" %s", code == ERR_OK ? (c == r ? "pub-ok" : "pub-size-differs") : "pub-refuses");
				}
				out_free(v, r);
			}
		}
		out_free((unsigned char*)p, sizeof(bign_params));
	}
	else if (OP("bpstd") && argc == 2)
	{
		bign_params p[1]; size_t sl; char* s = str_arg(argv[1], &sl);
		if (!s || bignParamsStd(p, s) != ERR_OK) printf("err");
		else
		{
			size_t c = 0;
			if (bignParamsEnc(0, &c, p) != ERR_OK) printf("err");
			else { v = out_buf(c); bignParamsEnc(v, &c, p); put_hex(v, c); out_free(v, c); }
		}
		free(s);
	}
	/* ------------------------------------------------------------ CV certificates */
	else if ((OP("cvcdec") || OP("cvcbody")) && argc == 2)
	{
		btok_cvc_t* c = (btok_cvc_t*)out_buf(sizeof(btok_cvc_t));
		x = hex_arg(argv[1], &n);
		if (OP("cvcdec"))
		{
			err_t code = btokCVCUnwrap(c, x, n, 0, 0);
			size_t l = btokCVCLen(x, n);
			if (code != ERR_OK) printf("err:%u", (unsigned)code);
			else put_cvc(c), printf(" %zd", (ssize_t)l);
		}
		else
		{
			r = btokCVCBodyDec(c, x, n);
			if (r == ERR) printf("err");
			else c->sig_len = 0, put_cvc(c), printf(" %zu %u", r, (unsigned)btokCVCCheck(c));
		}
		out_free((unsigned char*)c, sizeof(btok_cvc_t)); hex_free(x, n);
	}
	/* the structure after a decode, failed or not: every field at its full capacity (the block is exactly
	   sizeof(btok_cvc_t), so a write past the structure is an ASan report; a write past a field shows here) */
	else if (((OP("cvcimg") || OP("cvcuimg")) && argc == 2) || (OP("cvckimg") && argc == 3))
	{
		btok_cvc_t* c = (btok_cvc_t*)out_buf(sizeof(btok_cvc_t));
		x = hex_arg(argv[1], &n);
		if (OP("cvckimg"))
		{
			/* the verifying paths: an external (invalid) public key of KL octets, KL = 0: the certificate's own key.
			   The signature length then comes from the key length, not from the probes; only the image is compared */
			size_t kl = (size_t)u_arg(argv[2]);
			if (kl != 0 && kl != 48 && kl != 64 && kl != 96 && kl != 128) printf("bad-op");
			else
			{
				octet* key = out_buf(kl);
				memset(key, 0xFF, kl);
				(void)btokCVCUnwrap(c, x, n, kl ? key : c->pubkey, kl);
				out_free(key, kl);
				printf("-");
			}
		}
		else if (OP("cvcimg"))
		{
			r = btokCVCBodyDec(c, x, n);
			if (r == ERR) printf("err"); else printf("%zu", r);
		}
		else
		{
			err_t code = btokCVCUnwrap(c, x, n, 0, 0);
			printf("%s", code == ERR_BAD_FORMAT ? "badfmt" : "parsed");
		}
		printf(" "); put_hex(c->authority, 13); printf(" "); put_hex(c->holder, 13);
		printf(" "); put_hex(c->pubkey, 128); printf(" %zu ", c->pubkey_len);
		put_hex(c->from, 6); printf(" "); put_hex(c->until, 6); printf(" ");
		put_hex(c->hat_eid, 5); printf(" "); put_hex(c->hat_esign, 2); printf(" ");
		put_hex(c->sig, 96); printf(" %zu", c->sig_len);
		out_free((unsigned char*)c, sizeof(btok_cvc_t)); hex_free(x, n);
	}
	else if (OP("cvcenc") && argc == 9)
	{
		btok_cvc_t c[1];
		size_t l1, l2;
		memset(c, 0, sizeof c);
		if (!fill((octet*)c->authority, 12, argv[1], &l1) || !fill((octet*)c->holder, 12, argv[2], &l2) ||
			!fill(c->from, 6, argv[3], &len) || len != 6 || !fill(c->until, 6, argv[4], &len) || len != 6 ||
			!fill(c->hat_eid, 5, argv[5], &len) || len != 5 || !fill(c->hat_esign, 2, argv[6], &len) || len != 2 ||
			!fill(c->pubkey, 128, argv[7], &c->pubkey_len) || !fill(c->sig, 96, argv[8], &c->sig_len))
			printf("invalid");
		else
		{
			r = cvc_enc(0, c);
			if (r == ERR) printf("err");
			else
			{
				v = out_buf(r);
				if (cvc_enc(v, c) != r) printf("size-mismatch"); else put_hex(v, r);
				out_free(v, r);
			}
		}
	}
	else if (OP("cvcwrap") && argc == 8)
	{
		btok_cvc_t c[1];
		err_t code;
		memset(c, 0, sizeof c);
		x = hex_arg(argv[1], &n);
		if (!fill((octet*)c->authority, 12, argv[2], 0) || !fill((octet*)c->holder, 12, argv[3], 0) ||
			!fill(c->from, 6, argv[4], &len) || len != 6 || !fill(c->until, 6, argv[5], &len) || len != 6 ||
			!fill(c->hat_eid, 5, argv[6], &len) || len != 5 || !fill(c->hat_esign, 2, argv[7], &len) || len != 2)
			printf("invalid");
		else if ((code = btokCVCWrap(0, &len, c, x, n)) != ERR_OK) printf("err:%u", (unsigned)code);
		else
		{
			v = out_buf(len);
			code = btokCVCWrap(v, 0, c, x, n);
			if (code != ERR_OK) printf("err:%u", (unsigned)code); else put_hex(v, len);
			out_free(v, len);
		}
		hex_free(x, n);
	}
	/* ------------------------------------------------------------ secure messaging */
	else if (OP("smcw") && argc == 8)
	{
		void* st = sm_state(argv[1], 1);
		apdu_cmd_t* cmd;
		err_t code;
		if (!st) { printf("bad-op"); return; }
		x = hex_arg(argv[6], &n);
		cmd = (apdu_cmd_t*)out_buf(sizeof(apdu_cmd_t) + n);
		memset(cmd, 0, sizeof(apdu_cmd_t));
		cmd->cla = (octet)u_arg(argv[2]), cmd->ins = (octet)u_arg(argv[3]);
		cmd->p1 = (octet)u_arg(argv[4]), cmd->p2 = (octet)u_arg(argv[5]);
		cmd->cdf_len = n, cmd->rdf_len = (size_t)u_arg(argv[7]);
		memcpy(cmd->cdf, x, n);
		code = btokSMCmdWrap(0, &len, cmd, st);
		if (code != ERR_OK) printf("err:%u", (unsigned)code);
		else
		{
			size_t len2 = 0;
			v = out_buf(len);
			code = btokSMCmdWrap(v, &len2, cmd, st);
			if (code != ERR_OK) printf("err:%u", (unsigned)code);
			else if (len2 != len) printf("size-mismatch"); else put_hex(v, len);
			out_free(v, len);
		}
		out_free((unsigned char*)cmd, sizeof(apdu_cmd_t) + n); hex_free(x, n); free(st);
	}
	else if (OP("smcu") && argc == 3)
	{
		void* st = sm_state(argv[1], 1);
		err_t code, code0;
		size_t size = 0x5A5A, size0 = 0x5A5A;
		if (!st) { printf("bad-op"); return; }
		x = hex_arg(argv[2], &n);
		code0 = btokSMCmdUnwrap(0, &size0, x, n, st);           /* format check only */
		if (code0 != ERR_OK)
		{
			/* the rejected input once more with a non-null command (copies from the input happen only then) */
			size_t cap = sizeof(apdu_cmd_t) + n + 8;
			apdu_cmd_t* cmd = (apdu_cmd_t*)out_buf(cap);
			code = btokSMCmdUnwrap(cmd, &size, x, n, st);
			if (code == ERR_OK) printf("null-mismatch"); else printf("err:%u", (unsigned)code0);
			out_free((unsigned char*)cmd, cap);
		}
		else
		{
			apdu_cmd_t* cmd = (apdu_cmd_t*)out_buf(size0);
			code = btokSMCmdUnwrap(cmd, &size, x, n, st);
			if (code != ERR_OK) printf("fmt-ok err:%u", (unsigned)code);
			else if (size != size0 || size != sizeof(apdu_cmd_t) + cmd->cdf_len) printf("size-mismatch");
			else
			{
				printf("%u %u %u %u ", cmd->cla, cmd->ins, cmd->p1, cmd->p2);
				put_hex(cmd->cdf, cmd->cdf_len);
				printf(" %zu", cmd->rdf_len);
			}
			out_free((unsigned char*)cmd, size0);
		}
		hex_free(x, n); free(st);
	}
	else if (OP("smrw") && argc == 5)
	{
		void* st = sm_state(argv[1], 2);
		apdu_resp_t* resp;
		err_t code;
		if (!st) { printf("bad-op"); return; }
		x = hex_arg(argv[4], &n);
		resp = (apdu_resp_t*)out_buf(sizeof(apdu_resp_t) + n);
		memset(resp, 0, sizeof(apdu_resp_t));
		resp->sw1 = (octet)u_arg(argv[2]), resp->sw2 = (octet)u_arg(argv[3]);
		resp->rdf_len = n;
		memcpy(resp->rdf, x, n);
		code = btokSMRespWrap(0, &len, resp, st);
		if (code != ERR_OK) printf("err:%u", (unsigned)code);
		else
		{
			size_t len2 = 0;
			v = out_buf(len);
			code = btokSMRespWrap(v, &len2, resp, st);
			if (code != ERR_OK) printf("err:%u", (unsigned)code);
			else if (len2 != len) printf("size-mismatch"); else put_hex(v, len);
			out_free(v, len);
		}
		out_free((unsigned char*)resp, sizeof(apdu_resp_t) + n); hex_free(x, n); free(st);
	}
	else if (OP("smru") && argc == 3)
	{
		void* st = sm_state(argv[1], 2);
		err_t code, code0;
		size_t size = 0x5A5A, size0 = 0x5A5A;
		if (!st) { printf("bad-op"); return; }
		x = hex_arg(argv[2], &n);
		code0 = btokSMRespUnwrap(0, &size0, x, n, st);
		if (code0 != ERR_OK)
		{
			size_t cap = sizeof(apdu_resp_t) + n + 8;
			apdu_resp_t* resp = (apdu_resp_t*)out_buf(cap);
			code = btokSMRespUnwrap(resp, &size, x, n, st);
			if (code == ERR_OK) printf("null-mismatch"); else printf("err:%u", (unsigned)code0);
			out_free((unsigned char*)resp, cap);
		}
		else
		{
			apdu_resp_t* resp = (apdu_resp_t*)out_buf(size0);
			code = btokSMRespUnwrap(resp, &size, x, n, st);
			if (code != ERR_OK) printf("fmt-ok err:%u", (unsigned)code);
			else if (size != size0 || size != sizeof(apdu_resp_t) + resp->rdf_len) printf("size-mismatch");
			else
			{
				printf("%u %u ", resp->sw1, resp->sw2);
				put_hex(resp->rdf, resp->rdf_len);
			}
			out_free((unsigned char*)resp, size0);
		}
		hex_free(x, n); free(st);
	}
	else printf("bad-op");
}

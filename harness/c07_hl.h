/* c07_hl.h -- C07 harness part: HIGH-LEVEL public API of bee2/crypto driven with VALID inputs
   where every caller-side buffer / state / stack is an exact-size heap block
   (hl_m(n) == malloc(n ? n : 1)), so that ASan traps any out-of-bounds access and
   any internal ASSERT (Debug build) aborts.  With -DBEE2_VERIF every blobCreate()
   of the library is exact too.

   Included by /verif/harness/c07.c AFTER the bee2 headers it needs.

     static int c07_hl(int argc, char** argv);
       argv[0] == "hl", argv[1] == family name, argv[2..] == decimal parameters.
       returns 0 when the family is unknown (prints nothing); otherwise prints
       (no newline) "ok" or "err <what> <code>" and returns 1.

   Families (first parameter is always the PRNG seed; see the comment above each hl_* function
   for the remaining decimal parameters; ops are listed in gen/c07_hl_ops.txt):
     belt-ecb belt-cbc belt-cfb belt-ctr belt-mac belt-dwp belt-che belt-kwp belt-wbl belt-hash
     belt-hmac belt-krp belt-bde belt-sde belt-fmt belt-pbkdf2 belt-kexp
     bash-hash bash-f bash-prg  brng-ctr brng-hmac  botp-hotp botp-totp botp-ocra
     bels-std bels-val bels-genm0 bels-genmi bels-genmid bels-share
     bign-params bign-keys bign-sign bign-kwrap bign-id bign96
     bake-kdf bake-swu bake-bmqv bake-bsts bake-bpace  btok-cvc btok-sm btok-bauth
     dstu g12s pfok stb99
   rng parameters: 0 = prngCOMBOStepR (state of prngCOMBO_keep() octets),
                   1 = brngCTRStepR   (state of brngCTR_keep() octets).

   Ops that make the unchanged library abort although the calls are valid (kept OUT of
   gen/c07_hl_ops.txt, they are findings, not harness errors):
     hl bels-val * / hl bels-genm0 *          belsValM/belsGenM0: state of n + 1 + ppIsIrred_deep(n + 1)
                                              octets is too small (words counted as octets,
                                              ppIsIrred_deep omits ppGCD/ppSqrMod) -> heap overflow
     hl botp-ocra <suite 7|8> ...             suite with S but without P, p == NULL: ASSERT in
                                              botpOCRAStepS checks (p, s_len) instead of (s, s_len)
     hl btok-bauth <l = 192|256> <kcb = 1>    btokBAuthCTStep4 reads l / 8 octets of Rt from
                                              M2 = [8 + 16]in -> heap over-read (and key mismatch)
*/
#ifndef BEE2V_C07_HL_H
#define BEE2V_C07_HL_H

#include <stdio.h>
#include <stdlib.h>
#include <string.h>
#include <bee2/defs.h>
#include <bee2/core/err.h>
#include <bee2/core/mem.h>
#include <bee2/core/str.h>
#include <bee2/core/hex.h>
#include <bee2/core/oid.h>
#include <bee2/core/prng.h>
#include <bee2/core/tm.h>
#include <bee2/core/util.h>
#include <bee2/core/apdu.h>
#include <bee2/crypto/belt.h>
#include <bee2/crypto/bash.h>
#include <bee2/crypto/brng.h>
#include <bee2/crypto/botp.h>
#include <bee2/crypto/bign.h>
#include <bee2/crypto/bign96.h>
#include <bee2/crypto/bels.h>
#include <bee2/crypto/bake.h>
#include <bee2/crypto/btok.h>
#include <bee2/crypto/dstu.h>
#include <bee2/crypto/g12s.h>
#include <bee2/crypto/pfok.h>
#include <bee2/crypto/stb99.h>

/* ---------------------------------------------------------------- infrastructure */

#define HL_POOL 4096
static void* hl_pool_[HL_POOL];		/* bookkeeping only; never passed to the library */
static size_t hl_pool_n_;

static void* hl_m(size_t n)
{
	void* p = malloc(n ? n : 1);
	if (!p || hl_pool_n_ >= HL_POOL) { fprintf(stderr, "hl: out of memory\n"); abort(); }
	hl_pool_[hl_pool_n_++] = p;
	return p;
}

static void hl_free_all(void)
{
	while (hl_pool_n_) free(hl_pool_[--hl_pool_n_]);
}

/* tiny deterministic PRNG (xorshift64*) */
static unsigned long long hl_s_;
static void hl_seed(size_t seed)
{
	hl_s_ = 0x9E3779B97F4A7C15ull ^ ((unsigned long long)seed * 0xD1342543DE82EF95ull);
	if (!hl_s_) hl_s_ = 1;
}
static unsigned long long hl_next(void)
{
	hl_s_ ^= hl_s_ >> 12, hl_s_ ^= hl_s_ << 25, hl_s_ ^= hl_s_ >> 27;
	return hl_s_ * 0x2545F4914F6CDD1Dull;
}
static size_t hl_below(size_t n) { return n ? (size_t)((hl_next() >> 16) % n) : 0; }

/* exact-size heap block filled with pseudorandom octets */
static octet* hl_r(size_t n)
{
	octet* p = (octet*)hl_m(n);
	size_t i;
	for (i = 0; i < n; ++i) p[i] = (octet)(hl_next() >> 32);
	return p;
}
/* exact-size heap copy */
static octet* hl_dup(const void* src, size_t n)
{
	octet* p = (octet*)hl_m(n);
	if (n) memcpy(p, src, n);
	return p;
}
/* exact-size heap copy of a C string (including the terminating zero) */
static char* hl_str(const char* s) { return (char*)hl_dup(s, strlen(s) + 1); }
/* exact-size heap block decoded from a hex string */
static octet* hl_hex(const char* hex)
{
	size_t n = strlen(hex) / 2, i;
	octet* p = (octet*)hl_m(n);
	for (i = 0; i < n; ++i)
	{
		unsigned v;
		sscanf(hex + 2 * i, "%2x", &v);
		p[i] = (octet)v;
	}
	return p;
}
/* exact-size state of the library's echo-less COMBO generator, seeded */
static void* hl_combo(void)
{
	void* st = hl_m(prngCOMBO_keep());
	prngCOMBOStart(st, (u32)hl_next());
	return st;
}
/* brngCTRStepR mixes the PREVIOUS content of the output buffer into the generator (documented: buf is in/out).
   The library passes scratch areas of its states as that buffer, so under valgrind (C07_SINK set) everything
   derived from the generator would count as "uninitialised".  In that mode the buffer is zeroed first, so that
   memcheck reports only uninitialised data that is NOT this documented in/out use. */
static void hl_ctr_stepr(void* buf, size_t count, void* state)
{
	static int vg_ = -1;
	if (vg_ < 0) vg_ = getenv("C07_SINK") ? 1 : 0;
	if (vg_) memset(buf, 0, count);
	brngCTRStepR(buf, count, state);
}

/* exact-size brngCTR state (gen_i brngCTRStepR) */
static void* hl_ctr(void)
{
	void* st = hl_m(brngCTR_keep());
	octet* key = hl_r(32);
	octet* iv = hl_r(32);
	brngCTRStart(st, key, iv);
	return st;
}

static int hl_fail(const char* what, unsigned long code)
{
	printf("err %s %lu", what, code);
	return 1;
}
#define HL_E(call, what) do { err_t e_ = (call); if (e_ != ERR_OK) return hl_fail(what, (unsigned long)e_); } while (0)
#define HL_T(cond, what) do { if (!(cond)) return hl_fail(what, 0ul); } while (0)
#define HL_EQ(a, b, n, what) HL_T((n) == 0 || memcmp((a), (b), (n)) == 0, what)

/* every family: int f(size_t np, const size_t* p); returns 0 on success (wrapper prints ok) */

/* ---------------------------------------------------------------- belt */

/* split point for block modes with ciphertext stealing: first part is a non-zero
   multiple of 16 leaving >= 16 octets, or 0 when n < 32 (single chunk) */
static size_t hl_split16(size_t n)
{
	size_t k;
	if (n < 32) return 0;
	k = n / 16 - 1;					/* max number of blocks in the first chunk */
	return 16 * (1 + hl_below(k));
}

/* belt-ecb seed klen n ; belt-cbc seed klen n */
static int hl_belt_ecb(size_t np, const size_t* p)
{
	size_t klen = p[1], n = p[2], s;
	octet *key, *x, *y, *z, *b;
	void* st;
	hl_seed(p[0]);
	key = hl_r(klen), x = hl_r(n), y = hl_m(n), z = hl_m(n);
	HL_E(beltECBEncr(y, x, n, key, klen), "beltECBEncr");
	HL_E(beltECBDecr(z, y, n, key, klen), "beltECBDecr");
	HL_EQ(x, z, n, "ecb-roundtrip");
	/* in place */
	b = hl_dup(x, n);
	HL_E(beltECBEncr(b, b, n, key, klen), "beltECBEncr-inplace");
	HL_EQ(b, y, n, "ecb-inplace");
	/* steps */
	s = hl_split16(n);
	st = hl_m(beltECB_keep());
	beltECBStart(st, key, klen);
	if (s)
	{
		octet* b1 = hl_dup(x, s);
		octet* b2 = hl_dup(x + s, n - s);
		beltECBStepE(b1, s, st);
		beltECBStepE(b2, n - s, st);
		HL_EQ(b1, y, s, "ecb-stepE-1");
		HL_EQ(b2, y + s, n - s, "ecb-stepE-2");
		beltECBStart(st, key, klen);
		beltECBStepD(b1, s, st);
		beltECBStepD(b2, n - s, st);
		HL_EQ(b1, x, s, "ecb-stepD-1");
		HL_EQ(b2, x + s, n - s, "ecb-stepD-2");
	}
	else
	{
		b = hl_dup(x, n);
		beltECBStepE(b, n, st);
		HL_EQ(b, y, n, "ecb-stepE");
		beltECBStepD(b, n, st);
		HL_EQ(b, x, n, "ecb-stepD");
	}
	return 0;
}

static int hl_belt_cbc(size_t np, const size_t* p)
{
	size_t klen = p[1], n = p[2], s;
	octet *key, *iv, *x, *y, *z, *b;
	void* st;
	hl_seed(p[0]);
	key = hl_r(klen), iv = hl_r(16), x = hl_r(n), y = hl_m(n), z = hl_m(n);
	HL_E(beltCBCEncr(y, x, n, key, klen, iv), "beltCBCEncr");
	HL_E(beltCBCDecr(z, y, n, key, klen, iv), "beltCBCDecr");
	HL_EQ(x, z, n, "cbc-roundtrip");
	b = hl_dup(x, n);
	HL_E(beltCBCEncr(b, b, n, key, klen, iv), "beltCBCEncr-inplace");
	HL_EQ(b, y, n, "cbc-inplace");
	HL_E(beltCBCDecr(b, b, n, key, klen, iv), "beltCBCDecr-inplace");
	HL_EQ(b, x, n, "cbc-inplace-d");
	s = hl_split16(n);
	st = hl_m(beltCBC_keep());
	beltCBCStart(st, key, klen, iv);
	if (s)
	{
		octet* b1 = hl_dup(x, s);
		octet* b2 = hl_dup(x + s, n - s);
		beltCBCStepE(b1, s, st);
		beltCBCStepE(b2, n - s, st);
		HL_EQ(b1, y, s, "cbc-stepE-1");
		HL_EQ(b2, y + s, n - s, "cbc-stepE-2");
		beltCBCStart(st, key, klen, iv);
		beltCBCStepD(b1, s, st);
		beltCBCStepD(b2, n - s, st);
		HL_EQ(b1, x, s, "cbc-stepD-1");
		HL_EQ(b2, x + s, n - s, "cbc-stepD-2");
	}
	else
	{
		b = hl_dup(x, n);
		beltCBCStepE(b, n, st);
		HL_EQ(b, y, n, "cbc-stepE");
		beltCBCStart(st, key, klen, iv);
		beltCBCStepD(b, n, st);
		HL_EQ(b, x, n, "cbc-stepD");
	}
	return 0;
}

/* belt-cfb seed klen n ; belt-ctr seed klen n : arbitrary lengths, arbitrary split */
static int hl_belt_cfb(size_t np, const size_t* p)
{
	size_t klen = p[1], n = p[2], s;
	octet *key, *iv, *x, *y, *z, *b1, *b2;
	void* st;
	hl_seed(p[0]);
	key = hl_r(klen), iv = hl_r(16), x = hl_r(n), y = hl_m(n), z = hl_m(n);
	HL_E(beltCFBEncr(y, x, n, key, klen, iv), "beltCFBEncr");
	HL_E(beltCFBDecr(z, y, n, key, klen, iv), "beltCFBDecr");
	HL_EQ(x, z, n, "cfb-roundtrip");
	s = hl_below(n + 1);
	st = hl_m(beltCFB_keep());
	b1 = hl_dup(x, s), b2 = hl_dup(x + s, n - s);
	beltCFBStart(st, key, klen, iv);
	beltCFBStepE(b1, s, st);
	beltCFBStepE(b2, n - s, st);
	HL_EQ(b1, y, s, "cfb-stepE-1");
	HL_EQ(b2, y + s, n - s, "cfb-stepE-2");
	beltCFBStart(st, key, klen, iv);
	beltCFBStepD(b1, s, st);
	beltCFBStepD(b2, n - s, st);
	HL_EQ(b1, x, s, "cfb-stepD-1");
	HL_EQ(b2, x + s, n - s, "cfb-stepD-2");
	return 0;
}

static int hl_belt_ctr(size_t np, const size_t* p)
{
	size_t klen = p[1], n = p[2], s;
	octet *key, *iv, *x, *y, *z, *b1, *b2;
	void* st;
	hl_seed(p[0]);
	key = hl_r(klen), iv = hl_r(16), x = hl_r(n), y = hl_m(n), z = hl_m(n);
	HL_E(beltCTR(y, x, n, key, klen, iv), "beltCTR");
	HL_E(beltCTR(z, y, n, key, klen, iv), "beltCTR-2");
	HL_EQ(x, z, n, "ctr-roundtrip");
	s = hl_below(n + 1);
	st = hl_m(beltCTR_keep());
	b1 = hl_dup(x, s), b2 = hl_dup(x + s, n - s);
	beltCTRStart(st, key, klen, iv);
	beltCTRStepE(b1, s, st);
	beltCTRStepE(b2, n - s, st);
	HL_EQ(b1, y, s, "ctr-stepE-1");
	HL_EQ(b2, y + s, n - s, "ctr-stepE-2");
	beltCTRStart(st, key, klen, iv);
	beltCTRStepD(b1, s, st);
	beltCTRStepD(b2, n - s, st);
	HL_EQ(b1, x, s, "ctr-stepD-1");
	HL_EQ(b2, x + s, n - s, "ctr-stepD-2");
	return 0;
}

/* belt-mac seed klen n */
static int hl_belt_mac(size_t np, const size_t* p)
{
	size_t klen = p[1], n = p[2], s, ml;
	octet *key, *x, *mac, *mac1, *mac2, *b1, *b2;
	void* st;
	hl_seed(p[0]);
	key = hl_r(klen), x = hl_r(n), mac = hl_m(8), mac1 = hl_m(8);
	HL_E(beltMAC(mac, x, n, key, klen), "beltMAC");
	s = hl_below(n + 1);
	b1 = hl_dup(x, s), b2 = hl_dup(x + s, n - s);
	st = hl_m(beltMAC_keep());
	beltMACStart(st, key, klen);
	beltMACStepA(b1, s, st);
	beltMACStepG(mac1, st);				/* get-then-continue */
	beltMACStepA(b2, n - s, st);
	beltMACStepG(mac1, st);
	HL_EQ(mac, mac1, 8, "mac-steps");
	HL_T(beltMACStepV(mac, st) == TRUE, "beltMACStepV");
	ml = hl_below(9);
	mac2 = hl_m(ml);
	beltMACStepG2(mac2, ml, st);
	HL_EQ(mac, mac2, ml, "mac-stepG2");
	HL_T(beltMACStepV2(mac2, ml, st) == TRUE, "beltMACStepV2");
	return 0;
}

/* belt-dwp seed klen n1 n2 ; belt-che seed klen n1 n2 (n1 critical, n2 open) */
static int hl_belt_dwp(size_t np, const size_t* p)
{
	size_t klen = p[1], n1 = p[2], n2 = p[3], s1, s2;
	octet *key, *iv, *x, *a, *y, *z, *mac, *mac1, *b1, *b2, *a1, *a2;
	void* st;
	hl_seed(p[0]);
	key = hl_r(klen), iv = hl_r(16), x = hl_r(n1), a = hl_r(n2);
	y = hl_m(n1), z = hl_m(n1), mac = hl_m(8), mac1 = hl_m(8);
	HL_E(beltDWPWrap(y, mac, x, n1, a, n2, key, klen, iv), "beltDWPWrap");
	HL_E(beltDWPUnwrap(z, y, n1, a, n2, mac, key, klen, iv), "beltDWPUnwrap");
	HL_EQ(x, z, n1, "dwp-roundtrip");
	s1 = hl_below(n1 + 1), s2 = hl_below(n2 + 1);
	b1 = hl_dup(x, s1), b2 = hl_dup(x + s1, n1 - s1);
	a1 = hl_dup(a, s2), a2 = hl_dup(a + s2, n2 - s2);
	st = hl_m(beltDWP_keep());
	beltDWPStart(st, key, klen, iv);
	beltDWPStepI(a1, s2, st);
	beltDWPStepI(a2, n2 - s2, st);
	beltDWPStepE(b1, s1, st);
	beltDWPStepE(b2, n1 - s1, st);
	beltDWPStepA(b1, s1, st);
	beltDWPStepA(b2, n1 - s1, st);
	beltDWPStepG(mac1, st);
	HL_EQ(b1, y, s1, "dwp-stepE-1");
	HL_EQ(b2, y + s1, n1 - s1, "dwp-stepE-2");
	HL_EQ(mac, mac1, 8, "dwp-stepG");
	beltDWPStart(st, key, klen, iv);
	beltDWPStepI(a1, s2, st);
	beltDWPStepI(a2, n2 - s2, st);
	beltDWPStepA(b1, s1, st);
	beltDWPStepA(b2, n1 - s1, st);
	HL_T(beltDWPStepV(mac, st) == TRUE, "beltDWPStepV");
	beltDWPStepD(b1, s1, st);
	beltDWPStepD(b2, n1 - s1, st);
	HL_EQ(b1, x, s1, "dwp-stepD-1");
	HL_EQ(b2, x + s1, n1 - s1, "dwp-stepD-2");
	return 0;
}

static int hl_belt_che(size_t np, const size_t* p)
{
	size_t klen = p[1], n1 = p[2], n2 = p[3], s1, s2;
	octet *key, *iv, *x, *a, *y, *z, *mac, *mac1, *b1, *b2, *a1, *a2;
	void* st;
	hl_seed(p[0]);
	key = hl_r(klen), iv = hl_r(16), x = hl_r(n1), a = hl_r(n2);
	y = hl_m(n1), z = hl_m(n1), mac = hl_m(8), mac1 = hl_m(8);
	HL_E(beltCHEWrap(y, mac, x, n1, a, n2, key, klen, iv), "beltCHEWrap");
	HL_E(beltCHEUnwrap(z, y, n1, a, n2, mac, key, klen, iv), "beltCHEUnwrap");
	HL_EQ(x, z, n1, "che-roundtrip");
	s1 = hl_below(n1 + 1), s2 = hl_below(n2 + 1);
	b1 = hl_dup(x, s1), b2 = hl_dup(x + s1, n1 - s1);
	a1 = hl_dup(a, s2), a2 = hl_dup(a + s2, n2 - s2);
	st = hl_m(beltCHE_keep());
	beltCHEStart(st, key, klen, iv);
	beltCHEStepI(a1, s2, st);
	beltCHEStepI(a2, n2 - s2, st);
	beltCHEStepE(b1, s1, st);
	beltCHEStepE(b2, n1 - s1, st);
	beltCHEStepA(b1, s1, st);
	beltCHEStepA(b2, n1 - s1, st);
	beltCHEStepG(mac1, st);
	HL_EQ(b1, y, s1, "che-stepE-1");
	HL_EQ(b2, y + s1, n1 - s1, "che-stepE-2");
	HL_EQ(mac, mac1, 8, "che-stepG");
	beltCHEStart(st, key, klen, iv);
	beltCHEStepI(a1, s2, st);
	beltCHEStepI(a2, n2 - s2, st);
	beltCHEStepA(b1, s1, st);
	beltCHEStepA(b2, n1 - s1, st);
	HL_T(beltCHEStepV(mac, st) == TRUE, "beltCHEStepV");
	beltCHEStepD(b1, s1, st);
	beltCHEStepD(b2, n1 - s1, st);
	HL_EQ(b1, x, s1, "che-stepD-1");
	HL_EQ(b2, x + s1, n1 - s1, "che-stepD-2");
	return 0;
}

/* belt-kwp seed klen n hdr(0: NULL header, 1: random header) ; n >= 16 */
static int hl_belt_kwp(size_t np, const size_t* p)
{
	size_t klen = p[1], n = p[2];
	octet *key, *hdr, *x, *y, *z, *b, *b1, *b2;
	void* st;
	hl_seed(p[0]);
	key = hl_r(klen), hdr = p[3] ? hl_r(16) : 0, x = hl_r(n);
	y = hl_m(n + 16), z = hl_m(n);
	HL_E(beltKWPWrap(y, x, n, hdr, key, klen), "beltKWPWrap");
	HL_E(beltKWPUnwrap(z, y, n + 16, hdr, key, klen), "beltKWPUnwrap");
	HL_EQ(x, z, n, "kwp-roundtrip");
	/* steps (the WBL functions under their KWP names) */
	st = hl_m(beltKWP_keep());
	b = hl_m(n + 16);
	memcpy(b, x, n);
	if (hdr) memcpy(b + n, hdr, 16); else memset(b + n, 0, 16);
	beltKWPStart(st, key, klen);
	beltKWPStepE(b, n + 16, st);
	HL_EQ(b, y, n + 16, "kwp-stepE");
	b1 = hl_dup(b, n), b2 = hl_dup(b + n, 16);
	beltKWPStepD(b, n + 16, st);
	HL_EQ(b, x, n, "kwp-stepD");
	beltKWPStepD2(b1, b2, n + 16, st);
	HL_EQ(b1, x, n, "kwp-stepD2-1");
	HL_EQ(b2, b + n, 16, "kwp-stepD2-2");
	return 0;
}

/* belt-wbl seed klen n reps ; n >= 32 */
static int hl_belt_wbl(size_t np, const size_t* p)
{
	size_t klen = p[1], n = p[2], reps = p[3], i;
	octet *key, *x, *b, *b1, *b2, *c;
	void* st;
	hl_seed(p[0]);
	key = hl_r(klen), x = hl_r(n);
	st = hl_m(beltWBL_keep());
	beltWBLStart(st, key, klen);
	b = hl_dup(x, n);
	beltWBLStepE(b, n, st);
	c = hl_dup(b, n);
	b1 = hl_dup(b, n - 16), b2 = hl_dup(b + n - 16, 16);
	beltWBLStepD(b, n, st);
	HL_EQ(b, x, n, "wbl-stepD");
	beltWBLStepD2(b1, b2, n, st);
	HL_EQ(b1, x, n - 16, "wbl-stepD2-1");
	HL_EQ(b2, x + n - 16, 16, "wbl-stepD2-2");
	/* continued encryption: the first StepR after Start equals StepE */
	beltWBLStart(st, key, klen);
	beltWBLStepR(b, n, st);
	HL_EQ(b, c, n, "wbl-stepR");
	for (i = 1; i < reps; ++i)
		beltWBLStepR(b, n, st);
	return 0;
}

/* belt-hash seed n */
static int hl_belt_hash(size_t np, const size_t* p)
{
	size_t n = p[1], s, hl;
	octet *x, *h, *h1, *h2, *b1, *b2;
	void* st;
	hl_seed(p[0]);
	x = hl_r(n), h = hl_m(32), h1 = hl_m(32);
	HL_E(beltHash(h, x, n), "beltHash");
	s = hl_below(n + 1);
	b1 = hl_dup(x, s), b2 = hl_dup(x + s, n - s);
	st = hl_m(beltHash_keep());
	beltHashStart(st);
	beltHashStepH(b1, s, st);
	beltHashStepG(h1, st);
	beltHashStepH(b2, n - s, st);
	beltHashStepG(h1, st);
	HL_EQ(h, h1, 32, "hash-steps");
	HL_T(beltHashStepV(h, st) == TRUE, "beltHashStepV");
	hl = hl_below(33);
	h2 = hl_m(hl);
	beltHashStepG2(h2, hl, st);
	HL_EQ(h, h2, hl, "hash-stepG2");
	HL_T(beltHashStepV2(h2, hl, st) == TRUE, "beltHashStepV2");
	return 0;
}

/* belt-hmac seed klen n */
static int hl_belt_hmac(size_t np, const size_t* p)
{
	size_t klen = p[1], n = p[2], s, ml;
	octet *key, *x, *mac, *mac1, *mac2, *b1, *b2;
	void* st;
	hl_seed(p[0]);
	key = hl_r(klen), x = hl_r(n), mac = hl_m(32), mac1 = hl_m(32);
	HL_E(beltHMAC(mac, x, n, key, klen), "beltHMAC");
	s = hl_below(n + 1);
	b1 = hl_dup(x, s), b2 = hl_dup(x + s, n - s);
	st = hl_m(beltHMAC_keep());
	beltHMACStart(st, key, klen);
	beltHMACStepA(b1, s, st);
	beltHMACStepG(mac1, st);
	beltHMACStepA(b2, n - s, st);
	beltHMACStepG(mac1, st);
	HL_EQ(mac, mac1, 32, "hmac-steps");
	HL_T(beltHMACStepV(mac, st) == TRUE, "beltHMACStepV");
	ml = hl_below(33);
	mac2 = hl_m(ml);
	beltHMACStepG2(mac2, ml, st);
	HL_EQ(mac, mac2, ml, "hmac-stepG2");
	HL_T(beltHMACStepV2(mac2, ml, st) == TRUE, "beltHMACStepV2");
	return 0;
}

/* belt-krp seed n m ; m <= n in {16,24,32} */
static int hl_belt_krp(size_t np, const size_t* p)
{
	size_t n = p[1], m = p[2];
	octet *key, *level, *hdr, *k1, *k2;
	void* st;
	hl_seed(p[0]);
	key = hl_r(n), level = hl_r(12), hdr = hl_r(16), k1 = hl_m(m), k2 = hl_m(m);
	HL_E(beltKRP(k1, m, key, n, level, hdr), "beltKRP");
	st = hl_m(beltKRP_keep());
	beltKRPStart(st, key, n, level);
	beltKRPStepG(k2, m, hdr, st);
	HL_EQ(k1, k2, m, "krp-steps");
	beltKRPStepG(k2, m, hdr, st);
	HL_EQ(k1, k2, m, "krp-steps-2");
	return 0;
}

/* belt-bde seed klen n ; n % 16 == 0, n >= 16 */
static int hl_belt_bde(size_t np, const size_t* p)
{
	size_t klen = p[1], n = p[2], s;
	octet *key, *iv, *x, *y, *z, *b1, *b2;
	void* st;
	hl_seed(p[0]);
	key = hl_r(klen), iv = hl_r(16), x = hl_r(n), y = hl_m(n), z = hl_m(n);
	HL_E(beltBDEEncr(y, x, n, key, klen, iv), "beltBDEEncr");
	HL_E(beltBDEDecr(z, y, n, key, klen, iv), "beltBDEDecr");
	HL_EQ(x, z, n, "bde-roundtrip");
	s = 16 * hl_below(n / 16 + 1);
	b1 = hl_dup(x, s), b2 = hl_dup(x + s, n - s);
	st = hl_m(beltBDE_keep());
	beltBDEStart(st, key, klen, iv);
	beltBDEStepE(b1, s, st);
	beltBDEStepE(b2, n - s, st);
	HL_EQ(b1, y, s, "bde-stepE-1");
	HL_EQ(b2, y + s, n - s, "bde-stepE-2");
	beltBDEStart(st, key, klen, iv);
	beltBDEStepD(b1, s, st);
	beltBDEStepD(b2, n - s, st);
	HL_EQ(b1, x, s, "bde-stepD-1");
	HL_EQ(b2, x + s, n - s, "bde-stepD-2");
	return 0;
}

/* belt-sde seed klen n ; n % 16 == 0, n >= 32 ; two sectors through the steps */
static int hl_belt_sde(size_t np, const size_t* p)
{
	size_t klen = p[1], n = p[2];
	octet *key, *iv, *iv2, *x, *x2, *y, *y2, *z, *b1, *b2;
	void* st;
	hl_seed(p[0]);
	key = hl_r(klen), iv = hl_r(16), iv2 = hl_r(16), x = hl_r(n), x2 = hl_r(n);
	y = hl_m(n), y2 = hl_m(n), z = hl_m(n);
	HL_E(beltSDEEncr(y, x, n, key, klen, iv), "beltSDEEncr");
	HL_E(beltSDEEncr(y2, x2, n, key, klen, iv2), "beltSDEEncr-2");
	HL_E(beltSDEDecr(z, y, n, key, klen, iv), "beltSDEDecr");
	HL_EQ(x, z, n, "sde-roundtrip");
	b1 = hl_dup(x, n), b2 = hl_dup(x2, n);
	st = hl_m(beltSDE_keep());
	beltSDEStart(st, key, klen);
	beltSDEStepE(b1, n, iv, st);
	beltSDEStepE(b2, n, iv2, st);
	HL_EQ(b1, y, n, "sde-stepE-1");
	HL_EQ(b2, y2, n, "sde-stepE-2");
	beltSDEStepD(b1, n, iv, st);
	beltSDEStepD(b2, n, iv2, st);
	HL_EQ(b1, x, n, "sde-stepD-1");
	HL_EQ(b2, x2, n, "sde-stepD-2");
	return 0;
}

/* belt-fmt seed klen mod count iv(0: NULL, 1: random) */
static int hl_belt_fmt(size_t np, const size_t* p)
{
	size_t klen = p[1], count = p[3], i;
	u32 mod = (u32)p[2];
	octet *key, *iv;
	u16 *x, *y, *z, *b;
	void* st;
	hl_seed(p[0]);
	key = hl_r(klen), iv = p[4] ? hl_r(16) : 0;
	x = (u16*)hl_m(2 * count), y = (u16*)hl_m(2 * count), z = (u16*)hl_m(2 * count);
	for (i = 0; i < count; ++i)
		x[i] = (u16)hl_below(mod);
	HL_E(beltFMTEncr(y, mod, x, count, key, klen, iv), "beltFMTEncr");
	for (i = 0; i < count; ++i)
		HL_T(y[i] < mod, "fmt-range");
	HL_E(beltFMTDecr(z, mod, y, count, key, klen, iv), "beltFMTDecr");
	HL_EQ(x, z, 2 * count, "fmt-roundtrip");
	st = hl_m(beltFMT_keep(mod, count));
	beltFMTStart(st, mod, count, key, klen);
	b = (u16*)hl_dup(x, 2 * count);
	beltFMTStepE(b, iv, st);
	HL_EQ(b, y, 2 * count, "fmt-stepE");
	beltFMTStepD(b, iv, st);
	HL_EQ(b, x, 2 * count, "fmt-stepD");
	/* second string with the same state */
	for (i = 0; i < count; ++i)
		b[i] = (u16)hl_below(mod);
	memcpy(z, b, 2 * count);
	beltFMTStepE(b, iv, st);
	beltFMTStepD(b, iv, st);
	HL_EQ(b, z, 2 * count, "fmt-steps-2");
	return 0;
}

/* belt-pbkdf2 seed pwd_len iter salt_len */
static int hl_belt_pbkdf2(size_t np, const size_t* p)
{
	octet *pwd, *salt, *k1, *k2;
	hl_seed(p[0]);
	pwd = hl_r(p[1]), salt = hl_r(p[3]), k1 = hl_m(32), k2 = hl_m(32);
	HL_E(beltPBKDF2(k1, pwd, p[1], p[2], salt, p[3]), "beltPBKDF2");
	HL_E(beltPBKDF2(k2, pwd, p[1], p[2], salt, p[3]), "beltPBKDF2-2");
	HL_EQ(k1, k2, 32, "pbkdf2-det");
	return 0;
}

/* belt-kexp seed len : beltKeyExpand into an exact 32-octet buffer */
static int hl_belt_kexp(size_t np, const size_t* p)
{
	size_t len = p[1];
	octet *key, *key_;
	u32* key2;
	hl_seed(p[0]);
	key = hl_r(len), key_ = hl_m(32), key2 = (u32*)hl_m(32);
	beltKeyExpand(key_, key, len);
	HL_EQ(key_, key, len, "keyexpand");
	beltKeyExpand2(key2, key, len);
	return 0;
}

/* ---------------------------------------------------------------- bash */

/* bash-hash seed l n */
static int hl_bash_hash(size_t np, const size_t* p)
{
	size_t l = p[1], n = p[2], s, hl;
	octet *x, *h, *h1, *h2, *b1, *b2;
	void* st;
	hl_seed(p[0]);
	x = hl_r(n), h = hl_m(l / 4), h1 = hl_m(l / 4);
	HL_E(bashHash(h, l, x, n), "bashHash");
	s = hl_below(n + 1);
	b1 = hl_dup(x, s), b2 = hl_dup(x + s, n - s);
	st = hl_m(bashHash_keep());
	bashHashStart(st, l);
	bashHashStepH(b1, s, st);
	bashHashStepG(h1, l / 4, st);
	bashHashStepH(b2, n - s, st);
	bashHashStepG(h1, l / 4, st);
	HL_EQ(h, h1, l / 4, "bashHash-steps");
	HL_T(bashHashStepV(h, l / 4, st) == TRUE, "bashHashStepV");
	hl = hl_below(l / 4 + 1);
	h2 = hl_m(hl);
	bashHashStepG(h2, hl, st);
	HL_EQ(h, h2, hl, "bashHash-short");
	HL_T(bashHashStepV(h2, hl, st) == TRUE, "bashHashStepV-short");
	return 0;
}

/* bash-f seed reps */
static int hl_bash_f(size_t np, const size_t* p)
{
	octet *b, *c;
	void* stack;
	size_t i;
	hl_seed(p[0]);
	b = hl_r(192), c = hl_dup(b, 192);
	stack = hl_m(bashF_deep());
	for (i = 0; i < p[1]; ++i)
		bashF(b, stack);
	HL_T(p[1] == 0 || memcmp(b, c, 192) != 0, "bashF-noop");
	return 0;
}

/* bash-prg seed l d ann_len key_len n : key_len in {0} or >= l/8, % 4 == 0, <= 60 */
static int hl_bash_prg(size_t np, const size_t* p)
{
	size_t l = p[1], d = p[2], al = p[3], kl = p[4], n = p[5], s;
	octet *ann, *key, *x, *b1, *b2, *c1, *c2, *o1, *o2, *o3;
	void *sa, *sb;
	hl_seed(p[0]);
	ann = hl_r(al), key = hl_r(kl), x = hl_r(n);
	sa = hl_m(bashPrg_keep()), sb = hl_m(bashPrg_keep());
	s = hl_below(n + 1);
	bashPrgStart(sa, l, d, ann, al, key, kl);
	bashPrgStart(sb, l, d, ann, al, key, kl);
	/* absorb: one-shot on A, two steps on B */
	b1 = hl_dup(x, s), b2 = hl_dup(x + s, n - s);
	bashPrgAbsorb(x, n, sa);
	bashPrgAbsorbStart(sb);
	bashPrgAbsorbStep(b1, s, sb);
	bashPrgAbsorbStep(b2, n - s, sb);
	/* squeeze */
	o1 = hl_m(n), o2 = hl_m(s), o3 = hl_m(n - s);
	bashPrgSqueeze(o1, n, sa);
	bashPrgSqueezeStart(sb);
	bashPrgSqueezeStep(o2, s, sb);
	bashPrgSqueezeStep(o3, n - s, sb);
	HL_EQ(o1, o2, s, "prg-squeeze-1");
	HL_EQ(o1 + s, o3, n - s, "prg-squeeze-2");
	bashPrgRatchet(sa);
	bashPrgRatchet(sb);
	if (kl)
	{
		/* encrypt on A (one-shot), decrypt on B (steps) */
		c1 = hl_dup(x, n);
		bashPrgEncr(c1, n, sa);
		c2 = hl_dup(c1, s);
		b2 = hl_dup(c1 + s, n - s);
		bashPrgDecrStart(sb);
		bashPrgDecrStep(c2, s, sb);
		bashPrgDecrStep(b2, n - s, sb);
		HL_EQ(c2, x, s, "prg-decr-1");
		HL_EQ(b2, x + s, n - s, "prg-decr-2");
		/* encrypt on B (steps), decrypt on A (one-shot) */
		memcpy(c2, x, s);
		memcpy(b2, x + s, n - s);
		bashPrgEncrStart(sb);
		bashPrgEncrStep(c2, s, sb);
		bashPrgEncrStep(b2, n - s, sb);
		memcpy(c1, c2, s);
		memcpy(c1 + s, b2, n - s);
		bashPrgDecr(c1, n, sa);
		HL_EQ(c1, x, n, "prg-decr-3");
	}
	/* restart with the same announcement / key, states must stay in sync */
	bashPrgRestart(ann, al, key, kl, sa);
	bashPrgRestart(ann, al, key, kl, sb);
	bashPrgSqueeze(o1, n, sa);
	bashPrgSqueeze(o2, s, sb);
	HL_EQ(o1, o2, s, "prg-restart");
	return 0;
}

/* ---------------------------------------------------------------- brng */

/* brng-ctr seed n iv(0: NULL iv in Start, 1: random) */
static int hl_brng_ctr(size_t np, const size_t* p)
{
	size_t n = p[1], s;
	octet *key, *iv, *iv1, *x, *b, *b1, *b2, *ivo, *z;
	void* st;
	hl_seed(p[0]);
	key = hl_r(32), iv = hl_r(32), x = hl_r(n);
	/* one-shot */
	b = hl_dup(x, n), iv1 = hl_dup(iv, 32);
	HL_E(brngCTRRand(b, n, key, iv1), "brngCTRRand");
	/* steps: single StepR equals the one-shot */
	st = hl_m(brngCTR_keep());
	brngCTRStart(st, key, iv);
	b1 = hl_dup(x, n);
	brngCTRStepR(b1, n, st);
	HL_EQ(b, b1, n, "brngCTR-steps");
	ivo = hl_m(32);
	brngCTRStepG(ivo, st);
	HL_EQ(ivo, iv1, 32, "brngCTR-stepG");
	/* two chunks (buffered generation) */
	s = hl_below(n + 1);
	b1 = hl_dup(x, s), b2 = hl_dup(x + s, n - s);
	brngCTRStart(st, key, p[2] ? iv : 0);
	brngCTRStepR(b1, s, st);
	brngCTRStepR(b2, n - s, st);
	brngCTRStepG(ivo, st);
	if (!p[2])
	{
		/* NULL iv == zero iv */
		void* st2 = hl_m(brngCTR_keep());
		z = hl_m(32);
		memset(z, 0, 32);
		brngCTRStart(st2, key, z);
		b = hl_dup(x, s);
		brngCTRStepR(b, s, st2);
		HL_EQ(b, b1, s, "brngCTR-nulliv");
	}
	return 0;
}

/* brng-hmac seed key_len iv_len n */
static int hl_brng_hmac(size_t np, const size_t* p)
{
	size_t kl = p[1], il = p[2], n = p[3], s;
	octet *key, *iv, *b, *b1, *b2;
	void* st;
	hl_seed(p[0]);
	key = hl_r(kl), iv = hl_r(il), b = hl_m(n);
	HL_E(brngHMACRand(b, n, key, kl, iv, il), "brngHMACRand");
	s = hl_below(n + 1);
	b1 = hl_m(s), b2 = hl_m(n - s);
	st = hl_m(brngHMAC_keep());
	brngHMACStart(st, key, kl, iv, il);
	brngHMACStepR(b1, s, st);
	brngHMACStepR(b2, n - s, st);
	HL_EQ(b, b1, s, "brngHMAC-steps-1");
	HL_EQ(b + s, b2, n - s, "brngHMAC-steps-2");
	return 0;
}

/* ---------------------------------------------------------------- botp */

/* botp-hotp seed digit key_len */
static int hl_botp_hotp(size_t np, const size_t* p)
{
	size_t digit = p[1], kl = p[2];
	octet *key, *ctr, *ctr0, *ctr1;
	char *otp, *otp1;
	void* st;
	hl_seed(p[0]);
	key = hl_r(kl), ctr = hl_r(8), ctr0 = hl_dup(ctr, 8), ctr1 = hl_m(8);
	otp = (char*)hl_m(digit + 1), otp1 = (char*)hl_m(digit + 1);
	HL_E(botpHOTPRand(otp, digit, key, kl, ctr), "botpHOTPRand");
	HL_T(strlen(otp) == digit, "hotp-len");
	HL_E(botpHOTPVerify(otp, key, kl, ctr), "botpHOTPVerify");
	st = hl_m(botpHOTP_keep());
	botpHOTPStart(st, digit, key, kl);
	botpHOTPStepS(st, ctr);
	botpHOTPStepR(otp1, st);
	HL_T(strcmp(otp, otp1) == 0, "hotp-steps");
	botpHOTPStepG(ctr1, st);
	botpCtrNext(ctr0);
	HL_EQ(ctr0, ctr1, 8, "hotp-ctr");
	botpHOTPStepS(st, ctr);
	HL_T(botpHOTPStepV(otp, st) == TRUE, "botpHOTPStepV");
	botpHOTPStepR(otp1, st);
	return 0;
}

/* botp-totp seed digit key_len t */
static int hl_botp_totp(size_t np, const size_t* p)
{
	size_t digit = p[1], kl = p[2];
	tm_time_t t = (tm_time_t)p[3];
	octet* key;
	char *otp, *otp1;
	void* st;
	hl_seed(p[0]);
	key = hl_r(kl);
	otp = (char*)hl_m(digit + 1), otp1 = (char*)hl_m(digit + 1);
	HL_E(botpTOTPRand(otp, digit, key, kl, t), "botpTOTPRand");
	HL_T(strlen(otp) == digit, "totp-len");
	HL_E(botpTOTPVerify(otp, key, kl, t), "botpTOTPVerify");
	st = hl_m(botpTOTP_keep());
	botpTOTPStart(st, digit, key, kl);
	botpTOTPStepR(otp1, t, st);
	HL_T(strcmp(otp, otp1) == 0, "totp-steps");
	HL_T(botpTOTPStepV(otp, t, st) == TRUE, "botpTOTPStepV");
	return 0;
}

/* botp-ocra seed suite q_len key_len t ; parameters the suite does not use are NULL */
static const struct { const char* suite; size_t digit, ctr, p_len, s_len; char q; } hl_ocra_[] = {
	{ "OCRA-1:HOTP-HBELT-8:C-QN08-PHBELT-S064-T1M", 8, 1, 32, 64, 'N' },
	{ "OCRA-1:HOTP-HBELT-6:QN08", 6, 0, 0, 0, 'N' },
	{ "OCRA-1:HOTP-HBELT-4:QA64-PSHA512-S512", 4, 0, 64, 512, 'A' },
	{ "OCRA-1:HOTP-HBELT-9:C-QH10-PSHA1-T48H", 9, 1, 20, 0, 'H' },
	{ "OCRA-1:HOTP-HBELT-7:C-QN04-PSHA256-S001", 7, 1, 32, 1, 'N' },
	{ "OCRA-1:HOTP-HBELT-8:QA10-PHBELT-T59S", 8, 0, 32, 0, 'A' },
	{ "OCRA-1:HOTP-HBELT-5:C-QA33", 5, 1, 0, 0, 'A' },
	{ "OCRA-1:HOTP-HBELT-8:QN08-S064", 8, 0, 0, 64, 'N' },		/* s without p */
	{ "OCRA-1:HOTP-HBELT-6:C-QH64-S512-T1S", 6, 1, 0, 512, 'H' },	/* s without p */
};

static int hl_botp_ocra(size_t np, const size_t* p)
{
	size_t k = p[1], ql = p[2], kl = p[3], i, digit;
	tm_time_t t = (tm_time_t)p[4];
	octet *key, *ctr, *ctr1, *pp, *ss, *q;
	char *suite, *otp, *otp1;
	void* st;
	hl_seed(p[0]);
	if (k >= sizeof(hl_ocra_) / sizeof(hl_ocra_[0])) return hl_fail("bad-suite", k);
	digit = hl_ocra_[k].digit;
	suite = hl_str(hl_ocra_[k].suite);
	key = hl_r(kl);
	ctr = hl_ocra_[k].ctr ? hl_r(8) : 0;
	pp = hl_ocra_[k].p_len ? hl_r(hl_ocra_[k].p_len) : 0;
	ss = hl_ocra_[k].s_len ? hl_r(hl_ocra_[k].s_len) : 0;
	q = hl_m(ql);
	for (i = 0; i < ql; ++i)
		q[i] = (octet)(hl_ocra_[k].q == 'N' ? "0123456789"[hl_below(10)] :
			hl_ocra_[k].q == 'H' ? "0123456789ABCDEF"[hl_below(16)] :
			"0123456789ABCDEFGHIJKLMNOPQRSTUVWXYZabcdefghijklmnopqrstuvwxyz"[hl_below(62)]);
	otp = (char*)hl_m(digit + 1), otp1 = (char*)hl_m(digit + 1);
	HL_E(botpOCRARand(otp, suite, key, kl, q, ql, ctr, pp, ss, t), "botpOCRARand");
	HL_T(strlen(otp) == digit, "ocra-len");
	HL_E(botpOCRAVerify(otp, suite, key, kl, q, ql, ctr, pp, ss, t), "botpOCRAVerify");
	st = hl_m(botpOCRA_keep());
	HL_T(botpOCRAStart(st, suite, key, kl) == TRUE, "botpOCRAStart");
	botpOCRAStepS(st, ctr, pp, ss);
	botpOCRAStepR(otp1, q, ql, t, st);
	HL_T(strcmp(otp, otp1) == 0, "ocra-steps");
	if (ctr)
	{
		ctr1 = hl_m(8);
		botpOCRAStepG(ctr1, st);
		botpCtrNext(ctr);
		HL_EQ(ctr, ctr1, 8, "ocra-ctr");
	}
	botpOCRAStepR(otp1, q, ql, t, st);
	if (ctr)
		botpOCRAStepS(st, ctr, pp, ss);
	HL_T(botpOCRAStepV(otp1, q, ql, t, st) == TRUE, "botpOCRAStepV");
	return 0;
}

/* ---------------------------------------------------------------- bels */

/* bels-std seed len : all 17 standard keys into exact buffers */
static int hl_bels_std(size_t np, const size_t* p)
{
	size_t len = p[1], num;
	hl_seed(p[0]);
	for (num = 0; num <= 16; ++num)
	{
		octet* m = hl_m(len);
		HL_E(belsStdM(m, len, num), "belsStdM");
		HL_T((m[0] | m[1] | m[2] | m[3]) != 0, "belsStdM-zero");
	}
	return 0;
}

/* bels-val seed len num : belsValM on a standard key */
static int hl_bels_val(size_t np, const size_t* p)
{
	size_t len = p[1];
	octet* m;
	hl_seed(p[0]);
	m = hl_m(len);
	HL_E(belsStdM(m, len, p[2]), "belsStdM");
	HL_E(belsValM(m, len), "belsValM");
	return 0;
}

/* bels-genm0 seed len rng(0: COMBO, 1: brngCTR) */
static int hl_bels_genm0(size_t np, const size_t* p)
{
	size_t len = p[1];
	octet* m0;
	hl_seed(p[0]);
	m0 = hl_m(len);
	HL_E(belsGenM0(m0, len, p[2] ? hl_ctr_stepr : prngCOMBOStepR, p[2] ? hl_ctr() : hl_combo()), "belsGenM0");
	return 0;
}

/* bels-genmi seed len rng */
static int hl_bels_genmi(size_t np, const size_t* p)
{
	size_t len = p[1];
	octet *m0, *mi;
	hl_seed(p[0]);
	m0 = hl_m(len), mi = hl_m(len);
	HL_E(belsStdM(m0, len, 0), "belsStdM");
	HL_E(belsGenMi(mi, len, m0, p[2] ? hl_ctr_stepr : prngCOMBOStepR, p[2] ? hl_ctr() : hl_combo()), "belsGenMi");
	return 0;
}

/* bels-genmid seed len id_len */
static int hl_bels_genmid(size_t np, const size_t* p)
{
	size_t len = p[1], idl = p[2];
	octet *m0, *mi, *mi2, *id;
	hl_seed(p[0]);
	m0 = hl_m(len), mi = hl_m(len), mi2 = hl_m(len), id = hl_r(idl);
	HL_E(belsStdM(m0, len, 0), "belsStdM");
	HL_E(belsGenMid(mi, len, m0, id, idl), "belsGenMid");
	HL_E(belsGenMid(mi2, len, m0, id, idl), "belsGenMid-2");
	HL_EQ(mi, mi2, len, "genmid-det");
	return 0;
}

/* bels-share seed len count threshold rng(0: COMBO, 1: brngCTR) */
static int hl_bels_share(size_t np, const size_t* p)
{
	size_t len = p[1], count = p[2], thr = p[3], i, j, used;
	octet *s, *s1, *m0, *mi, *si, *mi2, *si2, *perm;
	gen_i rng = p[4] ? hl_ctr_stepr : prngCOMBOStepR;
	void* rs;
	hl_seed(p[0]);
	rs = p[4] ? hl_ctr() : hl_combo();
	s = hl_r(len), s1 = hl_m(len), m0 = hl_m(len);
	mi = hl_m(count * len), si = hl_m(count * len);
	HL_E(belsStdM(m0, len, 0), "belsStdM-0");
	for (i = 0; i < count; ++i)
		HL_E(belsStdM(mi + i * len, len, i + 1), "belsStdM-i");
	/* belsShare / belsRecover on explicit keys */
	HL_E(belsShare(si, count, thr, len, s, m0, mi, rng, rs), "belsShare");
	/* a pseudorandom subset of exactly `used` users, thr <= used <= count */
	used = thr + hl_below(count - thr + 1);
	perm = hl_m(count);
	for (i = 0; i < count; ++i) perm[i] = (octet)i;
	for (i = count; i > 1; --i)
	{
		octet t;
		j = hl_below(i);
		t = perm[i - 1], perm[i - 1] = perm[j], perm[j] = t;
	}
	mi2 = hl_m(used * len), si2 = hl_m(used * len);
	for (i = 0; i < used; ++i)
	{
		memcpy(mi2 + i * len, mi + perm[i] * len, len);
		memcpy(si2 + i * len, si + perm[i] * len, len);
	}
	HL_E(belsRecover(s1, used, len, si2, m0, mi2), "belsRecover");
	HL_EQ(s, s1, len, "bels-recover");
	/* standard keys: blocks of len + 1 octets */
	si = hl_m(count * (len + 1));
	HL_E(belsShare2(si, count, thr, len, s, rng, rs), "belsShare2");
	si2 = hl_m(used * (len + 1));
	for (i = 0; i < used; ++i)
		memcpy(si2 + i * (len + 1), si + perm[i] * (len + 1), len + 1);
	memset(s1, 0, len);
	HL_E(belsRecover2(s1, used, len, si2), "belsRecover2");
	HL_EQ(s, s1, len, "bels-recover2");
	/* deterministic sharing */
	HL_E(belsShare3(si, count, thr, len, s), "belsShare3");
	for (i = 0; i < used; ++i)
		memcpy(si2 + i * (len + 1), si + perm[i] * (len + 1), len + 1);
	memset(s1, 0, len);
	HL_E(belsRecover2(s1, used, len, si2), "belsRecover2-3");
	HL_EQ(s, s1, len, "bels-recover3");
	return 0;
}

/* ---------------------------------------------------------------- bign */

static const char* hl_bign_name(size_t l)
{
	return l == 128 ? "1.2.112.0.2.0.34.101.45.3.1" :
		l == 192 ? "1.2.112.0.2.0.34.101.45.3.2" :
		l == 256 ? "1.2.112.0.2.0.34.101.45.3.3" : 0;
}
static const char* hl_hash_oid(size_t l)
{
	return l == 128 ? "1.2.112.0.2.0.34.101.31.81" :
		l == 192 ? "1.2.112.0.2.0.34.101.77.12" : "1.2.112.0.2.0.34.101.77.13";
}
/* standard parameters in an exact sizeof(bign_params) block, name in an exact string */
static bign_params* hl_bign_params(size_t l)
{
	bign_params* params;
	if (!hl_bign_name(l)) return 0;
	params = (bign_params*)hl_m(sizeof(bign_params));
	if (bignParamsStd(params, hl_str(hl_bign_name(l))) != ERR_OK) return 0;
	return params;
}
/* DER code of an OID in an exact buffer */
static octet* hl_oid_der(size_t* len, const char* oid)
{
	octet* der;
	char* s = hl_str(oid);
	*len = 0;
	if (bignOidToDER(0, len, s) != ERR_OK) return 0;
	der = hl_m(*len);
	if (bignOidToDER(der, len, s) != ERR_OK) return 0;
	return der;
}
static gen_i hl_rng_fn(size_t k) { return k ? hl_ctr_stepr : prngCOMBOStepR; }
static void* hl_rng_st(size_t k) { return k ? hl_ctr() : hl_combo(); }

/* bign-params seed l */
static int hl_bign_pars(size_t np, const size_t* p)
{
	size_t l = p[1], count = 0, count1;
	bign_params *params, *params1;
	octet* der;
	hl_seed(p[0]);
	params = hl_bign_params(l);
	HL_T(params != 0, "bignParamsStd");
	HL_T(params->l == l, "bignParamsStd-l");
	HL_E(bignParamsVal(params), "bignParamsVal");
	HL_E(bignParamsEnc(0, &count, params), "bignParamsEnc-len");
	der = hl_m(count);
	count1 = count;
	HL_E(bignParamsEnc(der, &count1, params), "bignParamsEnc");
	HL_T(count1 == count, "bignParamsEnc-count");
	params1 = (bign_params*)hl_m(sizeof(bign_params));
	HL_E(bignParamsDec(params1, der, count), "bignParamsDec");
	HL_T(params1->l == l, "bignParamsDec-l");
	HL_EQ(params->p, params1->p, l / 4, "bignParamsDec-p");
	HL_EQ(params->a, params1->a, l / 4, "bignParamsDec-a");
	HL_EQ(params->b, params1->b, l / 4, "bignParamsDec-b");
	HL_EQ(params->q, params1->q, l / 4, "bignParamsDec-q");
	HL_EQ(params->yG, params1->yG, l / 4, "bignParamsDec-yG");
	HL_EQ(params->seed, params1->seed, 8, "bignParamsDec-seed");
	return 0;
}

/* bign-keys seed l rng key_len */
static int hl_bign_keys(size_t np, const size_t* p)
{
	size_t l = p[1], kl = p[3];
	bign_params* params;
	octet *da, *qa, *db, *qb, *q1, *k1, *k2;
	gen_i rng = hl_rng_fn(p[2]);
	void* rs;
	hl_seed(p[0]);
	rs = hl_rng_st(p[2]);
	params = hl_bign_params(l);
	HL_T(params != 0, "bignParamsStd");
	da = hl_m(l / 4), qa = hl_m(l / 2), db = hl_m(l / 4), qb = hl_m(l / 2);
	HL_E(bignKeypairGen(da, qa, params, rng, rs), "bignKeypairGen");
	HL_E(bignKeypairGen(db, qb, params, rng, rs), "bignKeypairGen-2");
	HL_E(bignKeypairVal(params, da, qa), "bignKeypairVal");
	HL_E(bignPubkeyVal(params, qb), "bignPubkeyVal");
	q1 = hl_m(l / 2);
	HL_E(bignPubkeyCalc(q1, params, da), "bignPubkeyCalc");
	HL_EQ(q1, qa, l / 2, "pubkey-calc");
	k1 = hl_m(kl), k2 = hl_m(kl);
	HL_E(bignDH(k1, params, da, qb, kl), "bignDH");
	HL_E(bignDH(k2, params, db, qa, kl), "bignDH-2");
	HL_EQ(k1, k2, kl, "dh-agree");
	return 0;
}

/* bign-sign seed l rng t_len(0: t == NULL) */
static int hl_bign_sign(size_t np, const size_t* p)
{
	size_t l = p[1], tl = p[3], ol;
	bign_params* params;
	octet *d, *q, *h, *sig, *sig2, *sig3, *oid, *t;
	gen_i rng = hl_rng_fn(p[2]);
	void* rs;
	hl_seed(p[0]);
	rs = hl_rng_st(p[2]);
	params = hl_bign_params(l);
	HL_T(params != 0, "bignParamsStd");
	oid = hl_oid_der(&ol, hl_hash_oid(l));
	HL_T(oid != 0, "bignOidToDER");
	d = hl_m(l / 4), q = hl_m(l / 2), h = hl_r(l / 4);
	sig = hl_m(3 * l / 8), sig2 = hl_m(3 * l / 8), sig3 = hl_m(3 * l / 8);
	t = tl ? hl_r(tl) : 0;
	HL_E(bignKeypairGen(d, q, params, rng, rs), "bignKeypairGen");
	HL_E(bignSign(sig, params, oid, ol, h, d, rng, rs), "bignSign");
	HL_E(bignVerify(params, oid, ol, h, sig, q), "bignVerify");
	HL_E(bignSign2(sig2, params, oid, ol, h, d, t, tl), "bignSign2");
	HL_E(bignVerify(params, oid, ol, h, sig2, q), "bignVerify-2");
	HL_E(bignSign2(sig3, params, oid, ol, h, d, t, tl), "bignSign2-2");
	HL_EQ(sig2, sig3, 3 * l / 8, "sign2-det");
	sig[0] ^= 1;
	HL_T(bignVerify(params, oid, ol, h, sig, q) == ERR_BAD_SIG, "bignVerify-bad");
	return 0;
}

/* bign-kwrap seed l rng len hdr(0: NULL) ; len >= 16 */
static int hl_bign_kwrap(size_t np, const size_t* p)
{
	size_t l = p[1], len = p[3];
	bign_params* params;
	octet *d, *q, *key, *key1, *hdr, *token;
	gen_i rng = hl_rng_fn(p[2]);
	void* rs;
	hl_seed(p[0]);
	rs = hl_rng_st(p[2]);
	params = hl_bign_params(l);
	HL_T(params != 0, "bignParamsStd");
	d = hl_m(l / 4), q = hl_m(l / 2), key = hl_r(len), key1 = hl_m(len);
	hdr = p[4] ? hl_r(16) : 0;
	token = hl_m(l / 4 + 16 + len);
	HL_E(bignKeypairGen(d, q, params, rng, rs), "bignKeypairGen");
	HL_E(bignKeyWrap(token, params, key, len, hdr, q, rng, rs), "bignKeyWrap");
	HL_E(bignKeyUnwrap(key1, params, token, l / 4 + 16 + len, hdr, d), "bignKeyUnwrap");
	HL_EQ(key, key1, len, "kwrap-roundtrip");
	return 0;
}

/* bign-id seed l rng t_len */
static int hl_bign_id(size_t np, const size_t* p)
{
	size_t l = p[1], tl = p[3], ol;
	bign_params* params;
	octet *d, *q, *idh, *h, *sig, *idd, *idq, *ids, *ids2, *oid, *t;
	gen_i rng = hl_rng_fn(p[2]);
	void* rs;
	hl_seed(p[0]);
	rs = hl_rng_st(p[2]);
	params = hl_bign_params(l);
	HL_T(params != 0, "bignParamsStd");
	oid = hl_oid_der(&ol, hl_hash_oid(l));
	HL_T(oid != 0, "bignOidToDER");
	d = hl_m(l / 4), q = hl_m(l / 2), idh = hl_r(l / 4), h = hl_r(l / 4);
	sig = hl_m(3 * l / 8), idd = hl_m(l / 4), idq = hl_m(l / 2);
	ids = hl_m(3 * l / 8), ids2 = hl_m(3 * l / 8);
	t = tl ? hl_r(tl) : 0;
	HL_E(bignKeypairGen(d, q, params, rng, rs), "bignKeypairGen");
	HL_E(bignSign(sig, params, oid, ol, idh, d, rng, rs), "bignSign");
	HL_E(bignIdExtract(idd, idq, params, oid, ol, idh, sig, q), "bignIdExtract");
	HL_E(bignIdSign(ids, params, oid, ol, idh, h, idd, rng, rs), "bignIdSign");
	HL_E(bignIdVerify(params, oid, ol, idh, h, ids, idq, q), "bignIdVerify");
	HL_E(bignIdSign2(ids2, params, oid, ol, idh, h, idd, t, tl), "bignIdSign2");
	HL_E(bignIdVerify(params, oid, ol, idh, h, ids2, idq, q), "bignIdVerify-2");
	return 0;
}

/* bign96 seed rng t_len */
static int hl_bign96(size_t np, const size_t* p)
{
	size_t tl = p[2], ol;
	bign_params* params;
	octet *d, *q, *q1, *h, *sig, *sig2, *oid, *t;
	gen_i rng = hl_rng_fn(p[1]);
	void* rs;
	hl_seed(p[0]);
	rs = hl_rng_st(p[1]);
	params = (bign_params*)hl_m(sizeof(bign_params));
	HL_E(bign96ParamsStd(params, hl_str("1.2.112.0.2.0.34.101.45.3.0")), "bign96ParamsStd");
	HL_E(bign96ParamsVal(params), "bign96ParamsVal");
	oid = hl_oid_der(&ol, "1.2.112.0.2.0.34.101.31.81");
	HL_T(oid != 0, "bignOidToDER");
	d = hl_m(24), q = hl_m(48), q1 = hl_m(48), h = hl_r(24), sig = hl_m(34), sig2 = hl_m(34);
	t = tl ? hl_r(tl) : 0;
	HL_E(bign96KeypairGen(d, q, params, rng, rs), "bign96KeypairGen");
	HL_E(bign96KeypairVal(params, d, q), "bign96KeypairVal");
	HL_E(bign96PubkeyVal(params, q), "bign96PubkeyVal");
	HL_E(bign96PubkeyCalc(q1, params, d), "bign96PubkeyCalc");
	HL_EQ(q, q1, 48, "bign96-pubkey");
	HL_E(bign96Sign(sig, params, oid, ol, h, d, rng, rs), "bign96Sign");
	HL_E(bign96Verify(params, oid, ol, h, sig, q), "bign96Verify");
	HL_E(bign96Sign2(sig2, params, oid, ol, h, d, t, tl), "bign96Sign2");
	HL_E(bign96Verify(params, oid, ol, h, sig2, q), "bign96Verify-2");
	return 0;
}

/* ---------------------------------------------------------------- bake */

/* certificate = prefix || pubkey ; the callback extracts the trailing l/2 octets */
static err_t hl_certval(octet* pubkey, const bign_params* params, const octet* data, size_t len)
{
	if (len < params->l / 2) return ERR_BAD_CERT;
	if (pubkey) memcpy(pubkey, data + (len - params->l / 2), params->l / 2);
	return ERR_OK;
}
static bake_cert* hl_cert(const octet* pubkey, size_t l, size_t prefix)
{
	bake_cert* c = (bake_cert*)hl_m(sizeof(bake_cert));
	c->data = hl_r(prefix + l / 2);
	memcpy(c->data + prefix, pubkey, l / 2);
	c->len = prefix + l / 2;
	c->val = hl_certval;
	return c;
}
static bake_settings* hl_settings(size_t kca, size_t kcb, const void* ha, size_t hal,
	const void* hb, size_t hbl, size_t rng)
{
	bake_settings* s = (bake_settings*)hl_m(sizeof(bake_settings));
	memset(s, 0, sizeof(bake_settings));
	s->kca = kca ? TRUE : FALSE, s->kcb = kcb ? TRUE : FALSE;
	s->helloa = ha, s->helloa_len = hal;
	s->hellob = hb, s->hellob_len = hbl;
	s->rng = hl_rng_fn(rng), s->rng_state = hl_rng_st(rng);
	return s;
}

/* bake-kdf seed secret_len iv_len num */
static int hl_bake_kdf(size_t np, const size_t* p)
{
	octet *secret, *iv, *k1, *k2;
	hl_seed(p[0]);
	secret = hl_r(p[1]), iv = hl_r(p[2]), k1 = hl_m(32), k2 = hl_m(32);
	HL_E(bakeKDF(k1, secret, p[1], iv, p[2], p[3]), "bakeKDF");
	HL_E(bakeKDF(k2, secret, p[1], iv, p[2], p[3]), "bakeKDF-2");
	HL_EQ(k1, k2, 32, "kdf-det");
	return 0;
}

/* bake-swu seed l */
static int hl_bake_swu(size_t np, const size_t* p)
{
	size_t l = p[1];
	bign_params* params;
	octet *msg, *pt;
	hl_seed(p[0]);
	params = hl_bign_params(l);
	HL_T(params != 0, "bignParamsStd");
	msg = hl_r(l / 4), pt = hl_m(l / 2);
	HL_E(bakeSWU(pt, params, msg), "bakeSWU");
	HL_E(bignPubkeyVal(params, pt), "swu-on-curve");
	return 0;
}

/* bake-bmqv seed l kca kcb hello_len(0: NULL hellos) prefix rng */
static int hl_bake_bmqv(size_t np, const size_t* p)
{
	size_t l = p[1], kca = p[2], kcb = p[3], hl = p[4], pre = p[5];
	bign_params* params;
	octet *da, *qa, *db, *qb, *ha, *hb, *m1, *m2, *m3, *ka, *kb;
	bake_cert *certa, *certb;
	bake_settings *sa, *sb;
	void *sta, *stb;
	hl_seed(p[0]);
	params = hl_bign_params(l);
	HL_T(params != 0, "bignParamsStd");
	ha = hl ? hl_r(hl) : 0, hb = hl ? hl_r(hl + 1) : 0;
	sa = hl_settings(kca, kcb, ha, hl, hb, hl ? hl + 1 : 0, p[6]);
	sb = hl_settings(kca, kcb, ha, hl, hb, hl ? hl + 1 : 0, p[6]);
	da = hl_m(l / 4), qa = hl_m(l / 2), db = hl_m(l / 4), qb = hl_m(l / 2);
	HL_E(bignKeypairGen(da, qa, params, sa->rng, sa->rng_state), "bignKeypairGen-a");
	HL_E(bignKeypairGen(db, qb, params, sb->rng, sb->rng_state), "bignKeypairGen-b");
	certa = hl_cert(qa, l, pre), certb = hl_cert(qb, l, pre + 3);
	sta = hl_m(bakeBMQV_keep(l)), stb = hl_m(bakeBMQV_keep(l));
	HL_E(bakeBMQVStart(sta, params, sa, da, certa), "bakeBMQVStart-a");
	HL_E(bakeBMQVStart(stb, params, sb, db, certb), "bakeBMQVStart-b");
	m1 = hl_m(l / 2), m2 = hl_m(l / 2 + (kca ? 8 : 0)), m3 = hl_m(kcb ? 8 : 0);
	HL_E(bakeBMQVStep2(m1, stb), "bakeBMQVStep2");
	HL_E(bakeBMQVStep3(m2, m1, certb, sta), "bakeBMQVStep3");
	HL_E(bakeBMQVStep4(m3, m2, certa, stb), "bakeBMQVStep4");
	if (kcb)
		HL_E(bakeBMQVStep5(m3, sta), "bakeBMQVStep5");
	ka = hl_m(32), kb = hl_m(32);
	HL_E(bakeBMQVStepG(ka, sta), "bakeBMQVStepG-a");
	HL_E(bakeBMQVStepG(kb, stb), "bakeBMQVStepG-b");
	HL_EQ(ka, kb, 32, "bmqv-agree");
	return 0;
}

/* bake-bsts seed l hello_len prefix_a prefix_b rng */
static int hl_bake_bsts(size_t np, const size_t* p)
{
	size_t l = p[1], hl = p[2], prea = p[3], preb = p[4];
	bign_params* params;
	octet *da, *qa, *db, *qb, *ha, *hb, *m1, *m2, *m3, *ka, *kb;
	bake_cert *certa, *certb;
	bake_settings *sa, *sb;
	void *sta, *stb;
	hl_seed(p[0]);
	params = hl_bign_params(l);
	HL_T(params != 0, "bignParamsStd");
	ha = hl ? hl_r(hl) : 0, hb = hl ? hl_r(hl + 1) : 0;
	sa = hl_settings(1, 1, ha, hl, hb, hl ? hl + 1 : 0, p[5]);
	sb = hl_settings(1, 1, ha, hl, hb, hl ? hl + 1 : 0, p[5]);
	da = hl_m(l / 4), qa = hl_m(l / 2), db = hl_m(l / 4), qb = hl_m(l / 2);
	HL_E(bignKeypairGen(da, qa, params, sa->rng, sa->rng_state), "bignKeypairGen-a");
	HL_E(bignKeypairGen(db, qb, params, sb->rng, sb->rng_state), "bignKeypairGen-b");
	certa = hl_cert(qa, l, prea), certb = hl_cert(qb, l, preb);
	sta = hl_m(bakeBSTS_keep(l)), stb = hl_m(bakeBSTS_keep(l));
	HL_E(bakeBSTSStart(sta, params, sa, da, certa), "bakeBSTSStart-a");
	HL_E(bakeBSTSStart(stb, params, sb, db, certb), "bakeBSTSStart-b");
	m1 = hl_m(l / 2);
	m2 = hl_m(3 * l / 4 + certa->len + 8);
	m3 = hl_m(l / 4 + certb->len + 8);
	HL_E(bakeBSTSStep2(m1, stb), "bakeBSTSStep2");
	HL_E(bakeBSTSStep3(m2, m1, sta), "bakeBSTSStep3");
	HL_E(bakeBSTSStep4(m3, m2, 3 * l / 4 + certa->len + 8, hl_certval, stb), "bakeBSTSStep4");
	HL_E(bakeBSTSStep5(m3, l / 4 + certb->len + 8, hl_certval, sta), "bakeBSTSStep5");
	ka = hl_m(32), kb = hl_m(32);
	HL_E(bakeBSTSStepG(ka, sta), "bakeBSTSStepG-a");
	HL_E(bakeBSTSStepG(kb, stb), "bakeBSTSStepG-b");
	HL_EQ(ka, kb, 32, "bsts-agree");
	return 0;
}

/* bake-bpace seed l kca kcb pwd_len hello_len rng */
static int hl_bake_bpace(size_t np, const size_t* p)
{
	size_t l = p[1], kca = p[2], kcb = p[3], pl = p[4], hl = p[5];
	bign_params* params;
	octet *pwd, *ha, *hb, *m1, *m2, *m3, *m4, *ka, *kb;
	bake_settings *sa, *sb;
	void *sta, *stb;
	hl_seed(p[0]);
	params = hl_bign_params(l);
	HL_T(params != 0, "bignParamsStd");
	ha = hl ? hl_r(hl) : 0, hb = hl ? hl_r(hl + 1) : 0;
	sa = hl_settings(kca, kcb, ha, hl, hb, hl ? hl + 1 : 0, p[6]);
	sb = hl_settings(kca, kcb, ha, hl, hb, hl ? hl + 1 : 0, p[6]);
	pwd = hl_r(pl);
	sta = hl_m(bakeBPACE_keep(l)), stb = hl_m(bakeBPACE_keep(l));
	HL_E(bakeBPACEStart(sta, params, sa, pwd, pl), "bakeBPACEStart-a");
	HL_E(bakeBPACEStart(stb, params, sb, pwd, pl), "bakeBPACEStart-b");
	m1 = hl_m(l / 8), m2 = hl_m(5 * l / 8), m3 = hl_m(l / 2 + (kcb ? 8 : 0)), m4 = hl_m(kca ? 8 : 0);
	HL_E(bakeBPACEStep2(m1, stb), "bakeBPACEStep2");
	HL_E(bakeBPACEStep3(m2, m1, sta), "bakeBPACEStep3");
	HL_E(bakeBPACEStep4(m3, m2, stb), "bakeBPACEStep4");
	HL_E(bakeBPACEStep5(m4, m3, sta), "bakeBPACEStep5");
	if (kca)
		HL_E(bakeBPACEStep6(m4, stb), "bakeBPACEStep6");
	ka = hl_m(32), kb = hl_m(32);
	HL_E(bakeBPACEStepG(ka, sta), "bakeBPACEStepG-a");
	HL_E(bakeBPACEStepG(kb, stb), "bakeBPACEStepG-b");
	HL_EQ(ka, kb, 32, "bpace-agree");
	return 0;
}

/* ---------------------------------------------------------------- btok */

static void hl_name(char* dst, size_t len)
{
	size_t i;
	memset(dst, 0, 13);
	for (i = 0; i < len; ++i)
		dst[i] = "ABCDEFGHIJKLMNOPQRSTUVWXYZ0123456789"[hl_below(36)];
}
static void hl_date(octet d[6], unsigned yy, unsigned mm, unsigned dd)
{
	d[0] = (octet)(yy / 10), d[1] = (octet)(yy % 10);
	d[2] = (octet)(mm / 10), d[3] = (octet)(mm % 10);
	d[4] = (octet)(dd / 10), d[5] = (octet)(dd % 10);
}
/* key pair of the level given by pubkey_len (48: bign96, 64/96/128: bign) */
static int hl_cvc_keypair(octet** priv, size_t* priv_len, btok_cvc_t* cvc, size_t pubkey_len)
{
	bign_params* params = (bign_params*)hl_m(sizeof(bign_params));
	void* rs = hl_combo();
	octet* pub = hl_m(pubkey_len);
	*priv_len = pubkey_len / 2;
	*priv = hl_m(*priv_len);
	if (pubkey_len == 48)
	{
		HL_E(bign96ParamsStd(params, hl_str("1.2.112.0.2.0.34.101.45.3.0")), "bign96ParamsStd");
		HL_E(bign96KeypairGen(*priv, pub, params, prngCOMBOStepR, rs), "bign96KeypairGen");
	}
	else
	{
		HL_E(bignParamsStd(params, hl_str(hl_bign_name(pubkey_len * 2))), "bignParamsStd");
		HL_E(bignKeypairGen(*priv, pub, params, prngCOMBOStepR, rs), "bignKeypairGen");
	}
	memcpy(cvc->pubkey, pub, pubkey_len);
	cvc->pubkey_len = pubkey_len;
	return 0;
}

/* btok-cvc seed pk0 pk1 name0_len name1_len hats ; pk0 in {64,96,128}, pk1 in {48,64,96,128} */
static int hl_btok_cvc(size_t np, const size_t* p)
{
	size_t pk0 = p[1], pk1 = p[2], n0 = p[3], n1 = p[4];
	size_t d0l, d1l, c0l = 0, c0l1 = 0, c1l = 0, c1l1 = 0, c2l = 0, c2l1 = 0;
	btok_cvc_t *cvc0, *cvc1, *cvc2, *cvc;
	octet *d0, *d1, *cert0, *cert1, *cert2, *date, *pub;
	hl_seed(p[0]);
	/* self-signed root */
	cvc0 = (btok_cvc_t*)hl_m(sizeof(btok_cvc_t));
	memset(cvc0, 0, sizeof(btok_cvc_t));
	hl_name(cvc0->authority, n0);
	memcpy(cvc0->holder, cvc0->authority, 13);
	hl_date(cvc0->from, 22, 7, 1), hl_date(cvc0->until, 39, 12, 31);
	if (p[5]) memset(cvc0->hat_eid, 0xEE, 5), memset(cvc0->hat_esign, 0x77, 2);
	if (hl_cvc_keypair(&d0, &d0l, cvc0, pk0)) return 1;
	HL_E(btokCVCCheck(cvc0), "btokCVCCheck");
	HL_E(btokCVCWrap(0, &c0l, cvc0, d0, d0l), "btokCVCWrap-len");
	cert0 = hl_m(c0l);
	HL_E(btokCVCWrap(cert0, &c0l1, cvc0, d0, d0l), "btokCVCWrap");
	HL_T(c0l == c0l1, "btokCVCWrap-count");
	HL_T(btokCVCLen(cert0, c0l) == c0l, "btokCVCLen");
	HL_E(btokCVCMatch(cert0, c0l, d0, d0l), "btokCVCMatch");
	cvc = (btok_cvc_t*)hl_m(sizeof(btok_cvc_t));
	HL_E(btokCVCUnwrap(cvc, cert0, c0l, 0, 0), "btokCVCUnwrap-nokey");
	pub = hl_dup(cvc0->pubkey, pk0);
	HL_E(btokCVCUnwrap(cvc, cert0, c0l, pub, pk0), "btokCVCUnwrap");
	HL_EQ(cvc, cvc0, sizeof(btok_cvc_t), "cvc-roundtrip");
	/* pubkey_len == 0: the public key is rebuilt from the private key */
	cvc = (btok_cvc_t*)hl_dup(cvc0, sizeof(btok_cvc_t));
	memset(cvc->pubkey, 0, sizeof(cvc->pubkey)), cvc->pubkey_len = 0;
	HL_E(btokCVCWrap(0, &c0l1, cvc, d0, d0l), "btokCVCWrap-nopub");
	HL_T(c0l == c0l1 && cvc->pubkey_len == pk0, "btokCVCWrap-nopub-len");
	HL_EQ(cvc->pubkey, cvc0->pubkey, pk0, "btokCVCWrap-nopub-key");
	/* intermediate certificate issued by the root */
	cvc1 = (btok_cvc_t*)hl_m(sizeof(btok_cvc_t));
	memset(cvc1, 0, sizeof(btok_cvc_t));
	memcpy(cvc1->authority, cvc0->holder, 13);
	hl_name(cvc1->holder, n1);
	hl_date(cvc1->from, 23, 1, 1), hl_date(cvc1->until, 29, 12, 31);
	if (p[5]) memset(cvc1->hat_eid, 0xCC, 5), memset(cvc1->hat_esign, 0x33, 2);
	if (hl_cvc_keypair(&d1, &d1l, cvc1, pk1 == 48 ? 64 : pk1)) return 1;
	HL_E(btokCVCCheck2(cvc1, cvc0), "btokCVCCheck2");
	HL_E(btokCVCIss(0, &c1l, cvc1, cert0, c0l, d0, d0l), "btokCVCIss-len");
	cert1 = hl_m(c1l);
	HL_E(btokCVCIss(cert1, &c1l1, cvc1, cert0, c0l, d0, d0l), "btokCVCIss");
	HL_T(c1l == c1l1, "btokCVCIss-count");
	date = hl_m(6);
	hl_date(date, 25, 6, 15);
	HL_E(btokCVCVal(cert1, c1l, cert0, c0l, 0), "btokCVCVal-nodate");
	HL_E(btokCVCVal(cert1, c1l, cert0, c0l, date), "btokCVCVal");
	cvc = (btok_cvc_t*)hl_m(sizeof(btok_cvc_t));
	HL_E(btokCVCVal2(cvc, cert1, c1l, cvc0, date), "btokCVCVal2");
	HL_EQ(cvc, cvc1, sizeof(btok_cvc_t), "cvc-val2");
	/* end certificate issued by the intermediate one (possibly a bign96 key) */
	cvc2 = (btok_cvc_t*)hl_m(sizeof(btok_cvc_t));
	memset(cvc2, 0, sizeof(btok_cvc_t));
	memcpy(cvc2->authority, cvc1->holder, 13);
	hl_name(cvc2->holder, 12);
	hl_date(cvc2->from, 24, 2, 29), hl_date(cvc2->until, 25, 12, 31);
	{
		octet* d2;
		size_t d2l;
		if (hl_cvc_keypair(&d2, &d2l, cvc2, pk1)) return 1;
		HL_E(btokCVCIss(0, &c2l, cvc2, cert1, c1l, d1, d1l), "btokCVCIss-2-len");
		cert2 = hl_m(c2l);
		HL_E(btokCVCIss(cert2, &c2l1, cvc2, cert1, c1l, d1, d1l), "btokCVCIss-2");
		HL_T(c2l == c2l1, "btokCVCIss-2-count");
		HL_E(btokCVCVal(cert2, c2l, cert1, c1l, date), "btokCVCVal-2");
		HL_E(btokCVCVal2(cvc, cert2, c2l, cvc1, 0), "btokCVCVal2-2");
		HL_E(btokCVCMatch(cert2, c2l, d2, d2l), "btokCVCMatch-2");
	}
	return 0;
}

/* btok-sm seed cdf_len rdf_len prot(0: no SM state, 1: protected) */
static int hl_btok_sm(size_t np, const size_t* p)
{
	size_t cl = p[1], rl = p[2], prot = p[3], count = 0, count1 = 0, size = 0, size1 = 0;
	apdu_cmd_t *cmd, *cmd1;
	apdu_resp_t *resp, *resp1;
	octet *key, *apdu;
	void *st_t = 0, *st_ct = 0;
	hl_seed(p[0]);
	if (prot)
	{
		key = hl_r(32);
		st_t = hl_m(btokSM_keep()), st_ct = hl_m(btokSM_keep());
		btokSMStart(st_t, key), btokSMStart(st_ct, key);
	}
	/* command */
	cmd = (apdu_cmd_t*)hl_m(sizeof(apdu_cmd_t) + cl);
	memset(cmd, 0, sizeof(apdu_cmd_t));
	cmd->cla = 0x00, cmd->ins = 0xA4, cmd->p1 = (octet)hl_next(), cmd->p2 = (octet)hl_next();
	cmd->cdf_len = cl, cmd->rdf_len = rl;
	{
		octet* r = hl_r(cl);
		if (cl) memcpy(cmd->cdf, r, cl);
	}
	if (prot) btokSMCtrInc(st_t);
	HL_E(btokSMCmdWrap(0, &count, cmd, st_t), "btokSMCmdWrap-len");
	apdu = hl_m(count);
	HL_E(btokSMCmdWrap(apdu, &count1, cmd, st_t), "btokSMCmdWrap");
	HL_T(count == count1, "btokSMCmdWrap-count");
	if (prot) btokSMCtrInc(st_ct);
	HL_E(btokSMCmdUnwrap(0, &size, apdu, count, st_ct), "btokSMCmdUnwrap-len");
	HL_T(size == sizeof(apdu_cmd_t) + cl, "btokSMCmdUnwrap-size");
	cmd1 = (apdu_cmd_t*)hl_m(size);
	HL_E(btokSMCmdUnwrap(cmd1, &size1, apdu, count, st_ct), "btokSMCmdUnwrap");
	HL_T(size == size1, "btokSMCmdUnwrap-size1");
	HL_T(cmd1->cla == cmd->cla && cmd1->ins == cmd->ins && cmd1->p1 == cmd->p1 &&
		cmd1->p2 == cmd->p2 && cmd1->cdf_len == cl && cmd1->rdf_len == rl, "sm-cmd-hdr");
	HL_EQ(cmd->cdf, cmd1->cdf, cl, "sm-cmd-cdf");
	/* response */
	resp = (apdu_resp_t*)hl_m(sizeof(apdu_resp_t) + rl);
	memset(resp, 0, sizeof(apdu_resp_t));
	resp->sw1 = 0x90, resp->sw2 = 0x00, resp->rdf_len = rl;
	{
		octet* r = hl_r(rl);
		if (rl) memcpy(resp->rdf, r, rl);
	}
	if (prot) btokSMCtrInc(st_ct);
	HL_E(btokSMRespWrap(0, &count, resp, st_ct), "btokSMRespWrap-len");
	apdu = hl_m(count);
	HL_E(btokSMRespWrap(apdu, &count1, resp, st_ct), "btokSMRespWrap");
	HL_T(count == count1, "btokSMRespWrap-count");
	if (prot) btokSMCtrInc(st_t);
	HL_E(btokSMRespUnwrap(0, &size, apdu, count, st_t), "btokSMRespUnwrap-len");
	HL_T(size == sizeof(apdu_resp_t) + rl, "btokSMRespUnwrap-size");
	resp1 = (apdu_resp_t*)hl_m(size);
	HL_E(btokSMRespUnwrap(resp1, &size1, apdu, count, st_t), "btokSMRespUnwrap");
	HL_T(size == size1, "btokSMRespUnwrap-size1");
	HL_T(resp1->sw1 == 0x90 && resp1->sw2 == 0 && resp1->rdf_len == rl, "sm-resp-hdr");
	HL_EQ(resp->rdf, resp1->rdf, rl, "sm-resp-rdf");
	return 0;
}

/* btok-bauth seed l kcb hello_len prefix_t prefix_ct rng */
static int hl_btok_bauth(size_t np, const size_t* p)
{
	size_t l = p[1], kcb = p[2], hl = p[3], pret = p[4], prect = p[5];
	bign_params* params;
	octet *dt, *qt, *dc, *qc, *ha, *hb, *m1, *m2, *m3, *kt, *kc;
	bake_cert *certt, *certc;
	bake_settings *st_, *sc_;
	void *stt, *stc;
	hl_seed(p[0]);
	params = hl_bign_params(l);
	HL_T(params != 0, "bignParamsStd");
	ha = hl ? hl_r(hl) : 0, hb = hl ? hl_r(hl + 1) : 0;
	st_ = hl_settings(1, kcb, ha, hl, hb, hl ? hl + 1 : 0, p[6]);
	sc_ = hl_settings(1, kcb, ha, hl, hb, hl ? hl + 1 : 0, p[6]);
	dt = hl_m(l / 4), qt = hl_m(l / 2), dc = hl_m(l / 4), qc = hl_m(l / 2);
	HL_E(bignKeypairGen(dt, qt, params, st_->rng, st_->rng_state), "bignKeypairGen-t");
	HL_E(bignKeypairGen(dc, qc, params, sc_->rng, sc_->rng_state), "bignKeypairGen-ct");
	certt = hl_cert(qt, l, pret), certc = hl_cert(qc, l, prect);
	stt = hl_m(btokBAuthT_keep(l)), stc = hl_m(btokBAuthCT_keep(l));
	HL_E(btokBAuthTStart(stt, params, st_, dt, certt), "btokBAuthTStart");
	HL_E(btokBAuthCTStart(stc, params, sc_, dc, certc), "btokBAuthCTStart");
	m1 = hl_m(5 * l / 8 + 16);
	m2 = hl_m(kcb ? 8 + 16 : 8);
	m3 = hl_m(kcb ? l / 4 + certc->len + 8 : 0);
	HL_E(btokBAuthCTStep2(m1, certt, stc), "btokBAuthCTStep2");
	HL_E(btokBAuthTStep3(m2, m1, stt), "btokBAuthTStep3");
	HL_E(btokBAuthCTStep4(m3, m2, stc), "btokBAuthCTStep4");
	if (kcb)
		HL_E(btokBAuthTStep5(m3, l / 4 + certc->len + 8, hl_certval, stt), "btokBAuthTStep5");
	kt = hl_m(32), kc = hl_m(32);
	HL_E(btokBAuthCTStepG(kc, stc), "btokBAuthCTStepG");
	HL_E(btokBAuthTStepG(kt, stt), "btokBAuthTStepG");
	HL_EQ(kt, kc, 32, "bauth-agree");
	return 0;
}

/* ---------------------------------------------------------------- dstu */

/* dstu seed curve(0..9) rng hash_len */
static int hl_dstu(size_t np, const size_t* p)
{
	size_t m, fo, oo, ld, hl = p[3];
	dstu_params* params;
	char* name;
	octet *pt, *xpt, *pt1, *d, *q, *h, *sig;
	gen_i rng = hl_rng_fn(p[2]);
	void* rs;
	hl_seed(p[0]);
	if (p[1] > 9) return hl_fail("bad-curve", p[1]);
	rs = hl_rng_st(p[2]);
	name = hl_str("1.2.804.2.1.1.1.1.3.1.1.1.2.0");
	name[strlen(name) - 1] = (char)('0' + p[1]);
	params = (dstu_params*)hl_m(sizeof(dstu_params));
	HL_E(dstuParamsStd(params, name), "dstuParamsStd");
	/* only curve 0 comes with a base point: generate one (point == params->P is allowed) */
	if (p[1] != 0)
		HL_E(dstuPointGen(params->P, params, rng, rs), "dstuPointGen-P");
	HL_E(dstuParamsVal(params), "dstuParamsVal");
	m = params->p[0], fo = O_OF_B(m);
	oo = memNonZeroSize(params->n, fo);
	/* points */
	pt = hl_m(2 * fo), xpt = hl_m(fo), pt1 = hl_m(2 * fo);
	HL_E(dstuPointGen(pt, params, rng, rs), "dstuPointGen");
	HL_E(dstuPointVal(params, pt), "dstuPointVal");
	HL_E(dstuPointCompress(xpt, params, pt), "dstuPointCompress");
	HL_E(dstuPointRecover(pt1, params, xpt), "dstuPointRecover");
	HL_EQ(pt, pt1, 2 * fo, "dstu-recover");
	/* keys and signature */
	d = hl_m(oo), q = hl_m(2 * fo), h = hl_r(hl);
	ld = 16 * oo;
	sig = hl_m(ld / 8);
	HL_E(dstuKeypairGen(d, q, params, rng, rs), "dstuKeypairGen");
	HL_E(dstuSign(sig, params, ld, h, hl, d, rng, rs), "dstuSign");
	HL_E(dstuVerify(params, ld, h, hl, sig, q), "dstuVerify");
	return 0;
}

/* ---------------------------------------------------------------- g12s */

static const char* hl_g12s_names_[] = {
	"1.2.643.2.2.35.0", "1.2.643.2.2.35.1", "1.2.643.2.2.35.2", "1.2.643.2.2.35.3",
	"1.2.643.2.9.1.8.1", "1.2.643.7.1.2.1.2.0", "1.2.643.7.1.2.1.2.1", "1.2.643.7.1.2.1.2.2",
};

/* g12s seed params(0..7) rng val(1: g12sParamsVal too) */
static int hl_g12s(size_t np, const size_t* p)
{
	size_t no, mo;
	g12s_params* params;
	octet *d, *q, *h, *sig;
	gen_i rng = hl_rng_fn(p[2]);
	void* rs;
	hl_seed(p[0]);
	if (p[1] > 7) return hl_fail("bad-params", p[1]);
	rs = hl_rng_st(p[2]);
	params = (g12s_params*)hl_m(sizeof(g12s_params));
	HL_E(g12sParamsStd(params, hl_str(hl_g12s_names_[p[1]])), "g12sParamsStd");
	if (p[3])
		HL_E(g12sParamsVal(params), "g12sParamsVal");
	no = memNonZeroSize(params->p, G12S_FIELD_SIZE * params->l / 512);
	mo = params->l / 8;		/* the code uses O_OF_B(l) octets of privkey (g12s.h says l / 4) */
	d = hl_m(mo), q = hl_m(2 * no), h = hl_r(mo), sig = hl_m(2 * mo);
	HL_E(g12sKeypairGen(d, q, params, rng, rs), "g12sKeypairGen");
	HL_E(g12sSign(sig, params, h, d, rng, rs), "g12sSign");
	HL_E(g12sVerify(params, h, sig, q), "g12sVerify");
	return 0;
}

/* ---------------------------------------------------------------- pfok */

static const char* hl_pfok_names_[] = {
	"test", "1.2.112.0.2.0.1176.2.3.3.2", "1.2.112.0.2.0.1176.2.3.6.2", "1.2.112.0.2.0.1176.2.3.10.2",
};
static void hl_pfok_on_q(const word q[], size_t n, size_t num) {}

/* pfok seed params(0..3) rng mode(0: keys/DH/MTI, 1: + ParamsVal, 2: seed/ParamsGen) */
static int hl_pfok(size_t np, const size_t* p)
{
	pfok_params *params, *params1;
	pfok_seed *seed, *seed1;
	octet *da, *qa, *db, *qb, *ua, *va, *ub, *vb, *q1, *k1, *k2;
	size_t lo, ro, no_;
	gen_i rng = hl_rng_fn(p[2]);
	void* rs;
	hl_seed(p[0]);
	if (p[1] > 3) return hl_fail("bad-params", p[1]);
	rs = hl_rng_st(p[2]);
	params = (pfok_params*)hl_m(sizeof(pfok_params));
	seed = (pfok_seed*)hl_m(sizeof(pfok_seed));
	HL_E(pfokParamsStd(params, seed, hl_str(hl_pfok_names_[p[1]])), "pfokParamsStd");
	HL_E(pfokSeedVal(seed), "pfokSeedVal");
	if (p[3] == 2)
	{
		seed1 = (pfok_seed*)hl_m(sizeof(pfok_seed));
		memset(seed1, 0, sizeof(pfok_seed));
		seed1->l = params->l;
		HL_E(pfokSeedAdj(seed1), "pfokSeedAdj");
		HL_E(pfokSeedVal(seed1), "pfokSeedVal-adj");
		params1 = (pfok_params*)hl_m(sizeof(pfok_params));
		HL_E(pfokParamsGen(params1, seed, hl_pfok_on_q), "pfokParamsGen");
		HL_T(params1->l == params->l && params1->r == params->r && params1->n == params->n, "pfokParamsGen-lrn");
		HL_EQ(params1->p, params->p, O_OF_B(params->l), "pfokParamsGen-p");
		return 0;
	}
	if (p[3] == 1)
		HL_E(pfokParamsVal(params), "pfokParamsVal");
	lo = O_OF_B(params->l), ro = O_OF_B(params->r), no_ = O_OF_B(params->n);
	da = hl_m(ro), qa = hl_m(lo), db = hl_m(ro), qb = hl_m(lo);
	ua = hl_m(ro), va = hl_m(lo), ub = hl_m(ro), vb = hl_m(lo);
	HL_E(pfokKeypairGen(da, qa, params, rng, rs), "pfokKeypairGen-a");
	HL_E(pfokKeypairGen(db, qb, params, rng, rs), "pfokKeypairGen-b");
	HL_E(pfokKeypairGen(ua, va, params, rng, rs), "pfokKeypairGen-ua");
	HL_E(pfokKeypairGen(ub, vb, params, rng, rs), "pfokKeypairGen-ub");
	HL_E(pfokPubkeyVal(params, qa), "pfokPubkeyVal");
	q1 = hl_m(lo);
	HL_E(pfokPubkeyCalc(q1, params, da), "pfokPubkeyCalc");
	HL_EQ(q1, qa, lo, "pfok-pubkey");
	k1 = hl_m(no_), k2 = hl_m(no_);
	HL_E(pfokDH(k1, params, da, qb), "pfokDH-a");
	HL_E(pfokDH(k2, params, db, qa), "pfokDH-b");
	HL_EQ(k1, k2, no_, "pfok-dh");
	HL_E(pfokMTI(k1, params, da, ua, qb, vb), "pfokMTI-a");
	HL_E(pfokMTI(k2, params, db, ub, qa, va), "pfokMTI-b");
	HL_EQ(k1, k2, no_, "pfok-mti");
	return 0;
}

/* ---------------------------------------------------------------- stb99 */

static const char* hl_stb99_names_[] = {
	"test", "1.2.112.0.2.0.1176.2.3.3.1", "1.2.112.0.2.0.1176.2.3.6.1", "1.2.112.0.2.0.1176.2.3.10.1",
};

/* stb99 seed params(0..3) mode(0: Std + seed, 1: + ParamsVal, 2: + ParamsGen) */
static int hl_stb99(size_t np, const size_t* p)
{
	stb99_params *params, *params1;
	stb99_seed *seed, *seed1;
	hl_seed(p[0]);
	if (p[1] > 3) return hl_fail("bad-params", p[1]);
	params = (stb99_params*)hl_m(sizeof(stb99_params));
	seed = (stb99_seed*)hl_m(sizeof(stb99_seed));
	HL_E(stb99ParamsStd(params, seed, hl_str(hl_stb99_names_[p[1]])), "stb99ParamsStd");
	HL_E(stb99SeedVal(seed), "stb99SeedVal");
	seed1 = (stb99_seed*)hl_m(sizeof(stb99_seed));
	memset(seed1, 0, sizeof(stb99_seed));
	seed1->l = params->l;
	HL_E(stb99SeedAdj(seed1), "stb99SeedAdj");
	HL_E(stb99SeedVal(seed1), "stb99SeedVal-adj");
	if (p[2] >= 1)
		HL_E(stb99ParamsVal(params), "stb99ParamsVal");
	if (p[2] >= 2)
	{
		params1 = (stb99_params*)hl_m(sizeof(stb99_params));
		HL_E(stb99ParamsGen(params1, seed), "stb99ParamsGen");
		HL_T(params1->l == params->l && params1->r == params->r, "stb99ParamsGen-lr");
		HL_EQ(params1->p, params->p, O_OF_B(params->l), "stb99ParamsGen-p");
		HL_EQ(params1->q, params->q, O_OF_B(params->r), "stb99ParamsGen-q");
		HL_EQ(params1->a, params->a, O_OF_B(params->l), "stb99ParamsGen-a");
	}
	return 0;
}


/* ---------------------------------------------------------------- dispatch */

typedef int (*hl_fn)(size_t np, const size_t* p);
static const struct { const char* name; hl_fn fn; size_t np; } hl_tab_[] = {
	{ "belt-ecb", hl_belt_ecb, 3 },
	{ "belt-cbc", hl_belt_cbc, 3 },
	{ "belt-cfb", hl_belt_cfb, 3 },
	{ "belt-ctr", hl_belt_ctr, 3 },
	{ "belt-mac", hl_belt_mac, 3 },
	{ "belt-dwp", hl_belt_dwp, 4 },
	{ "belt-che", hl_belt_che, 4 },
	{ "belt-kwp", hl_belt_kwp, 4 },
	{ "belt-wbl", hl_belt_wbl, 4 },
	{ "belt-hash", hl_belt_hash, 2 },
	{ "belt-hmac", hl_belt_hmac, 3 },
	{ "belt-krp", hl_belt_krp, 3 },
	{ "belt-bde", hl_belt_bde, 3 },
	{ "belt-sde", hl_belt_sde, 3 },
	{ "belt-fmt", hl_belt_fmt, 5 },
	{ "belt-pbkdf2", hl_belt_pbkdf2, 4 },
	{ "belt-kexp", hl_belt_kexp, 2 },
	{ "bash-hash", hl_bash_hash, 3 },
	{ "bash-f", hl_bash_f, 2 },
	{ "bash-prg", hl_bash_prg, 6 },
	{ "brng-ctr", hl_brng_ctr, 3 },
	{ "brng-hmac", hl_brng_hmac, 4 },
	{ "botp-hotp", hl_botp_hotp, 3 },
	{ "botp-totp", hl_botp_totp, 4 },
	{ "botp-ocra", hl_botp_ocra, 5 },
	{ "bels-std", hl_bels_std, 2 },
	{ "bels-val", hl_bels_val, 3 },
	{ "bels-genm0", hl_bels_genm0, 3 },
	{ "bels-genmi", hl_bels_genmi, 3 },
	{ "bels-genmid", hl_bels_genmid, 3 },
	{ "bels-share", hl_bels_share, 5 },
	{ "bign-params", hl_bign_pars, 2 },
	{ "bign-keys", hl_bign_keys, 4 },
	{ "bign-sign", hl_bign_sign, 4 },
	{ "bign-kwrap", hl_bign_kwrap, 5 },
	{ "bign-id", hl_bign_id, 4 },
	{ "bign96", hl_bign96, 3 },
	{ "bake-kdf", hl_bake_kdf, 4 },
	{ "bake-swu", hl_bake_swu, 2 },
	{ "bake-bmqv", hl_bake_bmqv, 7 },
	{ "bake-bsts", hl_bake_bsts, 6 },
	{ "bake-bpace", hl_bake_bpace, 7 },
	{ "btok-cvc", hl_btok_cvc, 6 },
	{ "btok-sm", hl_btok_sm, 4 },
	{ "btok-bauth", hl_btok_bauth, 7 },
	{ "dstu", hl_dstu, 4 },
	{ "g12s", hl_g12s, 4 },
	{ "pfok", hl_pfok, 4 },
	{ "stb99", hl_stb99, 3 },
};

static int c07_hl(int argc, char** argv)
{
	size_t i, k, p[8];
	if (argc < 2 || strcmp(argv[0], "hl") != 0) return 0;
	for (k = 0; k < sizeof(hl_tab_) / sizeof(hl_tab_[0]); ++k)
		if (strcmp(argv[1], hl_tab_[k].name) == 0) break;
	if (k == sizeof(hl_tab_) / sizeof(hl_tab_[0])) return 0;
	memset(p, 0, sizeof(p));
	if ((size_t)argc - 2 != hl_tab_[k].np || hl_tab_[k].np > 8)
	{
		printf("err bad-params %lu", (unsigned long)hl_tab_[k].np);
		return 1;
	}
	for (i = 0; i < hl_tab_[k].np; ++i)
		p[i] = (size_t)strtoull(argv[2 + i], 0, 10);
	hl_pool_n_ = 0;
	if (hl_tab_[k].fn(hl_tab_[k].np, p) == 0)
		printf("ok");
	hl_free_all();
	return 1;
}

#endif /* BEE2V_C07_HL_H */

/* C12 harness: validators of the real library, one op per line (protocol: docs/C12.md).
   src/math/pri.c is compiled into this TU so that the candidate bases of priRMTest can be
   supplied on the op line (zzRandNZMod is replaced by a tape reader while a tape is active;
   otherwise it is the real generator).  Everything else is the library built from /repo. */
#pragma GCC optimize ("no-strict-aliasing")
#include <bee2/defs.h>
#include <bee2/core/mem.h>
#include <bee2/core/blob.h>
#include <bee2/core/err.h>
#include <bee2/core/tm.h>
#include <bee2/core/mt.h>
#include <bee2/core/obj.h>
#include <bee2/core/util.h>
#include <bee2/core/prng.h>
#include <bee2/math/ww.h>
#include <bee2/math/zz.h>
#include <bee2/math/zm.h>
#include <bee2/math/qr.h>
#include <bee2/math/pri.h>
#include <bee2/math/pp.h>
#include <bee2/math/gf2.h>
#include <bee2/math/gfp.h>
#include <bee2/math/ec.h>
#include <bee2/math/ecp.h>
#include <bee2/math/ec2.h>
#include <bee2/crypto/bign.h>
#include <bee2/crypto/bign96.h>
#include <bee2/crypto/g12s.h>
#include <bee2/crypto/stb99.h>
#include <bee2/crypto/dstu.h>
#include <bee2/crypto/pfok.h>
#include <bee2/crypto/bels.h>
#include <stdio.h>
#include <stdlib.h>
#include <string.h>

/* ---- tape of candidate bases for priRMTest ---- */
static const unsigned char* c12_tape;	/* plain values, c12_el octets each (little-endian) */
static size_t c12_left, c12_el;
static int c12_tape_on;
static qr_o* c12_qr;					/* the ring most recently created inside pri.c */

static bool_t c12_zzRandNZMod(word a[], const word mod[], size_t n, gen_i rng, void* st)
{
	word tmp[130];
	unsigned char oct[130 * 8];
	static word stk[4096];
	if (!c12_tape_on)
		return zzRandNZMod(a, mod, n, rng, st);
	if (c12_left < c12_el || c12_el > 128 * 8 || c12_qr == 0)
		return FALSE;
	memset(tmp, 0, sizeof tmp);
	wwFrom(tmp, c12_tape, c12_el);
	c12_tape += c12_el, c12_left -= c12_el;
	/* plain b -> representation of the ring (Montgomery form when the ring is a Montgomery one) */
	wwTo(oct, c12_qr->no, tmp);
	if (!qrFrom(a, oct, c12_qr, stk))
		return FALSE;
	return TRUE;
}
/* (zm.h has no effective include guard: an object-like macro keeps its re-inclusion harmless) */
void c12_zmCreate(qr_o* r, const octet mod[], size_t no, void* stack)
{
	c12_qr = r;
	zmCreate(r, mod, no, stack);
}
#define zzRandNZMod c12_zzRandNZMod
#define zmCreate c12_zmCreate
#include "math/pri.c"
#undef zzRandNZMod
#undef zmCreate

static void handle(int argc, char** argv);
#include "common.h"

static word g_stack[1 << 16];

static int chkW(const char* s)
{
	return (int)u_arg(s) == (int)B_PER_W;
}

/* big number argument: LE hex -> words; returns word count W_OF_O(len) (at least 1) */
static size_t num_arg(word* w, size_t maxw, const char* s, size_t* no)
{
	size_t len, n;
	unsigned char* p = hex_arg(s, &len);
	n = W_OF_O(len);
	if (n == 0) n = 1;
	if (n > maxw) { fprintf(stderr, "number too long\n"); exit(3); }
	memset(w, 0, n * sizeof(word));
	wwFrom(w, p, len);
	hex_free(p, len);
	*no = len;
	return n;
}

static void put_num(const word* w, size_t no)
{
	unsigned char oct[1200];
	wwTo(oct, no, w);
	put_hex(oct, no);
}

static void op_pri(int argc, char** argv)
{
	static word a[160], p[160];
	size_t n, no;
	if (!strcmp(argv[0], "primew") && argc == 3)
	{
		printf("%d", priIsPrimeW((word)u_arg(argv[2]), g_stack) ? 1 : 0);
	}
	else if (!strcmp(argv[0], "nextw") && argc == 3)
	{
		word q[1];
		q[0] = 0;
		if (priNextPrimeW(q, (word)u_arg(argv[2]), g_stack))
			printf("1 %llu", (unsigned long long)q[0]);
		else
			printf("0");
	}
	else if (!strcmp(argv[0], "sieved") && argc == 4)
	{
		n = num_arg(a, 128, argv[2], &no);
		printf("%d", priIsSieved(a, n, (size_t)u_arg(argv[3]), g_stack) ? 1 : 0);
	}
	else if (!strcmp(argv[0], "smooth") && argc == 4)
	{
		n = num_arg(a, 128, argv[2], &no);
		if (wwIsZero(a, n)) { printf("refused"); return; }
		printf("%d", priIsSmooth(a, n, (size_t)u_arg(argv[3]), g_stack) ? 1 : 0);
	}
	else if (!strcmp(argv[0], "basemod") && argc == 4)
	{
		static word mods[1024];
		size_t count = (size_t)u_arg(argv[3]), i;
		if (count > priBaseSize()) { printf("bad-op"); return; }
		n = num_arg(a, 128, argv[2], &no);
		priBaseMod(mods, a, n, count);
		printf("%u", (unsigned)count);
		for (i = 0; i < count; ++i)
			printf(" %llu", (unsigned long long)mods[i]);
	}
	else if (!strcmp(argv[0], "rm") && argc == 5)
	{
		size_t tl;
		unsigned char* t = hex_arg(argv[4], &tl);
		bool_t r;
		n = num_arg(a, 128, argv[2], &no);
		c12_tape = t, c12_left = tl, c12_el = no, c12_tape_on = 1, c12_qr = 0;
		r = priRMTest(a, n, (size_t)u_arg(argv[3]), g_stack);
		c12_tape_on = 0;
		printf("%d %u", r ? 1 : 0, (unsigned)(no ? c12_left / no : 0));
		hex_free(t, tl);
	}
	else if (!strcmp(argv[0], "nextp") && argc == 7)
	{
		size_t tl, trials, bc;
		unsigned char* t = hex_arg(argv[6], &tl);
		bool_t r;
		n = num_arg(a, 128, argv[2], &no);
		trials = strcmp(argv[3], "max") ? (size_t)u_arg(argv[3]) : SIZE_MAX;
		bc = (size_t)u_arg(argv[4]);
		if (bc > priBaseSize()) { printf("bad-op"); return; }
		c12_tape = t, c12_left = tl, c12_el = no, c12_tape_on = 1, c12_qr = 0;
		r = priNextPrime(p, a, n, trials, bc, (size_t)u_arg(argv[5]), g_stack);
		c12_tape_on = 0;
		if (r)
			printf("1 "), put_num(p, no);
		else
			printf("0");
		hex_free(t, tl);
	}
	else if (!strcmp(argv[0], "sg") && argc == 3)
	{
		n = num_arg(a, 128, argv[2], &no);
		if (zzIsEven(a, n) || wwCmpW(a, n, 1) <= 0) { printf("refused"); return; }
		n = wwWordSize(a, n);
		printf("%d", priIsSGPrime(a, n, g_stack) ? 1 : 0);
	}
	else
		printf("bad-op");
}


/* ---- parameter structures from op arguments ---- */
static int fill(octet* dst, size_t cap, const char* s)
{
	size_t len;
	unsigned char* p = hex_arg(s, &len);
	if (len > cap) { hex_free(p, len); return 0; }
	memset(dst, 0, cap);
	memcpy(dst, p, len);
	hex_free(p, len);
	return 1;
}

static size_t list_arg(size_t* dst, size_t cap, const char* s)
{
	size_t k = 0;
	memset(dst, 0, cap * sizeof(size_t));
	if (strcmp(s, "-") == 0) return 0;
	while (*s && k < cap)
	{
		dst[k++] = (size_t)strtoull(s, (char**)&s, 10);
		if (*s == ',') ++s;
	}
	return k;
}

static int bign_from(bign_params* bp, char** a)
{
	memset(bp, 0, sizeof *bp);
	bp->l = (size_t)u_arg(a[0]);
	return fill(bp->p, 64, a[1]) && fill(bp->a, 64, a[2]) && fill(bp->b, 64, a[3]) &&
		fill(bp->seed, 8, a[4]) && fill(bp->q, 64, a[5]) && fill(bp->yG, 64, a[6]);
}

static void put_bign(const bign_params* bp)
{
	printf("%u ", (unsigned)bp->l);
	put_hex(bp->p, 64); printf(" "); put_hex(bp->a, 64); printf(" "); put_hex(bp->b, 64); printf(" ");
	put_hex(bp->seed, 8); printf(" "); put_hex(bp->q, 64); printf(" "); put_hex(bp->yG, 64);
}

static int g12s_from(g12s_params* gp, char** a)
{
	memset(gp, 0, sizeof *gp);
	gp->l = (u32)u_arg(a[0]);
	gp->n = (u32)u_arg(a[5]);
	return fill(gp->p, sizeof gp->p, a[1]) && fill(gp->a, sizeof gp->a, a[2]) && fill(gp->b, sizeof gp->b, a[3]) &&
		fill(gp->q, sizeof gp->q, a[4]) && fill(gp->xP, sizeof gp->xP, a[6]) && fill(gp->yP, sizeof gp->yP, a[7]);
}

static int dstu_from(dstu_params* dp, char** a)
{
	memset(dp, 0, sizeof *dp);
	dp->p[0] = (u16)u_arg(a[0]); dp->p[1] = (u16)u_arg(a[1]); dp->p[2] = (u16)u_arg(a[2]); dp->p[3] = (u16)u_arg(a[3]);
	dp->A = (octet)u_arg(a[4]);
	dp->c = (u32)u_arg(a[7]);
	return fill(dp->B, sizeof dp->B, a[5]) && fill(dp->n, sizeof dp->n, a[6]) && fill(dp->P, sizeof dp->P, a[8]);
}

static int stb99_from(stb99_params* sp, char** a)
{
	memset(sp, 0, sizeof *sp);
	sp->l = (size_t)u_arg(a[0]); sp->r = (size_t)u_arg(a[1]);
	return fill(sp->p, sizeof sp->p, a[2]) && fill(sp->q, sizeof sp->q, a[3]) && fill(sp->a, sizeof sp->a, a[4]) &&
		fill(sp->d, sizeof sp->d, a[5]);
}

static void put_u16s(const u16* z, size_t k)
{
	size_t i;
	for (i = 0; i < k; ++i) printf("%s%u", i ? "," : "", (unsigned)z[i]);
}

static void put_sizes(const size_t* z, size_t k)
{
	size_t i;
	for (i = 0; i < k; ++i) printf("%s%llu", i ? "," : "", (unsigned long long)z[i]);
}

static void u16s_arg(u16* dst, size_t cap, const char* s)
{
	size_t t[64], k, i;
	k = list_arg(t, cap < 64 ? cap : 64, s);
	memset(dst, 0, cap * sizeof(u16));
	for (i = 0; i < k; ++i) dst[i] = (u16)t[i];
}

static void stb99_seed_from(stb99_seed* sd, char** a)
{
	memset(sd, 0, sizeof *sd);
	sd->l = (size_t)u_arg(a[0]);
	u16s_arg(sd->zi, 31, a[1]);
	list_arg(sd->di, 18, a[2]);
	list_arg(sd->ri, 10, a[3]);
}

static void put_stb99_seed(const stb99_seed* sd)
{
	printf("%llu ", (unsigned long long)sd->l); put_u16s(sd->zi, 31); printf(" "); put_sizes(sd->di, 18); printf(" "); put_sizes(sd->ri, 10);
}

static void put_stb99(const stb99_params* sp)
{
	printf("%llu %llu ", (unsigned long long)sp->l, (unsigned long long)sp->r);
	put_hex(sp->p, sizeof sp->p); printf(" "); put_hex(sp->q, sizeof sp->q); printf(" ");
	put_hex(sp->a, sizeof sp->a); printf(" "); put_hex(sp->d, sizeof sp->d);
}

static int pfok_from(pfok_params* pp, char** a)
{
	memset(pp, 0, sizeof *pp);
	pp->l = (size_t)u_arg(a[0]); pp->r = (size_t)u_arg(a[1]); pp->n = (size_t)u_arg(a[2]);
	return fill(pp->p, sizeof pp->p, a[3]) && fill(pp->g, sizeof pp->g, a[4]);
}

static void pfok_seed_from(pfok_seed* sd, char** a)
{
	memset(sd, 0, sizeof *sd);
	sd->l = (size_t)u_arg(a[0]);
	u16s_arg(sd->zi, 31, a[1]);
	list_arg(sd->li, 20, a[2]);
}

static void op_std(int argc, char** argv)
{
	err_t code;
	if (argc != 3) { printf("bad-op"); return; }
	if (!strcmp(argv[1], "bign") || !strcmp(argv[1], "bign96"))
	{
		bign_params bp[1];
		code = strcmp(argv[1], "bign") ? bign96ParamsStd(bp, argv[2]) : bignParamsStd(bp, argv[2]);
		printf("%u ", (unsigned)code);
		if (code == ERR_OK) put_bign(bp);
	}
	else if (!strcmp(argv[1], "g12s"))
	{
		g12s_params gp[1];
		code = g12sParamsStd(gp, argv[2]);
		printf("%u ", (unsigned)code);
		if (code != ERR_OK) return;
		printf("%u ", (unsigned)gp->l);
		put_hex(gp->p, sizeof gp->p); printf(" "); put_hex(gp->a, sizeof gp->a); printf(" "); put_hex(gp->b, sizeof gp->b); printf(" ");
		put_hex(gp->q, sizeof gp->q); printf(" %u ", (unsigned)gp->n);
		put_hex(gp->xP, sizeof gp->xP); printf(" "); put_hex(gp->yP, sizeof gp->yP);
	}
	else if (!strcmp(argv[1], "dstu"))
	{
		dstu_params dp[1];
		code = dstuParamsStd(dp, argv[2]);
		printf("%u ", (unsigned)code);
		if (code != ERR_OK) return;
		printf("%u %u %u %u %u ", dp->p[0], dp->p[1], dp->p[2], dp->p[3], dp->A);
		put_hex(dp->B, sizeof dp->B); printf(" "); put_hex(dp->n, sizeof dp->n); printf(" %u ", (unsigned)dp->c);
		put_hex(dp->P, sizeof dp->P);
	}
	else if (!strcmp(argv[1], "stb99"))
	{
		stb99_params sp[1]; stb99_seed sd[1];
		code = stb99ParamsStd(sp, sd, argv[2]);
		printf("%u ", (unsigned)code);
		if (code != ERR_OK) return;
		put_stb99(sp); printf(" "); put_stb99_seed(sd);
	}
	else if (!strcmp(argv[1], "pfok"))
	{
		pfok_params pp[1]; pfok_seed sd[1];
		code = pfokParamsStd(pp, sd, argv[2]);
		printf("%u ", (unsigned)code);
		if (code != ERR_OK) return;
		printf("%llu %llu %llu ", (unsigned long long)pp->l, (unsigned long long)pp->r, (unsigned long long)pp->n);
		put_hex(pp->p, sizeof pp->p); printf(" "); put_hex(pp->g, sizeof pp->g);
		printf(" %llu ", (unsigned long long)sd->l); put_u16s(sd->zi, 31); printf(" "); put_sizes(sd->li, 20);
	}
	else
		printf("bad-op");
}

/* generic curve over GF(p): ecpgroup <p> <a> <b> <xG> <yG> <q> <cofactor> <mov>  (octet strings of the length of p)
   -> "<created> <ecpIsValid> <ecpSeemsValidGroup> <ecpIsSafeGroup> <ecHasOrderA>" */
static void op_ecpgroup(int argc, char** argv)
{
	size_t no, l2, n;
	unsigned char *p, *a, *b, *x, *y, *q;
	size_t la, lb, lx, ly, lq;
	void* state; qr_o* f; ec_o* ec; void* stack;
	size_t f_keep, f_deep, ec_keep, ec_deep;
	if (argc != 9) { printf("bad-op"); return; }
	p = hex_arg(argv[1], &no); a = hex_arg(argv[2], &la); b = hex_arg(argv[3], &lb);
	x = hex_arg(argv[4], &lx); y = hex_arg(argv[5], &ly); q = hex_arg(argv[6], &lq);
	if (no == 0 || p[no - 1] == 0 || la != no || lb != no || lx != no || ly != no) { printf("bad-op"); return; }
	n = W_OF_O(no);
	f_keep = gfpCreate_keep(no); f_deep = gfpCreate_deep(no);
	ec_keep = ecpCreateJ_keep(n); ec_deep = ecpCreateJ_deep(n, f_deep);
	l2 = utilMax(6, ec_deep, ecCreateGroup_deep(f_deep), ecpIsValid_deep(n, f_deep), ecpSeemsValidGroup_deep(n, f_deep),
		ecpIsSafeGroup_deep(n), ecHasOrderA_deep(n, 3, ec_deep, n + 1));
	state = blobCreate(f_keep + ec_keep + l2);
	f = (qr_o*)((octet*)state + ec_keep);
	stack = (octet*)f + f_keep;
	ec = (ec_o*)state;
	if (!gfpCreate(f, p, no, stack) || !ecpCreateJ(ec, f, a, b, stack) ||
		!ecCreateGroup(ec, x, y, q, lq, (u32)u_arg(argv[7]), stack))
		printf("0");
	else
	{
		int v, s, g, h;
		objAppend(ec, f, 0);
		stack = objEnd(ec, void);
		v = ecpIsValid(ec, stack);
		s = ecpSeemsValidGroup(ec, stack);
		g = ecpIsSafeGroup(ec, (size_t)u_arg(argv[8]), stack);
		/* the order of a point is only asked for points of a valid curve */
		if (v && ecpIsOnA(ec->base, ec, stack))
		{
			h = ecHasOrderA(ec->base, ec, ec->order, ec->f->n + 1, stack);
			printf("1 %d %d %d %d", v, s, g, h);
		}
		else
			printf("1 %d %d %d x", v, s, g);
	}
	blobClose(state);
	hex_free(p, no); hex_free(a, la); hex_free(b, lb); hex_free(x, lx); hex_free(y, ly); hex_free(q, lq);
}

/* generic curve over GF(2^m): ec2group <m> <k1> <k2> <k3> <A> <B> <xG> <yG> <q> <cofactor> <mov> */
static void op_ec2group(int argc, char** argv)
{
	size_t m, n, no, l2;
	size_t pd[4];
	unsigned char *a, *b, *x, *y, *q;
	size_t la, lb, lx, ly, lq;
	void* state; qr_o* f; ec_o* ec; void* stack;
	size_t f_keep, f_deep, ec_keep, ec_deep;
	if (argc != 12) { printf("bad-op"); return; }
	m = (size_t)u_arg(argv[1]);
	pd[0] = m; pd[1] = (size_t)u_arg(argv[2]); pd[2] = (size_t)u_arg(argv[3]); pd[3] = (size_t)u_arg(argv[4]);
	a = hex_arg(argv[5], &la); b = hex_arg(argv[6], &lb); x = hex_arg(argv[7], &lx); y = hex_arg(argv[8], &ly);
	q = hex_arg(argv[9], &lq);
	n = W_OF_B(m); no = O_OF_B(m);
	if (m < 2 || m > 600 || la != no || lb != no || lx != no || ly != no) { printf("bad-op"); return; }
	f_keep = gf2Create_keep(m); f_deep = gf2Create_deep(m);
	ec_keep = ec2CreateLD_keep(n); ec_deep = ec2CreateLD_deep(n, f_deep);
	l2 = utilMax(6, ec_deep, ecCreateGroup_deep(f_deep), ec2IsValid_deep(n), ec2SeemsValidGroup_deep(n, f_deep),
		ec2IsSafeGroup_deep(n), ecHasOrderA_deep(n, 3, ec_deep, n + 1));
	state = blobCreate(f_keep + ec_keep + l2 + 64);
	f = (qr_o*)((octet*)state + ec_keep);
	stack = (octet*)f + f_keep;
	ec = (ec_o*)state;
	if (!gf2Create(f, pd, stack) || !ec2CreateLD(ec, f, a, b, stack) ||
		!ecCreateGroup(ec, x, y, q, lq, (u32)u_arg(argv[10]), stack))
		printf("0");
	else
	{
		int v, s, g, h;
		objAppend(ec, f, 0);
		stack = objEnd(ec, void);
		v = ec2IsValid(ec, stack);
		s = ec2SeemsValidGroup(ec, stack);
		g = ec2IsSafeGroup(ec, (size_t)u_arg(argv[11]), stack);
		h = ecHasOrderA(ec->base, ec, ec->order, ec->f->n + 1, stack);
		printf("1 %d %d %d %d", v, s, g, h);
	}
	blobClose(state);
	hex_free(a, la); hex_free(b, lb); hex_free(x, lx); hex_free(y, ly); hex_free(q, lq);
}

static void op_val(int argc, char** argv)
{
	const char* op = argv[0];
	if ((!strcmp(op, "bignval") || !strcmp(op, "bign96val")) && argc == 8)
	{
		bign_params bp[1];
		if (!bign_from(bp, argv + 1)) { printf("bad-op"); return; }
		printf("%u", (unsigned)(op[4] == '9' ? bign96ParamsVal(bp) : bignParamsVal(bp)));
	}
	else if ((!strcmp(op, "bignpub") || !strcmp(op, "bign96pub")) && argc == 9)
	{
		bign_params bp[1]; size_t len; unsigned char* pk;
		if (!bign_from(bp, argv + 1)) { printf("bad-op"); return; }
		pk = hex_arg(argv[8], &len);
		if (len != (op[4] == '9' ? 48 : bp->l / 2) && (bp->l == 128 || bp->l == 192 || bp->l == 256 || op[4] == '9'))
			printf("bad-op");
		else
			printf("%u", (unsigned)(op[4] == '9' ? bign96PubkeyVal(bp, pk) : bignPubkeyVal(bp, pk)));
		hex_free(pk, len);
	}
	else if ((!strcmp(op, "bignkp") || !strcmp(op, "bign96kp")) && argc == 10)
	{
		bign_params bp[1]; size_t ld, lq; unsigned char *d, *Q;
		if (!bign_from(bp, argv + 1)) { printf("bad-op"); return; }
		d = hex_arg(argv[8], &ld); Q = hex_arg(argv[9], &lq);
		if ((op[4] == '9' && (ld != 24 || lq != 48)) || (op[4] != '9' && (ld != bp->l / 4 || lq != bp->l / 2) &&
			(bp->l == 128 || bp->l == 192 || bp->l == 256)))
			printf("bad-op");
		else
			printf("%u", (unsigned)(op[4] == '9' ? bign96KeypairVal(bp, d, Q) : bignKeypairVal(bp, d, Q)));
		hex_free(d, ld); hex_free(Q, lq);
	}
	else if (!strcmp(op, "bignpubcalc") && argc == 9)
	{
		bign_params bp[1]; size_t ld; unsigned char* d; octet Q[128]; err_t code;
		if (!bign_from(bp, argv + 1)) { printf("bad-op"); return; }
		d = hex_arg(argv[8], &ld);
		if (ld != bp->l / 4) { printf("bad-op"); hex_free(d, ld); return; }
		code = bignPubkeyCalc(Q, bp, d);
		printf("%u ", (unsigned)code);
		if (code == ERR_OK) put_hex(Q, bp->l / 2); else printf("-");
		hex_free(d, ld);
	}
	else if (!strcmp(op, "g12sval") && argc == 9)
	{
		g12s_params gp[1];
		if (!g12s_from(gp, argv + 1)) { printf("bad-op"); return; }
		printf("%u", (unsigned)g12sParamsVal(gp));
	}
	else if (!strcmp(op, "dstuval") && argc == 10)
	{
		dstu_params dp[1];
		if (!dstu_from(dp, argv + 1)) { printf("bad-op"); return; }
		printf("%u", (unsigned)dstuParamsVal(dp));
	}
	else if (!strcmp(op, "dstupoint") && argc == 11)
	{
		dstu_params dp[1]; size_t len; unsigned char* pt;
		if (!dstu_from(dp, argv + 1)) { printf("bad-op"); return; }
		pt = hex_arg(argv[10], &len);
		if (dp->p[0] < 160 || dp->p[0] > 509 || len != 2 * O_OF_B(dp->p[0])) printf("bad-op");
		else printf("%u", (unsigned)dstuPointVal(dp, pt));
		hex_free(pt, len);
	}
	else if (!strcmp(op, "stb99val") && argc == 7)
	{
		stb99_params sp[1];
		if (!stb99_from(sp, argv + 1)) { printf("bad-op"); return; }
		printf("%u", (unsigned)stb99ParamsVal(sp));
	}
	else if ((!strcmp(op, "stb99seedval") || !strcmp(op, "stb99seedadj") || !strcmp(op, "stb99gen")) && argc == 5)
	{
		stb99_seed sd[1]; err_t code;
		stb99_seed_from(sd, argv + 1);
		if (op[9] == 'v') printf("%u", (unsigned)stb99SeedVal(sd));
		else if (op[9] == 'a')
		{
			code = stb99SeedAdj(sd);
			printf("%u ", (unsigned)code);
			put_stb99_seed(sd);
		}
		else
		{
			stb99_params sp[1];
			code = stb99ParamsGen(sp, sd);
			printf("%u ", (unsigned)code);
			if (code == ERR_OK) put_stb99(sp); else printf("-");
		}
	}
	else if (!strcmp(op, "pfokval") && argc == 6)
	{
		pfok_params pp[1];
		if (!pfok_from(pp, argv + 1)) { printf("bad-op"); return; }
		printf("%u", (unsigned)pfokParamsVal(pp));
	}
	else if (!strcmp(op, "pfokpub") && argc == 7)
	{
		pfok_params pp[1]; size_t len; unsigned char* pk;
		if (!pfok_from(pp, argv + 1)) { printf("bad-op"); return; }
		pk = hex_arg(argv[6], &len);
		if (len != O_OF_B(pp->l) && pp->l < 4000) printf("bad-op");
		else printf("%u", (unsigned)pfokPubkeyVal(pp, pk));
		hex_free(pk, len);
	}
	else if ((!strcmp(op, "pfokseedval") || !strcmp(op, "pfokseedadj")) && argc == 4)
	{
		pfok_seed sd[1]; err_t code;
		pfok_seed_from(sd, argv + 1);
		if (op[8] == 'v') printf("%u", (unsigned)pfokSeedVal(sd));
		else
		{
			code = pfokSeedAdj(sd);
			printf("%u %llu ", (unsigned)code, (unsigned long long)sd->l); put_u16s(sd->zi, 31); printf(" "); put_sizes(sd->li, 20);
		}
	}
	else if (!strcmp(op, "belsval") && argc == 2)
	{
		size_t len; unsigned char* m0 = hex_arg(argv[1], &len);
		printf("%u", (unsigned)belsValM(m0, len));
		hex_free(m0, len);
	}
	else if (!strcmp(op, "belsstd") && argc == 3)
	{
		octet m[32]; size_t len = (size_t)u_arg(argv[1]); err_t code;
		if (len > 32) { printf("bad-op"); return; }
		code = belsStdM(m, len, (size_t)u_arg(argv[2]));
		printf("%u ", (unsigned)code);
		if (code == ERR_OK) put_hex(m, len); else printf("-");
	}
	else if (!strcmp(op, "irred") && argc == 2)
	{
		static word f[160]; size_t n, no; void* st;
		n = num_arg(f, 128, argv[1], &no);
		st = blobCreate(ppIsIrred_deep(n) + 16 * O_OF_W(n) + 256);
		printf("%d", ppIsIrred(f, n, st) ? 1 : 0);
		blobClose(st);
	}
	else
		printf("bad-op");
}

/* all binary polynomials of degree d (compact protocol): irredsweep <d> -> bit string over the 2^d polynomials
   x^d + c (c = 0 … 2^d - 1), '1' = ppIsIrred says irreducible */
static void op_irredsweep(int argc, char** argv)
{
	size_t d, c;
	word f[2]; void* st;
	if (argc != 2 || (d = (size_t)u_arg(argv[1])) > 20) { printf("bad-op"); return; }
	st = blobCreate(ppIsIrred_deep(1) + 16 * O_OF_W(1) + 256);
	for (c = 0; c < ((size_t)1 << d); ++c)
	{
		f[0] = ((word)1 << d) | (word)c;
		fputc(ppIsIrred(f, 1, st) ? '1' : '0', stdout);
	}
	blobClose(st);
}


/* ---- object predicates: a valid object is created, single fields are corrupted in place, every predicate is asked ----
   corruption tokens  name=value  (decimal; pointers: only =0 is meaningful):
   qr:  keep pcount ocount n no deep mod unity params from to add sub neg mul sqr inv div modtop modlow p0 p1 p2 p3
   ec:  keep pcount ocount d cofactor deep A B base order ordval froma toa neg add adda sub suba dbl dbla tpl, f.<qr token> */
static int corrupt_qr(qr_o* r, const char* tok)
{
	const char* eq = strchr(tok, '=');
	unsigned long long v;
	size_t k;
	if (!eq) return 0;
	k = (size_t)(eq - tok);
	v = strtoull(eq + 1, 0, 10);
#define IS(name) (k == strlen(name) && !strncmp(tok, name, k))
	if (IS("keep")) r->hdr.keep = (size_t)v;
	else if (IS("pcount")) r->hdr.p_count = (size_t)v;
	else if (IS("ocount")) r->hdr.o_count = (size_t)v;
	else if (IS("n")) r->n = (size_t)v;
	else if (IS("no")) r->no = (size_t)v;
	else if (IS("deep")) r->deep = (size_t)v;
	else if (IS("mod")) r->mod = 0;
	else if (IS("unity")) r->unity = 0;
	else if (IS("params")) r->params = 0;
	else if (IS("from")) r->from = 0;
	else if (IS("to")) r->to = 0;
	else if (IS("add")) r->add = 0;
	else if (IS("sub")) r->sub = 0;
	else if (IS("neg")) r->neg = 0;
	else if (IS("mul")) r->mul = 0;
	else if (IS("sqr")) r->sqr = 0;
	else if (IS("inv")) r->inv = 0;
	else if (IS("div")) r->div = 0;
	else if (IS("modtop")) r->mod[r->n - 1 + (size_t)(v >> 32)] = (word)(v & 0xFFFFFFFFu);	/* word n-1 (+hi) <- lo */
	else if (IS("modlow")) r->mod[0] = (word)v;
	else if (IS("p0")) ((size_t*)r->params)[0] = (size_t)v;
	else if (IS("p1")) ((size_t*)r->params)[1] = (size_t)v;
	else if (IS("p2")) ((size_t*)r->params)[2] = (size_t)v;
	else if (IS("p3")) ((size_t*)r->params)[3] = (size_t)v;
	else return 0;
	return 1;
}

static int corrupt_ec(ec_o* ec, qr_o* f, const char* tok)
{
	const char* eq = strchr(tok, '=');
	unsigned long long v;
	size_t k;
	if (!eq) return 0;
	if (!strncmp(tok, "f.", 2)) return corrupt_qr(f, tok + 2);
	k = (size_t)(eq - tok);
	v = strtoull(eq + 1, 0, 10);
	if (IS("keep")) ec->hdr.keep = (size_t)v;
	else if (IS("pcount")) ec->hdr.p_count = (size_t)v;
	else if (IS("ocount")) ec->hdr.o_count = (size_t)v;
	else if (IS("d")) ec->d = (size_t)v;
	else if (IS("cofactor")) ec->cofactor = (word)v;
	else if (IS("deep")) ec->deep = !strcmp(eq + 1, "f") ? f->deep : !strcmp(eq + 1, "f-1") ? f->deep - 1 : (size_t)v;
	else if (IS("A")) ec->A = 0;
	else if (IS("B")) ec->B = 0;
	else if (IS("base")) ec->base = 0;
	else if (IS("order")) ec->order = 0;
	else if (IS("ordval")) wwSetZero(ec->order, f->n + 1);
	else if (IS("froma")) ec->froma = 0;
	else if (IS("toa")) ec->toa = 0;
	else if (IS("neg")) ec->neg = 0;
	else if (IS("add")) ec->add = 0;
	else if (IS("adda")) ec->adda = 0;
	else if (IS("sub")) ec->sub = 0;
	else if (IS("suba")) ec->suba = 0;
	else if (IS("dbl")) ec->dbl = 0;
	else if (IS("dbla")) ec->dbla = 0;
	else if (IS("tpl")) ec->tpl = 0;
	else return 0;
	return 1;
#undef IS
}

/* obj gfp <p> tok…  -> qrIsOperable zmIsValid gfpIsOperable gfpIsValid
   obj gf2 <m> <k1> <k2> <k3> tok… -> qrIsOperable gf2IsOperable gf2IsValid
   obj ecp <p> <a> <b> <x> <y> <q> <cof> tok… / obj ec2 <m> <k1> <k2> <k3> <A> <B> <x> <y> <q> <cof> tok…
       -> ecIsOperable2 ecIsOperable ecIsOperableGroup  (the field predicates of ec->f too: qrIsOperable) */
static void op_obj(int argc, char** argv)
{
	int i;
	if (argc >= 3 && !strcmp(argv[1], "gfp"))
	{
		size_t no; unsigned char* p = hex_arg(argv[2], &no);
		void* state; qr_o* f; void* stack;
		if (no == 0 || p[no - 1] == 0) { printf("bad-op"); return; }
		state = blobCreate(gfpCreate_keep(no) + utilMax(2, gfpCreate_deep(no), gfpIsValid_deep(W_OF_O(no))) + 64);
		f = (qr_o*)state; stack = (octet*)f + gfpCreate_keep(no);
		if (!gfpCreate(f, p, no, stack)) { printf("0"); blobClose(state); hex_free(p, no); return; }
		for (i = 3; i < argc; ++i) if (!corrupt_qr(f, argv[i])) { printf("bad-op"); blobClose(state); return; }
		printf("1 %d %d %d %d", qrIsOperable(f), zmIsValid(f), gfpIsOperable(f), gfpIsValid(f, stack));
		blobClose(state); hex_free(p, no);
	}
	else if (argc >= 6 && !strcmp(argv[1], "gf2"))
	{
		size_t pd[4]; size_t m = (size_t)u_arg(argv[2]);
		void* state; qr_o* f; void* stack;
		pd[0] = m; pd[1] = (size_t)u_arg(argv[3]); pd[2] = (size_t)u_arg(argv[4]); pd[3] = (size_t)u_arg(argv[5]);
		if (m < 2 || m > 600) { printf("bad-op"); return; }
		state = blobCreate(gf2Create_keep(m) + utilMax(2, gf2Create_deep(m), gf2IsValid_deep(W_OF_B(m))) + 64);
		f = (qr_o*)state; stack = (octet*)f + gf2Create_keep(m);
		if (!gf2Create(f, pd, stack)) { printf("0"); blobClose(state); return; }
		for (i = 6; i < argc; ++i) if (!corrupt_qr(f, argv[i])) { printf("bad-op"); blobClose(state); return; }
		printf("1 %d %d %d", qrIsOperable(f), gf2IsOperable(f), gf2IsValid(f, stack));
		blobClose(state);
	}
	else if ((argc >= 9 && !strcmp(argv[1], "ecp")) || (argc >= 12 && !strcmp(argv[1], "ec2")))
	{
		int bin = argv[1][2] == '2';
		int first = bin ? 12 : 9;
		size_t no, n, m = 0, la, lb, lx, ly, lq;
		unsigned char *p = 0, *a, *b, *x, *y, *q;
		size_t pd[4];
		void* state; qr_o* f; ec_o* ec; void* stack;
		size_t f_keep, f_deep, ec_keep, ec_deep;
		u32 cof;
		if (bin)
		{
			m = (size_t)u_arg(argv[2]);
			pd[0] = m; pd[1] = (size_t)u_arg(argv[3]); pd[2] = (size_t)u_arg(argv[4]); pd[3] = (size_t)u_arg(argv[5]);
			if (m < 2 || m > 600) { printf("bad-op"); return; }
			no = O_OF_B(m); n = W_OF_B(m);
			a = hex_arg(argv[6], &la); b = hex_arg(argv[7], &lb); x = hex_arg(argv[8], &lx); y = hex_arg(argv[9], &ly);
			q = hex_arg(argv[10], &lq); cof = (u32)u_arg(argv[11]);
			f_keep = gf2Create_keep(m); f_deep = gf2Create_deep(m);
			ec_keep = ec2CreateLD_keep(n); ec_deep = ec2CreateLD_deep(n, f_deep);
		}
		else
		{
			p = hex_arg(argv[2], &no);
			if (no == 0 || p[no - 1] == 0) { printf("bad-op"); return; }
			n = W_OF_O(no);
			a = hex_arg(argv[3], &la); b = hex_arg(argv[4], &lb); x = hex_arg(argv[5], &lx); y = hex_arg(argv[6], &ly);
			q = hex_arg(argv[7], &lq); cof = (u32)u_arg(argv[8]);
			f_keep = gfpCreate_keep(no); f_deep = gfpCreate_deep(no);
			ec_keep = ecpCreateJ_keep(n); ec_deep = ecpCreateJ_deep(n, f_deep);
		}
		if (la != no || lb != no || lx != no || ly != no) { printf("bad-op"); return; }
		state = blobCreate(f_keep + ec_keep + utilMax(2, ec_deep, ecCreateGroup_deep(f_deep)) + 64);
		f = (qr_o*)((octet*)state + ec_keep);
		stack = (octet*)f + f_keep;
		ec = (ec_o*)state;
		if (!(bin ? gf2Create(f, pd, stack) : gfpCreate(f, p, no, stack)) ||
			!(bin ? ec2CreateLD(ec, f, a, b, stack) : ecpCreateJ(ec, f, a, b, stack)) ||
			!ecCreateGroup(ec, x, y, q, lq, cof, stack))
			printf("0");
		else
		{
			objAppend(ec, f, 0);
			f = (qr_o*)ec->f;
			for (i = first; i < argc; ++i) if (!corrupt_ec(ec, f, argv[i])) { printf("bad-op"); blobClose(state); return; }
			printf("1 %d %d %d %d", ecIsOperable2(ec), ecIsOperable(ec), ecIsOperableGroup(ec), qrIsOperable(ec->f));
		}
		blobClose(state);
	}
	else
		printf("bad-op");
}

/* on-curve predicates with non-canonical coordinates:
   ecpon <p> <a> <b> <x> <y> <kx> <ky>: the coordinates of the field representation plus kx·p / ky·p (must fit n words)
   ec2on <m> <k1> <k2> <k3> <A> <B> <x> <y> <hx> <hy>: x + hx(t)·f(t), y + hy(t)·f(t) (degree must fit n words) */
static word c12_pt[2 * 160];
static void op_on(int argc, char** argv)
{
	if (!strcmp(argv[0], "ecpon") && argc == 8)
	{
		size_t no, n, la, lb, lx, ly, k;
		unsigned char *p = hex_arg(argv[1], &no), *a = hex_arg(argv[2], &la), *b = hex_arg(argv[3], &lb),
			*x = hex_arg(argv[4], &lx), *y = hex_arg(argv[5], &ly);
		void* state; qr_o* f; ec_o* ec; void* stack; word* pt;
		size_t f_keep, f_deep, ec_keep, ec_deep;
		if (no == 0 || p[no - 1] == 0 || la != no || lb != no || lx != no || ly != no) { printf("bad-op"); return; }
		n = W_OF_O(no);
		f_keep = gfpCreate_keep(no); f_deep = gfpCreate_deep(no);
		ec_keep = ecpCreateJ_keep(n); ec_deep = ecpCreateJ_deep(n, f_deep);
		state = blobCreate(f_keep + ec_keep + utilMax(2, ec_deep, ecpIsOnA_deep(n, f_deep)) + 64);
		f = (qr_o*)((octet*)state + ec_keep);
		pt = c12_pt;		/* outside the blob: objAppend moves f, the stack then starts at objEnd(ec) */
		stack = (octet*)f + f_keep;
		ec = (ec_o*)state;
		if (!gfpCreate(f, p, no, stack) || !ecpCreateJ(ec, f, a, b, stack) ||
			!qrFrom(pt, x, f, stack) || !qrFrom(pt + n, y, f, stack))
			printf("0");
		else
		{
			int fit = 1;
			objAppend(ec, f, 0);
			for (k = (size_t)u_arg(argv[6]); k--;) if (zzAdd2(pt, ec->f->mod, n)) fit = 0;
			for (k = (size_t)u_arg(argv[7]); k--;) if (zzAdd2(pt + n, ec->f->mod, n)) fit = 0;
			if (!fit) printf("nofit");
			else printf("1 %d", ecpIsOnA(pt, ec, objEnd(ec, void)) ? 1 : 0);
		}
		blobClose(state);
	}
	else if (!strcmp(argv[0], "ec2on") && argc == 11)
	{
		size_t m = (size_t)u_arg(argv[1]), n, no, la, lb, lx, ly;
		size_t pd[4];
		unsigned char *a = hex_arg(argv[5], &la), *b = hex_arg(argv[6], &lb), *x = hex_arg(argv[7], &lx), *y = hex_arg(argv[8], &ly);
		unsigned long long hx = u_arg(argv[9]), hy = u_arg(argv[10]);
		void* state; qr_o* f; ec_o* ec; void* stack; word* pt;
		size_t f_keep, f_deep, ec_keep, ec_deep;
		pd[0] = m; pd[1] = (size_t)u_arg(argv[2]); pd[2] = (size_t)u_arg(argv[3]); pd[3] = (size_t)u_arg(argv[4]);
		if (m < 2 || m > 600) { printf("bad-op"); return; }
		n = W_OF_B(m); no = O_OF_B(m);
		if (la != no || lb != no || lx != no || ly != no) { printf("bad-op"); return; }
		f_keep = gf2Create_keep(m); f_deep = gf2Create_deep(m);
		ec_keep = ec2CreateLD_keep(n); ec_deep = ec2CreateLD_deep(n, f_deep);
		state = blobCreate(f_keep + ec_keep + utilMax(2, ec_deep, ec2IsOnA_deep(n, f_deep)) + 64);
		f = (qr_o*)((octet*)state + ec_keep);
		pt = c12_pt;
		stack = (octet*)f + f_keep;
		ec = (ec_o*)state;
		if (!gf2Create(f, pd, stack) || !ec2CreateLD(ec, f, a, b, stack) ||
			!qrFrom(pt, x, f, stack) || !qrFrom(pt + n, y, f, stack))
			printf("0");
		else
		{
			size_t room = n * B_PER_W - m, j;
			objAppend(ec, f, 0);
			if ((room < 64 && ((hx >> room) || (hy >> room))) ) printf("nofit");
			else
			{
				/* non-canonical representatives of the same residues: x + hx(t)·f(t), y + hy(t)·f(t) */
				for (j = 0; j < 64 && j < room; ++j)
				{
					static word sh[160];
					size_t i;
					if (!(((hx | hy) >> j) & 1)) continue;
					wwSetZero(sh, n + 1);
					wwCopy(sh, ec->f->mod, n + (m % B_PER_W == 0));
					wwShHi(sh, n + 1, j);
					for (i = 0; i < n; ++i)
					{
						if ((hx >> j) & 1) pt[i] ^= sh[i];
						if ((hy >> j) & 1) pt[n + i] ^= sh[i];
					}
				}
				printf("1 %d", ec2IsOnA(pt, ec, objEnd(ec, void)) ? 1 : 0);
			}
		}
		blobClose(state);
	}
	else
		printf("bad-op");
}

/* priExtendPrime2 with the generator's octets on the op line:
   extend <W> <l> <q> <a> <trials|max> <bc> <tape>  -> "1 <p>" / "0" and the number of unread tape octets */
static const unsigned char* c12_rng_tape;
static size_t c12_rng_left;
static void c12_rng(void* buf, size_t count, void* state)
{
	size_t k = count < c12_rng_left ? count : c12_rng_left;
	memset(buf, 0, count);
	memcpy(buf, c12_rng_tape, k);
	c12_rng_tape += k, c12_rng_left -= k;
}

static void op_extend(int argc, char** argv)
{
	static word q[160], a[160], p[200];
	size_t l, n, m, noq, noa, trials, bc, tl;
	unsigned char* t;
	void* stack;
	bool_t r;
	if (argc != 8) { printf("bad-op"); return; }
	if (!chkW(argv[1])) { printf("wrong-word-size"); return; }
	l = (size_t)u_arg(argv[2]);
	n = num_arg(q, 128, argv[3], &noq); m = num_arg(a, 128, argv[4], &noa);
	n = wwWordSize(q, n); m = wwWordSize(a, m);
	trials = strcmp(argv[5], "max") ? (size_t)u_arg(argv[5]) : SIZE_MAX;
	bc = (size_t)u_arg(argv[6]);
	t = hex_arg(argv[7], &tl);
	/* the documented preconditions (the function ASSERTs them) */
	if (n == 0 || m == 0 || zzIsEven(q, n) || wwCmpW(q, n, 3) < 0 || bc > priBaseSize() || l > 8000 ||
		wwBitSize(q, n) + wwBitSize(a, m) > l || l > 2 * wwBitSize(q, n))
	{ printf("refused"); hex_free(t, tl); return; }
	stack = blobCreate(priExtendPrime2_deep(l, n, m, bc) + 64);
	c12_rng_tape = t, c12_rng_left = tl;
	/* an exhausted tape would make the generator return zeros forever: bound the work */
	if (trials == SIZE_MAX) trials = 100000;
	r = priExtendPrime2(p, l, q, n, a, m, trials, bc, c12_rng, 0, stack);
	if (r) printf("1 "), put_num(p, O_OF_B(l)); else printf("0");
	printf(" %u", (unsigned)c12_rng_left);
	blobClose(stack);
	hex_free(t, tl);
}

static void handle(int argc, char** argv)
{
	if (argc < 1) { printf("bad-op"); return; }
	if (!strcmp(argv[0], "W32"))
	{
		/* validator ops meant for the 32-bit word build carry this prefix */
		if (B_PER_W != 32) { printf("wrong-word-size"); return; }
		++argv, --argc;
		if (argc < 1) { printf("bad-op"); return; }
	}
	if (!strcmp(argv[0], "wordbits") && argc == 1)
	{
		printf("%d", (int)B_PER_W);
		return;
	}
	if (!strcmp(argv[0], "date") && argc == 2)
	{
		size_t len;
		unsigned char* d = hex_arg(argv[1], &len);
		if (len != 6) { printf("bad-op"); hex_free(d, len); return; }
		printf("%d", tmDateIsValid2(d) ? 1 : 0);
		hex_free(d, len);
		return;
	}
	if (!strcmp(argv[0], "date3") && argc == 4)
	{
		printf("%d", tmDateIsValid((size_t)u_arg(argv[1]), (size_t)u_arg(argv[2]), (size_t)u_arg(argv[3])) ? 1 : 0);
		return;
	}
	if (argc >= 2 && (!strcmp(argv[0], "primew") || !strcmp(argv[0], "nextw") || !strcmp(argv[0], "sieved") ||
		!strcmp(argv[0], "smooth") || !strcmp(argv[0], "basemod") || !strcmp(argv[0], "rm") ||
		!strcmp(argv[0], "nextp") || !strcmp(argv[0], "sg")))
	{
		if (!chkW(argv[1])) { printf("wrong-word-size"); return; }
		op_pri(argc, argv);
		return;
	}
	if (!strcmp(argv[0], "obj")) { op_obj(argc, argv); return; }
	if (!strcmp(argv[0], "ecpon") || !strcmp(argv[0], "ec2on")) { op_on(argc, argv); return; }
	if (!strcmp(argv[0], "extend")) { op_extend(argc, argv); return; }
	if (!strcmp(argv[0], "layout") && argc == 1)
	{
		printf("%u %u %u %u", (unsigned)sizeof(obj_hdr_t), (unsigned)sizeof(void*), (unsigned)sizeof(qr_o), (unsigned)sizeof(ec_o));
		return;
	}
	if (!strcmp(argv[0], "baseprime") && argc == 2)
	{
		size_t i = (size_t)u_arg(argv[1]);
		if (i >= priBaseSize()) printf("refused"); else printf("%llu", (unsigned long long)priBasePrime(i));
		return;
	}
	if (!strcmp(argv[0], "basesize") && argc == 1) { printf("%u", (unsigned)priBaseSize()); return; }
	if (!strcmp(argv[0], "mtx") && argc == 2)
	{
		mt_mtx_t mtx[1];
		printf("%d", mtMtxIsValid(strcmp(argv[1], "null") ? mtx : 0) ? 1 : 0);
		return;
	}
	if (!strcmp(argv[0], "std")) { op_std(argc, argv); return; }
	if (!strcmp(argv[0], "ecpgroup")) { op_ecpgroup(argc, argv); return; }
	if (!strcmp(argv[0], "ec2group")) { op_ec2group(argc, argv); return; }
	if (!strcmp(argv[0], "irredsweep")) { op_irredsweep(argc, argv); return; }
	op_val(argc, argv);
}

/* C14 harness.  One op per line:

   ir <f> <arg>...      call the SAFE (regular) edition of <f> (or a helper) and print
                        `<ret> <buffers after the call>`; same line goes to the Lean IR interpreter.
        arg: n<dec> scalar (public)   w<dec> scalar (secret value)   s<hex> fresh exact-size buffer
             p<hex> fresh buffer with public contents   z<dec> zeroed scratch buffer (not printed)
             @<k>+<off> address of buffer k plus <off> octets (aliasing)
   sf <f> <arg>...      call BOTH editions (SAFE(f), FAST(f)) on private copies of the same operands
                        and print `<safe output> | <fast output>`
   <routine> safe|fast <operands>   comparison family in the protocol of the hand models (DrvCmp.lean)
   tag <kind> <key> <iv> <data> <len>                      true tag / hash of the real library
   stepv <kind> <key> <iv> <data> <tag> <len> <true> <off> <size>   real Verify step: prints 0/1

   With C14_TAINT=1 in the environment (run under valgrind memcheck) the CONTENTS of every `s` buffer,
   every `w` scalar and keys/data/tags of `stepv`/`kwp` are marked UNDEFINED before the call and
   made defined again before printing; a marker line `@@ <op>` is written to stderr before each op,
   so that every "Conditional jump or move depends on uninitialised value(s)" report can be
   attributed to the routine and the input. */
#include <bee2/core/mem.h>
#include <bee2/core/hex.h>
#include <bee2/core/str.h>
#include <bee2/core/u16.h>
#include <bee2/core/u32.h>
#include <bee2/core/u64.h>
#include <bee2/core/word.h>
#include <bee2/core/safe.h>
#include <bee2/math/ww.h>
#include <bee2/math/zz.h>
#include <bee2/crypto/belt.h>
#include <bee2/crypto/bash.h>
#if __has_include(<valgrind/memcheck.h>)
#include <valgrind/memcheck.h>
#else
#define VALGRIND_MAKE_MEM_UNDEFINED(a, n) 0
#define VALGRIND_MAKE_MEM_DEFINED(a, n) 0
#endif
static void handle(int argc, char** argv);
#include "common.h"

/* internal helpers of zz (zz_lcl.h is not installed; the symbols are exported) */
void zzAddAndW(word b[], const word a[], size_t n, register word w);
word zzSubAndW(word b[], const word a[], size_t n, register word w);

static int taint = -1;

#define MAXB 12
typedef struct { unsigned char* p; size_t len; int show; int secret; } buf_t;
typedef struct { uint64_t v[MAXB]; int isw[MAXB]; int nv; buf_t b[MAXB]; int nb; } args_t;

static int parse_args(args_t* a, int argc, char** argv)
{
	int i;
	a->nv = a->nb = 0;
	for (i = 0; i < argc; ++i)
	{
		const char* s = argv[i];
		if (a->nv >= MAXB || a->nb >= MAXB) return 0;
		a->isw[a->nv] = 0;
		if (s[0] == 'n' || s[0] == 'w')
		{
			a->isw[a->nv] = (s[0] == 'w');
			a->v[a->nv++] = strtoull(s + 1, 0, 10);
		}
		else if (s[0] == 's' || s[0] == 'p')
		{
			buf_t* b = &a->b[a->nb++];
			b->p = hex_arg(s + 1, &b->len), b->show = 1, b->secret = (s[0] == 's');
			a->v[a->nv++] = (uint64_t)(uintptr_t)b->p;
		}
		else if (s[0] == 'z')
		{
			buf_t* b = &a->b[a->nb++];
			b->len = (size_t)strtoull(s + 1, 0, 10);
			b->p = (unsigned char*)malloc(b->len ? b->len : 1);
			memset(b->p, 0, b->len);
			b->show = 0, b->secret = 0;
			a->v[a->nv++] = (uint64_t)(uintptr_t)b->p;
		}
		else if (s[0] == '@')
		{
			char* e;
			unsigned long k = strtoul(s + 1, &e, 10);
			unsigned long long off = (*e == '+') ? strtoull(e + 1, 0, 10) : 0;
			if (k >= (unsigned long)a->nb) return 0;
			a->v[a->nv++] = (uint64_t)(uintptr_t)(a->b[k].p + off);
		}
		else
			return 0;
	}
	return 1;
}

static void free_args(args_t* a)
{
	int i;
	for (i = 0; i < a->nb; ++i)
		if (a->b[i].show) hex_free(a->b[i].p, a->b[i].len); else free(a->b[i].p);
}

static void clone_args(args_t* d, const args_t* s)
{
	int i, j;
	*d = *s;
	for (i = 0; i < s->nb; ++i)
	{
		d->b[i].p = (unsigned char*)malloc(s->b[i].len ? s->b[i].len : 1);
		if (s->b[i].len == 0) d->b[i].p += 1;
		memcpy(d->b[i].p, s->b[i].p, s->b[i].len);
		for (j = 0; j < s->nv; ++j)
		{
			uint64_t lo = (uint64_t)(uintptr_t)s->b[i].p;
			/* pointer arguments that point into buffer i (including one-past-the-end) */
			if (!s->isw[j] && s->v[j] >= lo && s->v[j] <= lo + s->b[i].len && s->v[j] > 4096 &&
				(d->v[j] == s->v[j]))
				d->v[j] = (uint64_t)(uintptr_t)d->b[i].p + (s->v[j] - lo);
		}
	}
}
static void free_clone(args_t* a)
{
	int i;
	for (i = 0; i < a->nb; ++i) free(a->b[i].len ? a->b[i].p : a->b[i].p - 1);
}

#define P(i) ((void*)(uintptr_t)a->v[i])
#define W(i) ((const word*)(uintptr_t)a->v[i])
#define WM(i) ((word*)(uintptr_t)a->v[i])
#define N(i) ((size_t)a->v[i])

/* kind of result: 'i' int, 'u' size_t/word, 'v' void; returns 0 if the routine is unknown */
static int call_one(const char* f, int fast, args_t* a, long long* ri, unsigned long long* ru, char* kind)
{
	int n = a->nv;
#define ED(name) (fast ? FAST(name) : SAFE(name))
#define CASE(name, cnt, k, expr) if (!strcmp(f, #name)) { if (n != cnt) return 0; *kind = k; expr; return 1; }
	CASE(memEq, 3, 'i', *ri = ED(memEq)(P(0), P(1), N(2)))
	CASE(memCmp, 3, 'i', *ri = ED(memCmp)(P(0), P(1), N(2)))
	CASE(memCmpRev, 3, 'i', *ri = ED(memCmpRev)(P(0), P(1), N(2)))
	CASE(memIsZero, 2, 'i', *ri = ED(memIsZero)(P(0), N(1)))
	CASE(memIsRep, 3, 'i', *ri = ED(memIsRep)(P(0), N(1), (octet)a->v[2]))
	CASE(hexEq, 2, 'i', *ri = ED(hexEq)(P(0), (const char*)P(1)))
	CASE(hexEqRev, 2, 'i', *ri = ED(hexEqRev)(P(0), (const char*)P(1)))
	CASE(u16CTZ, 1, 'u', *ru = ED(u16CTZ)((u16)a->v[0]))
	CASE(u16CLZ, 1, 'u', *ru = ED(u16CLZ)((u16)a->v[0]))
	CASE(u32CTZ, 1, 'u', *ru = ED(u32CTZ)((u32)a->v[0]))
	CASE(u32CLZ, 1, 'u', *ru = ED(u32CLZ)((u32)a->v[0]))
	CASE(u64CTZ, 1, 'u', *ru = ED(u64CTZ)((u64)a->v[0]))
	CASE(u64CLZ, 1, 'u', *ru = ED(u64CLZ)((u64)a->v[0]))
	CASE(wwEq, 3, 'i', *ri = ED(wwEq)(W(0), W(1), N(2)))
	CASE(wwCmp, 3, 'i', *ri = ED(wwCmp)(W(0), W(1), N(2)))
	CASE(wwCmp2, 4, 'i', *ri = ED(wwCmp2)(W(0), N(1), W(2), N(3)))
	CASE(wwCmpW, 3, 'i', *ri = ED(wwCmpW)(W(0), N(1), (word)a->v[2]))
	CASE(wwIsZero, 2, 'i', *ri = ED(wwIsZero)(W(0), N(1)))
	CASE(wwIsW, 3, 'i', *ri = ED(wwIsW)(W(0), N(1), (word)a->v[2]))
	CASE(wwIsRepW, 3, 'i', *ri = ED(wwIsRepW)(W(0), N(1), (word)a->v[2]))
	CASE(zzIsSumEq, 4, 'i', *ri = ED(zzIsSumEq)(W(0), W(1), W(2), N(3)))
	CASE(zzIsSumWEq, 4, 'i', *ri = ED(zzIsSumWEq)(W(0), W(1), N(2), (word)a->v[3]))
	CASE(zzAddMod, 5, 'v', ED(zzAddMod)(WM(0), W(1), W(2), W(3), N(4)))
	CASE(zzAddWMod, 5, 'v', ED(zzAddWMod)(WM(0), W(1), (word)a->v[2], W(3), N(4)))
	CASE(zzSubMod, 5, 'v', ED(zzSubMod)(WM(0), W(1), W(2), W(3), N(4)))
	CASE(zzSubWMod, 5, 'v', ED(zzSubWMod)(WM(0), W(1), (word)a->v[2], W(3), N(4)))
	CASE(zzNegMod, 4, 'v', ED(zzNegMod)(WM(0), W(1), W(2), N(3)))
	CASE(zzDoubleMod, 4, 'v', ED(zzDoubleMod)(WM(0), W(1), W(2), N(3)))
	CASE(zzHalfMod, 4, 'v', ED(zzHalfMod)(WM(0), W(1), W(2), N(3)))
	CASE(zzRedCrand, 4, 'v', ED(zzRedCrand)(WM(0), W(1), N(2), P(3)))
	CASE(zzRedBarr, 5, 'v', ED(zzRedBarr)(WM(0), W(1), N(2), W(3), P(4)))
	CASE(zzRedMont, 5, 'v', ED(zzRedMont)(WM(0), W(1), N(2), (word)a->v[3], P(4)))
	CASE(zzRedCrandMont, 5, 'v', ED(zzRedCrandMont)(WM(0), W(1), N(2), (word)a->v[3], P(4)))
	if (fast) return 0;
	/* helpers (single edition; the regular one in the default build) */
	CASE(zzSubAndW, 4, 'u', *ru = zzSubAndW(WM(0), W(1), N(2), (word)a->v[3]))
	CASE(zzAddAndW, 4, 'v', zzAddAndW(WM(0), W(1), N(2), (word)a->v[3]))
	CASE(zzAddW2, 3, 'u', *ru = zzAddW2(WM(0), N(1), (word)a->v[2]))
	CASE(zzSubW2, 3, 'u', *ru = zzSubW2(WM(0), N(1), (word)a->v[2]))
	CASE(zzAddMulW, 4, 'u', *ru = zzAddMulW(WM(0), W(1), N(2), (word)a->v[3]))
	CASE(zzSub, 4, 'u', *ru = zzSub(WM(0), W(1), W(2), N(3)))
	CASE(zzSub2, 3, 'u', *ru = zzSub2(WM(0), W(1), N(2)))
	CASE(zzSubW, 4, 'u', *ru = zzSubW(WM(0), W(1), N(2), (word)a->v[3]))
	CASE(zzAdd, 4, 'u', *ru = zzAdd(WM(0), W(1), W(2), N(3)))
	CASE(zzAdd2, 3, 'u', *ru = zzAdd2(WM(0), W(1), N(2)))
	CASE(zzAddW, 4, 'u', *ru = zzAddW(WM(0), W(1), N(2), (word)a->v[3]))
	CASE(zzModW2, 3, 'u', *ru = zzModW2(W(0), N(1), (word)a->v[2]))
	CASE(zzMul, 6, 'v', zzMul(WM(0), W(1), N(2), W(3), N(4), P(5)))
	CASE(u16Weight, 1, 'u', *ru = u16Weight((u16)a->v[0]))
	CASE(u32Weight, 1, 'u', *ru = u32Weight((u32)a->v[0]))
	CASE(u64Weight, 1, 'u', *ru = u64Weight((u64)a->v[0]))
	CASE(strLen, 1, 'u', *ru = strLen((const char*)P(0)))
	return 0;
}

static void set_taint(args_t* a, int on)
{
	int i;
	if (taint <= 0) return;
	for (i = 0; i < a->nb; ++i)
		if (a->b[i].secret && a->b[i].len)
		{
			if (on) (void)VALGRIND_MAKE_MEM_UNDEFINED(a->b[i].p, a->b[i].len);
			else (void)VALGRIND_MAKE_MEM_DEFINED(a->b[i].p, a->b[i].len);
		}
	for (i = 0; i < a->nv; ++i)
		if (a->isw[i] && on)
			(void)VALGRIND_MAKE_MEM_UNDEFINED(&a->v[i], sizeof a->v[i]);
	if (!on)
		(void)VALGRIND_MAKE_MEM_DEFINED(a->v, sizeof a->v);
}

/* trunc0 != 0: only the first trunc0 octets of buffer 0 are printed (result of a reduction) */
static void print_result(args_t* a, char kind, long long ri, unsigned long long ru, size_t trunc0)
{
	int i;
	if (kind == 'i') printf("%lld", ri);
	else if (kind == 'u') printf("%llu", ru);
	else printf("-");
	for (i = 0; i < a->nb; ++i)
		if (a->b[i].show)
		{
			size_t l = a->b[i].len;
			if (i == 0 && trunc0 && trunc0 < l) l = trunc0;
			fputc(' ', stdout); put_hex(a->b[i].p, l);
		}
}

static void do_ir(int argc, char** argv)
{
	args_t a;
	long long ri = 0; unsigned long long ru = 0; char kind = 'v';
	if (argc < 1 || !parse_args(&a, argc - 1, argv + 1)) { printf("bad-op"); return; }
	set_taint(&a, 1);
	if (!call_one(argv[0], 0, &a, &ri, &ru, &kind)) { set_taint(&a, 0); printf("bad-op"); free_args(&a); return; }
	set_taint(&a, 0);
	(void)VALGRIND_MAKE_MEM_DEFINED(&ri, sizeof ri);
	(void)VALGRIND_MAKE_MEM_DEFINED(&ru, sizeof ru);
	print_result(&a, kind, ri, ru, 0);
	free_args(&a);
}

/* irx <f> <args>: block primitives (their IR is executed by the Lean driver) */
void beltBlockEncr(octet block[16], const u32 key[8]);
void beltBlockDecr(octet block[16], const u32 key[8]);
void beltBlockEncr2(u32 block[4], const u32 key[8]);
void beltBlockDecr2(u32 block[4], const u32 key[8]);
void beltCompr(u32 h[8], const u32 X[8], void* stack);
void beltCompr2(u32 s[4], u32 h[8], const u32 X[8], void* stack);
void beltPolyMul(word c[], const word a[], const word b[], void* stack);
void beltBlockMulC(u32 block[4]);
void ppRedBelt(word a[]);
static void do_irx(int argc, char** argv)
{
	args_t a_, *a = &a_;
	const char* f;
	if (argc < 1 || !parse_args(a, argc - 1, argv + 1)) { printf("bad-op"); return; }
	f = argv[0];
	set_taint(a, 1);
	if (!strcmp(f, "beltBlockEncr") && a->nv == 2) beltBlockEncr((octet*)P(0), (const u32*)P(1));
	else if (!strcmp(f, "beltBlockDecr") && a->nv == 2) beltBlockDecr((octet*)P(0), (const u32*)P(1));
	else if (!strcmp(f, "beltBlockEncr2") && a->nv == 2) beltBlockEncr2((u32*)P(0), (const u32*)P(1));
	else if (!strcmp(f, "beltBlockDecr2") && a->nv == 2) beltBlockDecr2((u32*)P(0), (const u32*)P(1));
	else if (!strcmp(f, "beltCompr") && a->nv == 3) beltCompr((u32*)P(0), (const u32*)P(1), P(2));
	else if (!strcmp(f, "beltCompr2") && a->nv == 4) beltCompr2((u32*)P(0), (u32*)P(1), (const u32*)P(2), P(3));
	else if (!strcmp(f, "beltPolyMul") && a->nv == 4) beltPolyMul(WM(0), W(1), W(2), P(3));
	else if (!strcmp(f, "beltBlockMulC") && a->nv == 1) beltBlockMulC((u32*)P(0));
	else if (!strcmp(f, "ppRedBelt") && a->nv == 1) ppRedBelt(WM(0));
	else if (!strcmp(f, "bashF") && a->nv == 2) bashF((octet*)P(0), P(1));
	else { set_taint(a, 0); printf("bad-op"); return; }
	set_taint(a, 0);
	print_result(a, 'v', 0, 0, 0);
	free_args(a);
}

static void do_sf(int argc, char** argv)
{
	args_t a, c;
	long long ri = 0; unsigned long long ru = 0; char kind = 'v';
	if (argc < 1 || !parse_args(&a, argc - 1, argv + 1)) { printf("bad-op"); return; }
	size_t tr = 0;
	clone_args(&c, &a);
	if (!strncmp(argv[0], "zzRed", 5) && a.nv > 2) tr = (size_t)a.v[2] * sizeof(word);
	if (!call_one(argv[0], 0, &a, &ri, &ru, &kind)) { printf("bad-op"); return; }
	print_result(&a, kind, ri, ru, tr);
	printf(" | ");
	ri = 0, ru = 0;
	if (!call_one(argv[0], 1, &c, &ri, &ru, &kind)) { printf("bad-op"); return; }
	print_result(&c, kind, ri, ru, tr);
	free_clone(&c);
	free_args(&a);
}

/* ---- comparison family in the protocol of the hand models ------------------------------- */
static void do_cmp(int argc, char** argv)
{
	const char* f = argv[0];
	int fast;
	size_t la = 0, lb = 0;
	unsigned char *A = 0, *B = 0;
	if (argc < 3) { printf("bad-op"); return; }
	if (!strcmp(argv[1], "safe")) fast = 0; else if (!strcmp(argv[1], "fast")) fast = 1; else { printf("bad-op"); return; }
#define ED2(name) (fast ? FAST(name) : SAFE(name))
	if (f[0] == 'u' && (f[1] == '1' || f[1] == '3' || f[1] == '6'))
	{
		unsigned long long v = u_arg(argv[2]);
		if (argc != 3) { printf("bad-op"); return; }
		if (!strcmp(f, "u16CTZ") && v < 65536) printf("%zu", ED2(u16CTZ)((u16)v));
		else if (!strcmp(f, "u16CLZ") && v < 65536) printf("%zu", ED2(u16CLZ)((u16)v));
		else if (!strcmp(f, "u32CTZ") && v < 4294967296ull) printf("%zu", ED2(u32CTZ)((u32)v));
		else if (!strcmp(f, "u32CLZ") && v < 4294967296ull) printf("%zu", ED2(u32CLZ)((u32)v));
		else if (!strcmp(f, "u64CTZ")) printf("%zu", ED2(u64CTZ)((u64)v));
		else if (!strcmp(f, "u64CLZ")) printf("%zu", ED2(u64CLZ)((u64)v));
		else printf("bad-op");
		return;
	}
	A = hex_arg(argv[2], &la);
	if (!strcmp(f, "memEq") || !strcmp(f, "memCmp") || !strcmp(f, "memCmpRev"))
	{
		if (argc != 4) { printf("bad-op"); return; }
		B = hex_arg(argv[3], &lb);
		if (la != lb) printf("bad-op");
		else if (!strcmp(f, "memEq")) printf("%d", ED2(memEq)(A, B, la) ? 1 : 0);
		else if (!strcmp(f, "memCmp")) printf("%d", ED2(memCmp)(A, B, la));
		else printf("%d", ED2(memCmpRev)(A, B, la));
	}
	else if (!strcmp(f, "memIsZero") && argc == 3) printf("%d", ED2(memIsZero)(A, la) ? 1 : 0);
	else if (!strcmp(f, "memIsRep") && argc == 4) printf("%d", ED2(memIsRep)(A, la, (octet)u_arg(argv[3])) ? 1 : 0);
	else if ((!strcmp(f, "hexEq") || !strcmp(f, "hexEqRev")) && argc == 4)
	{
		const char* h = strcmp(argv[3], "-") ? argv[3] : "";
		if (!hexIsValid(h) || strlen(h) != 2 * la) printf("bad-op");
		else if (!strcmp(f, "hexEq")) printf("%d", ED2(hexEq)(A, h) ? 1 : 0);
		else printf("%d", ED2(hexEqRev)(A, h) ? 1 : 0);
	}
	/* ww family: `wwEq` ... on 64-bit words, `wwEq32` ... on 32-bit words */
#if (B_PER_W == 64)
#define WWN(name) name
#else
#define WWN(name) name "32"
#endif
#define OW sizeof(word)
	else if (!strncmp(f, "ww", 2) && (strcmp(f + strlen(f) - 2, "32") == 0) == (B_PER_W == 64)) printf("other-word-size");
	else if ((!strcmp(f, WWN("wwEq")) || !strcmp(f, WWN("wwCmp")) || !strcmp(f, WWN("wwCmp2"))) && argc == 4)
	{
		B = hex_arg(argv[3], &lb);
		if (la % OW || lb % OW || (strcmp(f, WWN("wwCmp2")) && la != lb)) printf("bad-op");
		else if (!strcmp(f, WWN("wwEq"))) printf("%d", ED2(wwEq)((word*)A, (word*)B, la / OW) ? 1 : 0);
		else if (!strcmp(f, WWN("wwCmp"))) printf("%d", ED2(wwCmp)((word*)A, (word*)B, la / OW));
		else printf("%d", ED2(wwCmp2)((word*)A, la / OW, (word*)B, lb / OW));
	}
	else if (!strcmp(f, WWN("wwIsZero")) && argc == 3 && la % OW == 0) printf("%d", ED2(wwIsZero)((word*)A, la / OW) ? 1 : 0);
	else if (!strcmp(f, WWN("wwCmpW")) && argc == 4 && la % OW == 0) printf("%d", ED2(wwCmpW)((word*)A, la / OW, (word)u_arg(argv[3])));
	else if (!strcmp(f, WWN("wwIsW")) && argc == 4 && la % OW == 0) printf("%d", ED2(wwIsW)((word*)A, la / OW, (word)u_arg(argv[3])) ? 1 : 0);
	else if (!strcmp(f, WWN("wwIsRepW")) && argc == 4 && la % OW == 0) printf("%d", ED2(wwIsRepW)((word*)A, la / OW, (word)u_arg(argv[3])) ? 1 : 0);
	else printf("bad-op");
	hex_free(A, la);
	if (B) hex_free(B, lb);
}

/* ---- verification steps ---------------------------------------------------------------- */
/* kind: beltMACStepV beltMACStepV2 beltDWPStepV beltCHEStepV beltHashStepV beltHashStepV2
         beltHMACStepV beltHMACStepV2 bashHashStepV
   mode 0: print the true tag (StepG); mode 1: StepV(tag) -> 0/1 */
static void UD(const void* p, size_t n) { if (taint > 0 && n) (void)VALGRIND_MAKE_MEM_UNDEFINED(p, n); }
static void DF(const void* p, size_t n) { if (n) (void)VALGRIND_MAKE_MEM_DEFINED(p, n); }

static void do_verify(int mode, int argc, char** argv)
{
	const char* k;
	size_t lk, liv, ld, lt = 0, len;
	unsigned char *key, *iv, *data, *tag = 0, *st = 0;
	unsigned char out[64];
	int r = -1;
	size_t outlen = 0, keep = 0;
	int dump = (mode == 2);
	if (dump) mode = 0;
	if (argc < 5 + mode) { printf("bad-op"); return; }
	k = argv[0];
	key = hex_arg(argv[1], &lk); iv = hex_arg(argv[2], &liv); data = hex_arg(argv[3], &ld);
	if (mode) { tag = hex_arg(argv[4], &lt); len = (size_t)u_arg(argv[5]); }
	else len = (size_t)u_arg(argv[4]);
	UD(key, lk); UD(data, ld); if (mode) UD(tag, lt);
	memset(out, 0, sizeof out);
	if (!strncmp(k, "beltMAC", 7))
	{
		st = (unsigned char*)malloc(keep = beltMAC_keep());
		beltMACStart(st, key, lk); beltMACStepA(data, ld, st);
		if (dump) goto dumpst;
		if (!mode) beltMACStepG(out, st), outlen = 8;
		else r = strcmp(k, "beltMACStepV") ? beltMACStepV2(tag, len, st) : beltMACStepV(tag, st);
	}
	else if (!strncmp(k, "beltDWP", 7))
	{
		st = (unsigned char*)malloc(keep = beltDWP_keep());
		beltDWPStart(st, key, lk, iv); beltDWPStepI(data, ld / 2, st); beltDWPStepA(data + ld / 2, ld - ld / 2, st);
		if (dump) goto dumpst;
		if (!mode) beltDWPStepG(out, st), outlen = 8; else r = beltDWPStepV(tag, st);
	}
	else if (!strncmp(k, "beltCHE", 7))
	{
		st = (unsigned char*)malloc(keep = beltCHE_keep());
		beltCHEStart(st, key, lk, iv); beltCHEStepI(data, ld / 2, st); beltCHEStepA(data + ld / 2, ld - ld / 2, st);
		if (dump) goto dumpst;
		if (!mode) beltCHEStepG(out, st), outlen = 8; else r = beltCHEStepV(tag, st);
	}
	else if (!strncmp(k, "beltHashStepV", 13))
	{
		st = (unsigned char*)malloc(keep = beltHash_keep());
		beltHashStart(st); beltHashStepH(data, ld, st);
		if (dump) goto dumpst;
		if (!mode) beltHashStepG(out, st), outlen = 32;
		else r = strcmp(k, "beltHashStepV") ? beltHashStepV2(tag, len, st) : beltHashStepV(tag, st);
	}
	else if (!strncmp(k, "beltHMAC", 8))
	{
		st = (unsigned char*)malloc(keep = beltHMAC_keep());
		beltHMACStart(st, key, lk); beltHMACStepA(data, ld, st);
		if (dump) goto dumpst;
		if (!mode) beltHMACStepG(out, st), outlen = 32;
		else r = strcmp(k, "beltHMACStepV") ? beltHMACStepV2(tag, len, st) : beltHMACStepV(tag, st);
	}
	else if (!strcmp(k, "bashHashStepV"))
	{
		/* security level 128/192/256 from the length of the full hash value (l/4 octets) */
		size_t tl = (mode && argc > 6) ? strlen(argv[6]) / 2 : len;	/* length of the full hash value */
		size_t l = (tl <= 32 ? 128 : tl <= 48 ? 192 : 256);
		st = (unsigned char*)malloc(keep = bashHash_keep());
		bashHashStart(st, l); bashHashStepH(data, ld, st);
		if (dump) goto dumpst;
		if (!mode) bashHashStepG(out, l / 4, st), outlen = l / 4; else r = bashHashStepV(tag, len, st);
	}
	else { printf("bad-op"); return; }
	if (0)
	{
dumpst:
		DF(st, keep);
		put_hex(st, keep);
		free(st);
		DF(key, lk); DF(data, ld);
		hex_free(key, lk); hex_free(iv, liv); hex_free(data, ld);
		return;
	}
	DF(&r, sizeof r); DF(out, sizeof out);
	if (!mode) put_hex(out, outlen); else printf("%d", r ? 1 : 0);
	free(st);
	DF(key, lk); DF(data, ld);
	hex_free(key, lk); hex_free(iv, liv); hex_free(data, ld);
	if (tag) { DF(tag, lt); hex_free(tag, lt); }
}

/* stepvx <kind> <state> <tag> <len> <public ranges>   the real Verify step on a state given octet by octet
   (states are position-free); the Lean side runs the IR of the step INCLUDING StepG_internal and the block
   primitives on the same state */
static void do_stepvx(int argc, char** argv)
{
	size_t ls, lt, len;
	unsigned char *st0, *st, *tag;
	const char* k;
	int r = -1;
	if (argc != 5) { printf("bad-op"); return; }
	k = argv[0];
	st0 = hex_arg(argv[1], &ls); tag = hex_arg(argv[2], &lt); len = (size_t)u_arg(argv[3]);
	st = (unsigned char*)malloc(ls + 4096);		/* room for the scratch area behind short dumps */
	memset(st, 0, ls + 4096);
	memcpy(st, st0, ls);
	if (!strcmp(k, "beltMACStepV")) r = beltMACStepV(tag, st);
	else if (!strcmp(k, "beltMACStepV2")) r = beltMACStepV2(tag, len, st);
	else if (!strcmp(k, "beltDWPStepV")) r = beltDWPStepV(tag, st);
	else if (!strcmp(k, "beltCHEStepV")) r = beltCHEStepV(tag, st);
	else if (!strcmp(k, "beltHashStepV")) r = beltHashStepV(tag, st);
	else if (!strcmp(k, "beltHashStepV2")) r = beltHashStepV2(tag, len, st);
	else if (!strcmp(k, "beltHMACStepV")) r = beltHMACStepV(tag, st);
	else if (!strcmp(k, "beltHMACStepV2")) r = beltHMACStepV2(tag, len, st);
	else if (!strcmp(k, "bashHashStepV")) r = bashHashStepV(tag, len, st);
	else { printf("bad-op"); return; }
	printf("%d ", r ? 1 : 0);
	put_hex(st, ls);
	free(st); hex_free(st0, ls); hex_free(tag, lt);
}

/* kwp <key> <header|-> <token>   beltKWPUnwrap: prints err code and the unwrapped key
   kwpw <key> <header|-> <src>    beltKWPWrap: prints the token */
static void do_kwp(int wrap, int argc, char** argv)
{
	size_t lk, lh, ls;
	unsigned char *key, *hdr, *src, *dst;
	err_t e;
	if (argc != 3) { printf("bad-op"); return; }
	key = hex_arg(argv[0], &lk); hdr = hex_arg(argv[1], &lh); src = hex_arg(argv[2], &ls);
	if ((lh != 0 && lh != 16) || (wrap ? ls < 16 : ls < 32)) { printf("bad-op"); return; }
	if (wrap)
	{
		dst = (unsigned char*)malloc(ls + 16);
		e = beltKWPWrap(dst, src, ls, lh ? hdr : 0, key, lk);
		printf("%u ", (unsigned)e); put_hex(dst, e ? 0 : ls + 16);
	}
	else
	{
		dst = (unsigned char*)malloc(ls - 16);
		UD(key, lk); UD(src, ls); if (lh) UD(hdr, lh);
		e = beltKWPUnwrap(dst, src, ls, lh ? hdr : 0, key, lk);
		DF(&e, sizeof e); DF(dst, ls - 16); DF(key, lk); DF(src, ls); DF(hdr, lh);
		printf("%u ", (unsigned)e); put_hex(dst, e ? 0 : ls - 16);
	}
	free(dst);
	hex_free(key, lk); hex_free(hdr, lh); hex_free(src, ls);
}

/* prim <name> <key> <iv> <data>   symmetric primitives with key and data secret (mechanism C);
   prints the result octets.  name: ecb cbc cfb ctr dwp che hmac belthash bash256 bash384 bash512 krp */
static void do_prim(int argc, char** argv)
{
	size_t lk, liv, ld;
	unsigned char *key, *iv, *data, *out, *out2;
	octet mac[8], h[64];
	const char* k;
	err_t e = 0;
	if (argc != 4) { printf("bad-op"); return; }
	k = argv[0];
	key = hex_arg(argv[1], &lk); iv = hex_arg(argv[2], &liv); data = hex_arg(argv[3], &ld);
	out = (unsigned char*)malloc(ld + 64); out2 = (unsigned char*)malloc(ld + 64);
	memset(out, 0, ld + 64); memset(out2, 0, ld + 64); memset(mac, 0, 8); memset(h, 0, 64);
	UD(key, lk); UD(data, ld);
	if (!strcmp(k, "ecb")) { e = beltECBEncr(out, data, ld, key, lk); if (!e) e = beltECBDecr(out2, out, ld, key, lk); }
	else if (!strcmp(k, "cbc")) { e = beltCBCEncr(out, data, ld, key, lk, iv); if (!e) e = beltCBCDecr(out2, out, ld, key, lk, iv); }
	else if (!strcmp(k, "cfb")) { e = beltCFBEncr(out, data, ld, key, lk, iv); if (!e) e = beltCFBDecr(out2, out, ld, key, lk, iv); }
	else if (!strcmp(k, "ctr")) { e = beltCTR(out, data, ld, key, lk, iv); memcpy(out2, data, ld); }
	else if (!strcmp(k, "dwp"))
	{
		e = beltDWPWrap(out, mac, data, ld / 2, data + ld / 2, ld - ld / 2, key, lk, iv);
		if (!e) e = beltDWPUnwrap(out2, out, ld / 2, data + ld / 2, ld - ld / 2, mac, key, lk, iv);
		memcpy(out2 + ld / 2, data + ld / 2, ld - ld / 2);
	}
	else if (!strcmp(k, "che"))
	{
		e = beltCHEWrap(out, mac, data, ld / 2, data + ld / 2, ld - ld / 2, key, lk, iv);
		if (!e) e = beltCHEUnwrap(out2, out, ld / 2, data + ld / 2, ld - ld / 2, mac, key, lk, iv);
		memcpy(out2 + ld / 2, data + ld / 2, ld - ld / 2);
	}
	else if (!strcmp(k, "hmac")) { e = beltHMAC(h, data, ld, key, lk); memcpy(out2, data, ld); }
	else if (!strcmp(k, "belthash")) { e = beltHash(h, data, ld); memcpy(out2, data, ld); }
	else if (!strcmp(k, "bash256")) { e = bashHash(h, 128, data, ld); memcpy(out2, data, ld); }
	else if (!strcmp(k, "bash384")) { e = bashHash(h, 192, data, ld); memcpy(out2, data, ld); }
	else if (!strcmp(k, "bash512")) { e = bashHash(h, 256, data, ld); memcpy(out2, data, ld); }
	else if (!strcmp(k, "krp") && liv == 16 && ld >= 12) { e = beltKRP(out, 16, key, lk, data, iv); memcpy(out2, data, ld); }
	else { printf("bad-op"); return; }
	DF(&e, sizeof e); DF(out, ld + 64); DF(out2, ld + 64); DF(mac, 8); DF(h, 64); DF(key, lk); DF(data, ld);
	/* decrypt(encrypt(x)) == x is checked here so that the line is also a functional test */
	printf("%u %d ", (unsigned)e, e ? 0 : (memcmp(out2, data, ld) == 0));
	put_hex(out, ld < 32 ? ld : 32); fputc(' ', stdout); put_hex(mac, 8); fputc(' ', stdout); put_hex(h, 32);
	free(out); free(out2);
	hex_free(key, lk); hex_free(iv, liv); hex_free(data, ld);
}

static void handle(int argc, char** argv)
{
	if (taint < 0)
	{
		const char* t = getenv("C14_TAINT");
		taint = (t && *t == '1') ? 1 : 0;
	}
	if (argc == 0) { printf("bad-op"); return; }
	if (taint > 0)
	{
		int i;
		fprintf(stderr, "@@");
		for (i = 0; i < argc; ++i) fprintf(stderr, " %.200s", argv[i]);
		fprintf(stderr, "\n");
		fflush(stderr);
	}
	/* word-size specific op streams carry the word size in the op name */
#if (B_PER_W == 64)
#define OPW(name) name
#define OPW_OTHER(s) (!strcmp(s, "ir32") || !strcmp(s, "sf32") || !strcmp(s, "trace32"))
#else
#define OPW(name) name "32"
#define OPW_OTHER(s) (!strcmp(s, "ir") || !strcmp(s, "sf") || !strcmp(s, "trace"))
#endif
	if (OPW_OTHER(argv[0])) printf("other-word-size");
	else if (!strcmp(argv[0], OPW("ir")) || !strcmp(argv[0], OPW("trace"))) do_ir(argc - 1, argv + 1);
	else if (!strcmp(argv[0], OPW("sf"))) do_sf(argc - 1, argv + 1);
	else if (!strcmp(argv[0], "tag")) do_verify(0, argc - 1, argv + 1);
	else if (!strcmp(argv[0], "stepv") || !strcmp(argv[0], "stepv32")) do_verify(1, argc - 1, argv + 1);
	else if (!strcmp(argv[0], "state")) do_verify(2, argc - 1, argv + 1);
	else if (!strcmp(argv[0], "stepvx")) do_stepvx(argc - 1, argv + 1);
	else if (!strcmp(argv[0], "irx")) do_irx(argc - 1, argv + 1);
	else if (!strcmp(argv[0], "kwp")) do_kwp(0, argc - 1, argv + 1);
	else if (!strcmp(argv[0], "kwpw")) do_kwp(1, argc - 1, argv + 1);
	else if (!strcmp(argv[0], "prim")) do_prim(argc - 1, argv + 1);
	else do_cmp(argc, argv);
}

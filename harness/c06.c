/* C06 harness: elliptic curves over GF(p) through the REAL ec_o function table
   (gfpCreate + ecpCreateJ; ec.h macros ecAdd/ecAddA/ecSub/ecSubA/ecDbl/ecDblA/ecNeg/ecFromA/ecToA,
   ec->tpl, ecMulA/ecAddMulA/ecHasOrderA, ecpAddAA/ecpSubAA/ecpNegA/ecpIsOnA/ecpSWU).
   Line protocol (docs/C06.md): `<op> <p> <A> <B> ...`, numbers lower-case hex.
   Point buffers are separate exact-size heap blocks (ASan sees overruns); an aliased call passes
   the same pointer twice, exactly as the pattern says. */
#include <bee2/core/mem.h>
#include <bee2/core/util.h>
#include <bee2/core/obj.h>
#include <bee2/math/ww.h>
#include <bee2/math/zz.h>
#include <bee2/math/gfp.h>
#include <bee2/math/ec.h>
#include <bee2/math/ecp.h>
#include <bee2/math/gf2.h>
#include <bee2/math/ec2.h>
#include <bee2/crypto/bign.h>
#include <bee2/crypto/bign96.h>
#include <bee2/crypto/g12s.h>
static void handle(int argc, char** argv);
#include "common.h"

#define MAXNO 96

/* the scalar routines depend on the word size (lengths are in words, the NAF window is chosen from
   the bit length m * B_PER_W): their op names carry it, so that a line is never run on the wrong build */
#if (B_PER_W == 64)
#define MULOP "mul"
#define HASOP "hasorder"
#define ADDMULOP "addmul"
#elif (B_PER_W == 32)
#define MULOP "mul32"
#define HASOP "hasorder32"
#define ADDMULOP "addmul32"
#else
#error "unsupported word size"
#endif

static qr_o* F;
static ec_o* EC;
static size_t N, NO;
static int BIN;	/* curve over GF(2^m) (ec2.c, Lopez-Dahab), field token "b:m:k1:k2:k3" */
static char cur_p[256], cur_A[256], cur_B[256];
static void* STACK;

static void* xalloc(size_t sz) { void* p = calloc(sz ? sz : 1, 1); if (!p) exit(4); return p; }

/* hex (big-endian, no leading zeros needed) -> little-endian octets of size len; 0 on overflow */
static int hex2le(octet* le, size_t len, const char* s)
{
	size_t k = strlen(s), i;
	memset(le, 0, len);
	for (i = 0; i < k; ++i)
	{
		int v = hv_(s[k - 1 - i]);
		if (v < 0) return 0;
		if (i / 2 >= len) { if (v) return 0; continue; }
		le[i / 2] |= (octet)(v << (4 * (i % 2)));
	}
	return 1;
}

static void put_le(const octet* le, size_t len)
{
	size_t i = len;
	int started = 0;
	while (i--)
	{
		if (!started)
		{
			if (le[i] == 0) continue;
			started = 1;
			printf("%x", le[i]);
		}
		else
			printf("%02x", le[i]);
	}
	if (!started) printf("0");
}

static size_t hex_octets(const char* s)
{
	size_t k;
	while (*s == '0' && s[1]) ++s;
	k = strlen(s);
	return (k + 1) / 2;
}

static void drop(void)
{
	free(F), free(EC), free(STACK);
	F = 0, EC = 0, STACK = 0;
}

/* create field and curve (cached for consecutive lines on the same curve) */
static int setup(const char* p, const char* A, const char* B)
{
	octet buf[3 * MAXNO];
	size_t deep;
	if (F && !strcmp(p, cur_p) && !strcmp(A, cur_A) && !strcmp(B, cur_B))
		return 1;
	drop();
	cur_p[0] = 0;
	if (strlen(p) > 200 || strlen(A) > 200 || strlen(B) > 200)
		return 0;
	BIN = p[0] == 'b' && p[1] == ':';
	if (BIN)
	{
		size_t pp[4] = { 0, 0, 0, 0 };
		if (sscanf(p + 2, "%zu:%zu:%zu:%zu", pp, pp + 1, pp + 2, pp + 3) != 4 || pp[0] < 3 || pp[0] > 8 * MAXNO - 8)
			return 0;
		NO = O_OF_B(pp[0]);
		N = W_OF_B(pp[0]);
		F = (qr_o*)xalloc(gf2Create_keep(pp[0]));
		STACK = xalloc(gf2Create_deep(pp[0]));
		if (!gf2Create(F, pp, STACK))
			return drop(), 0;
		free(STACK);
		if (!hex2le(buf, NO, A) || !hex2le(buf + NO, NO, B))
			return drop(), 0;
		EC = (ec_o*)xalloc(ec2CreateLD_keep(N));
		STACK = xalloc(ec2CreateLD_deep(N, F->deep));
		if (!ec2CreateLD(EC, F, buf, buf + NO, STACK))
			return drop(), 0;
		free(STACK);
		deep = utilMax(5, EC->deep, ec2IsOnA_deep(N, F->deep), ec2AddAA_deep(N, F->deep),
			ec2SubAA_deep(N, F->deep), F->deep);
		STACK = xalloc(deep);
		strcpy(cur_p, p), strcpy(cur_A, A), strcpy(cur_B, B);
		return 1;
	}
	NO = hex_octets(p);
	if (NO == 0 || NO > MAXNO || !hex2le(buf, NO, p) || buf[NO - 1] == 0)
		return 0;
	N = W_OF_O(NO);
	F = (qr_o*)xalloc(gfpCreate_keep(NO));
	STACK = xalloc(gfpCreate_deep(NO));
	if (!gfpCreate(F, buf, NO, STACK))
		return drop(), 0;
	free(STACK);
	if (!hex2le(buf, NO, A) || !hex2le(buf + NO, NO, B))
		return drop(), 0;
	EC = (ec_o*)xalloc(ecpCreateJ_keep(N));
	STACK = xalloc(ecpCreateJ_deep(N, F->deep));
	if (!ecpCreateJ(EC, F, buf, buf + NO, STACK))
		return drop(), 0;
	free(STACK);
	/* stack for the table functions and the affine routines */
	deep = utilMax(6, EC->deep, ecpIsOnA_deep(N, F->deep), ecpAddAA_deep(N, F->deep),
		ecpSubAA_deep(N, F->deep), ecpSWU_deep(N, F->deep), F->deep);
	STACK = xalloc(deep);
	strcpy(cur_p, p), strcpy(cur_A, A), strcpy(cur_B, B);
	return 1;
}

/* hex -> field element (internal representation); 0 if not below p */
static int fe(word* w, const char* s)
{
	octet buf[MAXNO];
	if (!hex2le(buf, NO, s)) return 0;
	return qrFrom(w, buf, F, STACK);
}

static void put_fe(const word* w)
{
	octet buf[MAXNO];
	word* t = (word*)xalloc(O_OF_W(N));
	wwCopy(t, w, N);
	qrTo(buf, t, F, STACK);
	put_le(buf, NO);
	free(t);
}

static void put_aff(const word* a) { put_fe(ecX(a)); printf(" "); put_fe(ecY(a, N)); }

/* projective point -> "O" | "x y" via ec->toa on a copy */
static void put_proj(const word* a)
{
	word* t = (word*)xalloc(O_OF_W(3 * N));
	word* b = (word*)xalloc(O_OF_W(2 * N));
	wwCopy(t, a, 3 * N);
	if (ecToA(b, t, EC, STACK)) put_aff(b); else printf("O");
	free(t), free(b);
}

/* load k field elements from argv into a fresh buffer of `words` words */
static word* load(char** argv, size_t k, size_t words)
{
	word* w = (word*)xalloc(O_OF_W(words));
	size_t i;
	for (i = 0; i < k; ++i)
		if (!fe(w + i * N, argv[i])) { free(w); return 0; }
	return w;
}

enum { AL_N, AL_CA, AL_CB, AL_AB, AL_ABC };
static int al_of(const char* s)
{
	if (!strcmp(s, "n")) return AL_N;
	if (!strcmp(s, "ca")) return AL_CA;
	if (!strcmp(s, "cb")) return AL_CB;
	if (!strcmp(s, "ab")) return AL_AB;
	if (!strcmp(s, "abc")) return AL_ABC;
	return -1;
}

/* single op on already created curve: op al args... ; prints the result */
static void single(const char* op, int al, int argc, char** argv)
{
	word *a = 0, *b = 0, *c = 0, *pa, *pb, *pc;
	int una = !strcmp(op, "neg") || !strcmp(op, "dbl") || !strcmp(op, "tpl") || !strcmp(op, "toa");
	int unaA = !strcmp(op, "dbla") || !strcmp(op, "froma") || !strcmp(op, "nega");
	int binJ = !strcmp(op, "add") || !strcmp(op, "sub");
	int binJA = !strcmp(op, "adda") || !strcmp(op, "suba");
	int binAA = !strcmp(op, "addaa") || !strcmp(op, "subaa");
	size_t ka, kb;
	if (una) ka = 3, kb = 0;
	else if (unaA) ka = 2, kb = 0;
	else if (binJ) ka = 3, kb = 3;
	else if (binJA) ka = 3, kb = 2;
	else if (binAA) ka = 2, kb = 2;
	else { printf("bad-op"); return; }
	if (al < 0 || (size_t)argc != ka + kb) { printf("bad-op"); return; }
	/* every buffer has 3n words so that any of them can serve as destination */
	a = load(argv, ka, 3 * N);
	b = kb ? load(argv + ka, kb, 3 * N) : 0;
	c = (word*)xalloc(O_OF_W(3 * N));
	if (!a || (kb && !b)) { printf("range"); goto done; }
	pa = a, pb = b, pc = c;
	if (al == AL_CA) pc = a;
	else if (al == AL_CB) { if (!kb) { printf("bad-op"); goto done; } pc = b; }
	else if (al == AL_AB) { if (!kb || ka != kb) { printf("bad-op"); goto done; } pb = a; }
	else if (al == AL_ABC) { if (!kb || ka != kb) { printf("bad-op"); goto done; } pb = a, pc = a; }
	if (!strcmp(op, "neg")) ecNeg(pc, pa, EC, STACK), put_proj(pc);
	else if (!strcmp(op, "dbl")) ecDbl(pc, pa, EC, STACK), put_proj(pc);
	else if (!strcmp(op, "tpl")) { if (EC->tpl) EC->tpl(pc, pa, EC, STACK), put_proj(pc); else printf("-"); }
	else if (!strcmp(op, "toa")) { if (ecToA(pc, pa, EC, STACK)) put_aff(pc); else printf("O"); }
	else if (!strcmp(op, "dbla")) ecDblA(pc, pa, EC, STACK), put_proj(pc);
	else if (!strcmp(op, "froma")) ecFromA(pc, pa, EC, STACK), put_proj(pc);
	else if (!strcmp(op, "nega")) (BIN ? ec2NegA(pc, pa, EC) : ecpNegA(pc, pa, EC)), put_aff(pc);
	else if (!strcmp(op, "add")) ecAdd(pc, pa, pb, EC, STACK), put_proj(pc);
	else if (!strcmp(op, "sub")) ecSub(pc, pa, pb, EC, STACK), put_proj(pc);
	else if (!strcmp(op, "adda")) ecAddA(pc, pa, pb, EC, STACK), put_proj(pc);
	else if (!strcmp(op, "suba")) ecSubA(pc, pa, pb, EC, STACK), put_proj(pc);
	else if (!strcmp(op, "addaa")) { if (BIN ? ec2AddAA(pc, pa, pb, EC, STACK) : ecpAddAA(pc, pa, pb, EC, STACK)) put_aff(pc); else printf("O"); }
	else if (!strcmp(op, "subaa")) { if (BIN ? ec2SubAA(pc, pa, pb, EC, STACK) : ecpSubAA(pc, pa, pb, EC, STACK)) put_aff(pc); else printf("O"); }
done:
	free(a), free(b), free(c);
}

/* "<hex>" of a field element */
static void fe_hex(char* out, const word* w)
{
	octet buf[MAXNO];
	size_t i = NO, k = 0;
	word* t = (word*)xalloc(O_OF_W(N));
	wwCopy(t, w, N);
	qrTo(buf, t, F, STACK);
	free(t);
	while (i > 1 && buf[i - 1] == 0) --i;
	k += sprintf(out + k, "%x", buf[i - 1]);
	while (--i) k += sprintf(out + k, "%02x", buf[i - 1]);
}

/* pair x1 y1 u1 x2 y2 u2 : all routines / aliasings on the ordered pair (same list as Drv.pair) */
static void pair(int argc, char** argv)
{
	static char s[12][2 * MAXNO + 2];
	char* P3[3] = { s[0], s[1], s[2] };
	char* Q3[3] = { s[3], s[4], s[5] };
	char* v[6];
	word* t = (word*)xalloc(O_OF_W(8 * N));
	word *x1 = t, *y1 = t + N, *u1 = t + 2 * N, *x2 = t + 3 * N, *y2 = t + 4 * N, *u2 = t + 5 * N,
		*w = t + 6 * N, *r = t + 7 * N;
	int hasP, hasQ, i;
	static const char* alJ[] = { "n", "ca", "cb" };
	if (argc != 6 || !fe(x1, argv[0]) || !fe(y1, argv[1]) || !fe(u1, argv[2]) ||
		!fe(x2, argv[3]) || !fe(y2, argv[4]) || !fe(u2, argv[5]))
	{
		printf("bad-op");
		free(t);
		return;
	}
	hasP = !qrIsZero(u1, F), hasQ = !qrIsZero(u2, F);
	if (BIN)
	{
		/* Lopez-Dahab: (u x, u^2 y, u) */
		qrMul(r, u1, x1, F, STACK), fe_hex(s[0], r);
		qrSqr(w, u1, F, STACK), qrMul(r, w, y1, F, STACK), fe_hex(s[1], r), fe_hex(s[2], u1);
		qrMul(r, u2, x2, F, STACK), fe_hex(s[3], r);
		qrSqr(w, u2, F, STACK), qrMul(r, w, y2, F, STACK), fe_hex(s[4], r), fe_hex(s[5], u2);
	}
	else
	{
	/* Jacobian: (u^2 x, u^3 y, u) */
	qrSqr(w, u1, F, STACK), qrMul(r, w, x1, F, STACK), fe_hex(s[0], r);
	qrMul(w, w, u1, F, STACK), qrMul(r, w, y1, F, STACK), fe_hex(s[1], r), fe_hex(s[2], u1);
	qrSqr(w, u2, F, STACK), qrMul(r, w, x2, F, STACK), fe_hex(s[3], r);
	qrMul(w, w, u2, F, STACK), qrMul(r, w, y2, F, STACK), fe_hex(s[4], r), fe_hex(s[5], u2);
	}
	free(t);
#define SEP printf(";")
#define SKIP(cond, stmt) do { if (cond) { stmt; } else printf("-"); } while (0)
	/* add / sub */
	for (i = 0; i < 3; ++i)
		memcpy(v, P3, sizeof P3), memcpy(v + 3, Q3, sizeof Q3), single("add", al_of(alJ[i]), 6, v), SEP;
	memcpy(v, P3, sizeof P3), memcpy(v + 3, P3, sizeof P3), single("add", AL_AB, 6, v), SEP;
	for (i = 0; i < 3; ++i)
		memcpy(v, P3, sizeof P3), memcpy(v + 3, Q3, sizeof Q3), single("sub", al_of(alJ[i]), 6, v), SEP;
	memcpy(v, P3, sizeof P3), memcpy(v + 3, P3, sizeof P3), single("sub", AL_AB, 6, v), SEP;
	/* adda / suba */
	memcpy(v, P3, sizeof P3), v[3] = argv[3], v[4] = argv[4];
	for (i = 0; i < 3; ++i) { SKIP(hasQ, single("adda", al_of(alJ[i]), 5, v)); SEP; }
	for (i = 0; i < 3; ++i) { SKIP(hasQ, single("suba", al_of(alJ[i]), 5, v)); SEP; }
	/* unary projective */
	single("dbl", AL_N, 3, P3), SEP, single("dbl", AL_CA, 3, P3), SEP;
	single("tpl", AL_N, 3, P3), SEP, single("tpl", AL_CA, 3, P3), SEP;
	single("neg", AL_N, 3, P3), SEP, single("neg", AL_CA, 3, P3), SEP;
	single("toa", AL_N, 3, P3), SEP, single("toa", AL_CA, 3, P3), SEP;
	/* unary affine */
	v[0] = argv[0], v[1] = argv[1];
	SKIP(hasP, single("dbla", AL_N, 2, v)); SEP; SKIP(hasP, single("dbla", AL_CA, 2, v)); SEP;
	SKIP(hasP, single("froma", AL_N, 2, v)); SEP; SKIP(hasP, single("froma", AL_CA, 2, v)); SEP;
	SKIP(hasP, single("nega", AL_N, 2, v)); SEP; SKIP(hasP, single("nega", AL_CA, 2, v)); SEP;
	/* affine + affine */
	v[2] = argv[3], v[3] = argv[4];
	/* ec2AddAA / ec2SubAA require a and c disjoint (ASSERT(wwIsDisjoint(a, c, 2 * n))): for binary curves
	   the patterns c == a and a == b == c are outside the documented aliasings and are skipped */
	for (i = 0; i < 3; ++i) { SKIP(hasP && hasQ && !(BIN && i == 1), single("addaa", al_of(alJ[i]), 4, v)); SEP; }
	v[2] = argv[0], v[3] = argv[1];
	SKIP(hasP && !BIN, single("addaa", AL_ABC, 4, v)); SEP;
	v[2] = argv[3], v[3] = argv[4];
	for (i = 0; i < 3; ++i) { SKIP(hasP && hasQ && !(BIN && i == 1), single("subaa", al_of(alJ[i]), 4, v)); SEP; }
	v[2] = argv[0], v[3] = argv[1];
	SKIP(hasP && !BIN, single("subaa", AL_ABC, 4, v));
}

/* scalar: hex -> exact-size buffer of m words; 0 if it does not fit */
static word* scalar(const char* s, size_t m)
{
	octet* le = (octet*)xalloc(O_OF_W(m) + 1);
	word* d = (word*)xalloc(O_OF_W(m));
	if (!hex2le(le, O_OF_W(m), s)) { free(le), free(d); return 0; }
	wwFrom(d, le, O_OF_W(m));
	free(le);
	return d;
}

static void handle(int argc, char** argv)
{
	const char* op;
	if (argc == 2 && !strcmp(argv[0], "std"))
	{
		/* standard parameters from the library itself: p a b q xG yG (implementation side only) */
		bign_params bp;
		g12s_params gp;
		size_t no;
		octet zero[64] = { 0 };
		if (bignParamsStd(&bp, argv[1]) == ERR_OK || bign96ParamsStd(&bp, argv[1]) == ERR_OK)
		{
			no = bp.l / 4;
			put_le(bp.p, no), printf(" "), put_le(bp.a, no), printf(" "), put_le(bp.b, no), printf(" ");
			put_le(bp.q, no), printf(" "), put_le(zero, no), printf(" "), put_le(bp.yG, no);
		}
		else if (g12sParamsStd(&gp, argv[1]) == ERR_OK)
		{
			no = memNonZeroSize(gp.p, G12S_FIELD_SIZE * gp.l / 512);
			put_le(gp.p, no), printf(" "), put_le(gp.a, no), printf(" "), put_le(gp.b, no), printf(" ");
			put_le(gp.q, memNonZeroSize(gp.q, G12S_ORDER_SIZE * gp.l / 512)), printf(" ");
			put_le(gp.xP, no), printf(" "), put_le(gp.yP, no);
		}
		else
			printf("bad-op");
		return;
	}
	if (argc < 4) { printf("bad-op"); return; }
	op = argv[0];
	if (!setup(argv[1], argv[2], argv[3])) { printf("bad-op"); return; }
	argc -= 4, argv += 4;
	if (!strcmp(op, "pair"))
		pair(argc, argv);
	else if (!strcmp(op, "ison") && argc == 2)
	{
		/* raw words: values below p are converted to the internal representation, others stay raw */
		word* a = (word*)xalloc(O_OF_W(2 * N));
		octet buf[MAXNO];
		int i, ok = 1;
		for (i = 0; i < 2; ++i)
		{
			/* a value that does not fit into n words of THIS build cannot be passed to ecpIsOnA at all: it is not a
			   coordinate (>= 2^(n B_PER_W) > p); answered 0 here so that the line means the same for every word size */
			if (!hex2le(buf, O_OF_W(N), argv[i])) { ok = hv_(argv[i][0]) >= 0 ? 2 : 0; break; }
			wwFrom(a + i * N, buf, O_OF_W(N));
			if (!BIN && wwCmp(a + i * N, F->mod, N) < 0 && !fe(a + i * N, argv[i])) ok = 0;
		}
		if (!ok) printf("bad-op");
		else if (ok == 2) printf("0");
		else printf("%d", (BIN ? ec2IsOnA(a, EC, STACK) : ecpIsOnA(a, EC, STACK)) ? 1 : 0);
		free(a);
	}
	else if (!strcmp(op, "naf") && argc == 2)
	{
		/* wwNAF(naf, d, n, w) itself: number of digits and the packed string */
		size_t w = (size_t)strtoull(argv[1], 0, 16);
		size_t m = W_OF_O(hex_octets(argv[0]));
		word* d = scalar(argv[0], m);
		word* naf = (word*)xalloc(O_OF_W(2 * m + 1));
		octet* le = (octet*)xalloc(O_OF_W(2 * m + 1));
		if (!d || w < 2 || w >= B_PER_W) printf("bad-op");
		else
		{
			printf("%zx ", wwNAF(naf, d, m, w));
			wwTo(le, O_OF_W(2 * m + 1), naf);
			put_le(le, O_OF_W(2 * m + 1));
		}
		free(d), free(naf), free(le);
	}
	else if (!strcmp(op, "swu") && argc == 1 && !BIN)
	{
		word* a = load(argv, 1, N);
		word* b = (word*)xalloc(O_OF_W(2 * N));
		if (!a) printf("range"); else ecpSWU(b, a, EC, STACK), put_aff(b);
		free(a), free(b);
	}
	else if ((!strcmp(op, MULOP) || !strcmp(op, HASOP)) && argc == 4)
	{
		size_t m = (size_t)strtoull(argv[3], 0, 16);
		word* a = load(argv, 2, 2 * N);
		word* b = (word*)xalloc(O_OF_W(2 * N));
		word* d = m && m < 64 ? scalar(argv[2], m) : 0;
		if (!a || !d) printf(a ? "bad-op" : "range");
		else if (!strcmp(op, MULOP))
		{
			void* st = xalloc(ecMulA_deep(N, EC->d, EC->deep, m));
			if (ecMulA(b, a, EC, d, m, st)) put_aff(b); else printf("O");
			free(st);
		}
		else
		{
			void* st = xalloc(ecHasOrderA_deep(N, EC->d, EC->deep, m));
			printf("%d", ecHasOrderA(a, EC, d, m, st) ? 1 : 0);
			free(st);
		}
		free(a), free(b), free(d);
	}
	else if (!strcmp(op, ADDMULOP) && argc >= 3 && argc % 3 == 0 && argc <= 12)
	{
		/* x y d triples; the word length of each scalar is the minimal one, at least 1 */
		size_t k = (size_t)argc / 3, i, m[4];
		word *a[4] = { 0, 0, 0, 0 }, *d[4] = { 0, 0, 0, 0 };
		word* b = (word*)xalloc(O_OF_W(2 * N));
		void* st = 0;
		int ok = 1;
		for (i = 0; i < k; ++i)
		{
			/* leading zeros of the hex string count: the generator pads to get longer m[i] */
			m[i] = W_OF_O((strlen(argv[3 * i + 2]) + 1) / 2);	/* words of THIS build */
			if (m[i] == 0) m[i] = 1;
			a[i] = load(argv + 3 * i, 2, 2 * N);
			d[i] = scalar(argv[3 * i + 2], m[i]);
			if (!a[i] || !d[i]) ok = 0;
		}
		if (!ok) printf("range");
		else
		{
			bool_t r;
			switch (k)
			{
			case 1:
				st = xalloc(ecAddMulA_deep(N, EC->d, EC->deep, 1, m[0]));
				r = ecAddMulA(b, EC, st, 1, a[0], d[0], m[0]);
				break;
			case 2:
				st = xalloc(ecAddMulA_deep(N, EC->d, EC->deep, 2, m[0], m[1]));
				r = ecAddMulA(b, EC, st, 2, a[0], d[0], m[0], a[1], d[1], m[1]);
				break;
			case 3:
				st = xalloc(ecAddMulA_deep(N, EC->d, EC->deep, 3, m[0], m[1], m[2]));
				r = ecAddMulA(b, EC, st, 3, a[0], d[0], m[0], a[1], d[1], m[1], a[2], d[2], m[2]);
				break;
			default:
				st = xalloc(ecAddMulA_deep(N, EC->d, EC->deep, 4, m[0], m[1], m[2], m[3]));
				r = ecAddMulA(b, EC, st, 4, a[0], d[0], m[0], a[1], d[1], m[1], a[2], d[2], m[2],
					a[3], d[3], m[3]);
			}
			if (r) put_aff(b); else printf("O");
		}
		for (i = 0; i < k; ++i) free(a[i]), free(d[i]);
		free(b), free(st);
	}
	else if (argc >= 1)
		single(op, al_of(argv[0]), argc - 1, argv + 1);
	else
		printf("bad-op");
}

/* C05 harness: one arithmetic-layer operation per line, executed by the real library.

   line  :=  <fn> <W> <args...>        W = word size in bits the line was generated for
   multi-word operands: lower-case hex of the little-endian octet string (n * W/8 octets,
   "-" = empty); single words, sizes, positions: decimal; octet strings (zm/gf2 elements): hex.
   Alias patterns (token `pat`): d = all buffers disjoint, ca = output is input a,
   cb = output is input b, ab = inputs a and b are the same buffer, cab = all three.
   Functions with a SAFE and a FAST edition print the result of both ("s f").
   Every buffer is a malloc of exactly the documented size, so ASan traps any overrun. */
#include <bee2/defs.h>
#include <bee2/core/mem.h>
#include <bee2/core/util.h>
#include <bee2/core/word.h>
#include <bee2/core/u16.h>
#include <bee2/core/u32.h>
#include <bee2/core/u64.h>
#include <bee2/math/ww.h>
#include <bee2/math/zz.h>
#include <bee2/math/qr.h>
#include <bee2/math/zm.h>
#include <bee2/math/gfp.h>
#include <bee2/math/pp.h>
#include <bee2/math/gf2.h>
static void handle(int argc, char** argv);
#include "common.h"

static int first_;
static void sep(void) { if (!first_) fputc(' ', stdout); first_ = 0; }
static void out_u(unsigned long long v) { sep(); printf("%llu", v); }
static void out_i(long long v) { sep(); printf("%lld", v); }
static void out_w(const word* a, size_t n)
{
	octet* t = (octet*)malloc(O_OF_W(n) + 1);
	wwTo(t, O_OF_W(n), a);
	sep(); put_hex(t, O_OF_W(n));
	free(t);
}
static void out_o(const void* a, size_t n) { sep(); put_hex(a, n); }
static void out_s(const char* s) { sep(); fputs(s, stdout); }

/* exact-size word array from a hex token */
static word* wa(const char* s, size_t* n)
{
	size_t len;
	unsigned char* p = hex_arg(s, &len);
	if (len % O_PER_W) { fprintf(stderr, "operand is not a whole number of words\n"); exit(3); }
	*n = len / O_PER_W;
	if (len) wwFrom((word*)p, p, len);
	return (word*)p;
}
static word* wnew(size_t n) { word* p = (word*)malloc(n ? O_OF_W(n) : 1); if (!n) p = (word*)((char*)p + 1); else memset(p, 0xA5, O_OF_W(n)); return p; }
static word* wdup(const word* a, size_t n) { word* p = wnew(n); if (n) memcpy(p, a, O_OF_W(n)); return p; }
static void* stk(size_t deep) { void* p = malloc(deep ? deep : 1); memset(p, 0x5A, deep ? deep : 1); return p; }
static word wd(const char* s) { return (word)strtoull(s, 0, 10); }
#define IS(x) (strcmp(f, x) == 0)
#define HAS(p, c) (strchr(p, c) != 0)

/* output buffer of nc words chosen by the alias pattern */
static word* outb(const char* pat, size_t nc, word* a, size_t na, word* b, size_t nb)
{
	if (strcmp(pat, "ca") == 0 || strcmp(pat, "cab") == 0) { if (na != nc) { fprintf(stderr, "alias size\n"); exit(3); } return a; }
	if (strcmp(pat, "cb") == 0) { if (nb != nc) { fprintf(stderr, "alias size\n"); exit(3); } return b; }
	return wnew(nc);
}
static int ab(const char* pat) { return strcmp(pat, "ab") == 0 || strcmp(pat, "cab") == 0; }

/* ---------------------------------------------------------------- word level */
static void h_u(int bits, unsigned long long x)
{
	if (bits == 16)
	{
		u16 w = (u16)x;
		out_u(u16Rev(w)); out_u(u16Bitrev(w)); out_u(u16Weight(w)); out_u(u16Parity(w));
		out_u(SAFE(u16CTZ)(w)); out_u(FAST(u16CTZ)(w)); out_u(SAFE(u16CLZ)(w)); out_u(FAST(u16CLZ)(w));
		out_u(u16Shuffle(w)); out_u(u16Deshuffle(w));
		if (w & 1) out_u(u16NegInv(w)); else out_s("-");
	}
	else if (bits == 32)
	{
		u32 w = (u32)x;
		out_u(u32Rev(w)); out_u(u32Bitrev(w)); out_u(u32Weight(w)); out_u(u32Parity(w));
		out_u(SAFE(u32CTZ)(w)); out_u(FAST(u32CTZ)(w)); out_u(SAFE(u32CLZ)(w)); out_u(FAST(u32CLZ)(w));
		out_u(u32Shuffle(w)); out_u(u32Deshuffle(w));
		if (w & 1) out_u(u32NegInv(w)); else out_s("-");
	}
	else
	{
		u64 w = (u64)x;
		out_u(u64Rev(w)); out_u(u64Bitrev(w)); out_u(u64Weight(w)); out_u(u64Parity(w));
		out_u(SAFE(u64CTZ)(w)); out_u(FAST(u64CTZ)(w)); out_u(SAFE(u64CLZ)(w)); out_u(FAST(u64CLZ)(w));
		out_u(u64Shuffle(w)); out_u(u64Deshuffle(w));
		if (w & 1) out_u(u64NegInv(w)); else out_s("-");
	}
}

/* generator reading a tape (zeros once it is exhausted): the caller's gen_i of zzRandMod */
typedef struct { const octet* p; size_t len, pos; } tape_t;
static void tape_gen(void* buf, size_t count, void* state)
{
	tape_t* t = (tape_t*)state;
	octet* b = (octet*)buf;
	while (count--) *b++ = t->pos < t->len ? t->p[t->pos] : 0, t->pos++;
}

/* ------------------------------------------------------------------- zm / qr */
static qr_o* mk_ring(const char* kind, const octet* mod, size_t no)
{
	qr_o* r; void* st;
	if (strcmp(kind, "plain") == 0) { r = (qr_o*)stk(zmCreatePlain_keep(no)); st = stk(zmCreatePlain_deep(no)); zmCreatePlain(r, mod, no, st); }
	else if (strcmp(kind, "crand") == 0) { r = (qr_o*)stk(zmCreateCrand_keep(no)); st = stk(zmCreateCrand_deep(no)); zmCreateCrand(r, mod, no, st); }
	else if (strcmp(kind, "barr") == 0) { r = (qr_o*)stk(zmCreateBarr_keep(no)); st = stk(zmCreateBarr_deep(no)); zmCreateBarr(r, mod, no, st); }
	else if (strcmp(kind, "mont") == 0) { r = (qr_o*)stk(zmCreateMont_keep(no)); st = stk(zmCreateMont_deep(no)); zmCreateMont(r, mod, no, st); }
	else if (strcmp(kind, "auto") == 0) { r = (qr_o*)stk(zmCreate_keep(no)); st = stk(zmCreate_deep(no)); zmCreate(r, mod, no, st); }
	else if (strcmp(kind, "gfp") == 0) { r = (qr_o*)stk(gfpCreate_keep(no)); st = stk(gfpCreate_deep(no)); if (!gfpCreate(r, mod, no, st)) return 0; }
	else return 0;
	free(st);
	return r;
}

/* common part of zm/gf2 element operations: op args are octet strings of r->no octets */
static void ring_op(qr_o* r, const char* op, const char* pat, int argc, char** argv)
{
	size_t n = r->n, no = r->no, l[3] = {0, 0, 0};
	octet* e[3] = {0, 0, 0};
	word* x[3];
	word* c;
	void* st = stk(r->deep);   /* exactly the documented depth */
	octet* o = (octet*)malloc(no);
	int i, k = argc > 3 ? 3 : argc;
	for (i = 0; i < k; ++i) e[i] = hex_arg(argv[i], &l[i]);
	if (strcmp(op, "unity") == 0) { qrTo(o, r->unity, r, st); out_o(o, no); return; }
	if (strcmp(op, "from") == 0)
	{
		/* `from`: in-range flag, internal representation, exported value; a is l[0] == no octets */
		word* b = wnew(n);
		bool_t ok = qrFrom(b, e[0], r, st);
		out_u(ok);
		if (ok) { out_w(b, n); qrTo(o, b, r, st); out_o(o, no); }
		return;
	}
	if (strcmp(op, "power") == 0)
	{
		/* power a <exponent as words> */
		size_t m; word* ex = wa(argv[1], &m);
		void* st2 = stk(qrPower_deep(n, m, r->deep));
		x[0] = wnew(n); qrFrom(x[0], e[0], r, st);
		c = HAS(pat, 'c') ? x[0] : wnew(n);
		qrPower(c, x[0], ex, m, r, st2);
		qrTo(o, c, r, st); out_o(o, no);
		return;
	}
	for (i = 0; i < k; ++i)
	{
		if (l[i] != no) { out_s("bad-op"); return; }
		x[i] = wnew(n);
		if (!qrFrom(x[i], e[i], r, st)) { out_s("not-in"); return; }
	}
	if (ab(pat) && k >= 2) x[1] = x[0];
	c = strcmp(pat, "ca") == 0 || strcmp(pat, "cab") == 0 ? x[0] : strcmp(pat, "cb") == 0 && k >= 2 ? x[1] : wnew(n);
	if (strcmp(op, "add") == 0) qrAdd(c, x[0], x[1], r);
	else if (strcmp(op, "sub") == 0) qrSub(c, x[0], x[1], r);
	else if (strcmp(op, "neg") == 0) qrNeg(c, x[0], r);
	else if (strcmp(op, "mul") == 0) qrMul(c, x[0], x[1], r, st);
	else if (strcmp(op, "sqr") == 0) qrSqr(c, x[0], r, st);
	else if (strcmp(op, "inv") == 0) qrInv(c, x[0], r, st);
	else if (strcmp(op, "div") == 0) qrDiv(c, x[0], x[1], r, st);
	else { out_s("bad-op"); return; }
	out_w(c, n);
	qrTo(o, c, r, st); out_o(o, no);
}

static void handle(int argc, char** argv)
{
	const char* f = argc ? argv[0] : "";
	size_t n, m, k;
	word *a, *b, *c, *d;
	first_ = 1;
	fflush(stdout);   /* everything printed for the previous ops reaches the pipe before this op can abort */
	if (argc < 2) { out_s("bad-op"); return; }
	if (IS("u")) { if (argc != 3) { out_s("bad-op"); return; } h_u((int)u_arg(argv[1]), u_arg(argv[2])); return; }
	if ((int)u_arg(argv[1]) != B_PER_W) { out_s("bad-w"); return; }
	argc -= 2, argv += 2;   /* argv[0..] = arguments after W */
	/* ---------------------------------------------------------------- word */
	if (IS("word") && argc == 1)
	{
		word w = wd(argv[0]);
		out_u(wordRev(w)); out_u(wordBitrev(w)); out_u(wordWeight(w)); out_u(wordParity(w));
		out_u(SAFE(wordCTZ)(w)); out_u(FAST(wordCTZ)(w)); out_u(SAFE(wordCLZ)(w)); out_u(FAST(wordCLZ)(w));
		out_u(wordShuffle(w)); out_u(wordDeshuffle(w));
		if (w & 1) out_u(wordNegInv(w)); else out_s("-");
		return;
	}
	if (IS("wordCmp") && argc == 2)
	{
		word x = wd(argv[0]), y = wd(argv[1]);
		out_u(wordEq(x, y)); out_u(wordNeq(x, y)); out_u(wordLess(x, y)); out_u(wordLeq(x, y)); out_u(wordGreater(x, y)); out_u(wordGeq(x, y));
		out_u(wordEq01(x, y)); out_u(wordNeq01(x, y)); out_u(wordLess01(x, y)); out_u(wordLeq01(x, y)); out_u(wordGreater01(x, y)); out_u(wordGeq01(x, y));
		out_u(wordEq0M(x, y)); out_u(wordNeq0M(x, y)); out_u(wordLess0M(x, y)); out_u(wordLeq0M(x, y)); out_u(wordGreater0M(x, y)); out_u(wordGeq0M(x, y));
		return;
	}
	if (IS("wordRot") && argc == 2)
	{
		word x = wd(argv[0]); size_t s = (size_t)u_arg(argv[1]);
		out_u(wordRotHi(x, s)); out_u(wordRotLo(x, s));
		return;
	}
	if (IS("wwFromTo") && argc == 1)
	{
		/* wwFrom of `count` octets into W_OF_O(count) words, then wwTo back */
		size_t cnt; octet* src = hex_arg(argv[0], &cnt);
		octet* back = (octet*)malloc(cnt ? cnt : 1);
		n = W_OF_O(cnt); a = wnew(n);
		wwFrom(a, src, cnt);
		for (k = 0; k < n; ++k) out_u(a[k]);
		wwTo(back, cnt, a); out_o(back, cnt);
		return;
	}
	/* ------------------------------------------------------------------ ww */
	if (IS("wwEq") && argc == 2) { a = wa(argv[0], &n); b = wa(argv[1], &m); out_u(SAFE(wwEq)(a, b, n)); out_u(FAST(wwEq)(a, b, n)); return; }
	if (IS("wwCmp") && argc == 2) { a = wa(argv[0], &n); b = wa(argv[1], &m); out_i(SAFE(wwCmp)(a, b, n)); out_i(FAST(wwCmp)(a, b, n)); return; }
	if (IS("wwCmp2") && argc == 2) { a = wa(argv[0], &n); b = wa(argv[1], &m); out_i(SAFE(wwCmp2)(a, n, b, m)); out_i(FAST(wwCmp2)(a, n, b, m)); return; }
	if (IS("wwCmpW") && argc == 2) { a = wa(argv[0], &n); out_i(SAFE(wwCmpW)(a, n, wd(argv[1]))); out_i(FAST(wwCmpW)(a, n, wd(argv[1]))); return; }
	if (IS("wwIsZero") && argc == 1) { a = wa(argv[0], &n); out_u(SAFE(wwIsZero)(a, n)); out_u(FAST(wwIsZero)(a, n)); return; }
	if (IS("wwIsW") && argc == 2) { a = wa(argv[0], &n); out_u(SAFE(wwIsW)(a, n, wd(argv[1]))); out_u(FAST(wwIsW)(a, n, wd(argv[1]))); return; }
	if (IS("wwIsRepW") && argc == 2) { a = wa(argv[0], &n); out_u(SAFE(wwIsRepW)(a, n, wd(argv[1]))); out_u(FAST(wwIsRepW)(a, n, wd(argv[1]))); return; }
	if (IS("wwSizes") && argc == 1)
	{
		a = wa(argv[0], &n);
		out_u(wwWordSize(a, n)); out_u(wwOctetSize(a, n)); out_u(wwBitSize(a, n)); out_u(wwLoZeroBits(a, n)); out_u(wwHiZeroBits(a, n));
		return;
	}
	if (IS("wwXor") && argc == 3)
	{
		a = wa(argv[1], &n); b = wa(argv[2], &m); if (ab(argv[0])) b = a;
		c = outb(argv[0], n, a, n, b, m); wwXor(c, a, b, n); out_w(c, n); return;
	}
	if (IS("wwXor2") && argc == 3) { b = wa(argv[1], &n); a = wa(argv[2], &m); if (ab(argv[0])) a = b; wwXor2(b, a, n); out_w(b, n); return; }
	if (IS("wwCopy") && argc == 2) { a = wa(argv[1], &n); b = HAS(argv[0], 'c') ? a : wnew(n); wwCopy(b, a, n); out_w(b, n); return; }
	if (IS("wwSwap") && argc == 2) { a = wa(argv[0], &n); b = wa(argv[1], &m); wwSwap(a, b, n); out_w(a, n); out_w(b, n); return; }
	if (IS("wwSetZero") && argc == 1) { n = (size_t)u_arg(argv[0]); a = wnew(n); wwSetZero(a, n); out_w(a, n); return; }
	if (IS("wwSetW") && argc == 2) { n = (size_t)u_arg(argv[0]); a = wnew(n); wwSetW(a, n, wd(argv[1])); out_w(a, n); return; }
	if (IS("wwRepW") && argc == 2) { n = (size_t)u_arg(argv[0]); a = wnew(n); wwRepW(a, n, wd(argv[1])); out_w(a, n); return; }
	if (IS("wwTestBit") && argc == 2) { a = wa(argv[0], &n); out_u(wwTestBit(a, (size_t)u_arg(argv[1]))); return; }
	if (IS("wwGetBits") && argc == 3) { a = wa(argv[0], &n); out_u(wwGetBits(a, (size_t)u_arg(argv[1]), (size_t)u_arg(argv[2]))); return; }
	if (IS("wwSetBit") && argc == 3) { a = wa(argv[0], &n); wwSetBit(a, (size_t)u_arg(argv[1]), (bool_t)u_arg(argv[2])); out_w(a, n); return; }
	if (IS("wwSetBits") && argc == 4) { a = wa(argv[0], &n); wwSetBits(a, (size_t)u_arg(argv[1]), (size_t)u_arg(argv[2]), wd(argv[3])); out_w(a, n); return; }
	if (IS("wwFlipBit") && argc == 2) { a = wa(argv[0], &n); wwFlipBit(a, (size_t)u_arg(argv[1])); out_w(a, n); return; }
	if (IS("wwShLo") && argc == 2) { a = wa(argv[0], &n); wwShLo(a, n, (size_t)u_arg(argv[1])); out_w(a, n); return; }
	if (IS("wwShHi") && argc == 2) { a = wa(argv[0], &n); wwShHi(a, n, (size_t)u_arg(argv[1])); out_w(a, n); return; }
	if (IS("wwShLoCarry") && argc == 3) { word r; a = wa(argv[0], &n); r = wwShLoCarry(a, n, (size_t)u_arg(argv[1]), wd(argv[2])); out_w(a, n); out_u(r); return; }
	if (IS("wwShHiCarry") && argc == 3) { word r; a = wa(argv[0], &n); r = wwShHiCarry(a, n, (size_t)u_arg(argv[1]), wd(argv[2])); out_w(a, n); out_u(r); return; }
	if (IS("wwTrimLo") && argc == 2) { a = wa(argv[0], &n); wwTrimLo(a, n, (size_t)u_arg(argv[1])); out_w(a, n); return; }
	if (IS("wwTrimHi") && argc == 2) { a = wa(argv[0], &n); wwTrimHi(a, n, (size_t)u_arg(argv[1])); out_w(a, n); return; }
	if (IS("wwNAF") && argc == 2)
	{
		size_t sz; a = wa(argv[0], &n); c = wnew(2 * n + 1);
		sz = wwNAF(c, a, n, (size_t)u_arg(argv[1])); out_u(sz); out_w(c, 2 * n + 1); return;
	}
	/* ------------------------------------------------------------ zz additive */
	if (IS("zzIsEven") && argc == 1) { a = wa(argv[0], &n); out_u(zzIsEven(a, n)); out_u(zzIsOdd(a, n)); return; }
	if ((IS("zzAdd") || IS("zzSub")) && argc == 3)
	{
		word r;
		a = wa(argv[1], &n); b = wa(argv[2], &m); if (ab(argv[0])) b = a;
		c = outb(argv[0], n, a, n, b, m);
		r = IS("zzAdd") ? zzAdd(c, a, b, n) : zzSub(c, a, b, n);
		out_w(c, n); out_u(r); return;
	}
	if ((IS("zzAdd2") || IS("zzSub2")) && argc == 3)
	{
		word r;
		b = wa(argv[1], &n); a = wa(argv[2], &m); if (ab(argv[0])) a = b;
		r = IS("zzAdd2") ? zzAdd2(b, a, n) : zzSub2(b, a, n);
		out_w(b, n); out_u(r); return;
	}
	if (IS("zzAdd3") && argc == 3)
	{
		word r;
		a = wa(argv[1], &n); b = wa(argv[2], &m); k = n > m ? n : m;
		c = outb(argv[0], k, a, n, b, m);
		r = zzAdd3(c, a, n, b, m); out_w(c, k); out_u(r); return;
	}
	if ((IS("zzAddW") || IS("zzSubW")) && argc == 3)
	{
		word r;
		a = wa(argv[1], &n); b = HAS(argv[0], 'c') ? a : wnew(n);
		r = IS("zzAddW") ? zzAddW(b, a, n, wd(argv[2])) : zzSubW(b, a, n, wd(argv[2]));
		out_w(b, n); out_u(r); return;
	}
	if ((IS("zzAddW2") || IS("zzSubW2")) && argc == 2)
	{
		word r;
		a = wa(argv[0], &n);
		r = IS("zzAddW2") ? zzAddW2(a, n, wd(argv[1])) : zzSubW2(a, n, wd(argv[1]));
		out_w(a, n); out_u(r); return;
	}
	if (IS("zzIsSumEq") && argc == 3)
	{
		c = wa(argv[0], &n); a = wa(argv[1], &m); b = wa(argv[2], &k);
		out_u(SAFE(zzIsSumEq)(c, a, b, n)); out_u(FAST(zzIsSumEq)(c, a, b, n)); return;
	}
	if (IS("zzIsSumWEq") && argc == 3)
	{
		b = wa(argv[0], &n); a = wa(argv[1], &m);
		out_u(SAFE(zzIsSumWEq)(b, a, n, wd(argv[2]))); out_u(FAST(zzIsSumWEq)(b, a, n, wd(argv[2]))); return;
	}
	if (IS("zzNeg") && argc == 2) { a = wa(argv[1], &n); b = HAS(argv[0], 'c') ? a : wnew(n); zzNeg(b, a, n); out_w(b, n); return; }
	/* ------------------------------------------------------ zz multiplicative */
	if (IS("zzMulW") && argc == 3)
	{
		word r; a = wa(argv[1], &n); b = HAS(argv[0], 'c') ? a : wnew(n);
		r = zzMulW(b, a, n, wd(argv[2])); out_w(b, n); out_u(r); return;
	}
	if ((IS("zzAddMulW") || IS("zzSubMulW")) && argc == 4)
	{
		word r; b = wa(argv[1], &n); a = wa(argv[2], &m); if (ab(argv[0])) a = b;
		r = IS("zzAddMulW") ? zzAddMulW(b, a, n, wd(argv[3])) : zzSubMulW(b, a, n, wd(argv[3]));
		out_w(b, n); out_u(r); return;
	}
	if (IS("zzMul") && argc == 3)
	{
		a = wa(argv[1], &n); b = wa(argv[2], &m); if (ab(argv[0])) b = a;
		c = wnew(n + m); zzMul(c, a, n, b, m, stk(zzMul_deep(n, m))); out_w(c, n + m); return;
	}
	if (IS("zzSqr") && argc == 1) { a = wa(argv[0], &n); c = wnew(2 * n); zzSqr(c, a, n, stk(zzSqr_deep(n))); out_w(c, 2 * n); return; }
	if (IS("zzSqrt") && argc == 1)
	{
		bool_t r; a = wa(argv[0], &n); c = wnew((n + 1) / 2);
		r = zzSqrt(c, a, n, stk(zzSqrt_deep(n))); out_w(c, (n + 1) / 2); out_u(r); return;
	}
	if (IS("zzDivW") && argc == 3)
	{
		word r; a = wa(argv[1], &n); c = HAS(argv[0], 'c') ? a : wnew(n);
		r = zzDivW(c, a, n, wd(argv[2])); out_w(c, n); out_u(r); return;
	}
	if (IS("zzModW") && argc == 2) { a = wa(argv[0], &n); out_u(zzModW(a, n, wd(argv[1]))); return; }
	if (IS("zzModW2") && argc == 2) { a = wa(argv[0], &n); out_u(zzModW2(a, n, wd(argv[1]))); return; }
	if (IS("zzDiv") && argc == 3)
	{
		/* pat: d | ra (r == a: a is given m words of room since n >= m) */
		word* r;
		a = wa(argv[1], &n); b = wa(argv[2], &m);
		c = wnew(n - m + 1); r = strcmp(argv[0], "ra") == 0 ? a : wnew(m);
		zzDiv(c, r, a, n, b, m, stk(zzDiv_deep(n, m))); out_w(c, n - m + 1); out_w(r, m); return;
	}
	if (IS("zzMod") && argc == 3)
	{
		/* pat: d | ra (only when n >= m) */
		word* r;
		a = wa(argv[1], &n); b = wa(argv[2], &m);
		r = strcmp(argv[0], "ra") == 0 && n >= m ? a : wnew(m);
		zzMod(r, a, n, b, m, stk(zzMod_deep(n, m))); out_w(r, m); return;
	}
	/* --------------------------------------------------------------- zz gcd */
	if (IS("zzGCD") && argc == 2)
	{
		a = wa(argv[0], &n); b = wa(argv[1], &m); k = n < m ? n : m; c = wnew(k);
		zzGCD(c, a, n, b, m, stk(zzGCD_deep(n, m))); out_w(c, k); return;
	}
	if (IS("zzIsCoprime") && argc == 2) { a = wa(argv[0], &n); b = wa(argv[1], &m); out_u(zzIsCoprime(a, n, b, m, stk(zzIsCoprime_deep(n, m)))); return; }
	if (IS("zzLCM") && argc == 2)
	{
		a = wa(argv[0], &n); b = wa(argv[1], &m); c = wnew(n + m);
		zzLCM(c, a, n, b, m, stk(zzLCM_deep(n, m))); out_w(c, n + m); return;
	}
	if ((IS("zzExGCD") || IS("zzExGCD?")) && argc >= 2)
	{
		word *da, *db;
		a = wa(argv[0], &n); b = wa(argv[1], &m); k = n < m ? n : m; c = wnew(k); da = wnew(m); db = wnew(n);
		zzExGCD(c, da, db, a, n, b, m, stk(zzExGCD_deep(n, m)));
		if (IS("zzExGCD")) { out_w(c, k); out_w(da, m); out_w(db, n); return; }
		if (argc == 5)
		{
			size_t k1, m1, n1; word *c1 = wa(argv[2], &k1), *da1 = wa(argv[3], &m1), *db1 = wa(argv[4], &n1);
			out_u(k1 == k && m1 == m && n1 == n && wwEq(c, c1, k) && wwEq(da, da1, m) && wwEq(db, db1, n)); return;
		}
	}
	if (IS("zzJacobi") && argc == 2) { a = wa(argv[0], &n); b = wa(argv[1], &m); out_i(zzJacobi(a, n, b, m, stk(zzJacobi_deep(n, m)))); return; }
	/* ----------------------------------------------------------- zz modular */
	if ((IS("zzAddMod") || IS("zzSubMod")) && argc == 4)
	{
		int e;
		for (e = 0; e < 2; ++e)
		{
			a = wa(argv[1], &n); b = wa(argv[2], &m); d = wa(argv[3], &k); if (ab(argv[0])) b = a;
			c = outb(argv[0], n, a, n, b, m);
			if (IS("zzAddMod")) (e ? FAST(zzAddMod) : SAFE(zzAddMod))(c, a, b, d, n);
			else (e ? FAST(zzSubMod) : SAFE(zzSubMod))(c, a, b, d, n);
			out_w(c, n);
		}
		return;
	}
	if ((IS("zzAddWMod") || IS("zzSubWMod")) && argc == 4)
	{
		int e;
		for (e = 0; e < 2; ++e)
		{
			a = wa(argv[1], &n); d = wa(argv[3], &k); c = HAS(argv[0], 'c') ? a : wnew(n);
			if (IS("zzAddWMod")) (e ? FAST(zzAddWMod) : SAFE(zzAddWMod))(c, a, wd(argv[2]), d, n);
			else (e ? FAST(zzSubWMod) : SAFE(zzSubWMod))(c, a, wd(argv[2]), d, n);
			out_w(c, n);
		}
		return;
	}
	if ((IS("zzNegMod") || IS("zzDoubleMod") || IS("zzHalfMod")) && argc == 3)
	{
		int e;
		for (e = 0; e < 2; ++e)
		{
			a = wa(argv[1], &n); d = wa(argv[2], &k); c = HAS(argv[0], 'c') ? a : wnew(n);
			if (IS("zzNegMod")) (e ? FAST(zzNegMod) : SAFE(zzNegMod))(c, a, d, n);
			else if (IS("zzDoubleMod")) (e ? FAST(zzDoubleMod) : SAFE(zzDoubleMod))(c, a, d, n);
			else (e ? FAST(zzHalfMod) : SAFE(zzHalfMod))(c, a, d, n);
			out_w(c, n);
		}
		return;
	}
	if (IS("zzMulMod") && argc == 4)
	{
		a = wa(argv[1], &n); b = wa(argv[2], &m); d = wa(argv[3], &k); if (ab(argv[0])) b = a;
		c = outb(argv[0], n, a, n, b, m);
		zzMulMod(c, a, b, d, n, stk(zzMulMod_deep(n))); out_w(c, n); return;
	}
	if (IS("zzSqrMod") && argc == 3)
	{
		a = wa(argv[1], &n); d = wa(argv[2], &k); c = HAS(argv[0], 'c') ? a : wnew(n);
		zzSqrMod(c, a, d, n, stk(zzSqrMod_deep(n))); out_w(c, n); return;
	}
	if (IS("zzMulWMod") && argc == 4)
	{
		a = wa(argv[1], &n); d = wa(argv[3], &k); c = HAS(argv[0], 'c') ? a : wnew(n);
		zzMulWMod(c, a, wd(argv[2]), d, n, stk(zzMulWMod_deep(n))); out_w(c, n); return;
	}
	if (IS("zzInvMod") && argc == 3)
	{
		a = wa(argv[1], &n); d = wa(argv[2], &k); c = HAS(argv[0], 'c') ? a : wnew(n);
		zzInvMod(c, a, d, n, stk(zzInvMod_deep(n))); out_w(c, n); return;
	}
	if (IS("zzDivMod") && argc == 4)
	{
		/* zzDivMod pat divident a mod ; pat: d | ca (b == divident) | cb (b == a) */
		a = wa(argv[1], &n); b = wa(argv[2], &m); d = wa(argv[3], &k);
		c = outb(argv[0], n, a, n, b, m);
		zzDivMod(c, a, b, d, n, stk(zzDivMod_deep(n))); out_w(c, n); return;
	}
	if ((IS("zzAlmostInvMod") || IS("zzAlmostInvMod?")) && argc >= 2)
	{
		size_t kk;
		a = wa(argv[0], &n); d = wa(argv[1], &k); c = wnew(n);
		kk = zzAlmostInvMod(c, a, d, n, stk(zzAlmostInvMod_deep(n)));
		if (IS("zzAlmostInvMod")) { out_w(c, n); out_u(kk); return; }
		if (argc == 4) { size_t n1; word* c1 = wa(argv[2], &n1); out_u(n1 == n && wwEq(c, c1, n) && kk == (size_t)u_arg(argv[3])); return; }
	}
	if (IS("zzPowerMod") && argc == 3)
	{
		a = wa(argv[0], &n); b = wa(argv[1], &m); d = wa(argv[2], &k); c = wnew(n);
		zzPowerMod(c, a, n, b, m, d, stk(zzPowerMod_deep(n, m))); out_w(c, n); return;
	}
	if (IS("zzPowerModW") && argc == 3) { out_u(zzPowerModW(wd(argv[0]), wd(argv[1]), wd(argv[2]), stk(zzPowerModW_deep()))); return; }
	if ((IS("zzRandMod") || IS("zzRandNZMod")) && argc == 2)
	{
		/* zzRandMod W mod tape -> flag [a] consumed-octets */
		tape_t t; bool_t ok;
		d = wa(argv[0], &k); t.p = hex_arg(argv[1], &t.len); t.pos = 0; a = wnew(k);
		ok = IS("zzRandMod") ? zzRandMod(a, d, k, tape_gen, &t) : zzRandNZMod(a, d, k, tape_gen, &t);
		out_u(ok); if (ok) out_w(a, k); out_u(t.pos); return;
	}
	/* -------------------------------------------------------- zz reductions */
	if (IS("zzRed") && argc == 2) { a = wa(argv[0], &n); d = wa(argv[1], &k); zzRed(a, d, k, stk(zzRed_deep(k))); out_w(a, k); return; }
	if (IS("zzRedBarrStart") && argc == 1) { d = wa(argv[0], &k); c = wnew(k + 2); zzRedBarrStart(c, d, k, stk(zzRedBarrStart_deep(k))); out_w(c, k + 2); return; }
	if ((IS("zzRedCrand") || IS("zzRedBarr") || IS("zzRedMont") || IS("zzRedCrandMont")) && argc == 2)
	{
		int e;
		for (e = 0; e < 2; ++e)
		{
			a = wa(argv[0], &n); d = wa(argv[1], &k);
			if (IS("zzRedCrand")) (e ? FAST(zzRedCrand) : SAFE(zzRedCrand))(a, d, k, stk(zzRedCrand_deep(k)));
			else if (IS("zzRedBarr"))
			{
				word* bp = wnew(k + 2);
				zzRedBarrStart(bp, d, k, stk(zzRedBarrStart_deep(k)));
				(e ? FAST(zzRedBarr) : SAFE(zzRedBarr))(a, d, k, bp, stk(zzRedBarr_deep(k)));
			}
			else if (IS("zzRedMont")) (e ? FAST(zzRedMont) : SAFE(zzRedMont))(a, d, k, wordNegInv(d[0]), stk(zzRedMont_deep(k)));
			else (e ? FAST(zzRedCrandMont) : SAFE(zzRedCrandMont))(a, d, k, wordNegInv(d[0]), stk(zzRedCrandMont_deep(k)));
			out_w(a, k);
		}
		return;
	}
	/* ------------------------------------------------------------- zm / gfp */
	if (IS("zm") && argc >= 4)
	{
		/* zm W kind pat mod(octets) op args... */
		size_t no; octet* mo = hex_arg(argv[2], &no);
		qr_o* r = mk_ring(argv[0], mo, no);
		if (!r) { out_s("no-ring"); return; }
		out_u(r->n); out_u(r->no);
		ring_op(r, argv[3], argv[1], argc - 4, argv + 4);
		return;
	}
	/* --------------------------------------------------------------------- pp */
	if (IS("ppDeg") && argc == 1) { a = wa(argv[0], &n); k = ppDeg(a, n); if (k == SIZE_MAX) out_s("-1"); else out_u(k); return; }
	if (IS("ppMulW") && argc == 3)
	{
		word r; a = wa(argv[1], &n); b = HAS(argv[0], 'c') ? a : wnew(n);
		r = ppMulW(b, a, n, wd(argv[2]), stk(ppMulW_deep(n))); out_w(b, n); out_u(r); return;
	}
	if (IS("ppAddMulW") && argc == 4)
	{
		word r; b = wa(argv[1], &n); a = wa(argv[2], &m); if (ab(argv[0])) a = b;
		r = ppAddMulW(b, a, n, wd(argv[3]), stk(ppAddMulW_deep(n))); out_w(b, n); out_u(r); return;
	}
	if (IS("ppMul") && argc == 3)
	{
		a = wa(argv[1], &n); b = wa(argv[2], &m); if (ab(argv[0])) b = a;
		c = wnew(n + m); ppMul(c, a, n, b, m, stk(ppMul_deep(n, m))); out_w(c, n + m); return;
	}
	if (IS("ppSqr") && argc == 1) { a = wa(argv[0], &n); c = wnew(2 * n); ppSqr(c, a, n, stk(ppSqr_deep(n))); out_w(c, 2 * n); return; }
	if (IS("ppDiv") && argc == 3)
	{
		word* r;
		a = wa(argv[1], &n); b = wa(argv[2], &m);
		c = wnew(n - m + 1); r = strcmp(argv[0], "ra") == 0 ? a : wnew(m);
		ppDiv(c, r, a, n, b, m, stk(ppDiv_deep(n, m))); out_w(c, n - m + 1); out_w(r, m); return;
	}
	if (IS("ppMod") && argc == 3)
	{
		word* r;
		a = wa(argv[1], &n); b = wa(argv[2], &m);
		r = strcmp(argv[0], "ra") == 0 && n >= m ? a : wnew(m);
		ppMod(r, a, n, b, m, stk(ppMod_deep(n, m))); out_w(r, m); return;
	}
	if (IS("ppGCD") && argc == 2)
	{
		a = wa(argv[0], &n); b = wa(argv[1], &m); k = n < m ? n : m; c = wnew(k);
		ppGCD(c, a, n, b, m, stk(ppGCD_deep(n, m))); out_w(c, k); return;
	}
	if ((IS("ppExGCD") || IS("ppExGCD?")) && argc >= 2)
	{
		word *da, *db;
		a = wa(argv[0], &n); b = wa(argv[1], &m); k = n < m ? n : m; c = wnew(k); da = wnew(m); db = wnew(n);
		ppExGCD(c, da, db, a, n, b, m, stk(ppExGCD_deep(n, m)));
		if (IS("ppExGCD")) { out_w(c, k); out_w(da, m); out_w(db, n); return; }
		if (argc == 5)
		{
			size_t k1, m1, n1; word *c1 = wa(argv[2], &k1), *da1 = wa(argv[3], &m1), *db1 = wa(argv[4], &n1);
			out_u(k1 == k && m1 == m && n1 == n && wwEq(c, c1, k) && wwEq(da, da1, m) && wwEq(db, db1, n)); return;
		}
	}
	if (IS("ppMulMod") && argc == 4)
	{
		a = wa(argv[1], &n); b = wa(argv[2], &m); d = wa(argv[3], &k); if (ab(argv[0])) b = a;
		c = outb(argv[0], n, a, n, b, m);
		ppMulMod(c, a, b, d, n, stk(ppMulMod_deep(n))); out_w(c, n); return;
	}
	if (IS("ppSqrMod") && argc == 3)
	{
		a = wa(argv[1], &n); d = wa(argv[2], &k); c = HAS(argv[0], 'c') ? a : wnew(n);
		ppSqrMod(c, a, d, n, stk(ppSqrMod_deep(n))); out_w(c, n); return;
	}
	if (IS("ppInvMod") && argc == 3)
	{
		a = wa(argv[1], &n); d = wa(argv[2], &k); c = HAS(argv[0], 'c') ? a : wnew(n);
		ppInvMod(c, a, d, n, stk(ppInvMod_deep(n))); out_w(c, n); return;
	}
	if (IS("ppDivMod") && argc == 4)
	{
		a = wa(argv[1], &n); b = wa(argv[2], &m); d = wa(argv[3], &k);
		c = outb(argv[0], n, a, n, b, m);
		ppDivMod(c, a, b, d, n, stk(ppDivMod_deep(n))); out_w(c, n); return;
	}
	if (IS("ppRed") && argc == 2) { a = wa(argv[0], &n); d = wa(argv[1], &k); ppRed(a, d, k, stk(ppRed_deep(k))); out_w(a, k); return; }
	if (IS("ppRedTrinomial") && argc == 3)
	{
		pp_trinom_st p; a = wa(argv[0], &n); p.m = (size_t)u_arg(argv[1]); p.k = (size_t)u_arg(argv[2]);
		ppRedTrinomial(a, &p); out_w(a, W_OF_B(p.m)); return;
	}
	if (IS("ppRedPentanomial") && argc == 5)
	{
		pp_pentanom_st p; a = wa(argv[0], &n);
		p.m = (size_t)u_arg(argv[1]); p.k = (size_t)u_arg(argv[2]); p.l = (size_t)u_arg(argv[3]); p.l1 = (size_t)u_arg(argv[4]);
		ppRedPentanomial(a, &p); out_w(a, W_OF_B(p.m)); return;
	}
	if (IS("ppRedBelt") && argc == 1) { a = wa(argv[0], &n); ppRedBelt(a); out_w(a, W_OF_B(128)); return; }
	if (IS("ppIsIrred") && argc == 1) { a = wa(argv[0], &n); out_u(ppIsIrred(a, n, stk(ppIsIrred_deep(n)))); return; }
	if (IS("ppMinPoly") && argc == 2)
	{
		size_t l = (size_t)u_arg(argv[1]);
		a = wa(argv[0], &n); c = wnew(W_OF_B(l + 1));
		ppMinPoly(c, a, l, stk(ppMinPoly_deep(l))); out_w(c, W_OF_B(l + 1)); return;
	}
	if (IS("ppMinPolyMod") && argc == 2)
	{
		a = wa(argv[0], &n); d = wa(argv[1], &k); c = wnew(n);
		ppMinPolyMod(c, a, d, n, stk(ppMinPolyMod_deep(n))); out_w(c, n); return;
	}
	/* -------------------------------------------------------------------- gf2 */
	if (IS("gf2") && argc >= 6)
	{
		/* gf2 W m k l l1 pat op args... */
		size_t p[4]; qr_o* r; void* st;
		p[0] = (size_t)u_arg(argv[0]); p[1] = (size_t)u_arg(argv[1]); p[2] = (size_t)u_arg(argv[2]); p[3] = (size_t)u_arg(argv[3]);
		r = (qr_o*)stk(gf2Create_keep(p[0])); st = stk(gf2Create_deep(p[0]));
		if (!gf2Create(r, p, st)) { out_s("no-field"); return; }
		out_u(r->n); out_u(r->no);
		if (strcmp(argv[5], "tr") == 0 && argc == 7)
		{
			size_t l; octet* e = hex_arg(argv[6], &l); a = wnew(r->n);
			if (l != r->no || !qrFrom(a, e, r, st)) { out_s("not-in"); return; }
			out_u(gf2Tr(a, r, stk(gf2Tr_deep(r->n, r->deep)))); return;
		}
		if (strcmp(argv[5], "qsolve") == 0 && argc == 8)
		{
			size_t l, l2; octet *e = hex_arg(argv[6], &l), *e2 = hex_arg(argv[7], &l2); bool_t ok;
			octet* o = (octet*)malloc(r->no);
			a = wnew(r->n); b = wnew(r->n); c = wnew(r->n);
			if (l != r->no || l2 != r->no || !qrFrom(a, e, r, st) || !qrFrom(b, e2, r, st)) { out_s("not-in"); return; }
			ok = gf2QSolve(c, a, b, r, stk(gf2QSolve_deep(r->n, r->deep)));
			out_u(ok); if (ok) { qrTo(o, c, r, st); out_o(o, r->no); }
			return;
		}
		ring_op(r, argv[5], argv[4], argc - 6, argv + 6);
		return;
	}
	out_s("bad-op");
}

/* Shared part of every correspondence harness: a line loop that tokenises one
   operation per line (tokens separated by single spaces), calls handle() and
   flushes.  Octet strings are lower-case hex, "-" is the empty string.
   A harness TU defines `static void handle(int argc, char** argv)` and then
   includes this file LAST (it provides main). */
#ifndef BEE2V_COMMON_H
#define BEE2V_COMMON_H
#include <stdio.h>
#include <stdlib.h>
#include <string.h>
#include <stdint.h>

#define MAXTOK 64

static int hv_(int c)
{
	if (c >= '0' && c <= '9') return c - '0';
	if (c >= 'a' && c <= 'f') return c - 'a' + 10;
	if (c >= 'A' && c <= 'F') return c - 'A' + 10;
	return -1;
}

/* hex token -> freshly malloc'ed buffer of EXACTLY the decoded size (so that
   ASan traps a one-octet over-read); *len receives the size; "-" -> size 0
   (a 1-octet allocation whose pointer is then advanced to its end). */
static unsigned char* hex_arg(const char* s, size_t* len)
{
	size_t n, i;
	unsigned char* p;
	if (strcmp(s, "-") == 0) { *len = 0; p = (unsigned char*)malloc(1); return p + 1; }
	n = strlen(s);
	if (n % 2) { fprintf(stderr, "odd hex\n"); exit(3); }
	n /= 2;
	p = (unsigned char*)malloc(n ? n : 1);
	for (i = 0; i < n; ++i)
	{
		int a = hv_(s[2 * i]), b = hv_(s[2 * i + 1]);
		if (a < 0 || b < 0) { fprintf(stderr, "bad hex\n"); exit(3); }
		p[i] = (unsigned char)(16 * a + b);
	}
	*len = n;
	return p;
}
static void hex_free(unsigned char* p, size_t len) { free(len ? p : p - 1); }

static void put_hex(const void* buf, size_t len)
{
	static const char d[] = "0123456789abcdef";
	const unsigned char* p = (const unsigned char*)buf;
	size_t i;
	if (len == 0) { fputc('-', stdout); return; }
	for (i = 0; i < len; ++i) { fputc(d[p[i] >> 4], stdout); fputc(d[p[i] & 15], stdout); }
}

static unsigned long long u_arg(const char* s) { return strtoull(s, 0, 10); }

static void handle(int argc, char** argv);

int main(void)
{
	static char line[1 << 22];
	static char obuf[1 << 16];
	/* line-buffered: when a sanitizer aborts the process, everything printed for the
	   operations completed before is already out, so the crash is attributed to the right op */
	setvbuf(stdout, obuf, _IOLBF, sizeof obuf);
	while (fgets(line, sizeof line, stdin))
	{
		char* argv[MAXTOK];
		int argc = 0;
		char* p = line;
		size_t n = strlen(line);
		while (n && (line[n - 1] == '\n' || line[n - 1] == '\r')) line[--n] = 0;
		while (*p && argc < MAXTOK)
		{
			argv[argc++] = p;
			while (*p && *p != ' ') ++p;
			if (*p) *p++ = 0;
		}
		handle(argc, argv);
		fputc('\n', stdout);
	}
	fflush(stdout);
	return 0;
}
#endif

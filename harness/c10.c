/* C10 harness: SESSIONS on the incremental APIs of the REAL library.
   One line = `<bundle> <start params> <call> <call> ...` (grammar: docs/C10.md, the same lines go to drv_c10),
   or `hl <bundle> ...` = the one-shot high-level function (search oracle only, never sent to the Lean side).
   The state lives in an EXACT-size heap block (`X_keep()` octets, so ASan traps any access behind it).
   Call token `m` RELOCATES the state: memcpy to a fresh exact-size block, the old block is overwritten with
   0xA5 and freed (ASan then traps every access through a stale self-pointer as heap-use-after-free).
   `V`-type tokens compute the right tag on a COPY of the state and verify it on the live state. */
#include <bee2/core/mem.h>
#include <bee2/core/str.h>
#include <bee2/core/tm.h>
#include <bee2/crypto/bash.h>
#include <bee2/crypto/belt.h>
#include <bee2/crypto/brng.h>
#include <bee2/crypto/botp.h>
#include "crypto/botp.c"	/* botp_ocra_st fields (ctr_len, p_len, s_len, q_max) for token validation; botp_totp_st for `D` */
#include "crypto/belt/belt_krp.c"	/* belt_krp_st members for the state dump `D` */
#include "crypto/bash/bash_hash.c"	/* bash_hash_st members for the state dump `D` */
#include <errno.h>
static void handle(int argc, char** argv);
#include "common.h"

#define BAD() do { printf("bad-op"); return; } while (0)

static int hex_ok(const char* s)
{
	size_t n;
	if (strcmp(s, "-") == 0) return 1;
	n = strlen(s);
	if (n == 0 || n % 2) return 0;
	for (; *s; ++s) if (hv_(*s) < 0) return 0;
	return 1;
}
static int dec_ok(const char* s)
{
	if (!*s || strlen(s) > 19) return 0;
	for (; *s; ++s) if (*s < '0' || *s > '9') return 0;
	return 1;
}
static int t_arg(const char* s, unsigned long long* t)
{
	if (!*s || strlen(s) > 20 || strspn(s, "0123456789") != strlen(s)) return 0;
	errno = 0;
	*t = strtoull(s, 0, 10);
	return errno == 0;
}

/* ---- output buffer: a line is printed only when the whole session was well-formed ---- */
static char obuf_[1 << 22];
static size_t olen_;
static void o_sep(void) { if (olen_) obuf_[olen_++] = ' '; }
static void o_str(const char* s) { o_sep(); strcpy(obuf_ + olen_, s); olen_ += strlen(s); }
static void o_hex(const void* p, size_t n)
{
	static const char d[] = "0123456789abcdef";
	const octet* b = (const octet*)p;
	size_t i;
	o_sep();
	if (n == 0) { obuf_[olen_++] = '-'; obuf_[olen_] = 0; return; }
	for (i = 0; i < n; ++i) obuf_[olen_++] = d[b[i] >> 4], obuf_[olen_++] = d[b[i] & 15];
	obuf_[olen_] = 0;
}
static void o_none(void) { o_str("."); }
static void o_bool(int b) { o_str(b ? "1" : "0"); }
static void o_flush(void) { if (olen_ == 0) fputc('-', stdout); else fputs(obuf_, stdout); }

/* ---- the state ---- */
static void* st_;
static size_t keep_;
static void st_new(size_t keep) { keep_ = keep; st_ = malloc(keep ? keep : 1); memset(st_, 0xC3, keep); }
static void st_free(void) { free(st_); st_ = 0; }
static void st_move(void)
{
	void* n = malloc(keep_ ? keep_ : 1);
	memcpy(n, st_, keep_);
	memset(st_, 0xA5, keep_);
	free(st_);
	st_ = n;
}
static void* st_copy(void) { void* n = malloc(keep_ ? keep_ : 1); memcpy(n, st_, keep_); return n; }

/* `D`: dump of the members of the state struct, scratch members included (krp, bhash, totp): the Lean side runs a
   model with the same members (Refined.lean) and must print the same */
static int dumpk_;	/* 0 none, 1 belt_krp_st, 2 bash_hash_st, 3 botp_totp_st */
static int do_dump(void)
{
	if (dumpk_ == 1)
	{
		belt_krp_st* st = (belt_krp_st*)st_;
		octet b[96];
		memcpy(b, st->key, 32), memcpy(b + 32, st->block, 32), memcpy(b + 64, st->key_new, 32);
		o_hex(b, 96);
	}
	else if (dumpk_ == 2)
	{
		bash_hash_st* st = (bash_hash_st*)st_;
		char t[64];
		octet b[384];
		memcpy(b, st->s, 192), memcpy(b + 192, st->s1, 192);
		o_hex(b, 384);
		sprintf(t, ":%u:%u", (unsigned)st->pos, (unsigned)st->buf_len);
		strcpy(obuf_ + olen_, t), olen_ += strlen(t);
	}
	else if (dumpk_ == 3)
	{
		botp_totp_st* st = (botp_totp_st*)st_;
		octet b[50];
		memcpy(b, st->t, 8), memcpy(b + 8, st->mac, 32), memcpy(b + 40, st->otp, 10);
		o_hex(b, 50);
	}
	else return 0;
	return 1;
}

/* split "a:b:c" in place; returns the number of fields (max 5, 99 = too many) */
static int fields(char* t, char* f[5])
{
	int n = 0;
	f[n++] = t;
	for (; *t; ++t) if (*t == ':') { if (n == 5) return 99; *t = 0; f[n++] = t + 1; }
	return n;
}
static int key_ok(size_t n) { return n == 16 || n == 24 || n == 32; }
static int str_ok(const octet* o, size_t n) { return memchr(o, 0, n) == 0 && n <= 15; }

/* ------------------------------------------------------------------ encrypting bundles */
typedef void (*step_f)(void*, size_t, void*);
static int run_E(int argc, char** argv, int i0, step_f E, step_f D)
{
	int i;
	for (i = i0; i < argc; ++i)
	{
		char* f[5];
		int nf;
		size_t n;
		octet* x;
		if (!strcmp(argv[i], "m")) { st_move(); o_none(); continue; }
		nf = fields(argv[i], f);
		if (nf != 2 || f[0][1] || (f[0][0] != 'e' && f[0][0] != 'd') || !hex_ok(f[1])) return 0;
		x = hex_arg(f[1], &n);
		(f[0][0] == 'e' ? E : D)(x, n, st_);
		o_hex(x, n);
		hex_free(x, n);
	}
	return 1;
}
static void sdeE(void* b, size_t n, const octet* iv, void* s) { beltSDEStepE(b, n, iv, s); }
static void sdeD(void* b, size_t n, const octet* iv, void* s) { beltSDEStepD(b, n, iv, s); }
static int run_sde(int argc, char** argv, int i0)
{
	int i;
	for (i = i0; i < argc; ++i)
	{
		char* f[5];
		int nf;
		size_t n, ivn;
		octet *x, *iv;
		if (!strcmp(argv[i], "m")) { st_move(); o_none(); continue; }
		nf = fields(argv[i], f);
		if (nf != 3 || f[0][1] || (f[0][0] != 'e' && f[0][0] != 'd') || !hex_ok(f[1]) || !hex_ok(f[2])) return 0;
		iv = hex_arg(f[1], &ivn), x = hex_arg(f[2], &n);
		if (ivn != 16 || n < 32 || n % 16) { hex_free(iv, ivn), hex_free(x, n); return 0; }
		(f[0][0] == 'e' ? sdeE : sdeD)(x, n, iv, st_);
		o_hex(x, n);
		hex_free(iv, ivn), hex_free(x, n);
	}
	return 1;
}

/* ------------------------------------------------------------------ absorb / get / verify bundles */
typedef void (*abs_f)(const void*, size_t, void*);
typedef void (*get_f)(octet*, size_t, void*);
typedef bool_t (*ver_f)(const octet*, size_t, void*);
static int run_A(int argc, char** argv, int i0, size_t maxn, abs_f A, get_f G, ver_f V)
{
	int i;
	for (i = i0; i < argc; ++i)
	{
		char* f[5];
		int nf;
		size_t n;
		char c;
		if (!strcmp(argv[i], "m")) { st_move(); o_none(); continue; }
		if (!strcmp(argv[i], "D")) { if (!do_dump()) return 0; continue; }
		nf = fields(argv[i], f);
		c = f[0][0];
		if (nf != 2 || f[0][1]) return 0;
		if (c == 'a' || c == 'v')
		{
			octet* x;
			if (!hex_ok(f[1])) return 0;
			x = hex_arg(f[1], &n);
			if (c == 'a') A(x, n, st_), o_none();
			else if (n > maxn) { hex_free(x, n); return 0; }
			else o_bool(V(x, n, st_));
			hex_free(x, n);
		}
		else if (c == 'g' || c == 'V')
		{
			octet* t;
			if (!dec_ok(f[1]) || (n = (size_t)u_arg(f[1])) > maxn) return 0;
			t = (octet*)malloc(n ? n : 1);
			if (c == 'g') G(t, n, st_), o_hex(t, n);
			else
			{
				void* cp = st_copy();
				G(t, n, cp);
				free(cp);
				o_bool(V(t, n, st_));
			}
			free(t);
		}
		else return 0;
	}
	return 1;
}
static void bashG(octet* h, size_t n, void* s) { bashHashStepG(h, n, s); }
static bool_t bashV(const octet* h, size_t n, void* s) { return bashHashStepV(h, n, s); }

/* ------------------------------------------------------------------ DWP / CHE */
typedef struct {
	step_f E, D; abs_f I, A; void (*G)(octet*, void*); bool_t (*V)(const octet*, void*);
} aead_t;
static int run_aead(int argc, char** argv, int i0, const aead_t* a)
{
	int i;
	for (i = i0; i < argc; ++i)
	{
		char* f[5];
		int nf;
		size_t n;
		char c;
		octet mac[8];
		if (!strcmp(argv[i], "m")) { st_move(); o_none(); continue; }
		nf = fields(argv[i], f);
		c = f[0][0];
		if (f[0][1]) return 0;
		if (nf == 1 && c == 'g') { a->G(mac, st_); o_hex(mac, 8); continue; }
		if (nf == 1 && c == 'V')
		{
			void* cp = st_copy();
			a->G(mac, cp);
			free(cp);
			o_bool(a->V(mac, st_));
			continue;
		}
		if (nf != 2 || !hex_ok(f[1]) || !strchr("iaedEv", c)) return 0;
		{
			octet* x = hex_arg(f[1], &n);
			int ok = 1;
			if (c == 'i') a->I(x, n, st_), o_none();
			else if (c == 'a') a->A(x, n, st_), o_none();
			else if (c == 'e') a->E(x, n, st_), o_hex(x, n);
			else if (c == 'd') a->D(x, n, st_), o_hex(x, n);
			else if (c == 'E') a->E(x, n, st_), o_hex(x, n), a->A(x, n, st_), o_none();
			else if (n != 8) ok = 0;
			else o_bool(a->V(x, st_));
			hex_free(x, n);
			if (!ok) return 0;
		}
	}
	return 1;
}
static const aead_t dwp_ = { beltDWPStepE, beltDWPStepD, beltDWPStepI, beltDWPStepA, beltDWPStepG, beltDWPStepV };
static const aead_t che_ = { beltCHEStepE, beltCHEStepD, beltCHEStepI, beltCHEStepA, beltCHEStepG, beltCHEStepV };

/* ------------------------------------------------------------------ KRP */
static int run_krp(int argc, char** argv, int i0, size_t klen)
{
	int i;
	for (i = i0; i < argc; ++i)
	{
		char* f[5];
		int nf;
		size_t n, hn;
		octet *h, out[32];
		if (!strcmp(argv[i], "m")) { st_move(); o_none(); continue; }
		if (!strcmp(argv[i], "D")) { if (!do_dump()) return 0; continue; }
		nf = fields(argv[i], f);
		if (nf != 3 || strcmp(f[0], "g") || !dec_ok(f[1]) || !hex_ok(f[2])) return 0;
		n = (size_t)u_arg(f[1]);
		h = hex_arg(f[2], &hn);
		if (!key_ok(n) || n > klen || hn != 16) { hex_free(h, hn); return 0; }
		beltKRPStepG(out, n, h, st_);
		o_hex(out, n);
		hex_free(h, hn);
	}
	return 1;
}

/* ------------------------------------------------------------------ bash automaton */
static int prg_len_ok(size_t an, size_t kn, size_t l)
{
	return an % 4 == 0 && an <= 60 && kn % 4 == 0 && kn <= 60 && (kn == 0 || kn >= l / 8);
}
static int prg_keyed_;	/* key mode <=> started with a key (bashPrgIsKeymode is a private macro of bash_prg.c) */
static int run_prg(int argc, char** argv, int i0)
{
	int i;
	for (i = i0; i < argc; ++i)
	{
		char* f[5];
		int nf;
		size_t n;
		char c;
		if (!strcmp(argv[i], "m")) { st_move(); o_none(); continue; }
		nf = fields(argv[i], f);
		c = f[0][0];
		if (f[0][1]) return 0;
		if (nf == 1)
		{
			if (c == 'A') bashPrgAbsorbStart(st_);
			else if (c == 'S') bashPrgSqueezeStart(st_);
			else if (c == 'E') { if (!prg_keyed_) return 0; bashPrgEncrStart(st_); }
			else if (c == 'D') { if (!prg_keyed_) return 0; bashPrgDecrStart(st_); }
			else if (c == 'T') bashPrgRatchet(st_);
			else return 0;
			o_none();
			continue;
		}
		if (nf != 2) return 0;
		if (c == 's')
		{
			octet* x;
			if (!dec_ok(f[1]) || (n = (size_t)u_arg(f[1])) > 4096) return 0;
			x = (octet*)malloc(n ? n : 1);
			memset(x, 0x5A, n);
			bashPrgSqueezeStep(x, n, st_);
			o_hex(x, n);
			free(x);
		}
		else if (c == 'a' || c == 'e' || c == 'd')
		{
			octet* x;
			if (!hex_ok(f[1])) return 0;
			x = hex_arg(f[1], &n);
			if (c == 'a') bashPrgAbsorbStep(x, n, st_), o_none();
			else if (c == 'e') bashPrgEncrStep(x, n, st_), o_hex(x, n);
			else bashPrgDecrStep(x, n, st_), o_hex(x, n);
			hex_free(x, n);
		}
		else return 0;
	}
	return 1;
}

/* ------------------------------------------------------------------ brng */
static int run_bctr(int argc, char** argv, int i0)
{
	int i;
	for (i = i0; i < argc; ++i)
	{
		char* f[5];
		int nf;
		size_t n;
		if (!strcmp(argv[i], "m")) { st_move(); o_none(); continue; }
		nf = fields(argv[i], f);
		if (nf == 1 && !strcmp(f[0], "g")) { octet iv[32]; brngCTRStepG(iv, st_); o_hex(iv, 32); continue; }
		if (nf != 2 || strcmp(f[0], "r") || !hex_ok(f[1])) return 0;
		{
			octet* x = hex_arg(f[1], &n);
			brngCTRStepR(x, n, st_);
			o_hex(x, n);
			hex_free(x, n);
		}
	}
	return 1;
}
static int run_bhmac(int argc, char** argv, int i0)
{
	int i;
	for (i = i0; i < argc; ++i)
	{
		char* f[5];
		int nf;
		size_t n;
		octet* x;
		if (!strcmp(argv[i], "m")) { st_move(); o_none(); continue; }
		nf = fields(argv[i], f);
		if (nf != 2 || strcmp(f[0], "r") || !dec_ok(f[1]) || (n = (size_t)u_arg(f[1])) > 4096) return 0;
		x = (octet*)malloc(n ? n : 1);
		memset(x, 0x5A, n);
		brngHMACStepR(x, n, st_);
		o_hex(x, n);
		free(x);
	}
	return 1;
}

/* ------------------------------------------------------------------ botp */
static void o_otp(const char* s) { o_hex(s, strlen(s)); }
/* hex field -> NUL-terminated string */
static char* otp_arg(const char* h)
{
	size_t n;
	octet* o;
	char* r;
	if (!hex_ok(h)) return 0;
	o = hex_arg(h, &n);
	if (!str_ok(o, n)) { hex_free(o, n); return 0; }
	r = (char*)malloc(n + 1);
	memcpy(r, o, n), r[n] = 0;
	hex_free(o, n);
	return r;
}
static int run_hotp(int argc, char** argv, int i0)
{
	int i;
	char otp[16];
	for (i = i0; i < argc; ++i)
	{
		char* f[5];
		int nf;
		size_t n;
		char c;
		if (!strcmp(argv[i], "m")) { st_move(); o_none(); continue; }
		nf = fields(argv[i], f);
		c = f[0][0];
		if (f[0][1]) return 0;
		if (c == 'S' && nf == 2 && hex_ok(f[1]))
		{
			octet* x = hex_arg(f[1], &n);
			if (n != 8) { hex_free(x, n); return 0; }
			botpHOTPStepS(st_, x);
			o_none();
			hex_free(x, n);
		}
		else if (c == 'r' && nf == 1) botpHOTPStepR(otp, st_), o_otp(otp);
		else if (c == 'v' && nf == 2)
		{
			char* o = otp_arg(f[1]);
			if (!o) return 0;
			o_bool(botpHOTPStepV(o, st_));
			free(o);
		}
		else if ((c == 'V' || c == 'N') && nf == 1)
		{
			void* cp = st_copy();
			botpHOTPStepR(otp, cp);
			if (c == 'N') botpHOTPStepR(otp, cp);
			free(cp);
			o_bool(botpHOTPStepV(otp, st_));
		}
		else if (c == 'g' && nf == 1) { octet ctr[8]; botpHOTPStepG(ctr, st_); o_hex(ctr, 8); }
		else return 0;
	}
	return 1;
}
static int run_totp(int argc, char** argv, int i0)
{
	int i;
	char otp[16];
	unsigned long long t;
	for (i = i0; i < argc; ++i)
	{
		char* f[5];
		int nf;
		char c;
		if (!strcmp(argv[i], "m")) { st_move(); o_none(); continue; }
		if (!strcmp(argv[i], "D")) { if (!do_dump()) return 0; continue; }
		nf = fields(argv[i], f);
		c = f[0][0];
		if (f[0][1] || nf < 2 || !t_arg(f[1], &t)) return 0;
		if (c == 'r' && nf == 2) botpTOTPStepR(otp, (tm_time_t)t, st_), o_otp(otp);
		else if (c == 'v' && nf == 3)
		{
			char* o = otp_arg(f[2]);
			if (!o) return 0;
			o_bool(botpTOTPStepV(o, (tm_time_t)t, st_));
			free(o);
		}
		else if (c == 'V' && nf == 2)
		{
			void* cp = st_copy();
			botpTOTPStepR(otp, (tm_time_t)t, cp);
			free(cp);
			o_bool(botpTOTPStepV(otp, (tm_time_t)t, st_));
		}
		else return 0;
	}
	return 1;
}
static int run_ocra(int argc, char** argv, int i0)
{
	int i;
	char otp[16];
	unsigned long long t;
	for (i = i0; i < argc; ++i)
	{
		botp_ocra_st* st = (botp_ocra_st*)st_;
		char* f[5];
		int nf;
		size_t n1, n2, n3, qn;
		char c;
		if (!strcmp(argv[i], "m")) { st_move(); o_none(); continue; }
		nf = fields(argv[i], f);
		c = f[0][0];
		if (f[0][1]) return 0;
		if (c == 'g' && nf == 1) { octet ctr[8]; botpOCRAStepG(ctr, st_); o_hex(ctr, 8); continue; }
		if (c == 'S' && nf == 4 && hex_ok(f[1]) && hex_ok(f[2]) && hex_ok(f[3]))
		{
			octet *x = hex_arg(f[1], &n1), *p = hex_arg(f[2], &n2), *s = hex_arg(f[3], &n3);
			int ok = !((st->ctr_len && n1 != 8) || (st->p_len && n2 != st->p_len) || (st->s_len && n3 != st->s_len));
			if (ok) botpOCRAStepS(st_, x, p, s), o_none();
			hex_free(x, n1), hex_free(p, n2), hex_free(s, n3);
			if (!ok) return 0;
			continue;
		}
		if (!strchr("rvVN", c) || nf < 3 || !hex_ok(f[1]) || !t_arg(f[2], &t)) return 0;
		{
			octet* q = hex_arg(f[1], &qn);
			int ok = 1;
			if (qn < 4 || qn > 2 * st->q_max) ok = 0;
			else if (c == 'r' && nf == 3) botpOCRAStepR(otp, q, qn, (tm_time_t)t, st_), o_otp(otp);
			else if (c == 'v' && nf == 4)
			{
				char* o = otp_arg(f[3]);
				if (!o) ok = 0; else o_bool(botpOCRAStepV(o, q, qn, (tm_time_t)t, st_)), free(o);
			}
			else if ((c == 'V' || c == 'N') && nf == 3)
			{
				void* cp = st_copy();
				botpOCRAStepR(otp, q, qn, (tm_time_t)t, cp);
				if (c == 'N') botpOCRAStepR(otp, q, qn, (tm_time_t)t, cp);
				free(cp);
				o_bool(botpOCRAStepV(otp, q, qn, (tm_time_t)t, st_));
			}
			else ok = 0;
			hex_free(q, qn);
			if (!ok) return 0;
		}
	}
	return 1;
}

/* ------------------------------------------------------------------ one-shot high-level functions */
#define HX(i, p, n) do { if (!hex_ok(argv[i])) BAD(); p = hex_arg(argv[i], &n); } while (0)
static void put_err(err_t e) { printf("err%u", (unsigned)e); }
static void op_hl(int argc, char** argv)
{
	octet *k = 0, *iv = 0, *x = 0, *y = 0, *z = 0;
	size_t kn = 0, ivn = 0, xn = 0, yn = 0, zn = 0;
	const char* b;
	err_t e;
	if (argc < 3) BAD();
	b = argv[1];
	if (!strcmp(b, "ecb") && argc == 5)
	{	/* hl ecb e|d key data */
		HX(3, k, kn); HX(4, x, xn);
		e = argv[2][0] == 'e' ? beltECBEncr(x, x, xn, k, kn) : beltECBDecr(x, x, xn, k, kn);
		if (e) put_err(e); else put_hex(x, xn);
	}
	else if ((!strcmp(b, "cbc") || !strcmp(b, "cfb") || !strcmp(b, "ctr") || !strcmp(b, "bde") || !strcmp(b, "sde")) && argc == 6)
	{	/* hl X e|d key iv data */
		int en = argv[2][0] == 'e';
		HX(3, k, kn); HX(4, iv, ivn); HX(5, x, xn);
		if (ivn != 16) BAD();
		if (!strcmp(b, "cbc")) e = en ? beltCBCEncr(x, x, xn, k, kn, iv) : beltCBCDecr(x, x, xn, k, kn, iv);
		else if (!strcmp(b, "cfb")) e = en ? beltCFBEncr(x, x, xn, k, kn, iv) : beltCFBDecr(x, x, xn, k, kn, iv);
		else if (!strcmp(b, "ctr")) e = beltCTR(x, x, xn, k, kn, iv);
		else if (!strcmp(b, "bde")) e = en ? beltBDEEncr(x, x, xn, k, kn, iv) : beltBDEDecr(x, x, xn, k, kn, iv);
		else e = en ? beltSDEEncr(x, x, xn, k, kn, iv) : beltSDEDecr(x, x, xn, k, kn, iv);
		if (e) put_err(e); else put_hex(x, xn);
	}
	else if (!strcmp(b, "mac") && argc == 4)
	{	octet m[8]; HX(2, k, kn); HX(3, x, xn); e = beltMAC(m, x, xn, k, kn); if (e) put_err(e); else put_hex(m, 8); }
	else if (!strcmp(b, "hash") && argc == 3)
	{	octet h[32]; HX(2, x, xn); e = beltHash(h, x, xn); if (e) put_err(e); else put_hex(h, 32); }
	else if (!strcmp(b, "hmac") && argc == 4)
	{	octet h[32]; HX(2, k, kn); HX(3, x, xn); e = beltHMAC(h, x, xn, k, kn); if (e) put_err(e); else put_hex(h, 32); }
	else if ((!strcmp(b, "dwp") || !strcmp(b, "che")) && argc == 7 && argv[2][0] == 'w')
	{	/* hl dwp w key iv ad data -> ct mac */
		octet m[8];
		HX(3, k, kn); HX(4, iv, ivn); HX(5, y, yn); HX(6, x, xn);
		if (ivn != 16) BAD();
		e = b[0] == 'd' ? beltDWPWrap(x, m, x, xn, y, yn, k, kn, iv) : beltCHEWrap(x, m, x, xn, y, yn, k, kn, iv);
		if (e) put_err(e); else { put_hex(x, xn); fputc(' ', stdout); put_hex(m, 8); }
	}
	else if ((!strcmp(b, "dwp") || !strcmp(b, "che")) && argc == 8 && argv[2][0] == 'u')
	{	/* hl dwp u key iv ad ct mac -> pt | errN */
		HX(3, k, kn); HX(4, iv, ivn); HX(5, y, yn); HX(6, x, xn); HX(7, z, zn);
		if (ivn != 16 || zn != 8) BAD();
		e = b[0] == 'd' ? beltDWPUnwrap(x, x, xn, y, yn, z, k, kn, iv) : beltCHEUnwrap(x, x, xn, y, yn, z, k, kn, iv);
		if (e) put_err(e); else put_hex(x, xn);
	}
	else if (!strcmp(b, "krp") && argc == 6)
	{	/* hl krp m key level header */
		octet out[32];
		size_t m;
		if (!dec_ok(argv[2])) BAD();
		m = (size_t)u_arg(argv[2]);
		HX(3, k, kn); HX(4, y, yn); HX(5, z, zn);
		if (yn != 12 || zn != 16 || m > 32) BAD();
		e = beltKRP(out, m, k, kn, y, z);
		if (e) put_err(e); else put_hex(out, m);
	}
	else if (!strcmp(b, "bhash") && argc == 4)
	{	octet h[64]; size_t l; if (!dec_ok(argv[2])) BAD(); l = (size_t)u_arg(argv[2]); HX(3, x, xn);
		if (l == 0 || l % 16 || l > 256) BAD();
		e = bashHash(h, l, x, xn); if (e) put_err(e); else put_hex(h, l / 4); }
	else if (!strcmp(b, "bctr") && argc == 5)
	{	/* hl bctr key iv bufdata -> out iv' */
		HX(2, k, kn); HX(3, iv, ivn); HX(4, x, xn);
		if (kn != 32 || ivn != 32) BAD();
		e = brngCTRRand(x, xn, k, iv);
		if (e) put_err(e); else { put_hex(x, xn); fputc(' ', stdout); put_hex(iv, 32); }
	}
	else if (!strcmp(b, "bhmac") && argc == 5)
	{	/* hl bhmac key iv count */
		size_t n;
		HX(2, k, kn); HX(3, iv, ivn);
		if (!dec_ok(argv[4]) || (n = (size_t)u_arg(argv[4])) > 65536) BAD();
		x = (octet*)malloc(n ? n : 1), xn = n;
		e = brngHMACRand(x, n, k, kn, iv, ivn);
		if (e) put_err(e); else put_hex(x, n);
		free(x); x = 0;
	}
	else if (!strcmp(b, "hotp") && argc == 5)
	{	/* hl hotp digit key ctr */
		char otp[16]; size_t dg; if (!dec_ok(argv[2])) BAD(); dg = (size_t)u_arg(argv[2]);
		HX(3, k, kn); HX(4, y, yn); if (yn != 8) BAD();
		e = botpHOTPRand(otp, dg, k, kn, y); if (e) put_err(e); else put_hex(otp, strlen(otp)); }
	else if (!strcmp(b, "totp") && argc == 5)
	{	char otp[16]; size_t dg; unsigned long long t; if (!dec_ok(argv[2]) || !t_arg(argv[4], &t)) BAD(); dg = (size_t)u_arg(argv[2]);
		HX(3, k, kn);
		e = botpTOTPRand(otp, dg, k, kn, (tm_time_t)t); if (e) put_err(e); else put_hex(otp, strlen(otp)); }
	else if (!strcmp(b, "ocra") && argc == 9)
	{	/* hl ocra suite key q ctr p s t */
		char otp[16], *su; unsigned long long t; octet *q = 0, *c = 0; size_t qn, cn, sun;
		octet* s0;
		if (!hex_ok(argv[2]) || !t_arg(argv[8], &t)) BAD();
		s0 = hex_arg(argv[2], &sun);
		su = (char*)malloc(sun + 1); memcpy(su, s0, sun); su[sun] = 0; hex_free(s0, sun);
		HX(3, k, kn); HX(4, q, qn); HX(5, c, cn); HX(6, y, yn); HX(7, z, zn);
		e = botpOCRARand(otp, su, k, kn, q, qn, c, y, z, (tm_time_t)t);
		if (e) put_err(e); else put_hex(otp, strlen(otp));
		free(su); hex_free(q, qn); hex_free(c, cn);
	}
	else BAD();
	if (k) hex_free(k, kn);
	if (iv) hex_free(iv, ivn);
	if (x) hex_free(x, xn);
	if (y) hex_free(y, yn);
	if (z) hex_free(z, zn);
}

/* ------------------------------------------------------------------ dispatch */
static void handle(int argc, char** argv)
{
	octet *k = 0, *iv = 0;
	size_t kn = 0, ivn = 0;
	const char* b;
	int ok = 0, keepiv = 0;
	olen_ = 0, obuf_[0] = 0, dumpk_ = 0;
	if (argc < 1) BAD();
	b = argv[0];
	if (!strcmp(b, "hl")) { op_hl(argc, argv); return; }
#define KEY(i) do { if (argc <= i || !hex_ok(argv[i])) BAD(); k = hex_arg(argv[i], &kn); } while (0)
#define IV(i) do { if (argc <= i || !hex_ok(argv[i])) { hex_free(k, kn); BAD(); } iv = hex_arg(argv[i], &ivn); } while (0)
#define DROP() do { if (k) { memset(k, 0xA5, kn); hex_free(k, kn); k = 0; } if (iv) { memset(iv, 0xA5, ivn); hex_free(iv, ivn); iv = 0; } } while (0)
#define CHK(c) do { if (!(c)) { if (k) hex_free(k, kn); if (iv) hex_free(iv, ivn); BAD(); } } while (0)
	if (!strcmp(b, "ecb"))
	{
		KEY(1); CHK(key_ok(kn));
		st_new(beltECB_keep()); beltECBStart(st_, k, kn);
		DROP();
		ok = run_E(argc, argv, 2, beltECBStepE, beltECBStepD);
	}
	else if (!strcmp(b, "cbc"))
	{
		KEY(1); IV(2); CHK(key_ok(kn) && ivn == 16);
		st_new(beltCBC_keep()); beltCBCStart(st_, k, kn, iv);
		DROP();
		ok = run_E(argc, argv, 3, beltCBCStepE, beltCBCStepD);
	}
	else if (!strcmp(b, "cfb"))
	{
		KEY(1); IV(2); CHK(key_ok(kn) && ivn == 16);
		st_new(beltCFB_keep()); beltCFBStart(st_, k, kn, iv);
		DROP();
		ok = run_E(argc, argv, 3, beltCFBStepE, beltCFBStepD);
	}
	else if (!strcmp(b, "ctr"))
	{
		KEY(1); IV(2); CHK(key_ok(kn) && ivn == 16);
		st_new(beltCTR_keep()); beltCTRStart(st_, k, kn, iv);
		DROP();
		ok = run_E(argc, argv, 3, beltCTRStepE, beltCTRStepE);
	}
	else if (!strcmp(b, "bde"))
	{
		KEY(1); IV(2); CHK(key_ok(kn) && ivn == 16);
		st_new(beltBDE_keep()); beltBDEStart(st_, k, kn, iv);
		DROP();
		ok = run_E(argc, argv, 3, beltBDEStepE, beltBDEStepD);
	}
	else if (!strcmp(b, "sde"))
	{
		KEY(1); CHK(key_ok(kn));
		st_new(beltSDE_keep()); beltSDEStart(st_, k, kn);
		DROP();
		ok = run_sde(argc, argv, 2);
	}
	else if (!strcmp(b, "mac"))
	{
		KEY(1); CHK(key_ok(kn));
		st_new(beltMAC_keep()); beltMACStart(st_, k, kn);
		DROP();
		ok = run_A(argc, argv, 2, 8, beltMACStepA, beltMACStepG2, beltMACStepV2);
	}
	else if (!strcmp(b, "hash"))
	{
		st_new(beltHash_keep()); beltHashStart(st_);
		DROP();
		ok = run_A(argc, argv, 1, 32, beltHashStepH, beltHashStepG2, beltHashStepV2);
	}
	else if (!strcmp(b, "hmac"))
	{
		KEY(1);
		st_new(beltHMAC_keep()); beltHMACStart(st_, k, kn);
		DROP();
		ok = run_A(argc, argv, 2, 32, beltHMACStepA, beltHMACStepG2, beltHMACStepV2);
	}
	else if (!strcmp(b, "dwp"))
	{
		KEY(1); IV(2); CHK(key_ok(kn) && ivn == 16);
		st_new(beltDWP_keep()); beltDWPStart(st_, k, kn, iv);
		DROP();
		ok = run_aead(argc, argv, 3, &dwp_);
	}
	else if (!strcmp(b, "che"))
	{
		KEY(1); IV(2); CHK(key_ok(kn) && ivn == 16);
		st_new(beltCHE_keep()); beltCHEStart(st_, k, kn, iv);
		DROP();
		ok = run_aead(argc, argv, 3, &che_);
	}
	else if (!strcmp(b, "krp"))
	{
		KEY(1); IV(2); CHK(key_ok(kn) && ivn == 12);
		st_new(beltKRP_keep()); beltKRPStart(st_, k, kn, iv);
		DROP();
		dumpk_ = 1;
		ok = run_krp(argc, argv, 3, kn);
	}
	else if (!strcmp(b, "bhash"))
	{
		size_t l;
		if (argc < 2 || !dec_ok(argv[1])) BAD();
		l = (size_t)u_arg(argv[1]);
		if (l == 0 || l % 16 || l > 256) BAD();
		st_new(bashHash_keep()); bashHashStart(st_, l);
		DROP();
		dumpk_ = 2;
		ok = run_A(argc, argv, 2, l / 4, bashHashStepH, bashG, bashV);
	}
	else if (!strcmp(b, "prg"))
	{
		size_t l, d;
		if (argc < 5 || !dec_ok(argv[1]) || !dec_ok(argv[2])) BAD();
		l = (size_t)u_arg(argv[1]), d = (size_t)u_arg(argv[2]);
		if (!(l == 128 || l == 192 || l == 256) || !(d == 1 || d == 2)) BAD();
		if (!hex_ok(argv[3])) BAD();
		iv = hex_arg(argv[3], &ivn);	/* announcement */
		if (!hex_ok(argv[4])) { hex_free(iv, ivn); BAD(); }
		k = hex_arg(argv[4], &kn);
		CHK(prg_len_ok(ivn, kn, l));
		st_new(bashPrg_keep()); bashPrgStart(st_, l, d, iv, ivn, k, kn); prg_keyed_ = kn != 0;
		DROP();
		ok = run_prg(argc, argv, 5);
	}
	else if (!strcmp(b, "bctr"))
	{
		KEY(1); IV(2); CHK(kn == 32 && ivn == 32);
		st_new(brngCTR_keep()); brngCTRStart(st_, k, iv);
		DROP();
		ok = run_bctr(argc, argv, 3);
	}
	else if (!strcmp(b, "bhmac"))
	{
		KEY(1); IV(2);
		st_new(brngHMAC_keep()); brngHMACStart(st_, k, kn, iv, ivn);
		/* brng.h: for iv_len > 64 the caller's iv buffer must stay valid and unchanged while the state is
		   used; for iv_len <= 64 the iv is stored IN the state, so the caller's buffer is destroyed here */
		if (ivn > 64) keepiv = 1;
		else { memset(iv, 0xA5, ivn); hex_free(iv, ivn); iv = 0; }
		memset(k, 0xA5, kn); hex_free(k, kn); k = 0;
		ok = run_bhmac(argc, argv, 3);
	}
	else if (!strcmp(b, "hotp"))
	{
		size_t dg;
		if (argc < 4 || !dec_ok(argv[1])) BAD();
		dg = (size_t)u_arg(argv[1]);
		if (dg < 4 || dg > 9) BAD();
		KEY(2); IV(3); CHK(ivn == 8);
		st_new(botpHOTP_keep()); botpHOTPStart(st_, dg, k, kn); botpHOTPStepS(st_, iv);
		DROP();
		ok = run_hotp(argc, argv, 4);
	}
	else if (!strcmp(b, "totp"))
	{
		size_t dg;
		if (argc < 3 || !dec_ok(argv[1])) BAD();
		dg = (size_t)u_arg(argv[1]);
		if (dg < 4 || dg > 9) BAD();
		KEY(2);
		st_new(botpTOTP_keep()); botpTOTPStart(st_, dg, k, kn);
		DROP();
		dumpk_ = 3;
		ok = run_totp(argc, argv, 3);
	}
	else if (!strcmp(b, "ocra"))
	{
		char* su;
		if (argc < 3 || !hex_ok(argv[1])) BAD();
		iv = hex_arg(argv[1], &ivn);
		if (memchr(iv, 0, ivn)) { hex_free(iv, ivn); BAD(); }
		if (!hex_ok(argv[2])) { hex_free(iv, ivn); BAD(); }
		k = hex_arg(argv[2], &kn);
		su = (char*)malloc(ivn + 1); memcpy(su, iv, ivn); su[ivn] = 0;
		st_new(botpOCRA_keep());
		if (!botpOCRAStart(st_, su, k, kn)) { free(su); st_free(); hex_free(k, kn); hex_free(iv, ivn); printf("bad-format"); return; }
		memset(su, 0xA5, ivn); free(su);
		DROP();
		ok = run_ocra(argc, argv, 3);
	}
	else BAD();
	(void)keepiv;
	if (st_) st_free();
	if (k) hex_free(k, kn);
	if (iv) hex_free(iv, ivn);
	if (ok) o_flush(); else printf("bad-op");
}

/* Shared by harness/c09.c and harness/c15.c: allocator interposers (link with
   -Wl,--wrap=malloc,--wrap=free,--wrap=realloc,--wrap=blobCreate,--wrap=blobClose,--wrap=blobResize),
   the secret scanner, the output canaries and the table of scenarios (one scenario = one
   high-level function on one exit: success or a distinct error exit).

   The interposed realloc ALWAYS moves the block (adversarial but legal allocator): the old
   block is snapshotted and scanned exactly like a freed one. */
#ifndef BEE2V_C09_COMMON_H
#define BEE2V_C09_COMMON_H
#ifndef _GNU_SOURCE
#define _GNU_SOURCE
#endif
#include <stdio.h>
#include <stdlib.h>
#include <string.h>
#include <stdint.h>
#include <elf.h>
#include <link.h>
#include "bee2/core/blob.h"
#include "bee2/core/err.h"
#include "bee2/core/mem.h"
#include "bee2/core/prng.h"
#include "bee2/core/hex.h"
#include "bee2/core/str.h"
#include "bee2/core/tm.h"
#include "bee2/core/util.h"
#include "bee2/crypto/bash.h"
#include "bee2/crypto/bels.h"
#include "bee2/crypto/belt.h"
#include "bee2/crypto/bign.h"
#include "bee2/crypto/bake.h"
#include "bee2/crypto/botp.h"
#include "bee2/crypto/bpki.h"
#include "bee2/crypto/brng.h"

/* Without -DC09_WRAP (no --wrap link flags: the C19 stream builds this harness plainly) the interposers are
   dead code and the `__real_` names are the ordinary functions; only `chk` is meaningful then. */
#ifndef C09_WRAP
#define __real_malloc malloc
#define __real_free free
#define __real_realloc realloc
#define __real_blobCreate blobCreate
#define __real_blobClose blobClose
#define __real_blobResize blobResize
#endif
void* __real_malloc(size_t);
void __real_free(void*);
void* __real_realloc(void*, size_t);
blob_t __real_blobCreate(size_t);
void __real_blobClose(blob_t);
blob_t __real_blobResize(blob_t, size_t);

/* ------------------------------------------------------------------ symbol table (owner of a call) */
typedef struct { uintptr_t lo, hi; const char* name; } sym_t;
static sym_t* g_syms; static size_t g_nsyms; static char* g_strtab;

static int find_bias(struct dl_phdr_info* info, size_t sz, void* data)
{
	if (info->dlpi_name == 0 || info->dlpi_name[0] == 0) { *(uintptr_t*)data = info->dlpi_addr; return 1; }
	return 0;
}

static void syms_load(void)
{
	FILE* f = fopen("/proc/self/exe", "rb");
	Elf64_Ehdr eh; Elf64_Shdr* sh; size_t i, j; uintptr_t bias = 0;
	if (!f) return;
	dl_iterate_phdr(find_bias, &bias);
	if (fread(&eh, sizeof eh, 1, f) != 1) { fclose(f); return; }
	sh = (Elf64_Shdr*)__real_malloc(eh.e_shnum * sizeof(Elf64_Shdr));
	fseek(f, (long)eh.e_shoff, SEEK_SET);
	if (fread(sh, sizeof(Elf64_Shdr), eh.e_shnum, f) != eh.e_shnum) { fclose(f); return; }
	for (i = 0; i < eh.e_shnum; ++i)
		if (sh[i].sh_type == SHT_SYMTAB)
		{
			Elf64_Shdr* st = &sh[sh[i].sh_link];
			size_t n = sh[i].sh_size / sizeof(Elf64_Sym);
			Elf64_Sym* sy = (Elf64_Sym*)__real_malloc(sh[i].sh_size);
			g_strtab = (char*)__real_malloc(st->sh_size);
			fseek(f, (long)sh[i].sh_offset, SEEK_SET);
			if (fread(sy, sizeof(Elf64_Sym), n, f) != n) break;
			fseek(f, (long)st->sh_offset, SEEK_SET);
			if (fread(g_strtab, 1, st->sh_size, f) != st->sh_size) break;
			g_syms = (sym_t*)__real_malloc(n * sizeof(sym_t));
			for (j = 0; j < n; ++j)
				if (ELF64_ST_TYPE(sy[j].st_info) == STT_FUNC && sy[j].st_size)
				{
					g_syms[g_nsyms].lo = bias + sy[j].st_value;
					g_syms[g_nsyms].hi = bias + sy[j].st_value + sy[j].st_size;
					g_syms[g_nsyms].name = g_strtab + sy[j].st_name;
					++g_nsyms;
				}
			__real_free(sy);
			break;
		}
	__real_free(sh);
	fclose(f);
}

static const char* sym_of(void* a)
{
	size_t i; uintptr_t x = (uintptr_t)a;
	for (i = 0; i < g_nsyms; ++i)
		if (g_syms[i].lo <= x && x < g_syms[i].hi) return g_syms[i].name;
	return "?";
}

/* ------------------------------------------------------------------ secrets and outputs */
#define MAXSEC 16
static struct { unsigned char b[128]; size_t n; const char* what; } g_sec[MAXSEC];
static int g_nsec;
static void sec_reset(void) { g_nsec = 0; }
static void sec_add(const void* p, size_t n, const char* what)
{
	if (g_nsec < MAXSEC && n >= 8 && n <= 128) { memcpy(g_sec[g_nsec].b, p, n); g_sec[g_nsec].n = n; g_sec[g_nsec].what = what; ++g_nsec; }
}
/* a released block "contains the secret" if any 8-octet window of a registered secret occurs in it
   (8 octets of a uniformly chosen pattern: chance coincidence negligible) */
static const char* g_leak_what; static const char* g_leak_by; static int g_leaks;
static void scan_block(const unsigned char* p, size_t n, const char* by)
{
	int s; size_t off, i;
	for (s = 0; s < g_nsec; ++s)
		for (off = 0; off + 8 <= g_sec[s].n; off += 4)
			for (i = 0; i + 8 <= n; ++i)
				if (p[i] == g_sec[s].b[off] && memcmp(p + i, g_sec[s].b + off, 8) == 0)
				{ ++g_leaks; g_leak_what = g_sec[s].what; g_leak_by = by; return; }
}

#define MAXOUT 8
static struct { unsigned char* p; size_t n; } g_out[MAXOUT];
static int g_nout;
static void out_reset(void) { g_nout = 0; }
static void out_add(void* p, size_t n) { if (g_nout < MAXOUT) { memset(p, 0xC5, n); g_out[g_nout].p = (unsigned char*)p; g_out[g_nout].n = n; ++g_nout; } }
/* 0 = every output still the canary, 1 = some output all zero and the rest canary, 2 = written */
static int out_state(void)
{
	int i, res = 0; size_t j;
	for (i = 0; i < g_nout; ++i)
	{
		int can = 1, zero = 1;
		for (j = 0; j < g_out[i].n; ++j) { if (g_out[i].p[j] != 0xC5) can = 0; if (g_out[i].p[j] != 0) zero = 0; }
		if (can) continue;
		if (zero && g_out[i].n) { if (res < 1) res = 1; } else res = 2;
	}
	return res;
}

/* ------------------------------------------------------------------ interposers */
#define MAXBLK 256
static struct { void* p; size_t n; } g_blk[MAXBLK];
static int g_on; static long g_nalloc, g_nfree, g_fail_at, g_failed;
static char g_own[512]; static const char* g_top;   /* own events of the function under test */

static void blk_add(void* p, size_t n) { int i; for (i = 0; i < MAXBLK; ++i) if (!g_blk[i].p) { g_blk[i].p = p; g_blk[i].n = n; return; } }
static long blk_live(void) { int i; long k = 0; for (i = 0; i < MAXBLK; ++i) if (g_blk[i].p) ++k; return k; }
static int blk_find(void* p) { int i; for (i = 0; i < MAXBLK; ++i) if (g_blk[i].p == p) return i; return -1; }
static void blk_clear(void) { memset(g_blk, 0, sizeof g_blk); }

void* __wrap_malloc(size_t n)
{
	void* p;
	if (!g_on) return __real_malloc(n);
	++g_nalloc;
	if (g_nalloc == g_fail_at) { ++g_failed; return 0; }
	p = __real_malloc(n);
	if (p) blk_add(p, n);
	return p;
}
static void (*g_capture)(const unsigned char*, size_t);   /* optional: receives every released block */
void __wrap_free(void* p)
{
	int i;
	if (g_on && p)
	{
		i = blk_find(p);
		if (i >= 0)
		{
			++g_nfree; scan_block((unsigned char*)p, g_blk[i].n, "free");
			if (g_capture) g_capture((unsigned char*)p, g_blk[i].n);
			g_blk[i].p = 0;
		}
	}
	__real_free(p);
}
void* __wrap_realloc(void* p, size_t n)
{
	void* q; int i;
	if (!g_on) return __real_realloc(p, n);
	++g_nalloc;
	if (g_nalloc == g_fail_at) { ++g_failed; return 0; }
	if (!p) { q = __real_malloc(n); if (q) blk_add(q, n); return q; }
	i = blk_find(p);
	q = __real_malloc(n);
	if (!q) return 0;
	if (i >= 0)
	{
		memcpy(q, p, g_blk[i].n < n ? g_blk[i].n : n);
		++g_nfree;
		scan_block((unsigned char*)p, g_blk[i].n, "realloc");   /* old block released as it is */
		g_blk[i].p = 0;
		__real_free(p);
	}
	else
		q = __real_realloc(p, n);
	blk_add(q, n);
	return q;
}

static void own_ev(void* ra, const char* ev)
{
	if (g_on && g_top && strcmp(sym_of(ra), g_top) == 0 && strlen(g_own) + 4 < sizeof g_own)
	{ if (g_own[0]) strcat(g_own, ","); strcat(g_own, ev); }
}
blob_t __wrap_blobCreate(size_t size)
{
	blob_t b = __real_blobCreate(size);
	own_ev(__builtin_return_address(0), b ? "A" : "N");
	return b;
}
void __wrap_blobClose(blob_t b)
{
	own_ev(__builtin_return_address(0), b ? "C" : "C0");
	__real_blobClose(b);
}
blob_t __wrap_blobResize(blob_t b, size_t size)
{
	blob_t r = __real_blobResize(b, size);
	own_ev(__builtin_return_address(0), r ? "R" : "RN");
	return r;
}

static void track_begin(const char* top, long fail_at)
{
	blk_clear(); g_nalloc = g_nfree = g_failed = 0; g_fail_at = fail_at; g_leaks = 0; g_leak_what = g_leak_by = "-";
	g_own[0] = 0; g_top = top; g_on = 1;
}
static void track_end(void) { g_on = 0; }

/* ------------------------------------------------------------------ fixed test material */
static unsigned char K32[32], IV16[16], HDR16[16], DATA[1024], BUF1[2048], BUF2[2048], BUF3[2048], MAC8[8];
static char OTP[16];
static void material(void)
{
	int i;
	for (i = 0; i < 32; ++i) K32[i] = (unsigned char)(0xA1 + 7 * i + (i * i) % 13);
	for (i = 0; i < 16; ++i) IV16[i] = (unsigned char)(0x3C ^ (11 * i)), HDR16[i] = (unsigned char)(0x50 + i);
	for (i = 0; i < 1024; ++i) DATA[i] = (unsigned char)(i * 31 + 7);
}
/* expanded key (beltKeyExpand2 form): for 32-octet keys the words equal the key octets (LE);
   16/24-octet keys are expanded by repetition / xor — computed by the library itself */
static void sec_add_key(const unsigned char* k, size_t len)
{
	u32 w[8];
	sec_add(k, len, "key");
	beltKeyExpand2(w, k, len);
	sec_add(w, 32, "expanded-key");
}

static bign_params PARAMS[1];
static unsigned char PRIV[32], PUB[64], TAPE[256];
static octet ECHO[1024];   /* prngEcho state */
static const char OID_HBELT[] = "1.2.112.0.2.0.34.101.31.81";
static int bign_ready;
static void bign_setup(void)
{
	int i;
	if (bign_ready) return;
	bignParamsStd(PARAMS, "1.2.112.0.2.0.34.101.45.3.1");
	for (i = 0; i < 32; ++i) PRIV[i] = (unsigned char)(0x17 + 5 * i + (i * i) % 11);
	PRIV[31] &= 0x3F;
	bignPubkeyCalc(PUB, PARAMS, PRIV);
	for (i = 0; i < 256; ++i) TAPE[i] = (unsigned char)(0x6B + 13 * i + (i * i) % 17);
	TAPE[31] &= 0x3F; TAPE[63] &= 0x3F;
	bign_ready = 1;
}
static void tape_start(void) { prngEchoStart(ECHO, TAPE, 256); }

/* ------------------------------------------------------------------ scenarios
   each returns the err_t of the call under test; `g_expect` = the code the documentation
   promises on this exit; `g_outdoc`: 0 outputs must be untouched on error, 1 may be zeroised */
static err_t g_expect; static int g_outdoc;
#define RUN(top, call) (track_begin(top, g_inject), code = (call), track_end(), code)
static long g_inject;

typedef struct { const char* name; const char* fn; int nvar; err_t (*run)(int var); } scen_t;

/* belt modes with key K32/len: var 0 ok, var 1 short key length (pre-allocation reject) */
#define BELT_SIMPLE(NAME, FN, CALL_OK, CALL_BAD) \
static err_t NAME(int var) { err_t code; material(); sec_reset(); out_reset(); sec_add_key(K32, 32); \
	out_add(BUF1, 256); out_add(MAC8, 8); \
	if (var == 0) { g_expect = ERR_OK; return RUN(FN, CALL_OK); } \
	g_expect = ERR_BAD_INPUT; return RUN(FN, CALL_BAD); }

BELT_SIMPLE(s_ecbE, "beltECBEncr", beltECBEncr(BUF1, DATA, 100, K32, 32), beltECBEncr(BUF1, DATA, 100, K32, 17))
BELT_SIMPLE(s_ecbD, "beltECBDecr", beltECBDecr(BUF1, DATA, 100, K32, 32), beltECBDecr(BUF1, DATA, 15, K32, 32))
BELT_SIMPLE(s_cbcE, "beltCBCEncr", beltCBCEncr(BUF1, DATA, 100, K32, 32, IV16), beltCBCEncr(BUF1, DATA, 100, K32, 0, IV16))
BELT_SIMPLE(s_cbcD, "beltCBCDecr", beltCBCDecr(BUF1, DATA, 100, K32, 32, IV16), beltCBCDecr(BUF1, DATA, 15, K32, 32, IV16))
BELT_SIMPLE(s_cfbE, "beltCFBEncr", beltCFBEncr(BUF1, DATA, 100, K32, 32, IV16), beltCFBEncr(BUF1, DATA, 100, K32, 33, IV16))
BELT_SIMPLE(s_cfbD, "beltCFBDecr", beltCFBDecr(BUF1, DATA, 100, K32, 32, IV16), beltCFBDecr(BUF1, DATA, 100, K32, 8, IV16))
BELT_SIMPLE(s_ctr, "beltCTR", beltCTR(BUF1, DATA, 100, K32, 32, IV16), beltCTR(BUF1, DATA, 100, K32, 31, IV16))
BELT_SIMPLE(s_mac, "beltMAC", beltMAC(MAC8, DATA, 100, K32, 32), beltMAC(MAC8, DATA, 100, K32, 25))
BELT_SIMPLE(s_bdeE, "beltBDEEncr", beltBDEEncr(BUF1, DATA, 96, K32, 32, IV16), beltBDEEncr(BUF1, DATA, 100, K32, 32, IV16))
BELT_SIMPLE(s_bdeD, "beltBDEDecr", beltBDEDecr(BUF1, DATA, 96, K32, 32, IV16), beltBDEDecr(BUF1, DATA, 0, K32, 32, IV16))
BELT_SIMPLE(s_sdeE, "beltSDEEncr", beltSDEEncr(BUF1, DATA, 96, K32, 32, IV16), beltSDEEncr(BUF1, DATA, 16, K32, 32, IV16))
BELT_SIMPLE(s_sdeD, "beltSDEDecr", beltSDEDecr(BUF1, DATA, 96, K32, 32, IV16), beltSDEDecr(BUF1, DATA, 96, K32, 24 + 1, IV16))
BELT_SIMPLE(s_hmac, "beltHMAC", beltHMAC(BUF1, DATA, 100, K32, 32), beltHMAC(0, DATA, 100, K32, 32))
BELT_SIMPLE(s_dwpW, "beltDWPWrap", beltDWPWrap(BUF1, MAC8, DATA, 100, DATA + 200, 50, K32, 32, IV16), beltDWPWrap(BUF1, MAC8, DATA, 100, DATA + 200, 50, K32, 30, IV16))
BELT_SIMPLE(s_cheW, "beltCHEWrap", beltCHEWrap(BUF1, MAC8, DATA, 100, DATA + 200, 50, K32, 32, IV16), beltCHEWrap(BUF1, MAC8, DATA, 100, DATA + 200, 50, K32, 30, IV16))
BELT_SIMPLE(s_kwpW, "beltKWPWrap", beltKWPWrap(BUF1, DATA, 40, HDR16, K32, 32), beltKWPWrap(BUF1, DATA, 15, HDR16, K32, 32))

static u16 FSRC[64], FDST[64];
static err_t s_fmtE(int var)
{
	err_t code; int i; material(); sec_reset(); out_reset(); sec_add_key(K32, 32);
	for (i = 0; i < 64; ++i) FSRC[i] = (u16)(i % 10);
	out_add(FDST, sizeof FDST);
	if (var == 0) { g_expect = ERR_OK; return RUN("beltFMTEncr", beltFMTEncr(FDST, 10, FSRC, 20, K32, 32, IV16)); }
	if (var == 1) { g_expect = ERR_BAD_INPUT; return RUN("beltFMTEncr", beltFMTEncr(FDST, 1, FSRC, 20, K32, 32, IV16)); }
	g_expect = ERR_NOT_IMPLEMENTED; return RUN("beltFMTEncr", beltFMTEncr(FDST, 10, FSRC, 601, K32, 32, IV16));
}
static err_t s_fmtD(int var)
{
	err_t code; int i; material(); sec_reset(); out_reset(); sec_add_key(K32, 32);
	for (i = 0; i < 64; ++i) FSRC[i] = (u16)(i % 10);
	out_add(FDST, sizeof FDST);
	if (var == 0) { g_expect = ERR_OK; return RUN("beltFMTDecr", beltFMTDecr(FDST, 10, FSRC, 20, K32, 32, IV16)); }
	g_expect = ERR_BAD_INPUT; return RUN("beltFMTDecr", beltFMTDecr(FDST, 65537, FSRC, 20, K32, 32, IV16));
}

/* authenticated unwraps: var 0 ok, 1 authentication failure, 2 bad length */
static err_t s_dwpU(int var)
{
	err_t code; material(); sec_reset(); out_reset(); sec_add_key(K32, 32);
	beltDWPWrap(BUF2, MAC8, DATA, 100, DATA + 200, 50, K32, 32, IV16);
	memcpy(BUF3, MAC8, 8); if (var == 1) BUF3[3] ^= 0x10;
	out_add(BUF1, 256); g_outdoc = 0;
	g_expect = var == 0 ? ERR_OK : var == 1 ? ERR_BAD_MAC : ERR_BAD_INPUT;
	return RUN("beltDWPUnwrap", beltDWPUnwrap(BUF1, BUF2, 100, DATA + 200, 50, BUF3, K32, var == 2 ? 5 : 32, IV16));
}
static err_t s_cheU(int var)
{
	err_t code; material(); sec_reset(); out_reset(); sec_add_key(K32, 32);
	beltCHEWrap(BUF2, MAC8, DATA, 100, DATA + 200, 50, K32, 32, IV16);
	memcpy(BUF3, MAC8, 8); if (var == 1) BUF3[7] ^= 0x01;
	out_add(BUF1, 256); g_outdoc = 0;
	g_expect = var == 0 ? ERR_OK : var == 1 ? ERR_BAD_MAC : ERR_BAD_INPUT;
	return RUN("beltCHEUnwrap", beltCHEUnwrap(BUF1, BUF2, 100, DATA + 200, 50, BUF3, K32, var == 2 ? 5 : 32, IV16));
}
static err_t s_kwpU(int var)
{
	err_t code; material(); sec_reset(); out_reset(); sec_add_key(K32, 32);
	sec_add(DATA, 40, "wrapped-key");
	beltKWPWrap(BUF2, DATA, 40, HDR16, K32, 32);
	if (var == 1) BUF2[20] ^= 0x04;
	out_add(BUF1, 40); g_outdoc = 1;
	g_expect = var == 0 ? ERR_OK : var == 1 ? ERR_BAD_KEYTOKEN : ERR_BAD_INPUT;
	return RUN("beltKWPUnwrap", beltKWPUnwrap(BUF1, BUF2, var == 2 ? 31 : 56, HDR16, K32, 32));
}
static err_t s_pbkdf(int var)
{
	err_t code; material(); sec_reset(); out_reset();
	sec_add(DATA + 300, 24, "password");
	out_add(BUF1, 32);
	if (var == 0) { g_expect = ERR_OK; return RUN("beltPBKDF2", beltPBKDF2(BUF1, DATA + 300, 24, 100, IV16, 8)); }
	g_expect = ERR_BAD_INPUT; return RUN("beltPBKDF2", beltPBKDF2(BUF1, DATA + 300, 24, 0, IV16, 8));
}
static err_t s_krp(int var)
{
	err_t code; material(); sec_reset(); out_reset(); sec_add_key(K32, 32);
	out_add(BUF1, 32);
	if (var == 0) { g_expect = ERR_OK; return RUN("beltKRP", beltKRP(BUF1, 32, K32, 32, DATA, HDR16)); }
	g_expect = ERR_BAD_INPUT; return RUN("beltKRP", beltKRP(BUF1, 32, K32, 24, DATA, HDR16));
}
static err_t s_brngctr(int var)
{
	err_t code; material(); sec_reset(); out_reset(); sec_add(K32, 32, "key");
	memcpy(BUF2, DATA, 32); out_add(BUF1, 100);
	g_expect = ERR_OK; return RUN("brngCTRRand", brngCTRRand(BUF1, 100, K32, BUF2));
}
static err_t s_brnghmac(int var)
{
	err_t code; material(); sec_reset(); out_reset(); sec_add(K32, 32, "key");
	out_add(BUF1, 100);
	g_expect = ERR_OK; return RUN("brngHMACRand", brngHMACRand(BUF1, 100, K32, 32, DATA, 40));
}
static err_t s_hotpR(int var)
{
	err_t code; material(); sec_reset(); out_reset(); sec_add(K32, 32, "key");
	out_add(OTP, 9);
	if (var == 0) { g_expect = ERR_OK; return RUN("botpHOTPRand", botpHOTPRand(OTP, 8, K32, 32, DATA)); }
	g_expect = ERR_BAD_PARAMS; return RUN("botpHOTPRand", botpHOTPRand(OTP, 9, K32, 32, DATA));
}
static err_t s_hotpV(int var)
{
	err_t code; material(); sec_reset(); out_reset(); sec_add(K32, 32, "key");
	botpHOTPRand(OTP, 8, K32, 32, DATA);
	if (var == 1) OTP[2] = (char)('0' + (OTP[2] - '0' + 1) % 10);
	g_expect = var == 0 ? ERR_OK : ERR_BAD_PWD;
	return RUN("botpHOTPVerify", botpHOTPVerify(OTP, K32, 32, DATA));
}
static err_t s_totpR(int var)
{
	err_t code; material(); sec_reset(); out_reset(); sec_add(K32, 32, "key");
	out_add(OTP, 9);
	if (var == 0) { g_expect = ERR_OK; return RUN("botpTOTPRand", botpTOTPRand(OTP, 6, K32, 32, 1000000)); }
	g_expect = ERR_BAD_TIME; return RUN("botpTOTPRand", botpTOTPRand(OTP, 6, K32, 32, TIME_ERR));
}
static err_t s_totpV(int var)
{
	err_t code; material(); sec_reset(); out_reset(); sec_add(K32, 32, "key");
	botpTOTPRand(OTP, 7, K32, 32, 1000000);
	if (var == 1) OTP[0] = (char)('0' + (OTP[0] - '0' + 3) % 10);
	g_expect = var == 0 ? ERR_OK : ERR_BAD_PWD;
	return RUN("botpTOTPVerify", botpTOTPVerify(OTP, K32, 32, 1000000));
}
static err_t s_ocraR(int var)
{
	err_t code; material(); sec_reset(); out_reset(); sec_add(K32, 32, "key");
	out_add(OTP, 9);
	if (var == 0) { g_expect = ERR_OK; return RUN("botpOCRARand", botpOCRARand(OTP, "OCRA-1:HOTP-HBELT-8:C-QN08", K32, 32, DATA, 8, DATA + 64, 0, 0, 0)); }
	g_expect = ERR_BAD_FORMAT; return RUN("botpOCRARand", botpOCRARand(OTP, "OCRA-2:HOTP-HBELT-8:C-QN08", K32, 32, DATA, 8, DATA + 64, 0, 0, 0));
}
/* bels: secret S = K32[0..16) */
static err_t s_belsS2(int var)
{
	err_t code; material(); bign_setup(); sec_reset(); out_reset(); sec_add(K32, 16, "secret");
	tape_start(); out_add(BUF1, 5 * 17);
	if (var == 0) { g_expect = ERR_OK; return RUN("belsShare2", belsShare2(BUF1, 5, 3, 16, K32, prngEchoStepR, ECHO)); }
	g_expect = ERR_BAD_INPUT; return RUN("belsShare2", belsShare2(BUF1, 2, 3, 16, K32, prngEchoStepR, ECHO));
}
static err_t s_belsS3(int var)
{
	err_t code; material(); sec_reset(); out_reset(); sec_add(K32, 16, "secret");
	out_add(BUF1, 5 * 17);
	if (var == 0) { g_expect = ERR_OK; return RUN("belsShare3", belsShare3(BUF1, 5, 3, 16, K32)); }
	g_expect = ERR_BAD_INPUT; return RUN("belsShare3", belsShare3(BUF1, 17, 3, 16, K32));
}
static err_t s_belsR2(int var)
{
	err_t code; material(); sec_reset(); out_reset(); sec_add(K32, 16, "secret");
	belsShare3(BUF2, 5, 3, 16, K32);
	out_add(BUF1, 16);
	if (var == 0) { g_expect = ERR_OK; return RUN("belsRecover2", belsRecover2(BUF1, 3, 16, BUF2)); }
	g_expect = ERR_BAD_INPUT; return RUN("belsRecover2", belsRecover2(BUF1, 0, 16, BUF2));
}
static err_t s_belsS(int var)
{
	err_t code; int i; material(); bign_setup(); sec_reset(); out_reset(); sec_add(K32, 16, "secret");
	belsStdM(BUF2, 16, 0);
	for (i = 0; i < 5; ++i) belsStdM(BUF3 + 16 * i, 16, (size_t)i + 1);
	tape_start(); out_add(BUF1, 5 * 16);
	if (var == 0) { g_expect = ERR_OK; return RUN("belsShare", belsShare(BUF1, 5, 3, 16, K32, BUF2, BUF3, prngEchoStepR, ECHO)); }
	g_expect = ERR_BAD_INPUT; return RUN("belsShare", belsShare(BUF1, 5, 0, 16, K32, BUF2, BUF3, prngEchoStepR, ECHO));
}
static err_t s_belsR(int var)
{
	err_t code; int i; material(); bign_setup(); sec_reset(); out_reset(); sec_add(K32, 16, "secret");
	belsStdM(BUF2, 16, 0);
	for (i = 0; i < 5; ++i) belsStdM(BUF3 + 16 * i, 16, (size_t)i + 1);
	tape_start(); belsShare(BUF2 + 512, 5, 3, 16, K32, BUF2, BUF3, prngEchoStepR, ECHO);
	out_add(BUF1, 16);
	if (var == 0) { g_expect = ERR_OK; return RUN("belsRecover", belsRecover(BUF1, 3, 16, BUF2 + 512, BUF2, BUF3)); }
	g_expect = ERR_BAD_INPUT; return RUN("belsRecover", belsRecover(BUF1, 3, 15, BUF2 + 512, BUF2, BUF3));
}
/* bign */
static unsigned char OIDDER[32]; static size_t OIDLEN;
static void oid_setup(void) { OIDLEN = sizeof OIDDER; bignOidToDER(OIDDER, &OIDLEN, OID_HBELT); }
static err_t s_bignGen(int var)
{
	err_t code; material(); bign_setup(); sec_reset(); out_reset();
	sec_add(TAPE, 32, "generated-privkey"); tape_start();
	g_expect = ERR_OK; return RUN("bignKeypairGen", bignKeypairGen(BUF1, BUF1 + 64, PARAMS, prngEchoStepR, ECHO));
}
static err_t s_bignCalc(int var)
{
	err_t code; material(); bign_setup(); sec_reset(); out_reset(); sec_add(PRIV, 32, "privkey");
	out_add(BUF1, 64);
	if (var == 0) { g_expect = ERR_OK; return RUN("bignPubkeyCalc", bignPubkeyCalc(BUF1, PARAMS, PRIV)); }
	memset(BUF2, 0xFF, 32); sec_reset(); g_expect = ERR_BAD_PRIVKEY;
	return RUN("bignPubkeyCalc", bignPubkeyCalc(BUF1, PARAMS, BUF2));
}
static err_t s_bignVal(int var)
{
	err_t code; material(); bign_setup(); sec_reset(); out_reset(); sec_add(PRIV, 32, "privkey");
	memcpy(BUF2, PUB, 64); if (var == 1) BUF2[5] ^= 1;
	g_expect = var == 0 ? ERR_OK : ERR_BAD_PUBKEY;
	return RUN("bignKeypairVal", bignKeypairVal(PARAMS, PRIV, BUF2));
}
static err_t s_bignDH(int var)
{
	err_t code; material(); bign_setup(); sec_reset(); out_reset(); sec_add(PRIV, 32, "privkey");
	bignPubkeyCalc(BUF2, PARAMS, TAPE);          /* peer key */
	if (var == 1) BUF2[40] ^= 0x20;               /* not on the curve */
	out_add(BUF1, 32);
	g_expect = var == 0 ? ERR_OK : var == 1 ? ERR_BAD_PUBKEY : ERR_BAD_SHAREDKEY;
	return RUN("bignDH", bignDH(BUF1, PARAMS, PRIV, BUF2, var == 2 ? 65 : 32));
}
static err_t s_bignSign(int var)
{
	err_t code; material(); bign_setup(); oid_setup(); sec_reset(); out_reset();
	sec_add(PRIV, 32, "privkey"); sec_add(TAPE, 32, "nonce-k"); tape_start();
	out_add(BUF1, 48);
	if (var == 0) { g_expect = ERR_OK; return RUN("bignSign", bignSign(BUF1, PARAMS, OIDDER, OIDLEN, DATA, PRIV, prngEchoStepR, ECHO)); }
	if (var == 1) { memset(BUF2, 0, 32); g_expect = ERR_BAD_PRIVKEY; return RUN("bignSign", bignSign(BUF1, PARAMS, OIDDER, OIDLEN, DATA, BUF2, prngEchoStepR, ECHO)); }
	g_expect = ERR_BAD_OID; return RUN("bignSign", bignSign(BUF1, PARAMS, OIDDER, OIDLEN - 1, DATA, PRIV, prngEchoStepR, ECHO));
}
static err_t s_bignSign2(int var)
{
	err_t code; material(); bign_setup(); oid_setup(); sec_reset(); out_reset();
	sec_add(PRIV, 32, "privkey");
	out_add(BUF1, 48);
	if (var == 0) { g_expect = ERR_OK; return RUN("bignSign2", bignSign2(BUF1, PARAMS, OIDDER, OIDLEN, DATA, PRIV, DATA + 100, 20)); }
	memset(BUF2, 0xFF, 32); g_expect = ERR_BAD_PRIVKEY;
	return RUN("bignSign2", bignSign2(BUF1, PARAMS, OIDDER, OIDLEN, DATA, BUF2, 0, 0));
}
static err_t s_bignKW(int var)
{
	err_t code; material(); bign_setup(); sec_reset(); out_reset();
	sec_add(K32, 32, "transported-key"); sec_add(TAPE, 32, "nonce-k"); tape_start();
	out_add(BUF1, 32 + 16 + 32);
	if (var == 0) { g_expect = ERR_OK; return RUN("bignKeyWrap", bignKeyWrap(BUF1, PARAMS, K32, 32, HDR16, PUB, prngEchoStepR, ECHO)); }
	memcpy(BUF2, PUB, 64); BUF2[40] ^= 0x20; g_expect = ERR_BAD_PUBKEY;
	return RUN("bignKeyWrap", bignKeyWrap(BUF1, PARAMS, K32, 32, HDR16, BUF2, prngEchoStepR, ECHO));
}
static err_t s_bignKU(int var)
{
	err_t code; material(); bign_setup(); sec_reset(); out_reset();
	tape_start(); bignKeyWrap(BUF2, PARAMS, K32, 32, HDR16, PUB, prngEchoStepR, ECHO);
	sec_add(PRIV, 32, "privkey"); sec_add(K32, 32, "transported-key");
	if (var == 1) BUF2[50] ^= 0x40;       /* integrity failure */
	if (var == 2) BUF2[3] ^= 0x01;        /* xR off the curve (most likely) */
	out_add(BUF1, 32); g_outdoc = 1;
	g_expect = var == 0 ? ERR_OK : ERR_BAD_KEYTOKEN;
	if (var == 3) { g_expect = ERR_BAD_KEYTOKEN; return RUN("bignKeyUnwrap", bignKeyUnwrap(BUF1, PARAMS, BUF2, 60, HDR16, PRIV)); }
	return RUN("bignKeyUnwrap", bignKeyUnwrap(BUF1, PARAMS, BUF2, 80, HDR16, PRIV));
}
/* bpki */
static size_t EPKI_LEN;
static err_t s_bpkiPW(int var)
{
	err_t code; material(); bign_setup(); sec_reset(); out_reset();
	sec_add(PRIV, 32, "privkey"); sec_add(DATA + 300, 24, "password");
	EPKI_LEN = 0; out_add(BUF1, 256);
	if (var == 0) { g_expect = ERR_OK; return RUN("bpkiPrivkeyWrap", bpkiPrivkeyWrap(BUF1, &EPKI_LEN, PRIV, 32, DATA + 300, 24, IV16, 10000)); }
	g_expect = ERR_BAD_INPUT; return RUN("bpkiPrivkeyWrap", bpkiPrivkeyWrap(BUF1, &EPKI_LEN, PRIV, 32, DATA + 300, 24, IV16, 9999));
}
static err_t s_bpkiPU(int var)
{
	err_t code; size_t n = 0; material(); bign_setup(); sec_reset(); out_reset();
	bpkiPrivkeyWrap(BUF2, &EPKI_LEN, PRIV, 32, DATA + 300, 24, IV16, 10000);
	sec_add(PRIV, 32, "privkey"); sec_add(DATA + 300, 24, "password");
	out_add(BUF1, 64); g_outdoc = 0;
	if (var == 0) { g_expect = ERR_OK; return RUN("bpkiPrivkeyUnwrap", bpkiPrivkeyUnwrap(BUF1, &n, BUF2, EPKI_LEN, DATA + 300, 24)); }
	if (var == 1) { g_expect = ERR_BAD_KEYTOKEN; return RUN("bpkiPrivkeyUnwrap", bpkiPrivkeyUnwrap(BUF1, &n, BUF2, EPKI_LEN, DATA + 301, 24)); }
	g_expect = ERR_BAD_FORMAT; return RUN("bpkiPrivkeyUnwrap", bpkiPrivkeyUnwrap(BUF1, &n, BUF2, EPKI_LEN - 1, DATA + 300, 24));
}
static err_t s_bpkiSW(int var)
{
	err_t code; material(); sec_reset(); out_reset();
	memcpy(BUF3 + 1, K32, 32); BUF3[0] = 3;
	sec_add(BUF3 + 1, 32, "share"); sec_add(DATA + 300, 24, "password");
	out_add(BUF1, 256);
	if (var == 0) { g_expect = ERR_OK; return RUN("bpkiShareWrap", bpkiShareWrap(BUF1, &EPKI_LEN, BUF3, 33, DATA + 300, 24, IV16, 10000)); }
	g_expect = ERR_BAD_SHAREKEY; return RUN("bpkiShareWrap", bpkiShareWrap(BUF1, &EPKI_LEN, BUF3, 32, DATA + 300, 24, IV16, 10000));
}
static err_t s_bpkiSU(int var)
{
	err_t code; size_t n = 0; material(); sec_reset(); out_reset();
	memcpy(BUF3 + 1, K32, 32); BUF3[0] = 3;
	bpkiShareWrap(BUF2, &EPKI_LEN, BUF3, 33, DATA + 300, 24, IV16, 10000);
	sec_add(BUF3 + 1, 32, "share"); sec_add(DATA + 300, 24, "password");
	out_add(BUF1, 64); g_outdoc = 0;
	if (var == 0) { g_expect = ERR_OK; return RUN("bpkiShareUnwrap", bpkiShareUnwrap(BUF1, &n, BUF2, EPKI_LEN, DATA + 300, 24)); }
	g_expect = ERR_BAD_KEYTOKEN; return RUN("bpkiShareUnwrap", bpkiShareUnwrap(BUF1, &n, BUF2, EPKI_LEN, DATA + 304, 20));
}

/* bake BSTS with a long certificate so that M2 / M3 arrive in several read() blocks
   (the blobResize path); message passing as in test/crypto/bake_test.c */
typedef struct { int valid; octet buf[2048]; size_t len; } msg_t;
static msg_t MSGS[4];
typedef struct { size_t i, offset; } file_st;
static err_t fwrite_(size_t* written, const void* buf, size_t count, void* file)
{
	file_st* f = (file_st*)file;
	if (f->i >= 4) return ERR_FILE_WRITE;
	if (count > sizeof(MSGS[0].buf)) return ERR_OUTOFMEMORY;
	MSGS[f->i].valid = 1; memcpy(MSGS[f->i].buf, buf, count); *written = MSGS[f->i].len = count;
	++f->i, f->offset = 0;
	return ERR_OK;
}
static err_t fread_(size_t* read, void* buf, size_t count, void* file)
{
	file_st* f = (file_st*)file;
	if (f->i >= 4) return ERR_FILE_READ;
	if (!MSGS[f->i].valid) return ERR_FILE_NOT_FOUND;
	if (count + f->offset > MSGS[f->i].len)
	{
		memcpy(buf, MSGS[f->i].buf + f->offset, *read = MSGS[f->i].len - f->offset);
		++f->i, f->offset = 0;
		return ERR_MAX;
	}
	memcpy(buf, MSGS[f->i].buf + f->offset, *read = count);
	f->offset += count;
	if (f->offset == MSGS[f->i].len) ++f->i, f->offset = 0;
	return ERR_OK;
}
static err_t certval(octet* pubkey, const bign_params* params, const octet* data, size_t len)
{
	if (!memIsValid(params, sizeof(bign_params)) || (params->l != 128 && params->l != 192 && params->l != 256) ||
		!memIsNullOrValid(pubkey, params->l / 2))
		return ERR_BAD_INPUT;
	if (!memIsValid(data, len) || len < params->l / 2) return ERR_BAD_CERT;
	if (pubkey) memcpy(pubkey, data + (len - params->l / 2), params->l / 2);
	return ERR_OK;
}
static octet CERTA[1400], CERTB[1400], DA[32], DB[32], ECHOA[1024], ECHOB[1024], KEYA[32], KEYB[32];
static bake_cert CA[1], CB[1]; static bake_settings SA[1], SB[1]; static file_st FA[1], FB[1];
/* which = 0: the call under test is RunB, 1: RunA.  The protocol is driven to completion by
   re-running both sides until neither waits for a message (as the test suite does); tracking
   is switched on only for the LAST run of the side under test, or — with fault injection —
   for every run of that side until the injected failure has happened. */
static err_t s_bsts_side(int which, int var)
{
	err_t codea = ERR_FILE_NOT_FOUND, codeb = ERR_FILE_NOT_FOUND, code = ERR_OK; int i, round; size_t clen = var == 1 ? 69 : 1100;
	material(); bign_setup(); sec_reset(); out_reset();
	for (i = 0; i < 32; ++i) DA[i] = PRIV[i], DB[i] = TAPE[i];
	memset(CERTA, 0x41, sizeof CERTA); memset(CERTB, 0x42, sizeof CERTB);
	bignPubkeyCalc(CERTA + clen - 64, PARAMS, DA); bignPubkeyCalc(CERTB + clen - 64, PARAMS, DB);
	CA->data = CERTA; CA->len = clen; CA->val = certval; CB->data = CERTB; CB->len = clen; CB->val = certval;
	memset(SA, 0, sizeof SA); memset(SB, 0, sizeof SB);
	SA->kca = SA->kcb = SB->kca = SB->kcb = TRUE; SA->rng = SB->rng = prngEchoStepR; SA->rng_state = ECHOA; SB->rng_state = ECHOB;
	memset(MSGS, 0, sizeof MSGS);
	sec_add(which ? DA : DB, 32, "privkey");
	out_add(which ? KEYA : KEYB, 32);
	g_expect = ERR_OK;
	for (round = 0; round < 6 && (codea == ERR_FILE_NOT_FOUND || codeb == ERR_FILE_NOT_FOUND); ++round)
	{
		FA->i = FA->offset = FB->i = FB->offset = 0;
		prngEchoStart(ECHOA, TAPE + 64, 64); prngEchoStart(ECHOB, TAPE + 128, 64);
		if (which == 0)
		{
			track_begin("bakeBSTSRunB", g_inject);
			codeb = bakeBSTSRunB(KEYB, PARAMS, SB, DB, CB, certval, fread_, fwrite_, FB);
			track_end();
			if (codeb != ERR_FILE_NOT_FOUND) return codeb;
			codea = bakeBSTSRunA(KEYA, PARAMS, SA, DA, CA, certval, fread_, fwrite_, FA);
		}
		else
		{
			codeb = bakeBSTSRunB(KEYB, PARAMS, SB, DB, CB, certval, fread_, fwrite_, FB);
			track_begin("bakeBSTSRunA", g_inject);
			codea = bakeBSTSRunA(KEYA, PARAMS, SA, DA, CA, certval, fread_, fwrite_, FA);
			track_end();
			if (codea != ERR_FILE_NOT_FOUND) return codea;
		}
	}
	return code ? code : ERR_FILE_NOT_FOUND;
}
static err_t s_bstsB(int var) { return s_bsts_side(0, var); }
static err_t s_bstsA(int var) { return s_bsts_side(1, var); }

static const scen_t SCEN[] = {
	{"ecbE", "beltECBEncr", 2, s_ecbE}, {"ecbD", "beltECBDecr", 2, s_ecbD}, {"cbcE", "beltCBCEncr", 2, s_cbcE},
	{"cbcD", "beltCBCDecr", 2, s_cbcD}, {"cfbE", "beltCFBEncr", 2, s_cfbE}, {"cfbD", "beltCFBDecr", 2, s_cfbD},
	{"ctr", "beltCTR", 2, s_ctr}, {"mac", "beltMAC", 2, s_mac}, {"bdeE", "beltBDEEncr", 2, s_bdeE},
	{"bdeD", "beltBDEDecr", 2, s_bdeD}, {"sdeE", "beltSDEEncr", 2, s_sdeE}, {"sdeD", "beltSDEDecr", 2, s_sdeD},
	{"hmac", "beltHMAC", 2, s_hmac}, {"dwpW", "beltDWPWrap", 2, s_dwpW}, {"cheW", "beltCHEWrap", 2, s_cheW},
	{"kwpW", "beltKWPWrap", 2, s_kwpW}, {"fmtE", "beltFMTEncr", 3, s_fmtE}, {"fmtD", "beltFMTDecr", 2, s_fmtD},
	{"dwpU", "beltDWPUnwrap", 3, s_dwpU}, {"cheU", "beltCHEUnwrap", 3, s_cheU}, {"kwpU", "beltKWPUnwrap", 3, s_kwpU},
	{"pbkdf", "beltPBKDF2", 2, s_pbkdf}, {"krp", "beltKRP", 2, s_krp}, {"brngctr", "brngCTRRand", 1, s_brngctr},
	{"brnghmac", "brngHMACRand", 1, s_brnghmac}, {"hotpR", "botpHOTPRand", 2, s_hotpR}, {"hotpV", "botpHOTPVerify", 2, s_hotpV},
	{"totpR", "botpTOTPRand", 2, s_totpR}, {"totpV", "botpTOTPVerify", 2, s_totpV}, {"ocraR", "botpOCRARand", 2, s_ocraR},
	{"belsS", "belsShare", 2, s_belsS}, {"belsS2", "belsShare2", 2, s_belsS2}, {"belsS3", "belsShare3", 2, s_belsS3},
	{"belsR", "belsRecover", 2, s_belsR}, {"belsR2", "belsRecover2", 2, s_belsR2},
	{"bignGen", "bignKeypairGen", 1, s_bignGen}, {"bignCalc", "bignPubkeyCalc", 2, s_bignCalc}, {"bignVal", "bignKeypairVal", 2, s_bignVal},
	{"bignDH", "bignDH", 3, s_bignDH}, {"bignSign", "bignSign", 3, s_bignSign}, {"bignSign2", "bignSign2", 2, s_bignSign2},
	{"bignKW", "bignKeyWrap", 2, s_bignKW}, {"bignKU", "bignKeyUnwrap", 4, s_bignKU},
	{"bpkiPW", "bpkiPrivkeyWrap", 2, s_bpkiPW}, {"bpkiPU", "bpkiPrivkeyUnwrap", 3, s_bpkiPU},
	{"bpkiSW", "bpkiShareWrap", 2, s_bpkiSW}, {"bpkiSU", "bpkiShareUnwrap", 2, s_bpkiSU},
	{"bstsB", "bakeBSTSRunB", 2, s_bstsB}, {"bstsA", "bakeBSTSRunA", 2, s_bstsA},
};
#define NSCEN (sizeof SCEN / sizeof SCEN[0])

/* second table (families added later): bign96, pfok, g12s, dstu, stb99, btok, BMQV/BPACE, bels, bpki CSR */
#ifdef C09_SCEN2
#include "c09_scen2.h"
#define NSCEN2 (sizeof SCEN2 / sizeof SCEN2[0])
#endif

static const scen_t* scen_find(const char* name)
{
	size_t i;
	for (i = 0; i < NSCEN; ++i) if (strcmp(SCEN[i].name, name) == 0) return &SCEN[i];
#ifdef C09_SCEN2
	for (i = 0; i < NSCEN2; ++i) if (strcmp(SCEN2[i].name, name) == 0) return &SCEN2[i];
#endif
	return 0;
}

/* `scen <name> <var> <failat>`  ->
   `<fn> code=<c> exp=<e> allocs=<n> frees=<n> live=<n> failed=<0|1> leak=<what|->/<by> out=<0|1|2> outdoc=<d> own=<A,C,…>` */
static void do_scen(const char* name, int var, long failat)
{
	const scen_t* s = scen_find(name);
	err_t code;
	if (!s || var < 0 || var >= s->nvar) { printf("bad-op"); return; }
	g_inject = failat; g_outdoc = 0; g_expect = ERR_OK;
	code = s->run(var);
	printf("%s code=%u exp=%u allocs=%ld frees=%ld live=%ld failed=%ld leak=%s/%s out=%d outdoc=%d own=%s",
		s->fn, (unsigned)code, (unsigned)g_expect, g_nalloc, g_nfree, blk_live(), g_failed,
		g_leaks ? g_leak_what : "-", g_leaks ? g_leak_by : "-", out_state(), g_outdoc, g_own[0] ? g_own : "-");
}
static void do_list(void)
{
	size_t i;
	for (i = 0; i < NSCEN; ++i) printf("%s%s:%s:%d", i ? " " : "", SCEN[i].name, SCEN[i].fn, SCEN[i].nvar);
#ifdef C09_SCEN2
	for (i = 0; i < NSCEN2; ++i) printf(" %s:%s:%d", SCEN2[i].name, SCEN2[i].fn, SCEN2[i].nvar);
#endif
}
#endif

/* Second table of C09/C15 scenarios (included by c09_common.h under -DC09_SCEN2, after SCEN[]):
   bign96, bign (verify / validation / identity-based signatures), pfok, g12s, dstu, stb99,
   btok (CVC, SM, BAUTH steps), bake (KDF, SWU, BMQV, BPACE), bels (public keys), bpki (CSR,
   containers for the other key lengths).

   Conventions are those of c09_common.h: one scenario = one high-level err_t function,
   var 0 = success, var >= 1 = one distinct error exit each; secrets are registered before RUN,
   outputs ([out] buffers only, never in/out ones) after the inputs have been prepared;
   g_expect = the code the header promises; g_outdoc = 1 only where the header says that the output
   may be zeroised.

   History: the first version of this table exposed  dstuSign (no private-key validation, C09.fix-4),
   btokBAuthCTStep2 (result of beltKWPWrap ignored, C09.fix-4), pfokKeypairGen (rng == 0 answered with
   ERR_BAD_INPUT, C09.fix-5).  Exits on which a function leaves partially
   written PUBLIC data in its output although it returns an error (btokCVCUnwrap / btokCVCVal2: *cvc parsed
   before the signature is checked; btokCVCWrap: body encoded before signing fails; btokSMCmdWrap /
   btokSMRespWrap: plain encoding before the counter-parity check) are listed in OUTPUT_ON_ERROR of
   props/C09.py and not counted against the library. */
#ifndef BEE2V_C09_SCEN2_H
#define BEE2V_C09_SCEN2_H
#include "bee2/core/apdu.h"
#include "bee2/crypto/bign96.h"
#include "bee2/crypto/btok.h"
#include "bee2/crypto/dstu.h"
#include "bee2/crypto/g12s.h"
#include "bee2/crypto/pfok.h"
#include "bee2/crypto/stb99.h"
#include "bee2/math/ecp.h"
#include "bee2/math/gfp.h"
#include "bee2/math/ww.h"
#include "bee2/math/zz.h"
#include "crypto/bign/bign_lcl.h"

/* ------------------------------------------------------------------ helpers */
/* validator that sees DECRYPTED protocol data (BSTS Step4/Step5, BAUTH TStep5): defined near the BSTS scenarios */
static int CV_REJECT;
static err_t certval_x(octet* pubkey, const bign_params* params, const octet* data, size_t len);
/* generators that can never produce an acceptable value */
static void rng_zero(void* buf, size_t count, void* state) { memset(buf, 0, count); }
static void rng_ff(void* buf, size_t count, void* state) { memset(buf, 0xFF, count); }
/* constant polynomial x (bels: minimal polynomial of x is the modulus itself) */
static void ang_x(void* buf, size_t count, void* state) { memset(buf, 0, count); if (count) ((octet*)buf)[0] = 2; }

/* copies of valid bign / bign96 parameters that are rejected before (l) or after (a >= p) the
   state has been allocated */
static bign_params PBAD[1];
static const bign_params* params_bad(const bign_params* good, int after_alloc)
{
	memcpy(PBAD, good, sizeof PBAD);
	if (after_alloc) memset(PBAD->a, 0xFF, good->l / 4);
	else PBAD->l = good->l + 1;
	return PBAD;
}

/* ------------------------------------------------------------------ bign96 */
static bign_params P96[1];
static unsigned char PRIV96[24], PUB96[48];
static int b96_ready;
static void b96_setup(void)
{
	int i;
	if (b96_ready) return;
	bign96ParamsStd(P96, "1.2.112.0.2.0.34.101.45.3.0");
	for (i = 0; i < 24; ++i) PRIV96[i] = (unsigned char)(0x29 + 3 * i + (i * i) % 7);
	PRIV96[23] &= 0x7F;
	bign96PubkeyCalc(PUB96, P96, PRIV96);
	b96_ready = 1;
}
#define B96_PRE material(); bign_setup(); b96_setup(); oid_setup(); sec_reset(); out_reset()

static err_t s_b96Gen(int var)
{
	err_t code; B96_PRE;
	sec_add(TAPE, 24, "generated-privkey"); tape_start();
	out_add(BUF1, 24); out_add(BUF1 + 64, 48);
	switch (var)
	{
	case 0: g_expect = ERR_OK; return RUN("bign96KeypairGen", bign96KeypairGen(BUF1, BUF1 + 64, P96, prngEchoStepR, ECHO));
	case 1: g_expect = ERR_BAD_RNG; return RUN("bign96KeypairGen", bign96KeypairGen(BUF1, BUF1 + 64, P96, rng_zero, 0));
	case 2: g_expect = ERR_BAD_RNG; return RUN("bign96KeypairGen", bign96KeypairGen(BUF1, BUF1 + 64, P96, 0, 0));
	case 3: g_expect = ERR_BAD_PARAMS; return RUN("bign96KeypairGen", bign96KeypairGen(BUF1, BUF1 + 64, params_bad(P96, 0), prngEchoStepR, ECHO));
	}
	g_expect = ERR_BAD_PARAMS; return RUN("bign96KeypairGen", bign96KeypairGen(BUF1, BUF1 + 64, params_bad(P96, 1), prngEchoStepR, ECHO));
}
static err_t s_b96KVal(int var)
{
	err_t code; B96_PRE;
	memcpy(BUF2, PRIV96, 24); memcpy(BUF3, PUB96, 48);
	g_expect = ERR_OK;
	if (var == 1) BUF3[7] ^= 1, g_expect = ERR_BAD_PUBKEY;
	if (var == 2) memset(BUF2, 0, 24), g_expect = ERR_BAD_PRIVKEY;
	if (var == 3) memset(BUF2, 0xFF, 24), g_expect = ERR_BAD_PRIVKEY;
	if (var < 2 || var == 4) sec_add(BUF2, 24, "privkey");
	if (var == 4) { g_expect = ERR_BAD_PARAMS; return RUN("bign96KeypairVal", bign96KeypairVal(params_bad(P96, 1), BUF2, BUF3)); }
	return RUN("bign96KeypairVal", bign96KeypairVal(P96, BUF2, BUF3));
}
static err_t s_b96Calc(int var)
{
	err_t code; B96_PRE;
	memcpy(BUF2, PRIV96, 24);
	if (var == 1) memset(BUF2, 0xFF, 24);
	if (var == 2) memset(BUF2, 0, 24);
	if (var == 0 || var >= 3) sec_add(BUF2, 24, "privkey");
	out_add(BUF1, 48);
	g_expect = var == 0 ? ERR_OK : var <= 2 ? ERR_BAD_PRIVKEY : ERR_BAD_PARAMS;
	if (var == 3) return RUN("bign96PubkeyCalc", bign96PubkeyCalc(BUF1, params_bad(P96, 0), BUF2));
	if (var == 4) return RUN("bign96PubkeyCalc", bign96PubkeyCalc(BUF1, params_bad(P96, 1), BUF2));
	return RUN("bign96PubkeyCalc", bign96PubkeyCalc(BUF1, P96, BUF2));
}
static err_t s_b96PVal(int var)
{
	err_t code; B96_PRE;
	memcpy(BUF3, PUB96, 48);
	if (var == 1) BUF3[30] ^= 0x08;             /* off the curve */
	if (var == 2) memset(BUF3, 0xFF, 24);       /* x >= p */
	g_expect = var == 0 ? ERR_OK : var <= 2 ? ERR_BAD_PUBKEY : ERR_BAD_PARAMS;
	if (var == 3) return RUN("bign96PubkeyVal", bign96PubkeyVal(params_bad(P96, 1), BUF3));
	return RUN("bign96PubkeyVal", bign96PubkeyVal(P96, BUF3));
}
static err_t s_b96Sign(int var)
{
	err_t code; B96_PRE;
	memcpy(BUF2, PRIV96, 24);
	if (var == 1) memset(BUF2, 0, 24);
	if (var != 1) sec_add(BUF2, 24, "privkey");
	sec_add(TAPE, 24, "nonce-k"); tape_start();
	out_add(BUF1, 34);
	switch (var)
	{
	case 0: g_expect = ERR_OK; return RUN("bign96Sign", bign96Sign(BUF1, P96, OIDDER, OIDLEN, DATA, BUF2, prngEchoStepR, ECHO));
	case 1: g_expect = ERR_BAD_PRIVKEY; return RUN("bign96Sign", bign96Sign(BUF1, P96, OIDDER, OIDLEN, DATA, BUF2, prngEchoStepR, ECHO));
	case 2: g_expect = ERR_BAD_OID; return RUN("bign96Sign", bign96Sign(BUF1, P96, OIDDER, OIDLEN - 1, DATA, BUF2, prngEchoStepR, ECHO));
	case 3: g_expect = ERR_BAD_RNG; return RUN("bign96Sign", bign96Sign(BUF1, P96, OIDDER, OIDLEN, DATA, BUF2, rng_ff, 0));
	case 4: g_expect = ERR_BAD_RNG; return RUN("bign96Sign", bign96Sign(BUF1, P96, OIDDER, OIDLEN, DATA, BUF2, 0, 0));
	case 5: g_expect = ERR_BAD_INPUT; return RUN("bign96Sign", bign96Sign(BUF1, P96, OIDDER, OIDLEN, BUF1 + 10, BUF2, prngEchoStepR, ECHO));   /* hash inside sig */
	}
	g_expect = ERR_BAD_PARAMS; return RUN("bign96Sign", bign96Sign(BUF1, params_bad(P96, 1), OIDDER, OIDLEN, DATA, BUF2, prngEchoStepR, ECHO));
}
static err_t s_b96Sign2(int var)
{
	err_t code; B96_PRE;
	memcpy(BUF2, PRIV96, 24);
	if (var == 1) memset(BUF2, 0xFF, 24);
	if (var != 1) sec_add(BUF2, 24, "privkey");
	out_add(BUF1, 34);
	switch (var)
	{
	case 0: g_expect = ERR_OK; return RUN("bign96Sign2", bign96Sign2(BUF1, P96, OIDDER, OIDLEN, DATA, BUF2, DATA + 100, 20));
	case 1: g_expect = ERR_BAD_PRIVKEY; return RUN("bign96Sign2", bign96Sign2(BUF1, P96, OIDDER, OIDLEN, DATA, BUF2, 0, 0));
	case 2: g_expect = ERR_BAD_OID; return RUN("bign96Sign2", bign96Sign2(BUF1, P96, OIDDER, SIZE_MAX, DATA, BUF2, 0, 0));
	case 3: g_expect = ERR_BAD_INPUT; return RUN("bign96Sign2", bign96Sign2(BUF1, P96, OIDDER, OIDLEN, BUF1 + 33, BUF2, 0, 0));   /* hash overlaps sig */
	}
	g_expect = ERR_BAD_PARAMS; return RUN("bign96Sign2", bign96Sign2(BUF1, params_bad(P96, 0), OIDDER, OIDLEN, DATA, BUF2, 0, 0));
}
static err_t s_b96Ver(int var)
{
	err_t code; B96_PRE;
	bign96Sign2(BUF2, P96, OIDDER, OIDLEN, DATA, PRIV96, 0, 0);
	memcpy(BUF3, PUB96, 48);
	if (var == 1) BUF2[0] ^= 1;                    /* s0 changed */
	if (var == 2) memset(BUF2 + 10, 0xFF, 24);     /* s1 >= q */
	if (var == 3) BUF3[0] ^= 1;                    /* key off the curve */
	if (var == 6) memset(BUF3, 0xFF, 24);          /* x >= p */
	g_expect = var == 0 ? ERR_OK : var <= 2 || var == 7 ? ERR_BAD_SIG : var == 3 || var == 6 ? ERR_BAD_PUBKEY : var == 4 ? ERR_BAD_OID : ERR_BAD_PARAMS;
	if (var == 4) return RUN("bign96Verify", bign96Verify(P96, OIDDER, OIDLEN - 2, DATA, BUF2, BUF3));
	if (var == 5) return RUN("bign96Verify", bign96Verify(params_bad(P96, 1), OIDDER, OIDLEN, DATA, BUF2, BUF3));
	return RUN("bign96Verify", bign96Verify(P96, OIDDER, OIDLEN, DATA + (var == 7 ? 1 : 0), BUF2, BUF3));
}
static err_t s_b96PrmVal(int var)
{
	err_t code; B96_PRE;
	memcpy(PBAD, P96, sizeof PBAD);
	if (var == 1) PBAD->seed[0] ^= 1;      /* b does not follow from the seed */
	if (var == 2) PBAD->yG[0] ^= 1;        /* base point off the curve */
	if (var == 3) PBAD->l = 128;
	g_expect = var == 0 ? ERR_OK : ERR_BAD_PARAMS;
	return RUN("bign96ParamsVal", bign96ParamsVal(PBAD));
}

/* ------------------------------------------------------------------ bign: verification, validation, generator failure */
#define BIGN_PRE material(); bign_setup(); oid_setup(); sec_reset(); out_reset()
static err_t s_bignVer(int var)
{
	err_t code; BIGN_PRE;
	bignSign2(BUF2, PARAMS, OIDDER, OIDLEN, DATA, PRIV, 0, 0);
	memcpy(BUF3, PUB, 64);
	if (var == 1) BUF2[3] ^= 0x80;                 /* s0 changed */
	if (var == 2) memset(BUF2 + 16, 0xFF, 32);     /* s1 >= q */
	if (var == 3) BUF3[40] ^= 0x20;                /* key off the curve */
	if (var == 4) memset(BUF3 + 32, 0xFF, 32);     /* y >= p */
	g_expect = var == 0 ? ERR_OK : var <= 2 || var == 7 ? ERR_BAD_SIG : var <= 4 ? ERR_BAD_PUBKEY : var == 5 ? ERR_BAD_OID : ERR_BAD_PARAMS;
	if (var == 5) return RUN("bignVerify", bignVerify(PARAMS, OIDDER, OIDLEN + 1, DATA, BUF2, BUF3));
	if (var == 6) return RUN("bignVerify", bignVerify(params_bad(PARAMS, 1), OIDDER, OIDLEN, DATA, BUF2, BUF3));
	return RUN("bignVerify", bignVerify(PARAMS, OIDDER, OIDLEN, DATA + (var == 7 ? 1 : 0), BUF2, BUF3));   /* 7: other hash */
}
static err_t s_bignPVal(int var)
{
	err_t code; BIGN_PRE;
	memcpy(BUF3, PUB, 64);
	if (var == 1) BUF3[40] ^= 0x20;
	if (var == 2) memset(BUF3, 0xFF, 32);
	g_expect = var == 0 ? ERR_OK : var <= 2 ? ERR_BAD_PUBKEY : ERR_BAD_PARAMS;
	if (var == 3) return RUN("bignPubkeyVal", bignPubkeyVal(params_bad(PARAMS, 0), BUF3));
	if (var == 4) return RUN("bignPubkeyVal", bignPubkeyVal(params_bad(PARAMS, 1), BUF3));
	return RUN("bignPubkeyVal", bignPubkeyVal(PARAMS, BUF3));
}
static err_t s_bignPrmVal(int var)
{
	err_t code; BIGN_PRE;
	memcpy(PBAD, PARAMS, sizeof PBAD);
	if (var == 1) PBAD->seed[0] ^= 1;
	if (var == 2) PBAD->yG[0] ^= 1;
	if (var == 3) PBAD->l = 129;
	if (var == 4) memset(PBAD->a, 0xFF, 32);
	g_expect = var == 0 ? ERR_OK : ERR_BAD_PARAMS;
	return RUN("bignParamsVal", bignParamsVal(PBAD));
}
/* bignKeypairGen: the generator never yields a value in {1,...,q-1} / is absent; bad parameters */
static err_t s_bignGen2(int var)
{
	err_t code; BIGN_PRE;
	tape_start();
	out_add(BUF1, 32); out_add(BUF1 + 64, 64);
	switch (var)
	{
	case 0: g_expect = ERR_BAD_RNG; return RUN("bignKeypairGen", bignKeypairGen(BUF1, BUF1 + 64, PARAMS, rng_zero, 0));
	case 1: g_expect = ERR_BAD_RNG; return RUN("bignKeypairGen", bignKeypairGen(BUF1, BUF1 + 64, PARAMS, rng_ff, 0));
	case 2: g_expect = ERR_BAD_RNG; return RUN("bignKeypairGen", bignKeypairGen(BUF1, BUF1 + 64, PARAMS, 0, 0));
	case 3: g_expect = ERR_BAD_PARAMS; return RUN("bignKeypairGen", bignKeypairGen(BUF1, BUF1 + 64, params_bad(PARAMS, 0), prngEchoStepR, ECHO));
	}
	g_expect = ERR_BAD_PARAMS; return RUN("bignKeypairGen", bignKeypairGen(BUF1, BUF1 + 64, params_bad(PARAMS, 1), prngEchoStepR, ECHO));
}

/* identity-based signatures (bign_test.c): the trusted party PRIV/PUB signs the hash of the
   identifier; the pair (id_privkey, id_pubkey) is extracted from that signature */
static unsigned char IDHASH[32], IDSIG[48], IDPRIV[32], IDPUB[64];
static void id_setup(void)
{
	beltHash(IDHASH, DATA + 500, 9);
	bignSign2(IDSIG, PARAMS, OIDDER, OIDLEN, IDHASH, PRIV, 0, 0);
	memcpy(BUF3 + 1024, PUB, 64);
	bignIdExtract(IDPRIV, IDPUB, PARAMS, OIDDER, OIDLEN, IDHASH, IDSIG, BUF3 + 1024);
}
static err_t s_bignIdExt(int var)
{
	err_t code; BIGN_PRE; id_setup();
	memcpy(BUF2, IDSIG, 48); memcpy(BUF3, PUB, 64);
	sec_add(IDPRIV, 32, "id-privkey");
	if (var == 1) BUF2[1] ^= 0x10;                 /* s0 changed */
	if (var == 2) memset(BUF2 + 16, 0xFF, 32);     /* s1 >= q */
	if (var == 3) BUF3[40] ^= 0x20;                /* trusted key off the curve */
	out_add(BUF1, 32); out_add(BUF1 + 64, 64);
	g_expect = var == 0 ? ERR_OK : var <= 2 ? ERR_BAD_SIG : var == 3 ? ERR_BAD_PUBKEY : var == 4 ? ERR_BAD_OID : ERR_BAD_PARAMS;
	if (var == 4) return RUN("bignIdExtract", bignIdExtract(BUF1, BUF1 + 64, PARAMS, OIDDER, OIDLEN - 1, IDHASH, BUF2, BUF3));
	if (var == 5) return RUN("bignIdExtract", bignIdExtract(BUF1, BUF1 + 64, params_bad(PARAMS, 1), OIDDER, OIDLEN, IDHASH, BUF2, BUF3));
	return RUN("bignIdExtract", bignIdExtract(BUF1, BUF1 + 64, PARAMS, OIDDER, OIDLEN, IDHASH, BUF2, BUF3));
}
static err_t s_bignIdSign(int var)
{
	err_t code; BIGN_PRE; id_setup();
	memcpy(BUF2, IDPRIV, 32);
	if (var == 1) memset(BUF2, 0xFF, 32);
	if (var != 1) sec_add(BUF2, 32, "id-privkey");
	sec_add(TAPE, 32, "nonce-k"); tape_start();
	out_add(BUF1, 48);
	switch (var)
	{
	case 0: g_expect = ERR_OK; return RUN("bignIdSign", bignIdSign(BUF1, PARAMS, OIDDER, OIDLEN, IDHASH, DATA, BUF2, prngEchoStepR, ECHO));
	case 1: g_expect = ERR_BAD_PRIVKEY; return RUN("bignIdSign", bignIdSign(BUF1, PARAMS, OIDDER, OIDLEN, IDHASH, DATA, BUF2, prngEchoStepR, ECHO));
	case 2: g_expect = ERR_BAD_OID; return RUN("bignIdSign", bignIdSign(BUF1, PARAMS, OIDDER, OIDLEN - 1, IDHASH, DATA, BUF2, prngEchoStepR, ECHO));
	case 3: g_expect = ERR_BAD_RNG; return RUN("bignIdSign", bignIdSign(BUF1, PARAMS, OIDDER, OIDLEN, IDHASH, DATA, BUF2, rng_zero, 0));
	case 4: g_expect = ERR_BAD_RNG; return RUN("bignIdSign", bignIdSign(BUF1, PARAMS, OIDDER, OIDLEN, IDHASH, DATA, BUF2, 0, 0));
	}
	g_expect = ERR_BAD_PARAMS; return RUN("bignIdSign", bignIdSign(BUF1, params_bad(PARAMS, 1), OIDDER, OIDLEN, IDHASH, DATA, BUF2, prngEchoStepR, ECHO));
}
static err_t s_bignIdSign2(int var)
{
	err_t code; BIGN_PRE; id_setup();
	memcpy(BUF2, IDPRIV, 32);
	if (var == 1) memset(BUF2, 0xFF, 32);
	if (var != 1) sec_add(BUF2, 32, "id-privkey");
	out_add(BUF1, 48);
	switch (var)
	{
	case 0: g_expect = ERR_OK; return RUN("bignIdSign2", bignIdSign2(BUF1, PARAMS, OIDDER, OIDLEN, IDHASH, DATA, BUF2, DATA + 64, 23));
	case 1: g_expect = ERR_BAD_PRIVKEY; return RUN("bignIdSign2", bignIdSign2(BUF1, PARAMS, OIDDER, OIDLEN, IDHASH, DATA, BUF2, 0, 0));
	case 2: g_expect = ERR_BAD_OID; return RUN("bignIdSign2", bignIdSign2(BUF1, PARAMS, OIDDER, OIDLEN - 1, IDHASH, DATA, BUF2, 0, 0));
	}
	g_expect = ERR_BAD_PARAMS; return RUN("bignIdSign2", bignIdSign2(BUF1, params_bad(PARAMS, 1), OIDDER, OIDLEN, IDHASH, DATA, BUF2, 0, 0));
}
static err_t s_bignIdVer(int var)
{
	err_t code; BIGN_PRE; id_setup();
	bignIdSign2(BUF1, PARAMS, OIDDER, OIDLEN, IDHASH, DATA, IDPRIV, 0, 0);
	memcpy(BUF2, IDPUB, 64); memcpy(BUF3, PUB, 64);
	if (var == 1) BUF1[2] ^= 0x01;                 /* s0 changed */
	if (var == 2) memset(BUF1 + 16, 0xFF, 32);     /* s1 >= q */
	if (var == 3) BUF2[40] ^= 0x20;                /* id_pubkey off the curve */
	if (var == 4) BUF3[40] ^= 0x20;                /* pubkey off the curve */
	g_expect = var == 0 ? ERR_OK : var <= 2 || var == 7 ? ERR_BAD_SIG : var <= 4 ? ERR_BAD_PUBKEY : var == 5 ? ERR_BAD_OID : ERR_BAD_PARAMS;
	if (var == 5) return RUN("bignIdVerify", bignIdVerify(PARAMS, OIDDER, OIDLEN - 1, IDHASH, DATA, BUF1, BUF2, BUF3));
	if (var == 6) return RUN("bignIdVerify", bignIdVerify(params_bad(PARAMS, 1), OIDDER, OIDLEN, IDHASH, DATA, BUF1, BUF2, BUF3));
	return RUN("bignIdVerify", bignIdVerify(PARAMS, OIDDER, OIDLEN, IDHASH, DATA + (var == 7 ? 3 : 0), BUF1, BUF2, BUF3));   /* 7: other message */
}

/* ------------------------------------------------------------------ pfok (test parameters, l = 638, r = 130, n = 256) */
static pfok_params PFP[1], PFPBAD[1];
static unsigned char PFX[17], PFU[17], PFY[80], PFV[80];   /* own long-term / one-time private keys; peer's public keys */
static int pf_ready;
static void pf_setup(void)
{
	int i;
	bign_setup();
	if (pf_ready) return;
	pfokParamsStd(PFP, 0, "test");
	for (i = 0; i < 17; ++i) PFX[i] = TAPE[i], PFU[i] = TAPE[32 + i];
	PFX[16] &= 3; PFU[16] &= 3;
	memcpy(BUF3, TAPE + 64, 17); BUF3[16] &= 3; pfokPubkeyCalc(PFY, PFP, BUF3);
	memcpy(BUF3, TAPE + 96, 17); BUF3[16] &= 3; pfokPubkeyCalc(PFV, PFP, BUF3);
	pf_ready = 1;
}
static const pfok_params* pf_bad(void) { memcpy(PFPBAD, PFP, sizeof PFPBAD); PFPBAD->r = 131; return PFPBAD; }
#define PF_PRE material(); pf_setup(); sec_reset(); out_reset()
static err_t s_pfGen(int var)
{
	err_t code; PF_PRE;
	sec_add(TAPE, 16, "generated-privkey"); tape_start();
	out_add(BUF1, 17); out_add(BUF1 + 64, 80);
	if (var == 0) { g_expect = ERR_OK; return RUN("pfokKeypairGen", pfokKeypairGen(BUF1, BUF1 + 64, PFP, prngEchoStepR, ECHO)); }
	if (var == 1) { g_expect = ERR_BAD_PARAMS; return RUN("pfokKeypairGen", pfokKeypairGen(BUF1, BUF1 + 64, pf_bad(), prngEchoStepR, ECHO)); }
	/* rng == 0: \expect{ERR_BAD_RNG} (C09.fix-5: the code used to answer ERR_BAD_INPUT) */
	g_expect = ERR_BAD_RNG; return RUN("pfokKeypairGen", pfokKeypairGen(BUF1, BUF1 + 64, PFP, 0, 0));
}
static err_t s_pfPVal(int var)
{
	err_t code; PF_PRE;
	memcpy(BUF2, PFY, 80);
	if (var == 1) memset(BUF2, 0, 80);
	if (var == 2) memset(BUF2, 0xFF, 80);
	g_expect = var == 0 ? ERR_OK : var <= 2 ? ERR_BAD_PUBKEY : ERR_BAD_PARAMS;
	return RUN("pfokPubkeyVal", pfokPubkeyVal(var == 3 ? pf_bad() : PFP, BUF2));
}
static err_t s_pfCalc(int var)
{
	err_t code; PF_PRE;
	memcpy(BUF2, PFX, 17);
	if (var == 1) BUF2[16] = 0x04;       /* bit 130 set */
	if (var != 1) sec_add(BUF2, 16, "privkey");
	out_add(BUF1, 80);
	g_expect = var == 0 ? ERR_OK : var == 1 ? ERR_BAD_PRIVKEY : ERR_BAD_PARAMS;
	return RUN("pfokPubkeyCalc", pfokPubkeyCalc(BUF1, var == 2 ? pf_bad() : PFP, BUF2));
}
static err_t s_pfDH(int var)
{
	err_t code; PF_PRE;
	memcpy(BUF2, PFX, 17); memcpy(BUF3, PFY, 80);
	if (var == 1) BUF2[16] = 0xFF;
	if (var == 2) memset(BUF3, 0, 80);
	if (var == 3) memset(BUF3, 0xFF, 80);
	if (var != 1) sec_add(BUF2, 16, "privkey");
	out_add(BUF1, 32);
	g_expect = var == 0 ? ERR_OK : var == 1 ? ERR_BAD_PRIVKEY : var <= 3 ? ERR_BAD_PUBKEY : ERR_BAD_PARAMS;
	return RUN("pfokDH", pfokDH(BUF1, var == 4 ? pf_bad() : PFP, BUF2, BUF3));
}
static err_t s_pfMTI(int var)
{
	err_t code; PF_PRE;
	memcpy(BUF2, PFX, 17); memcpy(BUF2 + 32, PFU, 17); memcpy(BUF3, PFY, 80); memcpy(BUF3 + 128, PFV, 80);
	if (var == 1) BUF2[16] = 0x80;                 /* long-term key too long */
	if (var == 2) BUF2[32 + 16] = 0x08;            /* one-time key too long */
	if (var == 3) memset(BUF3, 0, 80);             /* peer's long-term key 0 */
	if (var == 4) memset(BUF3 + 128, 0xFF, 80);    /* peer's one-time key >= p */
	if (var != 1) sec_add(BUF2, 16, "privkey");
	if (var != 2) sec_add(BUF2 + 32, 16, "one-time-privkey");
	out_add(BUF1, 32);
	g_expect = var == 0 ? ERR_OK : var <= 2 ? ERR_BAD_PRIVKEY : var <= 4 ? ERR_BAD_PUBKEY : ERR_BAD_PARAMS;
	return RUN("pfokMTI", pfokMTI(BUF1, var == 5 ? pf_bad() : PFP, BUF2, BUF2 + 32, BUF3, BUF3 + 128));
}
static err_t s_pfPrmVal(int var)
{
	err_t code; PF_PRE;
	memcpy(PFPBAD, PFP, sizeof PFPBAD);
	if (var == 1) PFPBAD->g[0] += 2;        /* pfok_test.c: not a generator */
	if (var == 2) PFPBAD->p[1] ^= 0x10;     /* p composite */
	if (var == 3) PFPBAD->n = PFPBAD->l;
	g_expect = var == 0 ? ERR_OK : ERR_BAD_PARAMS;
	return RUN("pfokParamsVal", pfokParamsVal(PFPBAD));
}

/* ------------------------------------------------------------------ g12s (example A.1, l = 256) */
static g12s_params G12P[1], G12BAD[1];
static unsigned char G12PUB[64];
static int g12_ready;
static void g12_setup(void)
{
	bign_setup();
	if (g12_ready) return;
	g12sParamsStd(G12P, "1.2.643.2.2.35.0");
	prngEchoStart(ECHO, PRIV, 32);
	g12sKeypairGen(BUF3, G12PUB, G12P, prngEchoStepR, ECHO);     /* private key = PRIV */
	g12_ready = 1;
}
static const g12s_params* g12_bad(int after_alloc)
{
	memcpy(G12BAD, G12P, sizeof G12BAD);
	if (after_alloc) memset(G12BAD->a, 0xFF, 32); else G12BAD->l = 384;
	return G12BAD;
}
#define G12_PRE material(); g12_setup(); sec_reset(); out_reset()
static err_t s_g12Gen(int var)
{
	err_t code; G12_PRE;
	sec_add(TAPE, 32, "generated-privkey"); tape_start();
	out_add(BUF1, 32); out_add(BUF1 + 64, 64);
	switch (var)
	{
	case 0: g_expect = ERR_OK; return RUN("g12sKeypairGen", g12sKeypairGen(BUF1, BUF1 + 64, G12P, prngEchoStepR, ECHO));
	case 1: g_expect = ERR_BAD_RNG; return RUN("g12sKeypairGen", g12sKeypairGen(BUF1, BUF1 + 64, G12P, rng_zero, 0));
	case 2: g_expect = ERR_BAD_RNG; return RUN("g12sKeypairGen", g12sKeypairGen(BUF1, BUF1 + 64, G12P, 0, 0));
	case 3: g_expect = ERR_BAD_PARAMS; return RUN("g12sKeypairGen", g12sKeypairGen(BUF1, BUF1 + 64, g12_bad(0), prngEchoStepR, ECHO));
	}
	g_expect = ERR_BAD_PARAMS; return RUN("g12sKeypairGen", g12sKeypairGen(BUF1, BUF1 + 64, g12_bad(1), prngEchoStepR, ECHO));
}
static err_t s_g12Sign(int var)
{
	err_t code; G12_PRE;
	memcpy(BUF2, PRIV, 32);
	if (var == 1) memset(BUF2, 0, 32);
	if (var == 2) memset(BUF2, 0xFF, 32);
	if (var != 1 && var != 2) sec_add(BUF2, 32, "privkey");
	sec_add(TAPE, 32, "nonce-k"); tape_start();
	out_add(BUF1, 64);
	switch (var)
	{
	case 0: g_expect = ERR_OK; return RUN("g12sSign", g12sSign(BUF1, G12P, DATA, BUF2, prngEchoStepR, ECHO));
	case 1: case 2: g_expect = ERR_BAD_PRIVKEY; return RUN("g12sSign", g12sSign(BUF1, G12P, DATA, BUF2, prngEchoStepR, ECHO));
	case 3: g_expect = ERR_BAD_RNG; return RUN("g12sSign", g12sSign(BUF1, G12P, DATA, BUF2, rng_ff, 0));
	case 4: g_expect = ERR_BAD_RNG; return RUN("g12sSign", g12sSign(BUF1, G12P, DATA, BUF2, 0, 0));
	}
	g_expect = ERR_BAD_PARAMS; return RUN("g12sSign", g12sSign(BUF1, g12_bad(1), DATA, BUF2, prngEchoStepR, ECHO));
}
static err_t s_g12Ver(int var)
{
	err_t code; G12_PRE;
	tape_start(); g12sSign(BUF2, G12P, DATA, PRIV, prngEchoStepR, ECHO);
	memcpy(BUF3, G12PUB, 64);
	if (var == 1) BUF2[5] ^= 1;                   /* r changed */
	if (var == 2) memset(BUF2 + 32, 0, 32);       /* s = 0 */
	if (var == 3) memset(BUF2, 0xFF, 32);         /* r >= q */
	if (var == 4) BUF3[40] ^= 0x20;               /* key off the curve */
	if (var == 5) memset(BUF3, 0xFF, 32);         /* x >= p */
	g_expect = var == 0 ? ERR_OK : var <= 3 || var == 7 ? ERR_BAD_SIG : var <= 5 ? ERR_BAD_PUBKEY : ERR_BAD_PARAMS;
	return RUN("g12sVerify", g12sVerify(var == 6 ? g12_bad(1) : G12P, DATA + (var == 7 ? 1 : 0), BUF2, BUF3));
}
static err_t s_g12PrmVal(int var)
{
	err_t code; G12_PRE;
	memcpy(G12BAD, G12P, sizeof G12BAD);
	if (var == 1) G12BAD->yP[0] ^= 1;       /* base point off the curve */
	if (var == 2) G12BAD->q[0] ^= 2;        /* order wrong */
	if (var == 3) G12BAD->l = 0;
	g_expect = var == 0 ? ERR_OK : ERR_BAD_PARAMS;
	return RUN("g12sParamsVal", g12sParamsVal(G12BAD));
}

/* ------------------------------------------------------------------ dstu (curve over GF(2^163) of example B.1; field and order elements: 21 octets) */
static dstu_params DSP[1], DSBAD[1];
static unsigned char DSPRIV[21], DSPUB[42];
static octet COMBO[256];
static int ds_ready;
static void ds_setup(void)
{
	bign_setup();
	if (ds_ready) return;
	dstuParamsStd(DSP, "1.2.804.2.1.1.1.1.3.1.1.1.2.0");
	prngEchoStart(ECHO, TAPE + 128, 21);
	dstuKeypairGen(DSPRIV, DSPUB, DSP, prngEchoStepR, ECHO);
	ds_ready = 1;
}
static const dstu_params* ds_bad(int after_alloc)
{
	memcpy(DSBAD, DSP, sizeof DSBAD);
	if (after_alloc) DSBAD->p[1] = 0; else DSBAD->A = 2;
	return DSBAD;
}
#define DS_PRE material(); ds_setup(); sec_reset(); out_reset()
static err_t s_dsGen(int var)
{
	err_t code; DS_PRE;
	sec_add(TAPE, 16, "generated-privkey"); tape_start();
	out_add(BUF1, 21); out_add(BUF1 + 64, 42);
	switch (var)
	{
	case 0: g_expect = ERR_OK; return RUN("dstuKeypairGen", dstuKeypairGen(BUF1, BUF1 + 64, DSP, prngEchoStepR, ECHO));
	case 1: g_expect = ERR_BAD_RNG; return RUN("dstuKeypairGen", dstuKeypairGen(BUF1, BUF1 + 64, DSP, 0, 0));
	case 2: g_expect = ERR_BAD_PARAMS; return RUN("dstuKeypairGen", dstuKeypairGen(BUF1, BUF1 + 64, ds_bad(0), prngEchoStepR, ECHO));
	}
	g_expect = ERR_BAD_PARAMS; return RUN("dstuKeypairGen", dstuKeypairGen(BUF1, BUF1 + 64, ds_bad(1), prngEchoStepR, ECHO));
}
static err_t s_dsSign(int var)
{
	err_t code; DS_PRE;
	memcpy(BUF2, DSPRIV, 21);
	if (var == 5) memset(BUF2, 0, 21);
	if (var == 6) memset(BUF2, 0xFF, 21);
	if (var < 5) sec_add(BUF2, 21, "privkey");
	sec_add(TAPE + 64, 16, "nonce-e"); prngEchoStart(ECHO, TAPE + 64, 64);
	out_add(BUF1, 64);
	switch (var)
	{
	case 0: g_expect = ERR_OK; return RUN("dstuSign", dstuSign(BUF1, DSP, 512, DATA, 32, BUF2, prngEchoStepR, ECHO));
	case 1: g_expect = ERR_BAD_INPUT; return RUN("dstuSign", dstuSign(BUF1, DSP, 504, DATA, 32, BUF2, prngEchoStepR, ECHO));   /* 16 does not divide ld */
	case 2: g_expect = ERR_BAD_INPUT; return RUN("dstuSign", dstuSign(BUF1, DSP, 320, DATA, 32, BUF2, prngEchoStepR, ECHO));   /* 2 x 163 bits do not fit */
	case 3: g_expect = ERR_BAD_RNG; return RUN("dstuSign", dstuSign(BUF1, DSP, 512, DATA, 32, BUF2, 0, 0));
	case 4: g_expect = ERR_BAD_PARAMS; return RUN("dstuSign", dstuSign(BUF1, ds_bad(1), 512, DATA, 32, BUF2, prngEchoStepR, ECHO));
	}
	/* 5: privkey = 0, 6: privkey >= n — header: \expect{ERR_BAD_PRIVKEY} */
	g_expect = ERR_BAD_PRIVKEY; return RUN("dstuSign", dstuSign(BUF1, DSP, 512, DATA, 32, BUF2, prngEchoStepR, ECHO));
}
static err_t s_dsVer(int var)
{
	err_t code; size_t ld = 512; DS_PRE;
	prngEchoStart(ECHO, TAPE + 64, 64); dstuSign(BUF2, DSP, 512, DATA, 32, DSPRIV, prngEchoStepR, ECHO);
	memcpy(BUF3, DSPUB, 42);
	if (var == 1) BUF2[0] ^= 1;                       /* r changed */
	if (var == 2) BUF2[30] = 1;                       /* padding of r not zero */
	if (var == 3) memset(BUF2 + 32, 0xFF, 21);        /* s >= n */
	if (var == 4) memset(BUF2, 0, 21);                /* r = 0 */
	if (var == 5) BUF3[3] ^= 0x40;                    /* key off the curve */
	if (var == 6) BUF3[20] |= 0x80;                   /* x not a field element */
	if (var == 7) ld = 500;
	g_expect = var == 0 ? ERR_OK : var <= 4 || var == 9 ? ERR_BAD_SIG : var <= 6 ? ERR_BAD_PUBKEY : var == 7 ? ERR_BAD_INPUT : ERR_BAD_PARAMS;
	return RUN("dstuVerify", dstuVerify(var == 8 ? ds_bad(1) : DSP, ld, DATA + (var == 9 ? 1 : 0), 32, BUF2, BUF3));
}
static err_t s_dsPtGen(int var)
{
	err_t code; DS_PRE;
	prngCOMBOStart(COMBO, 0x9E3779B9u);
	out_add(BUF1, 42);
	if (var == 0) { g_expect = ERR_OK; return RUN("dstuPointGen", dstuPointGen(BUF1, DSP, prngCOMBOStepR, COMBO)); }
	if (var == 1) { g_expect = ERR_BAD_RNG; return RUN("dstuPointGen", dstuPointGen(BUF1, DSP, 0, 0)); }
	g_expect = ERR_BAD_PARAMS; return RUN("dstuPointGen", dstuPointGen(BUF1, ds_bad(var == 3), prngCOMBOStepR, COMBO));
}
static err_t s_dsPtVal(int var)
{
	err_t code; DS_PRE;
	memcpy(BUF3, DSPUB, 42);
	if (var == 1) BUF3[25] ^= 2;
	g_expect = var == 0 ? ERR_OK : var == 1 ? ERR_BAD_POINT : ERR_BAD_PARAMS;
	return RUN("dstuPointVal", dstuPointVal(var == 2 ? ds_bad(1) : DSP, BUF3));
}
static err_t s_dsPrmVal(int var)
{
	err_t code; DS_PRE;
	memcpy(DSBAD, DSP, sizeof DSBAD);
	if (var == 1) DSBAD->P[0] ^= 1;         /* base point off the curve */
	if (var == 2) DSBAD->n[0] ^= 2;         /* order wrong */
	if (var == 3) DSBAD->p[0] = 159;
	g_expect = var == 0 ? ERR_OK : ERR_BAD_PARAMS;
	return RUN("dstuParamsVal", dstuParamsVal(DSBAD));
}

/* ------------------------------------------------------------------ stb99 (test parameters, l = 638) */
static stb99_params S99[1];
static err_t s_s99Std(int var)
{
	err_t code; material(); sec_reset(); out_reset();
	/* the loader clears *params before it looks the name up (public data, the header is silent about
	   the state of params after a failure): the output is registered on the success exit only */
	if (var == 0) { out_add(S99, sizeof S99); g_expect = ERR_OK; return RUN("stb99ParamsStd", stb99ParamsStd(S99, 0, "test")); }
	g_expect = ERR_FILE_NOT_FOUND; return RUN("stb99ParamsStd", stb99ParamsStd(S99, 0, "1.2.112.0.2.0.1176.2.3.3"));
}
static err_t s_s99Val(int var)
{
	err_t code; material(); sec_reset(); out_reset();
	stb99ParamsStd(S99, 0, "test");
	if (var == 1) S99->d[0] += 2;           /* stb99_test.c: a is not the power of d */
	if (var == 2) S99->p[1] ^= 0x10;        /* p composite */
	if (var == 3) S99->q[1] ^= 0x10;        /* q composite */
	if (var == 4) S99->r += 1;
	if (var == 5) S99->a[0] ^= 1;
	g_expect = var == 0 ? ERR_OK : ERR_BAD_PARAMS;
	return RUN("stb99ParamsVal", stb99ParamsVal(S99));
}

/* ------------------------------------------------------------------ btok: CV certificates
   CERT0: self-signed certificate of the authority BYCA0000 (key PRIV), CERT1: certificate of BYCA1000
   (key PRIV1 = TAPE[0..32)) issued by BYCA0000; all keys on bign-curve256v1 */
static btok_cvc_t CVC0[1], CVC1[1], CVCX[1], CVCOUT[1];
static unsigned char CERT0[400], CERT1[400], CERTX[400], PRIV1[32];
static size_t CERT0_LEN, CERT1_LEN, CERTX_LEN, CNT;
static const octet DATE_IN[6] = { 2, 2, 0, 8, 0, 1 }, DATE_OUT[6] = { 2, 3, 0, 1, 0, 1 }, DATE_BAD[6] = { 2, 2, 1, 3, 0, 1 };
static void cvc_fill(btok_cvc_t* c, const char* authority, const char* holder, const char* from, const char* until)
{
	memset(c, 0, sizeof *c);
	strcpy(c->authority, authority); strcpy(c->holder, holder);
	hexTo(c->from, from); hexTo(c->until, until);
	memset(c->hat_eid, 0xEE, 5); memset(c->hat_esign, 0x77, 2);
}
static int cvc_ready;
static void cvc_setup(void)
{
	bign_setup();
	if (!cvc_ready)
	{
		memcpy(PRIV1, TAPE, 32);
		cvc_fill(CVC0, "BYCA0000", "BYCA0000", "020200070007", "090900070007");
		btokCVCWrap(CERT0, &CERT0_LEN, CVC0, PRIV, 32);
		cvc_fill(CVC1, "BYCA0000", "BYCA1000", "020200070102", "020201010300");
		CVC1->pubkey_len = 64; bignPubkeyCalc(CVC1->pubkey, PARAMS, PRIV1);
		btokCVCIss(CERT1, &CERT1_LEN, CVC1, CERT0, CERT0_LEN, PRIV, 32);
		cvc_ready = 1;
	}
	memcpy(CERTX, CERT1, sizeof CERTX); CERTX_LEN = CERT1_LEN;
	memcpy(CVCX, CVC1, sizeof CVCX);
}
/* offset of the first occurrence of a 3-octet pattern (tag and length of a field) in CERTX */
static size_t cert_find(octet a, octet b, octet c)
{
	size_t i;
	for (i = 0; i + 3 <= CERTX_LEN; ++i) if (CERTX[i] == a && CERTX[i + 1] == b && CERTX[i + 2] == c) return i + 3;
	return 0;
}
#define CVC_PRE material(); cvc_setup(); sec_reset(); out_reset()

static err_t s_cvcWrap(int var)
{
	err_t code; size_t klen = 32; CVC_PRE;
	memcpy(BUF2, PRIV, 32);
	cvc_fill(CVCX, "BYCA0000", "BYCA0000", "020200070007", "090900070007");     /* pubkey_len = 0: derived from the private key */
	g_expect = ERR_OK;
	if (var == 1) klen = 33, g_expect = ERR_BAD_INPUT;
	if (var == 2) strcpy(CVCX->holder, "BYCA0"), g_expect = ERR_BAD_NAME;
	if (var == 3) hexTo(CVCX->from, "090900070008"), g_expect = ERR_BAD_DATE;
	if (var == 4) memset(BUF2, 0, 32), g_expect = ERR_BAD_PRIVKEY;                               /* fails in the derivation of the public key */
	if (var == 5) memset(BUF2, 0xFF, 32), memcpy(CVCX->pubkey, PUB, 64), CVCX->pubkey_len = 64, g_expect = ERR_BAD_PRIVKEY;   /* fails in the signature */
	if (var == 6) memcpy(CVCX->pubkey, PUB, 64), CVCX->pubkey[40] ^= 0x20, CVCX->pubkey_len = 64, g_expect = ERR_BAD_PUBKEY;
	if (var == 7) CVCX->from[1] = 10, g_expect = ERR_BAD_DATE;
	if (var != 4 && var != 5) sec_add(BUF2, 32, "privkey");
	out_add(BUF1, 400); out_add(&CNT, sizeof CNT);
	return RUN("btokCVCWrap", btokCVCWrap(BUF1, &CNT, CVCX, BUF2, klen));
}
static err_t s_cvcUnwrap(int var)
{
	err_t code; size_t plen = 64, off; CVC_PRE;
	memcpy(BUF3, CVC0->pubkey, 64);
	g_expect = ERR_OK;
	if (var == 1) CERTX[CERTX_LEN - 5] ^= 1, g_expect = ERR_BAD_SIG;                /* signature changed */
	if (var == 2) off = cert_find(0x5F, 0x20, 8), CERTX[off] ^= 1, g_expect = ERR_BAD_SIG;      /* holder changed */
	if (var == 3) BUF3[40] ^= 0x20, g_expect = ERR_BAD_PUBKEY;
	if (var == 4) CERTX_LEN -= 1, g_expect = ERR_BAD_FORMAT;
	if (var == 5) plen = 63, g_expect = ERR_BAD_INPUT;
	if (var == 6) off = cert_find(0x5F, 0x24, 6), CERTX[off] = 1, g_expect = ERR_BAD_DATE;      /* until < from, signature not checked */
	if (var == 7) plen = 96, g_expect = ERR_BAD_FORMAT;                            /* signature length does not fit the key */
	out_add(CVCOUT, sizeof CVCOUT);
	if (var == 6) return RUN("btokCVCUnwrap", btokCVCUnwrap(CVCOUT, CERTX, CERTX_LEN, 0, 0));
	return RUN("btokCVCUnwrap", btokCVCUnwrap(CVCOUT, CERTX, CERTX_LEN, BUF3, plen));
}
/* a certificate for BYCA2000 (key TAPE[32..64)) issued by BYCA1000 (CERT1, PRIV1) */
static err_t s_cvcIss(int var)
{
	err_t code; size_t klen = 32, alen; CVC_PRE;
	alen = CERT1_LEN;
	memcpy(BUF2, PRIV1, 32);
	cvc_fill(CVCX, "BYCA1000", "590082394654", "020200070102", "030901020301");
	CVCX->pubkey_len = 64; bignPubkeyCalc(CVCX->pubkey, PARAMS, TAPE + 32);
	g_expect = ERR_OK;
	if (var == 1) alen -= 1, g_expect = ERR_BAD_FORMAT;
	if (var == 2) memcpy(BUF2, PRIV, 32), g_expect = ERR_BAD_PUBKEY;                /* not the issuer's key (bignKeypairVal) */
	if (var == 3) klen = 48, g_expect = ERR_BAD_KEYPAIR;
	if (var == 4) strcpy(CVCX->authority, "BYCA0000"), g_expect = ERR_BAD_NAME;
	if (var == 5) hexTo(CVCX->from, "020201010301"), g_expect = ERR_BAD_DATE;       /* starts after the issuer's certificate expires */
	if (var == 6) CVCX->pubkey[40] ^= 0x20, g_expect = ERR_BAD_PUBKEY;
	if (var == 7) memset(BUF2, 0, 32), g_expect = ERR_BAD_PRIVKEY;
	if (var != 7) sec_add(BUF2, 32, "issuer-privkey");
	out_add(BUF1, 400); out_add(&CNT, sizeof CNT);
	return RUN("btokCVCIss", btokCVCIss(BUF1, &CNT, CVCX, CERT1, alen, BUF2, klen));
}
static err_t s_cvcVal(int var)
{
	err_t code; const octet* date = 0; size_t alen; CVC_PRE;
	alen = CERT0_LEN;
	g_expect = ERR_OK;
	if (var == 1) date = DATE_OUT, g_expect = ERR_OUTOFRANGE;
	if (var == 2) date = DATE_BAD, g_expect = ERR_BAD_DATE;
	if (var == 3) CERTX[CERTX_LEN - 5] ^= 1, g_expect = ERR_BAD_SIG;
	if (var == 4) alen -= 2, g_expect = ERR_BAD_FORMAT;
	if (var == 5) CERTX_LEN -= 1, g_expect = ERR_BAD_FORMAT;
	if (var == 6) date = DATE_IN;
	if (var == 7)      /* signed by the authority's key, but issued in another name */
	{
		cvc_fill(CVCX, "BYCA9999", "BYCA1000", "020200070102", "020201010300");
		CVCX->pubkey_len = 64; bignPubkeyCalc(CVCX->pubkey, PARAMS, PRIV1);
		btokCVCWrap(CERTX, &CERTX_LEN, CVCX, PRIV, 32);
		g_expect = ERR_BAD_NAME;
	}
	return RUN("btokCVCVal", btokCVCVal(CERTX, CERTX_LEN, CERT0, alen, date));
}
static err_t s_cvcVal2(int var)
{
	err_t code; const octet* date = 0; btok_cvc_t* out = CVCOUT; CVC_PRE;
	memcpy(CVCX, CVC0, sizeof CVCX);      /* issuer's content */
	g_expect = ERR_OK;
	if (var == 1) out = 0;                                                          /* content not wanted: own blob */
	if (var == 2) out = 0, CERTX[CERTX_LEN - 5] ^= 1, g_expect = ERR_BAD_SIG;
	if (var == 3) out = 0, date = DATE_OUT, g_expect = ERR_OUTOFRANGE;
	if (var == 4) out = 0, date = DATE_BAD, g_expect = ERR_BAD_DATE;
	if (var == 5) out = 0, strcpy(CVCX->holder, "BYCA0001"), g_expect = ERR_BAD_NAME;
	if (var == 6) out = 0, hexTo(CVCX->until, "020200070101"), g_expect = ERR_BAD_DATE;   /* issuer expired before cert starts */
	if (var == 7) CERTX[CERTX_LEN - 5] ^= 1, g_expect = ERR_BAD_SIG;                /* as 2, content wanted */
	if (out) out_add(CVCOUT, sizeof CVCOUT);
	return RUN("btokCVCVal2", btokCVCVal2(out, CERTX, CERTX_LEN, CVCX, date));
}
static err_t s_cvcMatch(int var)
{
	err_t code; size_t klen = 32; CVC_PRE;
	memcpy(BUF2, PRIV1, 32);
	g_expect = ERR_OK;
	if (var == 1) memcpy(BUF2, PRIV, 32), g_expect = ERR_BAD_PUBKEY;
	if (var == 2) klen = 24, g_expect = ERR_BAD_KEYPAIR;
	if (var == 3) CERTX_LEN -= 1, g_expect = ERR_BAD_FORMAT;
	if (var == 4) memset(BUF2, 0, 32), g_expect = ERR_BAD_PRIVKEY;
	if (var != 4) sec_add(BUF2, 32, "privkey");
	return RUN("btokCVCMatch", btokCVCMatch(CERTX, CERTX_LEN, BUF2, klen));
}

/* ------------------------------------------------------------------ btok: secure messaging (no allocation; key K32) */
static size_t SMT[128], SMCT[128], SMCMD[64], SMCMD2[64], SMRESP[64], SMRESP2[64], SMSIZE;
static octet SMAPDU[128]; static size_t SMAPDU_LEN;
/* both ends keyed with K32 and advanced to counter value ctr */
static void sm_setup(int ctr)
{
	apdu_cmd_t* cmd = (apdu_cmd_t*)SMCMD; apdu_resp_t* resp = (apdu_resp_t*)SMRESP; int i;
	material(); sec_reset(); out_reset();
	btokSMStart(SMT, K32); btokSMStart(SMCT, K32);
	for (i = 0; i < ctr; ++i) btokSMCtrInc(SMT), btokSMCtrInc(SMCT);
	memset(SMCMD, 0, sizeof SMCMD); memset(SMRESP, 0, sizeof SMRESP);
	cmd->cla = 0x00, cmd->ins = 0xA4, cmd->p1 = 0x04, cmd->p2 = 0x04; cmd->cdf_len = 20, cmd->rdf_len = 256;
	memcpy(cmd->cdf, DATA + 40, 20);
	resp->sw1 = 0x90, resp->sw2 = 0x00; resp->rdf_len = 20; memcpy(resp->rdf, DATA + 80, 20);
	sec_add(K32, 32, "sm-key"); sec_add(SMT, 32, "sm-mac-key"); sec_add((octet*)SMT + 32, 32, "sm-enc-key");
}
static err_t s_smCmdW(int var)
{
	err_t code; apdu_cmd_t* cmd = (apdu_cmd_t*)SMCMD;
	sm_setup(var == 2 ? 2 : 1);
	g_expect = ERR_OK;
	if (var == 1) cmd->cla |= 0x04, g_expect = ERR_BAD_APDU;          /* already protected */
	if (var == 2) g_expect = ERR_BAD_LOGIC;                            /* even counter */
	if (var == 3) cmd->rdf_len = 65537, g_expect = ERR_BAD_APDU;
	out_add(BUF1, 128); out_add(&CNT, sizeof CNT);
	return RUN("btokSMCmdWrap", btokSMCmdWrap(BUF1, &CNT, cmd, SMT));
}
static err_t s_smCmdU(int var)
{
	err_t code;
	sm_setup(1);
	btokSMCmdWrap(SMAPDU, &SMAPDU_LEN, (apdu_cmd_t*)SMCMD, SMT);
	g_expect = ERR_OK;
	if (var == 1) SMAPDU[SMAPDU_LEN - 3] ^= 0x01, g_expect = ERR_BAD_MAC;      /* MAC changed (Le* = 00 is the last octet) */
	if (var == 2) SMAPDU[9] ^= 0x10, g_expect = ERR_BAD_MAC;                   /* ciphertext changed */
	if (var == 3) btokSMCtrInc(SMCT), g_expect = ERR_BAD_LOGIC;
	if (var == 4) SMAPDU[0] &= 0xFB, g_expect = ERR_BAD_APDU;                  /* not marked as protected */
	if (var == 5) SMAPDU_LEN -= 1, g_expect = ERR_BAD_APDU;
	if (var == 6) SMAPDU[1] ^= 0x01, g_expect = ERR_BAD_MAC;                   /* header (INS) changed */
	out_add(SMCMD2, sizeof(apdu_cmd_t) + 20); out_add(&SMSIZE, sizeof SMSIZE);
	return RUN("btokSMCmdUnwrap", btokSMCmdUnwrap((apdu_cmd_t*)SMCMD2, &SMSIZE, SMAPDU, SMAPDU_LEN, SMCT));
}
static err_t s_smRespW(int var)
{
	err_t code; apdu_resp_t* resp = (apdu_resp_t*)SMRESP;
	sm_setup(var == 1 ? 1 : 2);
	g_expect = ERR_OK;
	if (var == 1) g_expect = ERR_BAD_LOGIC;                            /* odd counter */
	if (var == 2) resp->rdf_len = 65537, g_expect = ERR_BAD_APDU;
	out_add(BUF1, 128); out_add(&CNT, sizeof CNT);
	return RUN("btokSMRespWrap", btokSMRespWrap(BUF1, &CNT, resp, SMCT));
}
static err_t s_smRespU(int var)
{
	err_t code;
	sm_setup(2);
	btokSMRespWrap(SMAPDU, &SMAPDU_LEN, (apdu_resp_t*)SMRESP, SMCT);
	g_expect = ERR_OK;
	if (var == 1) SMAPDU[SMAPDU_LEN - 4] ^= 0x80, g_expect = ERR_BAD_MAC;      /* MAC changed */
	if (var == 2) SMAPDU[5] ^= 0x01, g_expect = ERR_BAD_MAC;                   /* ciphertext changed */
	if (var == 3) SMAPDU[SMAPDU_LEN - 1] ^= 0x01, g_expect = ERR_BAD_MAC;      /* SW2 changed */
	if (var == 4) btokSMCtrInc(SMT), g_expect = ERR_BAD_LOGIC;
	if (var == 5) SMAPDU_LEN = 11, g_expect = ERR_BAD_APDU;
	out_add(SMRESP2, sizeof(apdu_resp_t) + 20); out_add(&SMSIZE, sizeof SMSIZE);
	return RUN("btokSMRespUnwrap", btokSMRespUnwrap((apdu_resp_t*)SMRESP2, &SMSIZE, SMAPDU, SMAPDU_LEN, SMT));
}

/* ------------------------------------------------------------------ btok: BAUTH (T = terminal, key PRIV; CT = token, key PRIV1)
   messages: M1 = BUF2[0..96), M2 = BUF2[256..280), M3 = BUF2[512..512+32+72+8) */
static size_t BAT[2600], BACT[2600];
static octet BACERTT[72], BACERTCT[72]; static bake_cert BCT[1], BCCT[1]; static bake_settings BST[1], BSCT[1];
static err_t certval_bad(octet* pubkey, const bign_params* params, const octet* data, size_t len) { return ERR_BAD_CERT; }
/* runs the protocol up to (excluding) step `upto` (2..5); mism: the token signs with a key that does not
   match its certificate */
static err_t bauth_upto(int upto, int kcb, int mism)
{
	err_t code;
	material(); bign_setup(); cvc_setup(); sec_reset(); out_reset();
	memcpy(BACERTT, "T0000001", 8); memcpy(BACERTT + 8, PUB, 64);
	memcpy(BACERTCT, "CT000001", 8); bignPubkeyCalc(BACERTCT + 8, PARAMS, PRIV1);
	BCT->data = BACERTT, BCT->len = 72, BCT->val = certval; BCCT->data = BACERTCT, BCCT->len = 72, BCCT->val = certval;
	memset(BST, 0, sizeof BST); memset(BSCT, 0, sizeof BSCT);
	BST->kca = BSCT->kca = TRUE; BST->kcb = BSCT->kcb = kcb;
	BST->rng = BSCT->rng = prngEchoStepR; BST->rng_state = ECHOA; BSCT->rng_state = ECHOB;
	prngEchoStart(ECHOA, TAPE + 64, 64); prngEchoStart(ECHOB, TAPE + 128, 64);
	memset(BUF2, 0, sizeof BUF2);
	if (sizeof BAT < btokBAuthT_keep(128) || sizeof BACT < btokBAuthCT_keep(128)) return ERR_OUTOFMEMORY;
	code = btokBAuthTStart(BAT, PARAMS, BST, PRIV, BCT); if (code) return code;
	code = btokBAuthCTStart(BACT, PARAMS, BSCT, mism ? TAPE + 32 : PRIV1, BCCT); if (code) return code;
	if (upto <= 2) return ERR_OK;
	code = btokBAuthCTStep2(BUF2, BCT, BACT); if (code) return code;
	if (upto <= 3) return ERR_OK;
	code = btokBAuthTStep3(BUF2 + 256, BUF2, BAT); if (code) return code;
	if (upto <= 4) return ERR_OK;
	return btokBAuthCTStep4(BUF2 + 512, BUF2 + 256, BACT);
}
static err_t s_baTStart(int var)
{
	err_t code; const bign_params* prm;
	bauth_upto(2, TRUE, 0); prm = PARAMS;
	sec_add(PRIV, 32, "privkey");
	g_expect = ERR_OK;
	if (var == 1) BST->kca = FALSE, g_expect = ERR_BAD_INPUT;
	if (var == 2) BST->rng = 0, g_expect = ERR_BAD_RNG;
	if (var == 3) BCT->val = certval_bad, g_expect = ERR_BAD_CERT;
	if (var == 4) BACERTT[8 + 40] ^= 0x20, g_expect = ERR_BAD_CERT;       /* certified key off the curve */
	if (var == 5) prm = params_bad(PARAMS, 0), g_expect = ERR_BAD_PARAMS;
	if (var == 6) prm = params_bad(PARAMS, 1), g_expect = ERR_BAD_PARAMS;
	return RUN("btokBAuthTStart", btokBAuthTStart(BAT, prm, BST, PRIV, BCT));
}
static err_t s_baCTStart(int var)
{
	err_t code; const bign_params* prm;
	bauth_upto(2, TRUE, 0); prm = PARAMS;
	sec_add(PRIV1, 32, "privkey");
	g_expect = ERR_OK;
	if (var == 1) BSCT->kca = FALSE, g_expect = ERR_BAD_INPUT;
	if (var == 2) BSCT->rng = 0, g_expect = ERR_BAD_RNG;
	if (var == 3) BCCT->len = 10, g_expect = ERR_BAD_CERT;
	if (var == 4) BACERTCT[8 + 40] ^= 0x20, g_expect = ERR_BAD_CERT;
	if (var == 5) prm = params_bad(PARAMS, 1), g_expect = ERR_BAD_PARAMS;
	return RUN("btokBAuthCTStart", btokBAuthCTStart(BACT, prm, BSCT, PRIV1, BCCT));
}
static err_t s_baCT2(int var)
{
	err_t code;
	bauth_upto(2, TRUE, 0);
	sec_add(PRIV1, 32, "privkey"); sec_add(TAPE + 128, 16, "Rct"); sec_add(TAPE + 128 + 16, 32, "nonce-u");
	g_expect = ERR_OK;
	if (var == 1) BCT->val = certval_bad, g_expect = ERR_BAD_CERT;
	if (var == 2) BACERTT[8 + 40] ^= 0x20, g_expect = ERR_BAD_CERT;
	if (var == 3) { BSCT->rng = rng_zero; btokBAuthCTStart(BACT, PARAMS, BSCT, PRIV1, BCCT); g_expect = ERR_BAD_RNG; }   /* no one-time key */
	out_add(BUF1, 96);
	return RUN("btokBAuthCTStep2", btokBAuthCTStep2(BUF1, BCT, BACT));
}
static err_t s_baT3(int var)
{
	err_t code;
	bauth_upto(3, var != 3, 0);
	sec_add(PRIV, 32, "privkey"); sec_add(TAPE + 128, 16, "Rct");
	g_expect = ERR_OK;
	if (var == 1) BUF2[40] ^= 0x20, g_expect = ERR_BAD_POINT;             /* Vct off the curve */
	if (var == 2) BUF2[70] ^= 0x01, g_expect = ERR_AUTH;                  /* key token changed */
	out_add(BUF1, 24);
	return RUN("btokBAuthTStep3", btokBAuthTStep3(BUF1, BUF2, BAT));
}
static err_t s_baCT4(int var)
{
	err_t code;
	bauth_upto(4, var != 2, 0);
	sec_add(PRIV1, 32, "privkey"); sec_add(TAPE + 128, 16, "Rct"); sec_add(TAPE + 128 + 16, 32, "nonce-u");
	g_expect = ERR_OK;
	if (var == 1) BUF2[256 + 3] ^= 0x04, g_expect = ERR_AUTH;             /* Tt changed */
	if (var == 3) BUF2[256 + 10] ^= 0x04, g_expect = ERR_AUTH;            /* Rt changed: other keys, Tt does not verify */
	out_add(BUF1, 32 + 72 + 8);
	return RUN("btokBAuthCTStep4", btokBAuthCTStep4(BUF1, BUF2 + 256, BACT));
}
static err_t s_baT5(int var)
{
	err_t code; size_t len = 32 + 72 + 8; bake_certval_i val = certval_x;     /* sees sct || cert_ct decrypted into a temporary blob */
	bauth_upto(5, var != 3, var == 5);
	sec_add(PRIV, 32, "privkey");
	g_expect = ERR_OK;
	if (var == 1) BUF2[512 + len - 2] ^= 0x01, g_expect = ERR_AUTH;       /* Tct changed */
	CV_REJECT = 0;
	if (var == 2) CV_REJECT = 1, g_expect = ERR_BAD_CERT;
	if (var == 3) g_expect = ERR_BAD_LOGIC;                                /* the token is not to be authenticated */
	if (var == 4) len = 39, g_expect = ERR_BAD_INPUT;
	if (var == 5) g_expect = ERR_AUTH;                                     /* signature made with another key */
	if (var == 6) BUF2[512 + 5] ^= 0x01, g_expect = ERR_AUTH;             /* Zct changed */
	return RUN("btokBAuthTStep5", btokBAuthTStep5(BUF2 + 512, len, val, BAT));
}

/* ------------------------------------------------------------------ bake: KDF, SWU */
static err_t s_bakeKDF(int var)
{
	err_t code; material(); sec_reset(); out_reset();
	sec_add(K32, 32, "secret");
	out_add(BUF1, 32);
	if (var == 0) { g_expect = ERR_OK; return RUN("bakeKDF", bakeKDF(BUF1, K32, 32, DATA, 64, 1)); }
	g_expect = ERR_BAD_INPUT; return RUN("bakeKDF", bakeKDF(BUF1, K32, 32, 0, 64, 1));      /* iv absent */
}
static err_t s_bakeSWU(int var)
{
	err_t code; material(); bign_setup(); sec_reset(); out_reset();
	out_add(BUF1, 64);
	if (var == 0) { g_expect = ERR_OK; return RUN("bakeSWU", bakeSWU(BUF1, PARAMS, DATA)); }
	g_expect = ERR_BAD_PARAMS; return RUN("bakeSWU", bakeSWU(BUF1, params_bad(PARAMS, var == 2), DATA));
}

/* ------------------------------------------------------------------ bake: BMQV / BPACE Run functions, driven like s_bsts_side
   (both sides re-run until neither waits for a message; tracking only for the side under test).
   The side under test talks through a channel that can fail at its k-th read / write or deliver
   a changed message. */
static int CH_RFAIL, CH_WFAIL, CH_RCNT, CH_WCNT, CH_XR; static size_t CH_XOFF;
static err_t fread_t(size_t* read, void* buf, size_t count, void* file)
{
	err_t c = fread_(read, buf, count, file);
	if (c == ERR_FILE_NOT_FOUND) return c;          /* the message has not been sent yet */
	if (++CH_RCNT == CH_RFAIL) return ERR_FILE_READ;
	if (CH_RCNT == CH_XR && CH_XOFF < *read) ((octet*)buf)[CH_XOFF] ^= 0x04;
	return c;
}
static err_t fwrite_t(size_t* written, const void* buf, size_t count, void* file)
{
	if (++CH_WCNT == CH_WFAIL) return ERR_FILE_WRITE;
	return fwrite_(written, buf, count, file);
}
static const bign_params *BK_PA, *BK_PB; static const octet *BK_PWDA, *BK_PWDB;
static octet CERTPEER[72]; static bake_cert CPEER[1];       /* the peer's certificate as the side under test sees it */
#define BK_PWDLEN 12
static void bake_setup(int which)
{
	material(); bign_setup(); sec_reset(); out_reset();
	memcpy(DA, PRIV, 32); memcpy(DB, TAPE, 32);
	memcpy(CERTA, "Alice000", 8); memcpy(CERTB, "Bob00000", 8);
	bignPubkeyCalc(CERTA + 8, PARAMS, DA); bignPubkeyCalc(CERTB + 8, PARAMS, DB);
	CA->data = CERTA; CA->len = 72; CA->val = certval; CB->data = CERTB; CB->len = 72; CB->val = certval;
	memset(SA, 0, sizeof SA); memset(SB, 0, sizeof SB);
	SA->kca = SA->kcb = SB->kca = SB->kcb = TRUE; SA->rng = SB->rng = prngEchoStepR; SA->rng_state = ECHOA; SB->rng_state = ECHOB;
	memset(MSGS, 0, sizeof MSGS);
	BK_PA = BK_PB = PARAMS; BK_PWDA = BK_PWDB = DATA + 300;
	memcpy(CERTPEER, which ? CERTB : CERTA, 72); CPEER->data = CERTPEER; CPEER->len = 72; CPEER->val = certval;
	CH_RFAIL = CH_WFAIL = CH_XR = 0; CH_XOFF = 0;
	g_expect = ERR_OK;
	out_add(which ? KEYA : KEYB, 32);
}
static err_t bake_call(int proto, int side, int tested)
{
	read_i rd = tested ? fread_t : fread_; write_i wr = tested ? fwrite_t : fwrite_;
	if (tested) CH_RCNT = CH_WCNT = 0;
	if (proto == 0)
		return side ? bakeBMQVRunA(KEYA, BK_PA, SA, DA, CA, tested ? CPEER : CB, rd, wr, FA) : bakeBMQVRunB(KEYB, BK_PB, SB, DB, CB, tested ? CPEER : CA, rd, wr, FB);
	return side ? bakeBPACERunA(KEYA, BK_PA, SA, BK_PWDA, BK_PWDLEN, rd, wr, FA) : bakeBPACERunB(KEYB, BK_PB, SB, BK_PWDB, BK_PWDLEN, rd, wr, FB);
}
static err_t bake_drive(int proto, int which, const char* fn)
{
	err_t codea = ERR_FILE_NOT_FOUND, codeb = ERR_FILE_NOT_FOUND; int round;
	for (round = 0; round < 8 && (codea == ERR_FILE_NOT_FOUND || codeb == ERR_FILE_NOT_FOUND); ++round)
	{
		FA->i = FA->offset = FB->i = FB->offset = 0;
		prngEchoStart(ECHOA, TAPE + 64, 64); prngEchoStart(ECHOB, TAPE + 128, 64);
		if (which == 0)
		{
			track_begin(fn, g_inject); codeb = bake_call(proto, 0, 1); track_end();
			if (codeb != ERR_FILE_NOT_FOUND) return codeb;
			codea = bake_call(proto, 1, 0);
		}
		else
		{
			codeb = bake_call(proto, 0, 0);
			track_begin(fn, g_inject); codea = bake_call(proto, 1, 1); track_end();
			if (codea != ERR_FILE_NOT_FOUND) return codea;
		}
	}
	return ERR_FILE_NOT_FOUND;
}
/* BMQV.  B: write M1 = Vb, read M2 = Va || Ta, write M3 = Tb.  A: read M1, write M2, read M3. */
static err_t s_bmqvB(int var)
{
	bake_setup(0);
	sec_add(DB, 32, "privkey"); sec_add(TAPE + 128, 32, "nonce-u");
	switch (var)
	{
	case 1: CH_WFAIL = 1; g_expect = ERR_FILE_WRITE; break;
	case 2: CH_RFAIL = 1; g_expect = ERR_FILE_READ; break;
	case 3: CH_WFAIL = 2; g_expect = ERR_FILE_WRITE; break;
	case 4: CPEER->val = certval_bad; g_expect = ERR_BAD_CERT; break;                 /* peer's certificate rejected */
	case 5: CERTPEER[8 + 40] ^= 0x20; g_expect = ERR_BAD_CERT; break;                 /* peer's certified key off the curve */
	case 6: CH_XR = 1; CH_XOFF = 10; g_expect = ERR_BAD_POINT; break;                 /* Va changed */
	case 7: CH_XR = 1; CH_XOFF = 64 + 2; g_expect = ERR_AUTH; break;                  /* Ta changed */
	case 8: CB->val = certval_bad; g_expect = ERR_BAD_CERT; break;                    /* own certificate rejected */
	case 9: SB->rng = 0; g_expect = ERR_BAD_RNG; break;
	case 10: SB->rng = rng_zero; g_expect = ERR_BAD_RNG; break;
	case 11: BK_PB = params_bad(PARAMS, 0); g_expect = ERR_BAD_PARAMS; break;
	case 12: BK_PB = params_bad(PARAMS, 1); g_expect = ERR_BAD_PARAMS; break;
	}
	return bake_drive(0, 0, "bakeBMQVRunB");
}
static err_t s_bmqvA(int var)
{
	bake_setup(1);
	sec_add(DA, 32, "privkey"); sec_add(TAPE + 64, 32, "nonce-u");
	switch (var)
	{
	case 1: CH_RFAIL = 1; g_expect = ERR_FILE_READ; break;
	case 2: CH_WFAIL = 1; g_expect = ERR_FILE_WRITE; break;
	case 3: CH_RFAIL = 2; g_expect = ERR_FILE_READ; break;
	case 4: CPEER->val = certval_bad; g_expect = ERR_BAD_CERT; break;
	case 5: CERTPEER[8 + 40] ^= 0x20; g_expect = ERR_BAD_CERT; break;
	case 6: CH_XR = 1; CH_XOFF = 10; g_expect = ERR_BAD_POINT; break;                 /* Vb changed */
	case 7: CH_XR = 2; CH_XOFF = 2; g_expect = ERR_AUTH; break;                       /* Tb changed */
	case 8: CA->val = certval_bad; g_expect = ERR_BAD_CERT; break;
	case 9: SA->rng = 0; g_expect = ERR_BAD_RNG; break;
	case 10: SA->rng = rng_zero; g_expect = ERR_BAD_RNG; break;
	case 11: BK_PA = params_bad(PARAMS, 1); g_expect = ERR_BAD_PARAMS; break;
	}
	return bake_drive(0, 1, "bakeBMQVRunA");
}
/* BPACE.  B: write M1 = Yb, read M2 = Ya || Va, write M3 = Vb || Tb, read M4 = Ta.  A: read M1, write M2, read M3, write M4. */
static err_t s_bpaceB(int var)
{
	bake_setup(0);
	sec_add(DATA + 300, BK_PWDLEN, "password"); sec_add(TAPE + 128, 48, "rng-output");
	switch (var)
	{
	case 1: CH_WFAIL = 1; g_expect = ERR_FILE_WRITE; break;
	case 2: CH_RFAIL = 1; g_expect = ERR_FILE_READ; break;
	case 3: CH_WFAIL = 2; g_expect = ERR_FILE_WRITE; break;
	case 4: CH_RFAIL = 2; g_expect = ERR_FILE_READ; break;
	case 5: BK_PWDA = DATA + 301; SA->kcb = SB->kcb = FALSE; g_expect = ERR_AUTH; break;   /* the peer uses another password: its Ta does not verify */
	case 6: CH_XR = 1; CH_XOFF = 16 + 10; g_expect = ERR_BAD_POINT; break;            /* Va changed */
	case 7: CH_XR = 2; CH_XOFF = 2; g_expect = ERR_AUTH; break;                       /* Ta changed */
	case 8: SB->rng = 0; g_expect = ERR_BAD_RNG; break;
	case 9: SB->rng = rng_zero; g_expect = ERR_BAD_RNG; break;
	case 10: BK_PB = params_bad(PARAMS, 0); g_expect = ERR_BAD_PARAMS; break;
	case 11: BK_PB = params_bad(PARAMS, 1); g_expect = ERR_BAD_PARAMS; break;
	}
	return bake_drive(1, 0, "bakeBPACERunB");
}
static err_t s_bpaceA(int var)
{
	bake_setup(1);
	sec_add(DATA + 300, BK_PWDLEN, "password"); sec_add(TAPE + 64, 48, "rng-output");
	switch (var)
	{
	case 1: CH_RFAIL = 1; g_expect = ERR_FILE_READ; break;
	case 2: CH_WFAIL = 1; g_expect = ERR_FILE_WRITE; break;
	case 3: CH_RFAIL = 2; g_expect = ERR_FILE_READ; break;
	case 4: CH_WFAIL = 2; g_expect = ERR_FILE_WRITE; break;
	case 5: BK_PWDB = DATA + 301; g_expect = ERR_AUTH; break;                          /* the peer uses another password: its Tb does not verify */
	case 6: CH_XR = 2; CH_XOFF = 10; g_expect = ERR_BAD_POINT; break;                 /* Vb changed */
	case 7: CH_XR = 2; CH_XOFF = 64 + 2; g_expect = ERR_AUTH; break;                  /* Tb changed */
	case 8: CH_XR = 1; CH_XOFF = 3; g_expect = ERR_AUTH; break;                       /* Yb changed: another Rb */
	case 9: SA->rng = 0; g_expect = ERR_BAD_RNG; break;
	case 10: SA->rng = rng_zero; g_expect = ERR_BAD_RNG; break;
	case 11: BK_PA = params_bad(PARAMS, 1); g_expect = ERR_BAD_PARAMS; break;
	}
	return bake_drive(1, 1, "bakeBPACERunA");
}

/* ------------------------------------------------------------------ bels: public keys (polynomials) */
static void combo_start(void) { prngCOMBOStart(COMBO, 0x5EED1234u); }
static err_t s_belsStdM(int var)
{
	err_t code; material(); sec_reset(); out_reset();
	out_add(BUF1, 32);
	if (var == 0) { g_expect = ERR_OK; return RUN("belsStdM", belsStdM(BUF1, 24, 16)); }
	g_expect = ERR_BAD_INPUT;
	if (var == 1) return RUN("belsStdM", belsStdM(BUF1, 20, 1));
	return RUN("belsStdM", belsStdM(BUF1, 32, 17));
}
static err_t s_belsValM(int var)
{
	err_t code; material(); sec_reset(); out_reset();
	belsStdM(BUF2, 32, 5);
	if (var == 1) BUF2[0] ^= 1;              /* divisible by x */
	if (var == 2) memset(BUF2, 0, 32);       /* x^256 */
	g_expect = var == 0 ? ERR_OK : var <= 2 ? ERR_BAD_PUBKEY : ERR_BAD_INPUT;
	return RUN("belsValM", belsValM(BUF2, var == 3 ? 31 : 32));
}
static err_t s_belsGenM0(int var)
{
	err_t code; material(); sec_reset(); out_reset(); combo_start();
	out_add(BUF1, 16);
	switch (var)
	{
	case 0: g_expect = ERR_OK; return RUN("belsGenM0", belsGenM0(BUF1, 16, prngCOMBOStepR, COMBO));
	case 1: g_expect = ERR_BAD_INPUT; return RUN("belsGenM0", belsGenM0(BUF1, 15, prngCOMBOStepR, COMBO));
	case 2: g_expect = ERR_BAD_ANG; return RUN("belsGenM0", belsGenM0(BUF1, 16, 0, 0));
	}
	g_expect = ERR_BAD_ANG; return RUN("belsGenM0", belsGenM0(BUF1, 16, rng_zero, 0));      /* the same reducible candidate again and again */
}
static err_t s_belsGenMi(int var)
{
	err_t code; material(); sec_reset(); out_reset(); combo_start();
	belsStdM(BUF2, 16, 0);
	if (var == 4) BUF2[0] ^= 1;              /* m0 reducible */
	out_add(BUF1, 16);
	switch (var)
	{
	case 0: g_expect = ERR_OK; return RUN("belsGenMi", belsGenMi(BUF1, 16, BUF2, prngCOMBOStepR, COMBO));
	case 1: g_expect = ERR_BAD_INPUT; return RUN("belsGenMi", belsGenMi(BUF1, 33, BUF2, prngCOMBOStepR, COMBO));
	case 2: g_expect = ERR_BAD_ANG; return RUN("belsGenMi", belsGenMi(BUF1, 16, BUF2, 0, 0));
	case 3: g_expect = ERR_BAD_ANG; return RUN("belsGenMi", belsGenMi(BUF1, 16, BUF2, ang_x, 0));          /* candidate x: its minimal polynomial is m0 */
	case 4: g_expect = ERR_BAD_PUBKEY; return RUN("belsGenMi", belsGenMi(BUF1, 16, BUF2, prngCOMBOStepR, COMBO));
	}
	/* 5: valid m0, the generator repeats the candidate 0 (minimal polynomial x, degree 1): the code cannot tell a
	   repeating generator from a bad m0 here and answers ERR_BAD_PUBKEY (bels.h: ERR_BAD_ANG) — ambiguous, accepted */
	g_expect = ERR_BAD_PUBKEY; return RUN("belsGenMi", belsGenMi(BUF1, 16, BUF2, rng_zero, 0));
}
static err_t s_belsGenMid(int var)
{
	err_t code; material(); sec_reset(); out_reset();
	belsStdM(BUF2, 16, 0);
	if (var == 2) BUF2[0] ^= 1;
	out_add(BUF1, 16);
	g_expect = var == 0 ? ERR_OK : var == 1 ? ERR_BAD_INPUT : ERR_BAD_PUBKEY;
	return RUN("belsGenMid", belsGenMid(BUF1, var == 1 ? 8 : 16, BUF2, DATA + 10, 11));
}

/* ------------------------------------------------------------------ bpki: certificate signing requests (bpki_test.c), containers
   for private keys of 24, 48 and 64 octets */
static const char CSR_HEX[] =
	"3082017A30820134020100305F3115301306035504030C0C524F424552542053"
	"4D495448310E300C06035504040C05534D495448310F300D060355042A0C0652"
	"4F42455254311830160603550405130F50415347422D35333333323434323831"
	"0B3009060355040613024742305D3018060A2A7000020022652D0201060A2A70"
	"00020022652D0301034100F64CDDFFE4D546EF484471583FAEBA9A38061084E2"
	"80BF996F90BA6AF0DB6620F59ABAA7AD29D4E7D1CA0C21DD9E32D485F9E74084"
	"1F4317CA9481503D1F1B50A06F301F06092A864886F70D01090731120C102F49"
	"4E464F3A65726970323334313233304C06092A864886F70D01090E313F303D30"
	"170603551D200410300E300C060A2A7000020022654E023D30220603551D1104"
	"1B30198117726F626572742E736D697468406578616D706C652E756B300D0609"
	"2A7000020022652D0C050003310082B4F9F934E3FD457F5DF06AE63A88E722E3"
	"5D35F565551535BA94CEF9243011999DF2159E4F4BAC22AD8C3135A3BD26";
static unsigned char CSR[382];
static size_t csr_find(octet a, octet b, octet c)
{
	size_t i;
	for (i = 0; i + 3 <= sizeof CSR; ++i) if (CSR[i] == a && CSR[i + 1] == b && CSR[i + 2] == c) return i + 3;
	return 0;
}
static err_t s_csrRe(int var)
{
	err_t code; size_t klen = 32, len = sizeof CSR; material(); bign_setup(); sec_reset(); out_reset();
	hexTo(CSR, CSR_HEX);
	memcpy(BUF2, PRIV, 32);
	g_expect = ERR_OK;
	if (var == 1) klen = 48, g_expect = ERR_NOT_IMPLEMENTED;
	if (var == 2) len -= 1, g_expect = ERR_BAD_FORMAT;
	if (var == 3) memset(BUF2, 0, 32), g_expect = ERR_BAD_PRIVKEY;
	if (var == 4) CSR[csr_find(0x06, 0x0A, 0x2A) + 8] ^= 1, g_expect = ERR_BAD_FORMAT;      /* not bign-pubkey */
	if (var != 3) sec_add(BUF2, 32, "privkey");
	return RUN("bpkiCSRRewrap", bpkiCSRRewrap(CSR, len, BUF2, klen));
}
static err_t s_csrUn(int var)
{
	err_t code; size_t len = sizeof CSR; material(); sec_reset(); out_reset();
	hexTo(CSR, CSR_HEX);
	g_expect = ERR_OK;
	if (var == 1) CSR[sizeof CSR - 7] ^= 1, g_expect = ERR_BAD_SIG;                         /* signature changed */
	if (var == 2) CSR[20] ^= 1, g_expect = ERR_BAD_SIG;                                     /* subject changed */
	if (var == 3) len -= 1, g_expect = ERR_BAD_FORMAT;
	if (var == 4) CSR[csr_find(0x03, 0x41, 0x00) + 40] ^= 0x20, g_expect = ERR_BAD_PUBKEY;   /* enclosed key off the curve */
	out_add(BUF1, 64); out_add(&CNT, sizeof CNT);
	return RUN("bpkiCSRUnwrap", bpkiCSRUnwrap(BUF1, &CNT, CSR, len));
}
static const size_t KLEN2[4] = { 24, 48, 64, 40 };
static err_t s_bpkiPW2(int var)
{
	err_t code; size_t n = KLEN2[var]; material(); sec_reset(); out_reset();
	sec_add(DATA + 400, n, "privkey"); sec_add(DATA + 300, 24, "password");
	EPKI_LEN = 0; out_add(BUF1, 512);
	g_expect = var < 3 ? ERR_OK : ERR_BAD_PRIVKEY;
	return RUN("bpkiPrivkeyWrap", bpkiPrivkeyWrap(BUF1, &EPKI_LEN, DATA + 400, n, DATA + 300, 24, IV16, 10000));
}
static err_t s_bpkiPU2(int var)
{
	err_t code; size_t n = KLEN2[var % 3], m = 0; material(); sec_reset(); out_reset();
	bpkiPrivkeyWrap(BUF2, &EPKI_LEN, DATA + 400, n, DATA + 300, 24, IV16, 10000);
	sec_add(DATA + 400, n, "privkey"); sec_add(DATA + 300, 24, "password");
	if (var == 4) BUF2[EPKI_LEN - 9] ^= 0x02;       /* encrypted key changed */
	out_add(BUF1, 64); g_outdoc = 0;
	g_expect = var < 3 ? ERR_OK : ERR_BAD_KEYTOKEN;
	return RUN("bpkiPrivkeyUnwrap", bpkiPrivkeyUnwrap(BUF1, &m, BUF2, EPKI_LEN, DATA + (var == 3 ? 301 : 300), 24));
}

/* ------------------------------------------------------------------ BSTS again: every callback that can fail.
   The certificate validator of the side under test sees the DECRYPTED response of the peer (sa || cert inside a
   temporary block): it registers both as secrets, and can reject.  Channel operations fail at the k-th call. */
static err_t certval_x(octet* pubkey, const bign_params* params, const octet* data, size_t len)
{
	if (g_on && len >= 64)
	{
		sec_add(data - 32, 32, "decrypted-peer-response");               /* no = 32 octets of s in front of the certificate */
		sec_add(data + len - 64, 64, "decrypted-peer-certificate");
	}
	if (CV_REJECT) { CV_REJECT = 0; return ERR_BAD_CERT; }      /* one-shot */
	return certval(pubkey, params, data, len);
}
static int RK_FROM, RK_CNT;
static void rng_k(void* buf, size_t count, void* state)
{
	if (++RK_CNT >= RK_FROM && RK_FROM) memset(buf, 0, count); else prngEchoStepR(buf, count, state);
}
static err_t bsts_call(int side, int tested)
{
	read_i rd = tested ? fread_t : fread_; write_i wr = tested ? fwrite_t : fwrite_;
	if (tested) CH_RCNT = CH_WCNT = RK_CNT = 0;
	return side ? bakeBSTSRunA(KEYA, BK_PA, SA, DA, CA, tested ? certval_x : certval, rd, wr, FA)
		: bakeBSTSRunB(KEYB, BK_PB, SB, DB, CB, tested ? certval_x : certval, rd, wr, FB);
}
static err_t bsts_drive(int which, const char* fn)
{
	err_t codea = ERR_FILE_NOT_FOUND, codeb = ERR_FILE_NOT_FOUND; int round;
	for (round = 0; round < 8 && (codea == ERR_FILE_NOT_FOUND || codeb == ERR_FILE_NOT_FOUND); ++round)
	{
		FA->i = FA->offset = FB->i = FB->offset = 0;
		prngEchoStart(ECHOA, TAPE + 64, 64); prngEchoStart(ECHOB, TAPE + 128, 64);
		if (which == 0)
		{
			track_begin(fn, g_inject); codeb = bsts_call(0, 1); track_end();
			if (codeb != ERR_FILE_NOT_FOUND) return codeb;
			codea = bsts_call(1, 0);
		}
		else
		{
			codeb = bsts_call(0, 0);
			track_begin(fn, g_inject); codea = bsts_call(1, 1); track_end();
			if (codea != ERR_FILE_NOT_FOUND) return codea;
		}
	}
	return ERR_FILE_NOT_FOUND;
}
/* var 0 honest; 1 validator rejects the peer certificate; 2..4 k-th read fails; 5..7 k-th write fails (those beyond
   the number of operations of the side end honestly: expectation adjusted below); 8 tampered message; 9 rng fails */
static err_t s_bsts2(int which, int var)
{
	err_t code; const char* fn = which ? "bakeBSTSRunA" : "bakeBSTSRunB";
	int nrd = which ? 2 : 2, nwr = which ? 1 : 2;      /* A: read M1, write M2, read M3;  B: write M1, read M2, write M3 (+ trailing) */
	bake_setup(which);
	sec_add(which ? DA : DB, 32, "privkey");
	CV_REJECT = 0; RK_FROM = 0;
	(which ? SA : SB)->rng = rng_k;
	switch (var)
	{
	case 0: break;
	case 1: CV_REJECT = 1; g_expect = ERR_BAD_CERT; break;
	case 2: case 3: case 4: CH_RFAIL = var - 1; g_expect = ERR_FILE_READ; break;
	case 5: case 6: case 7: CH_WFAIL = var - 4; g_expect = ERR_FILE_WRITE; break;
	case 8: CH_XR = which ? 2 : 1; CH_XOFF = 70; g_expect = ERR_AUTH; break;
	default: RK_FROM = 1; g_expect = ERR_BAD_RNG; break;
	}
	code = bsts_drive(which, fn);
	(void)nrd; (void)nwr;
	/* a failure index beyond the operations this side performs is never reached: the run is honest */
	if ((var >= 2 && var <= 7) && code == ERR_OK && ((var <= 4 && CH_RCNT < CH_RFAIL) || (var >= 5 && CH_WCNT < CH_WFAIL))) g_expect = ERR_OK;
	CV_REJECT = 0; RK_FROM = 0;
	return code;
}
static err_t s_bstsB2(int var) { return s_bsts2(0, var); }
static err_t s_bstsA2(int var) { return s_bsts2(1, var); }

/* BSTS through the step API: the functions under test are Step4 (side B) and Step5 (side A) */
static size_t BSTA[1024], BSTB[1024]; static octet BM1[64], BM2[256], BM3[256];
static err_t s_bstsStep(int which, int var)
{
	err_t code; size_t m2 = 3 * 32 + 72 + 8, m3 = 32 + 72 + 8;
	bake_setup(which);
	if (bakeBSTS_keep(128) > sizeof BSTA) return ERR_OUTOFMEMORY;
	sec_add(which ? DA : DB, 32, "privkey");
	prngEchoStart(ECHOA, TAPE + 64, 64); prngEchoStart(ECHOB, TAPE + 128, 64);
	CV_REJECT = 0;
	if (bakeBSTSStart(BSTA, PARAMS, SA, DA, CA) || bakeBSTSStart(BSTB, PARAMS, SB, DB, CB)) return ERR_BAD_LOGIC;
	if (bakeBSTSStep2(BM1, BSTB) || bakeBSTSStep3(BM2, BM1, BSTA)) return ERR_BAD_LOGIC;
	out_reset();
	if (which == 0)
	{
		out_add(BM3, m3);
		if (var == 1) CV_REJECT = 1, g_expect = ERR_BAD_CERT;
		if (var == 2) BM2[m2 - 3] ^= 0x10, g_expect = ERR_AUTH;          /* tag Ta */
		if (var == 3) BM2[70] ^= 0x10, g_expect = ERR_AUTH;              /* encrypted part */
		code = RUN("bakeBSTSStep4", bakeBSTSStep4(BM3, BM2, m2, certval_x, BSTB));
		CV_REJECT = 0;
		return code;
	}
	if (bakeBSTSStep4(BM3, BM2, m2, certval, BSTB)) return ERR_BAD_LOGIC;
	if (var == 1) CV_REJECT = 1, g_expect = ERR_BAD_CERT;
	if (var == 2) BM3[m3 - 3] ^= 0x10, g_expect = ERR_AUTH;
	if (var == 3) BM3[40] ^= 0x10, g_expect = ERR_AUTH;
	code = RUN("bakeBSTSStep5", bakeBSTSStep5(BM3, m3, certval_x, BSTA));
	CV_REJECT = 0;
	return code;
}
static err_t s_bstsS4(int var) { return s_bstsStep(0, var); }
static err_t s_bstsS5(int var) { return s_bstsStep(1, var); }

/* ------------------------------------------------------------------ sizes beyond internal thresholds, and error exits reached
   with SEMANTICALLY VALID secrets: a genuine token / ciphertext / password with exactly one wrong public parameter
   (expected header, iv, associated data, expected mac, counter).  var = size index * NV + variant. */
static const size_t XS[7] = { 16, 32, 64, 65, 96, 200, 1040 };
static octet XK[1100], XT[1200], XO[1200];
static void xkey(size_t n)           /* the secret that is transported / protected: n octets, no short period */
{
	size_t i;
	for (i = 0; i < sizeof XK; ++i) XK[i] = (octet)((i * i * 7 + i * 13 + 5) ^ (i >> 8) ^ 0x5C);
	sec_add(XK, n < 64 ? n : 64, "plaintext-key");
	if (n > 64) sec_add(XK + n - 64, 64, "plaintext-key-tail");
}
/* beltKWPUnwrap: 0 ok, 1 genuine token + another expected header, 2 genuine token + no header expected, 3 corrupted token */
static err_t s_kwpUx(int var)
{
	err_t code; size_t n = XS[var / 4]; int k = var % 4; octet hdr2[16];
	material(); sec_reset(); out_reset(); sec_add_key(K32, 32); xkey(n);
	beltKWPWrap(XT, XK, n, HDR16, K32, 32);
	memcpy(hdr2, HDR16, 16); hdr2[5] ^= 0x20;
	if (k == 3) XT[n / 2] ^= 0x04;
	out_add(XO, n); g_outdoc = 1;
	g_expect = k == 0 ? ERR_OK : ERR_BAD_KEYTOKEN;
	return RUN("beltKWPUnwrap", beltKWPUnwrap(XO, XT, n + 16, k == 1 ? hdr2 : k == 2 ? 0 : HDR16, K32, 32));
}
static err_t s_kwpWx(int var)
{
	err_t code; size_t n = XS[var];
	material(); sec_reset(); out_reset(); sec_add_key(K32, 32); xkey(n);
	out_add(XO, n + 16); g_expect = ERR_OK;
	return RUN("beltKWPWrap", beltKWPWrap(XO, XK, n, HDR16, K32, 32));
}
/* bignKeyUnwrap: 0 ok, 1 genuine token + another expected header, 2 genuine token + no header expected, 3 corrupted key part */
static err_t s_bignKUx(int var)
{
	err_t code; size_t n = XS[var / 4]; int k = var % 4; octet hdr2[16];
	material(); bign_setup(); sec_reset(); out_reset();
	tape_start(); bignKeyWrap(XT, PARAMS, XK, n, HDR16, PUB, prngEchoStepR, ECHO);
	sec_add(PRIV, 32, "privkey"); xkey(n);
	tape_start(); bignKeyWrap(XT, PARAMS, XK, n, HDR16, PUB, prngEchoStepR, ECHO);
	memcpy(hdr2, HDR16, 16); hdr2[0] ^= 0x01;
	if (k == 3) XT[32 + n / 2] ^= 0x40;
	out_add(XO, n); g_outdoc = 1;
	g_expect = k == 0 ? ERR_OK : ERR_BAD_KEYTOKEN;
	return RUN("bignKeyUnwrap", bignKeyUnwrap(XO, PARAMS, XT, 32 + n + 16, k == 1 ? hdr2 : k == 2 ? 0 : HDR16, PRIV));
}
static err_t s_bignKWx(int var)
{
	err_t code; size_t n = XS[var];
	material(); bign_setup(); sec_reset(); out_reset(); xkey(n); sec_add(TAPE, 32, "nonce-k"); tape_start();
	out_add(XO, 32 + n + 16); g_expect = ERR_OK;
	return RUN("bignKeyWrap", bignKeyWrap(XO, PARAMS, XK, n, HDR16, PUB, prngEchoStepR, ECHO));
}
/* DWP / CHE unwrap: 0 ok, 1 wrong expected mac, 2 wrong associated data, 3 wrong iv, 4 genuine data under another key length view */
static err_t s_aeadUx(int che, int var)
{
	err_t code; static const size_t DS[7] = { 1, 16, 64, 65, 96, 200, 1040 }; size_t n = DS[var / 4]; int k = var % 4;
	octet mac[8], iv2[16], ad[50];
	material(); sec_reset(); out_reset(); sec_add_key(K32, 32); xkey(n);
	memcpy(ad, DATA + 200, 50); memcpy(iv2, IV16, 16);
	if (che) beltCHEWrap(XT, mac, XK, n, ad, 50, K32, 32, IV16); else beltDWPWrap(XT, mac, XK, n, ad, 50, K32, 32, IV16);
	if (k == 1) mac[7] ^= 0x80;
	if (k == 2) ad[49] ^= 0x01;
	if (k == 3) iv2[0] ^= 0x01;
	out_add(XO, n); g_outdoc = 0;
	g_expect = k == 0 ? ERR_OK : ERR_BAD_MAC;
	if (che) return RUN("beltCHEUnwrap", beltCHEUnwrap(XO, XT, n, ad, 50, mac, K32, 32, iv2));
	return RUN("beltDWPUnwrap", beltDWPUnwrap(XO, XT, n, ad, 50, mac, K32, 32, iv2));
}
static err_t s_dwpUx(int var) { return s_aeadUx(0, var); }
static err_t s_cheUx(int var) { return s_aeadUx(1, var); }
/* keys of HMAC-based functions on both sides of the block size: 0 Rand, 1 Verify ok, 2 genuine otp + another counter */
static const size_t HS[6] = { 16, 32, 64, 65, 96, 200 };
static err_t s_hotpx(int var)
{
	err_t code; size_t n = HS[var];
	material(); sec_reset(); out_reset(); xkey(n);
	out_add(OTP, 9); g_expect = ERR_OK;
	return RUN("botpHOTPRand", botpHOTPRand(OTP, 8, XK, n, DATA));
}
static err_t s_hotpVx(int var)
{
	err_t code; size_t n = HS[var / 2]; int k = var % 2; octet ctr2[8];
	material(); sec_reset(); out_reset(); xkey(n);
	memcpy(ctr2, DATA, 8); ctr2[7] ^= 1;
	botpHOTPRand(OTP, 8, XK, n, DATA);
	g_expect = k == 0 ? ERR_OK : ERR_BAD_PWD;
	return RUN("botpHOTPVerify", botpHOTPVerify(OTP, XK, n, k == 0 ? DATA : ctr2));
}
static err_t s_totpx(int var)
{
	err_t code; size_t n = HS[var / 2]; int k = var % 2;
	material(); sec_reset(); out_reset(); xkey(n);
	botpTOTPRand(OTP, 8, XK, n, 1000000);
	g_expect = k == 0 ? ERR_OK : ERR_BAD_PWD;
	return RUN("botpTOTPVerify", botpTOTPVerify(OTP, XK, n, k == 0 ? 1000000 : 1000001));
}
static err_t s_hmacx(int var)
{
	err_t code; size_t n = HS[var];
	material(); sec_reset(); out_reset(); xkey(n);
	out_add(BUF1, 32); g_expect = ERR_OK;
	return RUN("beltHMAC", beltHMAC(BUF1, DATA, 100, XK, n));
}
static err_t s_brnghx(int var)
{
	err_t code; size_t n = HS[var];
	material(); sec_reset(); out_reset(); xkey(n);
	out_add(BUF1, 100); g_expect = ERR_OK;
	return RUN("brngHMACRand", brngHMACRand(BUF1, 100, XK, n, DATA, 40));
}
static err_t s_pbkdfx(int var)
{
	err_t code; static const size_t PS[5] = { 1, 8, 64, 65, 200 }; size_t n = PS[var];
	material(); sec_reset(); out_reset(); xkey(n);
	out_add(BUF1, 32); g_expect = ERR_OK;
	return RUN("beltPBKDF2", beltPBKDF2(BUF1, XK, n, 50, IV16, 8));
}
/* bpki: genuine container, password of the right length with one octet changed */
static err_t s_bpkiPUx(int var)
{
	err_t code; size_t l = 0, n = 0; octet pwd2[24];
	material(); bign_setup(); sec_reset(); out_reset();
	bpkiPrivkeyWrap(BUF2, &l, PRIV, 32, DATA + 300, 24, IV16, 10000);
	memcpy(pwd2, DATA + 300, 24); pwd2[23] ^= 0x01;
	sec_add(PRIV, 32, "privkey"); sec_add(DATA + 300, 24, "password");
	out_add(BUF1, 64);
	g_expect = ERR_BAD_KEYTOKEN;
	return RUN("bpkiPrivkeyUnwrap", bpkiPrivkeyUnwrap(BUF1, &n, BUF2, l, pwd2, 24));
}

/* bignKeyUnwrap on a token whose x is NOT the abscissa of a curve point, made by someone who knows d: the steps of
   bignKeyUnwrap are replayed (y <- (x^3 + ax + b)^((p+1)/4), R <- d (x, y), theta <- <x_R>) and the key is wrapped under
   theta with the expected header.  A correct implementation stops at the on-curve test: ERR_BAD_KEYTOKEN, key untouched. */
static size_t oc_deep(size_t n, size_t f_deep, size_t ec_d, size_t ec_deep) { return 16384; }
static err_t s_bignKUoc(int var)
{
	err_t code; static size_t ST[6000]; ec_o* ec; size_t n, no, x0; word *d, *R, *t1, *t2; void* stack; octet theta[32];
	material(); bign_setup(); sec_reset(); out_reset();
	if (bignStart_keep(128, oc_deep) > sizeof ST || bignStart(ST, PARAMS) != ERR_OK) return ERR_BAD_LOGIC;
	ec = (ec_o*)ST; n = ec->f->n; no = ec->f->no;
	d = objEnd(ec, word); R = d + n; t1 = R + 2 * n; t2 = t1 + n; stack = t2 + n;
	wwFrom(d, PRIV, no);
	for (x0 = 2; x0 < 200; ++x0)
	{
		memset(XT, 0, no); XT[0] = (octet)x0;
		if (!qrFrom(R, XT, ec->f, stack)) continue;
		qrSqr(t1, R, ec->f, stack); zmAdd(t1, t1, ec->A, ec->f); qrMul(t1, t1, R, ec->f, stack); zmAdd(t1, t1, ec->B, ec->f);
		wwCopy(R + n, ec->f->mod, n); zzAddW2(R + n, n, 1); wwShLo(R + n, n, 2);
		qrPower(R + n, t1, R + n, n, ec->f, stack);
		qrSqr(t2, R + n, ec->f, stack);
		if (!wwEq(t1, t2, n)) break;          /* x0 is not on the curve */
	}
	if (x0 == 200 || !ecMulA(R, R, ec, d, n, stack)) return ERR_BAD_LOGIC;
	qrTo(theta, ecX(R), ec->f, stack);
	xkey(32);
	if (beltKWPWrap(XT + no, XK, 32, HDR16, theta, 32) != ERR_OK) return ERR_BAD_LOGIC;
	sec_add(PRIV, 32, "privkey");
	out_add(XO, 32); g_outdoc = 1;
	g_expect = ERR_BAD_KEYTOKEN;
	return RUN("bignKeyUnwrap", bignKeyUnwrap(XO, PARAMS, XT, no + 32 + 16, HDR16, PRIV));
}

/* ------------------------------------------------------------------ bad-private-key exits with a NON-ZERO invalid key as the secret.
   The key is q with its low 8 octets replaced by a distinctive pattern (raised above q if necessary): the caller's key is
   still a secret when the function rejects it, and it has usually been copied into the state by then. */
static octet BK[80];
static void mk_badkey(const octet* q, size_t n)
{
	static const octet pat[8] = { 0xB7, 0x3C, 0x95, 0x1E, 0xD2, 0x68, 0x4A, 0xFE };
	size_t i; int lt = 0;
	memcpy(BK, q, n); memcpy(BK, pat, 8);
	for (i = 8; i-- > 0;) if (BK[i] != q[i]) { lt = BK[i] < q[i]; break; }
	if (lt) for (i = 8; i < n; ++i) if (++BK[i]) break;
	sec_add(BK, 8, "rejected-privkey");
}
#define BADKEY(NAME, FN, SETUP, Q, N, OUTS, CALL) \
static err_t NAME(int var) { err_t code; material(); bign_setup(); oid_setup(); SETUP; sec_reset(); out_reset(); \
	mk_badkey(Q, N); if (var == 1) memset(BK + 8, 0xFF, (N) - 8);      /* var 1: ff..ff above the pattern */ \
	OUTS; g_expect = ERR_BAD_PRIVKEY; tape_start(); return RUN(FN, CALL); }
BADKEY(s_bkSign, "bignSign", (void)0, PARAMS->q, 32, out_add(BUF1, 48), bignSign(BUF1, PARAMS, OIDDER, OIDLEN, DATA, BK, prngEchoStepR, ECHO))
BADKEY(s_bkSign2, "bignSign2", (void)0, PARAMS->q, 32, out_add(BUF1, 48), bignSign2(BUF1, PARAMS, OIDDER, OIDLEN, DATA, BK, 0, 0))
BADKEY(s_bkCalc, "bignPubkeyCalc", (void)0, PARAMS->q, 32, out_add(BUF1, 64), bignPubkeyCalc(BUF1, PARAMS, BK))
BADKEY(s_bkVal, "bignKeypairVal", (void)0, PARAMS->q, 32, (void)0, bignKeypairVal(PARAMS, BK, PUB))
BADKEY(s_bkDH, "bignDH", (void)0, PARAMS->q, 32, out_add(BUF1, 32), bignDH(BUF1, PARAMS, BK, PUB, 32))
BADKEY(s_bkKU, "bignKeyUnwrap", (tape_start(), bignKeyWrap(BUF2, PARAMS, K32, 32, HDR16, PUB, prngEchoStepR, ECHO)), PARAMS->q, 32, out_add(BUF1, 32), bignKeyUnwrap(BUF1, PARAMS, BUF2, 80, HDR16, BK))
BADKEY(s_bk96Sign, "bign96Sign", b96_setup(), P96->q, 24, out_add(BUF1, 34), bign96Sign(BUF1, P96, OIDDER, OIDLEN, DATA, BK, prngEchoStepR, ECHO))
BADKEY(s_bk96Sign2, "bign96Sign2", b96_setup(), P96->q, 24, out_add(BUF1, 34), bign96Sign2(BUF1, P96, OIDDER, OIDLEN, DATA, BK, 0, 0))
BADKEY(s_bk96Calc, "bign96PubkeyCalc", b96_setup(), P96->q, 24, out_add(BUF1, 48), bign96PubkeyCalc(BUF1, P96, BK))
BADKEY(s_bk96Val, "bign96KeypairVal", b96_setup(), P96->q, 24, (void)0, bign96KeypairVal(P96, BK, PUB96))
BADKEY(s_bkG12, "g12sSign", g12_setup(), G12P->q, 32, out_add(BUF1, 64), g12sSign(BUF1, G12P, DATA, BK, prngEchoStepR, ECHO))
BADKEY(s_bkDstu, "dstuSign", ds_setup(), DSP->n, 21, out_add(BUF1, 64), dstuSign(BUF1, DSP, 512, DATA, 32, BK, prngEchoStepR, ECHO))
BADKEY(s_bkCVCW, "btokCVCWrap", (cvc_setup(), memcpy(CVCX, CVC0, sizeof CVCX), CVCX->pubkey_len = 0, CERTX_LEN = 0), PARAMS->q, 32, (void)0, btokCVCWrap(CERTX, &CERTX_LEN, CVCX, BK, 32))
/* pfok: an r-bit number with bit r set on top */
static err_t s_bkPf(int var)
{
	err_t code; size_t r, no; material(); bign_setup(); pf_setup(); sec_reset(); out_reset();
	r = PFP->r; no = (r + 7) / 8;
	memcpy(BK, TAPE + 40, no); BK[no - 1] |= (octet)(1 << (r % 8));
	if (r % 8 == 0) return ERR_BAD_LOGIC;
	sec_add(BK, 16, "rejected-privkey");
	out_add(BUF1, 80); g_expect = ERR_BAD_PRIVKEY;
	if (var == 0) return RUN("pfokPubkeyCalc", pfokPubkeyCalc(BUF1, PFP, BK));
	if (var == 1) return RUN("pfokDH", pfokDH(BUF1, PFP, BK, PFY));
	return RUN("pfokMTI", pfokMTI(BUF1, PFP, BK, PFU, PFY, PFV));
}
/* wrong password of the right shape: the password is a secret even when it does not open the container */
static err_t s_bkPwd(int var)
{
	err_t code; size_t l = 0, n = 0; octet pwd2[24];
	material(); bign_setup(); sec_reset(); out_reset();
	if (var == 0) bpkiPrivkeyWrap(BUF2, &l, PRIV, 32, DATA + 300, 24, IV16, 10000);
	else { memcpy(BUF3 + 1, K32, 32); BUF3[0] = 3; bpkiShareWrap(BUF2, &l, BUF3, 33, DATA + 300, 24, IV16, 10000); }
	memcpy(pwd2, DATA + 500, 24);
	sec_add(pwd2, 24, "rejected-password");
	out_add(BUF1, 64); g_expect = ERR_BAD_KEYTOKEN;
	if (var == 0) return RUN("bpkiPrivkeyUnwrap", bpkiPrivkeyUnwrap(BUF1, &n, BUF2, l, pwd2, 24));
	return RUN("bpkiShareUnwrap", bpkiShareUnwrap(BUF1, &n, BUF2, l, pwd2, 24));
}

/* ------------------------------------------------------------------ small-integer fields INSIDE data buffers.
   bels shares carry the number of the public key in their first octet (1..16, pairwise different): the field of the
   first / middle / last share is set to 0, 1, 16, 17, 255.  var = position * 5 + value index. */
static const octet FV[5] = { 0, 1, 16, 17, 255 };
static err_t s_belsR2f(int var)
{
	err_t code; int pos = var / 5, vi = var % 5; size_t i;
	material(); sec_reset(); out_reset(); sec_add(K32, 16, "secret");
	belsShare3(BUF2, 16, 3, 16, K32);                      /* shares with numbers 1..16, 17 octets each */
	for (i = 0; i < 3; ++i) memcpy(BUF3 + 17 * i, BUF2 + 17 * (4 + i), 17);        /* numbers 5, 6, 7 */
	BUF3[17 * pos] = FV[vi];
	out_add(BUF1, 16);
	g_expect = (FV[vi] == 0 || FV[vi] > 16) ? ERR_BAD_PUBKEY : ERR_OK;     /* 1 and 16 are in range and differ from the others */
	return RUN("belsRecover2", belsRecover2(BUF1, 3, 16, BUF3));
}
/* bpkiShareWrap: share[0] is the number of the share (1..16) */
static err_t s_bpkiSWf(int var)
{
	err_t code; size_t l = 0;
	material(); sec_reset(); out_reset();
	memcpy(BUF3 + 1, K32, 32); BUF3[0] = FV[var];
	sec_add(BUF3 + 1, 32, "share"); sec_add(DATA + 300, 24, "password");
	out_add(BUF1, 256);
	g_expect = (FV[var] == 0 || FV[var] > 16) ? ERR_BAD_SHAREKEY : ERR_OK;
	return RUN("bpkiShareWrap", bpkiShareWrap(BUF1, &l, BUF3, 33, DATA + 300, 24, IV16, 10000));
}
/* OCRA suite string: number of digits of the password (header: 4..9 ... see botp.h), checked by botpOCRARand through the
   suite parser: OCRA-1:HOTP-HBELT-<d>:C-QN08 with d in {0, 3, 4, 9, 10(=\":\" char after 9 -> ':'), …} */
static err_t s_ocraf(int var)
{
	err_t code; static const char dg[6] = { '0', '3', '4', '9', ':', 'A' }; char suite[40];
	material(); sec_reset(); out_reset(); sec_add(K32, 32, "key");
	strcpy(suite, "OCRA-1:HOTP-HBELT-8:C-QN08"); suite[18] = dg[var];
	out_add(OTP, 11);
	g_expect = (dg[var] >= '4' && dg[var] <= '9') ? ERR_OK : ERR_BAD_FORMAT;
	return RUN("botpOCRARand", botpOCRARand(OTP, suite, K32, 32, DATA, 8, DATA + 64, 0, 0, 0));
}

static err_t s_bkPf0(int v) { return s_bkPf(0); }
static err_t s_bkPf1(int v) { return s_bkPf(1); }
static err_t s_bkPf2(int v) { return s_bkPf(2); }
static err_t s_bkPwd0(int v) { return s_bkPwd(0); }
static err_t s_bkPwd1(int v) { return s_bkPwd(1); }
static const scen_t SCEN2[] = {
	{"b96Gen", "bign96KeypairGen", 5, s_b96Gen}, {"b96KVal", "bign96KeypairVal", 5, s_b96KVal},
	{"b96Calc", "bign96PubkeyCalc", 5, s_b96Calc}, {"b96PVal", "bign96PubkeyVal", 4, s_b96PVal},
	{"b96Sign", "bign96Sign", 7, s_b96Sign}, {"b96Sign2", "bign96Sign2", 5, s_b96Sign2},
	{"b96Ver", "bign96Verify", 8, s_b96Ver}, {"b96PrmVal", "bign96ParamsVal", 4, s_b96PrmVal},
	{"bignVer", "bignVerify", 8, s_bignVer}, {"bignPVal", "bignPubkeyVal", 5, s_bignPVal},
	{"bignPrmVal", "bignParamsVal", 5, s_bignPrmVal}, {"bignGen2", "bignKeypairGen", 5, s_bignGen2},
	{"bignIdExt", "bignIdExtract", 6, s_bignIdExt}, {"bignIdSign", "bignIdSign", 6, s_bignIdSign},
	{"bignIdSign2", "bignIdSign2", 4, s_bignIdSign2}, {"bignIdVer", "bignIdVerify", 8, s_bignIdVer},
	{"pfGen", "pfokKeypairGen", 3, s_pfGen}, {"pfPVal", "pfokPubkeyVal", 4, s_pfPVal}, {"pfCalc", "pfokPubkeyCalc", 3, s_pfCalc},
	{"pfDH", "pfokDH", 5, s_pfDH}, {"pfMTI", "pfokMTI", 6, s_pfMTI}, {"pfPrmVal", "pfokParamsVal", 4, s_pfPrmVal},
	{"g12Gen", "g12sKeypairGen", 5, s_g12Gen}, {"g12Sign", "g12sSign", 6, s_g12Sign}, {"g12Ver", "g12sVerify", 8, s_g12Ver},
	{"g12PrmVal", "g12sParamsVal", 4, s_g12PrmVal},
	{"dsGen", "dstuKeypairGen", 4, s_dsGen}, {"dsSign", "dstuSign", 7, s_dsSign}, {"dsVer", "dstuVerify", 10, s_dsVer},
	{"dsPtGen", "dstuPointGen", 4, s_dsPtGen}, {"dsPtVal", "dstuPointVal", 3, s_dsPtVal}, {"dsPrmVal", "dstuParamsVal", 4, s_dsPrmVal},
	{"s99Std", "stb99ParamsStd", 2, s_s99Std}, {"s99Val", "stb99ParamsVal", 6, s_s99Val},
	{"cvcWrap", "btokCVCWrap", 8, s_cvcWrap}, {"cvcUnwrap", "btokCVCUnwrap", 8, s_cvcUnwrap}, {"cvcIss", "btokCVCIss", 8, s_cvcIss},
	{"cvcVal", "btokCVCVal", 8, s_cvcVal}, {"cvcVal2", "btokCVCVal2", 8, s_cvcVal2}, {"cvcMatch", "btokCVCMatch", 5, s_cvcMatch},
	{"smCmdW", "btokSMCmdWrap", 4, s_smCmdW}, {"smCmdU", "btokSMCmdUnwrap", 7, s_smCmdU},
	{"smRespW", "btokSMRespWrap", 3, s_smRespW}, {"smRespU", "btokSMRespUnwrap", 6, s_smRespU},
	{"baTStart", "btokBAuthTStart", 7, s_baTStart}, {"baCTStart", "btokBAuthCTStart", 6, s_baCTStart},
	{"baCT2", "btokBAuthCTStep2", 4, s_baCT2}, {"baT3", "btokBAuthTStep3", 4, s_baT3}, {"baCT4", "btokBAuthCTStep4", 4, s_baCT4},
	{"baT5", "btokBAuthTStep5", 7, s_baT5},
	{"bakeKDF", "bakeKDF", 2, s_bakeKDF}, {"bakeSWU", "bakeSWU", 3, s_bakeSWU},
	{"bmqvB", "bakeBMQVRunB", 13, s_bmqvB}, {"bmqvA", "bakeBMQVRunA", 12, s_bmqvA},
	{"bpaceB", "bakeBPACERunB", 12, s_bpaceB}, {"bpaceA", "bakeBPACERunA", 12, s_bpaceA},
	{"bstsB2", "bakeBSTSRunB", 10, s_bstsB2}, {"bstsA2", "bakeBSTSRunA", 10, s_bstsA2},
	{"bstsS4", "bakeBSTSStep4", 4, s_bstsS4}, {"bstsS5", "bakeBSTSStep5", 4, s_bstsS5},
	{"kwpUx", "beltKWPUnwrap", 28, s_kwpUx}, {"kwpWx", "beltKWPWrap", 7, s_kwpWx},
	{"bignKUx", "bignKeyUnwrap", 28, s_bignKUx}, {"bignKWx", "bignKeyWrap", 7, s_bignKWx},
	{"dwpUx", "beltDWPUnwrap", 28, s_dwpUx}, {"cheUx", "beltCHEUnwrap", 28, s_cheUx},
	{"hotpx", "botpHOTPRand", 6, s_hotpx}, {"hotpVx", "botpHOTPVerify", 12, s_hotpVx}, {"totpx", "botpTOTPVerify", 12, s_totpx},
	{"hmacx", "beltHMAC", 6, s_hmacx}, {"brnghx", "brngHMACRand", 6, s_brnghx}, {"pbkdfx", "beltPBKDF2", 5, s_pbkdfx},
	{"bpkiPUx", "bpkiPrivkeyUnwrap", 1, s_bpkiPUx}, {"bignKUoc", "bignKeyUnwrap", 1, s_bignKUoc},
	{"bkSign", "bignSign", 2, s_bkSign}, {"bkSign2", "bignSign2", 2, s_bkSign2}, {"bkCalc", "bignPubkeyCalc", 2, s_bkCalc},
	{"bkVal", "bignKeypairVal", 2, s_bkVal}, {"bkDH", "bignDH", 2, s_bkDH}, {"bkKU", "bignKeyUnwrap", 2, s_bkKU},
	{"bk96Sign", "bign96Sign", 2, s_bk96Sign}, {"bk96Sign2", "bign96Sign2", 2, s_bk96Sign2}, {"bk96Calc", "bign96PubkeyCalc", 2, s_bk96Calc},
	{"bk96Val", "bign96KeypairVal", 2, s_bk96Val}, {"bkG12", "g12sSign", 2, s_bkG12}, {"bkDstu", "dstuSign", 2, s_bkDstu},
	{"bkCVCW", "btokCVCWrap", 2, s_bkCVCW}, {"bkPf", "pfokPubkeyCalc", 1, s_bkPf0}, {"bkPfDH", "pfokDH", 1, s_bkPf1}, {"bkPfMTI", "pfokMTI", 1, s_bkPf2},
	{"bkPwdP", "bpkiPrivkeyUnwrap", 1, s_bkPwd0}, {"bkPwdS", "bpkiShareUnwrap", 1, s_bkPwd1},
	{"belsR2f", "belsRecover2", 15, s_belsR2f}, {"bpkiSWf", "bpkiShareWrap", 5, s_bpkiSWf}, {"ocraf", "botpOCRARand", 6, s_ocraf},
	{"belsStdM", "belsStdM", 3, s_belsStdM}, {"belsValM", "belsValM", 4, s_belsValM}, {"belsGenM0", "belsGenM0", 4, s_belsGenM0},
	{"belsGenMi", "belsGenMi", 6, s_belsGenMi}, {"belsGenMid", "belsGenMid", 3, s_belsGenMid},
	{"csrRe", "bpkiCSRRewrap", 5, s_csrRe}, {"csrUn", "bpkiCSRUnwrap", 5, s_csrUn},
	{"bpkiPW2", "bpkiPrivkeyWrap", 4, s_bpkiPW2}, {"bpkiPU2", "bpkiPrivkeyUnwrap", 5, s_bpkiPU2},
};
#endif

/* Second table of C09/C15 scenarios (included by c09_common.h under -DC09_SCEN2, after SCEN[]):
   bign96, bign (verify / validation / identity-based signatures), pfok, g12s, dstu, stb99,
   btok (CVC, SM, BAUTH steps), bake (KDF, SWU, BMQV, BPACE), bels (public keys), bpki (CSR,
   containers for the other key lengths).

   Conventions are those of c09_common.h: one scenario = one high-level err_t function,
   var 0 = success, var >= 1 = one distinct error exit each; secrets are registered before RUN,
   outputs ([out] buffers only, never in/out ones) after the inputs have been prepared;
   g_expect = the code the header promises; g_outdoc = 1 only where the header says that the output
   may be zeroised. */
#ifndef BEE2V_C09_SCEN2_H
#define BEE2V_C09_SCEN2_H
#include "bee2/core/apdu.h"
#include "bee2/core/rng.h"
#include "bee2/crypto/bign96.h"
#include "bee2/crypto/btok.h"
#include "bee2/crypto/dstu.h"
#include "bee2/crypto/g12s.h"
#include "bee2/crypto/pfok.h"
#include "bee2/crypto/stb99.h"

/* ------------------------------------------------------------------ helpers */
/* generators that can never produce an acceptable value */
static void rng_zero(void* buf, size_t count, void* state) { memset(buf, 0, count); }
static void rng_ff(void* buf, size_t count, void* state) { memset(buf, 0xFF, count); }
/* constant polynomial x (bels: minimal polynomial of x is the modulus itself) */
static void ang_x(void* buf, size_t count, void* state) { memset(buf, 0, count); if (count) ((octet*)buf)[0] = 2; }

/* copies of valid bign / bign96 parameters that are rejected before (l) or after (a >= p) the
   state has been allocated */
static bign_params PBAD[1];
static const bign_params* params_bad(const bign_params* good, int after_alloc)
{
	memcpy(PBAD, good, sizeof PBAD);
	if (after_alloc) memset(PBAD->a, 0xFF, good->l / 4);
	else PBAD->l = good->l + 1;
	return PBAD;
}

/* ------------------------------------------------------------------ bign96 */
static bign_params P96[1];
static unsigned char PRIV96[24], PUB96[48];
static int b96_ready;
static void b96_setup(void)
{
	int i;
	if (b96_ready) return;
	bign96ParamsStd(P96, "1.2.112.0.2.0.34.101.45.3.0");
	for (i = 0; i < 24; ++i) PRIV96[i] = (unsigned char)(0x29 + 3 * i + (i * i) % 7);
	PRIV96[23] &= 0x7F;
	bign96PubkeyCalc(PUB96, P96, PRIV96);
	b96_ready = 1;
}
#define B96_PRE material(); bign_setup(); b96_setup(); oid_setup(); sec_reset(); out_reset()

static err_t s_b96Gen(int var)
{
	err_t code; B96_PRE;
	sec_add(TAPE, 24, "generated-privkey"); tape_start();
	out_add(BUF1, 24); out_add(BUF1 + 64, 48);
	switch (var)
	{
	case 0: g_expect = ERR_OK; return RUN("bign96KeypairGen", bign96KeypairGen(BUF1, BUF1 + 64, P96, prngEchoStepR, ECHO));
	case 1: g_expect = ERR_BAD_RNG; return RUN("bign96KeypairGen", bign96KeypairGen(BUF1, BUF1 + 64, P96, rng_zero, 0));
	case 2: g_expect = ERR_BAD_RNG; return RUN("bign96KeypairGen", bign96KeypairGen(BUF1, BUF1 + 64, P96, 0, 0));
	case 3: g_expect = ERR_BAD_PARAMS; return RUN("bign96KeypairGen", bign96KeypairGen(BUF1, BUF1 + 64, params_bad(P96, 0), prngEchoStepR, ECHO));
	}
	g_expect = ERR_BAD_PARAMS; return RUN("bign96KeypairGen", bign96KeypairGen(BUF1, BUF1 + 64, params_bad(P96, 1), prngEchoStepR, ECHO));
}
static err_t s_b96KVal(int var)
{
	err_t code; B96_PRE;
	memcpy(BUF2, PRIV96, 24); memcpy(BUF3, PUB96, 48);
	g_expect = ERR_OK;
	if (var == 1) BUF3[7] ^= 1, g_expect = ERR_BAD_PUBKEY;
	if (var == 2) memset(BUF2, 0, 24), g_expect = ERR_BAD_PRIVKEY;
	if (var == 3) memset(BUF2, 0xFF, 24), g_expect = ERR_BAD_PRIVKEY;
	if (var < 2 || var == 4) sec_add(BUF2, 24, "privkey");
	if (var == 4) { g_expect = ERR_BAD_PARAMS; return RUN("bign96KeypairVal", bign96KeypairVal(params_bad(P96, 1), BUF2, BUF3)); }
	return RUN("bign96KeypairVal", bign96KeypairVal(P96, BUF2, BUF3));
}
static err_t s_b96Calc(int var)
{
	err_t code; B96_PRE;
	memcpy(BUF2, PRIV96, 24);
	if (var == 1) memset(BUF2, 0xFF, 24);
	if (var == 2) memset(BUF2, 0, 24);
	if (var == 0 || var >= 3) sec_add(BUF2, 24, "privkey");
	out_add(BUF1, 48);
	g_expect = var == 0 ? ERR_OK : var <= 2 ? ERR_BAD_PRIVKEY : ERR_BAD_PARAMS;
	if (var == 3) return RUN("bign96PubkeyCalc", bign96PubkeyCalc(BUF1, params_bad(P96, 0), BUF2));
	if (var == 4) return RUN("bign96PubkeyCalc", bign96PubkeyCalc(BUF1, params_bad(P96, 1), BUF2));
	return RUN("bign96PubkeyCalc", bign96PubkeyCalc(BUF1, P96, BUF2));
}
static err_t s_b96PVal(int var)
{
	err_t code; B96_PRE;
	memcpy(BUF3, PUB96, 48);
	if (var == 1) BUF3[30] ^= 0x08;             /* off the curve */
	if (var == 2) memset(BUF3, 0xFF, 24);       /* x >= p */
	g_expect = var == 0 ? ERR_OK : var <= 2 ? ERR_BAD_PUBKEY : ERR_BAD_PARAMS;
	if (var == 3) return RUN("bign96PubkeyVal", bign96PubkeyVal(params_bad(P96, 1), BUF3));
	return RUN("bign96PubkeyVal", bign96PubkeyVal(P96, BUF3));
}
static err_t s_b96Sign(int var)
{
	err_t code; B96_PRE;
	memcpy(BUF2, PRIV96, 24);
	if (var == 1) memset(BUF2, 0, 24);
	if (var != 1) sec_add(BUF2, 24, "privkey");
	sec_add(TAPE, 24, "nonce-k"); tape_start();
	out_add(BUF1, 34);
	switch (var)
	{
	case 0: g_expect = ERR_OK; return RUN("bign96Sign", bign96Sign(BUF1, P96, OIDDER, OIDLEN, DATA, BUF2, prngEchoStepR, ECHO));
	case 1: g_expect = ERR_BAD_PRIVKEY; return RUN("bign96Sign", bign96Sign(BUF1, P96, OIDDER, OIDLEN, DATA, BUF2, prngEchoStepR, ECHO));
	case 2: g_expect = ERR_BAD_OID; return RUN("bign96Sign", bign96Sign(BUF1, P96, OIDDER, OIDLEN - 1, DATA, BUF2, prngEchoStepR, ECHO));
	case 3: g_expect = ERR_BAD_RNG; return RUN("bign96Sign", bign96Sign(BUF1, P96, OIDDER, OIDLEN, DATA, BUF2, rng_ff, 0));
	case 4: g_expect = ERR_BAD_RNG; return RUN("bign96Sign", bign96Sign(BUF1, P96, OIDDER, OIDLEN, DATA, BUF2, 0, 0));
	case 5: g_expect = ERR_BAD_INPUT; return RUN("bign96Sign", bign96Sign(BUF1, P96, OIDDER, OIDLEN, BUF1 + 10, BUF2, prngEchoStepR, ECHO));   /* hash inside sig */
	}
	g_expect = ERR_BAD_PARAMS; return RUN("bign96Sign", bign96Sign(BUF1, params_bad(P96, 1), OIDDER, OIDLEN, DATA, BUF2, prngEchoStepR, ECHO));
}
static err_t s_b96Sign2(int var)
{
	err_t code; B96_PRE;
	memcpy(BUF2, PRIV96, 24);
	if (var == 1) memset(BUF2, 0xFF, 24);
	if (var != 1) sec_add(BUF2, 24, "privkey");
	out_add(BUF1, 34);
	switch (var)
	{
	case 0: g_expect = ERR_OK; return RUN("bign96Sign2", bign96Sign2(BUF1, P96, OIDDER, OIDLEN, DATA, BUF2, DATA + 100, 20));
	case 1: g_expect = ERR_BAD_PRIVKEY; return RUN("bign96Sign2", bign96Sign2(BUF1, P96, OIDDER, OIDLEN, DATA, BUF2, 0, 0));
	case 2: g_expect = ERR_BAD_OID; return RUN("bign96Sign2", bign96Sign2(BUF1, P96, OIDDER, SIZE_MAX, DATA, BUF2, 0, 0));
	case 3: g_expect = ERR_BAD_INPUT; return RUN("bign96Sign2", bign96Sign2(BUF1, P96, OIDDER, OIDLEN, BUF1 + 33, BUF2, 0, 0));   /* hash overlaps sig */
	}
	g_expect = ERR_BAD_PARAMS; return RUN("bign96Sign2", bign96Sign2(BUF1, params_bad(P96, 0), OIDDER, OIDLEN, DATA, BUF2, 0, 0));
}
static err_t s_b96Ver(int var)
{
	err_t code; B96_PRE;
	bign96Sign2(BUF2, P96, OIDDER, OIDLEN, DATA, PRIV96, 0, 0);
	memcpy(BUF3, PUB96, 48);
	if (var == 1) BUF2[0] ^= 1;                    /* s0 changed */
	if (var == 2) memset(BUF2 + 10, 0xFF, 24);     /* s1 >= q */
	if (var == 3) BUF3[0] ^= 1;                    /* key off the curve */
	if (var == 6) memset(BUF3, 0xFF, 24);          /* x >= p */
	g_expect = var == 0 ? ERR_OK : var <= 2 || var == 7 ? ERR_BAD_SIG : var == 3 || var == 6 ? ERR_BAD_PUBKEY : var == 4 ? ERR_BAD_OID : ERR_BAD_PARAMS;
	if (var == 4) return RUN("bign96Verify", bign96Verify(P96, OIDDER, OIDLEN - 2, DATA, BUF2, BUF3));
	if (var == 5) return RUN("bign96Verify", bign96Verify(params_bad(P96, 1), OIDDER, OIDLEN, DATA, BUF2, BUF3));
	return RUN("bign96Verify", bign96Verify(P96, OIDDER, OIDLEN, DATA + (var == 7 ? 1 : 0), BUF2, BUF3));
}
static err_t s_b96PrmVal(int var)
{
	err_t code; B96_PRE;
	memcpy(PBAD, P96, sizeof PBAD);
	if (var == 1) PBAD->seed[0] ^= 1;      /* b does not follow from the seed */
	if (var == 2) PBAD->yG[0] ^= 1;        /* base point off the curve */
	if (var == 3) PBAD->l = 128;
	g_expect = var == 0 ? ERR_OK : ERR_BAD_PARAMS;
	return RUN("bign96ParamsVal", bign96ParamsVal(PBAD));
}

/* ------------------------------------------------------------------ bign: verification, validation, generator failure */
#define BIGN_PRE material(); bign_setup(); oid_setup(); sec_reset(); out_reset()
static err_t s_bignVer(int var)
{
	err_t code; BIGN_PRE;
	bignSign2(BUF2, PARAMS, OIDDER, OIDLEN, DATA, PRIV, 0, 0);
	memcpy(BUF3, PUB, 64);
	if (var == 1) BUF2[3] ^= 0x80;                 /* s0 changed */
	if (var == 2) memset(BUF2 + 16, 0xFF, 32);     /* s1 >= q */
	if (var == 3) BUF3[40] ^= 0x20;                /* key off the curve */
	if (var == 4) memset(BUF3 + 32, 0xFF, 32);     /* y >= p */
	g_expect = var == 0 ? ERR_OK : var <= 2 || var == 7 ? ERR_BAD_SIG : var <= 4 ? ERR_BAD_PUBKEY : var == 5 ? ERR_BAD_OID : ERR_BAD_PARAMS;
	if (var == 5) return RUN("bignVerify", bignVerify(PARAMS, OIDDER, OIDLEN + 1, DATA, BUF2, BUF3));
	if (var == 6) return RUN("bignVerify", bignVerify(params_bad(PARAMS, 1), OIDDER, OIDLEN, DATA, BUF2, BUF3));
	return RUN("bignVerify", bignVerify(PARAMS, OIDDER, OIDLEN, DATA + (var == 7 ? 1 : 0), BUF2, BUF3));   /* 7: other hash */
}
static err_t s_bignPVal(int var)
{
	err_t code; BIGN_PRE;
	memcpy(BUF3, PUB, 64);
	if (var == 1) BUF3[40] ^= 0x20;
	if (var == 2) memset(BUF3, 0xFF, 32);
	g_expect = var == 0 ? ERR_OK : var <= 2 ? ERR_BAD_PUBKEY : ERR_BAD_PARAMS;
	if (var == 3) return RUN("bignPubkeyVal", bignPubkeyVal(params_bad(PARAMS, 0), BUF3));
	if (var == 4) return RUN("bignPubkeyVal", bignPubkeyVal(params_bad(PARAMS, 1), BUF3));
	return RUN("bignPubkeyVal", bignPubkeyVal(PARAMS, BUF3));
}
static err_t s_bignPrmVal(int var)
{
	err_t code; BIGN_PRE;
	memcpy(PBAD, PARAMS, sizeof PBAD);
	if (var == 1) PBAD->seed[0] ^= 1;
	if (var == 2) PBAD->yG[0] ^= 1;
	if (var == 3) PBAD->l = 129;
	if (var == 4) memset(PBAD->a, 0xFF, 32);
	g_expect = var == 0 ? ERR_OK : ERR_BAD_PARAMS;
	return RUN("bignParamsVal", bignParamsVal(PBAD));
}
/* bignKeypairGen: the generator never yields a value in {1,...,q-1} / is absent; bad parameters */
static err_t s_bignGen2(int var)
{
	err_t code; BIGN_PRE;
	tape_start();
	out_add(BUF1, 32); out_add(BUF1 + 64, 64);
	switch (var)
	{
	case 0: g_expect = ERR_BAD_RNG; return RUN("bignKeypairGen", bignKeypairGen(BUF1, BUF1 + 64, PARAMS, rng_zero, 0));
	case 1: g_expect = ERR_BAD_RNG; return RUN("bignKeypairGen", bignKeypairGen(BUF1, BUF1 + 64, PARAMS, rng_ff, 0));
	case 2: g_expect = ERR_BAD_RNG; return RUN("bignKeypairGen", bignKeypairGen(BUF1, BUF1 + 64, PARAMS, 0, 0));
	case 3: g_expect = ERR_BAD_PARAMS; return RUN("bignKeypairGen", bignKeypairGen(BUF1, BUF1 + 64, params_bad(PARAMS, 0), prngEchoStepR, ECHO));
	}
	g_expect = ERR_BAD_PARAMS; return RUN("bignKeypairGen", bignKeypairGen(BUF1, BUF1 + 64, params_bad(PARAMS, 1), prngEchoStepR, ECHO));
}

/* identity-based signatures (bign_test.c): the trusted party PRIV/PUB signs the hash of the
   identifier; the pair (id_privkey, id_pubkey) is extracted from that signature */
static unsigned char IDHASH[32], IDSIG[48], IDPRIV[32], IDPUB[64];
static void id_setup(void)
{
	beltHash(IDHASH, DATA + 500, 9);
	bignSign2(IDSIG, PARAMS, OIDDER, OIDLEN, IDHASH, PRIV, 0, 0);
	memcpy(BUF3 + 1024, PUB, 64);
	bignIdExtract(IDPRIV, IDPUB, PARAMS, OIDDER, OIDLEN, IDHASH, IDSIG, BUF3 + 1024);
}
static err_t s_bignIdExt(int var)
{
	err_t code; BIGN_PRE; id_setup();
	memcpy(BUF2, IDSIG, 48); memcpy(BUF3, PUB, 64);
	sec_add(IDPRIV, 32, "id-privkey");
	if (var == 1) BUF2[1] ^= 0x10;                 /* s0 changed */
	if (var == 2) memset(BUF2 + 16, 0xFF, 32);     /* s1 >= q */
	if (var == 3) BUF3[40] ^= 0x20;                /* trusted key off the curve */
	out_add(BUF1, 32); out_add(BUF1 + 64, 64);
	g_expect = var == 0 ? ERR_OK : var <= 2 ? ERR_BAD_SIG : var == 3 ? ERR_BAD_PUBKEY : var == 4 ? ERR_BAD_OID : ERR_BAD_PARAMS;
	if (var == 4) return RUN("bignIdExtract", bignIdExtract(BUF1, BUF1 + 64, PARAMS, OIDDER, OIDLEN - 1, IDHASH, BUF2, BUF3));
	if (var == 5) return RUN("bignIdExtract", bignIdExtract(BUF1, BUF1 + 64, params_bad(PARAMS, 1), OIDDER, OIDLEN, IDHASH, BUF2, BUF3));
	return RUN("bignIdExtract", bignIdExtract(BUF1, BUF1 + 64, PARAMS, OIDDER, OIDLEN, IDHASH, BUF2, BUF3));
}
static err_t s_bignIdSign(int var)
{
	err_t code; BIGN_PRE; id_setup();
	memcpy(BUF2, IDPRIV, 32);
	if (var == 1) memset(BUF2, 0xFF, 32);
	if (var != 1) sec_add(BUF2, 32, "id-privkey");
	sec_add(TAPE, 32, "nonce-k"); tape_start();
	out_add(BUF1, 48);
	switch (var)
	{
	case 0: g_expect = ERR_OK; return RUN("bignIdSign", bignIdSign(BUF1, PARAMS, OIDDER, OIDLEN, IDHASH, DATA, BUF2, prngEchoStepR, ECHO));
	case 1: g_expect = ERR_BAD_PRIVKEY; return RUN("bignIdSign", bignIdSign(BUF1, PARAMS, OIDDER, OIDLEN, IDHASH, DATA, BUF2, prngEchoStepR, ECHO));
	case 2: g_expect = ERR_BAD_OID; return RUN("bignIdSign", bignIdSign(BUF1, PARAMS, OIDDER, OIDLEN - 1, IDHASH, DATA, BUF2, prngEchoStepR, ECHO));
	case 3: g_expect = ERR_BAD_RNG; return RUN("bignIdSign", bignIdSign(BUF1, PARAMS, OIDDER, OIDLEN, IDHASH, DATA, BUF2, rng_zero, 0));
	case 4: g_expect = ERR_BAD_RNG; return RUN("bignIdSign", bignIdSign(BUF1, PARAMS, OIDDER, OIDLEN, IDHASH, DATA, BUF2, 0, 0));
	}
	g_expect = ERR_BAD_PARAMS; return RUN("bignIdSign", bignIdSign(BUF1, params_bad(PARAMS, 1), OIDDER, OIDLEN, IDHASH, DATA, BUF2, prngEchoStepR, ECHO));
}
static err_t s_bignIdSign2(int var)
{
	err_t code; BIGN_PRE; id_setup();
	memcpy(BUF2, IDPRIV, 32);
	if (var == 1) memset(BUF2, 0xFF, 32);
	if (var != 1) sec_add(BUF2, 32, "id-privkey");
	out_add(BUF1, 48);
	switch (var)
	{
	case 0: g_expect = ERR_OK; return RUN("bignIdSign2", bignIdSign2(BUF1, PARAMS, OIDDER, OIDLEN, IDHASH, DATA, BUF2, DATA + 64, 23));
	case 1: g_expect = ERR_BAD_PRIVKEY; return RUN("bignIdSign2", bignIdSign2(BUF1, PARAMS, OIDDER, OIDLEN, IDHASH, DATA, BUF2, 0, 0));
	case 2: g_expect = ERR_BAD_OID; return RUN("bignIdSign2", bignIdSign2(BUF1, PARAMS, OIDDER, OIDLEN - 1, IDHASH, DATA, BUF2, 0, 0));
	}
	g_expect = ERR_BAD_PARAMS; return RUN("bignIdSign2", bignIdSign2(BUF1, params_bad(PARAMS, 1), OIDDER, OIDLEN, IDHASH, DATA, BUF2, 0, 0));
}
static err_t s_bignIdVer(int var)
{
	err_t code; BIGN_PRE; id_setup();
	bignIdSign2(BUF1, PARAMS, OIDDER, OIDLEN, IDHASH, DATA, IDPRIV, 0, 0);
	memcpy(BUF2, IDPUB, 64); memcpy(BUF3, PUB, 64);
	if (var == 1) BUF1[2] ^= 0x01;                 /* s0 changed */
	if (var == 2) memset(BUF1 + 16, 0xFF, 32);     /* s1 >= q */
	if (var == 3) BUF2[40] ^= 0x20;                /* id_pubkey off the curve */
	if (var == 4) BUF3[40] ^= 0x20;                /* pubkey off the curve */
	g_expect = var == 0 ? ERR_OK : var <= 2 || var == 7 ? ERR_BAD_SIG : var <= 4 ? ERR_BAD_PUBKEY : var == 5 ? ERR_BAD_OID : ERR_BAD_PARAMS;
	if (var == 5) return RUN("bignIdVerify", bignIdVerify(PARAMS, OIDDER, OIDLEN - 1, IDHASH, DATA, BUF1, BUF2, BUF3));
	if (var == 6) return RUN("bignIdVerify", bignIdVerify(params_bad(PARAMS, 1), OIDDER, OIDLEN, IDHASH, DATA, BUF1, BUF2, BUF3));
	return RUN("bignIdVerify", bignIdVerify(PARAMS, OIDDER, OIDLEN, IDHASH, DATA + (var == 7 ? 3 : 0), BUF1, BUF2, BUF3));   /* 7: other message */
}

static const scen_t SCEN2[] = {
	{"b96Gen", "bign96KeypairGen", 5, s_b96Gen}, {"b96KVal", "bign96KeypairVal", 5, s_b96KVal},
	{"b96Calc", "bign96PubkeyCalc", 5, s_b96Calc}, {"b96PVal", "bign96PubkeyVal", 4, s_b96PVal},
	{"b96Sign", "bign96Sign", 7, s_b96Sign}, {"b96Sign2", "bign96Sign2", 5, s_b96Sign2},
	{"b96Ver", "bign96Verify", 8, s_b96Ver}, {"b96PrmVal", "bign96ParamsVal", 4, s_b96PrmVal},
	{"bignVer", "bignVerify", 8, s_bignVer}, {"bignPVal", "bignPubkeyVal", 5, s_bignPVal},
	{"bignPrmVal", "bignParamsVal", 5, s_bignPrmVal}, {"bignGen2", "bignKeypairGen", 5, s_bignGen2},
	{"bignIdExt", "bignIdExtract", 6, s_bignIdExt}, {"bignIdSign", "bignIdSign", 6, s_bignIdSign},
	{"bignIdSign2", "bignIdSign2", 4, s_bignIdSign2}, {"bignIdVer", "bignIdVerify", 8, s_bignIdVer},
};
#endif

/* C11 harness, part 2: high-level functions with several octet buffers about whose overlap the header is
   SILENT (bign, bign96, bels, bake, bpki, btok CVC, dstu, g12s, pfok, hex, u16).  Same conventions as
   harness/c11.c: one exact-size arena, pointer arguments are octet offsets ("N" = null), output
   `<err_t> <arena after the call>`.  Random generators are deterministic tapes seeded by the op.

     bignKeypairGen A priv pub L seed | bignPubkeyCalc A pub priv L | bignDH A key priv pub L keylen
     bignSign A sig oid oidlen hash priv L seed | bignSign2 A sig oid oidlen hash priv t tlen L
     bignKeyWrap A token key len hdr pub L seed | bignKeyUnwrap A key token len hdr priv L
     bignIdExtract A idpriv idpub oid oidlen idhash sig pub L
     bignIdSign A idsig oid oidlen idhash hash idpriv L seed | bignIdSign2 A idsig oid oidlen idhash hash idpriv t tlen L
     bignOidToDER A der countp oid
     bign96KeypairGen A priv pub seed | bign96PubkeyCalc A pub priv | bign96Sign A sig oid oidlen hash priv seed
     bign96Sign2 A sig oid oidlen hash priv t tlen
     belsStdM A m len num | belsGenMi A mi len m0 seed | belsGenMid A mid len m0 id idlen
     belsShare A si count thr len s m0 mi seed | belsShare2 A si count thr len s seed | belsShare3 A si count thr len s
     belsRecover A s count len si m0 mi | belsRecover2 A s count len si
     bakeKDF A key secret slen iv ivlen num | bakeSWU A pt msg L
     bpkiPrivkeyWrap A epki lenp priv privlen pwd pwdlen salt iter | bpkiPrivkeyUnwrap A priv lenp epki epkilen pwd pwdlen
     bpkiShareWrap / bpkiShareUnwrap (same shapes) | bpkiCSRRewrap A csr csrlen priv privlen | bpkiCSRUnwrap A pub lenp csr csrlen
     btokCVCWrap A cert lenp priv privlen pubhex | btokCVCIss A cert lenp certa certalen priva privalen pubhex
     dstuKeypairGen A priv pub i seed | dstuSign A sig hash hashlen priv i ld seed
     g12sKeypairGen A priv pub i seed | g12sSign A sig hash priv i seed
     pfokKeypairGen A priv pub seed | pfokPubkeyCalc A pub priv | pfokDH A key priv pub | pfokMTI A key priv priv1 pub pub1
     hexTo A dest src | hexToRev A dest src   (src = NUL-terminated hex string) | u16From A dest src n | u16To A dest n src
*/
#include <bee2/core/mem.h>
#include <bee2/core/err.h>
#include <bee2/core/util.h>
#include <bee2/core/hex.h>
#include <bee2/core/u16.h>
#include <bee2/core/str.h>
#include <bee2/crypto/bign.h>
#include <bee2/crypto/bign96.h>
#include <bee2/crypto/bels.h>
#include <bee2/crypto/bake.h>
#include <bee2/crypto/bpki.h>
#include <bee2/crypto/btok.h>
#include <bee2/crypto/dstu.h>
#include <bee2/crypto/g12s.h>
#include <bee2/crypto/pfok.h>
static void handle(int argc, char** argv);
#include "common.h"

static octet* A;
static size_t An;
#define IS(s) (strcmp(argv[0], s) == 0)
#define P(i) (strcmp(argv[i], "N") == 0 ? (octet*)0 : A + u_arg(argv[i]))
#define U(i) ((size_t)u_arg(argv[i]))
static void fin(err_t e) { printf("%u ", (unsigned)e); put_hex(A, An); }

typedef struct { unsigned long long x; } tape_t;
static tape_t T[1];
static void tape(void* buf, size_t count, void* state)
{
	tape_t* t = (tape_t*)state;
	octet* b = (octet*)buf;
	while (count--)
	{
		t->x = t->x * 6364136223846793005ULL + 1442695040888963407ULL;
		*b++ = (octet)(t->x >> 56);
	}
}
#define SEED(i) (T->x = 0x9E3779B97F4A7C15ULL ^ (unsigned long long)u_arg(argv[i]))

static int bign_std(bign_params* p, size_t l)
{
	return bignParamsStd(p, l == 128 ? "1.2.112.0.2.0.34.101.45.3.1" : l == 192 ? "1.2.112.0.2.0.34.101.45.3.2" :
		"1.2.112.0.2.0.34.101.45.3.3") == ERR_OK;
}
static const char* dstu_names[] = { "1.2.804.2.1.1.1.1.3.1.1.1.2.0", "1.2.804.2.1.1.1.1.3.1.1.1.2.2", "1.2.804.2.1.1.1.1.3.1.1.1.2.4" };
static const char* g12s_names[] = { "1.2.643.2.2.35.0", "1.2.643.7.1.2.1.2.0", "1.2.643.2.2.35.1" };

static void cvc_fill(btok_cvc_t* cvc, const char* pubhex, int iss)
{
	size_t n;
	octet* pk = hex_arg(pubhex, &n);
	memset(cvc, 0, sizeof *cvc);
	strcpy(cvc->authority, iss ? "BYCA10000000" : "BYCA00000000");
	strcpy(cvc->holder, iss ? "BYCA20000000" : "BYCA10000000");
	memcpy(cvc->pubkey, pk, n > 128 ? 128 : n);
	cvc->pubkey_len = n;
	memcpy(cvc->from, "\x02\x02\x00\x07\x00\x07", 6);
	memcpy(cvc->until, "\x03\x00\x00\x07\x00\x07", 6);
	memset(cvc->hat_eid, 0xEE, 5);
	memset(cvc->hat_esign, 0x77, 2);
	hex_free(pk, n);
}

static void handle(int argc, char** argv)
{
	bign_params bp[1];
	fflush(stdout);
	if (argc < 3) { printf("bad-op"); return; }
	A = hex_arg(argv[1], &An);
#define NEED(n) if (argc < (n)) { printf("bad-op"); goto done; }
	if (IS("bignKeypairGen")) { NEED(6) if (!bign_std(bp, U(4))) { printf("bad-op"); goto done; } SEED(5); fin(bignKeypairGen(P(2), P(3), bp, tape, T)); }
	else if (IS("bignPubkeyCalc")) { NEED(5) bign_std(bp, U(4)); fin(bignPubkeyCalc(P(2), bp, P(3))); }
	else if (IS("bignDH")) { NEED(7) bign_std(bp, U(5)); fin(bignDH(P(2), bp, P(3), P(4), U(6))); }
	else if (IS("bignSign")) { NEED(9) bign_std(bp, U(7)); SEED(8); fin(bignSign(P(2), bp, P(3), U(4), P(5), P(6), tape, T)); }
	else if (IS("bignSign2")) { NEED(10) bign_std(bp, U(9)); fin(bignSign2(P(2), bp, P(3), U(4), P(5), P(6), P(7), U(8))); }
	else if (IS("bignKeyWrap")) { NEED(9) bign_std(bp, U(7)); SEED(8); fin(bignKeyWrap(P(2), bp, P(3), U(4), P(5), P(6), tape, T)); }
	else if (IS("bignKeyUnwrap")) { NEED(8) bign_std(bp, U(7)); fin(bignKeyUnwrap(P(2), bp, P(3), U(4), P(5), P(6))); }
	else if (IS("bignIdExtract")) { NEED(10) bign_std(bp, U(9)); fin(bignIdExtract(P(2), P(3), bp, P(4), U(5), P(6), P(7), P(8))); }
	else if (IS("bignIdSign")) { NEED(10) bign_std(bp, U(8)); SEED(9); fin(bignIdSign(P(2), bp, P(3), U(4), P(5), P(6), P(7), tape, T)); }
	else if (IS("bignIdSign2")) { NEED(11) bign_std(bp, U(10)); fin(bignIdSign2(P(2), bp, P(3), U(4), P(5), P(6), P(7), P(8), U(9))); }
	else if (IS("bignOidToDER")) { NEED(5) fin(bignOidToDER(P(2), (size_t*)P(3), (const char*)P(4))); }
	else if (IS("bign96KeypairGen")) { NEED(5) bign96ParamsStd(bp, "1.2.112.0.2.0.34.101.45.3.0"); SEED(4); fin(bign96KeypairGen(P(2), P(3), bp, tape, T)); }
	else if (IS("bign96PubkeyCalc")) { NEED(4) bign96ParamsStd(bp, "1.2.112.0.2.0.34.101.45.3.0"); fin(bign96PubkeyCalc(P(2), bp, P(3))); }
	else if (IS("bign96Sign")) { NEED(8) bign96ParamsStd(bp, "1.2.112.0.2.0.34.101.45.3.0"); SEED(7); fin(bign96Sign(P(2), bp, P(3), U(4), P(5), P(6), tape, T)); }
	else if (IS("bign96Sign2")) { NEED(9) bign96ParamsStd(bp, "1.2.112.0.2.0.34.101.45.3.0"); fin(bign96Sign2(P(2), bp, P(3), U(4), P(5), P(6), P(7), U(8))); }
	else if (IS("belsStdM")) { NEED(5) fin(belsStdM(P(2), U(3), U(4))); }
	else if (IS("belsGenMi")) { NEED(6) SEED(5); fin(belsGenMi(P(2), U(3), P(4), tape, T)); }
	else if (IS("belsGenMid")) { NEED(7) fin(belsGenMid(P(2), U(3), P(4), P(5), U(6))); }
	else if (IS("belsShare")) { NEED(10) SEED(9); fin(belsShare(P(2), U(3), U(4), U(5), P(6), P(7), P(8), tape, T)); }
	else if (IS("belsShare2")) { NEED(8) SEED(7); fin(belsShare2(P(2), U(3), U(4), U(5), P(6), tape, T)); }
	else if (IS("belsShare3")) { NEED(7) fin(belsShare3(P(2), U(3), U(4), U(5), P(6))); }
	else if (IS("belsRecover")) { NEED(8) fin(belsRecover(P(2), U(3), U(4), P(5), P(6), P(7))); }
	else if (IS("belsRecover2")) { NEED(6) fin(belsRecover2(P(2), U(3), U(4), P(5))); }
	else if (IS("bakeKDF")) { NEED(8) fin(bakeKDF(P(2), P(3), U(4), P(5), U(6), U(7))); }
	else if (IS("bakeSWU")) { NEED(5) bign_std(bp, U(4)); fin(bakeSWU(P(2), bp, P(3))); }
	else if (IS("bpkiPrivkeyWrap")) { NEED(10) fin(bpkiPrivkeyWrap(P(2), (size_t*)P(3), P(4), U(5), P(6), U(7), P(8), U(9))); }
	else if (IS("bpkiShareWrap")) { NEED(10) fin(bpkiShareWrap(P(2), (size_t*)P(3), P(4), U(5), P(6), U(7), P(8), U(9))); }
	else if (IS("bpkiPrivkeyUnwrap")) { NEED(8) fin(bpkiPrivkeyUnwrap(P(2), (size_t*)P(3), P(4), U(5), P(6), U(7))); }
	else if (IS("bpkiShareUnwrap")) { NEED(8) fin(bpkiShareUnwrap(P(2), (size_t*)P(3), P(4), U(5), P(6), U(7))); }
	else if (IS("bpkiCSRRewrap")) { NEED(6) fin(bpkiCSRRewrap(P(2), U(3), P(4), U(5))); }
	else if (IS("bpkiCSRUnwrap")) { NEED(6) fin(bpkiCSRUnwrap(P(2), (size_t*)P(3), P(4), U(5))); }
	else if (IS("btokCVCWrap")) { btok_cvc_t cvc[1]; NEED(7) cvc_fill(cvc, argv[6], 0); fin(btokCVCWrap(P(2), (size_t*)P(3), cvc, P(4), U(5))); }
	else if (IS("btokCVCIss")) { btok_cvc_t cvc[1]; NEED(9) cvc_fill(cvc, argv[8], 1); fin(btokCVCIss(P(2), (size_t*)P(3), cvc, P(4), U(5), P(6), U(7))); }
	else if (IS("dstuKeypairGen") || IS("dstuSign"))
	{
		dstu_params dp[1];
		size_t ci = IS("dstuSign") ? 6 : 4;
		NEED(IS("dstuSign") ? 9 : 6)
		if (U(ci) >= 3 || dstuParamsStd(dp, dstu_names[U(ci)]) != ERR_OK) { printf("bad-op"); goto done; }
		if (IS("dstuKeypairGen")) { SEED(5); fin(dstuKeypairGen(P(2), P(3), dp, tape, T)); }
		else { SEED(8); fin(dstuSign(P(2), dp, U(7), P(3), U(4), P(5), tape, T)); }
	}
	else if (IS("g12sKeypairGen") || IS("g12sSign"))
	{
		g12s_params gp[1];
		size_t ci = IS("g12sSign") ? 5 : 4;
		NEED(IS("g12sSign") ? 7 : 6)
		if (U(ci) >= 3 || g12sParamsStd(gp, g12s_names[U(ci)]) != ERR_OK) { printf("bad-op"); goto done; }
		if (IS("g12sKeypairGen")) { SEED(5); fin(g12sKeypairGen(P(2), P(3), gp, tape, T)); }
		else { SEED(6); fin(g12sSign(P(2), gp, P(3), P(4), tape, T)); }
	}
	else if (IS("pfokKeypairGen") || IS("pfokPubkeyCalc") || IS("pfokDH") || IS("pfokMTI"))
	{
		static pfok_params pp[1];
		if (pfokParamsStd(pp, 0, "test") != ERR_OK) { printf("bad-op"); goto done; }
		if (strcmp(argv[1], "-") == 0 && IS("pfokPubkeyCalc") && argc == 3) { printf("%u %u %u", (unsigned)pp->l, (unsigned)pp->r, (unsigned)pp->n); goto done; }
		if (IS("pfokKeypairGen")) { NEED(5) SEED(4); fin(pfokKeypairGen(P(2), P(3), pp, tape, T)); }
		else if (IS("pfokPubkeyCalc")) { NEED(4) fin(pfokPubkeyCalc(P(2), pp, P(3))); }
		else if (IS("pfokDH")) { NEED(5) fin(pfokDH(P(2), pp, P(3), P(4))); }
		else { NEED(7) fin(pfokMTI(P(2), pp, P(3), P(4), P(5), P(6))); }
	}
	else if (IS("hexTo")) { NEED(4) hexTo(P(2), (const char*)P(3)); printf("0 "); put_hex(A, An); }
	else if (IS("hexToRev")) { NEED(4) hexToRev(P(2), (const char*)P(3)); printf("0 "); put_hex(A, An); }
	else if (IS("u16From")) { NEED(5) u16From((u16*)P(2), P(3), U(4)); printf("0 "); put_hex(A, An); }
	else if (IS("u16To")) { NEED(5) u16To(P(2), U(3), (const u16*)P(4)); printf("0 "); put_hex(A, An); }
	else printf("bad-op");
done:
	hex_free(A, An);
}

/* C02 harness: bign on the real library, three standard parameter sets.

   <ci> = 0/1/2 selects bignParamsStd("1.2.112.0.2.0.34.101.45.3.{1,2,3}").  Octet strings are
   lower-case hex ("-" empty); "N" is the NULL pointer where the API admits one.  Every input
   buffer is an exact-size allocation (ASan traps over-reads).  `tape` is the caller's generator:
   every request is served from the tape, zero octets once it is exhausted; <used> = octets requested.

     params ci                          -> l p a b q yG                 (no octets each)
     oper l p a b q yG                  -> bignIsOperable (0/1) on raw 64-octet fields
     kgen ci tape                       -> err privkey||pubkey used
     kval ci priv pub                   -> err
     pval ci pub                        -> err
     pcalc ci priv                      -> err pubkey
     dh ci priv pub keylen              -> err key
     sign ci oid hash priv tape         -> err sig used
     sign2 ci oid hash priv t|N         -> err sig
     vfy ci oid hash sig pub            -> err
     wrap ci key hdr|N pub tape         -> err token used
     unwrap ci token hdr|N priv         -> err key
     idext ci oid idhash sig pub        -> err id_privkey||id_pubkey
     idsign ci oid idhash hash idpriv tape -> err idsig used
     idsign2 ci oid idhash hash idpriv t|N -> err idsig
     idvfy ci oid idhash hash idsig idpub pub -> err
     wrapip ci key hdr|N pub tape mode  -> as wrap, but key and header are placed INSIDE the token buffer before the call
                                           (mode 0: key at token, header at token+len; 1: both at their final places
                                           token+no, token+no+len; 2: header at token, key at token+16; 3: header at
                                           token+no, key at token+no+16; 4: key at token, header separate)
     unwrapip ci token hdr|N priv       -> as unwrap with key == token + no (decryption in place)
     hash data                          -> belt-hash(data)              (helper of the search oracle)
     wble theta buf / wbld theta buf    -> belt-WBL encryption / decryption of buf under the 32-octet key theta (helpers)
   Outputs are "-" unless err == 0.  Buffers of a wrong length give "bad-op" (same rule in the Lean driver). */
#include <bee2/core/err.h>
#include <bee2/core/mem.h>
#include <bee2/crypto/belt.h>
#include <bee2/crypto/bign.h>
#include "crypto/bign/bign_lcl.h"
static void handle(int argc, char** argv);
#include "common.h"

static const char* std_names[3] = {
	"1.2.112.0.2.0.34.101.45.3.1", "1.2.112.0.2.0.34.101.45.3.2", "1.2.112.0.2.0.34.101.45.3.3" };

typedef struct { const octet* p; size_t len; size_t used; } tape_t;

static void tape_gen(void* buf, size_t count, void* state)
{
	tape_t* t = (tape_t*)state;
	size_t k = t->len < count ? t->len : count;
	memcpy(buf, t->p, k);
	memset((octet*)buf + k, 0, count - k);
	t->p += k, t->len -= k, t->used += count;
}

#define IS(s) (strcmp(argv[0], s) == 0)
#define NARG 8
static octet* B[NARG];
static size_t L[NARG];
static int isnull[NARG];

static void load(int i, const char* s, int nullable)
{
	isnull[i] = 0;
	if (nullable && strcmp(s, "N") == 0) { isnull[i] = 1; B[i] = 0; L[i] = 0; return; }
	B[i] = hex_arg(s, &L[i]);
}
static void unload(int i) { if (!isnull[i] && B[i]) hex_free(B[i], L[i]); B[i] = 0; }

static void out_err(err_t e, const void* buf, size_t n)
{
	printf("%u ", (unsigned)e);
	if (e == ERR_OK) put_hex(buf, n); else fputc('-', stdout);
}

static void handle(int argc, char** argv)
{
	bign_params prm;
	size_t no;
	int i, n = 0;
	err_t e;
	if (argc < 2) { printf("bad-op"); return; }
	if (IS("hash") && argc == 2)
	{
		octet h[32];
		load(0, argv[1], 0);
		beltHash(h, B[0], L[0]);
		put_hex(h, 32);
		unload(0);
		return;
	}
	if ((IS("wble") || IS("wbld")) && argc == 3)
	{
		octet* st = (octet*)malloc(beltWBL_keep());
		load(0, argv[1], 0); load(1, argv[2], 0);
		if (L[0] != 32 || L[1] < 32) printf("bad-op");
		else
		{
			beltWBLStart(st, B[0], 32);
			if (IS("wble")) beltWBLStepE(B[1], L[1], st); else beltWBLStepD(B[1], L[1], st);
			put_hex(B[1], L[1]);
		}
		free(st);
		unload(0); unload(1);
		return;
	}
	if (IS("oper") && argc == 7)
	{
		int ok = 1;
		memset(&prm, 0, sizeof prm);
		prm.l = (size_t)u_arg(argv[1]);
		for (i = 0; i < 5; ++i) { load(i, argv[2 + i], 0); if (L[i] != 64) ok = 0; }
		if (ok)
		{
			memcpy(prm.p, B[0], 64), memcpy(prm.a, B[1], 64), memcpy(prm.b, B[2], 64);
			memcpy(prm.q, B[3], 64), memcpy(prm.yG, B[4], 64);
			printf("%d", bignIsOperable(&prm) ? 1 : 0);
		}
		else printf("bad-op");
		for (i = 0; i < 5; ++i) unload(i);
		return;
	}
	if (strlen(argv[1]) != 1 || argv[1][0] < '0' || argv[1][0] > '2' ||
		bignParamsStd(&prm, std_names[argv[1][0] - '0']) != ERR_OK) { printf("bad-op"); return; }
	no = prm.l / 4;
	if (IS("params") && argc == 2)
	{
		printf("%u ", (unsigned)prm.l);
		put_hex(prm.p, no); fputc(' ', stdout); put_hex(prm.a, no); fputc(' ', stdout);
		put_hex(prm.b, no); fputc(' ', stdout); put_hex(prm.q, no); fputc(' ', stdout);
		put_hex(prm.yG, no);
		return;
	}
#define BAD { printf("bad-op"); goto done; }
	if (IS("kgen") && argc == 3)
	{
		octet* out = (octet*)malloc(3 * no);
		tape_t t;
		load(0, argv[2], 0); n = 1;
		t.p = B[0], t.len = L[0], t.used = 0;
		e = bignKeypairGen(out, out + no, &prm, tape_gen, &t);
		out_err(e, out, 3 * no);
		printf(" %zu", t.used);
		free(out);
	}
	else if (IS("kval") && argc == 4)
	{
		load(0, argv[2], 0); load(1, argv[3], 0); n = 2;
		if (L[0] != no || L[1] != 2 * no) BAD
		printf("%u", (unsigned)bignKeypairVal(&prm, B[0], B[1]));
	}
	else if (IS("pval") && argc == 3)
	{
		load(0, argv[2], 0); n = 1;
		if (L[0] != 2 * no) BAD
		printf("%u", (unsigned)bignPubkeyVal(&prm, B[0]));
	}
	else if (IS("pcalc") && argc == 3)
	{
		octet* out;
		load(0, argv[2], 0); n = 1;
		if (L[0] != no) BAD
		out = (octet*)malloc(2 * no);
		e = bignPubkeyCalc(out, &prm, B[0]);
		out_err(e, out, 2 * no);
		free(out);
	}
	else if (IS("dh") && argc == 5)
	{
		size_t kl = (size_t)u_arg(argv[4]);
		octet* out;
		load(0, argv[2], 0); load(1, argv[3], 0); n = 2;
		if (L[0] != no || L[1] != 2 * no || kl > 4096) BAD
		out = (octet*)malloc(kl ? kl : 1);
		e = bignDH(out, &prm, B[0], B[1], kl);
		out_err(e, out, kl);
		free(out);
	}
	else if (IS("sign") && argc == 6)
	{
		octet* sig;
		tape_t t;
		load(0, argv[2], 0); load(1, argv[3], 0); load(2, argv[4], 0); load(3, argv[5], 0); n = 4;
		if (L[1] != no || L[2] != no) BAD
		t.p = B[3], t.len = L[3], t.used = 0;
		sig = (octet*)malloc(no + no / 2);
		e = bignSign(sig, &prm, B[0], L[0], B[1], B[2], tape_gen, &t);
		out_err(e, sig, no + no / 2);
		printf(" %zu", t.used);
		free(sig);
	}
	else if (IS("sign2") && argc == 6)
	{
		octet* sig;
		load(0, argv[2], 0); load(1, argv[3], 0); load(2, argv[4], 0); load(3, argv[5], 1); n = 4;
		if (L[1] != no || L[2] != no) BAD
		sig = (octet*)malloc(no + no / 2);
		e = bignSign2(sig, &prm, B[0], L[0], B[1], B[2], B[3], L[3]);
		out_err(e, sig, no + no / 2);
		free(sig);
	}
	else if (IS("vfy") && argc == 6)
	{
		load(0, argv[2], 0); load(1, argv[3], 0); load(2, argv[4], 0); load(3, argv[5], 0); n = 4;
		if (L[1] != no || L[2] != no + no / 2 || L[3] != 2 * no) BAD
		printf("%u", (unsigned)bignVerify(&prm, B[0], L[0], B[1], B[2], B[3]));
	}
	else if (IS("wrap") && argc == 6)
	{
		octet* tok;
		tape_t t;
		load(0, argv[2], 0); load(1, argv[3], 1); load(2, argv[4], 0); load(3, argv[5], 0); n = 4;
		if (L[2] != 2 * no || (!isnull[1] && L[1] != 16)) BAD
		t.p = B[3], t.len = L[3], t.used = 0;
		tok = (octet*)malloc(16 + no + L[0]);
		e = bignKeyWrap(tok, &prm, B[0], L[0], B[1], B[2], tape_gen, &t);
		out_err(e, tok, 16 + no + L[0]);
		printf(" %zu", t.used);
		free(tok);
	}
	else if (IS("wrapip") && argc == 7)
	{
		octet* tok;
		octet* kp;
		octet* hp;
		size_t len, mode = (size_t)u_arg(argv[6]);
		tape_t t;
		load(0, argv[2], 0); load(1, argv[3], 1); load(2, argv[4], 0); load(3, argv[5], 0); n = 4;
		len = L[0];
		if (L[2] != 2 * no || (!isnull[1] && L[1] != 16) || mode > 4) BAD
		t.p = B[3], t.len = L[3], t.used = 0;
		tok = (octet*)malloc(16 + no + len);
		memset(tok, 0xA5, 16 + no + len);
		kp = tok + (mode == 1 ? no : mode == 2 ? 16 : mode == 3 ? no + 16 : 0);
		hp = mode == 0 ? tok + len : mode == 1 ? tok + no + len : mode == 2 ? tok : mode == 3 ? tok + no : B[1];
		memcpy(kp, B[0], len);
		if (isnull[1]) hp = 0; else if (mode != 4) memcpy(hp, B[1], 16);
		e = bignKeyWrap(tok, &prm, kp, len, hp, B[2], tape_gen, &t);
		out_err(e, tok, 16 + no + len);
		printf(" %zu", t.used);
		free(tok);
	}
	else if (IS("unwrapip") && argc == 5)
	{
		octet* tok;
		size_t kl;
		load(0, argv[2], 0); load(1, argv[3], 1); load(2, argv[4], 0); n = 3;
		if (L[2] != no || (!isnull[1] && L[1] != 16) || L[0] < no) BAD
		kl = L[0] >= 16 + no ? L[0] - 16 - no : 0;
		tok = (octet*)malloc(L[0] ? L[0] : 1);
		memcpy(tok, B[0], L[0]);
		e = bignKeyUnwrap(tok + no, &prm, tok, L[0], B[1], B[2]);
		out_err(e, tok + no, kl);
		free(tok);
	}
	else if (IS("unwrap") && argc == 5)
	{
		octet* key;
		size_t kl;
		load(0, argv[2], 0); load(1, argv[3], 1); load(2, argv[4], 0); n = 3;
		if (L[2] != no || (!isnull[1] && L[1] != 16)) BAD
		kl = L[0] >= 16 + no ? L[0] - 16 - no : 0;
		key = (octet*)malloc(kl ? kl : 1);
		e = bignKeyUnwrap(key, &prm, B[0], L[0], B[1], B[2]);
		out_err(e, key, kl);
		free(key);
	}
	else if (IS("idext") && argc == 6)
	{
		octet* out;
		load(0, argv[2], 0); load(1, argv[3], 0); load(2, argv[4], 0); load(3, argv[5], 0); n = 4;
		if (L[1] != no || L[2] != no + no / 2 || L[3] != 2 * no) BAD
		out = (octet*)malloc(3 * no);
		e = bignIdExtract(out, out + no, &prm, B[0], L[0], B[1], B[2], B[3]);
		out_err(e, out, 3 * no);
		free(out);
	}
	else if (IS("idsign") && argc == 7)
	{
		octet* sig;
		tape_t t;
		for (i = 0; i < 5; ++i) load(i, argv[2 + i], 0);
		n = 5;
		if (L[1] != no || L[2] != no || L[3] != no) BAD
		t.p = B[4], t.len = L[4], t.used = 0;
		sig = (octet*)malloc(no + no / 2);
		e = bignIdSign(sig, &prm, B[0], L[0], B[1], B[2], B[3], tape_gen, &t);
		out_err(e, sig, no + no / 2);
		printf(" %zu", t.used);
		free(sig);
	}
	else if (IS("idsign2") && argc == 7)
	{
		octet* sig;
		for (i = 0; i < 4; ++i) load(i, argv[2 + i], 0);
		load(4, argv[6], 1);
		n = 5;
		if (L[1] != no || L[2] != no || L[3] != no) BAD
		sig = (octet*)malloc(no + no / 2);
		e = bignIdSign2(sig, &prm, B[0], L[0], B[1], B[2], B[3], B[4], L[4]);
		out_err(e, sig, no + no / 2);
		free(sig);
	}
	else if (IS("idvfy") && argc == 8)
	{
		for (i = 0; i < 6; ++i) load(i, argv[2 + i], 0);
		n = 6;
		if (L[1] != no || L[2] != no || L[3] != no + no / 2 || L[4] != 2 * no || L[5] != 2 * no) BAD
		printf("%u", (unsigned)bignIdVerify(&prm, B[0], L[0], B[1], B[2], B[3], B[4], B[5]));
	}
	else
		printf("bad-op");
done:
	for (i = 0; i < n; ++i) unload(i);
}
